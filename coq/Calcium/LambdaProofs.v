(* Calcium/LambdaProofs.v — the lambda closure of run-and-wait for one created workload: the removal run
   without a fault succeeds; the body only reads, forwards output and waits; [lambda_one_spec]: for EVERY
   world, engine outcome and fault position, if the fault does not fall into the clean-up itself the
   workload is gone (record, container, usage) when the last message is sent. *)
From Coq Require Import List Bool Arith ZArith Lia Permutation.
From Verif Require Import Base.Effects Calcium.World Calcium.Ops Calcium.Run Calcium.EffectsProofs Calcium.OpsProofs Calcium.OpsProofs2 Calcium.InvProofs Calcium.DeployProofs Calcium.DeployProofs2 Calcium.CreateProofs Calcium.CreateProofs2.
Import ListNotations.
Local Open Scope Z_scope.

(* ---- the removal of one workload, run without a fault, succeeds ---- *)
Lemma remove_txn_none : forall n x w p,
  find_wl w (w_id x) = Some x -> find_plug w n = Some p ->
  crunk (remove_txn n x true) w None =
  (oth w (del_wl (w_id x) (wls w)) (upd_plug n (sub_use (w_res x)) (plugs w)) (del_cont (w_id x) (conts w)), None, None).
Proof.
  intros n x w p Hx Hp. unfold find_wl in Hx. unfold find_plug in Hp.
  unfold remove_txn, do_remove_workload, txn, doc, call1, crunk. norm.
  cbn [exec]. look. rewrite Hp. norm. rewrite radd_0_r. cbn [exec]. look. norm.
  rewrite eremove_ok by (left; reflexivity). norm. look. reflexivity.
Qed.

Lemma with_workload_locked_none : forall id (body : wl -> cprog oerr) w x,
  find_wl w id = Some x ->
  exists w1 r, crunk (with_workload_locked id body) w None = (w1, None, r) /\ crunk (body x) w None = (w1, None, r).
Proof.
  intros id body w x Hx. unfold with_workload_locked. unfold crunk. lnorm.
  assert (Hex : exec w (SGetWorkloads [id]) = (w, RWls [x])).
  { cbn [exec forallb flat_map]. rewrite Hx. reflexivity. }
  rewrite Hex. lnorm. cbn [exec]. lnorm. cbn [exec]. lnorm.
  destruct (locked_body_spec (body x) (LWl (w_id x)) w None) as [w' [k' [k2 [r [H1 H2]]]]].
  pose proof (crunk_none_k _ _ _ _ _ _ H1). pose proof (crunk_none_k _ _ _ _ _ _ H2). subst.
  unfold crunk in H1. exists w', r. split; [exact H1|exact H2].
Qed.

Definition removed_world (w : world) (x : wl) : world :=
  oth w (del_wl (w_id x) (wls w)) (upd_plug (w_node x) (sub_use (w_res x)) (plugs w)) (del_cont (w_id x) (conts w)).

Lemma crunk_call1 : forall c w, crunk (call1 c) w None = (fst (exec w c), None, snd (exec w c)).
Proof. intros. unfold call1, crunk. cbn [runk]. destruct (exec w c). destruct (is_faultable c); reflexivity. Qed.

Lemma remove_sync_none : forall id w x nd p,
  find_wl w id = Some x -> find_node w (w_node x) = Some nd -> find_plug w (w_node x) = Some p ->
  crunk (remove false [id] true) w None = (removed_world w x, None, None).
Proof.
  intros id w x nd p Hx Hnd Hp.
  assert (Hid : w_id x = id) by (apply find_wl_id in Hx; tauto).
  unfold remove. rewrite crunk_bind, crunk_call1.
  assert (Hex : exec w (SGetWorkloads [id]) = (w, RWls [x])).
  { cbn [exec forallb flat_map]. rewrite Hx. reflexivity. }
  rewrite Hex. cbn [fst snd].
  cbn [group_by_node existsb]. cbn [for_all fst snd].
  rewrite crunk_bind. rewrite crunk_bind. rewrite crunk_bind.
  match goal with |- context [with_node_pod_locked ?n ?b] =>
    destruct (with_node_pod_locked_none n b w nd Hnd) as [w1 [e [H1 H2]]] end.
  rewrite H1.
  (* the body under the node lock *)
  cbn beta in H2. rewrite crunk_bind in H2. rewrite crunk_bind in H2. unfold remove_one in H2. rewrite crunk_bind in H2.
  destruct (with_workload_locked_none (w_id x) (fun x0 => remove_txn (w_node x) x0 true) w x) as [w2 [r2 [H3 H4]]].
  { rewrite Hid. exact Hx. }
  rewrite H3 in H2. rewrite (remove_txn_none (w_node x) x w p) in H4; [|rewrite Hid; exact Hx|exact Hp].
  inversion H4; subst w2 r2. clear H4.
  unfold maybe_send, skip, rok, crunk in H2. cbn [runk is_ok] in H2. inversion H2; subst w1 e. clear H2.
  unfold maybe_send, skip, rok, crunk. cbn [runk]. reflexivity.
Qed.

(* ---- the body of the lambda closure only reads, sends output and waits ---- *)
Record body_post (id : wid) (w w1 : world) : Prop := {
  bp_pods : pods w1 = pods w; bp_nodes : nodes w1 = nodes w; bp_wls : wls w1 = wls w; bp_plugs : plugs w1 = plugs w;
  bp_strict : strict_remove w1 = strict_remove w; bp_script : script w1 = script w;
  bp_conts : conts w1 = conts w \/ conts w1 = upd_cont id CStopped (conts w);
}.
Lemma body_post_refl : forall id w, body_post id w w.
Proof. intros. constructor; auto. Qed.
Lemma body_post_core : forall id w w1 w2, core3 w1 w (wls w) (conts w) -> body_post id w1 w2 -> body_post id w w2.
Proof.
  intros id w w1 w2 [? [? [? [? [? [? Hc]]]]]] [? ? ? ? ? ? Hc2]. constructor; try congruence.
  all: try (rewrite Hc in Hc2; exact Hc2).
Qed.

Lemma neutral_call : forall c, (forall w, fst (exec w c) = w) -> forall w k, exists k' r, crunk (call1 c) w k = (w, k', r).
Proof.
  intros c Hc w k. unfold call1, crunk. cbn [runk]. pose proof (Hc w) as H.
  destruct (is_faultable c).
  - destruct k as [[|k]|].
    + do 2 eexists; reflexivity.
    + destruct (exec w c) as [w' r]. simpl in *. subst. do 2 eexists; reflexivity.
    + destruct (exec w c) as [w' r]. simpl in *. subst. do 2 eexists; reflexivity.
  - destruct (exec w c) as [w' r]. simpl in *. subst. do 2 eexists; reflexivity.
Qed.
Lemma neutral_doc : forall c, (forall w, fst (exec w c) = w) -> forall w k, exists k' e, crunk (doc c) w k = (w, k', e).
Proof.
  intros c Hc w k. unfold doc. rewrite crunk_bind. destruct (neutral_call c Hc w k) as [k' [r H]]. rewrite H.
  unfold crunk. cbn [runk]. do 2 eexists; reflexivity.
Qed.

Lemma exec_getwl : forall id w, fst (exec w (SGetWorkload id)) = w.
Proof. intros. cbn [exec]. destruct (find_wl w id); reflexivity. Qed.
Lemma exec_logs : forall id w, fst (exec w (ELogs id)) = w.
Proof. intros. cbn [exec]. destruct (find_cont w id); [destruct (ls_logs_err (script w))|]; reflexivity. Qed.
Lemma exec_attach : forall id w, fst (exec w (EAttach id)) = w.
Proof. intros. cbn [exec]. destruct (find_cont w id); [destruct (ls_attach_err (script w))|]; reflexivity. Qed.

Lemma send_exact : forall m w k, crunk (send m) w k = (set_out w (m :: out w), k, tt).
Proof. intros. unfold send, ign, doc, call1, crunk. cbn [bind runk exec is_faultable]. reflexivity. Qed.

Lemma send_lines_exact : forall id n w k,
  crunk (send_lines id n) w k = (set_out w (repeat (MLambdaOut id) n ++ out w), k, tt).
Proof.
  induction n as [|n IH]; intros w k; cbn [send_lines].
  - unfold skip, crunk. cbn [runk repeat app]. destruct w; reflexivity.
  - rewrite crunk_bind, send_exact. rewrite IH. cbn [out set_out].
    replace (repeat (MLambdaOut id) n ++ MLambdaOut id :: out w) with (repeat (MLambdaOut id) (S n) ++ out w).
    + destruct w; reflexivity.
    + change (MLambdaOut id :: out w) with ([MLambdaOut id] ++ out w). rewrite app_assoc.
      change [MLambdaOut id] with (repeat (MLambdaOut id) 1). rewrite <- repeat_app. rewrite Nat.add_1_r. reflexivity.
Qed.

(* what the body does to the channel and the WAL, and what its last message is: the exit code of the process
   exactly when the wait succeeded (then the container has stopped), an error message otherwise *)
Record body_io (id : wid) (w w1 : world) (final : msg) : Prop := {
  bi_walq : walq w1 = walq w; bi_seq : wal_seq w1 = wal_seq w;
  bi_out : exists n, out w1 = repeat (MLambdaOut id) n ++ out w;
  bi_final : (final = MLambdaErr (Some id) /\ conts w1 = conts w) \/
             (final = MLambdaExit id (ls_code (script w)) /\ conts w1 = upd_cont id CStopped (conts w));
}.

Lemma body_io_err : forall id w, body_io id w w (MLambdaErr (Some id)).
Proof. intros. constructor; auto. exists 0%nat. reflexivity. Qed.

Lemma wait_step : forall id w k, exists w1 k' r, crunk (call1 (EWait id)) w k = (w1, k', r) /\ body_post id w w1 /\
  walq w1 = walq w /\ wal_seq w1 = wal_seq w /\ out w1 = out w /\
  match r with
  | RCode c => c = ls_code (script w) /\ conts w1 = upd_cont id CStopped (conts w)
  | _ => conts w1 = conts w
  end.
Proof.
  intros id w k. unfold call1, crunk. destruct k as [[|k]|]; cbn [runk].
  - do 3 eexists. split; [reflexivity|]. split; [apply body_post_refl|]. cbn [fail_reply]. auto.
  - cbn [exec]. destruct (find_cont w id); [destruct (ls_wait_err (script w))|];
      do 3 eexists; (split; [reflexivity|]);
      (split; [first [apply body_post_refl | (constructor; auto; right; reflexivity)]|]); cbn; auto.
  - cbn [exec]. destruct (find_cont w id); [destruct (ls_wait_err (script w))|];
      do 3 eexists; (split; [reflexivity|]);
      (split; [first [apply body_post_refl | (constructor; auto; right; reflexivity)]|]); cbn; auto.
Qed.

Lemma lambda_body_spec : forall stdin lines id w k,
  exists w1 k1 final, crunk (lambda_body stdin lines id) w k = (w1, k1, final) /\ body_post id w w1 /\ body_io id w w1 final.
Proof.
  intros stdin lines id w k. unfold lambda_body. rewrite crunk_bind.
  destruct (neutral_call (SGetWorkload id) (exec_getwl id) w k) as [k1 [r1 H1]]. rewrite H1.
  assert (Hret : forall kk, exists w1 k1 final, crunk (Ret (MLambdaErr (Some id)) : cprog msg) w kk = (w1, k1, final) /\ body_post id w w1 /\ body_io id w w1 final).
  { intros. unfold crunk. cbn [runk]. do 3 eexists. split; [reflexivity|]. split; [apply body_post_refl|apply body_io_err]. }
  destruct r1; try apply Hret.
  rewrite crunk_bind. destruct (neutral_doc (ELogs id) (exec_logs id) w k1) as [k2 [e2 H2]]. rewrite H2.
  destruct e2; [apply Hret|].
  rewrite crunk_bind.
  assert (Htail : forall k3, exists w1 k1' final,
     crunk (send_lines id (if stdin then (lines + lines)%nat else lines) ;;;
            c <- call1 (EWait id) ;;
            match c with
            | RCode code => Ret (MLambdaExit id code)
            | _ => Ret (MLambdaErr (Some id))
            end) w k3 = (w1, k1', final) /\ body_post id w w1 /\ body_io id w w1 final).
  { intros k3. rewrite crunk_bind. rewrite send_lines_exact.
    set (nl := if stdin then (lines + lines)%nat else lines).
    set (w4 := set_out w (repeat (MLambdaOut id) nl ++ out w)).
    rewrite crunk_bind. destruct (wait_step id w4 k3) as [w5 [k5 [r5 [H5 [Hb5 [Hq [Hs [Ho Hr]]]]]]]]. rewrite H5.
    assert (Hbp : body_post id w w5). { destruct Hb5 as [? ? ? ? ? ? Hc]. constructor; auto. }
    assert (Hio : forall fin, (fin = MLambdaErr (Some id) /\ conts w5 = conts w) \/
                              (fin = MLambdaExit id (ls_code (script w)) /\ conts w5 = upd_cont id CStopped (conts w)) ->
                              body_io id w w5 fin).
    { intros fin Hf. constructor; auto. exists nl. rewrite Ho. reflexivity. }
    destruct r5; unfold crunk; cbn [runk]; do 3 eexists; (split; [reflexivity|]); (split; [exact Hbp|]); apply Hio;
      try (left; split; [reflexivity|exact Hr]).
    right. destruct Hr as [-> Hc]. split; [reflexivity|exact Hc]. }
  destruct stdin.
  - destruct (neutral_doc (EAttach id) (exec_attach id) w k2) as [k3 [e3 H3]]. rewrite H3.
    destruct e3; [apply Hret|apply Htail].
  - unfold rok. rewrite crunk_ret. apply Htail.
Qed.

Lemma find_del_cont_none : forall l id, find (fun y => wid_eqb (c_id y) id) (del_cont id l) = None.
Proof.
  induction l as [|y t IH]; intros id; simpl; [reflexivity|].
  destruct (wid_eqb (c_id y) id) eqn:E; simpl; [apply IH|rewrite E; apply IH].
Qed.

Lemma find_filter_none' : forall {A} (f g : A -> bool) l, find f l = None -> find f (filter g l) = None.
Proof.
  intros A f g l. induction l as [|y t IH]; simpl; intros H; [reflexivity|].
  destruct (f y) eqn:E; [discriminate|]. destruct (g y); simpl; [rewrite E|]; auto.
Qed.

Lemma find_upd_none' : forall l id j st, find (fun y => wid_eqb (c_id y) j) l = None ->
  find (fun y => wid_eqb (c_id y) j) (upd_cont id st l) = None.
Proof.
  induction l as [|y t IH]; intros id j st H; simpl in *; [reflexivity|].
  destruct (wid_eqb (c_id y) j) eqn:E; [discriminate|].
  destruct (wid_eqb (c_id y) id) eqn:E2; simpl.
  - apply wid_eqb_eq in E2. rewrite <- E2. rewrite E. apply IH. exact H.
  - rewrite E. apply IH. exact H.
Qed.

Record lambda_removed (id : wid) (x : wl) (w w' : world) : Prop := {
  lr_wls : wls w' = del_wl id (wls w);
  lr_plugs : plugs w' = upd_plug (w_node x) (sub_use (w_res x)) (plugs w);
  lr_norec : find_wl w' id = None;
  lr_nocont : find_cont w' id = None;
  lr_nodes : nodes w' = nodes w;
  lr_conts_frame : forall j, find_cont w j = None -> find_cont w' j = None;   (* no container appears *)
}.

(* the clean-up, run without a fault, removes the workload (record, container, usage), commits the WAL entry
   (no entry with the token is left) and sends the last message as the last thing it does *)
Lemma cleanup_none : forall id tok final w0 w x nd p,
  body_post id w0 w -> find_wl w0 id = Some x -> find_node w0 (w_node x) = Some nd -> find_plug w0 (w_node x) = Some p ->
  exists w', crunk (lambda_cleanup id tok final) w None = (w', None, tt) /\ lambda_removed id x w0 w' /\
    out w' = final :: out w /\
    walq w' = filter (fun e => negb (Nat.eqb (fst e) tok)) (walq w).
Proof.
  intros id tok final w0 w x nd p [Hp Hn Hw Hpl Hs Hsc Hc] Hx Hnd Hplug.
  assert (Hid : w_id x = id) by (apply find_wl_id in Hx; tauto).
  unfold lambda_cleanup. rewrite crunk_bind. unfold ign at 1. rewrite crunk_bind.
  rewrite (remove_sync_none id w x nd p); [| unfold find_wl; rewrite Hw; exact Hx | unfold find_node; rewrite Hn; exact Hnd | unfold find_plug; rewrite Hpl; exact Hplug].
  rewrite crunk_ret. rewrite crunk_bind. unfold ign, doc, call1. unfold crunk at 1. cbn [bind runk exec is_faultable].
  unfold send, ign, doc, call1, crunk. cbn [bind runk exec is_faultable].
  eexists. split; [reflexivity|]. split; [|split; reflexivity].
  constructor; cbn [wls plugs nodes conts out set_out set_wal removed_world oth find_wl find_cont]; try rewrite Hid.
  - rewrite Hw. reflexivity.
  - rewrite Hpl. reflexivity.
  - unfold find_wl. cbn [wls set_out set_wal removed_world oth]. rewrite Hid. apply find_del_none.
  - unfold find_cont. cbn [conts set_out set_wal removed_world oth]. rewrite Hid. apply find_del_cont_none.
  - exact Hn.
  - intros j Hj. unfold find_cont in *. cbn [conts set_out set_wal removed_world oth]. unfold del_cont. apply find_filter_none'.
    destruct Hc as [-> | ->]; [exact Hj|]. apply find_upd_none'. exact Hj.
Qed.

Lemma filter_token_fresh : forall (q : list (nat * event)) t ev, (forall e, ~ In (t, e) q) ->
  filter (fun e => negb (Nat.eqb (fst e) t)) (q ++ [(t, ev)]) = q.
Proof.
  intros q t ev H. rewrite filter_app. simpl. rewrite Nat.eqb_refl. simpl. rewrite app_nil_r.
  apply filter_true. intros [t' e'] Hin. simpl. destruct (Nat.eqb t' t) eqn:E; [|reflexivity].
  apply Nat.eqb_eq in E. subst. exfalso. eapply H; eauto.
Qed.

(* what the closure has done when it ends, if its clean-up ran undisturbed *)
Record closure_post (id : wid) (x : wl) (w w' : world) : Prop := {
  cl_removed : lambda_removed id x w w';                 (* no record, no container, usage given back *)
  cl_wal : walq w' = walq w;                             (* the closure's WAL entry is committed: the queue is what it was *)
  (* the channel: forwarded output, then ONE last message, nothing after it; the last message carries the
     process's exit code exactly when the wait succeeded, an error otherwise *)
  cl_out : exists n final, out w' = final :: repeat (MLambdaOut id) n ++ out w /\
             (final = MLambdaErr (Some id) \/ final = MLambdaExit id (ls_code (script w)));
}.

(* C30, the lambda closure of one created workload, EVERY world, EVERY engine outcome, EVERY fault position:
   [kc] is the fault budget left when the clean-up starts; kc = None (no fault, or the fault fired earlier:
   WAL entry, record lookup, logs, attach, wait) means the clean-up runs undisturbed, and then the workload
   is gone (record, container, usage), the WAL entry is committed and the last message is the last thing sent.
   [forall e, ~ In (wal_seq w, e) (walq w)]: the token the WAL issues next is not in use (tokens only grow). *)
Theorem lambda_one_spec : forall stdin lines id r w k x nd p,
  find_wl w id = Some x -> find_node w (w_node x) = Some nd -> find_plug w (w_node x) = Some p ->
  (forall e, ~ In (wal_seq w, e) (walq w)) ->
  exists w' k' (kc : option nat), crunk (lambda_one stdin lines (MCreateOk id r)) w k = (w', k', tt) /\
    (k = None -> kc = None) /\ (k = Some 0%nat -> kc = None) /\
    (kc = None -> closure_post id x w w').
Proof.
  intros stdin lines id r w k x nd p Hx Hnd Hp Hwal.
  assert (Hid : w_id x = id) by (apply find_wl_id in Hx; tauto).
  cbn [lambda_one]. rewrite crunk_bind. unfold call1 at 1. unfold crunk at 1.
  assert (Hmain : forall kb, let w0 := set_wal w (walq w ++ [(wal_seq w, EvLambda id)]) (S (wal_seq w)) in
     exists w' k' (kc : option nat), crunk (final <- lambda_body stdin lines id ;; lambda_cleanup id (wal_seq w) final) w0 kb = (w', k', tt) /\
       (kb = None -> kc = None) /\ (kc = None -> closure_post id x w w')).
  { intros kb w0. rewrite crunk_bind.
    destruct (lambda_body_spec stdin lines id w0 kb) as [w1 [k1 [final [H1 [Hb Hio]]]]]. rewrite H1.
    assert (Hb0 : body_post id w w1).
    { destruct Hb as [? ? ? ? ? ? Hc]. constructor; auto. }
    destruct k1 as [j|].
    - destruct (crunk (lambda_cleanup id (wal_seq w) final) w1 (Some j)) as [[w' k'] []] eqn:Hc.
      exists w', k', (Some j). split; [reflexivity|]. split; [|discriminate].
      intros ->. apply crunk_none_k in H1. discriminate.
    - destruct (cleanup_none id (wal_seq w) final w w1 x nd p Hb0 Hx Hnd Hp) as [w' [Hc [Hr [Ho Hq]]]].
      rewrite Hc. exists w', None, None. split; [reflexivity|]. split; [auto|]. intros _.
      destruct Hio as [Hwq _ [n Hout] Hfin]. constructor.
      + exact Hr.
      + rewrite Hq, Hwq. unfold w0. cbn [walq set_wal]. apply filter_token_fresh. exact Hwal.
      + exists n, final. split; [rewrite Ho, Hout; reflexivity|].
        destruct Hfin as [[-> _]|[-> _]]; [left; reflexivity|right; reflexivity]. }
  destruct k as [[|k]|]; cbn [runk fail_reply is_faultable].
  - (* the WAL entry cannot be written: the workload is removed all the same *)
    rewrite crunk_bind. unfold ign at 1. rewrite crunk_bind.
    rewrite (remove_sync_none id w x nd p Hx Hnd Hp). rewrite crunk_ret.
    unfold send, ign, doc, call1, crunk. cbn [bind runk exec is_faultable].
    do 3 eexists. split; [reflexivity|]. split; [discriminate|]. split; [intros _; reflexivity|]. intros _.
    constructor; [constructor|..]; cbn [wls plugs nodes conts out walq set_out removed_world oth]; try rewrite Hid; try reflexivity.
    + unfold find_wl. cbn [wls set_out removed_world oth]. rewrite Hid. apply find_del_none.
    + unfold find_cont. cbn [conts set_out removed_world oth]. rewrite Hid. apply find_del_cont_none.
    + intros j Hj. unfold find_cont in *. cbn [conts set_out removed_world oth]. unfold del_cont. apply find_filter_none'. exact Hj.
    + exists 0%nat, (MLambdaErr (Some id)). split; [reflexivity|left; reflexivity].
  - cbn [exec]. destruct (Hmain (Some k)) as [w' [k' [kc [H [_ Hr]]]]]. rewrite H.
    exists w', k', kc. split; [reflexivity|]. split; [discriminate|]. split; [discriminate|]. exact Hr.
  - cbn [exec]. destruct (Hmain None) as [w' [k' [kc [H [Hk Hr]]]]]. rewrite H.
    exists w', k', kc. split; [reflexivity|]. split; [intros _; apply Hk; reflexivity|]. split; [discriminate|]. exact Hr.
Qed.

(* the rpc handler passes every message of the channel to Send, whatever the stream does *)
Lemma rpc_forward_drains : forall ms n k, fst (rpc_forward ms n k) = ms.
Proof. induction ms as [|m rest IH]; intros n k; simpl; [reflexivity|]. rewrite IH. reflexivity. Qed.
Lemma rpc_forward_healthy : forall ms n, snd (rpc_forward ms n 0) = ms.
Proof. induction ms as [|m rest IH]; intros n; simpl; [reflexivity|]. rewrite IH. reflexivity. Qed.

(* the whole run-and-wait operation, EVERY world, EVERY fault position: the last thing it does is close the stream *)
Theorem lambda_closes : forall opi pod r plan stdin lines w k,
  exists w1 k', crunk (lambda opi pod r plan stdin lines) w k = (set_out w1 (MClose :: out w1), k', tt).
Proof.
  intros. unfold lambda. rewrite crunk_bind. destruct (crunk (create opi pod r plan) w k) as [[w0 k0] ms].
  rewrite crunk_bind. destruct (crunk (for_all (filter is_create_msg ms) (lambda_one stdin lines)) w0 k0) as [[w1 k1] []].
  rewrite send_exact. exists w1, k1. reflexivity.
Qed.
