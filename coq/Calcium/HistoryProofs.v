(* C10 over histories: one invariant, kept by every operation at every fault position, hence by every history.

   Inv w  :=  the ids of the recorded workloads are distinct, each recorded workload's node has a plugin record
              and the workload has a container  (wf w)
           /\ for every plugin record, usage = sum of the resources of the workloads recorded on its node  (use_ok w)
           /\ one plugin record per node name
           /\ every node record is available (no operation of the history marks a live node down).

   The per-operation theorems are whole-operation theorems (RemoveWorkload and DissociateWorkload including the
   loops over nodes and ids and the messages), for EVERY world satisfying Inv and EVERY fault position.
   ReplaceWorkload: do_replace_spec gives the three ways the replacement of one workload can end (success; failure
   before the new workload exists: nothing recorded or removed, old container untouched or restarted; failure after
   the new workload was deployed: the known finding, old and new both recorded); replace_keeps_Inv: the whole
   operation keeps Inv unless it reported that third outcome; replace_failed_keeps_old: C11's clause. *)
From Coq Require Import List Bool Arith ZArith Lia Permutation.
From Verif Require Import Base.Effects Calcium.World Calcium.Ops Calcium.Run Calcium.EffectsProofs Calcium.OpsProofs Calcium.OpsProofs2 Calcium.InvProofs Calcium.DeployProofs Calcium.DeployProofs2 Calcium.CreateProofs Calcium.CreateProofs2 Calcium.CapProofs Calcium.NodeProofs.
Import ListNotations.
Local Open Scope Z_scope.

(* ---- the invariant of C10 over histories ---- *)
Record Inv (w : world) : Prop := {
  inv_wf : wf w;                                   (* distinct ids; a recorded workload's node has a plugin record; it has a container *)
  inv_use : use_ok w;                              (* usage = sum of the recorded workloads, per node *)
  inv_pnames : NoDup (pnames (plugs w));           (* one plugin record per node *)
  inv_up : forall y, In y (nodes w) -> n_avail y = true;
}.

Lemma Inv_out : forall w o, Inv w -> Inv (set_out w o).
Proof. intros w o [[? ? ?] ? ? ?]. constructor; [constructor|..]; auto. Qed.

Lemma Inv_ext : forall w w', nodes w' = nodes w -> wls w' = wls w -> plugs w' = plugs w -> conts w' = conts w ->
  Inv w -> Inv w'.
Proof.
  intros w w' Hn Hw Hpl Hc [[H1 H2 H3] H4 H5 H6]. constructor; [constructor|..].
  - rewrite Hw. exact H1.
  - intros x Hx. rewrite Hw in Hx. unfold find_plug. rewrite Hpl. apply H2. exact Hx.
  - intros x Hx. rewrite Hw in Hx. unfold find_cont. rewrite Hc. apply H3. exact Hx.
  - intros p Hp'. rewrite Hpl in Hp'. rewrite Hw. apply H4. exact Hp'.
  - rewrite Hpl. exact H5.
  - intros y Hy. rewrite Hn in Hy. apply H6. exact Hy.
Qed.

Lemma core3_Inv : forall w w', core3 w' w (wls w) (conts w) -> Inv w -> Inv w'.
Proof. intros w w' Hc HI. destruct Hc as [? [? [? [? [? [? ?]]]]]]. eapply Inv_ext; eauto. Qed.

Lemma ids_perm : forall l l', Permutation l l' -> Permutation (ids l) (ids l').
Proof. intros. unfold ids. apply Permutation_map. auto. Qed.

Lemma Inv_perm : forall w l, Inv w -> Permutation l (wls w) -> Inv (oth w l (plugs w) (conts w)).
Proof.
  intros w l [[H1 H2 H3] H4 H5 H6] Hp. constructor; [constructor|..]; simpl.
  - eapply Permutation_NoDup; [apply Permutation_sym, ids_perm; exact Hp|exact H1].
  - intros x Hx. apply H2. eapply Permutation_in; eauto.
  - intros x Hx. apply H3. eapply Permutation_in; eauto.
  - apply use_ok_perm; auto.
  - exact H5.
  - exact H6.
Qed.

Lemma in_del_wl : forall l id x, In x (del_wl id l) -> In x l /\ wid_eqb (w_id x) id = false.
Proof. intros l id x H. unfold del_wl in H. apply filter_In in H. destruct H as [H1 H2]. apply negb_true_iff in H2. auto. Qed.

Lemma nodup_ids_del : forall l id, NoDup (ids l) -> NoDup (ids (del_wl id l)).
Proof.
  induction l as [|y t IH]; intros id H; simpl; [constructor|].
  inversion H as [|? ? Hn Hnd]; subst. destruct (wid_eqb (w_id y) id); simpl; [apply IH; auto|].
  constructor; [|apply IH; auto]. intro Hin. apply Hn. unfold ids in *. apply in_map_iff in Hin.
  destruct Hin as [z [Hz Hin]]. apply in_del_wl in Hin. rewrite <- Hz. apply in_map. tauto.
Qed.

Lemma find_cont_del_other : forall l id id', wid_eqb id' id = false ->
  find (fun y => wid_eqb (c_id y) id') (del_cont id l) = find (fun y => wid_eqb (c_id y) id') l.
Proof.
  induction l as [|y t IH]; intros id id' H; simpl; [reflexivity|].
  destruct (wid_eqb (c_id y) id) eqn:E; simpl.
  - apply wid_eqb_eq in E. rewrite E. assert (wid_eqb id id' = false) as ->.
    { destruct (wid_eqb id id') eqn:E2; auto. apply wid_eqb_eq in E2. subst. rewrite wid_eqb_refl in H. discriminate. }
    apply IH; auto.
  - destruct (wid_eqb (c_id y) id'); [reflexivity|apply IH; auto].
Qed.

Lemma pnames_upd : forall n f l, (forall x, p_node (f x) = p_node x) -> pnames (upd_plug n f l) = pnames l.
Proof.
  intros n f l Hf. unfold pnames, upd_plug. rewrite map_map. apply map_ext. intros x.
  destruct (Nat.eqb (p_node x) n); [apply Hf|reflexivity].
Qed.

(* removing a recorded workload together with its usage (and possibly its container) *)
Lemma Inv_removed : forall w x c, Inv w -> find_wl w (w_id x) = Some x ->
  (c = conts w \/ c = del_cont (w_id x) (conts w)) ->
  Inv (oth w (del_wl (w_id x) (wls w)) (upd_plug (w_node x) (sub_use (w_res x)) (plugs w)) c).
Proof.
  intros w x c [[H1 H2 H3] H4 H5 H6] Hx Hc. constructor; [constructor|..]; simpl.
  - apply nodup_ids_del; auto.
  - intros y Hy. apply in_del_wl in Hy. destruct Hy as [Hy _]. destruct (H2 y Hy) as [p Hp].
    unfold find_plug in *. simpl. rewrite find_plug_upd by reflexivity. rewrite Hp. eexists; reflexivity.
  - intros y Hy. apply in_del_wl in Hy. destruct Hy as [Hy Hne]. destruct (H3 y Hy) as [c0 Hc0].
    unfold find_cont in *. simpl. destruct Hc as [->| ->]; [eauto|].
    rewrite find_cont_del_other by exact Hne. eauto.
  - apply use_ok_remove; auto.
  - rewrite pnames_upd by reflexivity. exact H5.
  - exact H6.
Qed.

Lemma ids_upd_wl : forall x' l, ids (upd_wl x' l) = ids l.
Proof.
  intros x' l. unfold ids, upd_wl. rewrite map_map. apply map_ext_in. intros y _.
  destruct (wid_eqb (w_id y) (w_id x')) eqn:E; [|reflexivity]. apply wid_eqb_eq in E. auto.
Qed.

Lemma in_upd_wl : forall x' l y, In y (upd_wl x' l) -> exists z, In z l /\ w_id y = w_id z /\ (y = z \/ (y = x' /\ w_id z = w_id x')).
Proof.
  intros x' l y H. unfold upd_wl in H. apply in_map_iff in H. destruct H as [z [Hz Hin]].
  exists z. split; [exact Hin|]. destruct (wid_eqb (w_id z) (w_id x')) eqn:E.
  - apply wid_eqb_eq in E. subst y. split; [auto|]. right. auto.
  - subst y. auto.
Qed.

Lemma Inv_realloc : forall w x req, Inv w -> find_wl w (w_id x) = Some x ->
  Inv (oth w (upd_wl (mkWl (w_id x) (w_node x) (w_pod x) (radd (w_res x) req)) (wls w))
             (upd_plug (w_node x) (add_use req) (plugs w)) (conts w)).
Proof.
  intros w x req [[H1 H2 H3] H4 H5 H6] Hx. constructor; [constructor|..]; simpl.
  - rewrite ids_upd_wl. exact H1.
  - intros y Hy. apply in_upd_wl in Hy. destruct Hy as [z [Hz [Hid [->|[-> Hzid]]]]].
    + destruct (H2 z Hz) as [p Hp]. unfold find_plug in *. simpl. rewrite find_plug_upd by reflexivity. rewrite Hp. eexists; reflexivity.
    + simpl. apply find_wl_id in Hx. destruct Hx as [_ Hx]. destruct (H2 x Hx) as [p Hp].
      unfold find_plug in *. simpl. rewrite find_plug_upd by reflexivity. rewrite Hp. eexists; reflexivity.
  - intros y Hy. apply in_upd_wl in Hy. destruct Hy as [z [Hz [Hid _]]]. rewrite Hid. apply H3. exact Hz.
  - apply use_ok_realloc; auto.
  - rewrite pnames_upd by reflexivity. exact H5.
  - exact H6.
Qed.

Lemma in_upd_node : forall x' l y, In y (upd_node x' l) -> In y l \/ y = x'.
Proof.
  intros x' l y H. unfold upd_node in H. apply in_map_iff in H. destruct H as [z [Hz Hin]].
  destruct (Nat.eqb (n_name z) (n_name x')); subst; auto.
Qed.

Lemma Inv_set_node : forall w x' f, Inv w -> n_avail x' = true ->
  (forall p, p_node (f p) = p_node p) -> (forall p, p_use (f p) = p_use p) ->
  Inv (othnp w (upd_node x' (nodes w)) (upd_plug (n_name x') f (plugs w))).
Proof.
  intros w x' f [[H1 H2 H3] H4 H5 H6] Hav Hf1 Hf2. constructor; [constructor|..]; simpl.
  - exact H1.
  - intros y Hy. destruct (H2 y Hy) as [p Hp]. unfold find_plug in *. simpl. rewrite find_plug_upd by exact Hf1. rewrite Hp. eexists; reflexivity.
  - exact H3.
  - intros q Hq. simpl in *. apply in_upd_plug in Hq. destruct Hq as [p [Hp Hq]].
    destruct (Nat.eqb (p_node p) (n_name x')); subst q; [rewrite Hf1, Hf2|]; apply H4; exact Hp.
  - rewrite pnames_upd by exact Hf1. exact H5.
  - intros y Hy. apply in_upd_node in Hy. destruct Hy as [Hy| ->]; auto.
Qed.

(* ---- AddNode, every outcome (also a refused store AddNode followed by a failing plugin RemoveNode) ---- *)
Lemma add_node_outcomes : forall n p cap w k,
  exists w' k' r, crunk (add_node n p cap) w k = (w', k', r) /\
  (w' = w \/ (find_plug w n = None /\ exists ns, (ns = nodes w \/ ns = nodes w ++ [mkNode n p false true 0]) /\
              w' = othn w ns (plugs w ++ [mkPlug n cap rzero]))).
Proof.
  intros n p cap w k. unfold find_plug, add_node, txn, doc, call1, crunk. norm.
  kcase k.
  - do 3 eexists. split; [reflexivity|]. left; reflexivity.
  - cbn [exec]. norm. ncase k.
    + do 3 eexists. split; [reflexivity|]. left; reflexivity.
    + cbn [exec]. look. destruct (find (fun x => Nat.eqb (p_node x) n) (plugs w)) eqn:Hp; norm.
      { do 3 eexists. split; [reflexivity|]. left; reflexivity. }
      ncase k.
      * cbn [exec]. look. rewrite find_plug_app_new by exact Hp. norm.
        do 3 eexists. split; [reflexivity|]. left. look.
        rewrite del_plug_app_new by exact Hp. destruct w; reflexivity.
      * cbn [exec]. look.
        destruct (negb (existsb (Nat.eqb p) (pods w))); [|destruct (find (fun x => Nat.eqb (n_name x) n) (nodes w))]; norm.
        3:{ do 3 eexists. split; [reflexivity|]. right. split; [reflexivity|]. eexists. split; [right; reflexivity|]. look. reflexivity. }
        all: ncase k;
          [ do 3 eexists; split; [reflexivity|]; right; split; [reflexivity|]; exists (nodes w); split; [auto|]; look; reflexivity
          | cbn [exec]; look; rewrite find_plug_app_new by exact Hp; norm;
            do 3 eexists; split; [reflexivity|]; left; look; rewrite del_plug_app_new by exact Hp; destruct w; reflexivity ].
  - cbn [exec]. norm. cbn [exec]. look. destruct (find (fun x => Nat.eqb (p_node x) n) (plugs w)) eqn:Hp; norm.
    { do 3 eexists. split; [reflexivity|]. left; reflexivity. }
    cbn [exec]. look.
    destruct (negb (existsb (Nat.eqb p) (pods w))); [|destruct (find (fun x => Nat.eqb (n_name x) n) (nodes w))]; norm.
    3:{ do 3 eexists. split; [reflexivity|]. right. split; [reflexivity|]. eexists. split; [right; reflexivity|]. look. reflexivity. }
    all: cbn [exec]; look; rewrite find_plug_app_new by exact Hp; norm;
      do 3 eexists; split; [reflexivity|]; left; look; rewrite del_plug_app_new by exact Hp; destruct w; reflexivity.
Qed.

Lemma find_app_some : forall {A} (f : A -> bool) l l' x, find f l = Some x -> find f (l ++ l') = Some x.
Proof. intros A f l l' x. induction l as [|y t IH]; simpl; [discriminate|]. destruct (f y); auto. Qed.

Lemma NoDup_app_single : forall {A} (l : list A) a, NoDup l -> ~ In a l -> NoDup (l ++ [a]).
Proof.
  intros A l a H Hn. induction H as [|x t Hx Ht IH]; simpl; [constructor; [tauto|constructor]|].
  constructor.
  - intro Hin. apply in_app_or in Hin. destruct Hin as [Hin|[->|[]]]; [tauto|]. apply Hn. left; reflexivity.
  - apply IH. intro; apply Hn; right; assumption.
Qed.

Lemma sum_on_none : forall l n, (forall x, In x l -> w_node x <> n) -> sum_on l n = rzero.
Proof.
  intros l n H. unfold sum_on. induction l as [|x t IH]; simpl; [reflexivity|].
  assert (Nat.eqb (w_node x) n = false) as ->. { apply Nat.eqb_neq. apply H. left; reflexivity. }
  apply IH. intros y Hy. apply H. right; exact Hy.
Qed.

Lemma pnames_app : forall l l', pnames (l ++ l') = pnames l ++ pnames l'.
Proof. intros. unfold pnames. apply map_app. Qed.

Lemma Inv_add_node : forall w n p cap ns, Inv w -> find_plug w n = None ->
  (ns = nodes w \/ ns = nodes w ++ [mkNode n p false true 0]) ->
  Inv (othn w ns (plugs w ++ [mkPlug n cap rzero])).
Proof.
  intros w n p cap ns [[H1 H2 H3] H4 H5 H6] Hp Hns.
  assert (Hfresh : forall x, In x (wls w) -> w_node x <> n).
  { intros x Hx E. destruct (H2 x Hx) as [q Hq]. rewrite E in Hq. congruence. }
  constructor; [constructor|..]; simpl.
  - exact H1.
  - intros x Hx. destruct (H2 x Hx) as [q Hq]. unfold find_plug in *. simpl.
    exists q. apply find_app_some. exact Hq.
  - exact H3.
  - intros q Hq. simpl in *. apply in_app_or in Hq. destruct Hq as [Hq|[<-|[]]]; [apply H4; exact Hq|].
    simpl. symmetry. apply sum_on_none. exact Hfresh.
  - rewrite pnames_app. simpl. apply NoDup_app_single; [exact H5|].
    intro Hin. unfold pnames in Hin. apply in_map_iff in Hin. destruct Hin as [q [Hq Hin]].
    unfold find_plug in Hp. eapply find_none in Hp; eauto. simpl in Hp. rewrite Hq, Nat.eqb_refl in Hp. discriminate.
  - intros y Hy. destruct Hns as [->| ->]; [auto|]. apply in_app_or in Hy. destruct Hy as [Hy|[<-|[]]]; auto.
Qed.

(* ---- RemoveNode ---- *)
Lemma remove_node_inner_busy : forall n w k, wls_on w n <> [] ->
  exists k' r, crunk (remove_node_inner n) w k = (w, k', r).
Proof.
  intros n w k Hb. unfold remove_node_inner, txn, ign, doc, call1, crunk. norm.
  destruct k as [[|k]|]; norm.
  - do 2 eexists; reflexivity.
  - cbn [exec]. destruct (wls_on w n) eqn:Hl; [congruence|]. norm. do 2 eexists; reflexivity.
  - cbn [exec]. destruct (wls_on w n) eqn:Hl; [congruence|]. norm. do 2 eexists; reflexivity.
Qed.

Lemma remove_node_busy : forall n w k, wls_on w n <> [] ->
  exists k' r, crunk (remove_node n) w k = (w, k', r).
Proof.
  intros n w k Hbusy. rewrite remove_node_is_body.
  destruct (with_node_pod_locked_spec n (remove_node_body n) w k) as [w' [k' [r [H [[Hr ->]|[x [k1 [k2 [Hx [Hn Hb]]]]]]]]]].
  - do 2 eexists. exact H.
  - revert Hb. unfold remove_node_body, call1, crunk. cbn [bind].
    destruct k1 as [[|k1]|]; cbn [runk fail_reply].
    + intros E; inversion E; subst. do 2 eexists. exact H.
    + cbn [exec]. rewrite Hx. rewrite Nat.eqb_refl.
      destruct (remove_node_inner_busy n w (Some k1) Hbusy) as [k3 [r2 H2]].
      unfold crunk in H2. rewrite H2. intros E; inversion E; subst. do 2 eexists. exact H.
    + cbn [exec]. rewrite Hx. rewrite Nat.eqb_refl.
      destruct (remove_node_inner_busy n w None Hbusy) as [k3 [r2 H2]].
      unfold crunk in H2. rewrite H2. intros E; inversion E; subst. do 2 eexists. exact H.
Qed.

Lemma in_del_node : forall n l y, In y (del_node n l) -> In y l.
Proof. intros n l y H. unfold del_node in H. apply filter_In in H. tauto. Qed.

Lemma Inv_del_node : forall w n, Inv w -> Inv (othnp w (del_node n (nodes w)) (plugs w)).
Proof.
  intros w n [[H1 H2 H3] H4 H5 H6]. constructor; [constructor|..]; simpl; auto.
  intros y Hy. apply in_del_node in Hy. auto.
Qed.

Lemma find_del_plug_other : forall l n m, n <> m ->
  find (fun x => Nat.eqb (p_node x) m) (del_plug n l) = find (fun x => Nat.eqb (p_node x) m) l.
Proof.
  induction l as [|y t IH]; intros n m H; simpl; [reflexivity|].
  destruct (Nat.eqb (p_node y) n) eqn:E; simpl.
  - apply Nat.eqb_eq in E. assert (Nat.eqb (p_node y) m = false) as -> by (apply Nat.eqb_neq; congruence). apply IH; auto.
  - destruct (Nat.eqb (p_node y) m); [reflexivity|apply IH; auto].
Qed.

Lemma NoDup_map_filter : forall {A B} (f : A -> B) g l, NoDup (map f l) -> NoDup (map f (filter g l)).
Proof.
  intros A B f g l. induction l as [|x t IH]; simpl; intros H; [constructor|].
  inversion H; subst. destruct (g x); simpl; [|auto]. constructor; [|auto].
  intro Hin. apply in_map_iff in Hin. destruct Hin as [y [Hy Hin]]. apply filter_In in Hin.
  apply H2. rewrite <- Hy. apply in_map. tauto.
Qed.

Lemma Inv_del_node_plug : forall w n, Inv w -> wls_on w n = [] ->
  Inv (othnp w (del_node n (nodes w)) (del_plug n (plugs w))).
Proof.
  intros w n [[H1 H2 H3] H4 H5 H6] Hempty.
  assert (Hfresh : forall x, In x (wls w) -> w_node x <> n).
  { intros x Hx E. assert (In x (wls_on w n)). { unfold wls_on. apply filter_In. split; [auto|]. apply Nat.eqb_eq; auto. }
    rewrite Hempty in H. destruct H. }
  constructor; [constructor|..]; simpl; auto.
  - intros x Hx. destruct (H2 x Hx) as [q Hq]. unfold find_plug in *. simpl.
    rewrite find_del_plug_other; [eauto|]. intro E. apply (Hfresh x Hx). auto.
  - intros q Hq. simpl in *. unfold del_plug in Hq. apply filter_In in Hq. apply H4. tauto.
  - unfold pnames, del_plug. apply NoDup_map_filter. exact H5.
  - intros y Hy. apply in_del_node in Hy. auto.
Qed.

(* ---- the single-shot operations keep the invariant, for every fault position ---- *)
Definition after {A} (p : cprog A) (w : world) (k : option nat) : world := fst (fst (crunk p w k)).

Theorem realloc_keeps_Inv : forall id req w k, Inv w -> Inv (after (realloc id req) w k).
Proof.
  intros id req w k HI. unfold after.
  destruct (realloc_atomic id req w k (inv_wf w HI)) as [w' [k' [r [H [Hfail Hsucc]]]]]. rewrite H. simpl.
  destruct r as [e|].
  - rewrite Hfail by discriminate. exact HI.
  - destruct (Hsucc eq_refl) as [x [Hx ->]]. destruct (find_wl_id _ _ _ Hx) as [Hid _]. subst id.
    apply Inv_realloc; auto.
Qed.

Theorem set_node_keeps_Inv : forall n bypass mem label w k, Inv w -> Inv (after (set_node n bypass mem label) w k).
Proof.
  intros n bypass mem label w k HI. unfold after.
  destruct (set_node_atomic n bypass mem label w k (inv_pnames w HI)) as [w' [k' [r [H [Hfail Hsucc]]]]]. rewrite H. simpl.
  destruct r as [e|].
  - rewrite Hfail by discriminate. exact HI.
  - destruct (Hsucc eq_refl) as [x [Hx ->]].
    assert (Hn : n_name x = n). { unfold find_node in Hx. apply find_some in Hx. destruct Hx as [_ Hx]. apply Nat.eqb_eq in Hx. exact Hx. }
    assert (Hav : n_avail x = true). { apply (inv_up w HI). unfold find_node in Hx. apply find_some in Hx. tauto. }
    pose proof (Inv_set_node w (mkNode (n_name x) (n_pod x) (match bypass with Some b => b | None => n_bypass x end) (n_avail x)
                                    (match label with Some l => l | None => n_label x end)) (new_cap mem) HI) as HS.
    simpl in HS. clear Hsucc H Hfail. subst n. apply HS.
    + exact Hav.
    + intros q. unfold new_cap. destruct mem as [[m d]|]; reflexivity.
    + intros q. unfold new_cap. destruct mem as [[m d]|]; reflexivity.
Qed.

Theorem add_node_keeps_Inv : forall n p cap w k, Inv w -> Inv (after (add_node n p cap) w k).
Proof.
  intros n p cap w k HI. unfold after.
  destruct (add_node_outcomes n p cap w k) as [w' [k' [r [H [->|[Hp [ns [Hns ->]]]]]]]]; rewrite H; simpl.
  - exact HI.
  - apply (Inv_add_node w n p cap ns); auto.
Qed.

Theorem remove_node_keeps_Inv : forall n w k, Inv w -> Inv (after (remove_node n) w k).
Proof.
  intros n w k HI. unfold after.
  destruct (wls_on w n) eqn:Hl.
  - destruct (remove_node_partial n w k) as [w' [k' [r [H [Hfail Hsucc]]]]].
    { intros y Hy _. apply (inv_up w HI). exact Hy. }
    rewrite H. simpl. destruct r as [e|].
    + destruct Hfail as [->| ->]; [discriminate|exact HI|apply Inv_del_node; exact HI].
    + rewrite Hsucc by reflexivity. apply Inv_del_node_plug; auto.
  - destruct (remove_node_busy n w k) as [k' [r H]]; [congruence|]. rewrite H. exact HI.
Qed.

Theorem add_pod_keeps_Inv : forall p w k, Inv w -> Inv (after (add_pod p) w k).
Proof.
  intros p w k HI. unfold after, add_pod, doc, call1, crunk. norm.
  destruct k as [[|k]|]; norm; [exact HI| |]; cbn [exec];
    (destruct (existsb (Nat.eqb p) (pods w)); norm; simpl; [exact HI|]);
    (eapply Inv_ext; [| | | |exact HI]; reflexivity).
Qed.

(* ---- RemoveWorkload / DissociateWorkload: the loops over nodes and ids ---- *)
Definition shrink (w w' : world) : Prop :=
  Inv w' /\ strict_remove w' = strict_remove w /\ incl (wls w') (wls w).

Lemma shrink_refl : forall w, Inv w -> shrink w w.
Proof. intros w H. split; [exact H|]. split; [reflexivity|apply incl_refl]. Qed.

Lemma shrink_trans : forall w1 w2 w3, shrink w1 w2 -> shrink w2 w3 -> shrink w1 w3.
Proof. intros w1 w2 w3 [_ [H2 H3]] [H4 [H5 H6]]. split; [exact H4|]. split; [congruence|]. eapply incl_tran; eauto. Qed.

Lemma shrink_core3 : forall w w', Inv w -> core3 w' w (wls w) (conts w) -> shrink w w'.
Proof.
  intros w w' HI Hc. split; [eapply core3_Inv; eauto|].
  destruct Hc as [? [? [? [? [? [Hw ?]]]]]]. split; [auto|]. rewrite Hw. apply incl_refl.
Qed.

Lemma after_bind : forall A B (p : cprog A) (f : A -> cprog B) w k,
  after (bind p f) w k = after (f (snd (crunk p w k))) (after p w k) (snd (fst (crunk p w k))).
Proof. intros. unfold after. rewrite crunk_bind. destruct (crunk p w k) as [[w1 k1] a]. reflexivity. Qed.

Lemma for_all_world : forall {X} (R : world -> Prop) (xs : list X) (body : X -> cprog unit),
  (forall x w k, In x xs -> R w -> R (after (body x) w k)) ->
  forall w k, R w -> R (after (for_all xs body) w k).
Proof.
  intros X R xs body. induction xs as [|x t IH]; intros Hb w k Hw.
  - exact Hw.
  - cbn [for_all]. rewrite after_bind. apply IH.
    + intros y w1 k1 Hy. apply Hb. right; exact Hy.
    + apply Hb; [left; reflexivity|exact Hw].
Qed.

Lemma send_shrink : forall m w k, Inv w -> shrink w (after (send m) w k).
Proof.
  intros m w k HI. unfold after. destruct (send_core m w k) as [w' [H [Hc _]]]. rewrite H. simpl. apply shrink_core3; auto.
Qed.

Lemma maybe_send_shrink : forall b m w k, Inv w -> shrink w (after (maybe_send b m) w k).
Proof. intros [|] m w k HI; [apply send_shrink; exact HI|apply shrink_refl; exact HI]. Qed.

Lemma perm_incl : forall {A} (l l' : list A), Permutation l l' -> incl l l'.
Proof. intros A l l' H x Hx. eapply Permutation_in; eauto. Qed.

Lemma del_wl_incl : forall id l, incl (del_wl id l) l.
Proof. intros id l x Hx. apply in_del_wl in Hx. tauto. Qed.

(* one workload of RemoveWorkload *)
Lemma remove_one_shrink : forall emit n force id w k, Inv w ->
  (force = true \/ strict_remove w = false) ->
  (forall x, In x (wls w) -> w_id x = id -> w_node x = n) ->
  shrink w (after (remove_one emit n force id) w k).
Proof.
  intros emit n force id w k HI Hf Hnode. unfold remove_one. rewrite after_bind.
  assert (Hn' : forall x, find_wl w id = Some x -> w_node x = n).
  { intros x Hx. apply find_wl_id in Hx. destruct Hx as [Hid Hin]. apply Hnode; auto. }
  destruct (remove_locked_atomic n id force w k (inv_wf w HI) Hf Hn') as [w' [k' [r [H [Hfail Hsucc]]]]].
  unfold after at 2. rewrite H. simpl.
  assert (Hs : shrink w w').
  { destruct r as [e|].
    - destruct Hfail as [l [-> Hp]]; [discriminate|]. split; [apply Inv_perm; auto|]. split; [reflexivity|]. simpl. apply perm_incl; exact Hp.
    - destruct (Hsucc eq_refl) as [x [Hx ->]]. destruct (find_wl_id _ _ _ Hx) as [Hid _]. subst id.
      rewrite <- (Hn' x Hx). split; [apply Inv_removed; auto|]. split; [reflexivity|]. simpl. apply del_wl_incl. }
  eapply shrink_trans; [exact Hs|]. apply maybe_send_shrink. destruct Hs; auto.
Qed.

Lemma group_in : forall l n idl id, In (n, idl) (group_by_node l) -> In id idl ->
  exists x, In x l /\ w_id x = id /\ w_node x = n.
Proof.
  induction l as [|x t IH]; intros n idl id Hg Hid; simpl in Hg; [destruct Hg|].
  destruct (existsb (fun p => Nat.eqb (fst p) (w_node x)) (group_by_node t)).
  - apply in_map_iff in Hg. destruct Hg as [p [Hp Hin]].
    destruct (Nat.eqb (fst p) (w_node x)) eqn:E.
    + inversion Hp; subst. apply Nat.eqb_eq in E. destruct Hid as [<-|Hid].
      * exists x. split; [left; reflexivity|auto].
      * destruct (IH (fst p) (snd p) id) as [y [Hy [H1 H2]]]; [destruct p; exact Hin|exact Hid|].
        exists y. split; [right; exact Hy|auto].
    + subst p. destruct (IH n idl id Hin Hid) as [y [Hy [H1 H2]]]. exists y. split; [right; exact Hy|auto].
  - destruct Hg as [Hg|Hg].
    + inversion Hg; subst. destruct Hid as [<-|[]]. exists x. split; [left; reflexivity|auto].
    + destruct (IH n idl id Hg Hid) as [y [Hy [H1 H2]]]. exists y. split; [right; exact Hy|auto].
Qed.

Lemma nodup_ids_inj : forall l x y, NoDup (ids l) -> In x l -> In y l -> w_id x = w_id y -> x = y.
Proof.
  induction l as [|z t IH]; intros x y Hnd Hx Hy E; [destruct Hx|].
  simpl in Hnd. inversion Hnd as [|? ? Hn Ht]; subst.
  destruct Hx as [->|Hx], Hy as [->|Hy]; auto.
  - exfalso. apply Hn. rewrite E. unfold ids. apply in_map. exact Hy.
  - exfalso. apply Hn. rewrite <- E. unfold ids. apply in_map. exact Hx.
Qed.

Definition grp_ok (grp : list (name * list wid)) (w : world) : Prop :=
  forall n idl x, In (n, idl) grp -> In x (wls w) -> In (w_id x) idl -> w_node x = n.

Lemma grp_ok_incl : forall grp w w', grp_ok grp w -> incl (wls w') (wls w) -> grp_ok grp w'.
Proof. intros grp w w' H Hi n idl x Hg Hx Hid. eapply H; eauto. Qed.

Lemma fetched_in : forall w idl x,
  In x (flat_map (fun id => match find_wl w id with Some x => [x] | None => [] end) idl) -> In x (wls w).
Proof.
  intros w idl x H. apply in_flat_map in H. destruct H as [id [_ H]].
  destruct (find_wl w id) as [y|] eqn:E; [|destruct H]. destruct H as [<-|[]]. apply find_wl_id in E. tauto.
Qed.

Lemma group_fetched_ok : forall w idl, NoDup (ids (wls w)) ->
  grp_ok (group_by_node (flat_map (fun id => match find_wl w id with Some x => [x] | None => [] end) idl)) w.
Proof.
  intros w idl Hnd n il x Hg Hx Hid.
  destruct (group_in _ _ _ _ Hg Hid) as [y [Hy [H1 H2]]]. apply fetched_in in Hy.
  assert (x = y) by (eapply nodup_ids_inj; eauto). subst x. exact H2.
Qed.

Lemma locked_world : forall n (body : node -> cprog oerr) w k (R : world -> Prop),
  R w -> (forall x k1, R (after (body x) w k1)) -> R (after (with_node_pod_locked n body) w k).
Proof.
  intros n body w k R Hw Hb. unfold after at 1.
  destruct (with_node_pod_locked_spec n body w k) as [w' [k' [r [H [[_ ->]|[x [k1 [k2 [_ [_ H2]]]]]]]]]]; rewrite H; simpl.
  - exact Hw.
  - specialize (Hb x k1). unfold after in Hb. rewrite H2 in Hb. exact Hb.
Qed.

Theorem remove_keeps_Inv : forall emit idl force w k, Inv w ->
  (force = true \/ strict_remove w = false) ->
  Inv (after (remove emit idl force) w k).
Proof.
  intros emit idl force w k HI Hf. unfold remove. rewrite after_bind.
  assert (Hcall : after (call1 (SGetWorkloads idl)) w k = w).
  { unfold after, call1, crunk. destruct k as [[|k]|]; cbn [runk is_faultable]; try reflexivity;
      cbn [exec]; destruct (forallb _ idl); reflexivity. }
  rewrite Hcall.
  destruct (snd (crunk (call1 (SGetWorkloads idl)) w k)) as [| | | |l| | | | | | |] eqn:Hr; try exact HI.
  assert (Hg : grp_ok (group_by_node l) w).
  { revert Hr. unfold call1, crunk. destruct k as [[|k]|]; cbn [runk is_faultable fail_reply]; simpl; try discriminate;
      destruct (forallb _ idl); simpl; try discriminate; intros E; inversion E; apply group_fetched_ok; apply (inv_wf w HI). }
  clear Hr Hcall.
  enough (Hs : shrink w (after (for_all (group_by_node l) (fun g =>
      e <- with_node_pod_locked (fst g) (fun _ => for_all (snd g) (remove_one emit (fst g) force) ;;; rok) ;;
      match e with Some _ => maybe_send emit MRemoveNodeFail | None => skip end) ;;; maybe_send emit MClose ;;; rok) w
      (snd (fst (crunk (call1 (SGetWorkloads idl)) w k))))) by (destruct Hs; auto).
  generalize (snd (fst (crunk (call1 (SGetWorkloads idl)) w k))). intros k0.
  rewrite after_bind. rewrite after_bind.
  match goal with |- shrink w (after rok ?W ?K) => change (after rok W K) with W end.
  match goal with |- shrink w (after _ (after ?P w k0) ?K) => assert (Hl : shrink w (after P w k0)) end.
  { apply (for_all_world (shrink w)); [|apply shrink_refl; exact HI].
    intros g w1 k1 Hgin Hs1. rewrite after_bind.
    match goal with |- shrink w (after ?Q (after ?P w1 k1) ?K) => assert (Hl : shrink w (after P w1 k1)) end.
    { apply locked_world; [exact Hs1|]. intros _ k2. rewrite after_bind.
      match goal with |- shrink w (after rok ?W ?K) => change (after rok W K) with W end.
      apply (for_all_world (shrink w)); [|exact Hs1].
      intros id w2 k3 Hid Hs2. eapply shrink_trans; [exact Hs2|].
      destruct Hs2 as [HI2 [Hst2 Hin2]].
      apply remove_one_shrink; [exact HI2|rewrite Hst2; exact Hf|].
      intros x Hx Hxid. destruct g as [n il]. simpl in *. eapply (Hg n il x); eauto. rewrite Hxid. exact Hid. }
    eapply shrink_trans; [exact Hl|].
    destruct Hl as [HI3 _].
    destruct (snd (crunk _ w1 k1)); [apply maybe_send_shrink; exact HI3|apply shrink_refl; exact HI3]. }
  eapply shrink_trans; [exact Hl|]. apply maybe_send_shrink. destruct Hl; auto.
Qed.

Lemma dissociate_one_shrink : forall n id w k, Inv w ->
  (forall x, In x (wls w) -> w_id x = id -> w_node x = n) ->
  shrink w (after (e <- with_workload_locked id (fun x => dissociate_txn n x) ;; send (MDissociate id e)) w k).
Proof.
  intros n id w k HI Hnode. rewrite after_bind.
  assert (Hn' : forall x, find_wl w id = Some x -> w_node x = n).
  { intros x Hx. apply find_wl_id in Hx. destruct Hx as [Hid Hin]. apply Hnode; auto. }
  destruct (dissociate_locked_atomic n id w k (inv_wf w HI) Hn') as [w' [k' [r [H [Hfail Hsucc]]]]].
  unfold after at 2. rewrite H. simpl.
  assert (Hs : shrink w w').
  { destruct r as [e|].
    - rewrite Hfail by discriminate. apply shrink_refl; exact HI.
    - destruct (Hsucc eq_refl) as [x [Hx ->]]. destruct (find_wl_id _ _ _ Hx) as [Hid _]. subst id.
      rewrite <- (Hn' x Hx). split; [apply Inv_removed; auto|]. split; [reflexivity|]. simpl. apply del_wl_incl. }
  eapply shrink_trans; [exact Hs|]. apply send_shrink. destruct Hs; auto.
Qed.

Theorem dissociate_keeps_Inv : forall idl w k, Inv w -> Inv (after (dissociate idl) w k).
Proof.
  intros idl w k HI. unfold dissociate. rewrite after_bind.
  assert (Hcall : after (call1 (SGetWorkloads idl)) w k = w).
  { unfold after, call1, crunk. destruct k as [[|k]|]; cbn [runk is_faultable]; try reflexivity;
      cbn [exec]; destruct (forallb _ idl); reflexivity. }
  rewrite Hcall.
  destruct (snd (crunk (call1 (SGetWorkloads idl)) w k)) as [| | | |l| | | | | | |] eqn:Hr; try exact HI.
  assert (Hg : grp_ok (group_by_node l) w).
  { revert Hr. unfold call1, crunk. destruct k as [[|k]|]; cbn [runk is_faultable fail_reply]; simpl; try discriminate;
      destruct (forallb _ idl); simpl; try discriminate; intros E; inversion E; apply group_fetched_ok; apply (inv_wf w HI). }
  clear Hr Hcall.
  generalize (snd (fst (crunk (call1 (SGetWorkloads idl)) w k))). intros k0.
  enough (Hs : shrink w (after (for_all (group_by_node l) (fun g =>
      ign (with_node_pod_locked (fst g) (fun _ =>
        for_all (snd g) (fun id =>
          e <- with_workload_locked id (fun x => dissociate_txn (fst g) x) ;;
          send (MDissociate id e)) ;;; rok))) ;;; send MClose ;;; rok) w k0)) by (destruct Hs; auto).
  rewrite after_bind. rewrite after_bind.
  match goal with |- shrink w (after rok ?W ?K) => change (after rok W K) with W end.
  match goal with |- shrink w (after _ (after ?P w k0) ?K) => assert (Hl : shrink w (after P w k0)) end.
  { apply (for_all_world (shrink w)); [|apply shrink_refl; exact HI].
    intros g w1 k1 Hgin Hs1. unfold ign. rewrite after_bind.
    match goal with |- shrink w (after (Ret tt) ?W ?K) => change (after (Ret tt) W K) with W end.
    apply locked_world; [exact Hs1|]. intros _ k2. rewrite after_bind.
    match goal with |- shrink w (after rok ?W ?K) => change (after rok W K) with W end.
    apply (for_all_world (shrink w)); [|exact Hs1].
    intros id w2 k3 Hid Hs2. eapply shrink_trans; [exact Hs2|].
    destruct Hs2 as [HI2 [Hst2 Hin2]].
    apply dissociate_one_shrink; [exact HI2|].
    intros x Hx Hxid. destruct g as [n il]. simpl in *. eapply (Hg n il x); eauto. rewrite Hxid. exact Hid. }
  eapply shrink_trans; [exact Hl|]. apply send_shrink. destruct Hl; auto.
Qed.

(* ---- facts that hold of every program, because [exec] itself maintains them ---- *)
Lemma crunk_exec_inv : forall (P : world -> Prop), (forall w c, P w -> P (fst (exec w c))) ->
  forall A (p : cprog A) w k, P w -> P (after p w k).
Proof.
  intros P HP A p. induction p as [a|c q IH]; intros w k Hw.
  - exact Hw.
  - unfold after, crunk in *. cbn [runk]. destruct (is_faultable c).
    + destruct k as [[|j]|].
      * apply IH; exact Hw.
      * specialize (HP w c Hw). destruct (exec w c) as [w1 r]. apply IH. exact HP.
      * specialize (HP w c Hw). destruct (exec w c) as [w1 r]. apply IH. exact HP.
    + specialize (HP w c Hw). destruct (exec w c) as [w1 r]. apply IH. exact HP.
Qed.

Lemma ids_app : forall l l', ids (l ++ l') = ids l ++ ids l'.
Proof. intros. unfold ids. apply map_app. Qed.

Lemma find_wl_none_notin : forall w id, find_wl w id = None -> ~ In id (ids (wls w)).
Proof.
  intros w id H Hin. unfold ids in Hin. apply in_map_iff in Hin. destruct Hin as [x [Hx Hin]].
  unfold find_wl in H. eapply find_none in H; eauto. simpl in H. rewrite Hx, wid_eqb_refl in H. discriminate.
Qed.

Lemma exec_keeps_ids : forall w c, NoDup (ids (wls w)) -> NoDup (ids (wls (fst (exec w c)))).
Proof.
  intros w c H. destruct c; simpl; try exact H;
    repeat match goal with
           | |- context [match ?x with _ => _ end] => destruct x eqn:?; simpl; try exact H
           | |- context [if ?x then _ else _] => destruct x eqn:?; simpl; try exact H
           end.
  all: try (rewrite ids_app; simpl; apply NoDup_app_single; [exact H|apply find_wl_none_notin; assumption]).
  all: try (rewrite ids_upd_wl; exact H).
  all: try (apply nodup_ids_del; exact H).
Qed.

Lemma find_cont_app_in : forall l l' id, (exists c, In c l' /\ c_id c = id) ->
  exists c, find (fun y => wid_eqb (c_id y) id) (l ++ l') = Some c.
Proof.
  intros l l' id [c [Hc Hid]].
  destruct (find (fun y => wid_eqb (c_id y) id) (l ++ l')) as [c0|] eqn:E; [eauto|].
  exfalso. eapply find_none in E; [|apply in_or_app; right; exact Hc]. simpl in E. rewrite Hid, wid_eqb_refl in E. discriminate.
Qed.

Lemma created_on_pos : forall ms p, In p (created_of ms) -> (1 <= created_on ms (wi_node (fst p)))%nat.
Proof.
  intros ms p Hp. unfold created_on.
  assert (In p (filter (fun q => Nat.eqb (wi_node (fst q)) (wi_node (fst p))) (created_of ms))).
  { apply filter_In. split; [exact Hp|apply Nat.eqb_refl]. }
  destruct (filter _ (created_of ms)); [destruct H|simpl; lia].
Qed.

Theorem create_keeps_Inv : forall opi pod r plan w k, create_hyp w opi r plan -> Inv w ->
  Inv (after (create opi pod r plan) w k).
Proof.
  intros opi pod r plan w k Hhyp HI.
  assert (Hids : NoDup (ids (wls (after (create opi pod r plan) w k)))).
  { apply (crunk_exec_inv (fun w => NoDup (ids (wls w))) exec_keeps_ids). apply (inv_wf w HI). }
  pose proof (create_keeps_usage opi pod r plan w k Hhyp (inv_use w HI)) as Huse.
  unfold after in *.
  destruct (create_spec opi pod r plan w k Hhyp) as [w' [k' [ms [H P]]]]. rewrite H in *. cbn [fst] in *.
  destruct HI as [[H1 H2 H3] H4 H5 H6].
  destruct P as [_ Hn _ _ Hw Hc Hpl _ Hcr _ Hb].
  constructor; [constructor|..].
  - exact Hids.
  - intros x Hx. rewrite Hw in Hx. unfold find_plug. rewrite Hpl. rewrite find_plug_map by reflexivity.
    apply in_app_or in Hx. destruct Hx as [Hx|Hx].
    + destruct (H2 x Hx) as [q Hq]. unfold find_plug in Hq. rewrite Hq. eexists; reflexivity.
    + apply in_map_iff in Hx. destruct Hx as [p [<- Hp]]. simpl.
      pose proof (created_on_pos ms p Hp) as Hpos. specialize (Hb (wi_node (fst p))).
      destruct plan as [dm|]; [|lia]. destruct Hhyp as [_ [Hnd [Hfeas _]]].
      destruct (atotal_zero_or_in dm (wi_node (fst p))) as [Hz|Hin]; [lia|].
      apply in_map_iff in Hin. destruct Hin as [[n cnt] [Hfst Hin]]. simpl in Hfst. subst n.
      destruct (Hfeas _ _ Hin) as [q [Hq _]]. unfold find_plug in Hq. rewrite Hq. eexists; reflexivity.
  - intros x Hx. rewrite Hw in Hx. unfold find_cont. rewrite Hc.
    apply in_app_or in Hx. destruct Hx as [Hx|Hx].
    + destruct (H3 x Hx) as [c0 Hc0]. exists c0. apply find_app_some. exact Hc0.
    + apply in_map_iff in Hx. destruct Hx as [p [<- Hp]]. simpl. apply find_cont_app_in.
      exists (cont_of p). split; [apply in_map; exact Hp|reflexivity].
  - exact Huse.
  - rewrite Hpl. unfold pnames. rewrite map_map. simpl. exact H5.
  - intros y Hy. rewrite Hn in Hy. auto.
Qed.

(* doRemoveWorkload with force: only the injected fault can make it fail *)
Lemma do_remove_workload_spec : forall x w k,
  NoDup (ids (wls w)) -> find_wl w (w_id x) = Some x ->
  exists w' k' r, crunk (do_remove_workload x true) w k = (w', k', r) /\
  (r = None -> w' = oth w (del_wl (w_id x) (wls w)) (plugs w) (del_cont (w_id x) (conts w))) /\
  (r <> None -> k' = None /\ exists l, w' = oth w l (plugs w) (conts w) /\ Permutation l (wls w)).
Proof.
  intros x w k Hnd Hx. unfold find_wl in Hx.
  unfold do_remove_workload, txn, doc, call1, crunk. norm.
  kcase k.
  - do 3 eexists. split; [reflexivity|]. split; [discriminate|]. intros _. split; [reflexivity|]. exists (wls w). split; [apply oth_same|reflexivity].
  - cbn [exec]. look. norm. ncase k.
    + cbn [exec]. look. rewrite find_del_none. norm.
      do 3 eexists. split; [reflexivity|]. split; [discriminate|]. intros _. split; [reflexivity|]. eexists. split.
      * look. reflexivity.
      * apply del_add_perm; auto.
    + rewrite eremove_ok by (left; reflexivity). norm.
      do 3 eexists. split; [reflexivity|]. split; [|congruence]. intros _. look. reflexivity.
  - cbn [exec]. look. norm. rewrite eremove_ok by (left; reflexivity). norm.
    do 3 eexists. split; [reflexivity|]. split; [|congruence]. intros _. look. reflexivity.
Qed.

Lemma prep_node_any : forall n w k, exists k' e, crunk (get_and_prepare_node n) w k = (w, k', e).
Proof.
  intros n w k. unfold get_and_prepare_node, prepare_image, doc, call1, crunk. norm.
  destruct k as [[|k]|]; norm.
  - do 2 eexists; reflexivity.
  - cbn [exec]. destruct (find_node w n); norm; [|do 2 eexists; reflexivity].
    destruct k as [|k]; norm.
    + cbn [exec]. norm. do 2 eexists; reflexivity.
    + cbn [exec]. norm. destruct k as [|k]; norm; cbn [exec]; norm; do 2 eexists; reflexivity.
  - cbn [exec]. destruct (find_node w n); norm; [|do 2 eexists; reflexivity].
    cbn [exec]. norm. cbn [exec]. norm. do 2 eexists; reflexivity.
Qed.

Lemma estop_step : forall id w k c, find_cont w id = Some c ->
  crunk (doc (EStop id)) w k =
  match k with
  | Some O => (w, None, Some EInjected)
  | Some (S j) => (set_conts w (upd_cont id CStopped (conts w)), Some j, None)
  | None => (set_conts w (upd_cont id CStopped (conts w)), None, None)
  end.
Proof.
  intros id w k c H. unfold doc, call1, crunk. destruct k as [[|j]|]; cbn [bind runk is_faultable fail_reply err_of]; try reflexivity;
    cbn [exec]; rewrite H; reflexivity.
Qed.

Lemma estart_none : forall id w c, find_cont w id = Some c ->
  crunk (doc (EStart id)) w None = (set_conts w (upd_cont id CRunning (conts w)), None, None).
Proof. intros id w c H. unfold doc, call1, crunk. cbn [bind runk is_faultable]. cbn [exec]. rewrite H. reflexivity. Qed.

Lemma find_cont_upd_other : forall l id id' st, find (fun y => wid_eqb (c_id y) id') l = None ->
  find (fun y => wid_eqb (c_id y) id') (upd_cont id st l) = None \/ id = id'.
Proof.
  intros l id id' st H. destruct (wid_eqb id id') eqn:E; [right; apply wid_eqb_eq; exact E|left].
  induction l as [|y t IH]; simpl in *; [reflexivity|].
  destruct (wid_eqb (c_id y) id') eqn:E2; [discriminate|].
  destruct (wid_eqb (c_id y) id) eqn:E3; simpl; [rewrite E|rewrite E2]; apply IH; exact H.
Qed.

Lemma find_cont_upd_same : forall l id st c, find (fun y => wid_eqb (c_id y) id) l = Some c ->
  find (fun y => wid_eqb (c_id y) id) (upd_cont id st l) = Some (mkCont id st).
Proof.
  induction l as [|y t IH]; intros id st c H; simpl in *; [discriminate|].
  destruct (wid_eqb (c_id y) id) eqn:E; simpl; [rewrite wid_eqb_refl; reflexivity|rewrite E; eapply IH; eauto].
Qed.

Ltac rw H := let Hs := fresh in pose proof H as Hs; unfold oerr in Hs; unfold oerr; rewrite Hs; clear Hs.

(* the three ways doReplaceWorkload can end *)
Definition new_of (opi index : nat) (old : wl) : wl := mkWl (mkWid opi (w_node old) index) (w_node old) (w_pod old) (w_res old).

Record replace_post (opi index : nat) (old : wl) (w w' : world) (r : option wid * bool * oerr) : Prop := {
  rp_pods : pods w' = pods w; rp_nodes : nodes w' = nodes w; rp_plugs : plugs w' = plugs w;
  rp_strict : strict_remove w' = strict_remove w; rp_out : out w' = out w;
  (* success: the old workload is gone (record and container), the new one is recorded and running on the old allocation *)
  rp_ok : snd r = None ->
     fst r = (Some (w_id (new_of opi index old)), true) /\
     wls w' = del_wl (w_id old) (wls w ++ [new_of opi index old]) /\
     conts w' = del_cont (w_id old) (upd_cont (w_id old) CStopped (conts w) ++ [mkCont (w_id (new_of opi index old)) CRunning]);
  (* failure before the new workload exists: nothing is recorded or removed, the old container is untouched or (re)started *)
  rp_fail : snd r <> None -> fst (fst r) = None ->
     snd (fst r) = false /\ wls w' = wls w /\
     (conts w' = conts w \/ conts w' = upd_cont (w_id old) CRunning (conts w) \/
      conts w' = upd_cont (w_id old) CRunning (upd_cont (w_id old) CStopped (conts w)));
  (* failure after the new workload was deployed: only the removal of the old one can have failed (the known
     finding): old AND new are recorded, the old container is restarted *)
  rp_window : snd r <> None -> fst (fst r) <> None ->
     fst r = (Some (w_id (new_of opi index old)), false) /\
     Permutation (wls w') (wls w ++ [new_of opi index old]) /\
     conts w' = upd_cont (w_id old) CRunning (upd_cont (w_id old) CStopped (conts w) ++ [mkCont (w_id (new_of opi index old)) CRunning]);
}.

Theorem do_replace_spec : forall opi index old w k c0,
  NoDup (ids (wls w)) -> find_wl w (w_id old) = Some old -> find_cont w (w_id old) = Some c0 ->
  find_wl w (w_id (new_of opi index old)) = None -> find_cont w (w_id (new_of opi index old)) = None ->
  exists w' k' r, crunk (do_replace opi index old) w k = (w', k', r) /\ replace_post opi index old w w' r.
Proof.
  intros opi index old w k c0 Hnd Hold Hc0 Hfw Hfc.
  assert (Hne : wid_eqb (w_id old) (w_id (new_of opi index old)) = false).
  { destruct (wid_eqb (w_id old) (w_id (new_of opi index old))) eqn:E; [|reflexivity]. apply wid_eqb_eq in E. rewrite <- E in Hfw. congruence. }
  set (new := new_of opi index old) in *.
  unfold do_replace. rewrite crunk_bind.
  destruct (prep_node_any (w_node old) w k) as [k1 [e H1]]. rewrite H1.
  destruct e as [e|].
  { rewrite crunk_ret. do 3 eexists. split; [reflexivity|]. constructor; cbn [fst snd]; try reflexivity; try congruence.
    intros _ _. auto. }
  fold new. change (mkWid opi (w_node old) index) with (w_id new).
  rewrite crunk_bind. unfold txn_s at 1. rewrite crunk_bind. rewrite crunk_bind.
  rw (estop_step (w_id old) w k1 c0 Hc0).
  destruct k1 as [[|k1]|].
  - (* stop fails: the old container is started again *)
    rewrite crunk_ret. cbn [snd fst]. rewrite crunk_bind. rw (estart_none (w_id old) w c0 Hc0). rewrite !crunk_ret.
    do 3 eexists. split; [reflexivity|]. constructor; cbn [fst snd pods nodes plugs strict_remove out wls conts set_conts]; try reflexivity; try congruence.
    intros _ _. auto.
  - rewrite crunk_ret. cbn [snd fst]. rewrite crunk_bind. unfold txn_s at 1. rewrite crunk_bind. rewrite crunk_bind.
    clear H1. generalize (Some k1). intros kk. 
    set (w1 := set_conts w (upd_cont (w_id old) CStopped (conts w))).
    change (mkWl (w_id new) (w_node old) (w_pod old) (w_res old)) with new.
    assert (Hfw1 : find_wl w1 (w_id new) = None) by exact Hfw.
    assert (Hfc1 : find_cont w1 (w_id new) = None).
    { unfold find_cont, w1. cbn [conts set_conts]. destruct (find_cont_upd_other (conts w) (w_id old) (w_id new) CStopped Hfc) as [E|E]; [exact E|].
      rewrite E, wid_eqb_refl in Hne. discriminate. }
    destruct (deploy_one_spec new None w1 kk Hfw1 Hfc1) as [w2 [k2 [r2 [H2 [Hok2 Hfail2]]]]].
    rw H2. rewrite crunk_ret. cbn [snd fst].
    destruct r2 as [e2|].
    + (* the new workload could not be deployed: the old container is started again *)
      destruct (Hfail2 ltac:(discriminate)) as [[Hp [Hn [Hpl [Ho [Hs [Hsc [Hw Hc]]]]]]] ->].
      unfold w1 in Hp, Hn, Hpl, Ho, Hs, Hw, Hc; cbn [pods nodes plugs strict_remove out wls conts set_conts] in Hp, Hn, Hpl, Ho, Hs, Hw, Hc.
      rewrite crunk_ret. cbn [snd fst]. rewrite crunk_bind.
      assert (Hc2 : find_cont w2 (w_id old) = Some (mkCont (w_id old) CStopped)).
      { unfold find_cont. rewrite Hc. eapply find_cont_upd_same; exact Hc0. }
      rw (estart_none (w_id old) w2 _ Hc2). rewrite !crunk_ret. cbn [is_ok fst snd].
      do 3 eexists. split; [reflexivity|]. constructor; cbn [fst snd pods nodes plugs strict_remove out wls conts set_conts]; try congruence.
      intros _ _. split; [reflexivity|]. split; [rewrite Hw; reflexivity|]. right. right. rewrite Hc. reflexivity.
    + destruct (Hok2 eq_refl) as [Hp [Hn [Hpl [Ho [Hs [Hsc [Hw Hc]]]]]]].
      unfold w1 in Hp, Hn, Hpl, Ho, Hs, Hw, Hc; cbn [pods nodes plugs strict_remove out wls conts set_conts] in Hp, Hn, Hpl, Ho, Hs, Hw, Hc.
      cbn [snd fst is_ok]. rewrite crunk_bind. rewrite crunk_bind.
      assert (Hnd2 : NoDup (ids (wls w2))).
      { rewrite Hw. rewrite ids_app. simpl. apply NoDup_app_single; [exact Hnd|apply find_wl_none_notin; exact Hfw]. }
      assert (Hold2 : find_wl w2 (w_id old) = Some old).
      { unfold find_wl. rewrite Hw. apply find_app_some. exact Hold. }
      destruct (do_remove_workload_spec old w2 k2 Hnd2 Hold2) as [w3 [k3 [r3 [H3 [Hok3 Hfail3]]]]].
      rw H3. rewrite crunk_ret. cbn [snd fst].
      destruct r3 as [e3|].
      * (* the known window: the removal of the old workload failed *)
        destruct (Hfail3 ltac:(discriminate)) as [-> [l [-> Hperm]]].
        rewrite crunk_ret. cbn [snd fst]. rewrite crunk_bind.
        assert (Hc3 : find_cont (oth w2 l (plugs w2) (conts w2)) (w_id old) = Some (mkCont (w_id old) CStopped)).
        { unfold find_cont. cbn [conts oth]. rewrite Hc. apply find_app_some. eapply find_cont_upd_same; exact Hc0. }
        rw (estart_none (w_id old) _ _ Hc3). rewrite !crunk_ret. cbn [is_ok fst snd].
        do 3 eexists. split; [reflexivity|]. constructor; cbn [fst snd pods nodes plugs strict_remove out wls conts set_conts oth]; try congruence.
        intros _ _. split; [reflexivity|]. split; [rewrite Hw in Hperm; exact Hperm|]. rewrite Hc. reflexivity.
      * rewrite (Hok3 eq_refl). rewrite !crunk_ret. cbn [is_ok fst snd].
        do 3 eexists. split; [reflexivity|]. constructor; cbn [fst snd pods nodes plugs strict_remove out wls conts set_conts oth]; try congruence.
        intros _. split; [reflexivity|]. rewrite Hw, Hc. split; reflexivity.
  - rewrite crunk_ret. cbn [snd fst]. rewrite crunk_bind. unfold txn_s at 1. rewrite crunk_bind. rewrite crunk_bind.
    clear H1. 
    set (w1 := set_conts w (upd_cont (w_id old) CStopped (conts w))).
    change (mkWl (w_id new) (w_node old) (w_pod old) (w_res old)) with new.
    assert (Hfw1 : find_wl w1 (w_id new) = None) by exact Hfw.
    assert (Hfc1 : find_cont w1 (w_id new) = None).
    { unfold find_cont, w1. cbn [conts set_conts]. destruct (find_cont_upd_other (conts w) (w_id old) (w_id new) CStopped Hfc) as [E|E]; [exact E|].
      rewrite E, wid_eqb_refl in Hne. discriminate. }
    destruct (deploy_one_spec new None w1 (@None nat) Hfw1 Hfc1) as [w2 [k2 [r2 [H2 [Hok2 Hfail2]]]]].
    rw H2. rewrite crunk_ret. cbn [snd fst].
    destruct r2 as [e2|].
    + (* the new workload could not be deployed: the old container is started again *)
      destruct (Hfail2 ltac:(discriminate)) as [[Hp [Hn [Hpl [Ho [Hs [Hsc [Hw Hc]]]]]]] ->].
      unfold w1 in Hp, Hn, Hpl, Ho, Hs, Hw, Hc; cbn [pods nodes plugs strict_remove out wls conts set_conts] in Hp, Hn, Hpl, Ho, Hs, Hw, Hc.
      rewrite crunk_ret. cbn [snd fst]. rewrite crunk_bind.
      assert (Hc2 : find_cont w2 (w_id old) = Some (mkCont (w_id old) CStopped)).
      { unfold find_cont. rewrite Hc. eapply find_cont_upd_same; exact Hc0. }
      rw (estart_none (w_id old) w2 _ Hc2). rewrite !crunk_ret. cbn [is_ok fst snd].
      do 3 eexists. split; [reflexivity|]. constructor; cbn [fst snd pods nodes plugs strict_remove out wls conts set_conts]; try congruence.
      intros _ _. split; [reflexivity|]. split; [rewrite Hw; reflexivity|]. right. right. rewrite Hc. reflexivity.
    + destruct (Hok2 eq_refl) as [Hp [Hn [Hpl [Ho [Hs [Hsc [Hw Hc]]]]]]].
      unfold w1 in Hp, Hn, Hpl, Ho, Hs, Hw, Hc; cbn [pods nodes plugs strict_remove out wls conts set_conts] in Hp, Hn, Hpl, Ho, Hs, Hw, Hc.
      cbn [snd fst is_ok]. rewrite crunk_bind. rewrite crunk_bind.
      assert (Hnd2 : NoDup (ids (wls w2))).
      { rewrite Hw. rewrite ids_app. simpl. apply NoDup_app_single; [exact Hnd|apply find_wl_none_notin; exact Hfw]. }
      assert (Hold2 : find_wl w2 (w_id old) = Some old).
      { unfold find_wl. rewrite Hw. apply find_app_some. exact Hold. }
      destruct (do_remove_workload_spec old w2 k2 Hnd2 Hold2) as [w3 [k3 [r3 [H3 [Hok3 Hfail3]]]]].
      rw H3. rewrite crunk_ret. cbn [snd fst].
      destruct r3 as [e3|].
      * (* the known window: the removal of the old workload failed *)
        destruct (Hfail3 ltac:(discriminate)) as [-> [l [-> Hperm]]].
        rewrite crunk_ret. cbn [snd fst]. rewrite crunk_bind.
        assert (Hc3 : find_cont (oth w2 l (plugs w2) (conts w2)) (w_id old) = Some (mkCont (w_id old) CStopped)).
        { unfold find_cont. cbn [conts oth]. rewrite Hc. apply find_app_some. eapply find_cont_upd_same; exact Hc0. }
        rw (estart_none (w_id old) _ _ Hc3). rewrite !crunk_ret. cbn [is_ok fst snd].
        do 3 eexists. split; [reflexivity|]. constructor; cbn [fst snd pods nodes plugs strict_remove out wls conts set_conts oth]; try congruence.
        intros _ _. split; [reflexivity|]. split; [rewrite Hw in Hperm; exact Hperm|]. rewrite Hc. reflexivity.
      * rewrite (Hok3 eq_refl). rewrite !crunk_ret. cbn [is_ok fst snd].
        do 3 eexists. split; [reflexivity|]. constructor; cbn [fst snd pods nodes plugs strict_remove out wls conts set_conts oth]; try congruence.
        intros _. split; [reflexivity|]. rewrite Hw, Hc. split; reflexivity.
Qed.

(* ---- one workload of ReplaceWorkload, under its lock ---- *)
Definition replace_block (opi index : nat) (id : wid) : cprog (option wid * bool * oerr) :=
  x <- call1 (SGetWorkloads [id]) ;;
  match x with
  | RWls (old :: _) =>
    a <- acquire [LWl (w_id old)] [] ;;
    match fst a with
    | Some e => release (snd a) ;;; Ret (None, false, Some e)
    | None => t <- do_replace opi index old ;; release (snd a) ;;; Ret t
    end
  | RWls [] => Ret (None, false, Some ENatural)
  | RErr e => Ret (None, false, Some e)
  | _ => Ret (None, false, Some ENatural)
  end.

Lemma replace_loop_unfold : forall opi index id rest,
  replace_loop opi index (id :: rest) =
  (r <- replace_block opi index id ;; send (MReplace id (fst (fst r)) (snd (fst r)) (snd r)) ;;; replace_loop opi (S index) rest).
Proof. reflexivity. Qed.

Definition early_fail (r : option wid * bool * oerr) : Prop := fst (fst r) = None /\ snd (fst r) = false /\ snd r <> None.

Lemma replace_block_spec : forall opi index id w k,
  NoDup (ids (wls w)) -> (forall x, In x (wls w) -> exists c, find_cont w (w_id x) = Some c) ->
  (forall n, find_wl w (mkWid opi n index) = None /\ find_cont w (mkWid opi n index) = None) ->
  exists w1 k1 r, crunk (replace_block opi index id) w k = (w1, k1, r) /\
    ((w1 = w /\ early_fail r) \/
     (exists old, find_wl w id = Some old /\ w_id old = id /\ replace_post opi index old w w1 r)).
Proof.
  intros opi index id w k Hnd Hcont Hfresh. unfold replace_block. rewrite crunk_bind.
  assert (Hearly : forall e kk, exists w1 k1 r, crunk (Ret (None, false, Some e) : cprog (option wid * bool * oerr)) w kk = (w1, k1, r) /\
    ((w1 = w /\ early_fail r) \/ (exists old, find_wl w id = Some old /\ w_id old = id /\ replace_post opi index old w w1 r))).
  { intros. rewrite crunk_ret. do 3 eexists. split; [reflexivity|]. left. split; [reflexivity|]. repeat split. discriminate. }
  assert (Hget : exists k0, crunk (call1 (SGetWorkloads [id])) w k = (w, k0, match k with Some O => RErr EInjected | _ =>
            match find_wl w id with Some x => RWls [x] | None => RErr ENatural end end)).
  { unfold call1, crunk. destruct k as [[|j]|]; cbn [runk is_faultable fail_reply]; [eexists; reflexivity| |];
      cbn [exec forallb flat_map]; destruct (find_wl w id); eexists; reflexivity. }
  destruct Hget as [k0 Hget]. rewrite Hget.
  destruct k as [[|j]|]; [apply Hearly| |].
  all: destruct (find_wl w id) as [old|] eqn:Hold; [|apply Hearly].
  all: rewrite crunk_bind; destruct (acquire_neutral [LWl (w_id old)] [] w k0) as [k1 [a [Ha _]]]; rewrite Ha;
       destruct (fst a) as [e|];
       [ rewrite crunk_bind; destruct (release_neutral (snd a) w k1) as [k2 Hr]; rewrite Hr; apply Hearly | ].
  all: destruct (find_wl_id _ _ _ Hold) as [Hid Hin]; destruct (Hcont old Hin) as [c0 Hc0];
       destruct (Hfresh (w_node old)) as [Hfw Hfc];
       rewrite crunk_bind;
       destruct (do_replace_spec opi index old w k1 c0 Hnd ltac:(rewrite Hid; exact Hold) Hc0 Hfw Hfc) as [w2 [k2 [r [H2 Hpost]]]];
       rewrite H2; rewrite crunk_bind; destruct (release_neutral (snd a) w2 k2) as [k3 Hr]; rewrite Hr; rewrite crunk_ret;
       do 3 eexists; (split; [reflexivity|]); right; exists old; auto.
Qed.

(* ---- the invariant across one replaced workload ---- *)
Definition fresh_from (opi index : nat) (w : world) : Prop :=
  forall n i, (index <= i)%nat -> find_wl w (mkWid opi n i) = None /\ find_cont w (mkWid opi n i) = None.

Lemma find_cont_upd_exists : forall l id id' st, (exists c, find (fun y => wid_eqb (c_id y) id') l = Some c) ->
  exists c, find (fun y => wid_eqb (c_id y) id') (upd_cont id st l) = Some c.
Proof.
  induction l as [|y t IH]; intros id id' st [c H]; simpl in *; [discriminate|].
  destruct (wid_eqb (c_id y) id) eqn:E; simpl.
  - apply wid_eqb_eq in E. rewrite E in H. destruct (wid_eqb id id'); [eauto|]. apply IH. eauto.
  - destruct (wid_eqb (c_id y) id'); [eauto|]. apply IH. eauto.
Qed.

Lemma find_filter_none : forall {A} (f g : A -> bool) l, find f l = None -> find f (filter g l) = None.
Proof.
  intros A f g l. induction l as [|y t IH]; simpl; intros H; [reflexivity|].
  destruct (f y) eqn:E; [discriminate|]. destruct (g y); simpl; [rewrite E|]; auto.
Qed.

Lemma find_app_none : forall {A} (f : A -> bool) l x, find f l = None -> f x = false -> find f (l ++ [x]) = None.
Proof. intros A f l x. induction l as [|y t IH]; simpl; intros H Hx; [rewrite Hx; reflexivity|]. destruct (f y); [discriminate|auto]. Qed.

Lemma find_upd_cont_none : forall l id id' st, find (fun y => wid_eqb (c_id y) id') l = None -> id <> id' ->
  find (fun y => wid_eqb (c_id y) id') (upd_cont id st l) = None.
Proof. intros l id id' st H Hne. destruct (find_cont_upd_other l id id' st H) as [E|E]; [exact E|contradiction]. Qed.

Lemma Inv_conts : forall w c, Inv w -> (forall id, (exists x, find_cont w id = Some x) -> exists x, find (fun y => wid_eqb (c_id y) id) c = Some x) ->
  Inv (set_conts w c).
Proof.
  intros w c [[H1 H2 H3] H4 H5 H6] Hc. constructor; [constructor|..]; auto.
  intros x Hx. unfold find_cont. cbn [conts set_conts]. apply Hc. apply H3. exact Hx.
Qed.

Lemma Inv_core : forall w w', Inv w -> nodes w' = nodes w -> plugs w' = plugs w -> wls w' = wls w ->
  (forall id, (exists x, find_cont w id = Some x) -> exists x, find_cont w' id = Some x) -> Inv w'.
Proof.
  intros w w' [[H1 H2 H3] H4 H5 H6] Hn Hp Hw Hc. constructor; [constructor|..].
  - rewrite Hw; exact H1.
  - intros x Hx. rewrite Hw in Hx. unfold find_plug. rewrite Hp. apply H2; exact Hx.
  - intros x Hx. rewrite Hw in Hx. apply Hc. apply H3; exact Hx.
  - intros p Hp'. rewrite Hp in Hp'. rewrite Hw. apply H4; exact Hp'.
  - rewrite Hp; exact H5.
  - intros y Hy. rewrite Hn in Hy. auto.
Qed.

Lemma wid_neq_idx : forall opi n m i j, i <> j -> mkWid opi n i <> mkWid opi m j.
Proof. intros opi n m i j H E. inversion E. contradiction. Qed.

Lemma wid_eqb_neq : forall a b, a <> b -> wid_eqb a b = false.
Proof. intros a b H. destruct (wid_eqb a b) eqn:E; [|reflexivity]. apply wid_eqb_eq in E. contradiction. Qed.

Lemma replace_post_Inv : forall opi index old w w1 r,
  Inv w -> fresh_from opi index w -> find_wl w (w_id old) = Some old ->
  replace_post opi index old w w1 r ->
  ~ (snd r <> None /\ fst (fst r) <> None) ->
  Inv w1 /\ fresh_from opi (S index) w1.
Proof.
  intros opi index old w w1 r HI Hfr Hold [Hp Hn Hpl Hs Ho Hok Hfail Hwin] Hnw.
  pose proof (find_wl_id _ _ _ Hold) as [_ Hoin].
  assert (Hoc : exists c0, find_cont w (w_id old) = Some c0) by (apply (wf_cont w (inv_wf w HI)); exact Hoin).
  assert (Hold_not_fresh : forall n i, (index <= i)%nat -> w_id old <> mkWid opi n i).
  { intros n i Hi E. destruct (Hfr n i Hi) as [Hf _]. rewrite <- E in Hf. congruence. }
  destruct (snd r) as [e|] eqn:Er.
  - (* failure before the new workload exists *)
    assert (Hnone : fst (fst r) = None).
    { destruct (fst (fst r)) eqn:E; [|reflexivity]. exfalso. apply Hnw. split; discriminate. }
    destruct (Hfail ltac:(discriminate) Hnone) as [_ [Hw Hc]].
    assert (Hcases : forall id, (forall x, find_cont w id = Some x -> exists x', find_cont w1 id = Some x') /\
                                (find_cont w id = None -> find_cont w1 id = None)).
    { intros id. unfold find_cont.
      destruct Hc as [->|[->| ->]].
      - split; [eauto|auto].
      - split.
        + intros x Hx. apply find_cont_upd_exists. eauto.
        + intros Hx. destruct (find_cont_upd_other (conts w) (w_id old) id CRunning Hx) as [E|E]; [exact E|].
          subst id. destruct Hoc as [c0 Hc0]. unfold find_cont in Hc0. congruence.
      - split.
        + intros x Hx. apply find_cont_upd_exists. apply find_cont_upd_exists. eauto.
        + intros Hx. destruct (find_cont_upd_other (conts w) (w_id old) id CStopped Hx) as [E|E].
          * destruct (find_cont_upd_other _ (w_id old) id CRunning E) as [E2|E2]; [exact E2|].
            subst id. destruct Hoc as [c0 Hc0]. unfold find_cont in Hc0. congruence.
          * subst id. destruct Hoc as [c0 Hc0]. unfold find_cont in Hc0. congruence. }
    split.
    + apply (Inv_core w w1 HI Hn Hpl Hw). intros id [x Hx]. apply (proj1 (Hcases id) x Hx).
    + intros n i Hi. destruct (Hfr n i ltac:(lia)) as [Hf1 Hf2]. split.
      * unfold find_wl. rewrite Hw. exact Hf1.
      * apply (proj2 (Hcases _) Hf2).
  - (* success *)
    destruct (Hok eq_refl) as [_ [Hw Hc]].
    set (new := new_of opi index old) in *.
    assert (Hnewid : w_id new = mkWid opi (w_node old) index) by reflexivity.
    assert (Hne : w_id old <> w_id new) by (rewrite Hnewid; apply Hold_not_fresh; lia).
    destruct (Hfr (w_node old) index ltac:(lia)) as [Hfw Hfc]. rewrite <- Hnewid in Hfw, Hfc.
    assert (Hnd2 : NoDup (ids (wls w ++ [new]))).
    { rewrite ids_app. simpl. apply NoDup_app_single; [apply (wf_ids w (inv_wf w HI))|apply find_wl_none_notin; exact Hfw]. }
    assert (Hold2 : find (fun y => wid_eqb (w_id y) (w_id old)) (wls w ++ [new]) = Some old) by (apply find_app_some; exact Hold).
    split.
    + destruct HI as [[H1 H2 H3] H4 H5 H6]. constructor; [constructor|..].
      * rewrite Hw. apply nodup_ids_del. exact Hnd2.
      * intros x Hx. rewrite Hw in Hx. apply in_del_wl in Hx. destruct Hx as [Hx _]. unfold find_plug. rewrite Hpl.
        apply in_app_or in Hx. destruct Hx as [Hx|[<-|[]]]; [apply H2; exact Hx|]. apply (H2 old Hoin).
      * intros x Hx. rewrite Hw in Hx. apply in_del_wl in Hx. destruct Hx as [Hx Hxne]. unfold find_cont. rewrite Hc.
        rewrite find_cont_del_other by exact Hxne.
        apply in_app_or in Hx. destruct Hx as [Hx|[<-|[]]].
        -- destruct (find_cont_upd_exists (conts w) (w_id old) (w_id x) CStopped (H3 x Hx)) as [c Hcx].
           exists c. apply find_app_some. exact Hcx.
        -- apply find_cont_app_in. exists (mkCont (w_id new) CRunning). split; [left; reflexivity|reflexivity].
      * intros p Hp'. rewrite Hpl in Hp'. rewrite Hw.
        rewrite (sum_on_del _ old _ Hnd2 Hold2). rewrite sum_on_app. rewrite (H4 p Hp').
        unfold sum_on at 3. simpl. destruct (Nat.eqb (w_node old) (p_node p)); simpl.
        -- destruct (sum_on (wls w) (p_node p)) as [a b], (w_res old) as [c d]. unfold radd, rsub, rzero; simpl. f_equal; lia.
        -- destruct (sum_on (wls w) (p_node p)) as [a b]. unfold radd, rsub, rzero; simpl. f_equal; lia.
      * rewrite Hpl. exact H5.
      * intros y Hy. rewrite Hn in Hy. auto.
    + intros n i Hi. destruct (Hfr n i ltac:(lia)) as [Hf1 Hf2]. split.
      * unfold find_wl. rewrite Hw. unfold del_wl. apply find_filter_none. apply find_app_none; [exact Hf1|].
        apply wid_eqb_neq. rewrite Hnewid. apply wid_neq_idx. lia.
      * unfold find_cont. rewrite Hc. unfold del_cont. apply find_filter_none. apply find_app_none.
        -- apply find_upd_cont_none; [exact Hf2|]. apply Hold_not_fresh. lia.
        -- cbn [c_id]. apply wid_eqb_neq. rewrite Hnewid. apply wid_neq_idx. lia.
Qed.

(* ---- the channel only grows, whatever the program and the fault ---- *)
Lemma exec_out_grows : forall w c, exists l, out (fst (exec w c)) = l ++ out w.
Proof.
  intros w c. destruct c; simpl;
    repeat match goal with
           | |- context [match ?x with _ => _ end] => destruct x eqn:?; simpl
           end;
    try (exists []; reflexivity).
  eexists [_]. reflexivity.
Qed.

Lemma crunk_out_grows : forall A (p : cprog A) w k, exists l, out (after p w k) = l ++ out w.
Proof.
  intros A p. induction p as [a|c q IH]; intros w k.
  - exists []. reflexivity.
  - unfold after, crunk in *. cbn [runk].
    assert (Hstep : forall r kk, exists l, out (fst (fst (runk call reply world exec fail_reply is_faultable (q r) (fst (exec w c)) kk))) = l ++ out w).
    { intros r kk. destruct (IH r (fst (exec w c)) kk) as [l Hl]. destruct (exec_out_grows w c) as [l0 Hl0].
      exists (l ++ l0). rewrite Hl, Hl0. apply app_assoc. }
    destruct (is_faultable c).
    + destruct k as [[|j]|].
      * apply IH.
      * destruct (exec w c) as [w1 r] eqn:E. specialize (Hstep r (Some j)). simpl in Hstep. exact Hstep.
      * destruct (exec w c) as [w1 r] eqn:E. specialize (Hstep r None). simpl in Hstep. exact Hstep.
    + destruct (exec w c) as [w1 r] eqn:E. specialize (Hstep r k). simpl in Hstep. exact Hstep.
Qed.

(* the message of a workload whose replacement failed AFTER its new workload was deployed: the known finding *)
Definition is_window (m : msg) : Prop :=
  match m with MReplace _ (Some _) false (Some _) => True | _ => False end.

Lemma fresh_from_mono : forall opi i j w, (i <= j)%nat -> fresh_from opi i w -> fresh_from opi j w.
Proof. intros opi i j w H Hf n x Hx. apply Hf. lia. Qed.

Lemma send_exact' : forall m w k, crunk (send m) w k = (set_out w (m :: out w), k, tt).
Proof. intros. unfold send, ign, doc, call1, crunk. cbn [bind runk exec is_faultable]. reflexivity. Qed.

Lemma replace_loop_Inv : forall opi ids index w k l, Inv w -> fresh_from opi index w ->
  out (after (replace_loop opi index ids) w k) = l ++ out w ->
  (forall m, In m l -> ~ is_window m) ->
  Inv (after (replace_loop opi index ids) w k).
Proof.
  intros opi ids. induction ids as [|id rest IH]; intros index w k l HI Hfr Hout Hnw.
  - exact HI.
  - revert Hout. rewrite replace_loop_unfold. unfold after. rewrite crunk_bind.
    destruct (replace_block_spec opi index id w k (wf_ids w (inv_wf w HI)) (wf_cont w (inv_wf w HI)))
      as [w1 [k1 [r [H1 Hcase]]]].
    { intros n. apply Hfr. lia. }
    rewrite H1. rewrite crunk_bind. rewrite send_exact'.
    set (m0 := MReplace id (fst (fst r)) (snd (fst r)) (snd r)).
    set (w2 := set_out w1 (m0 :: out w1)).
    intros Hout.
    destruct (crunk_out_grows _ (replace_loop opi (S index) rest) w2 k1) as [l' Hl'].
    unfold after in Hl'.
    assert (Ho1 : out w1 = out w).
    { destruct Hcase as [[-> _]|[old [_ [_ Hp]]]]; [reflexivity|apply (rp_out _ _ _ _ _ _ Hp)]. }
    assert (Hl : l = l' ++ [m0]).
    { rewrite Hl' in Hout. unfold w2 in Hout. cbn [out set_out] in Hout. rewrite Ho1 in Hout.
      change (m0 :: out w) with ([m0] ++ out w) in Hout. rewrite app_assoc in Hout. apply app_inv_tail in Hout. auto. }
    assert (Hm0 : ~ is_window m0) by (apply Hnw; rewrite Hl; apply in_or_app; right; left; reflexivity).
    assert (H2 : Inv w1 /\ fresh_from opi (S index) w1).
    { destruct Hcase as [[-> _]|[old [Hold [Hid Hp]]]].
      - split; [exact HI|eapply fresh_from_mono; [|exact Hfr]; lia].
      - apply (replace_post_Inv opi index old w w1 r HI Hfr); [rewrite Hid; exact Hold|exact Hp|].
        intros [Hr Hn]. apply Hm0. unfold m0, is_window.
        destruct (rp_window _ _ _ _ _ _ Hp Hr Hn) as [Hw _]. rewrite Hw. cbn [fst snd].
        destruct (snd r); [exact I|congruence]. }
    destruct H2 as [HI1 Hfr1].
    apply (IH (S index) w2 k1 l').
    + apply Inv_out. exact HI1.
    + exact Hfr1.
    + exact Hl'.
    + intros m Hm. apply Hnw. rewrite Hl. apply in_or_app. left; exact Hm.
Qed.

(* whole ReplaceWorkload, EVERY world satisfying Inv, EVERY fault position: unless some workload's replacement
   reported a failure after its new workload was deployed (the known finding), the invariant is kept *)
Theorem replace_keeps_Inv : forall opi idl w k l, Inv w -> fresh_from opi 0 w ->
  out (after (replace opi idl) w k) = l ++ out w ->
  (forall m, In m l -> ~ is_window m) ->
  Inv (after (replace opi idl) w k).
Proof.
  intros opi idl w k l HI Hfr. unfold replace, after. rewrite crunk_bind.
  destruct (crunk (replace_loop opi 0 idl) w k) as [[w1 k1] []] eqn:H1. rewrite send_exact'. cbn [fst out set_out].
  intros Hout Hnw.
  destruct (crunk_out_grows _ (replace_loop opi 0 idl) w k) as [l' Hl']. unfold after in Hl'. rewrite H1 in Hl'. cbn [fst] in Hl'.
  assert (Hl : l = MClose :: l').
  { rewrite Hl' in Hout. change (MClose :: l' ++ out w) with ((MClose :: l') ++ out w) in Hout. apply app_inv_tail in Hout. auto. }
  apply Inv_out.
  pose proof (replace_loop_Inv opi idl 0 w k l' HI Hfr) as HL. unfold after in HL. rewrite H1 in HL. cbn [fst] in HL.
  apply HL; [exact Hl'|]. intros m Hm. apply Hnw. rewrite Hl. right; exact Hm.
Qed.

(* C11 for replace: whatever made the replacement of one workload fail, the old workload is still recorded, the
   plugin's usage is untouched and the old container is untouched or running (again) *)
Theorem replace_failed_keeps_old : forall opi index old w k c0,
  NoDup (ids (wls w)) -> find_wl w (w_id old) = Some old -> find_cont w (w_id old) = Some c0 ->
  find_wl w (w_id (new_of opi index old)) = None -> find_cont w (w_id (new_of opi index old)) = None ->
  exists w' k' r, crunk (do_replace opi index old) w k = (w', k', r) /\
    (snd r <> None ->
       In old (wls w') /\ plugs w' = plugs w /\ nodes w' = nodes w /\
       (conts w' = conts w \/ find_cont w' (w_id old) = Some (mkCont (w_id old) CRunning))) /\
    (* and if the new workload was not deployed, nothing else changed either *)
    (snd r <> None -> fst (fst r) = None -> wls w' = wls w).
Proof.
  intros opi index old w k c0 Hnd Hold Hc0 Hfw Hfc.
  destruct (do_replace_spec opi index old w k c0 Hnd Hold Hc0 Hfw Hfc) as [w' [k' [r [H [Hp Hn Hpl Hs Ho Hok Hfail Hwin]]]]].
  exists w', k', r. split; [exact H|]. split.
  - intros Hr. destruct (fst (fst r)) as [nid|] eqn:E.
    + destruct (Hwin Hr ltac:(discriminate)) as [_ [Hperm Hc]].
      split; [eapply Permutation_in; [apply Permutation_sym; exact Hperm|apply in_or_app; left; apply find_wl_id in Hold; tauto]|].
      split; [exact Hpl|]. split; [exact Hn|]. right. unfold find_cont. rewrite Hc.
      eapply find_cont_upd_same. apply find_app_some. eapply find_cont_upd_same. exact Hc0.
    + destruct (Hfail Hr eq_refl) as [_ [Hw Hc]].
      split; [rewrite Hw; apply find_wl_id in Hold; tauto|]. split; [exact Hpl|]. split; [exact Hn|].
      unfold find_cont. destruct Hc as [->|[->| ->]]; [left; reflexivity| |]; right.
      * eapply find_cont_upd_same. exact Hc0.
      * eapply find_cont_upd_same. eapply find_cont_upd_same. exact Hc0.
  - intros Hr Hnone. destruct (Hfail Hr Hnone) as [_ [Hw _]]. exact Hw.
Qed.

(* the side condition of the replace step is necessary: in EVERY world satisfying Inv, the outcome "failed after the
   new workload was deployed" breaks the invariant as soon as the old workload holds any resource *)
Theorem replace_window_breaks_usage : forall opi index old w w' r,
  Inv w -> find_wl w (w_id old) = Some old -> w_res old <> rzero ->
  replace_post opi index old w w' r -> snd r <> None -> fst (fst r) <> None ->
  ~ use_ok w'.
Proof.
  intros opi index old w w' r HI Hold Hres [Hp Hn Hpl Hs Ho Hok Hfail Hwin] Hr Hnew Huse.
  destruct (Hwin Hr Hnew) as [_ [Hperm _]].
  destruct (find_wl_id _ _ _ Hold) as [_ Hin].
  destruct (wf_plug w (inv_wf w HI) old Hin) as [p Hfp].
  unfold find_plug in Hfp. apply find_some in Hfp. destruct Hfp as [Hpin Hpn]. apply Nat.eqb_eq in Hpn.
  assert (Hp' : In p (plugs w')) by (rewrite Hpl; exact Hpin).
  pose proof (Huse p Hp') as E. rewrite (sum_on_perm _ _ _ Hperm) in E. rewrite sum_on_app in E.
  rewrite (inv_use w HI p Hpin) in E. unfold sum_on at 3 in E. simpl in E. rewrite Hpn, Nat.eqb_refl in E. simpl in E.
  apply Hres. destruct (sum_on (wls w) (w_node old)) as [a b], (w_res old) as [c d].
  unfold radd, rzero in *; simpl in *. inversion E. f_equal; lia.
Qed.

(* ================================================================== histories *)
(* One step of a history: an operation of the cluster API and the position of its (at most one) fault among
   the faultable calls the operation makes ([None], or a position beyond the last call: no fault). *)
Definition hstep := (op * option nat)%type.

Definition step_world (w : world) (s : hstep) : world := after (script_of (fst s)) (prepare_world w (fst s)) (snd s).
Definition run_hist (w : world) (h : list hstep) : world := fold_left step_world h w.

(* what a step needs of the world it starts in.
   - create: the inputs of the strategy (the plan is feasible on the capacity of the moment, names distinct, nodes exist)
     and an operation index never used before;
   - remove: the engine's refusal of a running container without force ([strict_remove]) together with an injected
     fault on the compensation would be a second, independent failure;
   - replace: the operation index is fresh, and no workload's replacement reported a failure AFTER its new workload
     was deployed (message MReplace id (Some new) false (Some err)): that outcome is the known finding
     E1-C10-replace-remove-old-unchecked, it breaks the invariant (C10_replace_refuted);
   - lambda: not part of this theorem. *)
Definition valid_step (w : world) (s : hstep) : Prop :=
  match fst s with
  | OCreate opi pod count r plan => count <> 0%nat -> create_hyp w opi r plan
  | ORemove ids force => force = true \/ strict_remove w = false
  | OReplace opi idl => fresh_from opi 0 w /\ (forall m, In m (out (step_world w s)) -> ~ is_window m)
  | OLambda _ _ _ _ _ _ _ => False
  | _ => True
  end.

Fixpoint valid_hist (w : world) (h : list hstep) : Prop :=
  match h with
  | [] => True
  | s :: t => valid_step w s /\ valid_hist (step_world w s) t
  end.

Lemma step_keeps_Inv : forall w o k, Inv w -> valid_step w (o, k) -> Inv (step_world w (o, k)).
Proof.
  intros w o k HI Hv.
  assert (HI' : Inv (prepare_world w o)).
  { unfold prepare_world. destruct o; try (apply Inv_out; exact HI). destruct Hv. }
  destruct o; unfold valid_step in Hv; cbn [fst] in Hv; [| | | | | | | |
    destruct Hv as [Hfr Hnw]; unfold step_world in *; cbn [fst snd script_of] in *;
    unfold unit_ok in *; rewrite after_bind in *;
    match goal with |- Inv (after rok ?W ?K) => change (after rok W K) with W end;
    match type of Hnw with context [after rok ?W ?K] => change (after rok W K) with W in Hnw end;
    apply (replace_keeps_Inv opi ids (prepare_world w (OReplace opi ids)) k
             (out (after (replace opi ids) (prepare_world w (OReplace opi ids)) k)));
    [exact HI'|exact Hfr|cbn [prepare_world out set_out]; rewrite app_nil_r; reflexivity|exact Hnw]
  | destruct Hv ];
  unfold step_world; cbn [fst snd script_of].
  - apply add_pod_keeps_Inv; exact HI'.
  - apply add_node_keeps_Inv; exact HI'.
  - apply remove_node_keeps_Inv; exact HI'.
  - apply set_node_keeps_Inv; exact HI'.
  - destruct (Nat.eqb count 0) eqn:E.
    + exact HI'.
    + rewrite after_bind. change (Inv (after (create opi pod r plan) (prepare_world w (OCreate opi pod count r plan)) k)).
      apply create_keeps_Inv; [|exact HI']. apply Nat.eqb_neq in E. exact (Hv E).
  - apply remove_keeps_Inv; [exact HI'|exact Hv].
  - apply dissociate_keeps_Inv; exact HI'.
  - apply realloc_keeps_Inv; exact HI'.
Qed.

Theorem history_keeps_Inv : forall h w, Inv w -> valid_hist w h -> Inv (run_hist w h).
Proof.
  induction h as [|[o k] t IH]; intros w HI Hv.
  - exact HI.
  - destruct Hv as [Hv Ht]. simpl. apply IH; [apply step_keeps_Inv; assumption|exact Ht].
Qed.

(* C10 itself: usage = sum of the recorded workloads, after every history *)
Corollary history_keeps_usage : forall h w, Inv w -> valid_hist w h -> use_ok (run_hist w h).
Proof. intros h w HI Hv. apply inv_use. apply history_keeps_Inv; assumption. Qed.
