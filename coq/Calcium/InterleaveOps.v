(* Calcium/InterleaveOps.v — the commutation theorem of Interleave.v instantiated for the operations that update
   records in place (realloc, set-node): their calls on disjoint footprints (workload ids, node names) commute, so
   every interleaving of two such operations, each with its own fault position, equals the sequential history. *)
From Coq Require Import List Bool Arith ZArith Lia.
From Verif Require Import Base.Effects Calcium.World Calcium.Ops Calcium.OpsProofs Calcium.OpsProofs2 Calcium.CreateProofs Calcium.NodeProofs Calcium.Interleave.
Import ListNotations.
Local Open Scope Z_scope.

(* ---- footprints: the workload ids and node names an operation works on ---- *)
Record fp := mkFp { f_ids : wid -> Prop; f_nodes : name -> Prop }.

(* the calls of the operations that update records in place (realloc, set-node): reads, locks, plugin and store
   updates of the footprint's entities.  Appending calls (AddWorkload, engine create, WAL, channel sends) are not
   in the class: two appends commute only up to the order of the appended elements. *)
Definition in_fp (F : fp) (c : call) : Prop :=
  match c with
  | SGetWorkload i => f_ids F i
  | SGetWorkloads l => forall i, In i l -> f_ids F i
  | SGetNode n => f_nodes F n
  | SCreateLock _ | LLock _ | LUnlock _ => True
  | PGetInfo n => f_nodes F n
  | EUpdateResource i => f_ids F i
  | PRealloc n _ _ => f_nodes F n
  | PRollbackRealloc n _ => f_nodes F n
  | PSetCapacity n _ _ => f_nodes F n
  | PRestoreCapacity n _ => f_nodes F n
  | SUpdateWorkload x => f_ids F (w_id x) /\ f_nodes F (w_node x)
  | SUpdateNode x => f_nodes F (n_name x)
  | _ => False
  end.

Definition disjoint (F1 F2 : fp) : Prop :=
  (forall i, f_ids F1 i -> f_ids F2 i -> False) /\ (forall n, f_nodes F1 n -> f_nodes F2 n -> False).

(* ---- list facts: updates at different keys do not see each other and commute ---- *)
Lemma find_wl_upd_other : forall x l i, w_id x <> i ->
  find (fun y => wid_eqb (w_id y) i) (upd_wl x l) = find (fun y => wid_eqb (w_id y) i) l.
Proof.
  intros x l i H. induction l as [|y t IH]; simpl; [reflexivity|].
  destruct (wid_eqb (w_id y) (w_id x)) eqn:E.
  - apply wid_eqb_eq in E. assert (wid_eqb (w_id x) i = false) as E1 by (destruct (wid_eqb (w_id x) i) eqn:E2; [apply wid_eqb_eq in E2; contradiction|reflexivity]).
    rewrite E1. rewrite E, E1. exact IH.
  - destruct (wid_eqb (w_id y) i); [reflexivity|exact IH].
Qed.

Lemma wid_eqb_false : forall a b, a <> b -> wid_eqb a b = false.
Proof. intros a b H. destruct (wid_eqb a b) eqn:E; [apply wid_eqb_eq in E; contradiction|reflexivity]. Qed.

Lemma upd_wl_comm : forall x1 x2 l, w_id x1 <> w_id x2 -> upd_wl x1 (upd_wl x2 l) = upd_wl x2 (upd_wl x1 l).
Proof.
  intros x1 x2 l H. unfold upd_wl. rewrite !map_map. apply map_ext. intros y.
  destruct (wid_eqb (w_id y) (w_id x2)) eqn:E2, (wid_eqb (w_id y) (w_id x1)) eqn:E1.
  - apply wid_eqb_eq in E1. apply wid_eqb_eq in E2. congruence.
  - rewrite (wid_eqb_false (w_id x2) (w_id x1)) by congruence. rewrite ?E1, ?E2. reflexivity.
  - rewrite (wid_eqb_false (w_id x1) (w_id x2)) by congruence. rewrite ?E1, ?E2. reflexivity.
  - rewrite ?E1, ?E2. reflexivity.
Qed.

Lemma upd_plug_comm : forall n1 n2 f g l, n1 <> n2 -> (forall x, p_node (f x) = p_node x) -> (forall x, p_node (g x) = p_node x) ->
  upd_plug n1 f (upd_plug n2 g l) = upd_plug n2 g (upd_plug n1 f l).
Proof.
  intros n1 n2 f g l H Hf Hg. unfold upd_plug. rewrite !map_map. apply map_ext. intros y.
  destruct (Nat.eqb (p_node y) n2) eqn:E2, (Nat.eqb (p_node y) n1) eqn:E1.
  - apply Nat.eqb_eq in E1. apply Nat.eqb_eq in E2. congruence.
  - rewrite ?Hg, ?E1, ?E2. reflexivity.
  - rewrite ?Hf, ?E2, ?E1. reflexivity.
  - rewrite ?E1, ?E2. reflexivity.
Qed.

Lemma find_node_upd_other : forall x l n, n_name x <> n ->
  find (fun y => Nat.eqb (n_name y) n) (upd_node x l) = find (fun y => Nat.eqb (n_name y) n) l.
Proof.
  intros x l n H. induction l as [|y t IH]; simpl; [reflexivity|].
  destruct (Nat.eqb (n_name y) (n_name x)) eqn:E.
  - apply Nat.eqb_eq in E. assert (Nat.eqb (n_name x) n = false) as E1 by (apply Nat.eqb_neq; exact H).
    rewrite E1. rewrite E, E1. exact IH.
  - destruct (Nat.eqb (n_name y) n); [reflexivity|exact IH].
Qed.

Lemma upd_node_comm : forall x1 x2 l, n_name x1 <> n_name x2 -> upd_node x1 (upd_node x2 l) = upd_node x2 (upd_node x1 l).
Proof.
  intros x1 x2 l H. unfold upd_node. rewrite !map_map. apply map_ext. intros y.
  destruct (Nat.eqb (n_name y) (n_name x2)) eqn:E2, (Nat.eqb (n_name y) (n_name x1)) eqn:E1.
  - apply Nat.eqb_eq in E1. apply Nat.eqb_eq in E2. congruence.
  - assert (Nat.eqb (n_name x2) (n_name x1) = false) as -> by (apply Nat.eqb_neq; congruence). rewrite ?E1, ?E2. reflexivity.
  - assert (Nat.eqb (n_name x1) (n_name x2) = false) as -> by (apply Nat.eqb_neq; congruence). rewrite ?E1, ?E2. reflexivity.
  - rewrite ?E1, ?E2. reflexivity.
Qed.

Lemma getwls_upd_other : forall x L l, (forall i, In i l -> w_id x <> i) ->
  forallb (fun id => match find (fun y => wid_eqb (w_id y) id) (upd_wl x L) with Some _ => true | None => false end) l =
  forallb (fun id => match find (fun y => wid_eqb (w_id y) id) L with Some _ => true | None => false end) l /\
  flat_map (fun id => match find (fun y => wid_eqb (w_id y) id) (upd_wl x L) with Some x => [x] | None => [] end) l =
  flat_map (fun id => match find (fun y => wid_eqb (w_id y) id) L with Some x => [x] | None => [] end) l.
Proof.
  intros x L l H. induction l as [|i t IH]; simpl; [auto|].
  rewrite find_wl_upd_other by (apply H; left; reflexivity).
  destruct IH as [IH1 IH2]; [intros j Hj; apply H; right; exact Hj|]. rewrite IH1, IH2. auto.
Qed.

Ltac names_differ D :=
  destruct D as [Dids Dnodes];
  repeat match goal with
         | H1 : f_nodes ?F1 ?n, H2 : f_nodes ?F2 ?m |- _ =>
           lazymatch goal with
           | _ : n <> m |- _ => fail
           | _ => assert (n <> m) by (let Heq := fresh in intro Heq; apply (Dnodes m); [rewrite <- Heq; assumption|assumption])
           end
         | H1 : f_ids ?F1 ?n, H2 : f_ids ?F2 ?m |- _ =>
           lazymatch goal with
           | _ : n <> m |- _ => fail
           | _ => assert (n <> m) by (let Heq := fresh in intro Heq; apply (Dids m); [rewrite <- Heq; assumption|assumption])
           end
         end.

Ltac use_eqs := repeat match goal with
  | H : find ?f ?l = _ |- context [find ?f ?l] => rewrite H
  | H : forallb ?f ?l = _ |- context [forallb ?f ?l] => rewrite H
  | H : flat_map ?f ?l = _ |- context [flat_map ?f ?l] => rewrite H
  end.

Ltac crunch :=
  repeat (unfold set_pods, set_nodes, set_wls, set_markers, set_plugs, set_conts, set_wal, set_out in *;
          cbn [exec fst snd pods nodes wls markers plugs conts walq wal_seq out strict_remove script
               p_node p_cap p_use add_use sub_use] in *;
          unfold find_wl, find_plug, find_node, find_cont in *;
          cbn [fst snd pods nodes wls markers plugs conts walq wal_seq out strict_remove script] in *;
          rewrite ?find_plug_upd_other, ?find_wl_upd_other, ?find_node_upd_other by (solve [intros; reflexivity | congruence | auto]);
          use_eqs);
  try match goal with
      | |- context [find ?f (?p ?w0)] => is_var w0; let E := fresh "E" in destruct (find f (p w0)) eqn:E; crunch
      | |- context [match ?o with Some _ => _ | None => _ end] => is_var o; destruct o; crunch
      | |- context [if ?b then _ else _] =>
        lazymatch type of b with bool => idtac end;
        let E := fresh "E" in destruct b eqn:E; crunch
      end.

Ltac finish :=
  repeat split; try reflexivity; try congruence;
  try (f_equal; first [ apply upd_plug_comm; auto; intros; reflexivity
                      | apply upd_wl_comm; auto; congruence
                      | apply upd_node_comm; auto; congruence ]).

Theorem fp_calls_commute : forall F1 F2 c1 c2 w, disjoint F1 F2 -> in_fp F1 c1 -> in_fp F2 c2 ->
  fst (exec (fst (exec w c1)) c2) = fst (exec (fst (exec w c2)) c1) /\
  snd (exec (fst (exec w c1)) c2) = snd (exec w c2) /\
  snd (exec (fst (exec w c2)) c1) = snd (exec w c1).
Proof.
  intros F1 F2 c1 c2 w D H1 H2.
  destruct c1; simpl in H1; try contradiction; destruct c2; simpl in H2; try contradiction.
  all: try (destruct H1 as [H1 H1n]); try (destruct H2 as [H2 H2n]).
  all: names_differ D.
  all: try match goal with
       | Hl : (forall i, In i ?l -> f_ids ?Fa i), Hx : f_ids ?Fb (w_id ?x) |- _ =>
         let Hd := fresh "Hd" in
         assert (Hd : forall i, In i l -> w_id x <> i)
           by (let i := fresh in let Hi := fresh in let Heq := fresh in
               intros i Hi Heq; first [apply (Dids i); [apply Hl; exact Hi|rewrite <- Heq; exact Hx] | apply (Dids i); [rewrite <- Heq; exact Hx|apply Hl; exact Hi]]);
         let G1 := fresh "G" in let G2 := fresh "G" in
         destruct (getwls_upd_other x (wls w) l Hd) as [G1 G2]
       end.
  all: try (unfold find_wl, find_plug, find_node, find_cont; crunch; finish).
Qed.

(* ---- safety with a postcondition, and its composition ---- *)
Inductive safeq {A} (P : call -> Prop) (I : world -> Prop) (Q : A -> Prop) : cprog A -> Prop :=
| sq_ret : forall a, Q a -> safeq P I Q (Ret a)
| sq_do : forall c q, P c ->
    (forall w, I w -> safeq P I Q (q (snd (exec w c)))) ->
    (is_faultable c = true -> safeq P I Q (q (fail_reply c))) ->
    safeq P I Q (Do c q).

Lemma safeq_safe : forall A P I Q (p : cprog A), safeq P I Q p -> safe P I p.
Proof. intros A P I Q p H. induction H; constructor; auto. Qed.

Lemma safeq_bind : forall A B P I (Q : A -> Prop) (R : B -> Prop) (p : cprog A) (f : A -> cprog B),
  safeq P I Q p -> (forall a, Q a -> safeq P I R (f a)) -> safeq P I R (bind p f).
Proof.
  intros A B P I Q R p f H Hf. induction H as [a Ha|c q Hc Hq IHq Hfl IHfl]; cbn [bind].
  - apply Hf. exact Ha.
  - constructor; auto.
Qed.

Lemma safeq_weak : forall A P I (Q Q' : A -> Prop) (p : cprog A), (forall a, Q a -> Q' a) -> safeq P I Q p -> safeq P I Q' p.
Proof. intros A P I Q Q' p HQ H. induction H; constructor; auto. Qed.

Lemma safeq_call1 : forall (P : call -> Prop) (I : world -> Prop) (Q : reply -> Prop) c, P c ->
  (forall w, I w -> Q (snd (exec w c))) -> (is_faultable c = true -> Q (fail_reply c)) -> safeq P I Q (call1 c).
Proof. intros P I Q c Hc Hq Hf. unfold call1. constructor; [exact Hc| |]; intros; constructor; auto. Qed.

Lemma safeq_call1_any : forall (P : call -> Prop) (I : world -> Prop) c, P c -> safeq P I (fun _ => True) (call1 c).
Proof. intros. apply safeq_call1; auto. Qed.

Lemma safeq_doc : forall (P : call -> Prop) (I : world -> Prop) c, P c -> safeq P I (fun _ => True) (doc c).
Proof. intros P I c Hc. unfold doc. eapply safeq_bind; [apply safeq_call1_any; exact Hc|]. intros a _. constructor. exact Logic.I. Qed.

Lemma safeq_ign : forall (P : call -> Prop) (I : world -> Prop) (p : cprog oerr), safeq P I (fun _ => True) p -> safeq P I (fun _ => True) (ign p).
Proof. intros P I p H. unfold ign. eapply safeq_bind; [exact H|]. intros a _. constructor. exact Logic.I. Qed.

Ltac sq_ret := constructor; exact Logic.I.

Ltac sq_ret ::= unfold rok, skip; first [exact (InterleaveOps.sq_ret _ _ (fun _ => True) _ Logic.I) | constructor; exact Logic.I].

(* the records of the footprint's workloads live on the footprint's nodes *)
Definition fp_inv (F : fp) (w : world) : Prop :=
  forall x, In x (wls w) -> f_ids F (w_id x) -> f_nodes F (w_node x).

Section Safe.
  Variable F : fp.
  Variable I : world -> Prop.
  Hypothesis I_fp : forall w, I w -> fp_inv F w.
  Let P := in_fp F.

  Lemma safe_acquire : forall ks held, safeq P I (fun _ => True) (acquire ks held).
  Proof.
    induction ks as [|k rest IH]; intros held; cbn [acquire]; [sq_ret|].
    eapply safeq_bind; [apply safeq_doc; exact Logic.I|]. intros [e|] _; [sq_ret|].
    eapply safeq_bind; [apply safeq_doc; exact Logic.I|]. intros [e|] _.
    - eapply safeq_bind; [apply safeq_ign, safeq_doc; exact Logic.I|]. intros; sq_ret.
    - apply IH.
  Qed.

  Lemma safe_release : forall held, safeq P I (fun _ => True) (release held).
  Proof.
    induction held as [|k rest IH]; unfold release in *; cbn [for_all]; [sq_ret|].
    eapply safeq_bind; [apply safeq_ign, safeq_doc; exact Logic.I|]. intros _ _. exact IH.
  Qed.

  Lemma safe_with_node : forall n (body : node -> cprog oerr), f_nodes F n ->
    (forall x, n_name x = n -> safeq P I (fun _ => True) (body x)) ->
    safeq P I (fun _ => True) (with_node_pod_locked n body).
  Proof.
    intros n body Hn Hb. unfold with_node_pod_locked, with_nodes_pod_locked. cbn [filter_nodes get_nodes].
    eapply safeq_bind.
    - eapply safeq_bind; [apply safeq_call1_any; exact Hn|]. intros r _.
      instantiate (1 := fun _ => True). destruct r; sq_ret.
    - intros [e|ns] _; [sq_ret|].
      eapply safeq_bind; [apply safe_acquire|]. intros a _.
      destruct (fst a).
      + eapply safeq_bind; [apply safe_release|]. intros; sq_ret.
      + eapply safeq_bind.
        * instantiate (1 := fun _ => True).
          destruct (find (fun x => Nat.eqb (n_name x) n) ns) as [x|] eqn:E; [|sq_ret].
          apply Hb. apply find_some in E. destruct E as [_ E]. apply Nat.eqb_eq in E. exact E.
        * intros x _. eapply safeq_bind; [apply safe_release|]. intros; sq_ret.
  Qed.

  Lemma safe_with_workload : forall id (body : wl -> cprog oerr), f_ids F id ->
    (forall x, w_id x = id -> f_nodes F (w_node x) -> safeq P I (fun _ => True) (body x)) ->
    safeq P I (fun _ => True) (with_workload_locked id body).
  Proof.
    intros id body Hid Hb. unfold with_workload_locked.
    eapply safeq_bind.
    - apply (safeq_call1 P I (fun r => match r with RWls (x :: _) => w_id x = id /\ f_nodes F (w_node x) | _ => True end)).
      + simpl. intros i [<-|[]]. exact Hid.
      + intros w HI. cbn [exec forallb flat_map]. destruct (find_wl w id) as [x|] eqn:E; cbn; [|exact Logic.I].
        destruct (find_wl_id _ _ _ E) as [Hx Hin]. split; [exact Hx|]. apply (I_fp w HI x Hin). rewrite Hx. exact Hid.
      + intros _. exact Logic.I.
    - intros r Hr. destruct r; try sq_ret. destruct l as [|x t]; [sq_ret|]. destruct Hr as [Hx Hn].
      eapply safeq_bind; [apply safe_acquire|]. intros a _. destruct (fst a).
      + eapply safeq_bind; [apply safe_release|]. intros; sq_ret.
      + eapply safeq_bind; [apply Hb; assumption|]. intros e _.
        eapply safeq_bind; [apply safe_release|]. intros; sq_ret.
  Qed.

  Lemma safe_do_realloc : forall x origin req,
    f_ids F (w_id x) -> f_nodes F (w_node x) -> f_ids F (w_id origin) -> f_nodes F (w_node origin) ->
    safeq P I (fun _ => True) (do_realloc x origin req).
  Proof.
    intros x origin req Hx Hxn Ho Hon. unfold do_realloc.
    eapply safeq_bind; [|intros; sq_ret]. instantiate (1 := fun _ => True).
    unfold txn_s. eapply safeq_bind.
    - instantiate (1 := fun _ => True).
      eapply safeq_bind; [apply safeq_call1_any; exact Hxn|]. intros r _.
      destruct r; try sq_ret.
      eapply safeq_bind; [apply safeq_doc; split; assumption|]. intros [e|] _; [|sq_ret].
      eapply safeq_bind; [apply safeq_ign, safeq_doc; exact Hxn|]. intros; sq_ret.
    - intros c _. destruct (snd c) as [e|].
      + eapply safeq_bind; [sq_ret|]. intros; sq_ret.
      + eapply safeq_bind.
        * instantiate (1 := fun _ => True). eapply safeq_bind; [apply safeq_doc; exact Hx|]. intros; sq_ret.
        * intros r _. destruct (snd r) as [e|]; [|sq_ret].
          eapply safeq_bind; [|intros; sq_ret]. instantiate (1 := fun _ => True).
          eapply safeq_bind; [apply safeq_ign, safeq_doc; exact Hxn|]. intros _ _.
          apply safeq_doc. split; assumption.
  Qed.

  Theorem safe_realloc : forall id req, f_ids F id -> safe P I (realloc id req).
  Proof.
    intros id req Hid. apply (safeq_safe _ P I (fun _ => True)). unfold realloc.
    eapply safeq_bind.
    - apply (safeq_call1 P I (fun r => match r with RWl x => w_id x = id /\ f_nodes F (w_node x) | _ => True end)).
      + exact Hid.
      + intros w HI. cbn [exec]. destruct (find_wl w id) as [x|] eqn:E; cbn; [|exact Logic.I].
        destruct (find_wl_id _ _ _ E) as [Hx Hin]. split; [exact Hx|]. apply (I_fp w HI x Hin). rewrite Hx. exact Hid.
      + intros _. exact Logic.I.
    - intros r Hr. destruct r; try sq_ret. destruct Hr as [Ho Hon].
      apply safe_with_node; [exact Hon|]. intros _ _.
      apply safe_with_workload; [exact Hid|]. intros x0 Hx0 Hx0n.
      apply safe_do_realloc; try assumption; [rewrite Hx0|rewrite Ho]; exact Hid.
  Qed.

  Theorem safe_set_node : forall n bypass mem label, f_nodes F n -> safe P I (set_node n bypass mem label).
  Proof.
    intros n bypass mem label Hn. apply (safeq_safe _ P I (fun _ => True)). unfold set_node.
    apply safe_with_node; [exact Hn|]. intros x Hx.
    eapply safeq_bind; [apply safeq_doc; exact Hn|]. intros [e|] _; [sq_ret|].
    eapply safeq_bind; [|intros; sq_ret]. instantiate (1 := fun _ => True).
    unfold txn_s. eapply safeq_bind.
    - instantiate (1 := fun _ => True). destruct mem as [[m delta]|]; [|sq_ret].
      eapply safeq_bind; [apply safeq_call1_any; exact Hn|]. intros r _. destruct r; sq_ret.
    - intros c _. destruct (snd c) as [e|].
      + eapply safeq_bind; [|intros; sq_ret]. instantiate (1 := fun _ => True).
        unfold rok. sq_ret.
      + eapply safeq_bind.
        * instantiate (1 := fun _ => True).
          eapply safeq_bind; [apply safeq_doc; cbn; rewrite Hx; exact Hn|]. intros [e|] _; [sq_ret|].
          eapply safeq_bind; [apply safeq_ign, safeq_doc; exact Hn|]. intros; sq_ret.
        * intros r _. destruct (snd r) as [e|]; [|sq_ret].
          eapply safeq_bind; [|intros; sq_ret]. instantiate (1 := fun _ => True).
          destruct mem as [[m delta]|]; [|unfold rok; sq_ret].
          destruct (fst r); [apply safeq_doc; exact Hn|unfold rok; sq_ret].
  Qed.
End Safe.

(* ---- the invariant is kept by the calls of both footprints ---- *)
Lemma in_upd_wl' : forall x' l y, In y (upd_wl x' l) -> In y l \/ y = x'.
Proof.
  intros x' l y H. unfold upd_wl in H. apply in_map_iff in H. destruct H as [z [Hz Hin]].
  destruct (wid_eqb (w_id z) (w_id x')); subst; auto.
Qed.

Lemma fp_inv_wls : forall F w w', wls w' = wls w -> fp_inv F w -> fp_inv F w'.
Proof. intros F w w' H HI x Hx. rewrite H in Hx. apply HI. exact Hx. Qed.

Lemma fp_call_wls : forall F c w, in_fp F c ->
  wls (fst (exec w c)) = wls w \/ exists x, c = SUpdateWorkload x /\ wls (fst (exec w c)) = upd_wl x (wls w).
Proof.
  intros F c w H. destruct c; simpl in H; try contradiction; simpl;
    repeat match goal with
           | |- context [match ?x with _ => _ end] => destruct x eqn:?; simpl
           end; auto.
  right. eexists. split; reflexivity.
Qed.

Lemma fp_inv_stable : forall F1 F2 c w, disjoint F1 F2 -> in_fp F1 c ->
  fp_inv F1 w /\ fp_inv F2 w -> fp_inv F1 (fst (exec w c)) /\ fp_inv F2 (fst (exec w c)).
Proof.
  intros F1 F2 c w [Dids Dnodes] Hc [H1 H2].
  destruct (fp_call_wls F1 c w Hc) as [E|[x [-> E]]].
  - split; eapply fp_inv_wls; eauto.
  - simpl in Hc. destruct Hc as [Hid Hn]. split; intros y Hy Hyid; rewrite E in Hy; apply in_upd_wl' in Hy; destruct Hy as [Hy| ->].
    + apply H1; assumption.
    + exact Hn.
    + apply H2; assumption.
    + exfalso. eapply Dids; eauto.
Qed.

Lemma disjoint_sym : forall F1 F2, disjoint F1 F2 -> disjoint F2 F1.
Proof. intros F1 F2 [A B]. split; intros; [eapply A|eapply B]; eauto. Qed.

(* ---- the theorem for in-place operations ---- *)
Inductive ipop :=
| IRealloc (id : wid) (req : res)
| ISetNode (n : name) (bypass : option bool) (mem : option (Z * bool)) (label : option nat).

Definition ip_script (o : ipop) : cprog oerr :=
  match o with IRealloc id req => realloc id req | ISetNode n b m l => set_node n b m l end.
Definition ip_in (F : fp) (o : ipop) : Prop :=
  match o with IRealloc id _ => f_ids F id | ISetNode n _ _ _ => f_nodes F n end.

Lemma ip_safe : forall F (I : world -> Prop) o, (forall w, I w -> fp_inv F w) -> ip_in F o -> safe (in_fp F) I (ip_script o).
Proof. intros F I o HI Ho. destruct o; [apply safe_realloc|apply safe_set_node]; assumption. Qed.

Theorem inplace_ops_interleave : forall F1 F2 o1 o2 w, disjoint F1 F2 -> ip_in F1 o1 -> ip_in F2 o2 ->
  fp_inv F1 w -> fp_inv F2 w ->
  (forall sched k1 k2, run2 sched (ip_script o1) k1 (ip_script o2) k2 w = run2 [] (ip_script o1) k1 (ip_script o2) k2 w) /\
  (forall k1 k2, run2 [] (ip_script o1) k1 (ip_script o2) k2 w =
                 (let '(w', b, a) := run2 [] (ip_script o2) k2 (ip_script o1) k1 w in (w', a, b))).
Proof.
  intros F1 F2 o1 o2 w D H1 H2 HI1 HI2.
  set (I := fun w => fp_inv F1 w /\ fp_inv F2 w).
  assert (St1 : forall c w, in_fp F1 c -> I w -> I (fst (exec w c))) by (intros; apply fp_inv_stable; assumption).
  assert (St2 : forall c w, in_fp F2 c -> I w -> I (fst (exec w c))).
  { intros c w0 Hc [A B]. destruct (fp_inv_stable F2 F1 c w0 (disjoint_sym _ _ D) Hc (conj B A)). split; assumption. }
  assert (Ind : forall c1 c2 w, in_fp F1 c1 -> in_fp F2 c2 -> I w ->
    fst (exec (fst (exec w c1)) c2) = fst (exec (fst (exec w c2)) c1) /\
    snd (exec (fst (exec w c1)) c2) = snd (exec w c2) /\
    snd (exec (fst (exec w c2)) c1) = snd (exec w c1)) by (intros; apply (fp_calls_commute F1 F2); assumption).
  assert (S1 : safe (in_fp F1) I (ip_script o1)) by (apply ip_safe; [intros w0 [A _]; exact A|exact H1]).
  assert (S2 : safe (in_fp F2) I (ip_script o2)) by (apply ip_safe; [intros w0 [_ B]; exact B|exact H2]).
  split.
  - intros sched k1 k2. apply (interleave_is_sequential (in_fp F1) (in_fp F2) I St1 St2 Ind); [split; assumption|exact S1|exact S2].
  - intros k1 k2. apply (sequential_orders_agree (in_fp F1) (in_fp F2) I St1 St2 Ind); [exact S2|split; assumption|exact S1].
Qed.

(* the common case: two reallocs of workloads recorded on different nodes *)
Corollary realloc_pair_interleave : forall id1 id2 n1 n2 req1 req2 w, id1 <> id2 -> n1 <> n2 ->
  (forall x, In x (wls w) -> w_id x = id1 -> w_node x = n1) ->
  (forall x, In x (wls w) -> w_id x = id2 -> w_node x = n2) ->
  forall sched k1 k2,
    run2 sched (realloc id1 req1) k1 (realloc id2 req2) k2 w = run2 [] (realloc id1 req1) k1 (realloc id2 req2) k2 w.
Proof.
  intros id1 id2 n1 n2 req1 req2 w Hid Hn H1 H2 sched k1 k2.
  destruct (inplace_ops_interleave (mkFp (eq id1) (eq n1)) (mkFp (eq id2) (eq n2)) (IRealloc id1 req1) (IRealloc id2 req2) w) as [A _].
  - split; simpl; intros; congruence.
  - reflexivity.
  - reflexivity.
  - intros x Hx Hxid. simpl in *. symmetry. apply H1; auto.
  - intros x Hx Hxid. simpl in *. symmetry. apply H2; auto.
  - apply A.
Qed.
