(* C22 — referential consistency of pods, nodes, node resource records and
   workloads under concurrent operations.  Executable model, no proofs.

   The world keeps only what the property talks about; an operation is a
   program over atomic steps (the intercepted store / resource-manager / lock
   calls that read or write that state; store.AddNode and store.RemovePod are
   split into their two key-value operations because they are check-then-act
   inside the store).  Threads interleave at step granularity; a thread whose
   next step is a lock held by another thread is disabled.

   Scripts follow
     cluster/calcium/pod.go   AddPod, RemovePod (withNodesPodLocked: no node => no lock)
     cluster/calcium/node.go  AddNode (no pod lock; Txn: plugin add, store add, rollback plugin remove)
                              RemoveNode (pod lock; node fetched again; list workloads; Txn: status set, store remove, status delete (result ignored), plugin remove, EMPTY rollback)
     cluster/calcium/create.go  alloc under the pod lock, lock released, node fetched
                              again, workload recorded without any lock
     cluster/calcium/remove.go  pod lock, workload lock, usage decrement, record removed
     store/etcdv3/pod.go:RemovePod  GetNodesByPod then Delete
     store/etcdv3/node.go:AddNode   GetPod then BatchCreate
     resource/plugins/cpumem/node.go, resource/cobalt/node.go  AddNode fails if the record exists,
                              RemoveNode first reads the record *)
From Coq Require Import List Bool String Arith.
Import ListNotations.
Local Open Scope string_scope.

Record rw := mkRw {
  pods : list string;
  nodes : list (string * string);        (* node name, pod *)
  nres : list string;                    (* nodes with a resource record in the plugin *)
  wls : list (string * string);          (* workload id, node *)
  held : list (string * nat)             (* lock key, holder thread *)
}.

Definition mem (x : string) (l : list string) : bool := existsb (String.eqb x) l.
Definition rm (x : string) (l : list string) : list string := filter (fun y => negb (String.eqb x y)) l.
Definition node_names (w : rw) : list string := map fst (nodes w).
Definition node_pod (w : rw) (n : string) : option string :=
  match find (fun x => String.eqb (fst x) n) (nodes w) with Some x => Some (snd x) | None => None end.
Definition wl_node (w : rw) (id : string) : option string :=
  match find (fun x => String.eqb (fst x) id) (wls w) with Some x => Some (snd x) | None => None end.

(* the property at a quiescent point *)
Definition ref_ok (w : rw) : bool :=
  forallb (fun x => mem (snd x) (pods w)) (nodes w)          (* a pod that has nodes exists *)
  && forallb (fun x => mem (fst x) (nres w)) (nodes w)       (* every node has resource information *)
  && forallb (fun n => mem n (node_names w)) (nres w)        (* every resource record belongs to a node *)
  && forallb (fun x => mem (snd x) (node_names w)) (wls w).  (* every workload belongs to a node *)

Inductive rcall :=
| CAddPod (p : string)
| CListPodNodes (p : string)          (* KV: range over /node/<p>:pod/ *)
| CGetPod (p : string)                (* KV: get /pod/info/<p> *)
| CDeletePod (p : string)             (* KV: delete /pod/info/<p> *)
| CCreateNode (n p : string)          (* KV: create-if-absent of the node keys *)
| CGetNode (n : string)
| CRemoveNode (n : string)
| CSetStatus (n : string)             (* store.SetNodeStatus(node, 90) inside RemoveNode: notifies watchers; error only logged *)
| CDelStatus (n : string)             (* store.SetNodeStatus(node, -1): deletes the status key; result ignored *)
| CListNodeWls (n : string)
| CAddWl (id n : string)
| CRemoveWl (id : string)
| CGetWl (id : string)                (* GetWorkloads [id] incl. binding the node *)
| PAddNode (n : string)
| PRemoveNode (n : string)
| PCapacity (n : string)              (* rmgr.GetNodesDeployCapacity of the single node (doGetDeployStrategy) *)
| PAlloc (n : string)
| PRollbackAlloc (n : string)
| PSetUsage (n : string)
| CLock (k : string)
| CUnlock (k : string).

Record reply := mkRep { r_ok : bool; r_strs : list string }.
Definition yes := mkRep true [].
Definition no := mkRep false [].

Definition set_pods w x := mkRw x (nodes w) (nres w) (wls w) (held w).
Definition set_nodes w x := mkRw (pods w) x (nres w) (wls w) (held w).
Definition set_nres w x := mkRw (pods w) (nodes w) x (wls w) (held w).
Definition set_wls w x := mkRw (pods w) (nodes w) (nres w) x (held w).
Definition set_held w x := mkRw (pods w) (nodes w) (nres w) (wls w) x.

Definition holder (w : rw) (k : string) : option nat :=
  match find (fun x => String.eqb (fst x) k) (held w) with Some x => Some (snd x) | None => None end.

(* one executed step; None = the step is a Lock on a key somebody holds *)
Definition exec (w : rw) (tid : nat) (c : rcall) : option (rw * reply) :=
  match c with
  | CAddPod p => Some (if mem p (pods w) then (w, no) else (set_pods w (p :: pods w), yes))
  | CListPodNodes p => Some (w, mkRep true (map fst (filter (fun x => String.eqb (snd x) p) (nodes w))))
  | CGetPod p => Some (w, if mem p (pods w) then yes else no)
  | CDeletePod p => Some (if mem p (pods w) then (set_pods w (rm p (pods w)), yes) else (w, no))
  | CCreateNode n p =>
      Some (if mem n (node_names w) then (w, no) else (set_nodes w ((n, p) :: nodes w), yes))
  | CGetNode n => Some (w, match node_pod w n with Some p => mkRep true [p] | None => no end)
  | CRemoveNode n => Some (set_nodes w (filter (fun x => negb (String.eqb (fst x) n)) (nodes w)), yes)
  | CSetStatus _ | CDelStatus _ => Some (w, yes)          (* node status keys are not part of Ref *)
  | CListNodeWls n =>
      let ids := map fst (filter (fun x => String.eqb (snd x) n) (wls w)) in
      Some (w, match ids with
               | [] => mkRep true []
               | _ => if mem n (node_names w) then mkRep true ids else no   (* binding the node fails *)
               end)
  | CAddWl id n => Some (set_wls w ((id, n) :: filter (fun x => negb (String.eqb (fst x) id)) (wls w)), yes)
  | CRemoveWl id => Some (set_wls w (filter (fun x => negb (String.eqb (fst x) id)) (wls w)), yes)
  | CGetWl id =>
      Some (w, match wl_node w id with
               | Some n => if mem n (node_names w) then mkRep true [n] else no
               | None => no
               end)
  | PAddNode n => Some (if mem n (nres w) then (w, no) else (set_nres w (n :: nres w), yes))
  | PRemoveNode n => Some (if mem n (nres w) then (set_nres w (rm n (nres w)), yes) else (w, no))
  | PCapacity n | PAlloc n | PRollbackAlloc n | PSetUsage n => Some (w, if mem n (nres w) then yes else no)
  | CLock k =>
      match holder w k with
      | Some _ => None
      | None => Some (set_held w ((k, tid) :: held w), yes)
      end
  | CUnlock k =>
      Some (set_held w (filter (fun x => negb (String.eqb (fst x) k && Nat.eqb (snd x) tid)) (held w)), yes)
  end.

Definition faultable (c : rcall) : bool :=
  match c with CLock _ | CUnlock _ => false | _ => true end.

(* ---------- programs ---------- *)
Inductive prog :=
| Ret (ok : bool)
| Do (c : rcall) (k : reply -> prog).

Definition plock (p : string) : string := "plock_" ++ p.
Definition clock (id : string) : string := "clock_" ++ id.
Definition hd_str (l : list string) : string := match l with x :: _ => x | [] => "" end.
Definition is_nil {A} (l : list A) : bool := match l with [] => true | _ => false end.

Definition add_pod (p : string) : prog := Do (CAddPod p) (fun r => Ret (r_ok r)).

Definition remove_pod (p : string) : prog :=
  Do (CListPodNodes p) (fun r =>                    (* filterNodes: store.GetNodesByPod *)
    if negb (r_ok r) then Ret false else
    let body (unlock : prog -> prog) :=
      Do (CListPodNodes p) (fun r2 =>               (* store.RemovePod: nodes of the pod *)
        if r_ok r2 && is_nil (r_strs r2)
        then Do (CDeletePod p) (fun r3 => unlock (Ret (r_ok r3)))
        else unlock (Ret false)) in
    if is_nil (r_strs r)
    then body (fun q => q)                          (* no node: no key, no lock *)
    else Do (CLock (plock p)) (fun _ => body (fun q => Do (CUnlock (plock p)) (fun _ => q)))).

Definition add_node (n p : string) : prog :=
  Do (PAddNode n) (fun r =>
    if negb (r_ok r) then Ret false else
    Do (CGetPod p) (fun r2 =>                       (* store.AddNode: GetPod *)
      if negb (r_ok r2) then Do (PRemoveNode n) (fun _ => Ret false) else
      Do (CCreateNode n p) (fun r3 =>               (* store.AddNode: doAddNode *)
        if r_ok r3 then Ret true else Do (PRemoveNode n) (fun _ => Ret false)))).

Definition remove_node (n : string) : prog :=
  Do (CGetNode n) (fun r =>
    if negb (r_ok r) then Ret false else
    let p := hd_str (r_strs r) in
    Do (CLock (plock p)) (fun _ =>
      (* fetched again under the lock (repair of the stale-record race); must still be in the locked pod *)
      Do (CGetNode n) (fun r' =>
        if negb (r_ok r' && String.eqb (hd_str (r_strs r')) p) then Do (CUnlock (plock p)) (fun _ => Ret false) else
        Do (CListNodeWls n) (fun r2 =>
          if r_ok r2 && is_nil (r_strs r2) then
           Do (CSetStatus n) (fun _ =>                (* a failure is logged, nothing else *)
            Do (CRemoveNode n) (fun r3 =>
              if negb (r_ok r3) then Do (CUnlock (plock p)) (fun _ => Ret false) else
              Do (CDelStatus n) (fun _ =>             (* "we don't care the result" *)
                Do (PRemoveNode n) (fun r4 =>         (* no rollback when this fails *)
                  Do (CUnlock (plock p)) (fun _ => Ret (r_ok r4))))))
          else Do (CUnlock (plock p)) (fun _ => Ret false))))).

(* give the allocation back under the pod lock (create.go rollback) *)
Definition rollback_alloc (n : string) : prog :=
  Do (CGetNode n) (fun r =>
    if negb (r_ok r) then Ret false else
    let p := hd_str (r_strs r) in
    Do (CLock (plock p)) (fun _ =>
      Do (PRollbackAlloc n) (fun _ =>
        Do (CUnlock (plock p)) (fun _ => Ret false)))).

(* one instance on node n (include list [n]); id = the id the engine will give *)
Definition create (n id : string) : prog :=
  Do (CGetNode n) (fun r =>
    if negb (r_ok r) then Ret false else
    let p := hd_str (r_strs r) in
    Do (CLock (plock p)) (fun _ =>
     Do (PCapacity n) (fun r1 =>                     (* doGetDeployStrategy: no capacity, no plan *)
      if negb (r_ok r1) then Do (CUnlock (plock p)) (fun _ => Ret false) else
      Do (PAlloc n) (fun r2 =>
        Do (CUnlock (plock p)) (fun _ =>
          if negb (r_ok r2) then Ret false else
          Do (CGetNode n) (fun r3 =>                 (* doGetAndPrepareNode *)
            if negb (r_ok r3) then rollback_alloc n else
            Do (CAddWl id n) (fun r4 =>
              if r_ok r4 then Ret true
              else Do (CRemoveWl id) (fun _ => rollback_alloc n)))))))).

Definition remove_wl (id : string) : prog :=
  Do (CGetWl id) (fun r =>                           (* groupWorkloadsByNode *)
    if negb (r_ok r) then Ret false else
    let n := hd_str (r_strs r) in
    Do (CGetNode n) (fun r1 =>
      if negb (r_ok r1) then Ret false else
      let p := hd_str (r_strs r1) in
      Do (CLock (plock p)) (fun _ =>
        Do (CGetWl id) (fun r2 =>
          if negb (r_ok r2) then Do (CUnlock (plock p)) (fun _ => Ret false) else
          Do (CLock (clock id)) (fun _ =>
            let fin (b : bool) := Do (CUnlock (clock id)) (fun _ => Do (CUnlock (plock p)) (fun _ => Ret b)) in
            Do (PSetUsage n) (fun r3 =>
              if negb (r_ok r3) then fin false else
              Do (CRemoveWl id) (fun r4 =>
                if r_ok r4 then fin true
                else Do (PSetUsage n) (fun _ => fin false)))))))).

Inductive rop :=
| OAddPod (p : string) | ORemovePod (p : string)
| OAddNode (n p : string) | ORemoveNode (n : string)
| OCreate (n id : string) | ORemoveWl (id : string).

Definition prog_of (o : rop) : prog :=
  match o with
  | OAddPod p => add_pod p
  | ORemovePod p => remove_pod p
  | OAddNode n p => add_node n p
  | ORemoveNode n => remove_node n
  | OCreate n id => create n id
  | ORemoveWl id => remove_wl id
  end.

(* ---------- threads, faults, schedules ---------- *)
Record thread := mkTh { t_prog : prog; t_count : nat; t_fault : option nat }.
(* t_count = number of faultable steps executed so far; t_fault = which one fails *)

Definition ev := (nat * rcall * bool)%type.         (* thread, call, reply ok *)

Definition step_thread (w : rw) (tid : nat) (t : thread) : option (rw * thread * ev) :=
  match t_prog t with
  | Ret _ => None
  | Do c k =>
      if faultable c && match t_fault t with Some j => Nat.eqb j (t_count t) | None => false end
      then Some (w, mkTh (k no) (S (t_count t)) (t_fault t), (tid, c, false))
      else match exec w tid c with
           | None => None
           | Some (w', r) =>
               Some (w', mkTh (k r) (if faultable c then S (t_count t) else t_count t) (t_fault t), (tid, c, r_ok r))
           end
  end.

Definition finished (t : thread) : bool := match t_prog t with Ret _ => true | _ => false end.
Definition result (t : thread) : bool := match t_prog t with Ret b => b | _ => false end.

Fixpoint set_nth {A} (i : nat) (x : A) (l : list A) : list A :=
  match l, i with
  | [], _ => []
  | _ :: t, O => x :: t
  | y :: t, S j => y :: set_nth j x t
  end.

(* run a schedule (thread indices); picks of finished / blocked / unknown threads are skipped *)
Fixpoint run_sched (w : rw) (ts : list thread) (sched : list nat) (tr : list ev) : rw * list thread * list ev :=
  match sched with
  | [] => (w, ts, rev tr)
  | i :: rest =>
      match nth_error ts i with
      | Some t =>
          match step_thread w i t with
          | Some (w', t', e) => run_sched w' (set_nth i t' ts) rest (e :: tr)
          | None => run_sched w ts rest tr
          end
      | None => run_sched w ts rest tr
      end
  end.

(* run to completion with the policy of the harness: thread 0 runs [k] steps,
   then the other threads run one after the other as far as they can, then
   thread 0 finishes, then the others finish *)
Fixpoint run_alone (fuel : nat) (w : rw) (i : nat) (ts : list thread) (tr : list ev) : rw * list thread * list ev :=
  match fuel with
  | O => (w, ts, tr)
  | S f =>
      match nth_error ts i with
      | Some t => match step_thread w i t with
                  | Some (w', t', e) => run_alone f w' i (set_nth i t' ts) (e :: tr)
                  | None => (w, ts, tr)
                  end
      | None => (w, ts, tr)
      end
  end.

Fixpoint run_each (fuel : nat) (w : rw) (is : list nat) (ts : list thread) (tr : list ev) : rw * list thread * list ev :=
  match is with
  | [] => (w, ts, tr)
  | i :: rest => let '(w', ts', tr') := run_alone fuel w i ts tr in run_each fuel w' rest ts' tr'
  end.

(* the policy of the harness: phase 1: thread i runs [nth i ks] steps (64 = to
   completion), in index order; phase 2: every thread runs to completion, in index order *)
Fixpoint run_phase1 (w : rw) (i : nat) (ks : list nat) (ts : list thread) (tr : list ev) : rw * list thread * list ev :=
  match ks with
  | [] => (w, ts, tr)
  | k :: rest => let '(w', ts', tr') := run_alone k w i ts tr in run_phase1 w' (S i) rest ts' tr'
  end.
Definition run_policy (w : rw) (ts : list thread) (ks : list nat) : rw * list thread * list ev :=
  let '(w1, ts1, tr1) := run_phase1 w 0 ks ts [] in
  let '(w2, ts2, tr2) := run_each 64 w1 (seq 0 (List.length ts)) ts1 tr1 in
  (w2, ts2, rev tr2).

Definition mk_threads (ops : list (rop * option nat)) : list thread :=
  map (fun p => mkTh (prog_of (fst p)) 0 (snd p)) ops.

(* ---------- the two check-then-act windows ---------- *)
Definition call_eqb (a b : rcall) : bool :=
  match a, b with
  | CAddPod x, CAddPod y | CListPodNodes x, CListPodNodes y | CGetPod x, CGetPod y | CDeletePod x, CDeletePod y
  | CGetNode x, CGetNode y | CRemoveNode x, CRemoveNode y | CListNodeWls x, CListNodeWls y
  | CSetStatus x, CSetStatus y | CDelStatus x, CDelStatus y
  | CRemoveWl x, CRemoveWl y | CGetWl x, CGetWl y | PAddNode x, PAddNode y | PRemoveNode x, PRemoveNode y
  | PCapacity x, PCapacity y | PAlloc x, PAlloc y | PRollbackAlloc x, PRollbackAlloc y | PSetUsage x, PSetUsage y
  | CLock x, CLock y | CUnlock x, CUnlock y => String.eqb x y
  | CCreateNode x1 x2, CCreateNode y1 y2 | CAddWl x1 x2, CAddWl y1 y2 => String.eqb x1 y1 && String.eqb x2 y2
  | _, _ => false
  end.

(* position of the last event before index [upto] of thread [tid] satisfying f *)
Fixpoint positions (f : ev -> bool) (tr : list ev) (i : nat) : list nat :=
  match tr with
  | [] => []
  | e :: t => if f e then i :: positions f t (S i) else positions f t (S i)
  end.
Definition ev_tid (e : ev) : nat := fst (fst e).
Definition ev_call (e : ev) : rcall := snd (fst e).
Definition ev_ok (e : ev) : bool := snd e.

(* window 1: an AddNode's check-then-act interval [successful GetPod(p), CreateNode(_,p)]
   overlaps a RemovePod's interval [ListPodNodes(p), successful DeletePod(p)] *)
Definition window_addnode_removepod (tr : list ev) : bool :=
  let idx := seq 0 (List.length tr) in
  existsb (fun ig =>
    match nth_error tr ig with
    | Some (t1, CGetPod p, true) =>
        existsb (fun ic =>
          match nth_error tr ic with
          | Some (t1', CCreateNode _ p', true) =>
              Nat.eqb t1 t1' && String.eqb p p' && Nat.ltb ig ic &&
              existsb (fun id =>
                match nth_error tr id with
                | Some (t2, CDeletePod p'', true) =>
                    negb (Nat.eqb t1 t2) && String.eqb p p'' && Nat.ltb ig id &&
                    existsb (fun il =>
                      match nth_error tr il with
                      | Some (t2', CListPodNodes p3, _) =>
                          Nat.eqb t2 t2' && String.eqb p p3 && Nat.ltb il id && Nat.ltb il ic
                      | _ => false
                      end) idx
                | _ => false
                end) idx
          | _ => false
          end) idx
    | _ => false
    end) idx.

(* window 2: a create's successful (second) GetNode(n) .. AddWl(_,n) overlaps another
   thread's ListNodeWls(n) .. RemoveNode(n) *)
Definition window_create_removenode (tr : list ev) : bool :=
  existsb (fun ia =>
    match nth_error tr ia with
    | Some (t1, CAddWl _ n, true) =>
        existsb (fun ir =>
          match nth_error tr ir with
          | Some (t2, CRemoveNode n', true) =>
              negb (Nat.eqb t1 t2) && String.eqb n n' &&
              (* the removing thread checked for workloads before the record was added *)
              existsb (fun il =>
                match nth_error tr il with
                | Some (t2', CListNodeWls n'', _) => Nat.eqb t2 t2' && String.eqb n n'' && Nat.ltb il ia && Nat.ltb il ir
                | _ => false
                end) (seq 0 (List.length tr)) &&
              (* the creating thread fetched the node before it was removed *)
              existsb (fun ig =>
                match nth_error tr ig with
                | Some (t1', CGetNode n'', true) => Nat.eqb t1 t1' && String.eqb n n'' && Nat.ltb ig ir && Nat.ltb ig ia
                | _ => false
                end) (seq 0 (List.length tr))
          | _ => false
          end) (seq 0 (List.length tr))
    | _ => false
    end) (seq 0 (List.length tr)).

(* the single-fault defect: RemoveNode's plugin removal fails after the store record is gone *)
Definition fault_removenode_plugin (tr : list ev) : bool :=
  existsb (fun e => match e with (_, PRemoveNode _, false) => true | _ => false end) tr
  && existsb (fun e => match e with (_, CRemoveNode _, true) => true | _ => false end) tr.

(* a failed compensation: AddNode's rollback (plugin removal) itself failed *)
Definition addnode_rollback_failed (tr : list ev) : bool :=
  existsb (fun e => match e with (_, PAddNode _, true) => true | _ => false end) tr
  && existsb (fun e => match e with (_, PRemoveNode _, false) => true | _ => false end) tr.

(* ---------- exhaustive exploration of all interleavings ---------- *)
Definition enabled_steps (w : rw) (ts : list thread) : list (nat * (rw * thread * ev)) :=
  flat_map (fun i => match nth_error ts i with
                     | Some t => match step_thread w i t with Some s => [(i, s)] | None => [] end
                     | None => []
                     end) (seq 0 (List.length ts)).

(* [good w tr]: the verdict at a quiescent end; explore returns true iff every
   maximal interleaving ends with all threads finished and a good verdict *)
Fixpoint explore (fuel : nat) (good : rw -> list ev -> bool) (w : rw) (ts : list thread) (tr : list ev) : bool :=
  match fuel with
  | O => false
  | S f =>
      if forallb finished ts then good w (rev tr)
      else match enabled_steps w ts with
           | [] => false                               (* deadlock *)
           | steps => forallb (fun s => let '(i, (w', t', e)) := s in
                                        explore f good w' (set_nth i t' ts) (e :: tr)) steps
           end
  end.

Definition verdict (w : rw) (tr : list ev) : bool :=
  ref_ok w || window_addnode_removepod tr || window_create_removenode tr || fault_removenode_plugin tr.

(* ---------- cases of the correspondence check ---------- *)
Record case := mkCase {
  c_init : rw;
  c_ops : list (rop * option nat);      (* operation, index of its faultable step that fails *)
  c_pauses : list nat;                  (* phase 1: thread i runs that many steps (64 = all) *)
  c_obs_calls : list (list (rcall * bool));   (* observed steps per operation *)
  c_obs_results : list bool;            (* operation returned without error *)
  c_obs_final : rw                      (* snapshot at quiescence (held = []) *)
}.

Fixpoint sort_strs (l : list string) : list string :=
  match l with
  | [] => []
  | x :: t => let fix ins (y : string) (s : list string) :=
                match s with
                | [] => [y]
                | z :: u => if String.leb y z then y :: s else z :: ins y u
                end in ins x (sort_strs t)
  end.
Fixpoint sort_pairs (l : list (string * string)) : list (string * string) :=
  match l with
  | [] => []
  | x :: t => let fix ins (y : string * string) (s : list (string * string)) :=
                match s with
                | [] => [y]
                | z :: u => if String.leb (fst y) (fst z) then y :: s else z :: ins y u
                end in ins x (sort_pairs t)
  end.
Fixpoint strs_eqb (a b : list string) : bool :=
  match a, b with
  | [], [] => true
  | x :: s, y :: t => String.eqb x y && strs_eqb s t
  | _, _ => false
  end.
Fixpoint pairs_eqb (a b : list (string * string)) : bool :=
  match a, b with
  | [], [] => true
  | x :: s, y :: t => String.eqb (fst x) (fst y) && String.eqb (snd x) (snd y) && pairs_eqb s t
  | _, _ => false
  end.
Definition rw_eqb (a b : rw) : bool :=
  strs_eqb (sort_strs (pods a)) (sort_strs (pods b))
  && pairs_eqb (sort_pairs (nodes a)) (sort_pairs (nodes b))
  && strs_eqb (sort_strs (nres a)) (sort_strs (nres b))
  && pairs_eqb (sort_pairs (wls a)) (sort_pairs (wls b)).

Fixpoint calls_eqb (a b : list (rcall * bool)) : bool :=
  match a, b with
  | [], [] => true
  | x :: s, y :: t => call_eqb (fst x) (fst y) && Bool.eqb (snd x) (snd y) && calls_eqb s t
  | _, _ => false
  end.
Fixpoint all2 {A B} (f : A -> B -> bool) (a : list A) (b : list B) : bool :=
  match a, b with
  | [], [] => true
  | x :: s, y :: t => f x y && all2 f s t
  | _, _ => false
  end.

Definition calls_of (tr : list ev) (tid : nat) : list (rcall * bool) :=
  map (fun e => (ev_call e, ev_ok e)) (filter (fun e => Nat.eqb (ev_tid e) tid) tr).

Definition model_run (c : case) : rw * list thread * list ev :=
  run_policy (c_init c) (mk_threads (c_ops c)) (c_pauses c).

Definition agree (c : case) : bool :=
  let '(w, ts, tr) := model_run c in
  forallb finished ts
  && rw_eqb w (c_obs_final c)
  && all2 (fun t b => Bool.eqb (result t) b) ts (c_obs_results c)
  && all2 (fun i obs => calls_eqb (calls_of tr i) obs) (seq 0 (List.length ts)) (c_obs_calls c).

(* the property on what the implementation left behind *)
Definition ok (c : case) : bool := ref_ok (c_obs_final c).

(* window 3 (three operations): a RemoveNode acts on a stale record: between its
   GetNode(n) and its plugin removal, another thread removed the node record *)
Definition window_stale_removenode (tr : list ev) : bool :=
  let idx := seq 0 (List.length tr) in
  existsb (fun ig =>
    match nth_error tr ig with
    | Some (t1, CGetNode n, true) =>
        existsb (fun ip =>
          match nth_error tr ip with
          | Some (t1', PRemoveNode n', _) =>
              Nat.eqb t1 t1' && String.eqb n n' && Nat.ltb ig ip &&
              existsb (fun ir =>
                match nth_error tr ir with
                | Some (t2, CRemoveNode n'', true) =>
                    negb (Nat.eqb t1 t2) && String.eqb n n'' && Nat.ltb ig ir && Nat.ltb ir ip
                | _ => false
                end) idx
          | _ => false
          end) idx
    | _ => false
    end) idx.
