(* Proofs for C14: for EVERY crash configuration allowed by program order
   (every crash point under every interleaving of the instance goroutines, any
   plan), recovery leaves usage = sum of recorded workloads on every node and
   every instance fully created or absent (except the unlogged container), and
   no in-progress marker.  (Model of create.go after the repair of the deferred
   clean-up order; the old order leaked the marker: old_order_marker_leak.) *)
From Coq Require Import List Bool Arith ZArith Lia.
From Verif Require Import Calcium.Recover.
Import ListNotations.
Local Open Scope Z_scope.

(* ---------- counting over the instances of a node ---------- *)
Definition in_flight (s : stage) : bool := stage_ge s 3 && negb (stage_ge s 6).

Lemma count_cons : forall f s l, count f (s :: l) = (if f s then 1 else 0) + count f l.
Proof. intros. unfold count. cbn [filter]. destruct (f s); [cbn [List.length]; rewrite Nat2Z.inj_succ|]; lia. Qed.

Lemma count_split : forall l,
  count (fun s => stage_ge s 3) l = count in_flight l + count is_S6 l.
Proof.
  induction l as [|s t IH]; [reflexivity|]. rewrite !count_cons, IH.
  destruct s; unfold in_flight, is_S6, stage_ge, stage_eqb; cbn [Nat.leb negb andb]; lia.
Qed.

Lemma dec_sum : forall l,
  fold_right Z.add 0 (map snd (map recover_inst (map inst_state l))) = count in_flight l.
Proof.
  induction l as [|s t IH]; [reflexivity|]. rewrite count_cons. cbn [map fold_right]. rewrite IH.
  destruct s; unfold in_flight, recover_inst, inst_state, stage_ge; cbn [Nat.leb negb andb i_wal i_recorded snd]; lia.
Qed.

Lemma len_filter_map : forall (g : stage -> istate) (P : istate -> bool) (Q : stage -> bool),
  (forall s, P (g s) = Q s) ->
  forall l, Z.of_nat (List.length (filter P (map g l))) = count Q l.
Proof.
  intros g P Q H l. unfold count. induction l as [|s t IH]; [reflexivity|].
  cbn [map filter]. rewrite H. destruct (Q s); [cbn [List.length]; rewrite !Nat2Z.inj_succ; lia | exact IH].
Qed.

Lemma recorded_after : forall l,
  Z.of_nat (List.length (filter i_recorded (map fst (map recover_inst (map inst_state l))))) = count is_S6 l.
Proof.
  intros l. rewrite !map_map. apply len_filter_map. intros s. destruct s; reflexivity.
Qed.

Lemma recorded_before : forall l,
  Z.of_nat (List.length (filter i_recorded (map inst_state l))) = count (fun s => stage_ge s 3) l.
Proof. intros l. apply len_filter_map. intros s. destruct s; reflexivity. Qed.

Lemma count_all : forall f l, forallb f l = true -> count f l = Z.of_nat (List.length l).
Proof.
  intros f l. induction l as [|s t IH]; intros H; [reflexivity|]. rewrite count_cons.
  cbn in H. apply andb_true_iff in H. destruct H as [H1 H2]. rewrite H1, IH by exact H2.
  cbn [List.length]. rewrite Nat2Z.inj_succ. lia.
Qed.

Lemma count_none : forall f l, forallb (fun s => negb (f s)) l = true -> count f l = 0.
Proof.
  intros f l. induction l as [|s t IH]; intros H; [reflexivity|]. rewrite count_cons.
  cbn in H. apply andb_true_iff in H. destruct H as [H1 H2]. rewrite IH by exact H2.
  destruct (f s); [discriminate | lia].
Qed.

Lemma all_S0_none : forall f l, (forall s, f s = true -> is_S0 s = false) -> forallb is_S0 l = true -> count f l = 0.
Proof.
  intros f l Hf H. apply count_none. rewrite forallb_forall in *. intros s Hs. specialize (H s Hs).
  destruct (f s) eqn:E; [|reflexivity]. rewrite (Hf s E) in H. discriminate.
Qed.

Lemma insts_recover_ok : forall l,
  all2 inst_ok (map inst_state l) (map fst (map recover_inst (map inst_state l))) = true.
Proof. induction l as [|s t IH]; [reflexivity|]. cbn [map all2]. rewrite IH. destruct s; reflexivity. Qed.

(* ---------- the main theorem, per node ---------- *)
Lemma valid_node_of : forall g nc, valid g = true -> In nc (per_node g) -> valid_node g nc = true.
Proof.
  intros g nc V Hin. unfold valid in V. apply andb_true_iff in V. destruct V as [V _].
  rewrite forallb_forall in V. apply V. exact Hin.
Qed.

Theorem recover_node_ok : forall g nc u0 r0,
  valid g = true -> In nc (per_node g) -> u0 = r0 ->
  let ns := crash_node u0 r0 nc in
  let ns' := recover_node (wal_alloc_open g) ns in
  usage_ok ns' = true /\ insts_ok ns ns' = true /\ marker_ok ns' = true.
Proof.
  intros g nc u0 r0 V Hin E. subst u0. pose proof (valid_node_of g nc V Hin) as VN.
  unfold valid_node in VN. repeat (apply andb_true_iff in VN; destruct VN as [VN ?]).
  rename H into Hdel, H0 into Hcom, H1 into Hinst, H2 into Hmm, H3 into Hpl. rename VN into Had.
  cbn zeta. split; [|split].
  - (* usage *)
    unfold usage_ok, recover_node, recorded_sum, crash_node. cbn [usage others insts].
    rewrite dec_sum, recorded_after. apply Z.eqb_eq.
    destruct (wal_alloc_open g) eqn:Eo.
    + rewrite recorded_before, count_split. lia.
    + unfold wal_alloc_open in Eo. apply andb_false_iff in Eo. destruct Eo as [Eo|Eo].
      * (* nothing was logged yet: nothing happened on this node *)
        rewrite Eo in Had. destruct (alloc_done nc) eqn:Ead; [discriminate|].
        assert (A0 : all_stage is_S0 nc = true).
        { destruct (all_stage is_S0 nc) eqn:E0; [reflexivity|]. cbn in Hinst.
          rewrite forallb_forall in Hinst. specialize (Hinst nc Hin).
          rewrite Hinst in Hmm. cbn in Hmm. rewrite Hmm in Hpl. cbn in Hpl. discriminate. }
        unfold all_stage in A0.
        rewrite (all_S0_none in_flight _ (fun s => ltac:(destruct s; cbn; congruence)) A0).
        rewrite (all_S0_none is_S6 _ (fun s => ltac:(destruct s; cbn; congruence)) A0). lia.
      * (* everything was committed: every instance is fully created *)
        apply negb_false_iff in Eo. unfold valid in V. apply andb_true_iff in V. destruct V as [_ V].
        rewrite Eo in V. cbn in V. apply andb_true_iff in V. destruct V as [_ Vc].
        rewrite forallb_forall in Vc. specialize (Vc nc Hin). rewrite Vc in Hcom. cbn in Hcom.
        apply andb_true_iff in Hcom. destruct Hcom as [Hcom _].
        apply andb_true_iff in Hcom. destruct Hcom as [Hall Hmade].
        rewrite forallb_forall in Hall, Hmade. specialize (Hall nc Hin). specialize (Hmade nc Hin).
        rewrite Hmade in Hmm. cbn in Hmm. rewrite Hmm in Hpl. cbn in Hpl. rewrite Hpl.
        unfold all_stage in Hall. rewrite (count_all is_S6 _ Hall).
        rewrite (count_none in_flight); [lia|].
        rewrite forallb_forall in *. intros s Hs. specialize (Hall s Hs). destruct s; cbn in *; congruence.
  - unfold insts_ok, recover_node, crash_node. cbn [insts]. apply insts_recover_ok.
  - unfold marker_ok, recover_node, crash_node. cbn [marker wal_proc].
    destruct (marker_made nc) eqn:Em; cbn in *; [|destruct (proc_logged nc && negb (proc_committed nc)); reflexivity].
    rewrite Hmm. cbn. destruct (marker_deleted nc) eqn:Ed; cbn in *; [destruct (negb (proc_committed nc)); reflexivity|].
    destruct (proc_committed nc) eqn:Ec; [|reflexivity]. exfalso. cbn in Hcom.
    apply andb_true_iff in Hcom. destruct Hcom as [_ Hd]. rewrite forallb_forall in Hd.
    specialize (Hd nc Hin). congruence.
Qed.

(* the whole deployment *)
Theorem recovery_ok : forall g (before : list (Z * Z)),
  valid g = true -> List.length before = List.length (per_node g) ->
  (forall p, In p before -> fst p = snd p) ->
  forall p nc, In (p, nc) (combine before (per_node g)) ->
  let ns := crash_node (fst p) (snd p) nc in
  let ns' := recover_node (wal_alloc_open g) ns in
  usage_ok ns' = true /\ insts_ok ns ns' = true /\ marker_ok ns' = true.
Proof.
  intros g before V Hlen Hinv p nc Hin. apply recover_node_ok; [exact V | | ].
  - eapply in_combine_r. exact Hin.
  - apply Hinv. eapply in_combine_l. exact Hin.
Qed.

(* after the repair the leak window is unreachable *)
Lemma valid_no_leak_window : forall g nc, valid g = true -> In nc (per_node g) -> leak_window nc = false.
Proof.
  intros g nc V Hin. pose proof (valid_node_of g nc V Hin) as VN.
  unfold valid_node in VN. repeat (apply andb_true_iff in VN; destruct VN as [VN ?]).
  unfold leak_window. destruct (proc_committed nc) eqn:Ec; [|destruct (marker_made nc && negb (marker_deleted nc)); reflexivity].
  cbn in H0. apply andb_true_iff in H0. destruct H0 as [_ Hd]. rewrite forallb_forall in Hd.
  rewrite (Hd nc Hin). destruct (marker_made nc); reflexivity.
Qed.

(* what the code did before the repair (create-processing entries committed
   BEFORE the markers were deleted): a crash in between left the marker *)
Example old_order_marker_leak :
  marker_ok (recover_node true (crash_node 0 0 (mkNc true true true [S6] true false))) = false.
Proof. reflexivity. Qed.

(* a complete run, cut right before the WAL commits: the markers are already gone *)
Definition late_calls : list gcall :=
  [GLogAlloc; GAlloc 0; GLogProc 0; GCreateProc 0;
   GInst 0 0; GInst 0 0; GInst 0 0; GInst 0 0; GInst 0 0; GInst 0 0;
   GDeleteProc 0].
Example late_crash : exists g nc,
  grun (gc_start [1%nat]) late_calls = Some g /\ valid g = true /\ per_node g = [nc] /\
  marker_ok (recover_node (wal_alloc_open g) (crash_node 0 0 nc)) = true.
Proof. eexists. eexists. split; [vm_compute; reflexivity|]. repeat split. Qed.

(* non-vacuity: a crash in the middle of the second instance *)
Example mid_crash :
  exists g, grun (gc_start [2%nat]) [GLogAlloc; GAlloc 0; GLogProc 0; GCreateProc 0;
                                     GInst 0 0; GInst 0 0; GInst 0 0; GInst 0 0; GInst 0 0; GInst 0 0;
                                     GInst 0 1; GInst 0 1; GInst 0 1] = Some g
  /\ valid g = true
  /\ map (recover_node (wal_alloc_open g)) (map (crash_node 5 5) (per_node g))
     = [mkNs 6 5 None false [mkIs true (Some true) false; mkIs false None false]].
Proof. eexists. split; [vm_compute; reflexivity|]. split; reflexivity. Qed.

(* ---------- program order preserves [valid] ---------- *)
Lemma forallb_upd_at : forall {A} (P : A -> bool) f l n,
  forallb P l = true -> (forall x, nth_error l n = Some x -> P (f x) = true) ->
  forallb P (upd n f l) = true.
Proof.
  intros A P f l. induction l as [|y t IH]; intros n H Hf; [destruct n; reflexivity|].
  cbn in H. apply andb_true_iff in H. destruct H as [H1 H2]. destruct n as [|j]; cbn.
  - rewrite (Hf y eq_refl), H2. reflexivity.
  - rewrite H1. cbn. apply IH; [exact H2|]. intros x Hx. apply Hf. exact Hx.
Qed.

Lemma in_upd : forall {A} (f : A -> A) l n y, In y (upd n f l) ->
  In y l \/ exists x, nth_error l n = Some x /\ y = f x.
Proof.
  intros A f l. induction l as [|z t IH]; intros n y H; [destruct n; destruct H|].
  destruct n as [|j]; cbn in H.
  - destruct H as [H|H]; [right; exists z; split; [reflexivity | symmetry; exact H] | left; right; exact H].
  - destruct H as [H|H]; [left; left; exact H|]. destruct (IH _ _ H) as [H'|[x [Hx Hy]]].
    + left. right. exact H'.
    + right. exists x. split; assumption.
Qed.

Definition G1 g := forallb marker_made (per_node g).
Definition G2 g := forallb (all_stage is_S6) (per_node g).
Definition G3 g := forallb marker_deleted (per_node g).
Definition G4 g := forallb proc_committed (per_node g).

Lemma implb_mono : forall a b c, implb a b = true -> (b = true -> c = true) -> implb a c = true.
Proof. intros [] b c H Hc; cbn in *; [apply Hc; exact H | reflexivity]. Qed.

(* a node whose own configuration did not change stays valid when the global facts only grow *)
Lemma valid_node_mono : forall g g' x,
  alloc_logged g' = alloc_logged g \/ alloc_logged g' = true ->
  (G1 g = true -> G1 g' = true) -> (G2 g = true -> G2 g' = true) -> (G3 g = true -> G3 g' = true) ->
  valid_node g x = true -> valid_node g' x = true.
Proof.
  intros g g' x Hal H1 H2 H3 V. unfold valid_node in *. fold (G1 g) (G2 g) (G3 g) in V. fold (G1 g') (G2 g') (G3 g').
  repeat (apply andb_true_iff in V; destruct V as [V ?]).
  repeat (apply andb_true_iff; split).
  - destruct Hal as [E|E]; rewrite E; [exact V | destruct (alloc_done x); reflexivity].
  - assumption.
  - assumption.
  - eapply implb_mono; [eassumption | exact H1].
  - eapply implb_mono; [eassumption|]. intros E. apply andb_true_iff in E. destruct E as [E E3].
    apply andb_true_iff in E. destruct E as [E2 E1]. rewrite (H1 E1), (H2 E2), (H3 E3). reflexivity.
  - eapply implb_mono; [eassumption|]. intros E. apply andb_true_iff in E. destruct E as [E2 E1].
    rewrite (H1 E1), (H2 E2). reflexivity.
Qed.

Lemma valid_set0 : forall g n f nc,
  nth_error (per_node g) n = Some nc -> valid g = true ->
  let g' := mkGc (alloc_logged g) (alloc_committed g) (upd n f (per_node g)) in
  (G1 g = true -> G1 g' = true) -> (G2 g = true -> G2 g' = true) -> (G3 g = true -> G3 g' = true) ->
  (G4 g = true -> G4 g' = true) ->
  valid_node g' (f nc) = true -> valid g' = true.
Proof.
  intros g n f nc Hn V g' H1 H2 H3 H4 Hf. unfold valid in *. apply andb_true_iff in V. destruct V as [V Vc].
  apply andb_true_iff. split.
  - apply forallb_forall. intros y Hy. cbn in Hy. apply in_upd in Hy. destruct Hy as [Hy|[x [Hx Ey]]].
    + rewrite forallb_forall in V. eapply valid_node_mono; try eassumption; [left; reflexivity | apply V; exact Hy].
    + rewrite Hn in Hx. inversion Hx; subst. exact Hf.
  - eapply implb_mono; [exact Vc|]. intros E. apply andb_true_iff in E. destruct E as [Ea E4].
    apply andb_true_iff. split; [exact Ea | exact (H4 E4)].
Qed.

Lemma forallb_repeat_S0 : forall k, forallb is_S0 (repeat S0 k) = true.
Proof. induction k; [reflexivity | exact IHk]. Qed.

Lemma valid_start : forall plan, valid (gc_start plan) = true.
Proof.
  intros plan. unfold valid, gc_start. cbn [alloc_committed implb per_node]. rewrite andb_true_r.
  apply forallb_forall. intros nc Hnc. apply in_map_iff in Hnc. destruct Hnc as [k [E _]]. subst nc.
  unfold valid_node, nc_start, all_stage. cbn [alloc_done proc_logged marker_made stages proc_committed marker_deleted implb].
  rewrite forallb_repeat_S0. reflexivity.
Qed.

Lemma forallb_upd_mono : forall (P : nconf -> bool) f l n nc,
  nth_error l n = Some nc -> (P nc = true -> P (f nc) = true) ->
  forallb P l = true -> forallb P (upd n f l) = true.
Proof.
  intros P f l n nc Hn Hp H. apply forallb_upd_at; [exact H|]. intros x Hx. rewrite Hn in Hx. inversion Hx; subst.
  apply Hp. rewrite forallb_forall in H. apply H. eapply nth_error_In. exact Hn.
Qed.

(* one node's configuration changes by f: the step keeps validity if the four
   per-node facts only grow at that node and the changed node is valid *)
Lemma valid_set : forall g n f nc,
  nth_error (per_node g) n = Some nc -> valid g = true ->
  let g' := mkGc (alloc_logged g) (alloc_committed g) (upd n f (per_node g)) in
  (marker_made nc = true -> marker_made (f nc) = true) ->
  (all_stage is_S6 nc = true -> all_stage is_S6 (f nc) = true) ->
  (marker_deleted nc = true -> marker_deleted (f nc) = true) ->
  (proc_committed nc = true -> proc_committed (f nc) = true) ->
  (valid_node g' nc = true -> valid_node g' (f nc) = true) -> valid g' = true.
Proof.
  intros g n f nc Hn V g' M1 M2 M3 M4 Hf.
  assert (H1 : G1 g = true -> G1 g' = true) by (unfold G1; cbn [per_node]; apply forallb_upd_mono with (nc := nc); assumption).
  assert (H2 : G2 g = true -> G2 g' = true) by (unfold G2; cbn [per_node]; apply forallb_upd_mono with (nc := nc); assumption).
  assert (H3 : G3 g = true -> G3 g' = true) by (unfold G3; cbn [per_node]; apply forallb_upd_mono with (nc := nc); assumption).
  assert (H4 : G4 g = true -> G4 g' = true) by (unfold G4; cbn [per_node]; apply forallb_upd_mono with (nc := nc); assumption).
  eapply valid_set0; eauto. apply Hf.
  eapply valid_node_mono; try eassumption; [left; reflexivity|].
  apply valid_node_of; [exact V | eapply nth_error_In; exact Hn].
Qed.

Ltac split_valid_node H :=
  unfold valid_node in H |- *; cbn [alloc_done proc_logged marker_made stages proc_committed marker_deleted all_stage] in H |- *;
  repeat (apply andb_true_iff in H; let X := fresh "X" in destruct H as [H X]);
  repeat (apply andb_true_iff; split); try assumption.

Theorem valid_step : forall g c g', gstep g c = Some g' -> valid g = true -> valid g' = true.
Proof.
  intros g c g' S V. destruct c; unfold gstep in S; cbv zeta in S.
  - (* GLogAlloc *)
    destruct (alloc_logged g) eqn:Ea; [discriminate|]. inversion S; subst g'. clear S.
    unfold valid in *. apply andb_true_iff in V. destruct V as [V Vc]. apply andb_true_iff. split.
    + cbn [per_node]. apply forallb_forall. intros y Hy. rewrite forallb_forall in V.
      eapply valid_node_mono; [right; reflexivity | | | | apply V; exact Hy]; auto.
    + cbn. destruct (alloc_committed g) eqn:Ec; [|reflexivity]. rewrite Ea in Vc. cbn in Vc. discriminate.
  - (* GAlloc *)
    destruct (nth_error (per_node g) n) as [nc|] eqn:Hn; [|discriminate].
    destruct (alloc_logged g && negb (alloc_done nc) && earlier_made (per_node g) n) eqn:C; [|discriminate].
    inversion S; subst g'. clear S. apply andb_true_iff in C. destruct C as [C _]. apply andb_true_iff in C. destruct C as [Cl _].
    eapply valid_set; try exact Hn; try exact V; cbn; auto.
    intros VN. split_valid_node VN; cbn [alloc_logged alloc_committed per_node]; rewrite ?Cl; first [reflexivity | apply implb_true_r].
  - (* GLogProc *)
    destruct (nth_error (per_node g) n) as [nc|] eqn:Hn; [|discriminate].
    destruct (alloc_done nc && negb (proc_logged nc)) eqn:C; [|discriminate].
    inversion S; subst g'. clear S. apply andb_true_iff in C. destruct C as [Cd _].
    eapply valid_set; try exact Hn; try exact V; cbn; auto.
    intros VN. split_valid_node VN; cbn [alloc_logged alloc_committed per_node]; rewrite ?Cd; first [reflexivity | apply implb_true_r].
  - (* GCreateProc *)
    destruct (nth_error (per_node g) n) as [nc|] eqn:Hn; [|discriminate].
    destruct (proc_logged nc && negb (marker_made nc)) eqn:C; [|discriminate].
    inversion S; subst g'. clear S. apply andb_true_iff in C. destruct C as [Cp _].
    eapply valid_set; try exact Hn; try exact V; cbn; auto.
    intros VN. split_valid_node VN; cbn [alloc_logged alloc_committed per_node]; rewrite ?Cp; first [reflexivity | apply implb_true_r].
  - (* GInst *)
    destruct (nth_error (per_node g) n) as [nc|] eqn:Hn; [|discriminate].
    destruct (nth_error (stages nc) i) as [s|] eqn:Hs; [|discriminate].
    destruct (next_stage s) as [s'|] eqn:Hns; [|discriminate].
    destruct (cond_complete g) eqn:Cc; [|discriminate]. inversion S; subst g'. clear S.
    eapply valid_set; try exact Hn; try exact V; cbn; auto.
    + (* the node was not complete: s has a successor *)
      intros A6. exfalso. unfold all_stage in A6. rewrite forallb_forall in A6.
      specialize (A6 s (nth_error_In _ _ Hs)). destruct s; cbn in *; congruence.
    + intros VN.
      assert (G1' : forallb marker_made (upd n (fun x => mkNc (alloc_done x) (proc_logged x) (marker_made x)
                       (upd i (fun _ => s') (stages x)) (proc_committed x) (marker_deleted x)) (per_node g)) = true).
      { apply forallb_upd_mono with (nc := nc); [exact Hn | cbn; auto | exact Cc]. }
      split_valid_node VN. cbn [per_node]. rewrite G1'. apply implb_true_r.
  - (* GCommitProc *)
    destruct (nth_error (per_node g) n) as [nc|] eqn:Hn; [|discriminate].
    destruct (cond_complete g && all_done g && forallb marker_deleted (per_node g) && negb (proc_committed nc)) eqn:C; [|discriminate].
    inversion S; subst g'. clear S.
    apply andb_true_iff in C. destruct C as [C _]. apply andb_true_iff in C. destruct C as [C C3].
    apply andb_true_iff in C. destruct C as [C1 C2].
    eapply valid_set; try exact Hn; try exact V; cbn; auto.
    assert (E1 : forallb marker_made (upd n (fun x => mkNc (alloc_done x) (proc_logged x) (marker_made x) (stages x) true (marker_deleted x)) (per_node g)) = true)
      by (apply forallb_upd_mono with (nc := nc); [exact Hn | cbn; auto | exact C1]).
    assert (E2 : forallb (all_stage is_S6) (upd n (fun x => mkNc (alloc_done x) (proc_logged x) (marker_made x) (stages x) true (marker_deleted x)) (per_node g)) = true)
      by (apply forallb_upd_mono with (nc := nc); [exact Hn | cbn; auto | exact C2]).
    assert (E3 : forallb marker_deleted (upd n (fun x => mkNc (alloc_done x) (proc_logged x) (marker_made x) (stages x) true (marker_deleted x)) (per_node g)) = true)
      by (apply forallb_upd_mono with (nc := nc); [exact Hn | cbn; auto | exact C3]).
    intros VN. split_valid_node VN; cbn [per_node implb]; assumption.
  - (* GCommitAlloc *)
    destruct (alloc_logged g && negb (alloc_committed g) && cond_complete g && all_done g && forallb proc_committed (per_node g)) eqn:C; [|discriminate].
    inversion S; subst g'. clear S.
    apply andb_true_iff in C. destruct C as [C C4]. apply andb_true_iff in C. destruct C as [C _].
    apply andb_true_iff in C. destruct C as [C _]. apply andb_true_iff in C. destruct C as [Ca _].
    unfold valid in *. apply andb_true_iff in V. destruct V as [V Vc]. apply andb_true_iff. split.
    + cbn [per_node]. apply forallb_forall. intros y Hy. rewrite forallb_forall in V.
      eapply valid_node_mono; [left; reflexivity | | | | apply V; exact Hy]; auto.
    + cbn. rewrite Ca, C4. reflexivity.
  - (* GDeleteProc *)
    destruct (nth_error (per_node g) n) as [nc|] eqn:Hn; [|discriminate].
    destruct (cond_complete g && all_done g && negb (marker_deleted nc)) eqn:C; [|discriminate].
    inversion S; subst g'. clear S.
    apply andb_true_iff in C. destruct C as [C _]. apply andb_true_iff in C. destruct C as [C1 C2].
    eapply valid_set; try exact Hn; try exact V; cbn; auto.
    assert (E1 : forallb marker_made (upd n (fun x => mkNc (alloc_done x) (proc_logged x) (marker_made x) (stages x) (proc_committed x) true) (per_node g)) = true)
      by (apply forallb_upd_mono with (nc := nc); [exact Hn | cbn; auto | exact C1]).
    assert (E2 : forallb (all_stage is_S6) (upd n (fun x => mkNc (alloc_done x) (proc_logged x) (marker_made x) (stages x) (proc_committed x) true) (per_node g)) = true)
      by (apply forallb_upd_mono with (nc := nc); [exact Hn | cbn; auto | exact C2]).
    intros VN. split_valid_node VN; cbn [per_node implb]; assumption.
Qed.

Theorem reachable_valid : forall plan cs g, grun (gc_start plan) cs = Some g -> valid g = true.
Proof.
  intros plan cs. assert (H : forall g0, valid g0 = true -> forall g, grun g0 cs = Some g -> valid g = true).
  { induction cs as [|c t IH]; intros g0 V0 g R; cbn in R; [inversion R; subst; exact V0|].
    destruct (gstep g0 c) as [g1|] eqn:S; [|discriminate]. eapply IH; [|exact R]. eapply valid_step; eauto. }
  intros g R. eapply H; [apply valid_start | exact R].
Qed.
