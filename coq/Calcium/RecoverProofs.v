(* Proofs for C14: for EVERY crash configuration allowed by program order
   (every crash point under every interleaving of the instance goroutines, any
   plan), recovery leaves usage = sum of recorded workloads on every node and
   every instance fully created or absent (except the unlogged container); the
   in-progress marker is gone unless the crash fell between the WAL commit of
   the create-processing entry and DeleteProcessing - which is refuted as stated. *)
From Coq Require Import List Bool Arith ZArith Lia.
From Verif Require Import Calcium.Recover.
Import ListNotations.
Local Open Scope Z_scope.

(* ---------- counting over the instances of a node ---------- *)
Definition in_flight (s : stage) : bool := stage_ge s 3 && negb (stage_ge s 6).

Lemma count_cons : forall f s l, count f (s :: l) = (if f s then 1 else 0) + count f l.
Proof. intros. unfold count. cbn [filter]. destruct (f s); [cbn [List.length]; rewrite Nat2Z.inj_succ|]; lia. Qed.

Lemma count_split : forall l,
  count (fun s => stage_ge s 3) l = count in_flight l + count is_S6 l.
Proof.
  induction l as [|s t IH]; [reflexivity|]. rewrite !count_cons, IH.
  destruct s; unfold in_flight, is_S6, stage_ge, stage_eqb; cbn [Nat.leb negb andb]; lia.
Qed.

Lemma dec_sum : forall l,
  fold_right Z.add 0 (map snd (map recover_inst (map inst_state l))) = count in_flight l.
Proof.
  induction l as [|s t IH]; [reflexivity|]. rewrite count_cons. cbn [map fold_right]. rewrite IH.
  destruct s; unfold in_flight, recover_inst, inst_state, stage_ge; cbn [Nat.leb negb andb i_wal i_recorded snd]; lia.
Qed.

Lemma len_filter_map : forall (g : stage -> istate) (P : istate -> bool) (Q : stage -> bool),
  (forall s, P (g s) = Q s) ->
  forall l, Z.of_nat (List.length (filter P (map g l))) = count Q l.
Proof.
  intros g P Q H l. unfold count. induction l as [|s t IH]; [reflexivity|].
  cbn [map filter]. rewrite H. destruct (Q s); [cbn [List.length]; rewrite !Nat2Z.inj_succ; lia | exact IH].
Qed.

Lemma recorded_after : forall l,
  Z.of_nat (List.length (filter i_recorded (map fst (map recover_inst (map inst_state l))))) = count is_S6 l.
Proof.
  intros l. rewrite !map_map. apply len_filter_map. intros s. destruct s; reflexivity.
Qed.

Lemma recorded_before : forall l,
  Z.of_nat (List.length (filter i_recorded (map inst_state l))) = count (fun s => stage_ge s 3) l.
Proof. intros l. apply len_filter_map. intros s. destruct s; reflexivity. Qed.

Lemma count_all : forall f l, forallb f l = true -> count f l = Z.of_nat (List.length l).
Proof.
  intros f l. induction l as [|s t IH]; intros H; [reflexivity|]. rewrite count_cons.
  cbn in H. apply andb_true_iff in H. destruct H as [H1 H2]. rewrite H1, IH by exact H2.
  cbn [List.length]. rewrite Nat2Z.inj_succ. lia.
Qed.

Lemma count_none : forall f l, forallb (fun s => negb (f s)) l = true -> count f l = 0.
Proof.
  intros f l. induction l as [|s t IH]; intros H; [reflexivity|]. rewrite count_cons.
  cbn in H. apply andb_true_iff in H. destruct H as [H1 H2]. rewrite IH by exact H2.
  destruct (f s); [discriminate | lia].
Qed.

Lemma all_S0_none : forall f l, (forall s, f s = true -> is_S0 s = false) -> forallb is_S0 l = true -> count f l = 0.
Proof.
  intros f l Hf H. apply count_none. rewrite forallb_forall in *. intros s Hs. specialize (H s Hs).
  destruct (f s) eqn:E; [|reflexivity]. rewrite (Hf s E) in H. discriminate.
Qed.

Lemma insts_recover_ok : forall l,
  all2 inst_ok (map inst_state l) (map fst (map recover_inst (map inst_state l))) = true.
Proof. induction l as [|s t IH]; [reflexivity|]. cbn [map all2]. rewrite IH. destruct s; reflexivity. Qed.

(* ---------- the main theorem, per node ---------- *)
Lemma valid_node_of : forall g nc, valid g = true -> In nc (per_node g) -> valid_node g nc = true.
Proof.
  intros g nc V Hin. unfold valid in V. apply andb_true_iff in V. destruct V as [V _].
  rewrite forallb_forall in V. apply V. exact Hin.
Qed.

Theorem recover_node_ok : forall g nc u0 r0,
  valid g = true -> In nc (per_node g) -> u0 = r0 ->
  let ns := crash_node u0 r0 nc in
  let ns' := recover_node (wal_alloc_open g) ns in
  usage_ok ns' = true /\ insts_ok ns ns' = true /\ (leak_window nc = false -> marker_ok ns' = true).
Proof.
  intros g nc u0 r0 V Hin E. subst u0. pose proof (valid_node_of g nc V Hin) as VN.
  unfold valid_node in VN. repeat (apply andb_true_iff in VN; destruct VN as [VN ?]).
  rename H into Hdel, H0 into Hcom, H1 into Hinst, H2 into Hmm, H3 into Hpl. rename VN into Had.
  cbn zeta. split; [|split].
  - (* usage *)
    unfold usage_ok, recover_node, recorded_sum, crash_node. cbn [usage others insts].
    rewrite dec_sum, recorded_after. apply Z.eqb_eq.
    destruct (wal_alloc_open g) eqn:Eo.
    + rewrite recorded_before, count_split. lia.
    + unfold wal_alloc_open in Eo. apply andb_false_iff in Eo. destruct Eo as [Eo|Eo].
      * (* nothing was logged yet: nothing happened on this node *)
        rewrite Eo in Had. destruct (alloc_done nc) eqn:Ead; [discriminate|].
        assert (A0 : all_stage is_S0 nc = true).
        { destruct (all_stage is_S0 nc) eqn:E0; [reflexivity|]. cbn in Hinst.
          rewrite forallb_forall in Hinst. specialize (Hinst nc Hin).
          rewrite Hinst in Hmm. cbn in Hmm. rewrite Hmm in Hpl. cbn in Hpl. discriminate. }
        unfold all_stage in A0.
        rewrite (all_S0_none in_flight _ (fun s => ltac:(destruct s; cbn; congruence)) A0).
        rewrite (all_S0_none is_S6 _ (fun s => ltac:(destruct s; cbn; congruence)) A0). lia.
      * (* everything was committed: every instance is fully created *)
        apply negb_false_iff in Eo. unfold valid in V. apply andb_true_iff in V. destruct V as [_ V].
        rewrite Eo in V. cbn in V. apply andb_true_iff in V. destruct V as [_ Vc].
        rewrite forallb_forall in Vc. specialize (Vc nc Hin). rewrite Vc in Hcom. cbn in Hcom.
        apply andb_true_iff in Hcom. destruct Hcom as [Hall Hmade].
        rewrite forallb_forall in Hall, Hmade. specialize (Hall nc Hin). specialize (Hmade nc Hin).
        rewrite Hmade in Hmm. cbn in Hmm. rewrite Hmm in Hpl. cbn in Hpl. rewrite Hpl.
        unfold all_stage in Hall. rewrite (count_all is_S6 _ Hall).
        rewrite (count_none in_flight); [lia|].
        rewrite forallb_forall in *. intros s Hs. specialize (Hall s Hs). destruct s; cbn in *; congruence.
  - unfold insts_ok, recover_node, crash_node. cbn [insts]. apply insts_recover_ok.
  - intros Hl. unfold marker_ok, recover_node, crash_node. cbn [marker wal_proc].
    unfold leak_window in Hl.
    destruct (marker_made nc) eqn:Em; cbn in *; [|destruct (proc_logged nc && negb (proc_committed nc)); reflexivity].
    rewrite Hmm. cbn. destruct (marker_deleted nc); cbn in *; [destruct (negb (proc_committed nc)); reflexivity|].
    rewrite Hl. reflexivity.
Qed.

(* the whole deployment *)
Theorem recovery_ok : forall g (before : list (Z * Z)),
  valid g = true -> List.length before = List.length (per_node g) ->
  (forall p, In p before -> fst p = snd p) ->
  forall p nc, In (p, nc) (combine before (per_node g)) ->
  let ns := crash_node (fst p) (snd p) nc in
  let ns' := recover_node (wal_alloc_open g) ns in
  usage_ok ns' = true /\ insts_ok ns ns' = true /\ (leak_window nc = false -> marker_ok ns' = true).
Proof.
  intros g before V Hlen Hinv p nc Hin. apply recover_node_ok; [exact V | | ].
  - eapply in_combine_r. exact Hin.
  - apply Hinv. eapply in_combine_l. exact Hin.
Qed.

(* ---------- the refutation: the marker leaks in one window ---------- *)
Definition leak_calls : list gcall :=
  [GLogAlloc; GAlloc 0; GLogProc 0; GCreateProc 0;
   GInst 0 0; GInst 0 0; GInst 0 0; GInst 0 0; GInst 0 0; GInst 0 0;
   GCommitProc 0].

Theorem marker_leak : exists g nc,
  grun (gc_start [1%nat]) leak_calls = Some g /\ valid g = true /\ per_node g = [nc] /\
  marker_ok (recover_node (wal_alloc_open g) (crash_node 0 0 nc)) = false.
Proof. eexists. eexists. split; [vm_compute; reflexivity|]. repeat split. Qed.

(* non-vacuity: a crash in the middle of the second instance *)
Example mid_crash :
  exists g, grun (gc_start [2%nat]) [GLogAlloc; GAlloc 0; GLogProc 0; GCreateProc 0;
                                     GInst 0 0; GInst 0 0; GInst 0 0; GInst 0 0; GInst 0 0; GInst 0 0;
                                     GInst 0 1; GInst 0 1; GInst 0 1] = Some g
  /\ valid g = true
  /\ map (recover_node (wal_alloc_open g)) (map (crash_node 5 5) (per_node g))
     = [mkNs 6 5 None false [mkIs true (Some true) false; mkIs false None false]].
Proof. eexists. split; [vm_compute; reflexivity|]. split; reflexivity. Qed.
