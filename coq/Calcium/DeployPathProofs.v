(* Calcium/DeployPathProofs.v — theorems about the composed deploy path
   (Calcium/DeployPath.v), obtained by composing the results of the layers:
     Cobalt/MergeProofs, MergeFloat (builder C): aggregate_f64, offered_iff_all,
        mincap_is_min, total_of_sat, merge_all_nodup, lookup_in
     Cobalt/CapacityProofs (builders B/C): capacity_is_max
     Strategy/ProofsGlue (C01_glue, C02_glue)
   (a) the total handed to strategy.Deploy is the saturating sum of the offered
       capacities, so C02 holds along the path without assuming it;
   (b) every planned count is within the capacity every plugin reported for the
       node, hence (capacity_is_max) the per-node Alloc of the planned count is
       accepted on the unchanged node;
   (c) a node that some plugin does not offer never receives instances. *)
From Coq Require Import String Ascii.
From Coq Require Import List Bool ZArith Arith Lia Permutation.
From Verif Require Import Base.GoInt Base.GoFloat Base.RunLib Cpumem.Types Cpumem.Schedule Cpumem.Calc
  Cobalt.Merge Cobalt.MergeProofs Cobalt.MergeFloat Cobalt.Capacity Cobalt.CapacityProofs
  Strategy.Model Strategy.Glue Strategy.ProofsBase Strategy.Proofs Strategy.ProofsGlue Calcium.DeployPath.
Import ListNotations.
Local Open Scope Z_scope.

(* ---- small facts about the layers' definitions ---- *)
Lemma lookup_some_in {T} (m : list (string * ndc T)) k v : Merge.lookup k m = Some v -> In (k, v) m.
Proof.
  induction m as [|[k' v'] t IH]; simpl; [discriminate|].
  destruct (String.eqb k k') eqn:E.
  - intro H. injection H as <-. apply String.eqb_eq in E. subst. left; reflexivity.
  - intro H. right. apply IH. exact H.
Qed.

Lemma infos_of_spec {T} n : forall (answers : list (list (string * ndc T))) is,
  infos_of n answers = Some is -> Forall2 (fun a i => Merge.lookup n a = Some i) answers is.
Proof.
  induction answers as [|a t IH]; intros is H; simpl in H.
  - injection H as <-. constructor.
  - destruct (Merge.lookup n a) as [i|] eqn:El; [|discriminate].
    destruct (infos_of n t) as [l|] eqn:Et; [|discriminate].
    injection H as <-. constructor; auto.
Qed.

Lemma forall2_in_l {A B} (R : A -> B -> Prop) l1 l2 a :
  Forall2 R l1 l2 -> In a l1 -> exists b, In b l2 /\ R a b.
Proof.
  induction 1 as [|x y l1 l2 Hxy H IH]; simpl; [tauto|].
  intros [->|Ha]; [exists y; auto|]. destruct (IH Ha) as (b & Hb & Hr). exists b; auto.
Qed.
Lemma forall2_in_r {A B} (R : A -> B -> Prop) l1 l2 b :
  Forall2 R l1 l2 -> In b l2 -> exists a, In a l1 /\ R a b.
Proof.
  induction 1 as [|x y l1 l2 Hxy H IH]; simpl; [tauto|].
  intros [->|Hb]; [exists x; auto|]. destruct (IH Hb) as (a & Ha & Hr). exists a; auto.
Qed.

Lemma fold_some {A B} (f : option A -> B -> A) l : forall x,
  exists m, fold_left (fun acc a => Some (f acc a)) l (Some x) = Some m.
Proof. induction l as [|a t IH]; intro x; simpl; [eauto|]. apply IH. Qed.

Lemma gndc_f_cons (a1 : famap) (rest : list famap) :
  exists m, merge_all fadd fmul (a1 :: rest) = Some m /\
    gndc_f (a1 :: rest) = (map (fun kv => (fst kv, finish fdiv (snd kv))) m,
                           total_of (map (fun kv => n_cap (snd kv)) m)).
Proof.
  destruct (fold_some (merge_capacity fadd fmul) rest (merge_capacity fadd fmul None a1)) as (m & E).
  exists m.
  assert (Em : merge_all fadd fmul (a1 :: rest) = Some m) by exact E.
  split; [exact Em|]. unfold gndc_f, gndc. rewrite Em. reflexivity.
Qed.

Lemma ne_cons {A} (l : list A) : l <> [] -> exists a t, l = a :: t.
Proof. destruct l as [|a t]; [congruence|]. intros _. eauto. Qed.

Lemma entries_names m : map ce_name (entries_of m) = map fst m.
Proof. unfold entries_of. rewrite map_map. reflexivity. Qed.
Lemma entries_caps m : map ce_cap (entries_of m) = map (fun kv => n_cap (snd kv)) m.
Proof. unfold entries_of. rewrite map_map. reflexivity. Qed.

Lemma msatsum_eq caps : Forall (fun z => 0 <= z) caps -> Model.satsum caps = Merge.satsum caps.
Proof. intro H. rewrite satsum_spec by exact H. reflexivity. Qed.

(* ======================================================================== *)
Section AnyPlugins.
Variables (answers : list famap) (morder : list cap_entry) (status : plan) (need limit : Z).
Hypothesis Hne : answers <> [].
Hypothesis Hkeys : forall a, In a answers -> NoDup (map fst a).           (* Go maps *)
Hypothesis Hcaps : forall a k v, In a answers -> In (k, v) a -> 0 <= n_cap v <= max_int.
Hypothesis Hstatus : forall k, 0 <= mget status k.
Hypothesis Hperm : Permutation (entries_of (fst (gndc_f answers))) morder.
Hypothesis Hneed : 0 < need.
Hypothesis Hlimit : 0 <= limit.

Let merged := fst (gndc_f answers).

Lemma merged_nodup : NoDup (map fst merged).
Proof.
  unfold merged. destruct (ne_cons answers Hne) as (a1 & rest & Ea). rewrite Ea.
  destruct (gndc_f_cons a1 rest) as (m & Em & Eg). rewrite Eg. simpl. rewrite map_map. simpl.
  apply (merge_all_nodup f64 fadd fmul a1 rest m); [|exact Em].
  apply Hkeys. rewrite Ea. left; reflexivity.
Qed.

(* the merged capacity of a node is the minimum over the plugins: it is one of the
   plugins' values and below all of them *)
Lemma merged_cap k v : In (k, v) merged ->
  exists is, infos_of k answers = Some is /\ is <> [] /\
    (forall i, In i is -> n_cap v <= n_cap i) /\ (exists i, In i is /\ n_cap v = n_cap i).
Proof.
  intro Hin.
  assert (Hl : Merge.lookup k merged = Some v).
  { apply (lookup_in f64 merged k v); [exact merged_nodup|exact Hin]. }
  unfold merged in Hl. rewrite (aggregate_f64 answers k Hne) in Hl.
  destruct (infos_of k answers) as [[|i1 rest]|] eqn:Ei; try discriminate.
  injection Hl as <-. exists (i1 :: rest). split; [reflexivity|]. split; [discriminate|]. simpl.
  destruct (@mincap_is_min f64 i1 rest) as [Hmin Hex]. split; [exact Hmin|exact Hex].
Qed.

Lemma merged_caps_ok : Forall cap_ok (map (fun kv => n_cap (snd kv)) merged).
Proof.
  apply Forall_forall. intros c Hc. apply in_map_iff in Hc. destruct Hc as ([k v] & <- & Hin). simpl.
  destruct (merged_cap k v Hin) as (is & Ei & _ & _ & (i & Hi & E)).
  destruct (forall2_in_r _ _ _ i (infos_of_spec k answers is Ei) Hi) as (a & Ha & Hl).
  rewrite E. unfold cap_ok. apply (Hcaps a k i Ha). apply lookup_some_in. exact Hl.
Qed.

Lemma path_valid_caps : valid_caps (entries_of merged) status.
Proof.
  split; [rewrite entries_names; exact merged_nodup|]. split; [|exact Hstatus].
  apply Forall_forall. intros e He. unfold entries_of in He. apply in_map_iff in He.
  destruct He as ([k v] & <- & Hin). simpl.
  pose proof merged_caps_ok as H. rewrite Forall_forall in H.
  specialize (H (n_cap v)). unfold cap_ok in H. apply H. apply in_map_iff. exists (k, v). auto.
Qed.

(* (a) the total is the saturating sum of the offered capacities, whatever the
   iteration orders of the merged map *)
Theorem path_total : snd (gndc_f answers) = Model.satsum (map ce_cap morder).
Proof.
  assert (Hc := merged_caps_ok).
  assert (E1 : snd (gndc_f answers) = Merge.satsum (map (fun kv => n_cap (snd kv)) merged)).
  { unfold merged in *. destruct (ne_cons answers Hne) as (a1 & rest & Ea). rewrite Ea in *.
    destruct (gndc_f_cons a1 rest) as (m & Em & Eg). rewrite Eg in *. simpl in *.
    rewrite map_map in *. simpl in *.
    apply total_of_sat. exact Hc. }
  rewrite E1.
  assert (Hp : Permutation (map (fun kv => n_cap (snd kv)) merged) (map ce_cap morder)).
  { rewrite <- entries_caps. apply Permutation_map. exact Hperm. }
  assert (Hnn : Forall (fun z => 0 <= z) (map ce_cap morder)).
  { eapply Permutation_Forall; [exact Hp|]. eapply Forall_impl; [|exact Hc]. unfold cap_ok. simpl. intros; lia. }
  rewrite msatsum_eq by exact Hnn. unfold Merge.satsum. f_equal. apply sum_perm. exact Hp.
Qed.

(* C02 along the path: no assumption on the total any more *)
Theorem path_C02 s : s <> Other -> need <= max_int ->
  (feasible s need limit (glue_infos morder status) = true ->
     (exists p, manager_then_deploy answers morder status s need limit = Model.Ok p) \/
     manager_then_deploy answers morder status s need limit = AlreadyFilled []) /\
  (feasible s need limit (glue_infos morder status) = false ->
     manager_then_deploy answers morder status s need limit = Err EInsufficientResource \/
     manager_then_deploy answers morder status s need limit = Err EInsufficientCapacity).
Proof.
  intros Hs Hmax. unfold manager_then_deploy.
  apply (glue_C02 (entries_of merged) morder status need limit (snd (gndc_f answers))
           path_valid_caps Hperm Hneed Hlimit s Hs Hmax path_total).
Qed.

(* C01 along the path *)
Theorem path_C01 s p : manager_then_deploy answers morder status s need limit = Model.Ok p ->
  C01_spec s need limit (glue_infos morder status) p.
Proof.
  unfold manager_then_deploy. intro H.
  exact (glue_C01 (entries_of merged) morder status need limit _ path_valid_caps Hperm Hneed Hlimit s p H).
Qed.

(* (c) only nodes offered by every plugin receive instances *)
Theorem path_only_offered s p n :
  manager_then_deploy answers morder status s need limit = Model.Ok p ->
  mhas p n = true -> forall a, In a answers -> In n (map fst a).
Proof.
  intros H Hh. destruct (path_C01 s p H) as (_ & Hk & _).
  specialize (Hk n Hh). rewrite glue_names in Hk.
  assert (Hm : In n (map fst merged)).
  { rewrite <- entries_names. eapply Permutation_in; [symmetry; apply Permutation_map; exact Hperm|exact Hk]. }
  apply (offered_iff_all answers n Hne). exact Hm.
Qed.

(* (b) the planned count of a node is within the capacity EVERY plugin reported for it *)
Theorem path_within_every_plugin s p n a i :
  manager_then_deploy answers morder status s need limit = Model.Ok p ->
  In a answers -> Merge.lookup n a = Some i -> 0 <= mget p n <= n_cap i.
Proof.
  intros H Ha Hl. destruct (path_C01 s p H) as (_ & Hk & Hb & _).
  assert (Hi0 : 0 <= n_cap i) by (apply (Hcaps a n i Ha); apply lookup_some_in; exact Hl).
  destruct (mhas p n) eqn:Eh.
  - specialize (Hk n Eh). rewrite glue_names in Hk.
    apply in_map_iff in Hk. destruct Hk as (e & En & He).
    assert (Hx : In (mkInfo (ce_name e) (ce_usage e) (ce_rate e) (ce_cap e) (mget status (ce_name e)))
                    (glue_infos morder status)).
    { unfold glue_infos. apply in_map_iff. exists e. auto. }
    specialize (Hb _ Hx). simpl in Hb. rewrite En in Hb.
    assert (He' : In e (entries_of merged)) by (eapply Permutation_in; [symmetry; exact Hperm|exact He]).
    unfold entries_of in He'. apply in_map_iff in He'. destruct He' as ([k v] & Ee & Hin).
    subst e. simpl in *. subst k.
    destruct (merged_cap n v Hin) as (is & Ei & _ & Hmin & _).
    destruct (forall2_in_l _ _ _ a (infos_of_spec n answers is Ei) Ha) as (i' & Hi' & Hl').
    rewrite Hl in Hl'. injection Hl' as <-. specialize (Hmin i Hi'). lia.
  - rewrite (mhas_false_mget _ _ Eh). lia.
Qed.
End AnyPlugins.

(* ======================================================================== *)
(* cpumem as the only plugin: the per-node Alloc of the planned count          *)
(* ======================================================================== *)
Section Cpumem.
Variable sortf : list keyed -> outcome (list keyed).
Variables (base maxshare : Z) (raw req : wreq) (orders : string -> list string).
Variables (nodes : list pnode) (caps : list (string * capinfo)).
Variables (morder : list cap_entry) (status : plan) (need limit : Z).
Hypothesis Hreq : wreq_validate raw = inr req.
Hypothesis Hnames : NoDup (map fst nodes).
Hypothesis Hcaps : plugin_caps sortf base maxshare req orders nodes = Types.Ok caps.
(* named hypothesis [caps_int64]: the capacities the plugin computes are Go ints *)
Hypothesis caps_int64 : Forall (fun nc => cap_capacity (snd nc) <= max_int) caps.
Hypothesis Hstatus : forall k, 0 <= mget status k.
Hypothesis Hperm : Permutation (entries_of (fst (manager_capacity caps))) morder.
Hypothesis Hneed : 0 < need.
Hypothesis Hlimit : 0 <= limit.

Lemma plugin_caps_spec : forall ns cs, plugin_caps sortf base maxshare req orders ns = Types.Ok cs ->
  map fst cs = map fst ns /\
  forall n, In n ns -> exists c, In (fst n, c) cs /\
    node_capacity_g sortf (snd n) base maxshare req (orders (fst n)) (default_fuel (snd n)) = Types.Ok c.
Proof.
  induction ns as [|n t IH]; intros cs H; simpl in H.
  - injection H as <-. split; [reflexivity|]. intros n [].
  - destruct (node_capacity_g sortf (snd n) base maxshare req (orders (fst n)) (default_fuel (snd n))) as [c| | |] eqn:Ec;
      simpl in H; try discriminate.
    destruct (plugin_caps sortf base maxshare req orders t) as [r| | |] eqn:Er; simpl in H; try discriminate.
    injection H as <-. destruct (IH r eq_refl) as [I1 I2]. split; [simpl; rewrite I1; reflexivity|].
    intros m [->|Hm].
    + exists c. split; [left; reflexivity|exact Ec].
    + destruct (I2 m Hm) as (c' & Hc' & Ec'). exists c'. split; [right; exact Hc'|exact Ec'].
Qed.

Let answer : famap := map (fun nc => (fst nc, ndc_of_cap (snd nc))) (plugin_offered caps).

Lemma caps_nodup : NoDup (map fst caps).
Proof. rewrite (proj1 (plugin_caps_spec nodes caps Hcaps)). exact Hnames. Qed.

Lemma answer_nodup : NoDup (map fst answer).
Proof.
  unfold answer. rewrite map_map. simpl. unfold plugin_offered.
  pose proof caps_nodup as H. clear -H. induction caps as [|[k c] t IH]; simpl in *; [constructor|].
  inversion H as [|? ? Hk Ht]; subst. destruct (0 <? cap_capacity c); simpl; auto.
  constructor; auto. intro Hin. apply Hk. apply in_map_iff in Hin. destruct Hin as (y & Ey & Hy).
  apply filter_In in Hy. apply in_map_iff. exists y. tauto.
Qed.

Lemma answer_caps_ok k v : In (k, v) answer -> 0 <= n_cap v <= max_int.
Proof.
  unfold answer. intro H. apply in_map_iff in H. destruct H as ([k' c] & E & Hin). inversion E; subst.
  apply filter_In in Hin. destruct Hin as [Hin Hpos]. simpl in *.
  rewrite Forall_forall in caps_int64. specialize (caps_int64 _ Hin). simpl in caps_int64. lia.
Qed.

Definition the_result (s : strategy) : result :=
  glue s need limit morder status (snd (manager_capacity caps)).

Lemma the_result_eq s : the_result s = manager_then_deploy [answer] morder status s need limit.
Proof. reflexivity. Qed.

Lemma deploy_path_eq s :
  deploy_path sortf base maxshare raw orders nodes morder status s need limit = PResult (the_result s).
Proof. unfold deploy_path. rewrite Hreq, Hcaps. reflexivity. Qed.

(* (a) *)
Theorem cpumem_path_total : snd (manager_capacity caps) = Model.satsum (map ce_cap morder).
Proof.
  apply (path_total [answer] morder); try discriminate; auto.
  - intros a [<-|[]]. exact answer_nodup.
  - intros a k v [<-|[]] H. apply answer_caps_ok with k. exact H.
Qed.

(* (b) the Alloc of every planned count is accepted on the unchanged node *)
Theorem cpumem_path_alloc_accepted s p n :
  the_result s = Model.Ok p -> In n nodes -> 1 <= mget p (fst n) ->
  alloc_accepts sortf base maxshare raw orders n (mget p (fst n)) = true.
Proof.
  intros H Hn Hp1.
  destruct (proj2 (plugin_caps_spec nodes caps Hcaps) n Hn) as (c & Hc & Ec).
  assert (Hans : forall a, In a [answer] -> NoDup (map fst a)) by (intros a [<-|[]]; exact answer_nodup).
  assert (Hok : forall a k v, In a [answer] -> In (k, v) a -> 0 <= n_cap v <= max_int)
    by (intros a k v [<-|[]] Hkv; apply answer_caps_ok with k; exact Hkv).
  rewrite the_result_eq in H.
  (* the node is offered: its name is a key of the plan *)
  assert (Hh : mhas p (fst n) = true).
  { destruct (mhas p (fst n)) eqn:E; [reflexivity|]. rewrite (mhas_false_mget _ _ E) in Hp1. lia. }
  pose proof (path_only_offered [answer] morder status need limit ltac:(discriminate) Hans Hok Hstatus Hperm Hneed Hlimit
                s p (fst n) H Hh answer (or_introl eq_refl)) as Hin.
  unfold answer in Hin. rewrite map_map in Hin. simpl in Hin. apply in_map_iff in Hin.
  destruct Hin as ([k c'] & Ek & Hoff). simpl in Ek. subst k.
  apply filter_In in Hoff. destruct Hoff as [Hc' Hpos].
  assert (c' = c).
  { pose proof caps_nodup as Hnd. clear -Hnd Hc Hc'. induction caps as [|[k x] t IH]; simpl in *; [tauto|].
    inversion Hnd as [|? ? Hk Ht]; subst.
    destruct Hc as [E1|H1], Hc' as [E2|H2].
    - congruence.
    - inversion E1; subst. exfalso. apply Hk. apply in_map_iff. exists (fst n, c'). auto.
    - inversion E2; subst. exfalso. apply Hk. apply in_map_iff. exists (fst n, c). auto.
    - apply IH; auto. }
  subst c'.
  assert (Hl : Merge.lookup (fst n) answer = Some (ndc_of_cap c)).
  { apply (lookup_in f64 answer (fst n) (ndc_of_cap c)); [exact answer_nodup|].
    unfold answer. apply in_map_iff. exists (fst n, c). split; [reflexivity|].
    apply filter_In. split; [exact Hc|exact Hpos]. }
  pose proof (path_within_every_plugin [answer] morder status need limit ltac:(discriminate) Hans Hok Hstatus Hperm Hneed Hlimit
                s p (fst n) answer (ndc_of_cap c) H (or_introl eq_refl) Hl) as Hle.
  simpl in Hle.
  rewrite Forall_forall in caps_int64. pose proof (caps_int64 _ Hc) as Hmax. simpl in Hmax.
  unfold alloc_accepts.
  destruct (proj2 (capacity_is_max sortf (snd n) base maxshare raw req (orders (fst n)) (default_fuel (snd n))
                     (mget p (fst n)) c Hreq ltac:(lia) Ec) ltac:(lia)) as (r & Er).
  rewrite Er. reflexivity.
Qed.

(* (c) a node with no capacity receives nothing *)
Theorem cpumem_path_not_offered s p n c :
  the_result s = Model.Ok p -> In (n, c) caps -> cap_capacity c <= 0 -> mhas p n = false /\ mget p n = 0.
Proof.
  intros H Hc Hz.
  assert (Hans : forall a, In a [answer] -> NoDup (map fst a)) by (intros a [<-|[]]; exact answer_nodup).
  assert (Hok : forall a k v, In a [answer] -> In (k, v) a -> 0 <= n_cap v <= max_int)
    by (intros a k v [<-|[]] Hkv; apply answer_caps_ok with k; exact Hkv).
  rewrite the_result_eq in H.
  destruct (mhas p n) eqn:E; [exfalso|split; [reflexivity|apply mhas_false_mget; exact E]].
  pose proof (path_only_offered [answer] morder status need limit ltac:(discriminate) Hans Hok Hstatus Hperm Hneed Hlimit
                s p n H E answer (or_introl eq_refl)) as Hin.
  unfold answer in Hin. rewrite map_map in Hin. simpl in Hin. apply in_map_iff in Hin.
  destruct Hin as ([k c'] & Ek & Hoff). simpl in Ek. subst k.
  apply filter_In in Hoff. destruct Hoff as [Hc' Hpos]. simpl in Hpos.
  assert (c' = c); [|subst; lia].
  pose proof caps_nodup as Hnd. clear -Hnd Hc Hc'. induction caps as [|[k x] t IH]; simpl in *; [tauto|].
  inversion Hnd as [|? ? Hk Ht]; subst.
  destruct Hc as [E1|H1], Hc' as [E2|H2].
  - congruence.
  - inversion E1; subst. exfalso. apply Hk. apply in_map_iff. exists (n, c'). auto.
  - inversion E2; subst. exfalso. apply Hk. apply in_map_iff. exists (n, c). auto.
  - apply IH; auto.
Qed.
End Cpumem.

(* ---- the same, stated on [deploy_path] ---- *)
Definition path_hyps sortf base maxshare (raw req : wreq) orders (nodes : list pnode)
    (caps : list (string * capinfo)) (morder : list cap_entry) (status : plan) (need limit : Z) : Prop :=
  wreq_validate raw = inr req /\ NoDup (map fst nodes) /\
  plugin_caps sortf base maxshare req orders nodes = Types.Ok caps /\
  Forall (fun nc => cap_capacity (snd nc) <= max_int) caps /\          (* caps_int64 *)
  (forall k, 0 <= mget status k) /\
  Permutation (entries_of (fst (manager_capacity caps))) morder /\
  0 < need /\ 0 <= limit.

Theorem deploy_path_total sortf base maxshare raw req orders nodes caps morder status need limit :
  path_hyps sortf base maxshare raw req orders nodes caps morder status need limit ->
  snd (manager_capacity caps) = Model.satsum (map ce_cap morder).
Proof.
  intros (H1 & H2 & H3 & H4 & H5 & H6 & H7 & H8).
  eapply cpumem_path_total; eauto.
Qed.

Theorem deploy_path_alloc_accepted sortf base maxshare raw req orders nodes caps morder status need limit s p n :
  path_hyps sortf base maxshare raw req orders nodes caps morder status need limit ->
  deploy_path sortf base maxshare raw orders nodes morder status s need limit = PResult (Model.Ok p) ->
  In n nodes -> 1 <= mget p (fst n) ->
  alloc_accepts sortf base maxshare raw orders n (mget p (fst n)) = true.
Proof.
  intros (H1 & H2 & H3 & H4 & H5 & H6 & H7 & H8) Hd Hn Hp.
  rewrite (deploy_path_eq sortf base maxshare raw req orders nodes caps morder status need limit H1 H3) in Hd.
  injection Hd as Hd. eapply cpumem_path_alloc_accepted; eauto.
Qed.

Theorem deploy_path_not_offered sortf base maxshare raw req orders nodes caps morder status need limit s p n c :
  path_hyps sortf base maxshare raw req orders nodes caps morder status need limit ->
  deploy_path sortf base maxshare raw orders nodes morder status s need limit = PResult (Model.Ok p) ->
  In (n, c) caps -> cap_capacity c <= 0 -> mhas p n = false /\ mget p n = 0.
Proof.
  intros (H1 & H2 & H3 & H4 & H5 & H6 & H7 & H8) Hd Hc Hz.
  rewrite (deploy_path_eq sortf base maxshare raw req orders nodes caps morder status need limit H1 H3) in Hd.
  injection Hd as Hd. eapply cpumem_path_not_offered; eauto.
Qed.

Theorem deploy_path_C02 sortf base maxshare raw req orders nodes caps morder status need limit s :
  path_hyps sortf base maxshare raw req orders nodes caps morder status need limit ->
  s <> Other -> need <= max_int ->
  (feasible s need limit (glue_infos morder status) = true ->
     (exists p, deploy_path sortf base maxshare raw orders nodes morder status s need limit = PResult (Model.Ok p)) \/
     deploy_path sortf base maxshare raw orders nodes morder status s need limit = PResult (AlreadyFilled [])) /\
  (feasible s need limit (glue_infos morder status) = false ->
     deploy_path sortf base maxshare raw orders nodes morder status s need limit = PResult (Err EInsufficientResource) \/
     deploy_path sortf base maxshare raw orders nodes morder status s need limit = PResult (Err EInsufficientCapacity)).
Proof.
  intros (H1 & H2 & H3 & H4 & H5 & H6 & H7 & H8) Hs Hmax.
  rewrite (deploy_path_eq sortf base maxshare raw req orders nodes caps morder status need limit H1 H3).
  pose proof (cpumem_path_total sortf base maxshare req orders nodes caps morder status H2 H3 H4 H5 H6) as Ht.
  set (answer := map (fun nc => (fst nc, ndc_of_cap (snd nc))) (plugin_offered caps)).
  assert (Hv : valid_caps (entries_of (fst (manager_capacity caps))) status).
  { apply (path_valid_caps [answer] status); try discriminate; auto.
    - intros a [<-|[]]. eapply answer_nodup; eauto.
    - intros a k v [<-|[]] Hkv. eapply answer_caps_ok; eauto. }
  destruct (glue_C02 _ morder status need limit (snd (manager_capacity caps)) Hv H6 H7 H8 s Hs Hmax Ht) as [I1 I2].
  unfold the_result. split.
  - intro Hf. destruct (I1 Hf) as [(p & E)|E]; [left; exists p; rewrite E; reflexivity|right; rewrite E; reflexivity].
  - intro Hf. destruct (I2 Hf) as [E|E]; rewrite E; auto.
Qed.
