(* Calcium/CapProofs.v — "no allocation ever raises a node's memory usage above its capacity":
   create keeps usage <= capacity for every world (distinct plugin records), feasible plan and fault position. *)
From Coq Require Import List Bool Arith ZArith Lia Permutation.
From Verif Require Import Base.Effects Calcium.World Calcium.Ops Calcium.Run Calcium.EffectsProofs Calcium.OpsProofs Calcium.OpsProofs2 Calcium.InvProofs Calcium.DeployProofs Calcium.DeployProofs2 Calcium.CreateProofs Calcium.CreateProofs2 Calcium.NodeProofs.
Import ListNotations.
Local Open Scope Z_scope.

(* ---- "no allocation ever raises a node's memory usage above its capacity" ---- *)
Definition cap_ok (w : world) : Prop := forall p, In p (plugs w) -> snd (p_use p) <= snd (p_cap p).

Lemma scale_snd : forall k r, snd (scale k r) = Z.of_nat k * snd r.
Proof.
  induction k as [|k IH]; intros r; cbn [scale].
  - reflexivity.
  - unfold radd. cbn [snd]. rewrite IH. lia.
Qed.

Lemma fits_cap : forall p k r, fits p (Z.of_nat k) r = true -> 0 <= snd r ->
  snd (p_use p) <= snd (p_cap p) -> snd (p_use p) + Z.of_nat k * snd r <= snd (p_cap p).
Proof.
  intros p k r Hf Hr Hu. unfold fits in Hf. apply andb_true_iff in Hf. destruct Hf as [_ Hf].
  apply orb_true_iff in Hf. destruct Hf as [Hf|Hf].
  - apply negb_true_iff in Hf. apply Z.ltb_ge in Hf. assert (snd r = 0) by lia. rewrite H. lia.
  - apply Z.leb_le in Hf.
    destruct (Z_lt_le_dec 0 (snd r)) as [Hpos|Hz]; [|assert (snd r = 0) by lia; rewrite H; lia].
    pose proof (Z.mul_quot_le (snd (p_cap p) - snd (p_use p)) (snd r) ltac:(lia) ltac:(lia)) as Hq. nia.
Qed.

Lemma atotal_zero_or_in : forall dm n, atotal dm n = 0%nat \/ In n (map fst dm).
Proof.
  induction dm as [|g t IH]; intros n; simpl; [left; reflexivity|].
  destruct (Nat.eqb (fst g) n) eqn:E.
  - right. left. apply Nat.eqb_eq. exact E.
  - destruct (IH n) as [H|H]; [left; simpl; exact H|right; right; exact H].
Qed.

Theorem create_keeps_capacity : forall opi pod r plan w k, create_hyp w opi r plan -> 0 <= snd r ->
  NoDup (pnames (plugs w)) -> cap_ok w ->
  cap_ok (fst (fst (crunk (create opi pod r plan) w k))).
Proof.
  intros opi pod r plan w k Hhyp Hr Hndp Hok.
  destruct (create_spec opi pod r plan w k Hhyp) as [w' [k' [ms [H P]]]]. rewrite H. cbn [fst].
  destruct P as [_ _ _ _ _ _ Hpl _ _ _ Hb].
  intros p' Hp'. rewrite Hpl in Hp'. apply in_map_iff in Hp'. destruct Hp' as [x [<- Hx]].
  cbn [add_use p_use p_cap]. unfold radd. cbn [snd]. rewrite scale_snd.
  pose proof (Hok x Hx) as Hux. specialize (Hb (p_node x)).
  destruct plan as [dm|]; [|assert (created_on ms (p_node x) = 0%nat) as -> by lia; lia].
  destruct Hhyp as [_ [Hnd [Hfe _]]].
  destruct (atotal_zero_or_in dm (p_node x)) as [Hz|Hin].
  - rewrite Hz in Hb. assert (created_on ms (p_node x) = 0%nat) as -> by lia. lia.
  - apply in_map_iff in Hin. destruct Hin as [[n cnt] [Hn Hin]]. cbn [fst] in Hn. subst n.
    rewrite (atotal_in dm (p_node x) cnt Hnd Hin) in Hb.
    destruct (Hfe (p_node x) cnt Hin) as [p [Hp Hfit]].
    unfold find_plug in Hp. apply find_some in Hp. destruct Hp as [Hpin Hpn]. apply Nat.eqb_eq in Hpn.
    assert (p = x) by (apply (nodup_pname_unique (plugs w)); auto). subst p.
    pose proof (fits_cap x cnt r Hfit Hr Hux) as Hbound. nia.
Qed.
