(* Calcium/DeployPath.v — composition of the deploy path (read-only over the
   models of the layers):

     cpumem plugin   GetNodesDeployCapacity      Cpumem/Calc.v   (builder B)  node_capacity_g
     cobalt manager  GetNodesDeployCapacity      Cobalt/Merge.v, Cobalt/Capacity.v (builder C)  gndc_f / manager_capacity
     calcium         doGetDeployStrategy         Strategy/Glue.v
     strategy        Deploy                      Strategy/Model.v
     cpumem plugin   CalculateDeploy (per node, planned count)   Cpumem/Calc.v  calculate_deploy_g

   Oracles: the NUMA iteration order of every node ([orders]), the iteration order
   of the merged capacity map when the strategy table is assembled ([morder]); the
   theorems (DeployPathProofs.v) hold for all of them.  Executable, no proofs. *)
From Coq Require Import String Ascii.
From Coq Require Import List Bool ZArith Arith.
From Verif Require Import Base.GoInt Base.GoFloat Base.RunLib Cpumem.Types Cpumem.Schedule Cpumem.Calc
  Cobalt.Merge Cobalt.Capacity Strategy.Model Strategy.Glue.
Import ListNotations.
Local Open Scope Z_scope.

(* the manager's merged map as the capacity entries doGetDeployStrategy reads *)
Definition entries_of (m : famap) : list cap_entry :=
  map (fun kv => mkCapE (fst kv) (n_cap (snd kv)) (n_usage (snd kv)) (n_rate (snd kv))) m.

(* ---- any set of plugins: cobalt aggregation, then the glue and the strategy ---- *)
Definition manager_then_deploy (answers : list famap) (morder : list cap_entry) (status : plan)
    (s : strategy) (need limit : Z) : result :=
  glue s need limit morder status (snd (gndc_f answers)).

(* ---- the cpumem plugin as the only plugin ---- *)
Section Path.
Variable sortf : list keyed -> outcome (list keyed).
Variables (base maxshare : Z).

Definition pnode := (string * node_info)%type.

(* cpumem.GetNodesDeployCapacity: capacity info of every node *)
Fixpoint plugin_caps (req : wreq) (orders : string -> list string) (nodes : list pnode)
  : outcome (list (string * capinfo)) :=
  match nodes with
  | [] => Types.Ok []
  | n :: t =>
    do c <- node_capacity_g sortf (snd n) base maxshare req (orders (fst n)) (default_fuel (snd n));
    do r <- plugin_caps req orders t;
    Types.Ok ((fst n, c) :: r)
  end.

Inductive path_result :=
  | PInvalidRequest                       (* the plugin rejects the resource request *)
  | PPluginFailure                        (* the capacity computation crashed (C06 excludes it) *)
  | PResult (r : result).                 (* what doGetDeployStrategy returns *)

Definition deploy_path (raw : wreq) (orders : string -> list string) (nodes : list pnode)
    (morder : list cap_entry) (status : plan) (s : strategy) (need limit : Z) : path_result :=
  match wreq_validate raw with
  | inl _ => PInvalidRequest
  | inr req =>
    match plugin_caps req orders nodes with
    | Types.Ok caps => PResult (glue s need limit morder status (snd (manager_capacity caps)))
    | _ => PPluginFailure
    end
  end.

(* the Alloc that follows for a node and its planned count (node unchanged) *)
Definition alloc_accepts (raw : wreq) (orders : string -> list string) (n : pnode) (count : Z) : bool :=
  match calculate_deploy_g sortf (snd n) base maxshare count raw (orders (fst n)) (default_fuel (snd n)) with
  | Types.Ok (inr _) => true
  | _ => false
  end.
End Path.

(* ======================================================================== *)
(* Correspondence cases: Calcium.CalculateCapacity and Calcium.CreateWorkload *)
(* on a real Calcium (embedded etcd, real cpumem plugin, fake engine)         *)
(* ======================================================================== *)
Record pcase := mkPC {
  p_base : Z; p_maxshare : Z; p_raw : wreq;
  p_nodes : list pnode;                   (* candidate nodes with capacity and usage, read before the calls *)
  p_status : plan;                        (* store.GetDeployStatus(app, entry) *)
  p_strat : strategy; p_need : Z; p_limit : Z;
  p_reported : list (string * Z);         (* Manager.GetNodesDeployCapacity: node -> capacity *)
  p_total : Z;                            (*   and its total *)
  p_obs_cap : result;                     (* CalculateCapacity: NodeCapacities or error class *)
  p_obs_create : result;                  (* CreateWorkload: instances created per node or error class *)
  p_create_failed : Z                     (* number of instance messages carrying an error *)
}.

Definition no_numa (_ : string) : list string := [].

Definition path_caps (c : pcase) : option (list (string * capinfo)) :=
  match wreq_validate (p_raw c) with
  | inl _ => None
  | inr req =>
    match plugin_caps sort_exact (p_base c) (p_maxshare c) req no_numa (p_nodes c) with
    | Types.Ok caps => Some caps
    | _ => None
    end
  end.

Definition cap_list_eqb (a b : list (string * Z)) : bool :=
  list_eqb (fun x y => String.eqb (fst x) (fst y) && Z.eqb (snd x) (snd y)) a b.

Definition drop_zero_entries (r : result) : result :=
  match r with
  | Model.Ok p => Model.Ok (filter (fun kv => negb (snd kv =? 0)) p)
  | _ => r
  end.

(* the observed plan is the model's for some iteration order of the merged map;
   the manager's answer is the model's *)
Definition pagree (c : pcase) : bool :=
  match path_caps c with
  | None =>
      (* invalid request: both calls fail before any strategy runs *)
      match p_obs_cap c, p_obs_create c with Model.Ok _, _ | _, Model.Ok _ => false | _, _ => true end
  | Some caps =>
      let mt := manager_capacity caps in
      let entries := entries_of (sort_keys (fst mt)) in
      cap_list_eqb (map (fun e => (ce_name e, ce_cap e)) entries) (p_reported c) &&
      Z.eqb (snd mt) (p_total c) &&
      let results := map (fun order => glue (p_strat c) (p_need c) (p_limit c) order (p_status c) (snd mt))
                         (perms entries) in
      existsb (fun r => res_eqb r (p_obs_cap c)) results &&
      (* a node planned with 0 new instances (FILL) produces no create message *)
      existsb (fun r => res_eqb (drop_zero_entries r) (p_obs_create c)) results
  end.

(* boolean reflection of the path properties on what the implementation did *)
Definition plan_within (reported : list (string * Z)) (p : plan) : bool :=
  forallb (fun kv => existsb (fun r => String.eqb (fst r) (fst kv) && (snd kv <=? snd r) && (0 <=? snd kv)) reported) p.

Definition pok (c : pcase) : bool :=
  (* (a) the total handed to the strategy is the saturating sum of the offered capacities *)
  Z.eqb (p_total c) (Model.satsum (map snd (p_reported c))) &&
  (* (b)+(c) every planned count is within the capacity reported for an offered node ... *)
  (match p_obs_cap c with Model.Ok p => plan_within (p_reported c) p | _ => true end) &&
  (match p_obs_create c with Model.Ok p => plan_within (p_reported c) p | _ => true end) &&
  (* ... and every planned allocation was accepted *)
  Z.eqb (p_create_failed c) 0 &&
  (* only nodes with positive capacity are offered *)
  forallb (fun r => 0 <? snd r) (p_reported c) &&
  (* the model's Alloc accepts the planned counts on the unchanged nodes *)
  match p_obs_cap c with
  | Model.Ok p => forallb (fun kv =>
              (snd kv <? 1) ||
              match find (fun n => String.eqb (fst n) (fst kv)) (p_nodes c) with
              | Some n => alloc_accepts sort_exact (p_base c) (p_maxshare c) (p_raw c) no_numa n (snd kv)
              | None => false
              end) p
  | _ => true
  end.
