(* Calcium/DeployPath.v — composition of the deploy path (read-only over the
   models of the layers):

     cpumem plugin   GetNodesDeployCapacity      Cpumem/Calc.v   (builder B)  node_capacity_g
     cobalt manager  GetNodesDeployCapacity      Cobalt/Merge.v, Cobalt/Capacity.v (builder C)  gndc_f / manager_capacity
     calcium         doGetDeployStrategy         Strategy/Glue.v
     strategy        Deploy                      Strategy/Model.v
     cpumem plugin   CalculateDeploy (per node, planned count)   Cpumem/Calc.v  calculate_deploy_g

   Oracles: the NUMA iteration order of every node ([orders]), the iteration order
   of the merged capacity map when the strategy table is assembled ([morder]); the
   theorems (DeployPathProofs.v) hold for all of them.  Executable, no proofs. *)
From Coq Require Import String Ascii.
From Coq Require Import List Bool ZArith Arith.
From Verif Require Import Base.GoInt Base.GoFloat Base.RunLib Cpumem.Types Cpumem.Schedule Cpumem.Calc
  Cobalt.Merge Cobalt.Capacity Strategy.Model Strategy.Glue.
Import ListNotations.
Local Open Scope Z_scope.

(* the manager's merged map as the capacity entries doGetDeployStrategy reads *)
Definition entries_of (m : famap) : list cap_entry :=
  map (fun kv => mkCapE (fst kv) (n_cap (snd kv)) (n_usage (snd kv)) (n_rate (snd kv))) m.

(* ---- any set of plugins: cobalt aggregation, then the glue and the strategy ---- *)
Definition manager_then_deploy (answers : list famap) (morder : list cap_entry) (status : plan)
    (s : strategy) (need limit : Z) : result :=
  glue s need limit morder status (snd (gndc_f answers)).

(* ---- the cpumem plugin as the only plugin ---- *)
Section Path.
Variable sortf : list keyed -> outcome (list keyed).
Variables (base maxshare : Z).

Definition pnode := (string * node_info)%type.

(* cpumem.GetNodesDeployCapacity: capacity info of every node *)
Fixpoint plugin_caps (req : wreq) (orders : string -> list string) (nodes : list pnode)
  : outcome (list (string * capinfo)) :=
  match nodes with
  | [] => Types.Ok []
  | n :: t =>
    do c <- node_capacity_g sortf (snd n) base maxshare req (orders (fst n)) (default_fuel (snd n));
    do r <- plugin_caps req orders t;
    Types.Ok ((fst n, c) :: r)
  end.

Inductive path_result :=
  | PInvalidRequest                       (* the plugin rejects the resource request *)
  | PPluginFailure                        (* the capacity computation crashed (C06 excludes it) *)
  | PResult (r : result).                 (* what doGetDeployStrategy returns *)

Definition deploy_path (raw : wreq) (orders : string -> list string) (nodes : list pnode)
    (morder : list cap_entry) (status : plan) (s : strategy) (need limit : Z) : path_result :=
  match wreq_validate raw with
  | inl _ => PInvalidRequest
  | inr req =>
    match plugin_caps req orders nodes with
    | Types.Ok caps => PResult (glue s need limit morder status (snd (manager_capacity caps)))
    | _ => PPluginFailure
    end
  end.

(* the Alloc that follows for a node and its planned count (node unchanged) *)
Definition alloc_accepts (raw : wreq) (orders : string -> list string) (n : pnode) (count : Z) : bool :=
  match calculate_deploy_g sortf (snd n) base maxshare count raw (orders (fst n)) (default_fuel (snd n)) with
  | Types.Ok (inr _) => true
  | _ => false
  end.

(* the commit step: usage of the node after the planned count has been allocated
   (Manager.Alloc = CalculateDeploy + SetNodeResourceUsage(workloads, delta, incr)) *)
Definition node_after (raw : wreq) (orders : string -> list string) (n : pnode) (count : Z) : option node_info :=
  match calculate_deploy_g sortf (snd n) base maxshare count raw (orders (fst n)) (default_fuel (snd n)) with
  | Types.Ok (inr r) => Some (commit_usage (snd n) (snd r))
  | _ => None
  end.
End Path.

(* ======================================================================== *)
(* Correspondence cases: Calcium.CalculateCapacity and Calcium.CreateWorkload *)
(* on a real Calcium (embedded etcd, real cpumem plugin, optionally a second  *)
(* scripted plugin, fake engine)                                              *)
(* ======================================================================== *)
Record pcase := mkPC {
  p_base : Z; p_maxshare : Z; p_raw : wreq;
  p_nodes : list pnode;                   (* candidate nodes with capacity and usage, read before the calls *)
  p_extra : list famap;                   (* answers of additional (scripted) plugins, keys sorted *)
  p_status : plan;                        (* store.GetDeployStatus(app, entry) *)
  p_strat : strategy; p_need : Z; p_limit : Z;
  p_reported : list cap_entry;            (* Manager.GetNodesDeployCapacity: node -> capacity, usage, rate *)
  p_total : Z;                            (*   and its total *)
  p_obs_cap : result;                     (* CalculateCapacity: NodeCapacities or error class *)
  p_obs_create : result;                  (* CreateWorkload: instances created per node or error class *)
  p_create_failed : Z;                    (* number of instance messages carrying an error *)
  p_after : list (string * node_resource) (* usage of every node after the create *)
}.

Definition no_numa (_ : string) : list string := [].

Definition path_caps (c : pcase) : option (list (string * capinfo)) :=
  match wreq_validate (p_raw c) with
  | inl _ => None
  | inr req =>
    match plugin_caps sort_exact (p_base c) (p_maxshare c) req no_numa (p_nodes c) with
    | Types.Ok caps => Some caps
    | _ => None
    end
  end.

Definition cpumem_answer (caps : list (string * capinfo)) : famap :=
  map (fun nc => (fst nc, ndc_of_cap (snd nc))) (plugin_offered caps).

Definition entry_eqb (a b : cap_entry) : bool :=
  String.eqb (ce_name a) (ce_name b) && Z.eqb (ce_cap a) (ce_cap b) &&
  f_obs_eqb (ce_usage a) (ce_usage b) && f_obs_eqb (ce_rate a) (ce_rate b).

Definition drop_zero_entries (r : result) : result :=
  match r with
  | Model.Ok p => Model.Ok (filter (fun kv => negb (snd kv =? 0)) p)
  | _ => r
  end.

Definition nr_eqb (a b : node_resource) : bool :=
  fbits_eqb (nr_cpu a) (nr_cpu b) && smap_eqb Z.eqb (nr_cpumap a) (nr_cpumap b) &&
  Z.eqb (nr_mem a) (nr_mem b) && smap_eqb Z.eqb (nr_numamem a) (nr_numamem b).

(* expected usage of node [n] after [count] instances were allocated on it *)
Definition usage_after (c : pcase) (n : pnode) (count : Z) : option node_resource :=
  if count <=? 0 then Some (ni_usage (snd n)) else
  option_map ni_usage (node_after sort_exact (p_base c) (p_maxshare c) (p_raw c) no_numa n count).

(* the manager's answer is the model's for some order of the plugin answers; both
   observed plans are the model's for some iteration order of the merged map; the
   usage of every node after the create is the committed usage of the model *)
Definition pagree (c : pcase) : bool :=
  match path_caps c with
  | None =>
      (* invalid request: both calls fail before any strategy runs *)
      match p_obs_cap c, p_obs_create c with Model.Ok _, _ | _, Model.Ok _ => false | _, _ => true end
  | Some caps =>
      existsb (fun answers =>
        let mt := gndc_f answers in
        let entries := entries_of (sort_keys (fst mt)) in
        list_eqb entry_eqb entries (p_reported c) &&
        Z.eqb (snd mt) (p_total c) &&
        let results := map (fun order => glue (p_strat c) (p_need c) (p_limit c) order (p_status c) (snd mt))
                           (perms entries) in
        existsb (fun r => res_eqb r (p_obs_cap c)) results &&
        (* a node planned with 0 new instances (FILL) produces no create message *)
        existsb (fun r => res_eqb (drop_zero_entries r) (p_obs_create c)) results)
        (perms (cpumem_answer caps :: p_extra c)) &&
      (* commit step *)
      let created := match p_obs_create c with Model.Ok q => q | _ => [] end in
      forallb (fun n =>
        match usage_after c n (mget created (fst n)),
              find (fun a => String.eqb (fst a) (fst n)) (p_after c) with
        | Some u, Some a => nr_eqb u (snd a)
        | _, _ => false
        end) (p_nodes c)
  end.

(* the strategy table as doGetDeployStrategy must assemble it: reported capacities with the
   TRUE number of deployed + in-flight instances of exactly this app / entrypoint per node *)
Definition path_infos (c : pcase) : list info := glue_infos (p_reported c) (p_status c).
Definition path_guard (c : pcase) : bool :=
  (0 <? p_need c) && (0 <=? p_limit c) && negb (strategy_eqb (p_strat c) Other) &&
  forallb (fun x => f_finite (usage x) && f_finite (rate x) && fle fzero (rate x)) (path_infos c).

(* boolean reflection of the path properties on what the implementation did *)
Definition plan_within (reported : list cap_entry) (p : plan) : bool :=
  forallb (fun kv => existsb (fun r => String.eqb (ce_name r) (fst kv) && (snd kv <=? ce_cap r) && (0 <=? snd kv)) reported) p.

Definition pok (c : pcase) : bool :=
  (* (a) the total handed to the strategy is the saturating sum of the offered capacities *)
  Z.eqb (p_total c) (Model.satsum (map ce_cap (p_reported c))) &&
  (* (b)+(c) every planned count is within the capacity reported for an offered node ... *)
  (match p_obs_cap c with Model.Ok p => plan_within (p_reported c) p | _ => true end) &&
  (match p_obs_create c with Model.Ok p => plan_within (p_reported c) p | _ => true end) &&
  (* ... and every planned allocation was accepted *)
  Z.eqb (p_create_failed c) 0 &&
  (* cpumem alone offers only nodes with positive capacity *)
  (match p_extra c with [] => forallb (fun r => 0 <? ce_cap r) (p_reported c) | _ => true end) &&
  (* every offered node is offered by every additional plugin, within its capacity *)
  forallb (fun r => forallb (fun a => match Merge.lookup (ce_name r) a with
                                       | Some i => ce_cap r <=? n_cap i
                                       | None => false end) (p_extra c)) (p_reported c) &&
  (* the model's Alloc accepts the planned counts on the unchanged nodes *)
  (match p_obs_cap c with
   | Model.Ok p => forallb (fun kv =>
              (snd kv <? 1) ||
              match find (fun n => String.eqb (fst n) (fst kv)) (p_nodes c) with
              | Some n => alloc_accepts sort_exact (p_base c) (p_maxshare c) (p_raw c) no_numa n (snd kv)
              | None => false
              end) p
   | _ => true
   end) &&
  (* C01 (a)-(d) for the plan against the true deploy status (per-node limit of AUTO included) *)
  (match p_obs_cap c with
   | Model.Ok p => negb (path_guard c) || C01_plan_ok (p_strat c) (p_need c) (p_limit c) (path_infos c) p
   | _ => true
   end) &&
  (* (d) commit: memory usage after the create = usage before + created * memory request *)
  match wreq_validate (p_raw c), p_obs_create c with
  | inr req, Model.Ok q =>
      forallb (fun n =>
        match find (fun a => String.eqb (fst a) (fst n)) (p_after c) with
        | Some a => nr_mem (snd a) =? nr_mem (ni_usage (snd n)) + mget q (fst n) * rq_mem_req req
        | None => false
        end) (p_nodes c)
  | _, _ => true
  end.

(* C03 on the plan of the real path, against the true deploy status *)
Definition pok3 (c : pcase) : bool :=
  match p_obs_cap c with
  | Model.Ok p => negb (path_guard c) || all_pairs (C03_pair (p_strat c) (p_need c) (p_limit c) p) (path_infos c)
  | _ => true
  end.
