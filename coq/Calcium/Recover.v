(* C14 — a crash during deployment is repaired by recovery.  Executable model,
   no proofs.

   create.go:doCreateWorkloads issues, per deployment,
     cond   WAL log allocate-workload(nodes);
            per planned node: rmgr.Alloc; WAL log create-processing; store.CreateProcessing
     then   per instance (own goroutine): engine create; WAL log create-workload;
            store.AddWorkload (+ marker decrement); engine start; inspect;
            WAL commit create-workload (deferred in doDeployOneWorkload)
     defers (LIFO, after the repair of this property): store.DeleteProcessing per
            node; WAL commit of every create-processing entry; WAL commit of the
            allocate-workload entry; close.  (Before the repair the markers were
            deleted LAST: a crash after the commit of a create-processing entry left
            a marker nothing deletes - Example old_order_marker_leak.)
   A crash point is a set of executed calls closed under program order; because
   the calls of different instances / nodes touch different records, the state
   at the crash is determined by HOW FAR each part got: a [gconf].  [gstep] is
   the program order (any interleaving of the instance goroutines); [valid] its
   boolean invariant.

   Recovery (calcium.go:DisasterRecover -> wal/hydro.go:Recover) replays the open
   entries in log order with the handlers of cluster/calcium/wal.go:
     allocate-workload   NodeResource(fix) on every logged node: usage := sum of recorded workloads
     create-processing   DeleteProcessing
     create-workload     record exists: RemoveWorkloadSync (usage decremented, record and
                         container removed); else remove the container
   Amounts are counted in instances (every instance of a deployment requests the
   same resources). *)
From Coq Require Import List Bool Arith ZArith.
Import ListNotations.
Local Open Scope Z_scope.

(* how far one instance got *)
Inductive stage :=
| S0            (* nothing *)
| S1            (* container created (engine), not yet logged *)
| S2            (* create-workload logged *)
| S3            (* workload recorded, marker decremented *)
| S4            (* container started *)
| S5            (* inspected *)
| S6.           (* create-workload entry committed: fully created *)

Definition stage_ge (s : stage) (n : nat) : bool :=
  Nat.leb n (match s with S0 => 0 | S1 => 1 | S2 => 2 | S3 => 3 | S4 => 4 | S5 => 5 | S6 => 6 end)%nat.
Definition stage_eqb (a b : stage) : bool :=
  match a, b with
  | S0, S0 | S1, S1 | S2, S2 | S3, S3 | S4, S4 | S5, S5 | S6, S6 => true
  | _, _ => false
  end.

(* how far the node-local part of the deployment got *)
Record nconf := mkNc {
  alloc_done : bool;          (* rmgr.Alloc *)
  proc_logged : bool;         (* WAL log create-processing *)
  marker_made : bool;         (* store.CreateProcessing *)
  stages : list stage;        (* one per planned instance *)
  proc_committed : bool;      (* WAL commit create-processing *)
  marker_deleted : bool       (* store.DeleteProcessing *)
}.

Record gconf := mkGc {
  alloc_logged : bool;        (* WAL log allocate-workload *)
  alloc_committed : bool;     (* WAL commit allocate-workload *)
  per_node : list nconf
}.

Definition nc_start (k : nat) : nconf := mkNc false false false (repeat S0 k) false false.
Definition gc_start (plan : list nat) : gconf := mkGc false false (map nc_start plan).

Definition all_stage (f : stage -> bool) (nc : nconf) : bool := forallb f (stages nc).
Definition is_S0 s := stage_eqb s S0.
Definition is_S6 s := stage_eqb s S6.

(* the invariant of program order *)
Definition valid_node (g : gconf) (nc : nconf) : bool :=
  implb (alloc_done nc) (alloc_logged g)
  && implb (proc_logged nc) (alloc_done nc)
  && implb (marker_made nc) (proc_logged nc)
  (* instances start only after the whole condition step *)
  && implb (negb (all_stage is_S0 nc)) (forallb marker_made (per_node g))
  (* the deferred clean-up runs only after every instance finished: first every
     marker is deleted, then the create-processing entries are committed *)
  && implb (proc_committed nc) (forallb (all_stage is_S6) (per_node g) && forallb marker_made (per_node g)
                                && forallb marker_deleted (per_node g))
  && implb (marker_deleted nc) (forallb (all_stage is_S6) (per_node g) && forallb marker_made (per_node g)).
Definition valid (g : gconf) : bool :=
  forallb (valid_node g) (per_node g)
  && implb (alloc_committed g) (alloc_logged g && forallb proc_committed (per_node g)).

(* ---------- the state left by the crash ---------- *)
Record istate := mkIs { i_recorded : bool; i_cont : option bool (* Some running *); i_wal : bool }.
Definition inst_state (s : stage) : istate :=
  mkIs (stage_ge s 3) (if stage_ge s 4 then Some true else if stage_ge s 1 then Some false else None)
       (stage_ge s 2 && negb (stage_ge s 6)).

Record nstate := mkNs {
  usage : Z;                  (* plugin usage of the node, in instances *)
  others : Z;                 (* sum over the recorded workloads of OTHER deployments (unchanged) *)
  marker : option Z;
  wal_proc : bool;            (* create-processing entry open *)
  insts : list istate
}.

Definition count (f : stage -> bool) (l : list stage) : Z := Z.of_nat (List.length (filter f l)).

(* u0 = usage before the deployment, r0 = sum of the workloads recorded before *)
Definition crash_node (u0 r0 : Z) (nc : nconf) : nstate :=
  let k := Z.of_nat (List.length (stages nc)) in
  mkNs (if alloc_done nc then u0 + k else u0)
       r0
       (if marker_made nc && negb (marker_deleted nc)
        then Some (k - count (fun s => stage_ge s 3) (stages nc)) else None)
       (proc_logged nc && negb (proc_committed nc))
       (map inst_state (stages nc)).

Definition wal_alloc_open (g : gconf) : bool := alloc_logged g && negb (alloc_committed g).

Definition recorded_sum (ns : nstate) : Z :=
  others ns + Z.of_nat (List.length (filter i_recorded (insts ns))).

(* ---------- recovery of one node, handlers in log order ---------- *)
(* create-workload handler *)
Definition recover_inst (i : istate) : istate * Z (* usage decrement *) :=
  if i_wal i then
    if i_recorded i then (mkIs false None false, 1)      (* RemoveWorkloadSync *)
    else (mkIs false None false, 0)                       (* VirtualizationRemove *)
  else (i, 0).

Definition recover_node (alloc_open : bool) (ns : nstate) : nstate :=
  (* allocate-workload: fix *)
  let u1 := if alloc_open then recorded_sum ns else usage ns in
  (* create-processing *)
  let m1 := if wal_proc ns then None else marker ns in
  (* create-workload entries *)
  let rs := map recover_inst (insts ns) in
  mkNs (u1 - fold_right Z.add 0 (map snd rs)) (others ns) m1 false (map fst rs).

(* ---------- the property after recovery ---------- *)
Definition inst_ok (before after : istate) : bool :=
  (* fully created *)
  (i_recorded after && match i_cont after with Some true => true | _ => false end)
  (* absent from store and engine *)
  || (negb (i_recorded after) && match i_cont after with None => true | _ => false end)
  (* the container created in the instant before the crash, not yet logged *)
  || (negb (i_recorded before) && negb (i_wal before) && match i_cont before with Some false => true | _ => false end
      && negb (i_recorded after)).

Fixpoint all2 {A B} (f : A -> B -> bool) (a : list A) (b : list B) : bool :=
  match a, b with
  | [], [] => true
  | x :: s, y :: t => f x y && all2 f s t
  | _, _ => false
  end.

Definition usage_ok (ns : nstate) : bool := Z.eqb (usage ns) (recorded_sum ns).
Definition marker_ok (ns : nstate) : bool := match marker ns with None => true | Some _ => false end.
Definition insts_ok (before after : nstate) : bool := all2 inst_ok (insts before) (insts after).

(* the window in which a marker would leak: its WAL entry is committed, the marker not
   yet deleted (unreachable after the repair: see valid_no_leak_window) *)
Definition leak_window (nc : nconf) : bool :=
  marker_made nc && negb (marker_deleted nc) && proc_committed nc.

(* ---------- program order as a step relation (any interleaving) ---------- *)
Fixpoint upd {A} (i : nat) (f : A -> A) (l : list A) : list A :=
  match l, i with
  | [], _ => []
  | x :: t, O => f x :: t
  | x :: t, S j => x :: upd j f t
  end.
Definition next_stage (s : stage) : option stage :=
  match s with S0 => Some S1 | S1 => Some S2 | S2 => Some S3 | S3 => Some S4 | S4 => Some S5 | S5 => Some S6 | S6 => None end.

Inductive gcall :=
| GLogAlloc
| GAlloc (n : nat) | GLogProc (n : nat) | GCreateProc (n : nat)
| GInst (n i : nat)                (* the next call of instance i on node n *)
| GCommitProc (n : nat) | GCommitAlloc | GDeleteProc (n : nat).

Definition cond_complete (g : gconf) : bool := forallb marker_made (per_node g).
Definition all_done (g : gconf) : bool := forallb (all_stage is_S6) (per_node g).

(* the condition step handles the nodes one after the other *)
Fixpoint earlier_made (l : list nconf) (n : nat) : bool :=
  match l, n with
  | _, O => true
  | [], _ => true
  | x :: t, S j => marker_made x && earlier_made t j
  end.

Definition gstep (g : gconf) (c : gcall) : option gconf :=
  let nth_nc n := nth_error (per_node g) n in
  let set n f := mkGc (alloc_logged g) (alloc_committed g) (upd n f (per_node g)) in
  match c with
  | GLogAlloc => if alloc_logged g then None else Some (mkGc true (alloc_committed g) (per_node g))
  | GAlloc n =>
      match nth_nc n with
      | Some nc => if alloc_logged g && negb (alloc_done nc) && earlier_made (per_node g) n
                   then Some (set n (fun x => mkNc true (proc_logged x) (marker_made x) (stages x) (proc_committed x) (marker_deleted x)))
                   else None
      | None => None
      end
  | GLogProc n =>
      match nth_nc n with
      | Some nc => if alloc_done nc && negb (proc_logged nc)
                   then Some (set n (fun x => mkNc (alloc_done x) true (marker_made x) (stages x) (proc_committed x) (marker_deleted x)))
                   else None
      | None => None
      end
  | GCreateProc n =>
      match nth_nc n with
      | Some nc => if proc_logged nc && negb (marker_made nc)
                   then Some (set n (fun x => mkNc (alloc_done x) (proc_logged x) true (stages x) (proc_committed x) (marker_deleted x)))
                   else None
      | None => None
      end
  | GInst n i =>
      match nth_nc n with
      | Some nc =>
          match nth_error (stages nc) i with
          | Some s => match next_stage s with
                      | Some s' => if cond_complete g
                                   then Some (set n (fun x => mkNc (alloc_done x) (proc_logged x) (marker_made x)
                                                                 (upd i (fun _ => s') (stages x)) (proc_committed x) (marker_deleted x)))
                                   else None
                      | None => None
                      end
          | None => None
          end
      | None => None
      end
  | GCommitProc n =>
      match nth_nc n with
      | Some nc => if cond_complete g && all_done g && forallb marker_deleted (per_node g) && negb (proc_committed nc)
                   then Some (set n (fun x => mkNc (alloc_done x) (proc_logged x) (marker_made x) (stages x) true (marker_deleted x)))
                   else None
      | None => None
      end
  | GCommitAlloc =>
      if alloc_logged g && negb (alloc_committed g) && cond_complete g && all_done g && forallb proc_committed (per_node g)
      then Some (mkGc (alloc_logged g) true (per_node g)) else None
  | GDeleteProc n =>
      match nth_nc n with
      | Some nc => if cond_complete g && all_done g && negb (marker_deleted nc)
                   then Some (set n (fun x => mkNc (alloc_done x) (proc_logged x) (marker_made x) (stages x) (proc_committed x) true))
                   else None
      | None => None
      end
  end.

Fixpoint grun (g : gconf) (cs : list gcall) : option gconf :=
  match cs with
  | [] => Some g
  | c :: t => match gstep g c with Some g' => grun g' t | None => None end
  end.

(* ---------- cases of the correspondence check ---------- *)
(* per node: usage and recorded sum before the deployment, the crash
   configuration read off the implementation's call log, and what the
   implementation looked like before and after DisasterRecover *)
Record obs_inst := mkOi { o_recorded : bool; o_cont : option bool }.
Record obs_node := mkOn { o_usage : Z; o_sum : Z; o_marker : option Z; o_insts : list obs_inst }.

Record case := mkCase {
  c_conf : gconf;
  c_before : list (Z * Z);              (* per node: (u0, r0) *)
  c_crashed : list obs_node;            (* implementation right after the crash *)
  c_recovered : list obs_node           (* implementation after recovery *)
}.

Definition crash_world (c : case) : list nstate :=
  map (fun p => crash_node (fst (fst p)) (snd (fst p)) (snd p)) (combine (c_before c) (per_node (c_conf c))).
Definition recovered_world (c : case) : list nstate :=
  map (recover_node (wal_alloc_open (c_conf c))) (crash_world c).

Definition opt_z_eqb (a b : option Z) : bool :=
  match a, b with None, None => true | Some x, Some y => Z.eqb x y | _, _ => false end.
Definition opt_b_eqb (a b : option bool) : bool :=
  match a, b with None, None => true | Some x, Some y => Bool.eqb x y | _, _ => false end.
Definition inst_agree (m : istate) (o : obs_inst) : bool :=
  Bool.eqb (i_recorded m) (o_recorded o) && opt_b_eqb (i_cont m) (o_cont o).
Definition node_agree (m : nstate) (o : obs_node) : bool :=
  Z.eqb (usage m) (o_usage o) && Z.eqb (recorded_sum m) (o_sum o) && opt_z_eqb (marker m) (o_marker o)
  && all2 inst_agree (insts m) (o_insts o).

Definition agree (c : case) : bool :=
  valid (c_conf c)
  && Nat.eqb (List.length (c_before c)) (List.length (per_node (c_conf c)))
  && all2 node_agree (crash_world c) (c_crashed c)
  && all2 node_agree (recovered_world c) (c_recovered c).

(* the property on what the implementation looked like after recovery *)
Definition obs_inst_ok (b a : obs_inst) (logged : bool) : bool :=
  (o_recorded a && match o_cont a with Some true => true | _ => false end)
  || (negb (o_recorded a) && match o_cont a with None => true | _ => false end)
  || (negb (o_recorded b) && negb logged && match o_cont b with Some false => true | _ => false end && negb (o_recorded a)).

Definition ok (c : case) : bool :=
  all2 (fun (p : obs_node * obs_node) (nc : nconf) =>
          let '(b, a) := p in
          Z.eqb (o_usage a) (o_sum a)
          && match o_marker a with None => true | Some _ => false end
          && all2 (fun (q : obs_inst * obs_inst) (s : stage) => obs_inst_ok (fst q) (snd q) (stage_ge s 2))
                  (combine (o_insts b) (o_insts a)) (stages nc))
       (combine (c_crashed c) (c_recovered c)) (per_node (c_conf c)).
