(* Proofs for C13: in every reachable state of a deployment (= after every
   prefix of an accepted call sequence, for every interleaving of the instance
   goroutines, every placement of injected failures, both backends) each node's
   status count lies between the recorded workloads and prior + planned; after
   the deployment returned the count is the recorded number (plus what other
   deployments' markers contributed) and no marker of the deployment remains. *)
From Coq Require Import List Bool String ZArith Lia Permutation.
From Verif Require Import Calcium.DeployStatus.
Import ListNotations.
Local Open Scope Z_scope.

(* ---------- basic facts ---------- *)
Lemma pair_eqb_spec : forall a b, pair_eqb a b = true <-> a = b.
Proof.
  intros [a1 a2] [b1 b2]. unfold pair_eqb. simpl. rewrite andb_true_iff, !String.eqb_eq.
  split; [intros [H1 H2]; subst; reflexivity | intros H; inversion H; auto].
Qed.
Lemma pair_eqb_refl : forall a, pair_eqb a a = true.
Proof. intros. apply pair_eqb_spec. reflexivity. Qed.
Lemma pair_eqb_neq : forall a b, a <> b -> pair_eqb a b = false.
Proof. intros a b H. destruct (pair_eqb a b) eqn:E; [apply pair_eqb_spec in E; contradiction | reflexivity]. Qed.

Lemma forallb_filter_id : forall {A} (f : A -> bool) l, forallb f l = true -> filter f l = l.
Proof.
  intros A f l. induction l as [|x t IH]; simpl; intros H; [reflexivity|].
  apply andb_true_iff in H. destruct H as [H1 H2]. rewrite H1. f_equal. apply IH. exact H2.
Qed.

Lemma NoDup_app_remove_r : forall {A} (l1 l2 : list A), NoDup (l1 ++ l2) -> NoDup l1.
Proof.
  intros A l1. induction l1 as [|x t IH]; intros l2 H; [constructor|].
  simpl in H. inversion H as [|? ? Hn Hd]; subst. constructor.
  - intro Hx. apply Hn. apply in_or_app. left. exact Hx.
  - eapply IH. exact Hd.
Qed.
Lemma NoDup_app_remove_l : forall {A} (l1 l2 : list A), NoDup (l1 ++ l2) -> NoDup l2.
Proof.
  intros A l1. induction l1 as [|x t IH]; intros l2 H; [exact H|].
  simpl in H. inversion H as [|? ? Hn Hd]; subst. apply IH. exact Hd.
Qed.
Lemma NoDup_app_disjoint : forall {A} (l1 l2 : list A), NoDup (l1 ++ l2) -> forall x, In x l1 -> In x l2 -> False.
Proof.
  intros A l1. induction l1 as [|y t IH]; intros l2 H x H1 H2; [destruct H1|].
  simpl in H. inversion H as [|? ? Hn Hd]; subst. destruct H1 as [H1|H1].
  - subst. apply Hn. apply in_or_app. right. exact H2.
  - eapply IH; eauto.
Qed.

Definition no_ident (ident : string) (ms : list (mkey * Z)) : Prop :=
  forall p, In p ms -> snd (fst p) <> ident.

Lemma has_marker_of_false : forall st ident, has_marker_of st ident = false -> no_ident ident (markers st).
Proof.
  intros st ident H p Hp E. unfold has_marker_of in H.
  assert (X : existsb (fun p => String.eqb (snd (fst p)) ident) (markers st) = true).
  { apply existsb_exists. exists p. split; [exact Hp | apply String.eqb_eq; exact E]. }
  congruence.
Qed.

Lemma get_marker_app_skip : forall ident n l1 l2, no_ident ident l1 ->
  get_marker (n, ident) (l1 ++ l2) = get_marker (n, ident) l2.
Proof.
  induction l1 as [|[k v] t IH]; intros l2 H; simpl; [reflexivity|].
  rewrite pair_eqb_neq.
  - apply IH. intros p Hp. apply H. right. exact Hp.
  - intro E. apply (H (k, v)); [left; reflexivity|]. simpl. rewrite <- E. reflexivity.
Qed.

Lemma set_marker_app_skip : forall ident n v l1 l2, no_ident ident l1 ->
  set_marker (n, ident) v (l1 ++ l2) = l1 ++ set_marker (n, ident) v l2.
Proof.
  induction l1 as [|[k w] t IH]; intros l2 H; simpl; [reflexivity|].
  rewrite pair_eqb_neq.
  - f_equal. apply IH. intros p Hp. apply H. right. exact Hp.
  - intro E. apply (H (k, w)); [left; reflexivity|]. simpl. rewrite <- E. reflexivity.
Qed.

Lemma del_marker_skip : forall ident n l, no_ident ident l -> del_marker (n, ident) l = l.
Proof.
  induction l as [|[k w] t IH]; intros H; simpl; [reflexivity|].
  unfold del_marker in *. simpl. rewrite pair_eqb_neq.
  - simpl. f_equal. apply IH. intros p Hp. apply H. right. exact Hp.
  - intro E. apply (H (k, w)); [left; reflexivity|]. simpl. rewrite <- E. reflexivity.
Qed.

Lemma marker_sum_app : forall l1 l2 n, marker_sum (l1 ++ l2) n = marker_sum l1 n + marker_sum l2 n.
Proof. induction l1 as [|[[n' i] v] t IH]; intros; simpl; [reflexivity | rewrite IH; lia]. Qed.

(* markers of this deployment: one per live node *)
Definition own (ident : string) (f : string -> Z) (lv : list string) : list (mkey * Z) :=
  map (fun n => ((n, ident), f n)) lv.

Lemma get_marker_own : forall ident f lv n,
  get_marker (n, ident) (own ident f lv) = if mem_str n lv then Some (f n) else None.
Proof.
  induction lv as [|m t IH]; intros n; simpl; [reflexivity|].
  unfold pair_eqb. simpl. rewrite String.eqb_refl, andb_true_r.
  destruct (String.eqb n m) eqn:E; simpl.
  - apply String.eqb_eq in E. subst. reflexivity.
  - apply IH.
Qed.

Lemma mem_str_In : forall x l, mem_str x l = true <-> In x l.
Proof.
  intros. unfold mem_str. rewrite existsb_exists. split.
  - intros [y [Hy E]]. apply String.eqb_eq in E. subst. exact Hy.
  - intros H. exists x. split; [exact H | apply String.eqb_refl].
Qed.
Lemma mem_str_false : forall x l, mem_str x l = false <-> ~ In x l.
Proof.
  intros. rewrite <- mem_str_In. destruct (mem_str x l); split; intro H.
  - discriminate.
  - exfalso. apply H. reflexivity.
  - intro H'. discriminate.
  - reflexivity.
Qed.

Lemma set_marker_own : forall ident f lv n v, In n lv ->
  set_marker (n, ident) v (own ident f lv)
  = own ident (fun m => if String.eqb m n then v else f m) lv \/ ~ NoDup lv.
Proof.
  induction lv as [|m t IH]; intros n v Hin; [destruct Hin|].
  destruct (in_dec string_dec m t) as [Hd|Hd].
  { right. intro H. inversion H. contradiction. }
  simpl. unfold pair_eqb. simpl. rewrite String.eqb_refl, andb_true_r.
  destruct (String.eqb n m) eqn:E.
  - apply String.eqb_eq in E. subst m. left. rewrite String.eqb_refl. f_equal.
    unfold own. apply map_ext_in. intros a Ha.
    destruct (String.eqb a n) eqn:E2; [apply String.eqb_eq in E2; subst; contradiction | reflexivity].
  - destruct Hin as [Hin|Hin]; [subst; rewrite String.eqb_refl in E; discriminate|].
    destruct (IH n v Hin) as [H|H].
    + left. rewrite H. rewrite String.eqb_sym, E. reflexivity.
    + right. intro N. inversion N. contradiction.
Qed.

Lemma del_marker_own : forall ident f lv n,
  del_marker (n, ident) (own ident f lv) = own ident f (filter (fun m => negb (String.eqb n m)) lv).
Proof.
  induction lv as [|m t IH]; intros n; simpl; [reflexivity|].
  unfold del_marker in *. simpl. unfold pair_eqb at 1. simpl. rewrite String.eqb_refl, andb_true_r.
  destruct (String.eqb n m); simpl; [apply IH | f_equal; apply IH].
Qed.

Lemma remove_str_filter : forall n l, NoDup l ->
  remove_str n l = filter (fun m => negb (String.eqb n m)) l.
Proof.
  induction l as [|m t IH]; intros H; simpl; [reflexivity|]. inversion H; subst.
  rewrite (String.eqb_sym m n). destruct (String.eqb n m) eqn:E; simpl.
  - apply String.eqb_eq in E. subst. symmetry. apply forallb_filter_id.
    apply forallb_forall. intros x Hx. destruct (String.eqb m x) eqn:E2; [|reflexivity].
    apply String.eqb_eq in E2. subst. contradiction.
  - f_equal. apply IH. assumption.
Qed.

Lemma remove_str_incl : forall n l x, In x (remove_str n l) -> In x l.
Proof.
  induction l as [|m t IH]; simpl; intros x H; [exact H|].
  destruct (String.eqb m n); [right; exact H|]. destruct H as [H|H]; [left; exact H | right; apply IH; exact H].
Qed.

Lemma remove_str_NoDup : forall n l, NoDup l -> NoDup (remove_str n l).
Proof.
  induction l as [|m t IH]; intros H; simpl; [constructor|]. inversion H; subst.
  destruct (String.eqb m n); [assumption|]. constructor; [|apply IH; assumption].
  intro Hx. apply remove_str_incl in Hx. contradiction.
Qed.

Lemma remove_str_not_in : forall n l, NoDup l -> ~ In n (remove_str n l).
Proof.
  induction l as [|m t IH]; intros H; simpl; [tauto|]. inversion H; subst.
  destruct (String.eqb m n) eqn:E.
  - apply String.eqb_eq in E. subst. assumption.
  - intros [Hx|Hx]; [subst; rewrite String.eqb_refl in E; discriminate | apply IH in Hx; assumption].
Qed.

Lemma remove_str_other : forall n l x, x <> n -> In x l -> In x (remove_str n l).
Proof.
  induction l as [|m t IH]; intros x Hne H; simpl; [exact H|].
  destruct (String.eqb m n) eqn:E.
  - apply String.eqb_eq in E. subst. destruct H as [H|H]; [congruence | exact H].
  - destruct H as [H|H]; [left; exact H | right; apply IH; assumption].
Qed.

Lemma marker_sum_own : forall ident f lv n, NoDup lv ->
  marker_sum (own ident f lv) n = if mem_str n lv then f n else 0.
Proof.
  induction lv as [|m t IH]; intros n H; simpl; [reflexivity|]. inversion H; subst.
  rewrite IH by assumption. rewrite (String.eqb_sym n m).
  destruct (String.eqb m n) eqn:E; simpl.
  - apply String.eqb_eq in E. subst.
    replace (mem_str n t) with false; [lia|]. symmetry. apply mem_str_false. assumption.
  - lia.
Qed.

(* ---------- instance bookkeeping ---------- *)
Definition live (p : dkey * istate) : bool := match snd p with IAdded => true | _ => false end.
Definition was_added (p : dkey * istate) : bool :=
  match snd p with IAdded | IRemoved => true | _ => false end.
Definition live_keys (insts : list (dkey * istate)) : list dkey := map fst (filter live insts).
Definition cnt {A} (f : A -> bool) (l : list A) : Z := Z.of_nat (List.length (filter f l)).
Definition on_node {A} (n : string) (p : dkey * A) : bool := String.eqb (fst (fst p)) n.
Definition adds_ok (insts : list (dkey * istate)) (n : string) : Z :=
  cnt (fun p => was_added p && on_node n p) insts.
Definition live_on (insts : list (dkey * istate)) (n : string) : Z :=
  cnt (fun p => live p && on_node n p) insts.
Definition inst_id (p : dkey * istate) : string := snd (fst p).

Lemma cnt_cons : forall {A} (f : A -> bool) x l, cnt f (x :: l) = (if f x then 1 else 0) + cnt f l.
Proof.
  intros. unfold cnt. cbn [filter]. destruct (f x); [cbn [List.length]; rewrite Nat2Z.inj_succ|]; lia.
Qed.
Lemma cnt_nonneg : forall {A} (f : A -> bool) l, 0 <= cnt f l.
Proof. intros. unfold cnt. lia. Qed.
Lemma cnt_le : forall {A} (f g : A -> bool) l, (forall x, f x = true -> g x = true) -> cnt f l <= cnt g l.
Proof.
  intros A f g l H. induction l as [|x t IH]; [unfold cnt; cbn; lia|].
  rewrite !cnt_cons. destruct (f x) eqn:E; [rewrite (H x E); lia | destruct (g x); lia].
Qed.

Lemma insts_on_cnt : forall insts n, insts_on insts n = cnt (on_node n) insts.
Proof. reflexivity. Qed.

Lemma recorded_app : forall l1 l2 ms n,
  recorded (mkD (l1 ++ l2) ms) n = recorded (mkD l1 ms) n + recorded (mkD l2 ms) n.
Proof. intros. unfold recorded. cbn [deployed]. rewrite filter_app, app_length, Nat2Z.inj_add. reflexivity. Qed.

Lemma recorded_live_keys : forall insts ms n,
  recorded (mkD (live_keys insts) ms) n = live_on insts n.
Proof.
  intros. unfold recorded, live_on, live_keys, cnt. simpl. f_equal.
  induction insts as [|p t IH]; simpl; [reflexivity|].
  unfold on_node at 1. destruct (live p) eqn:L; simpl.
  - destruct (String.eqb (fst (fst p)) n); simpl; rewrite IH; reflexivity.
  - exact IH.
Qed.

(* set_inst on a list with unique ids *)
Lemma inst_state_In : forall k s insts, inst_state k insts = Some s -> In (k, s) insts.
Proof.
  induction insts as [|[k' s'] t IH]; simpl; intros H; [discriminate|].
  destruct (pair_eqb k k') eqn:E.
  - apply pair_eqb_spec in E. inversion H. subst. left. reflexivity.
  - right. apply IH. exact H.
Qed.

Lemma set_inst_ids : forall k s insts, map inst_id (set_inst k s insts) = map inst_id insts.
Proof.
  induction insts as [|[k' s'] t IH]; simpl; [reflexivity|].
  destruct (pair_eqb k k'); simpl; [reflexivity | rewrite IH; reflexivity].
Qed.

Lemma set_inst_In : forall k s insts p, In p (set_inst k s insts) -> exists s', In (fst p, s') insts.
Proof.
  induction insts as [|[k' s'] t IH]; simpl; intros p H; [destruct H|].
  destruct (pair_eqb k k').
  - destruct H as [H|H]; [subst; exists s'; left; reflexivity | exists (snd p); right; destruct p; exact H].
  - destruct H as [H|H]; [subst; exists s'; left; reflexivity|].
    destruct (IH _ H) as [s'' Hs]. exists s''. right. exact Hs.
Qed.

(* counting through set_inst: only the instance with key k changes *)
Lemma cnt_set_inst : forall (f : dkey * istate -> bool) k s s0 insts,
  NoDup (map inst_id insts) -> inst_state k insts = Some s0 ->
  cnt f (set_inst k s insts) = cnt f insts - (if f (k, s0) then 1 else 0) + (if f (k, s) then 1 else 0).
Proof.
  intros f k s s0 insts. induction insts as [|[k' s'] t IH]; simpl; intros ND H; [discriminate|].
  inversion ND as [|? ? Hn Hd]; subst.
  destruct (pair_eqb k k') eqn:E.
  - apply pair_eqb_spec in E. subst k'. inversion H; subst. rewrite !cnt_cons. lia.
  - rewrite !cnt_cons. rewrite IH by assumption. lia.
Qed.

Lemma filter_live_set_inst_gone : forall k s insts,
  NoDup (map inst_id insts) -> live (k, s) = false ->
  live_keys (set_inst k s insts) = filter (fun x => negb (pair_eqb k x)) (live_keys insts).
Proof.
  intros k s insts. induction insts as [|[k' s'] t IH]; simpl; intros ND L; [reflexivity|].
  inversion ND as [|? ? Hn Hd]; subst.
  destruct (pair_eqb k k') eqn:E.
  - apply pair_eqb_spec in E. subst k'. unfold live_keys. simpl.
    assert (T : filter (fun x => negb (pair_eqb k x)) (map fst (filter live t)) = map fst (filter live t)).
    { apply forallb_filter_id. apply forallb_forall. intros x Hx.
      destruct (pair_eqb k x) eqn:E2; [|reflexivity]. apply pair_eqb_spec in E2. subst x. exfalso.
      apply Hn. apply in_map_iff in Hx. destruct Hx as [p [Ep Hp]]. apply filter_In in Hp.
      apply in_map_iff. exists p. split; [unfold inst_id; rewrite Ep; reflexivity | tauto]. }
    change (live (k, s)) with (match s with IAdded => true | _ => false end) in L.
    unfold live at 1. simpl. destruct s; try discriminate;
    (unfold live at 1; simpl; destruct s'; simpl; rewrite ?pair_eqb_refl; simpl; rewrite T; reflexivity).
  - unfold live_keys in *. simpl. destruct (live (k', s')) eqn:L'; simpl.
    + rewrite E. simpl. f_equal. apply IH; assumption.
    + apply IH; assumption.
Qed.

Lemma not_live_not_in_keys : forall k s0 insts,
  NoDup (map inst_id insts) -> inst_state k insts = Some s0 -> live (k, s0) = false ->
  ~ In k (live_keys insts).
Proof.
  intros k s0 insts. induction insts as [|[k' s'] t IH]; simpl; intros ND H L; [discriminate|].
  inversion ND as [|? ? Hn Hd]; subst. unfold live_keys. simpl.
  destruct (pair_eqb k k') eqn:E.
  - apply pair_eqb_spec in E. subst k'. inversion H; subst s'. rewrite L.
    intro Hx. apply Hn. apply in_map_iff in Hx. destruct Hx as [p [Ep Hp]]. apply filter_In in Hp.
    apply in_map_iff. exists p. split; [unfold inst_id; rewrite Ep; reflexivity | tauto].
  - destruct (live (k', s')); simpl.
    + intros [Hx|Hx]; [subst; rewrite pair_eqb_refl in E; discriminate | exact (IH Hd H L Hx)].
    + exact (IH Hd H L).
Qed.

Lemma filter_id_not_in : forall k (l : list dkey), ~ In k l -> filter (fun x => negb (pair_eqb k x)) l = l.
Proof.
  intros k l H. apply forallb_filter_id. apply forallb_forall. intros x Hx.
  destruct (pair_eqb k x) eqn:E; [|reflexivity]. apply pair_eqb_spec in E. subst. contradiction.
Qed.

Lemma del_key_app : forall k l1 l2, del_key k (l1 ++ l2) = del_key k l1 ++ del_key k l2.
Proof. intros. unfold del_key. apply filter_app. Qed.
Lemma del_key_not_in : forall k l, ~ In k l -> del_key k l = l.
Proof. intros. unfold del_key. apply filter_id_not_in. assumption. Qed.
Lemma live_keys_set_inst_gone : forall k s insts,
  NoDup (map inst_id insts) -> live (k, s) = false ->
  live_keys (set_inst k s insts) = del_key k (live_keys insts).
Proof. intros. unfold del_key. apply filter_live_set_inst_gone; assumption. Qed.

Lemma set_marker_absent_own : forall ident f lv n v, ~ In n lv ->
  set_marker (n, ident) v (own ident f lv) = own ident f lv ++ [((n, ident), v)].
Proof.
  induction lv as [|m t IH]; intros n v H; simpl; [reflexivity|].
  unfold pair_eqb. simpl. rewrite String.eqb_refl, andb_true_r.
  destruct (String.eqb n m) eqn:E.
  - apply String.eqb_eq in E. subst. exfalso. apply H. left. reflexivity.
  - f_equal. apply IH. intro Hx. apply H. right. exact Hx.
Qed.

Lemma own_app : forall ident f l1 l2, own ident f (l1 ++ l2) = own ident f l1 ++ own ident f l2.
Proof. intros. unfold own. apply map_app. Qed.

Lemma no_ident_del : forall ident n l1 l2, no_ident ident l1 ->
  del_marker (n, ident) (l1 ++ l2) = l1 ++ del_marker (n, ident) l2.
Proof.
  intros. unfold del_marker. rewrite filter_app. f_equal.
  change (del_marker (n, ident) l1 = l1). apply del_marker_skip. assumption.
Qed.

(* ---------- the invariant ---------- *)
Section Inv.
  Variable b : backend.
  Variable ident : string.
  Variable plan : list (string * Z).
  Variable st0 : dstate.
  Hypothesis plan_nodup : NoDup (map fst plan).
  Hypothesis plan_nonneg : forall n k, In (n, k) plan -> 0 <= k.
  Hypothesis ident_fresh : has_marker_of st0 ident = false.

  Definition own_markers (a : acc) : list (mkey * Z) :=
    own ident (fun n => planned plan n - adds_ok (a_insts a) n) (a_live a).

  Definition in_plan (n : string) : Prop := plan_count plan n <> None.

  Record Inv (a : acc) (st : dstate) : Prop := {
    inv_dep : deployed st = live_keys (a_insts a) ++ deployed st0;
    inv_mark : markers st = markers st0 ++ own_markers a;
    inv_ids : NoDup (map inst_id (a_insts a));
    inv_fresh : forall p, In p (a_insts a) ->
                existsb (fun k => String.eqb (snd k) (inst_id p)) (deployed st0) = false;
    inv_cap : forall n, insts_on (a_insts a) n <= planned plan n;
    inv_live_nd : NoDup (a_live a ++ match a_phase a with PCond => map fst (a_todo a) | _ => [] end);
    inv_cover : match a_phase a with
                | PCond => a_insts a = [] /\
                           (forall n, in_plan n -> In n (a_live a) \/ plan_count (a_todo a) n <> None) /\
                           (forall n k, plan_count (a_todo a) n = Some k -> plan_count plan n = Some k) /\
                           (forall n, in_plan n -> In n (a_clean a))
                | PDeploy => forall n, in_plan n -> In n (a_live a)
                | PClean => True
                end;
    inv_live_clean : forall n, In n (a_live a) -> In n (a_clean a)
  }.

  Lemma plan_count_In : forall (pl : list (string * Z)) n k, plan_count pl n = Some k -> In n (map fst pl).
  Proof.
    induction pl as [|[m j] t IH]; simpl; intros n k H; [discriminate|].
    destruct (String.eqb m n) eqn:E; [left; apply String.eqb_eq; exact E | right; eapply IH; exact H].
  Qed.

  Lemma plan_count_In_pair : forall (pl : list (string * Z)) n k, plan_count pl n = Some k -> In (n, k) pl.
  Proof.
    induction pl as [|[m j] t IH]; simpl; intros n k H; [discriminate|].
    destruct (String.eqb m n) eqn:E.
    - apply String.eqb_eq in E. inversion H. subst. left. reflexivity.
    - right. apply IH. exact H.
  Qed.

  Lemma planned_nonneg : forall n, 0 <= planned plan n.
  Proof.
    intros n. unfold planned. destruct (plan_count plan n) eqn:E; [|lia].
    eapply plan_nonneg. eapply plan_count_In_pair. exact E.
  Qed.

  Lemma plan_count_remove_other : forall (pl : list (string * Z)) n m, m <> n ->
    plan_count (remove_plan n pl) m = plan_count pl m.
  Proof.
    induction pl as [|[x j] t IH]; simpl; intros n m Hne; [reflexivity|].
    destruct (String.eqb x n) eqn:E; simpl.
    - apply String.eqb_eq in E. subst x.
      destruct (String.eqb n m) eqn:E2; [apply String.eqb_eq in E2; congruence | reflexivity].
    - destruct (String.eqb x m); [reflexivity | apply IH; exact Hne].
  Qed.

  Lemma remove_plan_perm : forall (pl : list (string * Z)) n k, plan_count pl n = Some k ->
    Permutation (map fst pl) (n :: map fst (remove_plan n pl)).
  Proof.
    induction pl as [|[m j] t IH]; simpl; intros n k H; [discriminate|].
    destruct (String.eqb m n) eqn:E.
    - apply String.eqb_eq in E. subst. apply Permutation_refl.
    - simpl. eapply perm_trans; [apply perm_skip; eapply IH; exact H|].
      apply perm_swap.
  Qed.

  Lemma plan_count_remove_self : forall (pl : list (string * Z)) n, NoDup (map fst pl) ->
    plan_count (remove_plan n pl) n = None.
  Proof.
    induction pl as [|[m j] t IH]; simpl; intros n H; [reflexivity|]. inversion H; subst.
    destruct (String.eqb m n) eqn:E.
    - apply String.eqb_eq in E. subst.
      destruct (plan_count t n) eqn:E2; [|reflexivity]. exfalso. apply plan_count_In in E2. contradiction.
    - simpl. rewrite E. apply IH. assumption.
  Qed.

  Lemma inv_start : Inv (start_acc plan) st0.
  Proof.
    constructor; simpl.
    - reflexivity.
    - unfold own_markers, own. simpl. rewrite app_nil_r. reflexivity.
    - constructor.
    - intros p [].
    - intros n. unfold insts_on. simpl. apply planned_nonneg.
    - exact plan_nodup.
    - repeat split.
      + intros n H. right. exact H.
      + intros n k H. exact H.
      + intros n H. unfold in_plan in H. destruct (plan_count plan n) eqn:E; [|congruence].
        eapply plan_count_In. exact E.
    - intros n [].
  Qed.

  Lemma no_ident0 : no_ident ident (markers st0).
  Proof. apply has_marker_of_false. exact ident_fresh. Qed.

  Lemma live_nodup : forall a st, Inv a st -> NoDup (a_live a).
  Proof.
    intros a st I. pose proof (inv_live_nd _ _ I) as H.
    apply NoDup_app_remove_r in H. exact H.
  Qed.

  Lemma marker_lookup : forall a st n, Inv a st ->
    get_marker (n, ident) (markers st)
    = if mem_str n (a_live a) then Some (planned plan n - adds_ok (a_insts a) n) else None.
  Proof.
    intros a st n I. rewrite (inv_mark _ _ I). rewrite get_marker_app_skip by apply no_ident0.
    unfold own_markers. apply get_marker_own.
  Qed.

  Lemma id_used_false : forall id insts d0, id_used id insts d0 = false ->
    ~ In id (map inst_id insts) /\ existsb (fun k => String.eqb (snd k) id) d0 = false.
  Proof.
    intros id insts d0 H. unfold id_used in H. apply orb_false_iff in H. destruct H as [H1 H2].
    split; [|exact H2]. intro Hin. apply in_map_iff in Hin. destruct Hin as [p [E Hp]].
    assert (X : existsb (fun p => String.eqb (snd (fst p)) id) insts = true).
    { apply existsb_exists. exists p. split; [exact Hp | apply String.eqb_eq; exact E]. }
    congruence.
  Qed.

  Lemma fresh_not_in_d0 : forall n id (d0 : list dkey),
    existsb (fun k => String.eqb (snd k) id) d0 = false -> ~ In (n, id) d0.
  Proof.
    intros n id d0 H Hin.
    assert (X : existsb (fun k => String.eqb (snd k) id) d0 = true).
    { apply existsb_exists. exists (n, id). split; [exact Hin | apply String.eqb_refl]. }
    congruence.
  Qed.

  Lemma has_key_false : forall k (l : list dkey), ~ In k l -> has_key k l = false.
  Proof.
    intros k l H. unfold has_key. destruct (existsb (pair_eqb k) l) eqn:E; [|reflexivity].
    apply existsb_exists in E. destruct E as [x [Hx E]]. apply pair_eqb_spec in E. subst. contradiction.
  Qed.

  Lemma live_keys_ids : forall insts k, In k (live_keys insts) -> In (snd k) (map inst_id insts).
  Proof.
    intros insts k H. unfold live_keys in H. apply in_map_iff in H. destruct H as [p [E Hp]].
    apply filter_In in Hp. apply in_map_iff. exists p. split; [unfold inst_id; rewrite E; reflexivity | tauto].
  Qed.

  Lemma adds_ok_cons : forall p insts n,
    adds_ok (p :: insts) n = (if was_added p && on_node n p then 1 else 0) + adds_ok insts n.
  Proof. intros. unfold adds_ok. rewrite cnt_cons. reflexivity. Qed.

  Lemma own_ext : forall f g lv, (forall n, In n lv -> f n = g n) -> own ident f lv = own ident g lv.
  Proof. intros f g lv H. unfold own. apply map_ext_in. intros n Hn. rewrite (H n Hn). reflexivity. Qed.

  Lemma cover_all_live : forall a st, Inv a st ->
    (a_phase a = PDeploy \/ (a_phase a = PCond /\ a_todo a = [])) ->
    forall n, in_plan n -> In n (a_live a).
  Proof.
    intros a st I Hp n Hn. pose proof (inv_cover _ _ I) as C.
    destruct Hp as [Hp|[Hp Ht]]; rewrite Hp in C.
    - apply C. exact Hn.
    - destruct C as [_ [C _]]. destruct (C n Hn) as [H|H]; [exact H|]. rewrite Ht in H. simpl in H. congruence.
  Qed.

  Theorem inv_step : forall a st c a' st', Inv a st -> step b ident plan (deployed st0) (a, st) c = Some (a', st') -> Inv a' st'.
  Proof.
    intros a st c a' st' I H. pose proof (live_nodup _ _ I) as LND.
    destruct c as [n k inj | n id inj | n id inj | n inj]; simpl in H.
    - (* CreateProcessing *)
      destruct (a_phase a) eqn:Ph; try discriminate.
      destruct (plan_count (a_todo a) n) as [k'|] eqn:Et; try discriminate.
      destruct (Z.eqb k k') eqn:Ek; try discriminate. apply Z.eqb_eq in Ek. subst k'.
      pose proof (inv_cover _ _ I) as C. rewrite Ph in C. destruct C as [Ci [Cc [Ct Ccl]]].
      pose proof (inv_live_nd _ _ I) as ND. rewrite Ph in ND.
      assert (Hnl : ~ In n (a_live a)).
      { intro Hin. apply plan_count_In in Et.
        apply (NoDup_app_disjoint _ _ ND n); assumption. }
      destruct inj.
      + inversion H; subst a' st'. clear H. constructor; simpl.
        * apply (inv_dep _ _ I).
        * apply (inv_mark _ _ I).
        * apply (inv_ids _ _ I).
        * apply (inv_fresh _ _ I).
        * apply (inv_cap _ _ I).
        * rewrite app_nil_r. exact LND.
        * exact Logic.I.
        * apply (inv_live_clean _ _ I).
      + unfold create_processing in H. rewrite (marker_lookup _ _ n I) in H.
        assert (Em : mem_str n (a_live a) = false) by (apply mem_str_false; exact Hnl).
        rewrite Em in H. inversion H; subst a' st'. clear H.
        assert (Pk : planned plan n = k) by (unfold planned; rewrite (Ct n k Et); reflexivity).
        constructor; simpl.
        * apply I.
        * rewrite (inv_mark _ _ I). rewrite set_marker_app_skip by apply no_ident0. f_equal.
          unfold own_markers. simpl. rewrite set_marker_absent_own by exact Hnl.
          rewrite own_app. f_equal. simpl. rewrite Ci. unfold adds_ok, cnt. simpl. rewrite Pk. f_equal. f_equal. lia.
        * apply I.
        * apply I.
        * apply I.
        * eapply Permutation_NoDup; [|exact ND].
          rewrite <- app_assoc. apply Permutation_app_head. simpl.
          eapply remove_plan_perm. exact Et.
        * repeat split.
          -- exact Ci.
          -- intros m Hm. destruct (string_dec m n) as [E|E].
             ++ subst. left. apply in_or_app. right. left. reflexivity.
             ++ destruct (Cc m Hm) as [Hl|Hl]; [left; apply in_or_app; left; exact Hl|].
                right. rewrite plan_count_remove_other by exact E. exact Hl.
          -- intros m j Hm. destruct (string_dec m n) as [E|E].
             ++ subst. rewrite plan_count_remove_self in Hm; [discriminate|].
                apply NoDup_app_remove_l in ND. exact ND.
             ++ rewrite plan_count_remove_other in Hm by exact E. apply Ct. exact Hm.
          -- exact Ccl.
        * intros m Hm. apply in_app_or in Hm. destruct Hm as [Hm|[Hm|[]]].
          -- apply (inv_live_clean _ _ I). exact Hm.
          -- subst m. apply Ccl. unfold in_plan. rewrite (Ct n k Et). discriminate.
    - (* AddWorkload *)
      match type of H with (if ?c then _ else _) = _ => destruct c eqn:Cond end; [|discriminate].
      apply andb_true_iff in Cond. destruct Cond as [Cond Hcap].
      apply andb_true_iff in Cond. destruct Cond as [Hcan Hid]. apply negb_true_iff in Hid.
      destruct (plan_count plan n) as [kn|] eqn:Ep; [|discriminate]. apply Z.ltb_lt in Hcap.
      destruct (id_used_false _ _ _ Hid) as [Hid1 Hid2].
      assert (Hph : a_phase a = PDeploy \/ (a_phase a = PCond /\ a_todo a = [])).
      { destruct (a_phase a); [|left; reflexivity|discriminate].
        destruct (a_todo a); [right; split; reflexivity | discriminate]. }
      assert (Hlive : In n (a_live a)).
      { eapply cover_all_live; eauto. unfold in_plan. rewrite Ep. discriminate. }
      assert (Pk : planned plan n = kn) by (unfold planned; rewrite Ep; reflexivity).
      assert (NDl : NoDup (a_live a ++ [])).
      { pose proof (inv_live_nd _ _ I) as ND. destruct Hph as [Hp|[Hp Ht]]; rewrite Hp in ND; [exact ND|].
        rewrite Ht in ND. exact ND. }
      assert (Capn : forall m, insts_on (((n, id), IAdded) :: a_insts a) m <= planned plan m
                     /\ insts_on (((n, id), IAddFailed) :: a_insts a) m <= planned plan m).
      { intros m. rewrite !insts_on_cnt, !cnt_cons. unfold on_node. simpl.
        pose proof (inv_cap _ _ I m) as Cm. rewrite insts_on_cnt in Cm. unfold on_node in Cm.
        destruct (String.eqb n m) eqn:E.
        - apply String.eqb_eq in E. subst m. rewrite insts_on_cnt in Hcap. unfold on_node in Hcap. lia.
        - lia. }
      assert (Cov : forall m, in_plan m -> In m (a_live a)) by (eapply cover_all_live; eauto).
      destruct inj.
      + inversion H; subst a' st'. clear H. constructor; simpl.
        * apply (inv_dep _ _ I).
        * rewrite (inv_mark _ _ I). apply f_equal. unfold own_markers. cbn [a_insts a_live]. apply own_ext.
          intros m _. rewrite adds_ok_cons. unfold was_added. cbn [snd andb]. lia.
        * constructor; [exact Hid1 | apply I].
        * intros p [Hp|Hp]; [subst p; exact Hid2 | apply (inv_fresh _ _ I); exact Hp].
        * intros m. apply (Capn m).
        * exact NDl.
        * exact Cov.
        * apply I.
      + assert (Eadd : add_workload b st n id ident
                  = (mkD (add_key (n, id) (deployed st))
                         (set_marker (n, ident) (planned plan n - adds_ok (a_insts a) n - 1) (markers st)), true)).
        { unfold add_workload. rewrite (marker_lookup _ _ n I).
          replace (mem_str n (a_live a)) with true by (symmetry; apply mem_str_In; exact Hlive).
          destruct b; reflexivity. }
        rewrite Eadd in H. inversion H; subst a' st'. clear H. constructor; simpl.
        * rewrite (inv_dep _ _ I). unfold add_key. rewrite has_key_false.
          -- unfold live_keys. simpl. reflexivity.
          -- intro Hin. apply in_app_or in Hin. destruct Hin as [Hin|Hin].
             ++ apply live_keys_ids in Hin. simpl in Hin. contradiction.
             ++ exact (fresh_not_in_d0 _ _ _ Hid2 Hin).
        * rewrite (inv_mark _ _ I). rewrite set_marker_app_skip by apply no_ident0. f_equal.
          unfold own_markers. simpl.
          destruct (set_marker_own ident (fun m => planned plan m - adds_ok (a_insts a) m) (a_live a) n
                      (planned plan n - adds_ok (a_insts a) n - 1) Hlive) as [E|E]; [|contradiction].
          rewrite E. apply own_ext. intros m _. rewrite adds_ok_cons. unfold on_node. simpl.
          rewrite (String.eqb_sym n m). destruct (String.eqb m n) eqn:E2.
          -- apply String.eqb_eq in E2. subst m. lia.
          -- lia.
        * constructor; [exact Hid1 | apply I].
        * intros p [Hp|Hp]; [subst p; exact Hid2 | apply (inv_fresh _ _ I); exact Hp].
        * intros m. apply (Capn m).
        * exact NDl.
        * exact Cov.
        * apply I.
    - (* RemoveWorkload *)
      destruct (a_phase a) eqn:Ph; try discriminate.
      destruct (inst_state (n, id) (a_insts a)) as [s0|] eqn:Es; try discriminate.
      pose proof (inv_ids _ _ I) as NDi.
      pose proof (inst_state_In _ _ _ Es) as Hin0.
      pose proof (inv_fresh _ _ I _ Hin0) as Hf. unfold inst_id in Hf. simpl in Hf.
      assert (Hd0 : del_key (n, id) (deployed st0) = deployed st0).
      { apply del_key_not_in. apply fresh_not_in_d0. exact Hf. }
      assert (Common : forall s1, was_added ((n, id), s1) = was_added ((n, id), s0) ->
                Inv (mkAcc PDeploy (a_todo a) (set_inst (n, id) s1 (a_insts a)) (a_clean a) (a_live a))
                    (mkD (live_keys (set_inst (n, id) s1 (a_insts a)) ++ deployed st0) (markers st))).
      { intros s1 Hw. constructor; simpl.
        - reflexivity.
        - rewrite (inv_mark _ _ I). f_equal. unfold own_markers. simpl. apply own_ext. intros m _.
          unfold adds_ok. rewrite (cnt_set_inst _ _ _ _ _ NDi Es). unfold on_node. simpl.
          unfold was_added in *. simpl in *. rewrite Hw. lia.
        - rewrite set_inst_ids. exact NDi.
        - intros p Hp. apply set_inst_In in Hp. destruct Hp as [s' Hp].
          pose proof (inv_fresh _ _ I _ Hp) as X. unfold inst_id in *. simpl in X. exact X.
        - intros m. rewrite insts_on_cnt. rewrite (cnt_set_inst _ _ _ _ _ NDi Es). unfold on_node. simpl.
          pose proof (inv_cap _ _ I m) as Cm. rewrite insts_on_cnt in Cm. unfold on_node in Cm. lia.
        - pose proof (inv_live_nd _ _ I) as ND. rewrite Ph in ND. exact ND.
        - pose proof (inv_cover _ _ I) as C. rewrite Ph in C. exact C.
        - apply I. }
      destruct s0; try discriminate.
      + (* recorded instance *)
        destruct inj.
        * inversion H; subst a' st'. exact I.
        * inversion H; subst a' st'. clear H.
          assert (X := Common IRemoved eq_refl).
          replace (remove_workload st n id)
            with (mkD (live_keys (set_inst (n, id) IRemoved (a_insts a)) ++ deployed st0) (markers st)); [exact X|].
          unfold remove_workload. f_equal. rewrite (inv_dep _ _ I). rewrite del_key_app, Hd0.
          f_equal. apply live_keys_set_inst_gone; [exact NDi | reflexivity].
      + (* instance whose AddWorkload failed *)
        assert (X := Common IFailedGone eq_refl).
        assert (Hnk : ~ In (n, id) (live_keys (a_insts a))).
        { eapply not_live_not_in_keys; eauto. }
        assert (Elk : live_keys (set_inst (n, id) IFailedGone (a_insts a)) = live_keys (a_insts a)).
        { rewrite live_keys_set_inst_gone by (auto). apply del_key_not_in. exact Hnk. }
        assert (Hst : st' = if inj then st else remove_workload st n id) by (inversion H; reflexivity).
        assert (Ha : a' = mkAcc PDeploy (a_todo a) (set_inst (n, id) IFailedGone (a_insts a)) (a_clean a) (a_live a))
          by (inversion H; reflexivity).
        rewrite Ha, Hst.
        replace (if inj then st else remove_workload st n id)
          with (mkD (live_keys (set_inst (n, id) IFailedGone (a_insts a)) ++ deployed st0) (markers st)); [exact X|].
        rewrite Elk. destruct inj.
        * destruct st as [d m]. simpl. f_equal. symmetry. apply (inv_dep _ _ I).
        * unfold remove_workload. f_equal. rewrite (inv_dep _ _ I).
          rewrite del_key_app, Hd0. f_equal. symmetry. apply del_key_not_in. exact Hnk.
    - (* DeleteProcessing *)
      destruct (mem_str n (a_clean a)) eqn:Ec; [|discriminate].
      destruct inj.
      + inversion H; subst a' st'. clear H. constructor; simpl.
        * apply (inv_dep _ _ I).
        * apply (inv_mark _ _ I).
        * apply (inv_ids _ _ I).
        * apply (inv_fresh _ _ I).
        * apply (inv_cap _ _ I).
        * rewrite app_nil_r. exact LND.
        * exact Logic.I.
        * apply (inv_live_clean _ _ I).
      + inversion H; subst a' st'. clear H. constructor; simpl.
        * apply (inv_dep _ _ I).
        * rewrite (inv_mark _ _ I). rewrite no_ident_del by apply no_ident0. f_equal.
          unfold own_markers. simpl. rewrite del_marker_own. rewrite <- remove_str_filter by exact LND. reflexivity.
        * apply (inv_ids _ _ I).
        * apply (inv_fresh _ _ I).
        * apply (inv_cap _ _ I).
        * rewrite app_nil_r. apply remove_str_NoDup. exact LND.
        * exact Logic.I.
        * intros m Hm. assert (Hne : m <> n).
          { intro E. subst m. exact (remove_str_not_in _ _ LND Hm). }
          apply remove_str_other; [exact Hne|]. apply (inv_live_clean _ _ I). eapply remove_str_incl. exact Hm.
  Qed.

  Theorem inv_run : forall cs a st a' st', Inv a st ->
    run b ident plan (deployed st0) (a, st) cs = Some (a', st') -> Inv a' st'.
  Proof.
    induction cs as [|c t IH]; intros a st a' st' I H; cbn [run] in H.
    - inversion H; subst. exact I.
    - destruct (step b ident plan (deployed st0) (a, st) c) as [[a1 st1]|] eqn:E; [|discriminate].
      eapply IH; [|exact H]. eapply inv_step; eauto.
  Qed.

  (* ---------- what the invariant says about the counts ---------- *)
  Lemma status_formula : forall a st n, Inv a st ->
    recorded st n = live_on (a_insts a) n + recorded st0 n /\
    status st n = recorded st n + marker_sum (markers st0) n
                  + (if mem_str n (a_live a) then planned plan n - adds_ok (a_insts a) n else 0).
  Proof.
    intros a st n I. assert (R : recorded st n = live_on (a_insts a) n + recorded st0 n).
    { destruct st as [d m]. pose proof (inv_dep _ _ I) as D. simpl in D. subst d.
      rewrite (recorded_app _ _ m n). rewrite recorded_live_keys.
      unfold recorded. simpl. reflexivity. }
    split; [exact R|]. unfold status. rewrite (inv_mark _ _ I), marker_sum_app.
    unfold own_markers. rewrite marker_sum_own by (eapply live_nodup; eauto). lia.
  Qed.

  Lemma live_le_adds : forall insts n, live_on insts n <= adds_ok insts n.
  Proof.
    intros. unfold live_on, adds_ok. apply cnt_le. intros [k s] H.
    apply andb_true_iff in H. destruct H as [H1 H2]. rewrite H2.
    unfold live, was_added in *. simpl in *. destruct s; try discriminate; reflexivity.
  Qed.
  Lemma adds_le_insts : forall insts n, adds_ok insts n <= insts_on insts n.
  Proof.
    intros. rewrite insts_on_cnt. unfold adds_ok. apply cnt_le. intros p H.
    apply andb_true_iff in H. tauto.
  Qed.

  Theorem bounds_of_inv : forall a st n, Inv a st -> 0 <= marker_sum (markers st0) n ->
    recorded st n <= status st n <= status st0 n + planned plan n.
  Proof.
    intros a st n I Hnn. destruct (status_formula _ _ n I) as [R S].
    pose proof (live_le_adds (a_insts a) n). pose proof (adds_le_insts (a_insts a) n).
    pose proof (inv_cap _ _ I n). pose proof (cnt_nonneg (fun p => live p && on_node n p) (a_insts a)).
    assert (S0 : status st0 n = recorded st0 n + marker_sum (markers st0) n) by reflexivity.
    unfold live_on in *. rewrite S, S0. destruct (mem_str n (a_live a)); lia.
  Qed.

  Theorem final_of_inv : forall a st, Inv a st -> returned a = true ->
    has_marker_of st ident = false /\ forall n, status st n - recorded st n = status st0 n - recorded st0 n.
  Proof.
    intros a st I Hr. unfold returned in Hr. destruct (a_clean a) eqn:Ec; [|discriminate].
    assert (Hl : a_live a = []).
    { destruct (a_live a) as [|x t] eqn:El; [reflexivity|]. exfalso.
      pose proof (inv_live_clean _ _ I x) as X. rewrite El, Ec in X. apply X. left. reflexivity. }
    assert (Hm : markers st = markers st0).
    { rewrite (inv_mark _ _ I). unfold own_markers. rewrite Hl. simpl. apply app_nil_r. }
    split.
    - unfold has_marker_of. rewrite Hm. exact ident_fresh.
    - intros n. unfold status. rewrite Hm. lia.
  Qed.
End Inv.

(* ---------- the theorems of C13 ---------- *)
Definition wf_plan (plan : list (string * Z)) : Prop :=
  NoDup (map fst plan) /\ forall n k, In (n, k) plan -> 0 <= k.

Theorem C13_bounds_thm : forall b ident plan st0 cs a st,
  wf_plan plan -> has_marker_of st0 ident = false ->
  run b ident plan (deployed st0) (start_acc plan, st0) cs = Some (a, st) ->
  forall n, 0 <= marker_sum (markers st0) n ->
  recorded st n <= status st n <= status st0 n + planned plan n.
Proof.
  intros b ident plan st0 cs a st [H1 H2] Hf Hrun n Hn.
  eapply bounds_of_inv; eauto. eapply inv_run; eauto. apply inv_start; assumption.
Qed.

Theorem C13_final_thm : forall b ident plan st0 cs a st,
  wf_plan plan -> has_marker_of st0 ident = false ->
  run b ident plan (deployed st0) (start_acc plan, st0) cs = Some (a, st) ->
  returned a = true ->
  has_marker_of st ident = false /\
  forall n, status st n = recorded st n + (status st0 n - recorded st0 n).
Proof.
  intros b ident plan st0 cs a st [H1 H2] Hf Hrun Hr.
  assert (I : Inv ident plan st0 a st) by (eapply inv_run; eauto; apply inv_start; assumption).
  destruct (final_of_inv ident plan st0 Hf a st I Hr) as [F1 F2].
  split; [exact F1|]. intros n. specialize (F2 n). lia.
Qed.

(* prefixes of accepted sequences are accepted: every intermediate state is covered *)
Lemma run_app : forall b ident plan d0 cs1 cs2 s,
  run b ident plan d0 s (cs1 ++ cs2)
  = match run b ident plan d0 s cs1 with Some s' => run b ident plan d0 s' cs2 | None => None end.
Proof.
  induction cs1 as [|c t IH]; intros cs2 s; simpl; [reflexivity|].
  destruct (step b ident plan d0 s c); [apply IH | reflexivity].
Qed.

Theorem C13_every_prefix : forall b ident plan st0 cs1 cs2 a st,
  wf_plan plan -> has_marker_of st0 ident = false ->
  run b ident plan (deployed st0) (start_acc plan, st0) (cs1 ++ cs2) = Some (a, st) ->
  exists a1 st1, run b ident plan (deployed st0) (start_acc plan, st0) cs1 = Some (a1, st1) /\
  forall n, 0 <= marker_sum (markers st0) n ->
  recorded st1 n <= status st1 n <= status st0 n + planned plan n.
Proof.
  intros b ident plan st0 cs1 cs2 a st W Hf Hrun. rewrite run_app in Hrun.
  destruct (run b ident plan (deployed st0) (start_acc plan, st0) cs1) as [[a1 st1]|] eqn:E; [|discriminate].
  exists a1, st1. split; [reflexivity|]. intros n Hn. eapply C13_bounds_thm; eauto.
Qed.

(* ---------- non-vacuity and a remark on the non-atomic read ---------- *)
Local Open Scope string_scope.
Definition ex_plan : list (string * Z) := [("n1", 2%Z); ("n2", 1%Z)].
Definition ex_init : dstate := mkD [("n1", "old")] [].
Definition ex_calls : list call :=
  [CCreateProc "n1" 2 false; CCreateProc "n2" 1 false;
   CAdd "n1" "a" false; CAdd "n2" "b" true; CAdd "n1" "c" false; CRemove "n1" "a" false;
   CRemove "n2" "b" false; CDelProc "n2" false; CDelProc "n1" false].

Example ex_accepted :
  wf_plan ex_plan /\ has_marker_of ex_init "id" = false /\
  exists a st, run Etcd "id" ex_plan (deployed ex_init) (start_acc ex_plan, ex_init) ex_calls = Some (a, st)
    /\ returned a = true /\ status st "n1" = 2%Z /\ recorded st "n1" = 2%Z /\ status st "n2" = 0%Z.
Proof.
  split; [split; [repeat constructor; simpl; intuition congruence|]|].
  - intros n k [H|[H|[]]]; inversion H; lia.
  - split; [reflexivity|]. eexists. eexists. split; [vm_compute; reflexivity|]. repeat split.
Qed.

(* GetDeployStatus reads the deploy keys and the markers in two separate store
   reads (store/*/deploy.go).  A reader racing with the LAST AddWorkload of a
   node may combine the deploy keys from before with the markers from after:
   it then sees one instance fewer than is recorded.  (Outside the property's
   observation points, which are between two store calls.) *)
Definition torn_status (before after : dstate) (n : string) : Z :=
  recorded before n + marker_sum (markers after) n.
Example torn_read_undercounts :
  let s1 := mkD [] [(("n1", "id"), 1%Z)] in
  let s2 := fst (add_workload Etcd s1 "n1" "a" "id") in
  (torn_status s1 s2 "n1" < recorded s2 "n1")%Z.
Proof. vm_compute. reflexivity. Qed.
