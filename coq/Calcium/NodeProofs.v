(* Calcium/NodeProofs.v — SetNode (after the repair), the whole operation, every world with distinct
   plugin records, every fault position: a reported failure leaves the world exactly as it was. *)
From Coq Require Import List Bool Arith ZArith Lia Permutation.
From Verif Require Import Base.Effects Calcium.World Calcium.Ops Calcium.EffectsProofs Calcium.OpsProofs Calcium.OpsProofs2.
Import ListNotations.
Local Open Scope Z_scope.

Definition pnames (l : list plug) := map p_node l.

Lemma nodup_pname_unique : forall l y p, NoDup (pnames l) -> In y l -> In p l -> p_node y = p_node p -> y = p.
Proof.
  induction l as [|z t IH]; intros y p Hnd Hy Hp E; [destruct Hy|].
  simpl in Hnd. inversion Hnd as [|? ? Hni Hnd']; subst.
  destruct Hy as [Hy|Hy]; destruct Hp as [Hp|Hp]; subst; auto.
  - exfalso. apply Hni. unfold pnames. rewrite E. apply in_map; auto.
  - exfalso. apply Hni. unfold pnames. rewrite <- E. apply in_map; auto.
Qed.

Lemma upd_plug_cap_back : forall l n p (f : plug -> plug),
  NoDup (pnames l) -> find (fun x => Nat.eqb (p_node x) n) l = Some p ->
  (forall x, p_node (f x) = p_node x) -> (forall x, p_use (f x) = p_use x) ->
  upd_plug n (fun q => mkPlug (p_node q) (p_cap p) (p_use q)) (upd_plug n f l) = l.
Proof.
  intros l n p f Hnd Hf Hn Hu. unfold upd_plug. rewrite map_map. rewrite <- (map_id l) at 2.
  apply map_ext_in. intros y Hy. destruct (Nat.eqb (p_node y) n) eqn:E.
  - rewrite Hn, E, Hu.
    (* y is the record found for n *)
    assert (y = p).
    { apply find_some in Hf. destruct Hf as [Hin Hpn]. apply Nat.eqb_eq in E, Hpn.
      apply (nodup_pname_unique l); auto. congruence. }
    subst y. destruct p; reflexivity.
  - rewrite E. reflexivity.
Qed.

Definition othnp (w : world) (ns : list node) (p : list plug) : world :=
  mkWorld (pods w) ns (wls w) (markers w) p (conts w) (walq w) (wal_seq w) (out w) (strict_remove w) (script w).

(* the part of SetNode that runs under the pod lock *)
Definition set_node_body (n : name) (bypass : option bool) (mem : option (Z * bool)) (label : option nat) (x : node) : cprog oerr :=
  e <- doc (PGetInfo n) ;;
  match e with
  | Some e => Ret (Some e)
  | None =>
    let x' := mkNode (n_name x) (n_pod x) (match bypass with Some b => b | None => n_bypass x end) (n_avail x)
                     (match label with Some l => l | None => n_label x end) in
    r <- txn_s (@None res)
        (fun s =>
           match mem with
           | None => Ret (s, None)
           | Some (m, delta) =>
             r <- call1 (PSetCapacity n (Some m) delta) ;;
             match r with
             | RInfo cap _ => Ret (Some cap, None)
             | RErr e => Ret (s, Some e)
             | _ => Ret (s, Some ENatural)
             end
           end)
        (Some (fun s =>
               e <- doc (SUpdateNode x') ;;
               match e with
               | Some e => Ret (s, Some e)
               | None => ign (doc (PGetInfo n)) ;;; Ret (s, None)
               end))
        (Some (fun (s : option res) (by_cond : bool) =>
           if by_cond then rok
           else match mem, s with
                | Some _, Some cap => doc (PRestoreCapacity n cap)
                | _, _ => rok
                end)) ;;
    Ret (snd r)
  end.

Lemma set_node_is_body : forall n bypass mem label,
  set_node n bypass mem label = with_node_pod_locked n (set_node_body n bypass mem label).
Proof. reflexivity. Qed.

Definition new_cap (mem : option (Z * bool)) (q : plug) : plug :=
  match mem with
  | None => q
  | Some (m, delta) => mkPlug (p_node q) (fst (p_cap q), if delta then snd (p_cap q) + m else m) (p_use q)
  end.

Lemma set_node_body_spec : forall n bypass mem label x w k,
  NoDup (pnames (plugs w)) ->
  exists w' k' r, crunk (set_node_body n bypass mem label x) w k = (w', k', r) /\
  (r <> None -> w' = w) /\
  (r = None -> w' = othnp w (upd_node (mkNode (n_name x) (n_pod x) (match bypass with Some b => b | None => n_bypass x end) (n_avail x)
                                              (match label with Some l => l | None => n_label x end)) (nodes w))
                            (upd_plug n (new_cap mem) (plugs w))).
Proof.
  intros n bypass mem label x w k Hnd.
  unfold set_node_body, txn_s, ign, doc, call1, crunk. norm.
  assert (Hid : forall P, upd_plug n (new_cap None) P = P).
  { intros P. unfold upd_plug. rewrite <- (map_id P) at 2. apply map_ext. intros q. destruct (Nat.eqb (p_node q) n); reflexivity. }
  kcase k.
  - do 3 eexists. split; [reflexivity|]. split; [reflexivity|discriminate].
  - cbn [exec]. look. destruct (find (fun q => Nat.eqb (p_node q) n) (plugs w)) as [p|] eqn:Hp; norm.
    2:{ do 3 eexists. split; [reflexivity|]. split; [reflexivity|discriminate]. }
    destruct mem as [[m delta]|]; norm.
    + ncase k.
      * do 3 eexists. split; [reflexivity|]. split; [reflexivity|discriminate].
      * cbn [exec]. look. rewrite Hp. norm.
        ncase k.
        -- (* UpdateNodes fails: the capacity is written back *)
           cbn [exec]. look. rewrite find_plug_upd by reflexivity. rewrite Hp. cbn [option_map]. norm.
           do 3 eexists. split; [reflexivity|]. split; [|discriminate]. intros _. look.
           rewrite (upd_plug_cap_back (plugs w) n p) by (auto). destruct w; reflexivity.
        -- cbn [exec]. look. norm.
           ncase k; cbn [exec]; look; rewrite ?find_plug_upd by reflexivity; rewrite ?Hp; cbn [option_map]; norm;
             (do 3 eexists; split; [reflexivity|]; split; [congruence|]; intros _; look; reflexivity).
    + ncase k.
      * do 3 eexists. split; [reflexivity|]. split; [reflexivity|discriminate].
      * cbn [exec]. look. norm.
        ncase k; cbn [exec]; look; rewrite ?Hp; norm;
          (do 3 eexists; split; [reflexivity|]; split; [congruence|]; intros _; look; rewrite Hid; reflexivity).
  - cbn [exec]. look. destruct (find (fun q => Nat.eqb (p_node q) n) (plugs w)) as [p|] eqn:Hp; norm.
    2:{ do 3 eexists. split; [reflexivity|]. split; [reflexivity|discriminate]. }
    destruct mem as [[m delta]|]; norm.
    + cbn [exec]. look. rewrite Hp. norm. cbn [exec]. look. norm. cbn [exec]. look.
      rewrite find_plug_upd by reflexivity. rewrite Hp. cbn [option_map]. norm.
      do 3 eexists. split; [reflexivity|]. split; [congruence|]. intros _. look. reflexivity.
    + cbn [exec]. look. norm. cbn [exec]. look. rewrite Hp. norm.
      do 3 eexists. split; [reflexivity|]. split; [congruence|]. intros _. look. rewrite Hid. reflexivity.
Qed.

(* SetNode, the whole operation: a reported failure leaves the world exactly as it was *)
Theorem set_node_atomic : forall n bypass mem label w k,
  NoDup (pnames (plugs w)) ->
  exists w' k' r, crunk (set_node n bypass mem label) w k = (w', k', r) /\
  (r <> None -> w' = w) /\
  (r = None -> exists x, find_node w n = Some x /\
     w' = othnp w (upd_node (mkNode (n_name x) (n_pod x) (match bypass with Some b => b | None => n_bypass x end) (n_avail x)
                                    (match label with Some l => l | None => n_label x end)) (nodes w))
                  (upd_plug n (new_cap mem) (plugs w))).
Proof.
  intros n bypass mem label w k Hnd. rewrite set_node_is_body.
  destruct (with_node_pod_locked_spec n (set_node_body n bypass mem label) w k) as [w' [k' [r [H [[Hr ->]|[x [k1 [k2 [Hx [Hn Hb]]]]]]]]]].
  - do 3 eexists. split; [exact H|]. split; [reflexivity|congruence].
  - destruct (set_node_body_spec n bypass mem label x w k1 Hnd) as [w2 [k3 [r2 [H2 [Hfail Hok]]]]].
    rewrite H2 in Hb. inversion Hb; subst. do 3 eexists. split; [exact H|]. split; [exact Hfail|].
    intros E. exists x. split; [exact Hx|apply Hok; exact E].
Qed.

(* ------------------------------------------------------------------ RemoveNode *)
Definition remove_node_body (n : name) (x : node) : cprog oerr :=
  r0 <- call1 (SGetNode n) ;;
  match r0 with
  | RNode y => if Nat.eqb (n_pod y) (n_pod x) then remove_node_inner n else Ret (Some ENatural)
  | RErr e => Ret (Some e)
  | _ => Ret (Some ENatural)
  end.

Lemma remove_node_is_body : forall n, remove_node n = with_node_pod_locked n (remove_node_body n).
Proof. reflexivity. Qed.

Lemma status_up_id : forall n l, (forall y, In y l -> n_name y = n -> n_avail y = true) ->
  map (fun x => if Nat.eqb (n_name x) n then mkNode (n_name x) (n_pod x) (n_bypass x) (0 <? 90) (n_label x) else x) l = l.
Proof.
  intros n l H. rewrite <- (map_id l) at 2. apply map_ext_in. intros y Hy.
  destruct (Nat.eqb (n_name y) n) eqn:E; [|reflexivity]. apply Nat.eqb_eq in E.
  pose proof (H y Hy E) as Ha. destruct y; simpl in *. subst. reflexivity.
Qed.
Lemma status_down_del : forall n l,
  map (fun x => if Nat.eqb (n_name x) n then mkNode (n_name x) (n_pod x) (n_bypass x) (0 <? -1) (n_label x) else x) (del_node n l) = del_node n l.
Proof.
  intros n l. rewrite <- (map_id (del_node n l)) at 2. apply map_ext_in. intros y Hy.
  unfold del_node in Hy. apply filter_In in Hy. destruct Hy as [_ Hy]. apply negb_true_iff in Hy. rewrite Hy. reflexivity.
Qed.


Lemma remove_node_inner_spec : forall n w k1,
  (forall y, In y (nodes w) -> n_name y = n -> n_avail y = true) ->
  exists w' k' r, crunk (remove_node_inner n) w k1 = (w', k', r) /\
  (r <> None -> w' = w \/ w' = othnp w (del_node n (nodes w)) (plugs w)) /\
  (r = None -> w' = othnp w (del_node n (nodes w)) (del_plug n (plugs w))).
Proof.
  intros n w k1 Hav.
  destruct (crunk (remove_node_inner n) w k1) as [[w' k'] r] eqn:Hb. exists w', k', r. split; [reflexivity|].
  revert Hb. unfold remove_node_inner, txn, ign, doc, call1, crunk. norm.
  assert (Hup : set_nodes w (map (fun x0 => if Nat.eqb (n_name x0) n then mkNode (n_name x0) (n_pod x0) (n_bypass x0) (0 <? 90) (n_label x0) else x0) (nodes w)) = w).
  { rewrite status_up_id by exact Hav. destruct w; reflexivity. }
  destruct k1 as [[|k1]|]; norm.
  + intros E; inversion E; subst. split; [auto|discriminate].
  + cbn [exec]. destruct (wls_on w n) eqn:Hl; norm.
    2:{ intros E; inversion E; subst. split; [auto|discriminate]. }
    destruct k1 as [|k1]; norm.
    * cbn [exec]. look. norm. cbn [exec]. look. cbn [Z.eqb]. norm. look. rewrite status_down_del.
      cbn [exec]. look. destruct (find (fun q => Nat.eqb (p_node q) n) (plugs w)); norm;
        intros E; inversion E; subst; (split; [intros Hne; try congruence; try (right; reflexivity)|try discriminate; try (intros _; reflexivity)]).
    * cbn [exec]. cbn [Z.eqb]. norm. rewrite Hup.
      destruct k1 as [|k1]; norm.
      -- intros E; inversion E; subst. split; [auto|discriminate].
      -- cbn [exec]. look. norm. destruct k1 as [|k1]; norm.
         ++ cbn [exec]. look. destruct (find (fun q => Nat.eqb (p_node q) n) (plugs w)); norm;
              intros E; inversion E; subst; (split; [intros Hne; try congruence; try (right; reflexivity)|try discriminate; try (intros _; reflexivity)]).
         ++ cbn [exec]. look. cbn [Z.eqb]. norm. look. rewrite status_down_del.
            destruct k1 as [|k1]; norm.
            ** intros E; inversion E; subst. split; [intros _; right; reflexivity|discriminate].
            ** cbn [exec]. look. destruct (find (fun q => Nat.eqb (p_node q) n) (plugs w)); norm;
                 intros E; inversion E; subst; (split; [intros Hne; try congruence; try (right; reflexivity)|try discriminate; try (intros _; reflexivity)]).
  + cbn [exec]. destruct (wls_on w n) eqn:Hl; norm.
    2:{ intros E; inversion E; subst. split; [auto|discriminate]. }
    cbn [exec]. cbn [Z.eqb]. norm. rewrite Hup. cbn [exec]. look. norm. cbn [exec]. look. cbn [Z.eqb]. norm. look. rewrite status_down_del.
    cbn [exec]. look. destruct (find (fun q => Nat.eqb (p_node q) n) (plugs w)); norm;
      intros E; inversion E; subst; (split; [intros Hne; try congruence; try (right; reflexivity)|try discriminate; try (intros _; reflexivity)]).
Qed.

(* RemoveNode, the strongest true statement: a reported failure leaves the world as it was, EXCEPT when the
   plugin's removal is the failing step: then the node record is gone and the plugin record is still there *)
Theorem remove_node_partial : forall n w k,
  (forall y, In y (nodes w) -> n_name y = n -> n_avail y = true) ->
  exists w' k' r, crunk (remove_node n) w k = (w', k', r) /\
  (r <> None -> w' = w \/ w' = othnp w (del_node n (nodes w)) (plugs w)) /\
  (r = None -> w' = othnp w (del_node n (nodes w)) (del_plug n (plugs w))).
Proof.
  intros n w k Hav. rewrite remove_node_is_body.
  destruct (with_node_pod_locked_spec n (remove_node_body n) w k) as [w' [k' [r [H [[Hr ->]|[x [k1 [k2 [Hx [Hn Hb]]]]]]]]]].
  - do 3 eexists. split; [exact H|]. split; [auto|congruence].
  - do 3 eexists. split; [exact H|]. clear H.
    revert Hb. unfold remove_node_body, call1, crunk. cbn [bind].
    destruct k1 as [[|k1]|]; cbn [runk fail_reply].
    + intros E; inversion E; subst. split; [auto|discriminate].
    + cbn [exec]. rewrite Hx. rewrite Nat.eqb_refl.
      destruct (remove_node_inner_spec n w (Some k1) Hav) as [w2 [k3 [r2 [H2 Hpost]]]].
      unfold crunk in H2. rewrite H2. intros E; inversion E; subst. exact Hpost.
    + cbn [exec]. rewrite Hx. rewrite Nat.eqb_refl.
      destruct (remove_node_inner_spec n w None Hav) as [w2 [k3 [r2 [H2 Hpost]]]].
      unfold crunk in H2. rewrite H2. intros E; inversion E; subst. exact Hpost.
Qed.
