(* Calcium/World.v — the abstract world the orchestration scripts run against
   (DESIGN Appendix A): metadata store records, the abstract resource-plugin
   contract (capacity / usage per node, amounts are pairs (cpu in 1/100 core,
   memory in bytes) of integers), engine containers, WAL entries, processing
   markers, the output channel; the calls of the four parties and their
   semantics [exec]; the instantiation of Base/Effects.
   No proofs here. *)
From Coq Require Import List Bool Arith ZArith.
From Verif Require Import Base.Effects.
Import ListNotations.
Local Open Scope Z_scope.

Definition name := nat.                      (* pods and nodes are numbered by the harness *)

(* workload / container id: (index of the API call that created it, node, index of
   the instance on that node) -- the canonical form of the random engine ids *)
Record wid := mkWid { wi_op : nat; wi_node : name; wi_idx : nat }.
Definition wid_eqb (a b : wid) : bool :=
  Nat.eqb (wi_op a) (wi_op b) && Nat.eqb (wi_node a) (wi_node b) && Nat.eqb (wi_idx a) (wi_idx b).

Definition res := (Z * Z)%type.              (* (cpu, mem) *)
Definition radd (a b : res) : res := (fst a + fst b, snd a + snd b).
Definition rsub (a b : res) : res := (fst a - fst b, snd a - snd b).
Definition rzero : res := (0, 0).
Definition res_eqb (a b : res) : bool := Z.eqb (fst a) (fst b) && Z.eqb (snd a) (snd b).
Fixpoint rsum (l : list res) : res := match l with [] => rzero | r :: t => radd r (rsum t) end.

Inductive cstate := CCreated | CRunning | CStopped.
Definition cstate_eqb (a b : cstate) : bool :=
  match a, b with CCreated, CCreated | CRunning, CRunning | CStopped, CStopped => true | _, _ => false end.

Record wl := mkWl { w_id : wid; w_node : name; w_pod : name; w_res : res }.
Record node := mkNode { n_name : name; n_pod : name; n_bypass : bool; n_avail : bool; n_label : nat }.
Record plug := mkPlug { p_node : name; p_cap : res; p_use : res }.
Record cont := mkCont { c_id : wid; c_state : cstate }.

Inductive event :=
| EvAlloc (ns : list name)            (* allocate-workload *)
| EvProc (n : name) (ident : nat)     (* create-processing *)
| EvCreate (id : wid)                 (* create-workload *)
| EvLambda (id : wid).                (* create-lambda *)

(* error classes (what the harness can tell apart) *)
Inductive err := EInjected | ENatural.
Definition err_eqb (a b : err) : bool := match a, b with EInjected, EInjected | ENatural, ENatural => true | _, _ => false end.

(* messages on the result channels *)
Inductive msg :=
| MCreateErr                               (* CreateWorkloadMessage{Error} with no node (allocation failed) *)
| MCreateFail (n : name)                   (* per-instance failure on node n *)
| MCreateOk (id : wid) (r : res)           (* success: id, node = wi_node id, resources *)
| MRemove (id : wid) (ok : bool)
| MRemoveNodeFail                          (* RemoveWorkloadMessage{Success:false} without id *)
| MDissociate (id : wid) (e : option err)
| MReplace (old : wid) (new : option wid) (removed : bool) (e : option err)
| MLambdaErr (id : option wid)             (* AttachWorkloadMessage of type EruError *)
| MLambdaOut (id : wid)                    (* a line of output *)
| MLambdaExit (id : wid) (code : Z)        (* "[exitcode] n" *)
| MClose.

Record lscript := mkLs { ls_logs_err : bool; ls_attach_err : bool; ls_wait_err : bool; ls_code : Z; ls_lines : nat }.

Record world := mkWorld {
  pods : list name;
  nodes : list node;
  wls : list wl;
  markers : list (name * nat * Z);          (* (node, ident) -> remaining count *)
  plugs : list plug;
  conts : list cont;
  walq : list (nat * event);                (* open WAL entries, by token *)
  wal_seq : nat;
  out : list msg;                           (* messages sent so far, newest first *)
  strict_remove : bool;                     (* engine refuses remove(force=false) of a running container *)
  script : lscript;                         (* scripted engine outcomes for logs/attach/wait *)
}.

Definition empty_world (strict : bool) : world :=
  mkWorld [] [] [] [] [] [] [] 0 [] strict (mkLs false false false 0 0).

(* ---- setters ---- *)
Definition set_pods w x := mkWorld x (nodes w) (wls w) (markers w) (plugs w) (conts w) (walq w) (wal_seq w) (out w) (strict_remove w) (script w).
Definition set_nodes w x := mkWorld (pods w) x (wls w) (markers w) (plugs w) (conts w) (walq w) (wal_seq w) (out w) (strict_remove w) (script w).
Definition set_wls w x := mkWorld (pods w) (nodes w) x (markers w) (plugs w) (conts w) (walq w) (wal_seq w) (out w) (strict_remove w) (script w).
Definition set_markers w x := mkWorld (pods w) (nodes w) (wls w) x (plugs w) (conts w) (walq w) (wal_seq w) (out w) (strict_remove w) (script w).
Definition set_plugs w x := mkWorld (pods w) (nodes w) (wls w) (markers w) x (conts w) (walq w) (wal_seq w) (out w) (strict_remove w) (script w).
Definition set_conts w x := mkWorld (pods w) (nodes w) (wls w) (markers w) (plugs w) x (walq w) (wal_seq w) (out w) (strict_remove w) (script w).
Definition set_wal w q s := mkWorld (pods w) (nodes w) (wls w) (markers w) (plugs w) (conts w) q s (out w) (strict_remove w) (script w).
Definition set_out w x := mkWorld (pods w) (nodes w) (wls w) (markers w) (plugs w) (conts w) (walq w) (wal_seq w) x (strict_remove w) (script w).
Definition set_script w x := mkWorld (pods w) (nodes w) (wls w) (markers w) (plugs w) (conts w) (walq w) (wal_seq w) (out w) (strict_remove w) x.

(* ---- lookups ---- *)
Definition find_node (w : world) (n : name) : option node := find (fun x => Nat.eqb (n_name x) n) (nodes w).
Definition find_wl (w : world) (id : wid) : option wl := find (fun x => wid_eqb (w_id x) id) (wls w).
Definition find_plug (w : world) (n : name) : option plug := find (fun x => Nat.eqb (p_node x) n) (plugs w).
Definition find_cont (w : world) (id : wid) : option cont := find (fun x => wid_eqb (c_id x) id) (conts w).
Definition wls_on (w : world) (n : name) : list wl := filter (fun x => Nat.eqb (w_node x) n) (wls w).
Definition node_down (x : node) : bool := n_bypass x || negb (n_avail x).

(* in-place updates (map), removals (filter) *)
Definition upd_plug (n : name) (f : plug -> plug) (l : list plug) : list plug :=
  map (fun x => if Nat.eqb (p_node x) n then f x else x) l.
Definition upd_cont (id : wid) (st : cstate) (l : list cont) : list cont :=
  map (fun x => if wid_eqb (c_id x) id then mkCont id st else x) l.
Definition upd_wl (x' : wl) (l : list wl) : list wl :=
  map (fun x => if wid_eqb (w_id x) (w_id x') then x' else x) l.
Definition upd_node (x' : node) (l : list node) : list node :=
  map (fun x => if Nat.eqb (n_name x) (n_name x') then x' else x) l.
Definition del_wl (id : wid) (l : list wl) : list wl := filter (fun x => negb (wid_eqb (w_id x) id)) l.
Definition del_cont (id : wid) (l : list cont) : list cont := filter (fun x => negb (wid_eqb (c_id x) id)) l.
Definition del_node (n : name) (l : list node) : list node := filter (fun x => negb (Nat.eqb (n_name x) n)) l.
Definition del_plug (n : name) (l : list plug) : list plug := filter (fun x => negb (Nat.eqb (p_node x) n)) l.
Definition marker_is (n : name) (ident : nat) (x : name * nat * Z) : bool :=
  Nat.eqb (fst (fst x)) n && Nat.eqb (snd (fst x)) ident.
Definition del_marker (n : name) (ident : nat) (l : list (name * nat * Z)) :=
  filter (fun x => negb (marker_is n ident x)) l.
Definition decr_marker (n : name) (ident : nat) (l : list (name * nat * Z)) :=
  map (fun x => if marker_is n ident x then (fst x, snd x - 1) else x) l.

(* ---- lock keys ---- *)
Inductive lockkey := LPod (p : name) | LWl (id : wid) | LNodeOp (n : name).
Definition lockkey_eqb (a b : lockkey) : bool :=
  match a, b with
  | LPod p, LPod q => Nat.eqb p q
  | LWl i, LWl j => wid_eqb i j
  | LNodeOp n, LNodeOp m => Nat.eqb n m
  | _, _ => false
  end.

(* ---- calls ---- *)
Inductive call :=
(* metadata store *)
| SAddPod (p : name)
| SAddNode (n p : name)
| SRemoveNode (n : name)
| SGetNode (n : name)
| SGetNodesByPod (p : name) (all : bool)
| SUpdateNode (x : node)
| SSetNodeStatus (n : name) (ttl : Z)
| SAddWorkload (x : wl) (decr : option nat)        (* Some ident: decrement the marker of (node, ident) atomically *)
| SUpdateWorkload (x : wl)
| SRemoveWorkload (x : wl)
| SGetWorkload (id : wid)
| SGetWorkloads (ids : list wid)
| SListNodeWorkloads (n : name)
| SGetDeployStatus
| SCreateProcessing (n : name) (ident : nat) (k : Z)
| SDeleteProcessing (n : name) (ident : nat)
| SCreateLock (k : lockkey)
| LLock (k : lockkey)
| LUnlock (k : lockkey)
(* resource manager (abstract plugin contract) *)
| PAddNode (n : name) (cap : res)
| PRemoveNode (n : name)
| PGetCapacity (ns : list name)
| PSetCapacity (n : name) (req : option Z) (delta : bool)   (* memory request; None = empty request (no-op) *)
| PRestoreCapacity (n : name) (cap : res)                  (* SetNodeResourceCapacity(node resource = cap, no request, delta=false) *)
| PSetUsage (n : name) (rs : list res) (incr : bool)
| PGetInfo (n : name)
| PAlloc (n : name) (k : nat) (r : res)
| PRollbackAlloc (n : name) (rs : list res)
| PRealloc (n : name) (origin req : res)
| PRollbackRealloc (n : name) (delta : res)
(* engine *)
| EInfo (n : name)
| EImageLocal (n : name)
| EImageRemote (n : name)
| EImagePull (n : name)
| ECreate (id : wid)
| EStart (id : wid)
| EStop (id : wid)
| ERemove (id : wid) (force : bool)
| EInspect (id : wid)
| EUpdateResource (id : wid)
| ELogs (id : wid)
| EAttach (id : wid)
| EWait (id : wid)
(* WAL *)
| WLog (ev : event)
| WCommit (token : nat) (ev : event)
(* result channel: never faulted *)
| Send (m : msg).

Inductive reply :=
| RErr (e : err)
| ROk
| RNode (x : node)
| RNodes (l : list node)
| RWl (x : wl)
| RWls (l : list wl)
| RInfo (cap use : res)
| RAlloc (rs : list res)
| RRealloc (delta newres : res)
| RToken (t : nat)
| RRunning (b : bool)
| RCode (c : Z).

(* ---- keys: method + target entity ---- *)
Inductive meth :=
| MAddPod | MAddNode | MRemoveNode | MGetNode | MGetNodesByPod | MUpdateNodes | MSetNodeStatus
| MAddWorkload | MUpdateWorkload | MRemoveWorkload | MGetWorkload | MGetWorkloads | MListNodeWorkloads
| MGetDeployStatus | MCreateProcessing | MDeleteProcessing | MCreateLock | MLock | MUnlock
| MPAddNode | MPRemoveNode | MPGetCapacity | MPSetCapacity | MPSetUsage | MPGetInfo | MPAlloc
| MPRollbackAlloc | MPRealloc | MPRollbackRealloc
| MEInfo | MEImageLocal | MEImageRemote | MEImagePull | MECreate | MEStart | MEStop | MERemove
| MEInspect | MEUpdateResource | MELogs | MEAttach | MEWait
| MWLog | MWCommit.

Definition meth_code (m : meth) : nat :=
  match m with
  | MAddPod => 0 | MAddNode => 1 | MRemoveNode => 2 | MGetNode => 3 | MGetNodesByPod => 4 | MUpdateNodes => 5
  | MSetNodeStatus => 6 | MAddWorkload => 7 | MUpdateWorkload => 8 | MRemoveWorkload => 9 | MGetWorkload => 10
  | MGetWorkloads => 11 | MListNodeWorkloads => 12 | MGetDeployStatus => 13 | MCreateProcessing => 14
  | MDeleteProcessing => 15 | MCreateLock => 16 | MLock => 17 | MUnlock => 18 | MPAddNode => 19 | MPRemoveNode => 20
  | MPGetCapacity => 21 | MPSetCapacity => 22 | MPSetUsage => 23 | MPGetInfo => 24 | MPAlloc => 25
  | MPRollbackAlloc => 26 | MPRealloc => 27 | MPRollbackRealloc => 28 | MEInfo => 29 | MEImageLocal => 30
  | MEImageRemote => 31 | MEImagePull => 32 | MECreate => 33 | MEStart => 34 | MEStop => 35 | MERemove => 36
  | MEInspect => 37 | MEUpdateResource => 38 | MELogs => 39 | MEAttach => 40 | MEWait => 41 | MWLog => 42
  | MWCommit => 43
  end%nat.

Inductive target :=
| TNone
| TName (n : name)                  (* a pod or a node *)
| TWid (id : wid)
| TWids (ids : list wid)
| TLock (k : lockkey)
| TEvent (ev : event).

Fixpoint wids_eqb (a b : list wid) : bool :=
  match a, b with
  | [], [] => true
  | x :: s, y :: t => wid_eqb x y && wids_eqb s t
  | _, _ => false
  end.
Fixpoint names_eqb (a b : list name) : bool :=
  match a, b with
  | [], [] => true
  | x :: s, y :: t => Nat.eqb x y && names_eqb s t
  | _, _ => false
  end.
Definition event_eqb (a b : event) : bool :=
  match a, b with
  | EvAlloc _, EvAlloc _ => true      (* one allocate-workload entry per deployment; the node list is not part of the address *)
  | EvProc n i, EvProc m j => Nat.eqb n m && Nat.eqb i j
  | EvCreate x, EvCreate y => wid_eqb x y
  | EvLambda x, EvLambda y => wid_eqb x y
  | _, _ => false
  end.
Definition target_eqb (a b : target) : bool :=
  match a, b with
  | TNone, TNone => true
  | TName x, TName y => Nat.eqb x y
  | TWid x, TWid y => wid_eqb x y
  | TWids x, TWids y => wids_eqb x y
  | TLock x, TLock y => lockkey_eqb x y
  | TEvent x, TEvent y => event_eqb x y
  | _, _ => false
  end.

(* faultable key = (method, target); the channel send has no faultable key *)
Definition fkey := (meth * target)%type.
Inductive key := KCall (k : fkey) | KSend.
Definition key_eqb (a b : key) : bool :=
  match a, b with
  | KCall (m1, t1), KCall (m2, t2) => Nat.eqb (meth_code m1) (meth_code m2) && target_eqb t1 t2
  | _, _ => false       (* KSend never matches, so a fault can never hit a Send *)
  end.

Definition key_of (c : call) : key :=
  match c with
  | SAddPod p => KCall (MAddPod, TName p)
  | SAddNode n _ => KCall (MAddNode, TName n)
  | SRemoveNode n => KCall (MRemoveNode, TName n)
  | SGetNode n => KCall (MGetNode, TName n)
  | SGetNodesByPod p _ => KCall (MGetNodesByPod, TName p)
  | SUpdateNode x => KCall (MUpdateNodes, TName (n_name x))
  | SSetNodeStatus n _ => KCall (MSetNodeStatus, TName n)
  | SAddWorkload x _ => KCall (MAddWorkload, TWid (w_id x))
  | SUpdateWorkload x => KCall (MUpdateWorkload, TWid (w_id x))
  | SRemoveWorkload x => KCall (MRemoveWorkload, TWid (w_id x))
  | SGetWorkload id => KCall (MGetWorkload, TWid id)
  | SGetWorkloads ids => KCall (MGetWorkloads, TWids ids)
  | SListNodeWorkloads n => KCall (MListNodeWorkloads, TName n)
  | SGetDeployStatus => KCall (MGetDeployStatus, TNone)
  | SCreateProcessing n _ _ => KCall (MCreateProcessing, TName n)
  | SDeleteProcessing n _ => KCall (MDeleteProcessing, TName n)
  | SCreateLock k => KCall (MCreateLock, TLock k)
  | LLock k => KCall (MLock, TLock k)
  | LUnlock k => KCall (MUnlock, TLock k)
  | PAddNode n _ => KCall (MPAddNode, TName n)
  | PRemoveNode n => KCall (MPRemoveNode, TName n)
  | PGetCapacity _ => KCall (MPGetCapacity, TNone)
  | PSetCapacity n _ _ => KCall (MPSetCapacity, TName n)
  | PRestoreCapacity n _ => KCall (MPSetCapacity, TName n)
  | PSetUsage n _ _ => KCall (MPSetUsage, TName n)
  | PGetInfo n => KCall (MPGetInfo, TName n)
  | PAlloc n _ _ => KCall (MPAlloc, TName n)
  | PRollbackAlloc n _ => KCall (MPRollbackAlloc, TName n)
  | PRealloc n _ _ => KCall (MPRealloc, TName n)
  | PRollbackRealloc n _ => KCall (MPRollbackRealloc, TName n)
  | EInfo n => KCall (MEInfo, TName n)
  | EImageLocal n => KCall (MEImageLocal, TName n)
  | EImageRemote n => KCall (MEImageRemote, TName n)
  | EImagePull n => KCall (MEImagePull, TName n)
  | ECreate id => KCall (MECreate, TWid id)
  | EStart id => KCall (MEStart, TWid id)
  | EStop id => KCall (MEStop, TWid id)
  | ERemove id _ => KCall (MERemove, TWid id)
  | EInspect id => KCall (MEInspect, TWid id)
  | EUpdateResource id => KCall (MEUpdateResource, TWid id)
  | ELogs id => KCall (MELogs, TWid id)
  | EAttach id => KCall (MEAttach, TWid id)
  | EWait id => KCall (MEWait, TWid id)
  | WLog ev => KCall (MWLog, TEvent ev)
  | WCommit _ ev => KCall (MWCommit, TEvent ev)
  | Send _ => KSend
  end.

Definition fail_reply (_ : call) : reply := RErr EInjected.

(* ---- the abstract plugin contract (non-bound cpu, memory by amount) ----
   mirrors cpumem.doAllocByMemory: the request fits k times iff cpu <= node cores and
   (mem = 0 or available / mem >= k); Go's / truncates toward zero (Z.quot). *)
Definition fits (p : plug) (k : Z) (r : res) : bool :=
  (fst r <=? fst (p_cap p)) &&
  (negb (0 <? snd r) || (k <=? Z.quot (snd (p_cap p) - snd (p_use p)) (snd r))).

Definition add_use (r : res) (p : plug) : plug := mkPlug (p_node p) (p_cap p) (radd (p_use p) r).
Definition sub_use (r : res) (p : plug) : plug := mkPlug (p_node p) (p_cap p) (rsub (p_use p) r).

(* ---- semantics of one executed call ---- *)
Definition exec (w : world) (c : call) : world * reply :=
  match c with
  | SAddPod p =>
    if existsb (Nat.eqb p) (pods w) then (w, RErr ENatural) else (set_pods w (p :: pods w), ROk)
  | SAddNode n p =>
    if negb (existsb (Nat.eqb p) (pods w)) then (w, RErr ENatural)
    else match find_node w n with
         | Some _ => (w, RErr ENatural)
         | None => let x := mkNode n p false true 0 in (set_nodes w (nodes w ++ [x]), RNode x)
         end
  | SRemoveNode n => (set_nodes w (del_node n (nodes w)), ROk)
  | SGetNode n => match find_node w n with Some x => (w, RNode x) | None => (w, RErr ENatural) end
  | SGetNodesByPod p all =>
    (w, RNodes (filter (fun x => Nat.eqb (n_pod x) p && (all || negb (node_down x))) (nodes w)))
  | SUpdateNode x => (set_nodes w (upd_node x (nodes w)), ROk)
  | SSetNodeStatus n ttl =>
    if ttl =? 0 then (w, RErr ENatural)
    else (set_nodes w (map (fun x => if Nat.eqb (n_name x) n
                                     then mkNode (n_name x) (n_pod x) (n_bypass x) (0 <? ttl) (n_label x) else x) (nodes w)), ROk)
  | SAddWorkload x decr =>
    match find_wl w (w_id x) with
    | Some _ => (w, RErr ENatural)
    | None =>
      let w1 := set_wls w (wls w ++ [x]) in
      match decr with
      | Some ident => (set_markers w1 (decr_marker (w_node x) ident (markers w1)), ROk)
      | None => (w1, ROk)
      end
    end
  | SUpdateWorkload x =>
    match find_wl w (w_id x) with
    | None => (w, RErr ENatural)
    | Some _ => (set_wls w (upd_wl x (wls w)), ROk)
    end
  | SRemoveWorkload x => (set_wls w (del_wl (w_id x) (wls w)), ROk)
  | SGetWorkload id => match find_wl w id with Some x => (w, RWl x) | None => (w, RErr ENatural) end
  | SGetWorkloads ids =>
    if forallb (fun id => match find_wl w id with Some _ => true | None => false end) ids
    then (w, RWls (flat_map (fun id => match find_wl w id with Some x => [x] | None => [] end) ids))
    else (w, RErr ENatural)
  | SListNodeWorkloads n => (w, RWls (wls_on w n))
  | SGetDeployStatus => (w, ROk)
  | SCreateProcessing n ident k => (set_markers w (markers w ++ [(n, ident, k)]), ROk)
  | SDeleteProcessing n ident => (set_markers w (del_marker n ident (markers w)), ROk)
  | SCreateLock _ => (w, ROk)
  | LLock _ => (w, ROk)
  | LUnlock _ => (w, ROk)
  | PAddNode n cap =>
    match find_plug w n with
    | Some _ => (w, RErr ENatural)
    | None => (set_plugs w (plugs w ++ [mkPlug n cap rzero]), ROk)
    end
  | PRemoveNode n =>
    match find_plug w n with
    | None => (w, RErr ENatural)       (* cobalt.RemoveNode first reads the node's resource info *)
    | Some _ => (set_plugs w (del_plug n (plugs w)), ROk)
    end
  | PGetCapacity _ => (w, ROk)
  | PSetCapacity n req delta =>
    match req with
    | None => (w, ROk)                 (* empty request: cobalt calls no plugin *)
    | Some m =>
      match find_plug w n with
      | None => (w, RErr ENatural)
      | Some p0 =>
        (set_plugs w (upd_plug n (fun p => mkPlug (p_node p)
                                     (fst (p_cap p), if delta then snd (p_cap p) + m else m) (p_use p)) (plugs w)),
         RInfo (p_cap p0) (p_use p0))        (* cobalt reports the capacity before the change *)
      end
    end
  | PRestoreCapacity n cap =>
    match find_plug w n with
    | None => (w, RErr ENatural)
    | Some _ => (set_plugs w (upd_plug n (fun p => mkPlug (p_node p) cap (p_use p)) (plugs w)), ROk)
    end
  | PSetUsage n rs incr =>
    match find_plug w n with
    | None => (w, RErr ENatural)
    | Some _ => (set_plugs w (upd_plug n (if incr then add_use (rsum rs) else sub_use (rsum rs)) (plugs w)), ROk)
    end
  | PGetInfo n => match find_plug w n with Some p => (w, RInfo (p_cap p) (p_use p)) | None => (w, RErr ENatural) end
  | PAlloc n k r =>
    match find_plug w n with
    | None => (w, RErr ENatural)
    | Some p =>
      if fits p (Z.of_nat k) r
      then (set_plugs w (upd_plug n (add_use (rsum (repeat r k))) (plugs w)), RAlloc (repeat r k))
      else (w, RErr ENatural)
    end
  | PRollbackAlloc n rs =>
    match find_plug w n with
    | None => (w, RErr ENatural)
    | Some _ => (set_plugs w (upd_plug n (sub_use (rsum rs)) (plugs w)), ROk)
    end
  | PRealloc n origin req =>
    match find_plug w n with
    | None => (w, RErr ENatural)
    | Some p =>
      let newr := radd origin req in
      if (fst newr <? 0) || (snd newr <? 0) then (w, RErr ENatural)
      else if fits (sub_use origin p) 1 newr
      then (set_plugs w (upd_plug n (add_use req) (plugs w)), RRealloc req newr)
      else (w, RErr ENatural)
    end
  | PRollbackRealloc n delta =>
    match find_plug w n with
    | None => (w, RErr ENatural)
    | Some _ => (set_plugs w (upd_plug n (sub_use delta) (plugs w)), ROk)
    end
  | EInfo _ => (w, ROk)
  | EImageLocal _ => (w, ROk)
  | EImageRemote _ => (w, ROk)
  | EImagePull _ => (w, ROk)
  | ECreate id => (set_conts w (conts w ++ [mkCont id CCreated]), ROk)
  | EStart id =>
    match find_cont w id with
    | None => (w, RErr ENatural)
    | Some _ => (set_conts w (upd_cont id CRunning (conts w)), ROk)
    end
  | EStop id =>
    match find_cont w id with
    | None => (w, RErr ENatural)
    | Some _ => (set_conts w (upd_cont id CStopped (conts w)), ROk)
    end
  | ERemove id force =>
    match find_cont w id with
    | None => (w, ROk)                 (* ErrWorkloadNotExists is treated as success by Workload.Remove *)
    | Some x =>
      if strict_remove w && negb force && cstate_eqb (c_state x) CRunning then (w, RErr ENatural)
      else (set_conts w (del_cont id (conts w)), ROk)
    end
  | EInspect id =>
    match find_cont w id with
    | None => (w, RErr ENatural)
    | Some x => (w, RRunning (cstate_eqb (c_state x) CRunning))
    end
  | EUpdateResource id => match find_cont w id with None => (w, RErr ENatural) | Some _ => (w, ROk) end
  | ELogs id =>
    match find_cont w id with
    | None => (w, RErr ENatural)
    | Some _ => if ls_logs_err (script w) then (w, RErr ENatural) else (w, ROk)
    end
  | EAttach id =>
    match find_cont w id with
    | None => (w, RErr ENatural)
    | Some _ => if ls_attach_err (script w) then (w, RErr ENatural) else (w, ROk)
    end
  | EWait id =>
    match find_cont w id with
    | None => (w, RErr ENatural)
    | Some _ =>
      if ls_wait_err (script w) then (w, RErr ENatural)
      else (set_conts w (upd_cont id CStopped (conts w)), RCode (ls_code (script w)))
    end
  | WLog ev => (set_wal w (walq w ++ [(wal_seq w, ev)]) (S (wal_seq w)), RToken (wal_seq w))
  | WCommit t _ => (set_wal w (filter (fun x => negb (Nat.eqb (fst x) t)) (walq w)) (wal_seq w), ROk)
  | Send m => (set_out w (m :: out w), ROk)
  end.

(* ---- instantiation of the effect machinery ---- *)
Definition cprog := prog call reply.
Definition crun {A} (p : cprog A) (s : ist call world key) := run call reply world key key_eqb key_of exec fail_reply p s.
Definition crund {A} (p : cprog A) (s : dst call world) := rund call reply world exec fail_reply p s.
(* fault positions are the calls to the store, the resource manager, the engine, the WAL and the locks;
   a send on a result channel is not one *)
Definition is_faultable (c : call) : bool := match c with Send _ => false | _ => true end.
Definition crunk {A} (p : cprog A) (w : world) (k : option nat) := runk call reply world exec fail_reply is_faultable p w k.
Definition cfault := fault key.
Definition mk_fault (m : meth) (t : target) (ord : nat) : cfault := mkFault (KCall (m, t)) ord FailBefore.

Notation "x <- p ;; q" := (bind p (fun x => q)) (at level 61, p at next level, right associativity).
Notation "p ;;; q" := (bind p (fun _ => q)) (at level 61, right associativity).
