(* Proofs for C13 with ANY NUMBER of concurrent deployments of one entrypoint:
   after every prefix of every accepted call sequence (every interleaving of the
   deployments and of their instance goroutines, every placement of injected
   failures, both backends), for every node
       recorded <= status <= prior + sum of what all deployments planned there,
   and once every marker deletion succeeded no marker of any deployment remains
   and status = recorded (+ what markers outside the plan contributed before). *)
From Coq Require Import List Bool String ZArith Lia Permutation.
From Verif Require Import Calcium.DeployStatus Calcium.DeployStatusProofs Calcium.DeployMulti.
Import ListNotations.
Local Open Scope Z_scope.

(* ---------- lists of markers ---------- *)
Definition not_key (k : mkey) (ms : list (mkey * Z)) : Prop := forall p, In p ms -> fst p <> k.

Lemma get_marker_skip : forall k l1 l2, not_key k l1 -> get_marker k (l1 ++ l2) = get_marker k l2.
Proof.
  induction l1 as [|[k' v] t IH]; intros l2 H; simpl; [reflexivity|].
  rewrite pair_eqb_neq; [apply IH; intros p Hp; apply H; right; exact Hp|].
  intro E. apply (H (k', v)); [left; reflexivity | symmetry; exact E].
Qed.
Lemma set_marker_skip : forall k v l1 l2, not_key k l1 -> set_marker k v (l1 ++ l2) = l1 ++ set_marker k v l2.
Proof.
  induction l1 as [|[k' w] t IH]; intros l2 H; simpl; [reflexivity|].
  rewrite pair_eqb_neq; [f_equal; apply IH; intros p Hp; apply H; right; exact Hp|].
  intro E. apply (H (k', w)); [left; reflexivity | symmetry; exact E].
Qed.
Lemma del_marker_skipk : forall k l, not_key k l -> del_marker k l = l.
Proof.
  induction l as [|[k' w] t IH]; intros H; [reflexivity|]. unfold del_marker in *. simpl.
  rewrite pair_eqb_neq; [simpl; f_equal; apply IH; intros p Hp; apply H; right; exact Hp|].
  intro E. apply (H (k', w)); [left; reflexivity | symmetry; exact E].
Qed.
Lemma del_marker_app : forall k l1 l2, del_marker k (l1 ++ l2) = del_marker k l1 ++ del_marker k l2.
Proof. intros. unfold del_marker. apply filter_app. Qed.

Definition mown (f : slot -> Z) (lv : list slot) : list (mkey * Z) := map (fun s => (s, f s)) lv.

Lemma mem_slot_In : forall s l, mem_slot s l = true <-> In s l.
Proof.
  intros. unfold mem_slot. rewrite existsb_exists. split.
  - intros [y [Hy E]]. apply pair_eqb_spec in E. subst. exact Hy.
  - intros H. exists s. split; [exact H | apply pair_eqb_refl].
Qed.
Lemma mem_slot_false : forall s l, mem_slot s l = false <-> ~ In s l.
Proof.
  intros. rewrite <- mem_slot_In. destruct (mem_slot s l); split; intro H.
  - discriminate.
  - exfalso. apply H. reflexivity.
  - intro H'. discriminate.
  - reflexivity.
Qed.

Lemma get_marker_mown : forall f lv s, get_marker s (mown f lv) = if mem_slot s lv then Some (f s) else None.
Proof.
  induction lv as [|m t IH]; intros s; simpl; [reflexivity|].
  destruct (pair_eqb s m) eqn:E; simpl; [apply pair_eqb_spec in E; subst; reflexivity | apply IH].
Qed.

Lemma set_marker_mown : forall f lv s v, NoDup lv -> In s lv ->
  set_marker s v (mown f lv) = mown (fun m => if pair_eqb m s then v else f m) lv.
Proof.
  induction lv as [|m t IH]; intros s v ND Hin; [destruct Hin|]. inversion ND; subst. simpl.
  destruct (pair_eqb s m) eqn:E.
  - apply pair_eqb_spec in E. subst m. rewrite pair_eqb_refl. f_equal. unfold mown. apply map_ext_in.
    intros a Ha. rewrite pair_eqb_neq; [reflexivity|]. intro X. subst. contradiction.
  - destruct Hin as [Hin|Hin]; [subst; rewrite pair_eqb_refl in E; discriminate|].
    rewrite IH by assumption. rewrite pair_eqb_neq; [reflexivity|]. intro X. subst. rewrite pair_eqb_refl in E. discriminate.
Qed.

Lemma set_marker_absent_mown : forall f lv s v, ~ In s lv -> set_marker s v (mown f lv) = mown f lv ++ [(s, v)].
Proof.
  induction lv as [|m t IH]; intros s v H; simpl; [reflexivity|].
  rewrite pair_eqb_neq; [f_equal; apply IH; intro X; apply H; right; exact X|].
  intro X. subst. apply H. left. reflexivity.
Qed.

Lemma del_marker_mown : forall f lv s,
  del_marker s (mown f lv) = mown f (filter (fun m => negb (pair_eqb s m)) lv).
Proof.
  induction lv as [|m t IH]; intros s; simpl; [reflexivity|]. unfold del_marker in *. simpl.
  destruct (pair_eqb s m); simpl; [apply IH | f_equal; apply IH].
Qed.

Lemma mown_app : forall f l1 l2, mown f (l1 ++ l2) = mown f l1 ++ mown f l2.
Proof. intros. unfold mown. apply map_app. Qed.
Lemma mown_ext : forall f g lv, (forall s, In s lv -> f s = g s) -> mown f lv = mown g lv.
Proof. intros f g lv H. unfold mown. apply map_ext_in. intros s Hs. rewrite (H s Hs). reflexivity. Qed.

(* remove_slot on duplicate-free lists *)
Lemma remove_slot_filter : forall s l, NoDup l -> remove_slot s l = filter (fun m => negb (pair_eqb s m)) l.
Proof.
  induction l as [|m t IH]; intros H; simpl; [reflexivity|]. inversion H; subst.
  destruct (pair_eqb m s) eqn:E.
  - apply pair_eqb_spec in E. subst. rewrite pair_eqb_refl. simpl. symmetry. apply forallb_filter_id.
    apply forallb_forall. intros x Hx. rewrite pair_eqb_neq; [reflexivity|]. intro X. subst. contradiction.
  - rewrite pair_eqb_neq; [simpl; f_equal; apply IH; assumption|]. intro X. subst. rewrite pair_eqb_refl in E. discriminate.
Qed.
Lemma remove_slot_incl : forall s l x, In x (remove_slot s l) -> In x l.
Proof.
  induction l as [|m t IH]; simpl; intros x H; [exact H|].
  destruct (pair_eqb m s); [right; exact H|]. destruct H as [H|H]; [left; exact H | right; apply IH; exact H].
Qed.
Lemma remove_slot_NoDup : forall s l, NoDup l -> NoDup (remove_slot s l).
Proof.
  induction l as [|m t IH]; intros H; simpl; [constructor|]. inversion H; subst.
  destruct (pair_eqb m s); [assumption|]. constructor; [|apply IH; assumption].
  intro Hx. apply remove_slot_incl in Hx. contradiction.
Qed.
Lemma remove_slot_not_in : forall s l, NoDup l -> ~ In s (remove_slot s l).
Proof.
  induction l as [|m t IH]; intros H; simpl; [tauto|]. inversion H; subst.
  destruct (pair_eqb m s) eqn:E.
  - apply pair_eqb_spec in E. subst. assumption.
  - intros [Hx|Hx]; [subst; rewrite pair_eqb_refl in E; discriminate | apply IH in Hx; assumption].
Qed.
Lemma remove_slot_other : forall s l x, x <> s -> In x l -> In x (remove_slot s l).
Proof.
  induction l as [|m t IH]; intros x Hne H; simpl; [exact H|].
  destruct (pair_eqb m s) eqn:E.
  - apply pair_eqb_spec in E. subst. destruct H as [H|H]; [congruence | exact H].
  - destruct H as [H|H]; [left; exact H | right; apply IH; assumption].
Qed.

Lemma NoDup_app_intro : forall {A} (l1 l2 : list A), NoDup l1 -> NoDup l2 ->
  (forall x, In x l1 -> In x l2 -> False) -> NoDup (l1 ++ l2).
Proof.
  intros A l1. induction l1 as [|x t IH]; intros l2 H1 H2 Hd; [exact H2|].
  inversion H1; subst. simpl. constructor.
  - intro Hin. apply in_app_or in Hin. destruct Hin as [Hin|Hin]; [contradiction | apply (Hd x); [left; reflexivity | exact Hin]].
  - apply IH; auto. intros y Hy1 Hy2. apply (Hd y); [right; exact Hy1 | exact Hy2].
Qed.

(* plans keyed by slots *)
Lemma splan_count_In : forall (pl : list (slot * Z)) s k, splan_count pl s = Some k -> In s (map fst pl).
Proof.
  induction pl as [|[m j] t IH]; simpl; intros s k H; [discriminate|].
  destruct (pair_eqb m s) eqn:E; [left; apply pair_eqb_spec; exact E | right; eapply IH; exact H].
Qed.
Lemma splan_count_In_pair : forall (pl : list (slot * Z)) s k, splan_count pl s = Some k -> In (s, k) pl.
Proof.
  induction pl as [|[m j] t IH]; simpl; intros s k H; [discriminate|].
  destruct (pair_eqb m s) eqn:E.
  - apply pair_eqb_spec in E. inversion H. subst. left. reflexivity.
  - right. apply IH. exact H.
Qed.
Lemma splan_count_some : forall (pl : list (slot * Z)) s, In s (map fst pl) -> splan_count pl s <> None.
Proof.
  induction pl as [|[m j] t IH]; simpl; intros s H; [destruct H|].
  destruct (pair_eqb m s) eqn:E; [discriminate|]. destruct H as [H|H]; [subst; rewrite pair_eqb_refl in E; discriminate | apply IH; exact H].
Qed.
Lemma splan_count_remove_other : forall (pl : list (slot * Z)) s m, m <> s ->
  splan_count (remove_splan s pl) m = splan_count pl m.
Proof.
  induction pl as [|[x j] t IH]; simpl; intros s m Hne; [reflexivity|].
  destruct (pair_eqb x s) eqn:E; simpl.
  - apply pair_eqb_spec in E. subst x. rewrite pair_eqb_neq; [reflexivity | congruence].
  - destruct (pair_eqb x m); [reflexivity | apply IH; exact Hne].
Qed.
Lemma remove_splan_perm : forall (pl : list (slot * Z)) s k, splan_count pl s = Some k ->
  Permutation (map fst pl) (s :: map fst (remove_splan s pl)).
Proof.
  induction pl as [|[m j] t IH]; simpl; intros s k H; [discriminate|].
  destruct (pair_eqb m s) eqn:E.
  - apply pair_eqb_spec in E. subst. apply Permutation_refl.
  - simpl. eapply perm_trans; [apply perm_skip; eapply IH; exact H | apply perm_swap].
Qed.
Lemma remove_splan_incl : forall (pl : list (slot * Z)) s x, In x (map fst (remove_splan s pl)) -> In x (map fst pl).
Proof.
  induction pl as [|[m j] t IH]; simpl; intros s x H; [exact H|].
  destruct (pair_eqb m s); [right; exact H|]. simpl in H. destruct H as [H|H]; [left; exact H | right; eapply IH; exact H].
Qed.
Lemma remove_splan_nodup : forall (pl : list (slot * Z)) s, NoDup (map fst pl) -> NoDup (map fst (remove_splan s pl)).
Proof.
  induction pl as [|[m j] t IH]; simpl; intros s H; [constructor|]. inversion H; subst.
  destruct (pair_eqb m s); [assumption|]. simpl. constructor; [|apply IH; assumption].
  intro Hx. apply remove_splan_incl in Hx. contradiction.
Qed.
Lemma splan_count_remove_self : forall (pl : list (slot * Z)) s, NoDup (map fst pl) -> splan_count (remove_splan s pl) s = None.
Proof.
  induction pl as [|[m j] t IH]; simpl; intros s H; [reflexivity|]. inversion H; subst.
  destruct (pair_eqb m s) eqn:E.
  - apply pair_eqb_spec in E. subst. destruct (splan_count t s) eqn:E2; [|reflexivity].
    exfalso. apply splan_count_In in E2. contradiction.
  - simpl. rewrite E. apply IH. assumption.
Qed.

(* ---------- instances ---------- *)
Definition mlive (i : minst) : bool := match mi_state i with IAdded => true | _ => false end.
Definition mwas_added (i : minst) : bool := match mi_state i with IAdded | IRemoved => true | _ => false end.
Definition mlive_keys (insts : list minst) : list dkey := map mi_key (filter mlive insts).
Definition on_slot (s : slot) (i : minst) : bool := pair_eqb (mi_slot i) s.
Definition madds (insts : list minst) (s : slot) : Z := cnt (fun i => mwas_added i && on_slot s i) insts.
Definition mlive_slot (insts : list minst) (s : slot) : Z := cnt (fun i => mlive i && on_slot s i) insts.
Definition mlive_on (insts : list minst) (n : string) : Z := cnt (fun i => mlive i && String.eqb (fst (mi_key i)) n) insts.
Definition mid (i : minst) : string := snd (mi_key i).

Lemma minsts_on_cnt : forall insts s, minsts_on insts s = cnt (on_slot s) insts.
Proof. reflexivity. Qed.

Lemma recorded_mlive_keys : forall insts ms n, recorded (mkD (mlive_keys insts) ms) n = mlive_on insts n.
Proof.
  intros. unfold recorded, mlive_on, mlive_keys, cnt. simpl. f_equal.
  induction insts as [|p t IH]; simpl; [reflexivity|].
  destruct (mlive p) eqn:L; simpl; [destruct (String.eqb (fst (mi_key p)) n); simpl; rewrite IH; reflexivity | exact IH].
Qed.

Lemma minst_state_In : forall k id s insts, minst_state k insts = Some (id, s) -> In (mkMi k id s) insts.
Proof.
  induction insts as [|[k' id' s'] t IH]; simpl; intros H; [discriminate|].
  destruct (pair_eqb k k') eqn:E.
  - apply pair_eqb_spec in E. inversion H. subst. left. reflexivity.
  - right. apply IH. exact H.
Qed.
Lemma set_minst_ids : forall k s insts, map mid (set_minst k s insts) = map mid insts.
Proof.
  induction insts as [|i t IH]; simpl; [reflexivity|].
  destruct (pair_eqb k (mi_key i)); simpl; [reflexivity | rewrite IH; reflexivity].
Qed.
Lemma set_minst_In : forall k s insts p, In p (set_minst k s insts) ->
  exists s', In (mkMi (mi_key p) (mi_ident p) s') insts.
Proof.
  induction insts as [|[k' id' s'] t IH]; simpl; intros p H; [destruct H|].
  destruct (pair_eqb k k').
  - destruct H as [H|H]; [subst; exists s'; left; reflexivity | exists (mi_state p); right; destruct p; exact H].
  - destruct H as [H|H]; [subst; exists s'; left; reflexivity|].
    destruct (IH _ H) as [s'' Hs]. exists s''. right. exact Hs.
Qed.
Lemma cnt_set_minst : forall (f : minst -> bool) k id s s0 insts,
  NoDup (map mid insts) -> minst_state k insts = Some (id, s0) ->
  cnt f (set_minst k s insts) = cnt f insts - (if f (mkMi k id s0) then 1 else 0) + (if f (mkMi k id s) then 1 else 0).
Proof.
  intros f k id s s0 insts. induction insts as [|[k' id' s'] t IH]; simpl; intros ND H; [discriminate|].
  inversion ND as [|? ? Hn Hd]; subst.
  destruct (pair_eqb k k') eqn:E.
  - apply pair_eqb_spec in E. subst k'. inversion H; subst. rewrite !cnt_cons. lia.
  - rewrite !cnt_cons. rewrite IH by assumption. lia.
Qed.
Lemma not_mlive_not_in_keys : forall k id s0 insts,
  NoDup (map mid insts) -> minst_state k insts = Some (id, s0) -> mlive (mkMi k id s0) = false ->
  ~ In k (mlive_keys insts).
Proof.
  intros k id s0 insts. induction insts as [|[k' id' s'] t IH]; simpl; intros ND H L; [discriminate|].
  inversion ND as [|? ? Hn Hd]; subst. unfold mlive_keys. simpl.
  destruct (pair_eqb k k') eqn:E.
  - apply pair_eqb_spec in E. subst k'. inversion H; subst. unfold mlive in *. simpl in *. rewrite L.
    intro Hx. apply Hn. apply in_map_iff in Hx. destruct Hx as [p [Ep Hp]]. apply filter_In in Hp.
    apply in_map_iff. exists p. split; [unfold mid; rewrite Ep; reflexivity | tauto].
  - destruct (mlive (mkMi k' id' s')); simpl.
    + intros [Hx|Hx]; [subst; rewrite pair_eqb_refl in E; discriminate | exact (IH Hd H L Hx)].
    + exact (IH Hd H L).
Qed.
Lemma mlive_keys_set_gone : forall k s insts,
  NoDup (map mid insts) -> (forall id, mlive (mkMi k id s) = false) ->
  mlive_keys (set_minst k s insts) = del_key k (mlive_keys insts).
Proof.
  intros k s insts. unfold del_key. induction insts as [|[k' id' s'] t IH]; simpl; intros ND L; [reflexivity|].
  inversion ND as [|? ? Hn Hd]; subst.
  destruct (pair_eqb k k') eqn:E.
  - apply pair_eqb_spec in E. subst k'. unfold mlive_keys. simpl. rewrite (L id').
    assert (T : filter (fun x => negb (pair_eqb k x)) (map mi_key (filter mlive t)) = map mi_key (filter mlive t)).
    { apply forallb_filter_id. apply forallb_forall. intros x Hx.
      destruct (pair_eqb k x) eqn:E2; [|reflexivity]. apply pair_eqb_spec in E2. subst x. exfalso.
      apply Hn. apply in_map_iff in Hx. destruct Hx as [p [Ep Hp]]. apply filter_In in Hp.
      apply in_map_iff. exists p. split; [unfold mid; rewrite Ep; reflexivity | tauto]. }
    destruct (mlive (mkMi k id' s')); simpl; rewrite ?pair_eqb_refl; simpl; rewrite T; reflexivity.
  - unfold mlive_keys in *. simpl. destruct (mlive (mkMi k' id' s')) eqn:L'; simpl.
    + rewrite E. simpl. f_equal. apply IH; assumption.
    + apply IH; assumption.
Qed.

Lemma mlive_keys_ids : forall insts k, In k (mlive_keys insts) -> In (snd k) (map mid insts).
Proof.
  intros insts k H. unfold mlive_keys in H. apply in_map_iff in H. destruct H as [p [E Hp]].
  apply filter_In in Hp. apply in_map_iff. exists p. split; [unfold mid; rewrite E; reflexivity | tauto].
Qed.
Lemma mid_used_false : forall id insts d0, mid_used id insts d0 = false ->
  ~ In id (map mid insts) /\ existsb (fun k => String.eqb (snd k) id) d0 = false.
Proof.
  intros id insts d0 H. unfold mid_used in H. apply orb_false_iff in H. destruct H as [H1 H2].
  split; [|exact H2]. intro Hin. apply in_map_iff in Hin. destruct Hin as [p [E Hp]].
  assert (X : existsb (fun i => String.eqb (snd (mi_key i)) id) insts = true).
  { apply existsb_exists. exists p. split; [exact Hp | apply String.eqb_eq; exact E]. }
  congruence.
Qed.
Lemma madds_cons : forall p insts s,
  madds (p :: insts) s = (if mwas_added p && on_slot s p then 1 else 0) + madds insts s.
Proof. intros. unfold madds. rewrite cnt_cons. reflexivity. Qed.
Lemma madds_le_on : forall insts s, 0 <= madds insts s <= minsts_on insts s.
Proof.
  intros. split; [apply cnt_nonneg|]. rewrite minsts_on_cnt. apply cnt_le.
  intros x H. apply andb_true_iff in H. tauto.
Qed.

(* ---------- sums over slots of one node ---------- *)
Fixpoint sum_on (l : list slot) (g : slot -> Z) (n : string) : Z :=
  match l with
  | [] => 0
  | s :: t => (if String.eqb (fst s) n then g s else 0) + sum_on t g n
  end.
Lemma sum_on_ext : forall l f g n, (forall s, In s l -> f s = g s) -> sum_on l f n = sum_on l g n.
Proof.
  induction l as [|x t IH]; intros f g n H; simpl; [reflexivity|].
  rewrite (H x (or_introl eq_refl)). rewrite (IH f g n); [reflexivity|]. intros s Hs. apply H. right. exact Hs.
Qed.
Lemma sum_on_le : forall l f g n, (forall s, In s l -> f s <= g s) -> sum_on l f n <= sum_on l g n.
Proof.
  induction l as [|x t IH]; intros f g n H; simpl; [lia|].
  pose proof (H x (or_introl eq_refl)). assert (sum_on t f n <= sum_on t g n) by (apply IH; intros s Hs; apply H; right; exact Hs).
  destruct (String.eqb (fst x) n); lia.
Qed.
Lemma sum_on_zero : forall l n, sum_on l (fun _ => 0) n = 0.
Proof. induction l as [|x t IH]; intros n; simpl; [reflexivity|]. rewrite IH. destruct (String.eqb (fst x) n); reflexivity. Qed.
Lemma sum_on_add : forall l f g n, sum_on l (fun s => f s + g s) n = sum_on l f n + sum_on l g n.
Proof.
  induction l as [|x t IH]; intros f g n; simpl; [reflexivity|]. rewrite IH. destruct (String.eqb (fst x) n); lia.
Qed.
Lemma sum_on_indicator_out : forall l s0 v n, ~ In s0 l -> sum_on l (fun s => if pair_eqb s0 s then v else 0) n = 0.
Proof.
  induction l as [|x t IH]; intros s0 v n H; simpl; [reflexivity|].
  rewrite pair_eqb_neq by (intro E; apply H; left; symmetry; exact E).
  rewrite IH by (intro X; apply H; right; exact X). destruct (String.eqb (fst x) n); reflexivity.
Qed.
Lemma sum_on_indicator : forall l s0 v n, NoDup l -> In s0 l ->
  sum_on l (fun s => if pair_eqb s0 s then v else 0) n = if String.eqb (fst s0) n then v else 0.
Proof.
  induction l as [|x t IH]; intros s0 v n ND H; [destruct H|]. inversion ND; subst. simpl.
  destruct (pair_eqb s0 x) eqn:E.
  - apply pair_eqb_spec in E. subst x. rewrite sum_on_indicator_out by assumption. lia.
  - destruct H as [H|H]; [subst; rewrite pair_eqb_refl in E; discriminate|].
    rewrite IH by assumption. destruct (String.eqb (fst x) n); lia.
Qed.
Lemma marker_sum_mown : forall f lv n, marker_sum (mown f lv) n = sum_on lv f n.
Proof.
  induction lv as [|[n' i] t IH]; intros n; simpl; [reflexivity|]. rewrite IH. reflexivity.
Qed.
Lemma sum_on_sub : forall lv pl f n, NoDup lv -> NoDup pl -> (forall s, In s lv -> In s pl) ->
  sum_on lv f n = sum_on pl (fun s => if mem_slot s lv then f s else 0) n.
Proof.
  induction lv as [|x t IH]; intros pl f n NDl NDp Hsub.
  - simpl. rewrite sum_on_zero. reflexivity.
  - inversion NDl; subst. simpl.
    rewrite (IH pl f n) by (auto; intros s Hs; apply Hsub; right; exact Hs).
    rewrite <- (sum_on_indicator pl x (f x) n NDp (Hsub x (or_introl eq_refl))).
    rewrite <- sum_on_add. apply sum_on_ext. intros s _.
    destruct (pair_eqb s x) eqn:E.
    + apply pair_eqb_spec in E. subst s. rewrite pair_eqb_refl. simpl.
      replace (mem_slot x t) with false by (symmetry; apply mem_slot_false; assumption). lia.
    + rewrite pair_eqb_neq by (intro X; subst; rewrite pair_eqb_refl in E; discriminate). simpl. reflexivity.
Qed.
Lemma planned_on_sum : forall plan n, NoDup (map fst plan) ->
  planned_on plan n = sum_on (map fst plan) (splanned plan) n.
Proof.
  induction plan as [|[[n' i] k] t IH]; intros n ND; simpl; [reflexivity|]. inversion ND; subst.
  unfold splanned at 1. simpl. rewrite pair_eqb_refl. rewrite IH by assumption. f_equal.
  apply sum_on_ext. intros s Hs. unfold splanned. simpl.
  rewrite pair_eqb_neq; [reflexivity|]. intro X. subst. contradiction.
Qed.
Lemma mlive_on_sum : forall pl insts n, NoDup pl -> (forall p, In p insts -> In (mi_slot p) pl) ->
  mlive_on insts n = sum_on pl (mlive_slot insts) n.
Proof.
  intros pl insts n ND. induction insts as [|p t IH]; intros H.
  - unfold mlive_on, mlive_slot, cnt. simpl. rewrite sum_on_zero. reflexivity.
  - unfold mlive_on. rewrite cnt_cons. fold (mlive_on t n). rewrite IH by (intros q Hq; apply H; right; exact Hq).
    rewrite (sum_on_ext pl (mlive_slot (p :: t))
               (fun s => (if pair_eqb (mi_slot p) s then (if mlive p then 1 else 0) else 0) + mlive_slot t s)).
    + rewrite sum_on_add. rewrite sum_on_indicator by (auto; apply H; left; reflexivity).
      unfold mi_slot. simpl. destruct (mlive p); destruct (String.eqb (fst (mi_key p)) n); simpl; lia.
    + intros s _. unfold mlive_slot. rewrite cnt_cons. unfold on_slot at 1.
      destruct (mlive p); destruct (pair_eqb (mi_slot p) s); simpl; lia.
Qed.
Lemma mlive_slot_bounds : forall insts s, 0 <= mlive_slot insts s /\ mlive_slot insts s <= madds insts s.
Proof.
  intros. split; [apply cnt_nonneg|]. apply cnt_le. intros x H. apply andb_true_iff in H. destruct H as [H1 H2].
  rewrite H2. unfold mlive, mwas_added in *. destruct (mi_state x); try discriminate; reflexivity.
Qed.
Lemma get_marker_not_key : forall k l, not_key k l -> get_marker k l = None.
Proof.
  intros k l H. rewrite <- (app_nil_r l). rewrite get_marker_skip by exact H. reflexivity.
Qed.

(* ---------- the invariant ---------- *)
Section MInv.
  Variable b : backend.
  Variable plan : list (slot * Z).
  Variable st0 : dstate.
  Hypothesis plan_nd : NoDup (map fst plan).
  Hypothesis plan_nonneg : forall s k, In (s, k) plan -> 0 <= k.
  (* no marker that exists beforehand belongs to a slot of the plan *)
  Hypothesis fresh0 : forall p, In p (markers st0) -> splan_count plan (fst p) = None.

  Definition mmark (a : macc) : list (mkey * Z) :=
    mown (fun s => splanned plan s - madds (m_insts a) s) (m_live a).

  Record MInv (a : macc) (st : dstate) : Prop := {
    mv_dep : deployed st = mlive_keys (m_insts a) ++ deployed st0;
    mv_mark : markers st = markers st0 ++ mmark a;
    mv_ids : NoDup (map mid (m_insts a));
    mv_fresh : forall p, In p (m_insts a) -> existsb (fun k => String.eqb (snd k) (mid p)) (deployed st0) = false;
    mv_cap : forall s, minsts_on (m_insts a) s <= splanned plan s;
    mv_nd : NoDup (m_live a ++ map fst (m_todo a));
    mv_clean_plan : forall s, In s (m_clean a) -> splan_count plan s <> None;
    mv_todo_plan : forall s k, splan_count (m_todo a) s = Some k -> splan_count plan s = Some k;
    mv_todo_noinst : forall s, splan_count (m_todo a) s <> None -> minsts_on (m_insts a) s = 0;
    mv_todo_clean : forall s, splan_count (m_todo a) s <> None -> In s (m_clean a);
    mv_live_clean : forall s, In s (m_live a) -> In s (m_clean a);
    mv_inst_plan : forall p, In p (m_insts a) -> splan_count plan (mi_slot p) <> None
  }.

  Lemma not_key0 : forall s, splan_count plan s <> None -> not_key s (markers st0).
  Proof. intros s H p Hp E. apply H. rewrite <- E. apply fresh0. exact Hp. Qed.

  Lemma minv_start : MInv (mstart plan) st0.
  Proof.
    constructor; simpl.
    - reflexivity.
    - unfold mmark. simpl. rewrite app_nil_r. reflexivity.
    - constructor.
    - intros p [].
    - intros s. rewrite minsts_on_cnt. unfold cnt. simpl. unfold splanned.
      destruct (splan_count plan s) as [k|] eqn:E; [|lia].
      apply splan_count_In_pair in E. exact (plan_nonneg _ _ E).
    - exact plan_nd.
    - intros s H. apply splan_count_some. exact H.
    - intros s k H. exact H.
    - intros s _. reflexivity.
    - intros s H. destruct (splan_count plan s) eqn:E; [|congruence]. eapply splan_count_In. exact E.
    - intros s [].
    - intros p [].
  Qed.
  Lemma marker_lookup : forall a st s, MInv a st -> splan_count plan s <> None ->
    get_marker s (markers st)
    = if mem_slot s (m_live a) then Some (splanned plan s - madds (m_insts a) s) else None.
  Proof.
    intros a st s I Hp. rewrite (mv_mark _ _ I). rewrite get_marker_skip by (apply not_key0; exact Hp).
    unfold mmark. apply get_marker_mown.
  Qed.
  Lemma mv_live_plan : forall a st s, MInv a st -> In s (m_live a) -> splan_count plan s <> None.
  Proof. intros a st s I H. apply (mv_clean_plan _ _ I). apply (mv_live_clean _ _ I). exact H. Qed.

  Lemma minv_step : forall a st c a' st', MInv a st ->
    mstep b plan (deployed st0) (a, st) c = Some (a', st') -> MInv a' st'.
  Proof.
    intros a st c a' st' I H.
    destruct c as [ident n k inj | ident n id inj | n id inj | ident n inj]; cbn [mstep] in H.
    - (* CreateProcessing *)
      destruct (splan_count (m_todo a) (n, ident)) as [k'|] eqn:Et; [|discriminate].
      destruct (Z.eqb k k') eqn:Ek; [|discriminate]. apply Z.eqb_eq in Ek. subst k'.
      set (s := (n, ident)) in *.
      pose proof (mv_nd _ _ I) as ND.
      assert (Hs_todo : In s (map fst (m_todo a))) by (eapply splan_count_In; exact Et).
      assert (Hs_nlive : ~ In s (m_live a)).
      { intro X. exact (NoDup_app_disjoint _ _ ND s X Hs_todo). }
      assert (Hp : splan_count plan s = Some k) by (apply (mv_todo_plan _ _ I); exact Et).
      assert (Hp' : splan_count plan s <> None) by (rewrite Hp; discriminate).
      assert (NDt : NoDup (map fst (m_todo a))) by (eapply NoDup_app_remove_l; exact ND).
      assert (ND' : NoDup (m_live a ++ s :: map fst (remove_splan s (m_todo a)))).
      { eapply Permutation_NoDup; [|exact ND]. apply Permutation_app_head. eapply remove_splan_perm. exact Et. }
      assert (Tother : forall m, splan_count (remove_splan s (m_todo a)) m <> None ->
                m <> s /\ splan_count (m_todo a) m <> None).
      { intros m Hm. assert (Hne : m <> s).
        { intro E. subst m. apply Hm. apply splan_count_remove_self. exact NDt. }
        split; [exact Hne|]. rewrite splan_count_remove_other in Hm by exact Hne. exact Hm. }
      assert (Tplan : forall m j, splan_count (remove_splan s (m_todo a)) m = Some j -> splan_count plan m = Some j).
      { intros m j Hm. assert (Hne : m <> s).
        { apply Tother. rewrite Hm. discriminate. }
        rewrite splan_count_remove_other in Hm by exact Hne. apply (mv_todo_plan _ _ I). exact Hm. }
      destruct inj.
      + inversion H; subst a' st'. clear H. constructor; simpl.
        * exact (mv_dep _ _ I).
        * exact (mv_mark _ _ I).
        * exact (mv_ids _ _ I).
        * exact (mv_fresh _ _ I).
        * exact (mv_cap _ _ I).
        * apply NoDup_remove_1 in ND'. exact ND'.
        * exact (mv_clean_plan _ _ I).
        * exact Tplan.
        * intros m Hm. apply (mv_todo_noinst _ _ I). apply Tother. exact Hm.
        * intros m Hm. apply (mv_todo_clean _ _ I). apply Tother. exact Hm.
        * exact (mv_live_clean _ _ I).
        * exact (mv_inst_plan _ _ I).
      + assert (Ecp : create_processing st n ident k
                      = (mkD (deployed st) (set_marker s k (markers st)), true)).
        { unfold create_processing. fold s. rewrite (marker_lookup _ _ s I Hp').
          replace (mem_slot s (m_live a)) with false by (symmetry; apply mem_slot_false; exact Hs_nlive).
          reflexivity. }
        rewrite Ecp in H. inversion H; subst a' st'. clear H. constructor; simpl.
        * exact (mv_dep _ _ I).
        * rewrite (mv_mark _ _ I). rewrite set_marker_skip by (apply not_key0; exact Hp'). f_equal.
          unfold mmark. simpl. rewrite set_marker_absent_mown by exact Hs_nlive.
          rewrite mown_app. f_equal. simpl. f_equal. f_equal.
          unfold splanned. rewrite Hp.
          assert (Z0 : minsts_on (m_insts a) s = 0) by (apply (mv_todo_noinst _ _ I); rewrite Et; discriminate).
          pose proof (madds_le_on (m_insts a) s). lia.
        * exact (mv_ids _ _ I).
        * exact (mv_fresh _ _ I).
        * exact (mv_cap _ _ I).
        * rewrite <- app_assoc. simpl. exact ND'.
        * exact (mv_clean_plan _ _ I).
        * exact Tplan.
        * intros m Hm. apply (mv_todo_noinst _ _ I). apply Tother. exact Hm.
        * intros m Hm. apply (mv_todo_clean _ _ I). apply Tother. exact Hm.
        * intros m Hm. apply in_app_or in Hm. destruct Hm as [Hm|[Hm|[]]].
          -- apply (mv_live_clean _ _ I). exact Hm.
          -- subst m. apply (mv_todo_clean _ _ I). rewrite Et. discriminate.
        * exact (mv_inst_plan _ _ I).
    - (* AddWorkload *)
      match type of H with (if ?c then _ else _) = _ => destruct c eqn:Cond end; [|discriminate].
      apply andb_true_iff in Cond. destruct Cond as [Cond Hcap].
      apply andb_true_iff in Cond. destruct Cond as [Hlive Hid]. apply negb_true_iff in Hid.
      apply Z.ltb_lt in Hcap. apply mem_slot_In in Hlive.
      set (s := (n, ident)) in *.
      destruct (mid_used_false _ _ _ Hid) as [Hid1 Hid2].
      pose proof (mv_live_plan _ _ s I Hlive) as Hp'.
      pose proof (mv_nd _ _ I) as ND.
      assert (Hnt : forall m, splan_count (m_todo a) m <> None -> m <> s).
      { intros m Hm E. subst m. destruct (splan_count (m_todo a) s) eqn:E2; [|congruence].
        apply splan_count_In in E2. exact (NoDup_app_disjoint _ _ ND s Hlive E2). }
      assert (Capn : forall x m, minsts_on (mkMi (n, id) ident x :: m_insts a) m <= splanned plan m).
      { intros x m. rewrite minsts_on_cnt, cnt_cons. unfold on_slot at 1, mi_slot. simpl. fold s.
        pose proof (mv_cap _ _ I m) as Cm. rewrite minsts_on_cnt in Cm.
        destruct (pair_eqb s m) eqn:E.
        - apply pair_eqb_spec in E. subst m. rewrite minsts_on_cnt in Hcap. lia.
        - lia. }
      assert (Noinst : forall x m, splan_count (m_todo a) m <> None ->
                minsts_on (mkMi (n, id) ident x :: m_insts a) m = 0).
      { intros x m Hm. rewrite minsts_on_cnt, cnt_cons. unfold on_slot at 1, mi_slot. simpl. fold s.
        rewrite pair_eqb_neq by (intro E; apply (Hnt m Hm); symmetry; exact E).
        pose proof (mv_todo_noinst _ _ I m Hm) as Z0. rewrite minsts_on_cnt in Z0. lia. }
      assert (Iplan : forall x p, In p (mkMi (n, id) ident x :: m_insts a) -> splan_count plan (mi_slot p) <> None).
      { intros x p [Hp|Hp]; [subst p; exact Hp' | apply (mv_inst_plan _ _ I); exact Hp]. }
      assert (Ifresh : forall x p, In p (mkMi (n, id) ident x :: m_insts a) ->
                existsb (fun k => String.eqb (snd k) (mid p)) (deployed st0) = false).
      { intros x p [Hp|Hp]; [subst p; exact Hid2 | apply (mv_fresh _ _ I); exact Hp]. }
      destruct inj.
      + inversion H; subst a' st'. clear H. constructor; simpl.
        * exact (mv_dep _ _ I).
        * rewrite (mv_mark _ _ I). apply f_equal. unfold mmark. cbn [m_insts m_live]. apply mown_ext.
          intros m _. rewrite madds_cons. unfold mwas_added. cbn [mi_state andb]. lia.
        * constructor; [exact Hid1 | exact (mv_ids _ _ I)].
        * apply Ifresh.
        * apply Capn.
        * exact ND.
        * exact (mv_clean_plan _ _ I).
        * exact (mv_todo_plan _ _ I).
        * apply Noinst.
        * exact (mv_todo_clean _ _ I).
        * exact (mv_live_clean _ _ I).
        * apply Iplan.
      + assert (Eadd : add_workload b st n id ident
                  = (mkD (add_key (n, id) (deployed st))
                         (set_marker s (splanned plan s - madds (m_insts a) s - 1) (markers st)), true)).
        { unfold add_workload. fold s. rewrite (marker_lookup _ _ s I Hp').
          replace (mem_slot s (m_live a)) with true by (symmetry; apply mem_slot_In; exact Hlive).
          destruct b; reflexivity. }
        rewrite Eadd in H. inversion H; subst a' st'. clear H. constructor; simpl.
        * rewrite (mv_dep _ _ I). unfold add_key. rewrite has_key_false.
          -- unfold mlive_keys. simpl. reflexivity.
          -- intro Hin. apply in_app_or in Hin. destruct Hin as [Hin|Hin].
             ++ apply mlive_keys_ids in Hin. simpl in Hin. contradiction.
             ++ exact (fresh_not_in_d0 _ _ _ Hid2 Hin).
        * rewrite (mv_mark _ _ I). rewrite set_marker_skip by (apply not_key0; exact Hp'). f_equal.
          unfold mmark. simpl.
          rewrite set_marker_mown; [|eapply NoDup_app_remove_r; exact ND | exact Hlive].
          apply mown_ext. intros m _. rewrite madds_cons. unfold on_slot at 1, mi_slot, mwas_added. simpl. fold s.
          destruct (pair_eqb m s) eqn:E2.
          -- apply pair_eqb_spec in E2. subst m. rewrite pair_eqb_refl. lia.
          -- rewrite pair_eqb_neq by (intro X; subst m; rewrite pair_eqb_refl in E2; discriminate). lia.
        * constructor; [exact Hid1 | exact (mv_ids _ _ I)].
        * apply Ifresh.
        * apply Capn.
        * exact ND.
        * exact (mv_clean_plan _ _ I).
        * exact (mv_todo_plan _ _ I).
        * apply Noinst.
        * exact (mv_todo_clean _ _ I).
        * exact (mv_live_clean _ _ I).
        * apply Iplan.
    - (* RemoveWorkload *)
      destruct (minst_state (n, id) (m_insts a)) as [[ident0 s0]|] eqn:Es; try discriminate.
      pose proof (mv_ids _ _ I) as NDi.
      pose proof (minst_state_In _ _ _ _ Es) as Hin0.
      pose proof (mv_fresh _ _ I _ Hin0) as Hf. unfold mid in Hf. simpl in Hf.
      assert (Hd0 : del_key (n, id) (deployed st0) = deployed st0).
      { apply del_key_not_in. apply fresh_not_in_d0. exact Hf. }
      assert (Common : forall s1, mwas_added (mkMi (n, id) ident0 s1) = mwas_added (mkMi (n, id) ident0 s0) ->
                MInv (mkMacc (m_todo a) (set_minst (n, id) s1 (m_insts a)) (m_clean a) (m_live a))
                     (mkD (mlive_keys (set_minst (n, id) s1 (m_insts a)) ++ deployed st0) (markers st))).
      { intros s1 Hw.
        assert (Eon : forall m, minsts_on (set_minst (n, id) s1 (m_insts a)) m = minsts_on (m_insts a) m).
        { intros m. rewrite !minsts_on_cnt. rewrite (cnt_set_minst _ _ _ _ _ _ NDi Es).
          unfold on_slot, mi_slot. simpl. lia. }
        constructor; simpl.
        - reflexivity.
        - rewrite (mv_mark _ _ I). f_equal. unfold mmark. simpl. apply mown_ext. intros m _.
          unfold madds. rewrite (cnt_set_minst _ _ _ _ _ _ NDi Es). unfold on_slot, mi_slot. simpl.
          unfold mwas_added in *. simpl in *. rewrite Hw. lia.
        - rewrite set_minst_ids. exact NDi.
        - intros p Hp. apply set_minst_In in Hp. destruct Hp as [s' Hp].
          pose proof (mv_fresh _ _ I _ Hp) as X. unfold mid in *. simpl in X. exact X.
        - intros m. rewrite Eon. apply (mv_cap _ _ I).
        - exact (mv_nd _ _ I).
        - exact (mv_clean_plan _ _ I).
        - exact (mv_todo_plan _ _ I).
        - intros m Hm. rewrite Eon. apply (mv_todo_noinst _ _ I). exact Hm.
        - exact (mv_todo_clean _ _ I).
        - exact (mv_live_clean _ _ I).
        - intros p Hp. apply set_minst_In in Hp. destruct Hp as [s' Hp].
          pose proof (mv_inst_plan _ _ I _ Hp) as X. unfold mi_slot in *. simpl in X. exact X. }
      destruct s0; try discriminate.
      + destruct inj.
        * inversion H; subst a' st'. exact I.
        * inversion H; subst a' st'. clear H.
          assert (X := Common IRemoved eq_refl).
          replace (remove_workload st n id)
            with (mkD (mlive_keys (set_minst (n, id) IRemoved (m_insts a)) ++ deployed st0) (markers st)); [exact X|].
          unfold remove_workload. f_equal. rewrite (mv_dep _ _ I). rewrite del_key_app, Hd0.
          f_equal. apply mlive_keys_set_gone; [exact NDi | reflexivity].
      + assert (X := Common IFailedGone eq_refl).
        assert (Hnk : ~ In (n, id) (mlive_keys (m_insts a))).
        { eapply not_mlive_not_in_keys; eauto. }
        assert (Elk : mlive_keys (set_minst (n, id) IFailedGone (m_insts a)) = mlive_keys (m_insts a)).
        { rewrite mlive_keys_set_gone by auto. apply del_key_not_in. exact Hnk. }
        assert (Hst : st' = if inj then st else remove_workload st n id) by (inversion H; reflexivity).
        assert (Ha : a' = mkMacc (m_todo a) (set_minst (n, id) IFailedGone (m_insts a)) (m_clean a) (m_live a))
          by (inversion H; reflexivity).
        rewrite Ha, Hst.
        replace (if inj then st else remove_workload st n id)
          with (mkD (mlive_keys (set_minst (n, id) IFailedGone (m_insts a)) ++ deployed st0) (markers st)); [exact X|].
        rewrite Elk. destruct inj.
        * destruct st as [d m]. simpl. f_equal. symmetry. apply (mv_dep _ _ I).
        * unfold remove_workload. f_equal. rewrite (mv_dep _ _ I).
          rewrite del_key_app, Hd0. f_equal. symmetry. apply del_key_not_in. exact Hnk.
    - (* DeleteProcessing *)
      destruct (mem_slot (n, ident) (m_clean a)) eqn:Ec; [|discriminate].
      apply mem_slot_In in Ec. set (s := (n, ident)) in *.
      destruct inj; [inversion H; subst a' st'; exact I|].
      inversion H; subst a' st'. clear H.
      pose proof (mv_nd _ _ I) as ND.
      assert (LND : NoDup (m_live a)) by (eapply NoDup_app_remove_r; exact ND).
      assert (NDt : NoDup (map fst (m_todo a))) by (eapply NoDup_app_remove_l; exact ND).
      pose proof (mv_clean_plan _ _ I s Ec) as Hp'.
      assert (Tother : forall m, splan_count (remove_splan s (m_todo a)) m <> None ->
                m <> s /\ splan_count (m_todo a) m <> None).
      { intros m Hm. assert (Hne : m <> s).
        { intro E. subst m. apply Hm. apply splan_count_remove_self. exact NDt. }
        split; [exact Hne|]. rewrite splan_count_remove_other in Hm by exact Hne. exact Hm. }
      constructor; simpl.
      + exact (mv_dep _ _ I).
      + rewrite (mv_mark _ _ I). rewrite del_marker_app.
        rewrite del_marker_skipk by (apply not_key0; exact Hp'). f_equal.
        unfold mmark. simpl. rewrite del_marker_mown. rewrite <- remove_slot_filter by exact LND. reflexivity.
      + exact (mv_ids _ _ I).
      + exact (mv_fresh _ _ I).
      + exact (mv_cap _ _ I).
      + apply NoDup_app_intro.
        * apply remove_slot_NoDup. exact LND.
        * apply remove_splan_nodup. exact NDt.
        * intros x H1 H2. apply remove_slot_incl in H1. apply remove_splan_incl in H2.
          exact (NoDup_app_disjoint _ _ ND x H1 H2).
      + intros m Hm. apply (mv_clean_plan _ _ I). eapply remove_slot_incl. exact Hm.
      + intros m j Hm. assert (Hne : m <> s) by (apply Tother; rewrite Hm; discriminate).
        rewrite splan_count_remove_other in Hm by exact Hne. apply (mv_todo_plan _ _ I). exact Hm.
      + intros m Hm. apply (mv_todo_noinst _ _ I). apply Tother. exact Hm.
      + intros m Hm. destruct (Tother m Hm) as [Hne Hm'].
        apply remove_slot_other; [exact Hne|]. apply (mv_todo_clean _ _ I). exact Hm'.
      + intros m Hm. assert (Hne : m <> s).
        { intro E. subst m. exact (remove_slot_not_in _ _ LND Hm). }
        apply remove_slot_other; [exact Hne|]. apply (mv_live_clean _ _ I). eapply remove_slot_incl. exact Hm.
      + exact (mv_inst_plan _ _ I).
  Qed.

  Theorem minv_run : forall cs a st a' st', MInv a st ->
    mrun b plan (deployed st0) (a, st) cs = Some (a', st') -> MInv a' st'.
  Proof.
    induction cs as [|c t IH]; intros a st a' st' I H; cbn [mrun] in H.
    - inversion H; subst. exact I.
    - destruct (mstep b plan (deployed st0) (a, st) c) as [[a1 st1]|] eqn:E; [|discriminate].
      eapply IH; [|exact H]. eapply minv_step; eauto.
  Qed.
  (* ---------- what readers see ---------- *)
  Lemma mstatus_formula : forall a st n, MInv a st ->
    recorded st n = mlive_on (m_insts a) n + recorded st0 n /\
    status st n = recorded st n + marker_sum (markers st0) n
                  + sum_on (m_live a) (fun s => splanned plan s - madds (m_insts a) s) n.
  Proof.
    intros a st n I. assert (R : recorded st n = mlive_on (m_insts a) n + recorded st0 n).
    { destruct st as [d m]. pose proof (mv_dep _ _ I) as D. simpl in D. subst d.
      rewrite recorded_app. rewrite recorded_mlive_keys. unfold recorded. reflexivity. }
    split; [exact R|]. unfold status. rewrite (mv_mark _ _ I). rewrite marker_sum_app.
    unfold mmark. rewrite marker_sum_mown. lia.
  Qed.

  Theorem mbounds_of_inv : forall a st n, MInv a st -> recorded st0 n <= status st0 n ->
    recorded st n <= status st n <= status st0 n + planned_on plan n.
  Proof.
    intros a st n I H0. destruct (mstatus_formula a st n I) as [R S].
    set (f := fun s => splanned plan s - madds (m_insts a) s) in *.
    set (pl := map fst plan).
    assert (M0 : 0 <= marker_sum (markers st0) n) by (unfold status in H0; lia).
    pose proof (mv_nd _ _ I) as ND.
    assert (LND : NoDup (m_live a)) by (eapply NoDup_app_remove_r; exact ND).
    assert (Lsub : forall s, In s (m_live a) -> In s pl).
    { intros s Hs. pose proof (mv_live_plan _ _ s I Hs) as X.
      destruct (splan_count plan s) eqn:E; [|congruence]. eapply splan_count_In. exact E. }
    assert (Isub : forall p, In p (m_insts a) -> In (mi_slot p) pl).
    { intros p Hp. pose proof (mv_inst_plan _ _ I p Hp) as X.
      destruct (splan_count plan (mi_slot p)) eqn:E; [|congruence]. eapply splan_count_In. exact E. }
    assert (Fnn : forall s, 0 <= f s).
    { intros s. unfold f. pose proof (madds_le_on (m_insts a) s). pose proof (mv_cap _ _ I s). lia. }
    split.
    - assert (0 <= sum_on (m_live a) f n).
      { rewrite <- (sum_on_zero (m_live a) n). apply sum_on_le. intros s _. apply Fnn. }
      lia.
    - rewrite S, R. unfold status at 1.
      rewrite (mlive_on_sum pl (m_insts a) n plan_nd Isub).
      rewrite (sum_on_sub (m_live a) pl f n LND plan_nd Lsub).
      rewrite (planned_on_sum plan n plan_nd). fold pl.
      assert (sum_on pl (mlive_slot (m_insts a)) n + sum_on pl (fun s => if mem_slot s (m_live a) then f s else 0) n
              <= sum_on pl (splanned plan) n); [|lia].
      rewrite <- sum_on_add. apply sum_on_le. intros s _.
      destruct (mlive_slot_bounds (m_insts a) s) as [L0 L1].
      pose proof (madds_le_on (m_insts a) s). pose proof (mv_cap _ _ I s).
      destruct (mem_slot s (m_live a)); unfold f; lia.
  Qed.

  Theorem mfinal_of_inv : forall a st n, MInv a st -> mreturned a = true ->
    marker_of_plan_left plan st = false /\
    status st n = recorded st n + (status st0 n - recorded st0 n).
  Proof.
    intros a st n I Hr. unfold mreturned in Hr. destruct (m_clean a) eqn:Ec; [|discriminate].
    assert (Hl : m_live a = []).
    { destruct (m_live a) as [|x t] eqn:El; [reflexivity|]. exfalso.
      pose proof (mv_live_clean _ _ I x) as X. rewrite El, Ec in X. apply X. left. reflexivity. }
    assert (Em : markers st = markers st0).
    { rewrite (mv_mark _ _ I). unfold mmark. rewrite Hl. simpl. apply app_nil_r. }
    split.
    - unfold marker_of_plan_left. rewrite Em.
      match goal with |- ?x = false => destruct x eqn:E; [|reflexivity] end.
      apply existsb_exists in E. destruct E as [[s k] [Hp E]]. simpl in E.
      rewrite get_marker_not_key in E; [discriminate|]. apply not_key0.
      apply splan_count_some. apply in_map_iff. exists (s, k). split; [reflexivity | exact Hp].
    - unfold status. rewrite Em. lia.
  Qed.
  (* ---------- a reader whose two reads straddle some calls ---------- *)
  Lemma madds_step : forall a st c a' st', MInv a st ->
    mstep b plan (deployed st0) (a, st) c = Some (a', st') ->
    forall s, madds (m_insts a) s <= madds (m_insts a') s.
  Proof.
    intros a st c a' st' I H s.
    destruct c as [ident n k inj | ident n id inj | n id inj | ident n inj]; cbn [mstep] in H.
    - destruct (splan_count (m_todo a) (n, ident)); [|discriminate]. destruct (Z.eqb k z); [|discriminate].
      destruct inj; [|destruct (create_processing st n ident k)]; inversion H; subst; simpl; lia.
    - match type of H with (if ?c then _ else _) = _ => destruct c end; [|discriminate].
      destruct inj; [|destruct (add_workload b st n id ident) as [x o]]; inversion H; subst; cbn [m_insts];
        rewrite madds_cons; match goal with |- context [if ?q then 1 else 0] => destruct q end; lia.
    - destruct (minst_state (n, id) (m_insts a)) as [[ident0 s0]|] eqn:Es; try discriminate.
      pose proof (mv_ids _ _ I) as NDi.
      destruct s0; try discriminate.
      + destruct inj; inversion H; subst; [lia|]. cbn [m_insts]. unfold madds.
        rewrite (cnt_set_minst _ _ _ _ _ _ NDi Es). unfold mwas_added, on_slot, mi_slot. simpl. lia.
      + inversion H; subst. cbn [m_insts]. unfold madds.
        rewrite (cnt_set_minst _ _ _ _ _ _ NDi Es). unfold mwas_added, on_slot, mi_slot. simpl. lia.
    - destruct (mem_slot (n, ident) (m_clean a)); [|discriminate]. destruct inj; inversion H; subst; simpl; lia.
  Qed.

  Lemma madds_run : forall cs a st a' st', MInv a st ->
    mrun b plan (deployed st0) (a, st) cs = Some (a', st') ->
    forall s, madds (m_insts a) s <= madds (m_insts a') s.
  Proof.
    induction cs as [|c t IH]; intros a st a' st' I H s; cbn [mrun] in H.
    - inversion H; subst. lia.
    - destruct (mstep b plan (deployed st0) (a, st) c) as [[a1 st1]|] eqn:E; [|discriminate].
      pose proof (madds_step _ _ _ _ _ I E s). pose proof (minv_step _ _ _ _ _ I E) as I1.
      pose proof (IH _ _ _ _ I1 H s). lia.
  Qed.

  (* deployed keys read in state st1, markers read in the later state st2 *)
  Theorem mtorn_of_inv : forall a1 st1 a2 st2 n, MInv a1 st1 -> MInv a2 st2 ->
    (forall s, madds (m_insts a1) s <= madds (m_insts a2) s) ->
    recorded st0 n <= status st0 n ->
    recorded st1 n <= recorded st1 n + marker_sum (markers st2) n <= status st0 n + planned_on plan n.
  Proof.
    intros a1 st1 a2 st2 n I1 I2 Hm H0.
    destruct (mstatus_formula a1 st1 n I1) as [R1 _].
    set (f := fun s => splanned plan s - madds (m_insts a2) s).
    set (pl := map fst plan).
    assert (M0 : 0 <= marker_sum (markers st0) n) by (unfold status in H0; lia).
    assert (Em : marker_sum (markers st2) n = marker_sum (markers st0) n + sum_on (m_live a2) f n).
    { rewrite (mv_mark _ _ I2). rewrite marker_sum_app. unfold mmark. rewrite marker_sum_mown. reflexivity. }
    pose proof (mv_nd _ _ I2) as ND.
    assert (LND : NoDup (m_live a2)) by (eapply NoDup_app_remove_r; exact ND).
    assert (Lsub : forall s, In s (m_live a2) -> In s pl).
    { intros s Hs. pose proof (mv_live_plan _ _ s I2 Hs) as X.
      destruct (splan_count plan s) eqn:E; [|congruence]. eapply splan_count_In. exact E. }
    assert (Isub : forall p, In p (m_insts a1) -> In (mi_slot p) pl).
    { intros p Hp. pose proof (mv_inst_plan _ _ I1 p Hp) as X.
      destruct (splan_count plan (mi_slot p)) eqn:E; [|congruence]. eapply splan_count_In. exact E. }
    assert (Fnn : forall s, 0 <= f s).
    { intros s. unfold f. pose proof (madds_le_on (m_insts a2) s). pose proof (mv_cap _ _ I2 s). lia. }
    assert (S0 : 0 <= sum_on (m_live a2) f n).
    { rewrite <- (sum_on_zero (m_live a2) n). apply sum_on_le. intros s _. apply Fnn. }
    split; [lia|].
    rewrite Em, R1. unfold status.
    rewrite (mlive_on_sum pl (m_insts a1) n plan_nd Isub).
    rewrite (sum_on_sub (m_live a2) pl f n LND plan_nd Lsub).
    rewrite (planned_on_sum plan n plan_nd). fold pl.
    assert (sum_on pl (mlive_slot (m_insts a1)) n + sum_on pl (fun s => if mem_slot s (m_live a2) then f s else 0) n
            <= sum_on pl (splanned plan) n); [|lia].
    rewrite <- sum_on_add. apply sum_on_le. intros s _.
    destruct (mlive_slot_bounds (m_insts a1) s) as [L0 L1].
    pose proof (madds_le_on (m_insts a1) s). pose proof (mv_cap _ _ I1 s). pose proof (Hm s).
    destruct (mem_slot s (m_live a2)); unfold f; lia.
  Qed.
End MInv.


(* ---------- the closed statements ---------- *)
Definition plan_wf (plan : list (slot * Z)) (st0 : dstate) : Prop :=
  NoDup (map fst plan) /\ (forall s k, In (s, k) plan -> 0 <= k)
  /\ (forall p, In p (markers st0) -> splan_count plan (fst p) = None).

Theorem multi_bounds : forall b plan st0 cs a st n,
  plan_wf plan st0 -> recorded st0 n <= status st0 n ->
  mrun b plan (deployed st0) (mstart plan, st0) cs = Some (a, st) ->
  recorded st n <= status st n <= status st0 n + planned_on plan n.
Proof.
  intros b plan st0 cs a st n [W1 [W2 W3]] H0 R.
  eapply (mbounds_of_inv plan st0 W1); [|exact H0].
  eapply (minv_run b plan st0 W3); [|exact R]. apply minv_start; assumption.
Qed.

(* every prefix of an accepted sequence is accepted, so the bounds hold at every step *)
Lemma mrun_app : forall b plan d0 cs1 cs2 s r, mrun b plan d0 s (cs1 ++ cs2) = Some r ->
  exists m, mrun b plan d0 s cs1 = Some m /\ mrun b plan d0 m cs2 = Some r.
Proof.
  induction cs1 as [|c t IH]; intros cs2 s r H; simpl in *.
  - exists s. split; [reflexivity | exact H].
  - destruct (mstep b plan d0 s c) as [s'|]; [|discriminate]. apply IH. exact H.
Qed.
Theorem multi_bounds_every_step : forall b plan st0 cs1 cs2 r a st n,
  plan_wf plan st0 -> recorded st0 n <= status st0 n ->
  mrun b plan (deployed st0) (mstart plan, st0) (cs1 ++ cs2) = Some r ->
  mrun b plan (deployed st0) (mstart plan, st0) cs1 = Some (a, st) ->
  recorded st n <= status st n <= status st0 n + planned_on plan n.
Proof. intros. eapply multi_bounds; eauto. Qed.

Theorem multi_final : forall b plan st0 cs a st n,
  plan_wf plan st0 ->
  mrun b plan (deployed st0) (mstart plan, st0) cs = Some (a, st) -> mreturned a = true ->
  marker_of_plan_left plan st = false /\ status st n = recorded st n + (status st0 n - recorded st0 n).
Proof.
  intros b plan st0 cs a st n [W1 [W2 W3]] R Hr.
  eapply (mfinal_of_inv plan st0 W3); [|exact Hr].
  eapply (minv_run b plan st0 W3); [|exact R]. apply minv_start; assumption.
Qed.

(* the bounds are reached: two deployments of one entrypoint, each planning one
   instance on node n; after both created their markers status = prior + 2 with
   nothing recorded, after both instances were added status = recorded = 2 *)
Example multi_bounds_reached :
  let plan := [(("n"%string, "a/e/1"%string), 1); (("n"%string, "a/e/2"%string), 1)] in
  let st0 := mkD [] [] in
  (exists a st, mrun Etcd plan [] (mstart plan, st0)
       [MCreateProc "a/e/1" "n" 1 false; MCreateProc "a/e/2" "n" 1 false] = Some (a, st)
     /\ status st "n" = 2 /\ recorded st "n" = 0) /\
  (exists a st, mrun Etcd plan [] (mstart plan, st0)
       [MCreateProc "a/e/1" "n" 1 false; MCreateProc "a/e/2" "n" 1 false;
        MAdd "a/e/1" "n" "w1" false; MAdd "a/e/2" "n" "w2" false] = Some (a, st)
     /\ status st "n" = 2 /\ recorded st "n" = 2).
Proof. split; eexists; eexists; split; [reflexivity | split; reflexivity | reflexivity | split; reflexivity]. Qed.

(* ---------- GetDeployStatus as the two reads it is ---------- *)
(* the code reads the deployed keys first (state st1) and the markers second
   (state st2, any number of store calls of any deployments later) *)
Definition torn_status (st1 st2 : dstate) (n : string) : Z := recorded st1 n + marker_sum (markers st2) n.

Theorem multi_torn_read : forall b plan st0 cs1 cs2 a1 st1 a2 st2 n,
  plan_wf plan st0 -> recorded st0 n <= status st0 n ->
  mrun b plan (deployed st0) (mstart plan, st0) cs1 = Some (a1, st1) ->
  mrun b plan (deployed st0) (a1, st1) cs2 = Some (a2, st2) ->
  recorded st1 n <= torn_status st1 st2 n <= status st0 n + planned_on plan n
  /\ torn_status st1 st2 n = status st2 n - (recorded st2 n - recorded st1 n).
Proof.
  intros b plan st0 cs1 cs2 a1 st1 a2 st2 n [W1 [W2 W3]] H0 R1 R2.
  assert (I1 : MInv plan st0 a1 st1).
  { eapply (minv_run b plan st0 W3); [|exact R1]. apply minv_start; assumption. }
  assert (I2 : MInv plan st0 a2 st2) by (eapply (minv_run b plan st0 W3); [exact I1 | exact R2]).
  split; [|unfold torn_status, status; lia].
  unfold torn_status. eapply (mtorn_of_inv plan st0 W1); eauto.
  eapply (madds_run b plan st0 W3); eauto.
Qed.

(* the other order (markers first, deployed keys second) breaks the upper bound:
   one deployment planning one instance, the reader straddling its AddWorkload
   sees the old marker and the new record: 2 > 0 + 1 *)
Example swapped_reads_overcount :
  let plan := [(("n"%string, "a/e/1"%string), 1)] in
  let st0 := mkD [] [] in
  exists a1 st1 a2 st2,
    mrun Redis plan [] (mstart plan, st0) [MCreateProc "a/e/1" "n" 1 false] = Some (a1, st1)
    /\ mrun Redis plan [] (a1, st1) [MAdd "a/e/1" "n" "w1" false] = Some (a2, st2)
    /\ marker_sum (markers st1) "n" + recorded st2 "n" = 2
    /\ status st0 "n" + planned_on plan "n" = 1
    (* while the code's order undercounts against the later state and stays within the bounds *)
    /\ torn_status st1 st2 "n" = 0 /\ recorded st2 "n" = 1.
Proof. do 4 eexists. repeat split; reflexivity. Qed.
