(* C13 — deploy-status counts and in-progress markers.  Executable model, no proofs.

   The part of the metadata store one (application, entrypoint) pair sees:
     deployed  the keys /deploy/<app>/<entry>/<node>/<id>         (store/*/workload.go)
     markers   the keys /processing/<app>/<entry>/<node>/<ident> -> count
   with the four store calls a deployment makes, on both backends:
     CreateProcessing      etcd: create-if-absent txn; redis: MULTI{SETNX}   (processing.go)
     AddWorkload+decrement etcd: Get, then compare-value txn {puts; put cnt-1}, retried
                           (meta/etcd.go:BatchCreateAndDecr) - atomic at call granularity;
                           redis: MULTI{DECR; SETNX...} (rediaron.go:BatchCreateAndDecr),
                           DECR creates a missing key with value -1
     RemoveWorkload        delete the keys (cleanWorkloadData)
     DeleteProcessing      delete the marker
   and GetDeployStatus = per node: number of deployed keys + sum of markers
   (store/*/deploy.go).

   A deployment (create.go:doCreateWorkloads) is a sequence of such calls:
   markers for the planned nodes in the condition step, then the instance
   goroutines (AddWorkload, and RemoveWorkload when a later step of the
   instance fails), interleaved arbitrarily, then DeleteProcessing for every
   planned node.  [step] accepts exactly these sequences, one call at a time,
   and executes them on the store; every prefix of an accepted sequence is an
   intermediate state at which a reader may look. *)
From Coq Require Import List Bool String ZArith.
Import ListNotations.
Local Open Scope Z_scope.

Inductive backend := Etcd | Redis.

Definition dkey := (string * string)%type.   (* node, workload id *)
Definition mkey := (string * string)%type.   (* node, deployment ident *)
Record dstate := mkD { deployed : list dkey; markers : list (mkey * Z) }.

Definition pair_eqb (a b : string * string) : bool :=
  String.eqb (fst a) (fst b) && String.eqb (snd a) (snd b).

Definition has_key (k : dkey) (l : list dkey) : bool := existsb (pair_eqb k) l.
(* Put (etcd) / SETNX (redis) of a key whose value is not counted: a key set *)
Definition add_key (k : dkey) (l : list dkey) : list dkey := if has_key k l then l else k :: l.
Definition del_key (k : dkey) (l : list dkey) : list dkey := filter (fun x => negb (pair_eqb k x)) l.

Fixpoint get_marker (k : mkey) (ms : list (mkey * Z)) : option Z :=
  match ms with
  | [] => None
  | (k', v) :: t => if pair_eqb k k' then Some v else get_marker k t
  end.
Fixpoint set_marker (k : mkey) (v : Z) (ms : list (mkey * Z)) : list (mkey * Z) :=
  match ms with
  | [] => [(k, v)]
  | (k', v') :: t => if pair_eqb k k' then (k', v) :: t else (k', v') :: set_marker k v t
  end.
Definition del_marker (k : mkey) (ms : list (mkey * Z)) : list (mkey * Z) :=
  filter (fun p => negb (pair_eqb k (fst p))) ms.

(* ---- the store calls; result = (new state, call succeeded) ---- *)
Definition create_processing (st : dstate) (node ident : string) (count : Z) : dstate * bool :=
  match get_marker (node, ident) (markers st) with
  | Some _ => (st, false)                                   (* ErrKeyExists / ErrAlreadyExists *)
  | None => (mkD (deployed st) (set_marker (node, ident) count (markers st)), true)
  end.

Definition add_workload (b : backend) (st : dstate) (node id ident : string) : dstate * bool :=
  match b, get_marker (node, ident) (markers st) with
  | Etcd, None => (st, false)                               (* ErrKeyNotExists, nothing written *)
  | Etcd, Some v =>
      (mkD (add_key (node, id) (deployed st)) (set_marker (node, ident) (v - 1) (markers st)), true)
  | Redis, Some v =>
      (mkD (add_key (node, id) (deployed st)) (set_marker (node, ident) (v - 1) (markers st)), true)
  | Redis, None =>                                          (* DECR of a missing key: -1 *)
      (mkD (add_key (node, id) (deployed st)) (set_marker (node, ident) (-1) (markers st)), true)
  end.

Definition remove_workload (st : dstate) (node id : string) : dstate :=
  mkD (del_key (node, id) (deployed st)) (markers st).

Definition delete_processing (st : dstate) (node ident : string) : dstate :=
  mkD (deployed st) (del_marker (node, ident) (markers st)).

(* ---- what readers see ---- *)
Definition recorded (st : dstate) (n : string) : Z :=
  Z.of_nat (List.length (filter (fun k => String.eqb (fst k) n) (deployed st))).
Fixpoint marker_sum (ms : list (mkey * Z)) (n : string) : Z :=
  match ms with
  | [] => 0
  | ((n', _), v) :: t => (if String.eqb n' n then v else 0) + marker_sum t n
  end.
(* store/*/deploy.go:GetDeployStatus (value for node n; absent = 0) *)
Definition status (st : dstate) (n : string) : Z := recorded st n + marker_sum (markers st) n.
Definition has_marker_of (st : dstate) (ident : string) : bool :=
  existsb (fun p => String.eqb (snd (fst p)) ident) (markers st).

(* ---- one deployment as a sequence of store calls ---- *)
Inductive call :=
| CCreateProc (node : string) (count : Z) (inj : bool)   (* inj: injected fault, the call does not execute *)
| CAdd (node id : string) (inj : bool)
| CRemove (node id : string) (inj : bool)
| CDelProc (node : string) (inj : bool).

(* an instance that reached AddWorkload: recorded / add failed / recorded and
   removed again by the instance's rollback / add failed and rollback done *)
Inductive istate := IAdded | IAddFailed | IRemoved | IFailedGone.
Inductive phase := PCond | PDeploy | PClean.

Record acc := mkAcc {
  a_phase : phase;
  a_todo : list (string * Z);           (* planned nodes whose marker is not created yet *)
  a_insts : list (dkey * istate);       (* instances that reached AddWorkload, most recent first *)
  a_clean : list string;                (* planned nodes whose marker deletion has not succeeded yet *)
  a_live : list string                  (* nodes whose marker of this deployment exists, in creation order *)
}.

Fixpoint plan_count (plan : list (string * Z)) (n : string) : option Z :=
  match plan with
  | [] => None
  | (n', k) :: t => if String.eqb n' n then Some k else plan_count t n
  end.
Definition planned (plan : list (string * Z)) (n : string) : Z :=
  match plan_count plan n with Some k => k | None => 0 end.
Fixpoint remove_plan (n : string) (plan : list (string * Z)) : list (string * Z) :=
  match plan with
  | [] => []
  | (n', k) :: t => if String.eqb n' n then t else (n', k) :: remove_plan n t
  end.
Fixpoint remove_str (n : string) (l : list string) : list string :=
  match l with
  | [] => []
  | x :: t => if String.eqb x n then t else x :: remove_str n t
  end.
Definition mem_str (x : string) (l : list string) : bool := existsb (String.eqb x) l.

Definition insts_on (insts : list (dkey * istate)) (n : string) : Z :=
  Z.of_nat (List.length (filter (fun p => String.eqb (fst (fst p)) n) insts)).
Fixpoint inst_state (k : dkey) (insts : list (dkey * istate)) : option istate :=
  match insts with
  | [] => None
  | (k', s) :: t => if pair_eqb k k' then Some s else inst_state k t
  end.
Fixpoint set_inst (k : dkey) (s : istate) (insts : list (dkey * istate)) : list (dkey * istate) :=
  match insts with
  | [] => []
  | (k', s') :: t => if pair_eqb k k' then (k', s) :: t else (k', s') :: set_inst k s t
  end.
Definition id_used (id : string) (insts : list (dkey * istate)) (d0 : list dkey) : bool :=
  existsb (fun p => String.eqb (snd (fst p)) id) insts || existsb (fun k => String.eqb (snd k) id) d0.

Definition start_acc (plan : list (string * Z)) : acc := mkAcc PCond plan [] (map fst plan) [].

(* [step] = accept the next call of the deployment and execute it.
   d0 = deploy keys present before the deployment (ids must be fresh w.r.t. them) *)
Definition step (b : backend) (ident : string) (plan : list (string * Z)) (d0 : list dkey)
    (s : acc * dstate) (c : call) : option (acc * dstate) :=
  let '(a, st) := s in
  match c with
  | CCreateProc n k inj =>
      match a_phase a, plan_count (a_todo a) n with
      | PCond, Some k' =>
          if Z.eqb k k' then
            let '(st', ok) := if inj then (st, false) else create_processing st n ident k in
            (* a failing call ends the condition step: nothing is deployed *)
            Some (mkAcc (if ok then PCond else PClean) (remove_plan n (a_todo a)) (a_insts a) (a_clean a)
                        (if ok then a_live a ++ [n] else a_live a), st')
          else None
      | _, _ => None
      end
  | CAdd n id inj =>
      let can := match a_phase a with
                 | PDeploy => true
                 | PCond => match a_todo a with [] => true | _ => false end
                 | PClean => false
                 end in
      if can && negb (id_used id (a_insts a) d0)
         && match plan_count plan n with Some k => Z.ltb (insts_on (a_insts a) n) k | None => false end
      then
        let '(st', ok) := if inj then (st, false) else add_workload b st n id ident in
        Some (mkAcc PDeploy (a_todo a) (((n, id), if ok then IAdded else IAddFailed) :: a_insts a)
                    (a_clean a) (a_live a), st')
      else None
  | CRemove n id inj =>
      match a_phase a, inst_state (n, id) (a_insts a) with
      | PDeploy, Some IAdded =>
          if inj then Some (a, st)    (* the record stays although the instance failed *)
          else Some (mkAcc PDeploy (a_todo a) (set_inst (n, id) IRemoved (a_insts a)) (a_clean a) (a_live a),
                     remove_workload st n id)
      | PDeploy, Some IAddFailed =>
          Some (mkAcc PDeploy (a_todo a) (set_inst (n, id) IFailedGone (a_insts a)) (a_clean a) (a_live a),
                if inj then st else remove_workload st n id)
      | _, _ => None
      end
  | CDelProc n inj =>
      if mem_str n (a_clean a) then
        if inj then Some (mkAcc PClean (a_todo a) (a_insts a) (a_clean a) (a_live a), st)
        else Some (mkAcc PClean (a_todo a) (a_insts a) (remove_str n (a_clean a)) (remove_str n (a_live a)),
                   delete_processing st n ident)
      else None
  end.

Fixpoint run (b : backend) (ident : string) (plan : list (string * Z)) (d0 : list dkey)
    (s : acc * dstate) (cs : list call) : option (acc * dstate) :=
  match cs with
  | [] => Some s
  | c :: t => match step b ident plan d0 s c with
              | Some s' => run b ident plan d0 s' t
              | None => None
              end
  end.

(* the deployment has returned: every marker deletion was issued *)
Definition returned (a : acc) : bool := match a_clean a with [] => true | _ => false end.

(* ---------- cases of the correspondence check ---------- *)
(* a probe = what the implementation reported for each node of the universe
   after a prefix of the calls: (GetDeployStatus value, number of recorded workloads) *)
Record case := mkCase {
  c_backend : backend;
  c_ident : string;
  c_nodes : list string;                (* node universe of the probes *)
  c_plan : list (string * Z);
  c_init : dstate;                      (* store before the deployment *)
  c_calls : list call;
  c_results : list bool;                (* success of each call as observed *)
  c_probes : list (list (Z * Z));       (* length = 1 + number of calls: before, after each call *)
  c_intra : list (list (list (Z * Z))); (* per call: probes taken INSIDE the call, before each command the
                                           store sent to redis (empty on etcd): a call is one MULTI/EXEC, so a
                                           reader between two commands sees the state before or after the call *)
  c_torn : list (list (list Z));        (* per call: GetDeployStatus values (one per node) returned to a reader
                                           whose own reads straddle the call: it was stopped before one of its
                                           requests, the call ran completely, the reader went on *)
  c_markers_left : bool;                (* a marker of this ident exists after the last call *)
  c_returned : bool                     (* the deployment returned to its caller (the real CreateWorkload closed its
                                           channel / the driver ran the whole clean-up), as opposed to being cut short *)
}.

Definition probe_of (st : dstate) (nodes : list string) : list (Z * Z) :=
  map (fun n => (status st n, recorded st n)) nodes.

(* model: states after each prefix, and the result of each call *)
Fixpoint trace (b : backend) (ident : string) (plan : list (string * Z)) (d0 : list dkey)
    (s : acc * dstate) (cs : list call) : option (list (acc * dstate)) :=
  match cs with
  | [] => Some [s]
  | c :: t => match step b ident plan d0 s c with
              | Some s' => match trace b ident plan d0 s' t with
                           | Some r => Some (s :: r)
                           | None => None
                           end
              | None => None
              end
  end.

Definition call_result (b : backend) (ident : string) (st : dstate) (c : call) : bool :=
  match c with
  | CCreateProc n k inj => if inj then false else snd (create_processing st n ident k)
  | CAdd n id inj => if inj then false else snd (add_workload b st n id ident)
  | CRemove _ _ inj | CDelProc _ inj => negb inj
  end.

Fixpoint zz_list_eqb (a b : list (Z * Z)) : bool :=
  match a, b with
  | [], [] => true
  | (x1, y1) :: s, (x2, y2) :: t => Z.eqb x1 x2 && Z.eqb y1 y2 && zz_list_eqb s t
  | _, _ => false
  end.
Fixpoint probes_eqb (a b : list (list (Z * Z))) : bool :=
  match a, b with
  | [], [] => true
  | x :: s, y :: t => zz_list_eqb x y && probes_eqb s t
  | _, _ => false
  end.
Fixpoint bools_eqb (a b : list bool) : bool :=
  match a, b with
  | [], [] => true
  | x :: s, y :: t => Bool.eqb x y && bools_eqb s t
  | _, _ => false
  end.
Fixpoint results_of (b : backend) (ident : string) (sts : list (acc * dstate)) (cs : list call) : list bool :=
  match sts, cs with
  | s :: st', c :: ct => call_result b ident (snd s) c :: results_of b ident st' ct
  | _, _ => []
  end.

(* every probe taken inside call i shows the model state before or after call i *)
Fixpoint intra_agree (ps : list (list (Z * Z))) (intra : list (list (list (Z * Z)))) : bool :=
  match ps, intra with
  | pre :: ((post :: _) as rest), l :: more =>
      forallb (fun q => zz_list_eqb q pre || zz_list_eqb q post) l && intra_agree rest more
  | _, [] => true
  | _, _ => false
  end.

(* GetDeployStatus is two reads: the deployed keys first, the markers second
   (store/etcdv3/deploy.go, store/redis/deploy.go).  A reader straddling a call
   sees, per node, the status before the call, the status after it, or the
   TORN value: recorded before + markers after *)
Definition torn_value (pre post : Z * Z) : Z := snd pre + (fst post - snd post).
Fixpoint torn_row (pre post : list (Z * Z)) (row : list Z) : bool :=
  match pre, post, row with
  | [], [], [] => true
  | a :: pre', b :: post', x :: row' =>
      (Z.eqb x (fst a) || Z.eqb x (fst b) || Z.eqb x (torn_value a b)) && torn_row pre' post' row'
  | _, _, _ => false
  end.
Fixpoint torn_agree (ps : list (list (Z * Z))) (torn : list (list (list Z))) : bool :=
  match ps, torn with
  | pre :: ((post :: _) as rest), l :: more => forallb (torn_row pre post) l && torn_agree rest more
  | _, [] => true
  | _, _ => false
  end.

Definition agree (c : case) : bool :=
  match trace (c_backend c) (c_ident c) (c_plan c) (deployed (c_init c))
              (start_acc (c_plan c), c_init c) (c_calls c) with
  | None => false          (* the implementation's call sequence is not a deployment the model knows *)
  | Some sts =>
      probes_eqb (map (fun s => probe_of (snd s) (c_nodes c)) sts) (c_probes c)
      && intra_agree (map (fun s => probe_of (snd s) (c_nodes c)) sts) (c_intra c)
      && torn_agree (map (fun s => probe_of (snd s) (c_nodes c)) sts) (c_torn c)
      && bools_eqb (results_of (c_backend c) (c_ident c) sts (c_calls c)) (c_results c)
      && Bool.eqb (has_marker_of (snd (last sts (start_acc (c_plan c), c_init c))) (c_ident c)) (c_markers_left c)
  end.

(* boolean reflection of the property on what the implementation reported:
   at every probe  recorded <= status <= prior + planned;  after a deployment
   that returned (all deletions issued, none injected to fail): status = recorded
   + what other deployments' markers contributed before, and no marker of this ident *)
Definition bounds_ok (plan : list (string * Z)) (nodes : list string) (prior probe : list (Z * Z)) : bool :=
  forallb (fun t => let '(n, (p, q)) := t in
                    Z.leb (snd q) (fst q) && Z.leb (fst q) (fst p + planned plan n))
          (combine nodes (combine prior probe)).
(* status - recorded = what the markers of OTHER deployments of this (app, entrypoint)
   contribute; in particular records and markers of other applications / entrypoints -
   also those whose names merely share a prefix - never count *)
Definition exact_ok (init : dstate) (nodes : list string) (probe : list (Z * Z)) : bool :=
  forallb (fun t => let '(n, q) := t in Z.eqb (fst q - snd q) (marker_sum (markers init) n)) (combine nodes probe).

(* the straddling reader: what was recorded when it started <= its value <= prior + planned *)
Definition torn_bounds (plan : list (string * Z)) (nodes : list string) (prior pre : list (Z * Z)) (row : list Z) : bool :=
  Nat.eqb (List.length row) (List.length nodes) &&
  forallb (fun t => let '(n, ((p, q), x)) := t in
                    Z.leb (snd q) x && Z.leb x (fst p + planned plan n))
          (combine nodes (combine (combine prior pre) row)).
Fixpoint torn_ok (plan : list (string * Z)) (nodes : list string) (prior : list (Z * Z))
    (ps : list (list (Z * Z))) (torn : list (list (list Z))) : bool :=
  match ps, torn with
  | pre :: rest, l :: more => forallb (torn_bounds plan nodes prior pre) l && torn_ok plan nodes prior rest more
  | _, [] => true
  | _, _ => false
  end.

Definition all_deletes_issued (plan : list (string * Z)) (cs : list call) : bool :=
  forallb (fun n => existsb (fun c => match c with CDelProc n' false => String.eqb n n' | _ => false end) cs)
          (map fst plan).

(* no DeleteProcessing of the deployment was made to fail by the harness (only an
   INJECTED store failure excuses a remaining marker; a deletion that fails for any
   other reason - e.g. because it was issued with the caller's cancelled context -
   does not) *)
Definition no_injected_delete (cs : list call) : bool :=
  forallb (fun c => match c with CDelProc _ true => false | _ => true end) cs.

Definition ok (c : case) : bool :=
  match c_probes c with
  | [] => false
  | prior :: _ =>
      exact_ok (c_init c) (c_nodes c) prior
      && forallb (bounds_ok (c_plan c) (c_nodes c) prior) (c_probes c)
      && forallb (forallb (bounds_ok (c_plan c) (c_nodes c) prior)) (c_intra c)
      && torn_ok (c_plan c) (c_nodes c) prior (c_probes c) (c_torn c)
      && (if all_deletes_issued (c_plan c) (c_calls c)
          then exact_ok (c_init c) (c_nodes c) (last (c_probes c) prior) && negb (c_markers_left c)
          else true)
      (* a deployment that returned and none of whose marker deletions was injected to fail leaves no marker -
         whatever its plan was (also for nodes planned with 0 instances) and wherever it stopped *)
      && (if c_returned c && no_injected_delete (c_calls c) then negb (c_markers_left c) else true)
  end.
