(* C22: every operation run in isolation preserves Ref, for ALL worlds and
   names (no bound); with one injected failure at any store / plugin step,
   AddNode and RemoveNode preserve Ref except for the two named excuses. *)
From Coq Require Import List Bool String Arith Lia.
From Verif Require Import Calcium.Refs.
Import ListNotations.
Local Open Scope string_scope.

Record RefP (w : rw) : Prop := {
  rp_pod : forall n p, In (n, p) (nodes w) -> In p (pods w);
  rp_res : forall n p, In (n, p) (nodes w) -> In n (nres w);
  rp_node : forall n, In n (nres w) -> In n (node_names w);
  rp_wl : forall id n, In (id, n) (wls w) -> In n (node_names w)
}.

Lemma mem_In : forall x l, mem x l = true <-> In x l.
Proof.
  intros. unfold mem. rewrite existsb_exists. split.
  - intros [y [Hy E]]. apply String.eqb_eq in E. subst. exact Hy.
  - intros H. exists x. split; [exact H | apply String.eqb_refl].
Qed.
Lemma mem_false : forall x l, mem x l = false <-> ~ In x l.
Proof.
  intros. rewrite <- mem_In. destruct (mem x l); split; intro H.
  - discriminate.
  - exfalso. apply H. reflexivity.
  - intro H'. discriminate.
  - reflexivity.
Qed.

Lemma ref_ok_RefP : forall w, ref_ok w = true <-> RefP w.
Proof.
  intros w. unfold ref_ok. rewrite !andb_true_iff, !forallb_forall. split.
  - intros [[[H1 H2] H3] H4]. constructor.
    + intros n p H. apply mem_In. exact (H1 (n, p) H).
    + intros n p H. apply mem_In. exact (H2 (n, p) H).
    + intros n H. apply mem_In. exact (H3 n H).
    + intros id n H. apply mem_In. exact (H4 (id, n) H).
  - intros [H1 H2 H3 H4]. repeat split.
    + intros [n p] H. apply mem_In. eapply H1. exact H.
    + intros [n p] H. apply mem_In. eapply H2. exact H.
    + intros n H. apply mem_In. apply H3. exact H.
    + intros [id n] H. apply mem_In. eapply H4. exact H.
Qed.

Lemma in_rm : forall x y l, In y (rm x l) <-> In y l /\ y <> x.
Proof.
  intros. unfold rm. rewrite filter_In. split; intros [H1 H2]; split; auto.
  - intro E. subst. rewrite String.eqb_refl in H2. discriminate.
  - destruct (String.eqb x y) eqn:E; [apply String.eqb_eq in E; subst; congruence | reflexivity].
Qed.

Lemma in_node_names : forall w n, In n (node_names w) <-> exists p, In (n, p) (nodes w).
Proof.
  intros. unfold node_names. rewrite in_map_iff. split.
  - intros [[n' p] [E H]]. cbn in E. subst. exists p. exact H.
  - intros [p H]. exists (n, p). split; [reflexivity | exact H].
Qed.

Lemma node_pod_spec : forall w n p, node_pod w n = Some p -> In (n, p) (nodes w).
Proof.
  intros w n p H. unfold node_pod in H. destruct (find _ (nodes w)) as [[n' p']|] eqn:E; [|discriminate].
  inversion H; subst. apply find_some in E. destruct E as [Hin E]. cbn in E. apply String.eqb_eq in E. subst. exact Hin.
Qed.
Lemma node_pod_none : forall w n, node_pod w n = None -> ~ In n (node_names w).
Proof.
  intros w n H Hin. unfold node_pod in H. destruct (find _ (nodes w)) eqn:E; [discriminate|].
  apply in_node_names in Hin. destruct Hin as [p Hp].
  pose proof (find_none _ _ E _ Hp) as X. cbn in X. rewrite String.eqb_refl in X. discriminate.
Qed.

(* run one thread alone *)
Fixpoint run1 (fuel : nat) (w : rw) (t : thread) : rw * thread :=
  match fuel with
  | O => (w, t)
  | S f => match step_thread w 0 t with
           | Some (w', t', _) => run1 f w' t'
           | None => (w, t)
           end
  end.

Lemma run1_sched : forall fuel w t tr,
  let '(w', t') := run1 fuel w t in
  exists tr', run_sched w [t] (repeat 0 fuel) tr = (w', [t'], tr').
Proof.
  induction fuel as [|f IH]; intros w t tr; cbn.
  - eexists. reflexivity.
  - destruct (step_thread w 0 t) as [[[w1 t1] e]|] eqn:S.
    + specialize (IH w1 t1 (e :: tr)). destruct (run1 f w1 t1) as [w' t']. exact IH.
    + clear IH. revert tr. induction f as [|f IHf]; intros tr; cbn; [eexists; reflexivity|]. rewrite S. apply IHf.
Qed.

Lemma rm_head : forall n l, ~ In n l -> rm n (n :: l) = l.
Proof.
  intros n l H. unfold rm. cbn. rewrite String.eqb_refl. cbn.
  induction l as [|y t IH]; [reflexivity|]. cbn.
  destruct (String.eqb n y) eqn:E.
  - apply String.eqb_eq in E. subst. exfalso. apply H. left. reflexivity.
  - cbn. f_equal. apply IH. intro Hx. apply H. right. exact Hx.
Qed.

Lemma mem_head : forall n l, mem n (n :: l) = true.
Proof. intros. unfold mem. cbn. rewrite String.eqb_refl. reflexivity. Qed.

Ltac crunch := repeat (cbn -[mem rm node_names node_pod wl_node]; rewrite ?mem_head;
  try match goal with |- context [if mem ?a ?b then _ else _] => let E := fresh "E" in destruct (mem a b) eqn:E end).

(* RefP of the worlds the scripts end in *)
Lemma refp_eta : forall w l, RefP w -> l = nres w -> RefP (mkRw (pods w) (nodes w) l (wls w) (held w)).
Proof. intros w l [H1 H2 H3 H4] E. subst. constructor; assumption. Qed.

Lemma refp_undo_nres : forall w n, RefP w -> mem n (nres w) = false ->
  RefP (set_nres (set_nres w (n :: nres w)) (rm n (n :: nres w))).
Proof.
  intros w n R E. apply mem_false in E. unfold set_nres. cbn [pods nodes nres wls held].
  apply refp_eta; [exact R | apply rm_head; exact E].
Qed.

Lemma refp_add_node : forall w n p, RefP w -> mem n (nres w) = false -> mem p (pods w) = true ->
  RefP (set_nodes (set_nres w (n :: nres w)) ((n, p) :: nodes w)).
Proof.
  intros w n p [H1 H2 H3 H4] En Ep. apply mem_In in Ep. constructor; unfold node_names in *; cbn [pods nodes nres wls set_nodes set_nres map fst] in *.
  - intros n' p' [H|H]; [inversion H; subst; exact Ep | eapply H1; exact H].
  - intros n' p' [H|H]; [inversion H; subst; left; reflexivity | right; eapply H2; exact H].
  - intros n' [H|H]; [left; exact H | right; apply H3; exact H].
  - intros id n' H. right. eapply H4. exact H.
Qed.

Lemma refp_add_pod : forall w p, RefP w -> RefP (set_pods w (p :: pods w)).
Proof.
  intros w p [H1 H2 H3 H4]. constructor; unfold node_names in *; cbn [pods nodes nres wls set_pods] in *; auto.
  intros n p' H. right. eapply H1. exact H.
Qed.

Lemma refp_del_pod : forall w p, RefP w -> (forall n, ~ In (n, p) (nodes w)) -> RefP (set_pods w (rm p (pods w))).
Proof.
  intros w p [H1 H2 H3 H4] Hn. constructor; unfold node_names in *; cbn [pods nodes nres wls set_pods] in *; auto.
  intros n p' H. apply in_rm. split; [eapply H1; exact H|]. intro E. subst. exact (Hn n H).
Qed.

Lemma refp_held : forall w h, RefP w -> RefP (set_held w h).
Proof. intros w h [H1 H2 H3 H4]. constructor; assumption. Qed.

Lemma refp_remove_node : forall w n, RefP w -> (forall id, ~ In (id, n) (wls w)) ->
  RefP (set_nres (set_nodes w (filter (fun x => negb (String.eqb (fst x) n)) (nodes w))) (rm n (nres w))).
Proof.
  intros w n [H1 H2 H3 H4] Hw. constructor; unfold node_names in *; cbn [pods nodes nres wls set_nodes set_nres] in *.
  - intros n' p' H. apply filter_In in H. destruct H as [H _]. eapply H1. exact H.
  - intros n' p' H. apply filter_In in H. destruct H as [H E]. cbn in E. apply in_rm. split; [eapply H2; exact H|].
    intro X. subst. rewrite String.eqb_refl in E. discriminate.
  - intros n' H. apply in_rm in H. destruct H as [H Hne]. apply H3 in H. apply in_map_iff in H. destruct H as [[a b] [E H]].
    cbn in E. subst a. apply in_map_iff. exists (n', b). split; [reflexivity|]. apply filter_In. split; [exact H|]. cbn.
    destruct (String.eqb n' n) eqn:X; [apply String.eqb_eq in X; congruence | reflexivity].
  - intros id n' H. pose proof (H4 id n' H) as X. apply in_map_iff in X. destruct X as [[a b] [E X]]. cbn in E. subst a.
    apply in_map_iff. exists (n', b). split; [reflexivity|]. apply filter_In. split; [exact X|]. cbn.
    destruct (String.eqb n' n) eqn:Y; [apply String.eqb_eq in Y; subst; exfalso; exact (Hw id H) | reflexivity].
Qed.

Lemma list_pod_nodes_nil : forall w p, map fst (filter (fun x => String.eqb (snd x) p) (nodes w)) = [] -> forall n, ~ In (n, p) (nodes w).
Proof.
  intros w p H n Hin. assert (X : In n (map fst (filter (fun x => String.eqb (snd x) p) (nodes w)))).
  { apply in_map_iff. exists (n, p). split; [reflexivity|]. apply filter_In. split; [exact Hin | cbn; apply String.eqb_refl]. }
  rewrite H in X. destruct X.
Qed.

Lemma list_node_wls_nil : forall w n, map fst (filter (fun x => String.eqb (snd x) n) (wls w)) = [] -> forall id, ~ In (id, n) (wls w).
Proof.
  intros w n H id Hin. assert (X : In id (map fst (filter (fun x => String.eqb (snd x) n) (wls w)))).
  { apply in_map_iff. exists (id, n). split; [reflexivity|]. apply filter_In. split; [exact Hin | cbn; apply String.eqb_refl]. }
  rewrite H in X. destruct X.
Qed.

(* ---------- AddPod ---------- *)
Theorem add_pod_ref : forall w p, RefP w ->
  let '(w', t') := run1 4 w (mkTh (add_pod p) 0 None) in finished t' = true /\ RefP w'.
Proof. intros w p R. crunch; (split; [reflexivity|]); [exact R | apply refp_add_pod; exact R]. Qed.

(* ---------- AddNode, every single fault ---------- *)
Theorem add_node_ref : forall w n p fl, RefP w ->
  let '(w', t') := run1 8 w (mkTh (add_node n p) 0 fl) in
  finished t' = true /\
  (RefP w' \/ (* the injected failure hit the compensating plugin removal *)
              exists j, fl = Some j /\ (j = 2 \/ j = 3)%nat).
Proof.
  intros w n p fl R.
  destruct fl as [[|[|[|[|j]]]]|]; crunch; (split; [reflexivity|]);
    try (left; first [exact R | apply refp_undo_nres; assumption | apply refp_add_node; assumption]);
    try (right; eexists; split; [reflexivity | lia]).
Qed.

Lemma eqb_refl_and : forall k, String.eqb k k && Nat.eqb 0 0 = true.
Proof. intros. rewrite String.eqb_refl. reflexivity. Qed.

Lemma node_pod_set_held : forall w h n, node_pod (set_held w h) n = node_pod w n.
Proof. reflexivity. Qed.

Ltac crunch2 := repeat (cbn -[mem rm node_names node_pod wl_node plock clock]; rewrite ?mem_head, ?String.eqb_refl, ?node_pod_set_held;
  try match goal with
      | |- context [if mem ?a ?b then _ else _] => let E := fresh "E" in destruct (mem a b) eqn:E
      | |- context [match node_pod ?w ?n with _ => _ end] => let E := fresh "E" in destruct (node_pod w n) eqn:E
      | |- context [map fst (filter ?f ?l)] => let E := fresh "E" in destruct (map fst (filter f l)) eqn:E
      | |- context [if negb (String.eqb ?a ?b) then _ else _] => let E := fresh "Q" in destruct (String.eqb a b) eqn:E
      end).

(* ---------- RemovePod ---------- *)
Theorem remove_pod_ref : forall w p, RefP w -> held w = [] ->
  let '(w', t') := run1 8 w (mkTh (remove_pod p) 0 None) in finished t' = true /\ RefP w'.
Proof.
  intros [ps ns rs ws hs] p R Hh. cbn in Hh. subst hs. crunch2;
    (split; [reflexivity|]); repeat apply refp_held;
    first [ exact R
          | apply refp_del_pod; [repeat apply refp_held; exact R | cbn; eapply (list_pod_nodes_nil (mkRw ps ns rs ws [])); eassumption]
          | exfalso; congruence ].
Qed.

(* ---------- RemoveNode, every single fault ---------- *)
Theorem remove_node_ref : forall w n fl, RefP w -> held w = [] ->
  let '(w', t') := run1 14 w (mkTh (remove_node n) 0 fl) in
  finished t' = true /\
  (RefP w' \/ (* the plugin removal was hit by the failure after the store record was removed *) fl = Some 6%nat).
Proof.
  intros [ps ns rs ws hs] n fl R Hh. cbn in Hh. subst hs.
  destruct fl as [[|[|[|[|[|[|[|j]]]]]]]|]; crunch2; (split; [reflexivity|]);
    try (left; repeat apply refp_held; exact R);
    try (right; reflexivity);
    try (left; repeat apply refp_held;
         apply (refp_remove_node (set_held (mkRw ps ns rs ws []) [(plock s, 0)]) n);
         [apply refp_held; exact R | cbn; eapply (list_node_wls_nil (mkRw ps ns rs ws [])); eassumption]).
  (* the node exists but has no resource record: impossible in a Ref world *)
  all: exfalso;
       match goal with H : node_pod _ _ = Some _ |- _ =>
         apply node_pod_spec in H; pose proof (rp_res _ R _ _ H) as X; cbn in X; apply mem_In in X; congruence
       end.
Qed.
