(* Calcium/Run.v — histories of API calls over the abstract world, the case type
   of the correspondence check (C10, C11, C12, C30), [agree] (model == observed)
   and the boolean reflections of the four properties, evaluated on what the
   implementation did.  No proofs here. *)
From Coq Require Import List Bool Arith ZArith.
From Verif Require Import Base.Effects Calcium.World Calcium.Ops.
Import ListNotations.
Local Open Scope Z_scope.

(* ---- API calls ---- *)
Inductive op :=
| OAddPod (p : name)
| OAddNode (n p : name) (cap : res)
| ORemoveNode (n : name)
| OSetNode (n : name) (bypass : option bool) (mem : option (Z * bool)) (label : option nat)
| OCreate (opi : nat) (pod : name) (count : nat) (r : res) (plan : option (list (name * nat)))
| ORemove (ids : list wid) (force : bool)
| ODissociate (ids : list wid)
| ORealloc (id : wid) (req : res)
| OReplace (opi : nat) (ids : list wid)
| OLambda (opi : nat) (pod : name) (count : nat) (r : res) (plan : option (list (name * nat))) (stdin : bool) (ls : lscript).

(* result of one API call: error class of the call itself (0 nil, 1 injected, 2 natural),
   messages in the order they were sent *)
Definition eclass (e : oerr) : Z := match e with None => 0 | Some EInjected => 1 | Some ENatural => 2 end.

Definition unit_ok (p : cprog unit) : cprog oerr := p ;;; rok.

Definition script_of (o : op) : cprog oerr :=
  match o with
  | OAddPod p => add_pod p
  | OAddNode n p cap => add_node n p cap
  | ORemoveNode n => remove_node n
  | OSetNode n b m l => set_node n b m l
  | OCreate opi pod count r plan =>
    if Nat.eqb count 0 then Ret (Some ENatural) else create opi pod r plan ;;; rok
  | ORemove ids force => remove true ids force
  | ODissociate ids => dissociate ids
  | ORealloc id req => realloc id req
  | OReplace opi ids => unit_ok (replace opi ids)
  | OLambda opi pod count r plan stdin ls =>
    if Nat.eqb count 0 then Ret (Some ENatural)
    else if stdin && negb (Nat.eqb count 1) then Ret (Some ENatural)
    else unit_ok (lambda opi pod r plan stdin (ls_lines ls))
  end.

Definition prepare_world (w : world) (o : op) : world :=
  let w1 := set_out w [] in
  match o with
  | OLambda _ _ _ _ _ _ ls => set_script w1 ls
  | _ => w1
  end.

Record opres := mkRes { r_world : world; r_err : Z; r_msgs : list msg; r_trace : list (call * bool); r_crashed : bool }.

Definition run_op (w : world) (o : op) (f : option cfault) : opres :=
  let '(s, r) := crun (script_of o) (init_ist (prepare_world w o) f) in
  mkRes (i_world s)
        (match r with Some e => eclass e | None => 3 end)
        (rev (out (i_world s)))
        (rev (i_trace s))
        (match r with None => true | Some _ => false end).

(* ---- encodings into list Z, for order-insensitive comparison ---- *)
Definition zn (n : nat) : Z := Z.of_nat n.
Definition enc_wid (i : wid) : list Z := [zn (wi_op i); zn (wi_node i); zn (wi_idx i)].
Definition enc_bool (b : bool) : Z := if b then 1 else 0.
Definition enc_oerr (e : oerr) : Z := eclass e.
Definition enc_msg (m : msg) : list Z :=
  match m with
  | MCreateErr => [1]
  | MCreateFail n => [2; zn n]
  | MCreateOk id r => 3 :: enc_wid id ++ [fst r; snd r]
  | MRemove id ok => 4 :: enc_wid id ++ [enc_bool ok]
  | MRemoveNodeFail => [5]
  | MDissociate id e => 6 :: enc_wid id ++ [enc_oerr e]
  | MReplace old new removed e =>
    7 :: enc_wid old ++ (match new with Some i => 1 :: enc_wid i | None => [0] end) ++ [enc_bool removed; enc_oerr e]
  | MLambdaErr None => [8]
  | MLambdaErr (Some id) => 9 :: enc_wid id
  | MLambdaOut id => 10 :: enc_wid id
  | MLambdaExit id c => 11 :: enc_wid id ++ [c]
  | MClose => [12]
  end.

Fixpoint lex_leb (a b : list Z) : bool :=
  match a, b with
  | [], _ => true
  | _ :: _, [] => false
  | x :: s, y :: t => if x <? y then true else if y <? x then false else lex_leb s t
  end.
Fixpoint lz_eqb (a b : list Z) : bool :=
  match a, b with
  | [], [] => true
  | x :: s, y :: t => (x =? y) && lz_eqb s t
  | _, _ => false
  end.
Fixpoint insert_lex (x : list Z) (l : list (list Z)) : list (list Z) :=
  match l with
  | [] => [x]
  | y :: t => if lex_leb x y then x :: l else y :: insert_lex x t
  end.
Definition sort_lex (l : list (list Z)) : list (list Z) := fold_right insert_lex [] l.
Fixpoint llz_eqb (a b : list (list Z)) : bool :=
  match a, b with
  | [], [] => true
  | x :: s, y :: t => lz_eqb x y && llz_eqb s t
  | _, _ => false
  end.
Definition same_multiset (a b : list (list Z)) : bool := llz_eqb (sort_lex a) (sort_lex b).

(* ---- observed snapshot (what the harness reads after every call) ---- *)
Record snap := mkSnap {
  sn_pods : list name;
  sn_nodes : list (name * name * bool * bool * nat);  (* name, pod, bypass, available, label *)
  sn_plugs : list (name * res * res);                 (* node, capacity, usage *)
  sn_wls : list (wid * name * res);                   (* id, pod, resources (node = wi_node id unless replaced) *)
  sn_wl_nodes : list (wid * name);                    (* id, node the record says *)
  sn_conts : list (wid * Z);                          (* id, state 0 created 1 running 2 stopped *)
  sn_markers : nat;                                   (* processing markers left *)
  sn_wal : nat;                                       (* open WAL entries *)
  sn_diffs : nat;                                     (* total number of diffs reported by the node resource check *)
  sn_eng : list (wid * res);                          (* id, the parameters the stored record hands to the engine (cpu, memory) *)
}.

Definition cstate_code (c : cstate) : Z := match c with CCreated => 0 | CRunning => 1 | CStopped => 2 end.

Definition snap_of (w : world) : snap :=
  mkSnap (pods w)
         (map (fun x => (n_name x, n_pod x, n_bypass x, n_avail x, n_label x)) (nodes w))
         (map (fun p => (p_node p, p_cap p, p_use p)) (plugs w))
         (map (fun x => (w_id x, w_pod x, w_res x)) (wls w))
         (map (fun x => (w_id x, w_node x)) (wls w))
         (map (fun c => (c_id c, cstate_code (c_state c))) (conts w))
         (length (markers w)) (length (walq w)) 0
         (* the model keeps one value for a record's resources and its engine parameters: they always agree *)
         (map (fun x => (w_id x, w_res x)) (wls w)).

Definition enc_snap (s : snap) : list (list Z) :=
  map (fun p => [100; zn p]) (sn_pods s)
  ++ map (fun x => let '(n, p, b, a, l) := x in [101; zn n; zn p; enc_bool b; enc_bool a; zn l]) (sn_nodes s)
  ++ map (fun x => let '(n, c, u) := x in [102; zn n; fst c; snd c; fst u; snd u]) (sn_plugs s)
  ++ map (fun x => let '(i, p, r) := x in 103 :: enc_wid i ++ [zn p; fst r; snd r]) (sn_wls s)
  ++ map (fun x => 104 :: enc_wid (fst x) ++ [zn (snd x)]) (sn_wl_nodes s)
  ++ map (fun x => 105 :: enc_wid (fst x) ++ [snd x]) (sn_conts s)
  ++ [[106; zn (sn_markers s)]; [107; zn (sn_wal s)]]
  ++ map (fun x => 108 :: enc_wid (fst x) ++ [fst (snd x); snd (snd x)]) (sn_eng s).

(* ---- trace comparison: multiset of (method, target) of the calls made ---- *)
Definition enc_lock (k : lockkey) : list Z :=
  match k with LPod p => [1; zn p] | LWl i => 2 :: enc_wid i | LNodeOp n => [3; zn n] end.
Definition enc_event (e : event) : list Z :=
  match e with
  | EvAlloc _ => [1]
  | EvProc n _ => [2; zn n]
  | EvCreate i => 3 :: enc_wid i
  | EvLambda i => 4 :: enc_wid i
  end.
Definition enc_target (t : target) : list Z :=
  match t with
  | TNone => [0]
  | TName n => [1; zn n]
  | TWid i => 2 :: enc_wid i
  | TWids l => 3 :: flat_map enc_wid l
  | TLock k => 4 :: enc_lock k
  | TEvent e => 5 :: enc_event e
  end.
Definition enc_key (k : key) : option (list Z) :=
  match k with
  | KCall (m, t) => Some (zn (meth_code m) :: enc_target t)
  | KSend => None
  end.
Definition enc_trace (l : list (call * bool)) : list (list Z) :=
  flat_map (fun x => match enc_key (key_of (fst x)) with
                     | Some e => [enc_bool (snd x) :: e]
                     | None => []
                     end) l.

(* length-prefixed records in one flat list *)
Fixpoint unflatten (fuel : nat) (l : list Z) : list (list Z) :=
  match fuel with
  | O => []
  | S f =>
    match l with
    | [] => []
    | n :: t => firstn (Z.to_nat n) t :: unflatten f (skipn (Z.to_nat n) t)
    end
  end.

(* ---- cases ---- *)
Record step := mkStep {
  s_op : op;
  s_fault : option cfault;
  o_err : Z;                              (* observed error class of the API call *)
  o_msgs : list msg;                      (* observed messages, in arrival order; MClose iff the stream closed in time *)
  o_snap : snap;                          (* observed state after the call *)
  o_calls : list Z;                       (* observed intercepted calls, any order, flattened: for each call its length n, then n numbers [faulted; method code; target encoding] *)
  o_waited : list wid;                    (* lambda: workloads whose engine wait call returned successfully *)
}.
Record case := mkCase { c_strict : bool; c_steps : list step }.

(* lambda consumes the create messages internally *)
Definition visible_msgs (o : op) (ms : list msg) : list msg :=
  match o with
  | OLambda _ _ _ _ _ _ _ =>
    (* drop the create messages and the create stream's close *)
    let fix drop_first_close (l : list msg) :=
        match l with
        | [] => []
        | MClose :: t => t
        | m :: t => m :: drop_first_close t
        end in
    match ms with
    | [] => []
    | _ => drop_first_close (filter (fun m => negb (is_create_msg m)) ms)
    end
  | _ => ms
  end.

Fixpoint last_msg_for (id : wid) (ms : list msg) (acc : option msg) : option msg :=
  match ms with
  | [] => acc
  | m :: t =>
    let mine := match m with
                | MLambdaErr (Some i) | MLambdaOut i | MLambdaExit i _ => wid_eqb i id
                | _ => false
                end in
    last_msg_for id t (if mine then Some m else acc)
  end.
Definition lambda_ids (ms : list msg) : list wid :=
  flat_map (fun m => match m with MLambdaErr (Some i) | MLambdaExit i _ => [i] | _ => [] end) ms.
Definition last_msgs (ms : list msg) : list (list Z) :=
  map (fun i => match last_msg_for i ms None with Some m => enc_msg m | None => [] end) (lambda_ids ms).

Definition step_agree (w : world) (st : step) : bool * world :=
  let r := run_op w (s_op st) (s_fault st) in
  let ms := visible_msgs (s_op st) (r_msgs r) in
  ( (r_err r =? o_err st)
    && same_multiset (map enc_msg ms) (map enc_msg (o_msgs st))
    && same_multiset (last_msgs ms) (last_msgs (o_msgs st))
    && same_multiset (enc_snap (snap_of (r_world r))) (enc_snap (o_snap st))
    && same_multiset (enc_trace (r_trace r)) (unflatten (length (o_calls st)) (o_calls st)),
    r_world r).

(* diagnostics: which component of a step disagrees (err, msgs, last msgs, snapshot, trace) *)
Definition step_diag (w : world) (st : step) : list bool :=
  let r := run_op w (s_op st) (s_fault st) in
  let ms := visible_msgs (s_op st) (r_msgs r) in
  [ r_err r =? o_err st;
    same_multiset (map enc_msg ms) (map enc_msg (o_msgs st));
    same_multiset (last_msgs ms) (last_msgs (o_msgs st));
    same_multiset (enc_snap (snap_of (r_world r))) (enc_snap (o_snap st));
    same_multiset (enc_trace (r_trace r)) (unflatten (length (o_calls st)) (o_calls st)) ].
Fixpoint world_before (w : world) (l : list step) (i : nat) : world :=
  match i, l with
  | S j, st :: rest => world_before (r_world (run_op w (s_op st) (s_fault st))) rest j
  | _, _ => w
  end.

Fixpoint steps_agree (w : world) (l : list step) : bool :=
  match l with
  | [] => true
  | st :: rest => let (b, w') := step_agree w st in b && steps_agree w' rest
  end.

Definition agree (c : case) : bool := steps_agree (empty_world (c_strict c)) (c_steps c).

(* index of the first disagreeing step (for replays / debugging) *)
Fixpoint first_bad (w : world) (l : list step) (i : nat) : option nat :=
  match l with
  | [] => None
  | st :: rest => let (b, w') := step_agree w st in if b then first_bad w' rest (S i) else Some i
  end.

(* ================= boolean reflections of the properties ================= *)

Definition lookup_plug (s : snap) (n : name) : option (res * res) :=
  match find (fun x => Nat.eqb (fst (fst x)) n) (sn_plugs s) with Some (_, c, u) => Some (c, u) | None => None end.
Definition node_of (s : snap) (i : wid) : name :=
  match find (fun x => wid_eqb (fst x) i) (sn_wl_nodes s) with Some (_, n) => n | None => wi_node i end.
Definition wl_sum (s : snap) (n : name) : res :=
  rsum (flat_map (fun x => let '(i, _, r) := x in if Nat.eqb (node_of s i) n then [r] else []) (sn_wls s)).
Definition has_wl (s : snap) (i : wid) : bool := existsb (fun x => wid_eqb (fst (fst x)) i) (sn_wls s).
Definition wl_res (s : snap) (i : wid) : option res :=
  match find (fun x => wid_eqb (fst (fst x)) i) (sn_wls s) with Some (_, _, r) => Some r | None => None end.
Definition cont_state (s : snap) (i : wid) : option Z :=
  match find (fun x => wid_eqb (fst x) i) (sn_conts s) with Some (_, c) => Some c | None => None end.

(* C10: on every node the plugin's usage equals the sum over the recorded workloads,
   memory usage does not exceed capacity, the resource check reports no differences *)
Definition c10_snap_ok (s : snap) : bool :=
  forallb (fun x => let '(n, c, u) := x in res_eqb u (wl_sum s n) && (snd u <=? snd c)) (sn_plugs s)
  && Nat.eqb (sn_diffs s) 0.

(* the projection C11 speaks about: pods, nodes, capacity, usage, workload records *)
Definition proj_c11 (s : snap) : list (list Z) :=
  map (fun p => [100; zn p]) (sn_pods s)
  ++ map (fun x => let '(n, p, b, a, l) := x in [101; zn n; zn p; enc_bool b; enc_bool a; zn l]) (sn_nodes s)
  ++ map (fun x => let '(n, c, u) := x in [102; zn n; fst c; snd c; fst u; snd u]) (sn_plugs s)
  ++ map (fun x => let '(i, p, r) := x in 103 :: enc_wid i ++ [zn p; fst r; snd r]) (sn_wls s)
  ++ map (fun x => 104 :: enc_wid (fst x) ++ [zn (snd x)]) (sn_wl_nodes s)
  ++ map (fun x => 108 :: enc_wid (fst x) ++ [fst (snd x); snd (snd x)]) (sn_eng s).

Definition rscale (k : Z) (r : res) : res := (k * fst r, k * snd r).

(* what the projection must be after the call, given only the successes it reported *)
Definition without_wls (s : snap) (ids : list wid) : snap :=
  let gone i := existsb (wid_eqb i) ids in
  let freed n := rsum (flat_map (fun x => let '(i, _, r) := x in
                                 if gone i && Nat.eqb (node_of s i) n then [r] else []) (sn_wls s)) in
  mkSnap (sn_pods s) (sn_nodes s)
         (map (fun x => let '(n, c, u) := x in (n, c, rsub u (freed n))) (sn_plugs s))
         (filter (fun x => negb (gone (fst (fst x)))) (sn_wls s))
         (filter (fun x => negb (gone (fst x))) (sn_wl_nodes s))
         (sn_conts s) (sn_markers s) (sn_wal s) (sn_diffs s)
         (filter (fun x => negb (gone (fst x))) (sn_eng s)).

Definition with_wls (s : snap) (pod : name) (new : list (wid * res)) : snap :=
  let added n := rsum (flat_map (fun x => if Nat.eqb (wi_node (fst x)) n then [snd x] else []) new) in
  mkSnap (sn_pods s) (sn_nodes s)
         (map (fun x => let '(n, c, u) := x in (n, c, radd u (added n))) (sn_plugs s))
         (sn_wls s ++ map (fun x => (fst x, pod, snd x)) new)
         (sn_wl_nodes s ++ map (fun x => (fst x, wi_node (fst x))) new)
         (sn_conts s) (sn_markers s) (sn_wal s) (sn_diffs s)
         (sn_eng s ++ new).

Definition created_of (ms : list msg) : list (wid * res) :=
  flat_map (fun m => match m with MCreateOk i r => [(i, r)] | _ => [] end) ms.
Definition removed_of (ms : list msg) : list wid :=
  flat_map (fun m => match m with MRemove i true => [i] | MDissociate i None => [i] | _ => [] end) ms.
Definition any_failed_part (ms : list msg) : bool :=
  existsb (fun m => match m with
                    | MCreateErr | MCreateFail _ | MRemove _ false | MRemoveNodeFail | MDissociate _ (Some _)
                    | MReplace _ _ _ (Some _) => true
                    | _ => false end) ms.

(* C11 for one call: if the call (or a part of it) reports failure, the projection
   after the call is the projection before it changed by exactly the reported
   successes; a failed replace leaves the old workload recorded and running *)
Definition c11_step_ok (before : snap) (st : step) : bool :=
  let after := o_snap st in
  let failed := negb (o_err st =? 0) || any_failed_part (o_msgs st) in
  if negb failed then true
  else
    match s_op st with
    | OAddPod _ | OAddNode _ _ _ | ORemoveNode _ | OSetNode _ _ _ _ | ORealloc _ _ =>
      same_multiset (proj_c11 after) (proj_c11 before)
    | OCreate _ pod _ _ _ =>
      same_multiset (proj_c11 after) (proj_c11 (with_wls before pod (created_of (o_msgs st))))
    | ORemove _ _ | ODissociate _ =>
      same_multiset (proj_c11 after) (proj_c11 (without_wls before (removed_of (o_msgs st))))
    | OReplace _ _ =>
      forallb (fun m => match m with
                        | MReplace old _ _ (Some _) =>
                          has_wl after old && match cont_state after old with Some 1 => true | _ => false end
                        | _ => true end) (o_msgs st)
      (* and nothing but the successful replacements changed *)
      && (let ok_pairs := flat_map (fun m => match m with MReplace old (Some new) true None => [(old, new)] | _ => [] end) (o_msgs st) in
          let swapped :=
              mkSnap (sn_pods before) (sn_nodes before) (sn_plugs before)
                     (map (fun x => let '(i, p, r) := x in
                                    match find (fun pr => wid_eqb (fst pr) i) ok_pairs with
                                    | Some (_, new) => (new, p, r) | None => x end) (sn_wls before))
                     (map (fun x => match find (fun pr => wid_eqb (fst pr) (fst x)) ok_pairs with
                                    | Some (_, new) => (new, snd x) | None => x end) (sn_wl_nodes before))
                     (sn_conts before) (sn_markers before) (sn_wal before) (sn_diffs before)
                     (map (fun x => match find (fun pr => wid_eqb (fst pr) (fst x)) ok_pairs with
                                    | Some (_, new) => (new, snd x) | None => x end) (sn_eng before)) in
          same_multiset (proj_c11 after) (proj_c11 swapped))
    | OLambda _ _ _ _ _ _ _ => true
    end.

Definition count_msgs (f : msg -> bool) (ms : list msg) : nat := length (filter f ms).
Definition is_close (m : msg) : bool := match m with MClose => true | _ => false end.

(* C12 for one create call *)
Definition c12_step_ok (before : snap) (st : step) : bool :=
  match s_op st with
  | OCreate _ pod count r _ =>
    if negb (o_err st =? 0) then true            (* request not accepted *)
    else
      let ms := filter (fun m => negb (is_close m)) (o_msgs st) in
      let after := o_snap st in
      (* the stream closes, exactly once, last *)
      (match rev (o_msgs st) with MClose :: t => negb (existsb is_close t) | _ => false end)
      && (match ms with
          | [MCreateErr] =>
            (* a single failure with nothing created *)
            same_multiset (proj_c11 after) (proj_c11 before)
            && same_multiset (map (fun x => enc_wid (fst x)) (sn_conts after)) (map (fun x => enc_wid (fst x)) (sn_conts before))
          | _ =>
            (* exactly one message per planned instance *)
            Nat.eqb (length ms) count
            && forallb (fun m => match m with MCreateOk _ _ | MCreateFail _ | MCreateErr => true | _ => false end) ms
            (* successes are truthful: recorded with the reported resources on the reported node, started *)
            && forallb (fun m => match m with
                                 | MCreateOk i rr =>
                                   res_eqb rr r
                                   && match wl_res after i with Some r' => res_eqb r' rr | None => false end
                                   && Nat.eqb (node_of after i) (wi_node i)
                                   && match cont_state after i with Some 1 => true | _ => false end
                                   && negb (has_wl before i)
                                 | _ => true end) ms
            (* failures leave nothing: records, containers and usage changed by exactly the successes *)
            && same_multiset (proj_c11 after) (proj_c11 (with_wls before pod (created_of ms)))
            && same_multiset (map (fun x => enc_wid (fst x)) (sn_conts after))
                             (map (fun x => enc_wid (fst x)) (sn_conts before) ++ map (fun x => enc_wid (fst x)) (created_of ms))
          end)
  | _ => true
  end.

(* the calls of the clean-up itself (the deferred removal and WAL commit of the lambda
   closure).  The property quantifies over engine outcomes and failures to fetch logs or
   wait; a fault injected into the clean-up is outside it (the compensation must succeed). *)
Definition in_cleanup (f : cfault) : bool :=
  match f_key f with
  | KCall (m, t) =>
    match m with
    | MGetWorkloads | MPSetUsage | MRemoveWorkload | MERemove | MUnlock => true
    | MWCommit => true                  (* a WAL commit that fails cannot be compensated *)
    | MCreateLock | MLock =>
      match t with
      | TLock (LWl _) => true
      | TLock (LPod _) => negb (Nat.eqb (f_ord f) 0)
      | _ => false
      end
    | MGetNode => negb (Nat.eqb (f_ord f) 0)
    | _ => false
    end
  | KSend => false
  end.

(* C30 for one run-and-wait call *)
Definition c30_step_ok (before : snap) (st : step) : bool :=
  match s_op st with
  | OLambda opi _ _ _ _ _ ls =>
    if negb (o_err st =? 0) then true
    else if match s_fault st with Some f => in_cleanup f | None => false end then true
    else
      let after := o_snap st in
      let ms := o_msgs st in
      (* the output stream closes *)
      (match rev ms with MClose :: t => negb (existsb is_close t) | _ => false end)
      (* every workload started by this call is gone: record, container, usage *)
      && forallb (fun x => negb (Nat.eqb (wi_op (fst (fst x))) opi)) (sn_wls after)
      && forallb (fun x => negb (Nat.eqb (wi_op (fst x)) opi)) (sn_conts after)
      && same_multiset (proj_c11 after) (proj_c11 before)
      (* the exit code is the last message of a workload whose wait succeeded *)
      && forallb (fun i => match last_msg_for i ms None with
                           | Some (MLambdaExit _ c) => c =? ls_code ls
                           | _ => false end) (o_waited st)
      (* the recovery log entries are committed *)
      && Nat.eqb (sn_wal after) (sn_wal before)
  | _ => true
  end.

(* a fault that hits a compensating (rollback) call.  With a single injected fault a rollback
   only runs after the fault has fired, so such a placement means a natural failure came first
   (e.g. an engine that refuses to remove a running container): two failures, outside the
   single-fault quantifier ("compensating steps succeed"). *)
Definition compensation_fault (o : op) (f : cfault) : bool :=
  match f_key f with
  | KSend => false
  | KCall (m, t) =>
    let later := negb (Nat.eqb (f_ord f) 0) in
    match o, m with
    | ORemove _ _, MAddWorkload => true
    | ORemove _ _, MPSetUsage => later
    | ODissociate _, MPSetUsage => later
    | ORealloc _ _, MPRollbackRealloc => true
    | ORealloc _ _, MUpdateWorkload => later
    | OCreate _ _ _ _ _, (MPRollbackAlloc | MRemoveWorkload | MERemove) => true
    | OLambda _ _ _ _ _ _ _, MPRollbackAlloc => true
    | OAddNode _ _ _, MPRemoveNode => true
    | OSetNode _ _ _ _, MPSetCapacity => later
    | OReplace _ ids, MEStart => match t with TWid i => existsb (wid_eqb i) ids | _ => false end
    | OReplace _ ids, (MAddWorkload | MEStop) => false
    | _, _ => false
    end
  end.
Definition in_scope (c : case) : bool :=
  forallb (fun st => match s_fault st with Some f => negb (compensation_fault (s_op st) f) | None => true end) (c_steps c).

Definition empty_snap : snap := mkSnap [] [] [] [] [] [] 0 0 0 [].

Fixpoint fold_steps (f : snap -> step -> bool) (before : snap) (l : list step) : bool :=
  match l with
  | [] => true
  | st :: rest => f before st && fold_steps f (o_snap st) rest
  end.

Definition ok_c10 (c : case) : bool := negb (in_scope c) || forallb (fun st => c10_snap_ok (o_snap st)) (c_steps c).
Definition ok_c11 (c : case) : bool := negb (in_scope c) || fold_steps c11_step_ok empty_snap (c_steps c).
Definition ok_c12 (c : case) : bool := negb (in_scope c) || fold_steps c12_step_ok empty_snap (c_steps c).
Definition ok_c30 (c : case) : bool := fold_steps c30_step_ok empty_snap (c_steps c).
