(* Calcium/LambdaAll.v — the whole run-and-wait operation without a fault, EVERY world: every created workload is
   removed again (no record, no container), the records are exactly those of before, usage = sum still holds. *)
From Coq Require Import List Bool Arith ZArith Lia Permutation.
From Verif Require Import Base.Effects Calcium.World Calcium.Ops Calcium.Run Calcium.EffectsProofs Calcium.OpsProofs Calcium.OpsProofs2 Calcium.InvProofs Calcium.DeployProofs Calcium.DeployProofs2 Calcium.CreateProofs Calcium.CreateProofs2 Calcium.CapProofs Calcium.NodeProofs Calcium.HistoryProofs Calcium.LambdaProofs Calcium.LambdaHistory.
Import ListNotations.
Local Open Scope Z_scope.

(* WAL tokens only grow: an exec-level invariant *)
Definition wal_ok (w : world) : Prop := forall t e, In (t, e) (walq w) -> (t < wal_seq w)%nat.

Lemma exec_keeps_wal_ok : forall w c, wal_ok w -> wal_ok (fst (exec w c)).
Proof.
  intros w c H. destruct c; simpl; try exact H;
    repeat match goal with
           | |- context [match ?x with _ => _ end] => destruct x eqn:?; simpl; try exact H
           | |- context [if ?x then _ else _] => destruct x eqn:?; simpl; try exact H
           end.
  - intros t e Hin. simpl in *. apply in_app_or in Hin. destruct Hin as [Hin|[Hin|[]]].
    + apply H in Hin. lia.
    + inversion Hin; subst. lia.
  - intros t e Hin. simpl in *. apply filter_In in Hin. destruct Hin as [Hin _]. apply H in Hin. exact Hin.
Qed.

Lemma wal_ok_fresh : forall w, wal_ok w -> forall e, ~ In (wal_seq w, e) (walq w).
Proof. intros w H e Hin. apply H in Hin. lia. Qed.

Lemma del_wl_middle : forall A x B, NoDup (ids (A ++ x :: B)) -> del_wl (w_id x) (A ++ x :: B) = A ++ B.
Proof.
  intros A x B Hnd. unfold del_wl. rewrite filter_app. simpl. rewrite wid_eqb_refl. simpl.
  rewrite ids_app in Hnd. simpl in Hnd.
  assert (HA : ~ In (w_id x) (ids A)).
  { intro Hin. apply NoDup_remove_2 in Hnd. apply Hnd. apply in_or_app. left; exact Hin. }
  assert (HB : ~ In (w_id x) (ids B)).
  { intro Hin. apply NoDup_remove_2 in Hnd. apply Hnd. apply in_or_app. right; exact Hin. }
  f_equal; apply filter_true; intros z Hz; apply negb_true_iff; apply wid_eqb_neq; intro E;
    [apply HA|apply HB]; rewrite <- E; unfold ids; apply in_map; exact Hz.
Qed.

Lemma find_app_skip : forall (A : list wl) x B id, ~ In id (ids A) -> w_id x = id ->
  find (fun y => wid_eqb (w_id y) id) (A ++ x :: B) = Some x.
Proof.
  induction A as [|a t IH]; intros x B id Hn Hx; simpl.
  - rewrite Hx, wid_eqb_refl. reflexivity.
  - destruct (wid_eqb (w_id a) id) eqn:E.
    + exfalso. apply Hn. left. apply wid_eqb_eq in E. exact E.
    + apply IH; [intro; apply Hn; right; assumption|exact Hx].
Qed.

Record loop_inv (w : world) (pod : name) (W : world) (rest : list msg) : Prop := {
  li_wls : wls W = wls w ++ map (wl_of pod) (created_of rest);
  li_nodes : nodes W = nodes w;
  li_plugs : forall n p, find_plug w n = Some p -> exists p', find_plug W n = Some p';
  li_wal : wal_ok W;
  li_ids : NoDup (ids (wls W));
}.

Lemma closures_remove_all : forall stdin lines w pod rest W done,
  loop_inv w pod W rest ->
  (forall p, In p (created_of rest) -> (exists nd, find_node w (wi_node (fst p)) = Some nd) /\ (exists q, find_plug w (wi_node (fst p)) = Some q)) ->
  (forall j, In j done -> find_cont W j = None) ->
  let W' := after (for_all (filter is_create_msg rest) (lambda_one stdin lines)) W None in
  wls W' = wls w /\ (forall j, In j (done ++ map fst (created_of rest)) -> find_cont W' j = None).
Proof.
  intros stdin lines w pod rest. induction rest as [|m rest' IH]; intros W done HJ Hnp Hdone.
  - cbn. destruct HJ as [Hw _ _ _ _]. cbn in Hw. rewrite app_nil_r in Hw. split; [exact Hw|].
    intros j Hj. rewrite app_nil_r in Hj. apply Hdone. exact Hj.
  - assert (Hskip : forall W1, loop_inv w pod W1 rest' -> created_of (m :: rest') = created_of rest' ->
              (forall j, In j done -> find_cont W1 j = None) ->
              let W' := after (for_all (filter is_create_msg rest') (lambda_one stdin lines)) W1 None in
              wls W' = wls w /\ (forall j, In j (done ++ map fst (created_of (m :: rest'))) -> find_cont W' j = None)).
    { intros W1 HJ1 Hc Hd1. rewrite Hc. apply IH; [exact HJ1| |exact Hd1]. intros p Hp. apply Hnp. rewrite Hc. exact Hp. }
    assert (Hsendcase : forall m0, created_of (m :: rest') = created_of rest' ->
              let W' := after (send m0 ;;; for_all (filter is_create_msg rest') (lambda_one stdin lines)) W None in
              wls W' = wls w /\ (forall j, In j (done ++ map fst (created_of (m :: rest'))) -> find_cont W' j = None)).
    { intros m0 Hc. cbn zeta. unfold after. rewrite crunk_bind. rewrite send_exact.
      match goal with |- context [crunk ?P ?W0 ?K] => change (fst (fst (crunk P W0 K))) with (after P W0 K) end.
      apply Hskip; [|exact Hc|].
      - destruct HJ as [H1 H2 H3 H4 H5]. rewrite Hc in H1. constructor; auto.
      - intros j Hj. apply Hdone in Hj. exact Hj. }
    destruct m as [|n0|id r0|i0 ok| |i0 e0|o1 o2 o3 o4|i0|i0|i0 c0|]; cbn [filter is_create_msg for_all];
      try (apply (Hsendcase (MLambdaErr None)); reflexivity);
      try (apply Hskip; [destruct HJ as [H1 H2 H3 H4 H5]; constructor; auto|reflexivity|exact Hdone]).
    (* a created workload: its closure removes it *)
    destruct HJ as [Hw Hn Hpl Hwal Hids].
    cbn [created_of flat_map] in Hw. change (flat_map _ rest') with (created_of rest') in Hw.
    cbn [map app] in Hw. set (x := wl_of pod (id, r0)) in *. set (B := map (wl_of pod) (created_of rest')) in *.
    assert (Hxid : w_id x = id) by reflexivity.
    assert (Hnot : ~ In id (ids (wls w))).
    { rewrite Hw in Hids. rewrite ids_app in Hids. simpl in Hids. intro Hin. apply NoDup_remove_2 in Hids. apply Hids.
      apply in_or_app. left. exact Hin. }
    assert (Hfx : find_wl W id = Some x) by (unfold find_wl; rewrite Hw; apply find_app_skip; assumption).
    destruct (Hnp (id, r0)) as [[nd Hnd] [q Hq]]; [left; reflexivity|]. cbn [fst] in Hnd, Hq.
    assert (Hnd' : find_node W (w_node x) = Some nd) by (unfold find_node; rewrite Hn; exact Hnd).
    destruct (Hpl _ _ Hq) as [q' Hq'].
    destruct (lambda_one_spec stdin lines id r0 W None x nd q' Hfx Hnd' Hq' (wal_ok_fresh W Hwal))
      as [W1 [k1 [kc [Hrun [Hkc [_ Hpost]]]]]].
    destruct (Hpost (Hkc eq_refl)) as [[Hrw Hrp Hnorec Hnocont Hrn Hframe] _ _].
    assert (Hk1 : k1 = None) by (apply crunk_none_k in Hrun; exact Hrun). subst k1.
    assert (HW1 : W1 = after (lambda_one stdin lines (MCreateOk id r0)) W None) by (unfold after; rewrite Hrun; reflexivity).
    assert (HJ1 : loop_inv w pod W1 rest').
    { constructor.
      - rewrite Hrw, Hw. rewrite <- Hxid. apply del_wl_middle. rewrite Hw in Hids. exact Hids.
      - rewrite Hrn. exact Hn.
      - intros n p Hp. destruct (Hpl n p Hp) as [p' Hp']. unfold find_plug in *. rewrite Hrp.
        rewrite find_plug_upd by reflexivity. rewrite Hp'. eexists; reflexivity.
      - rewrite HW1. apply (crunk_exec_inv wal_ok exec_keeps_wal_ok). exact Hwal.
      - rewrite HW1. apply (crunk_exec_inv (fun w => NoDup (ids (wls w))) exec_keeps_ids). exact Hids. }
    cbn zeta. unfold after. rewrite crunk_bind. unfold cst, oerr in *. rewrite Hrun.
    match goal with |- context [crunk ?P ?W0 ?K] => change (fst (fst (crunk P W0 K))) with (after P W0 K) end.
    destruct (IH W1 (id :: done) HJ1) as [Hfin1 Hfin2].
    + intros p Hp. apply Hnp. right. exact Hp.
    + intros j [<-|Hj]; [exact Hnocont|apply Hframe; apply Hdone; exact Hj].
    + split; [exact Hfin1|]. intros j Hj. apply Hfin2. cbn [created_of flat_map map fst app] in Hj.
      change (flat_map _ rest') with (created_of rest') in Hj.
      apply in_app_or in Hj. destruct Hj as [Hj|[<-|Hj]].
      * right. apply in_or_app. left. exact Hj.
      * left. reflexivity.
      * right. apply in_or_app. right. exact Hj.
Qed.

(* C30, the whole operation, EVERY world, no fault: every workload the run-and-wait created is gone when the stream
   closes (no record, no container), the records are exactly those of before, and the invariant (usage = sum of the
   recorded workloads) holds: nothing of the run is left on any node *)
Theorem lambda_all_removed : forall opi pod r plan stdin lines w,
  create_hyp w opi r plan -> Inv w -> wal_ok w ->
  let w' := after (lambda opi pod r plan stdin lines) w None in
  wls w' = wls w /\ Inv w' /\
  exists ms, snd (crunk (create opi pod r plan) w None) = ms /\
    forall p, In p (created_of ms) -> find_wl w' (fst p) = None /\ find_cont w' (fst p) = None.
Proof.
  intros opi pod r plan stdin lines w Hhyp HI Hwal. cbn zeta.
  split; [|split; [apply lambda_keeps_Inv; assumption|]].
  all: unfold lambda, after; rewrite crunk_bind;
    destruct (create_spec opi pod r plan w None Hhyp) as [W0 [k0 [ms [Hc P]]]]; rewrite Hc;
    assert (Hk0 : k0 = None) by (apply crunk_none_k in Hc; exact Hc); subst k0;
    rewrite crunk_bind.
  all: assert (HW0 : W0 = after (create opi pod r plan) w None) by (unfold after; rewrite Hc; reflexivity).
  all: assert (HJ : loop_inv w pod W0 ms) by
    (destruct P as [_ Hn _ _ Hw _ Hpl _ _ _ _]; constructor;
     [ exact Hw | exact Hn
     | intros n p Hp; unfold find_plug in *; rewrite Hpl; rewrite find_plug_map by reflexivity; rewrite Hp; eexists; reflexivity
     | rewrite HW0; apply (crunk_exec_inv wal_ok exec_keeps_wal_ok); exact Hwal
     | rewrite HW0; apply (crunk_exec_inv (fun w => NoDup (ids (wls w))) exec_keeps_ids); apply (wf_ids w (inv_wf w HI)) ]).
  all: assert (Hnp : forall p, In p (created_of ms) ->
         (exists nd, find_node w (wi_node (fst p)) = Some nd) /\ (exists q, find_plug w (wi_node (fst p)) = Some q)) by
    (intros p Hp; destruct P as [_ _ _ _ _ _ _ _ _ _ Hb];
     pose proof (created_on_pos ms p Hp) as Hpos; specialize (Hb (wi_node (fst p)));
     destruct plan as [dm|]; [|lia]; destruct Hhyp as [_ [Hnd [Hfeas Hnodes]]];
     destruct (atotal_zero_or_in dm (wi_node (fst p))) as [Hz|Hin]; [lia|];
     split;
     [ destruct (find_node w (wi_node (fst p))) as [nd|] eqn:E; [eauto|exfalso; apply (Hnodes _ Hin); exact E]
     | apply in_map_iff in Hin; destruct Hin as [[n cnt] [Hfst Hin]]; simpl in Hfst; subst n;
       destruct (Hfeas _ _ Hin) as [q [Hq _]]; eauto ]).
  all: pose proof (closures_remove_all stdin lines w pod ms W0 [] HJ Hnp ltac:(intros j [])) as [Hfin1 Hfin2];
    unfold after in Hfin1, Hfin2;
    destruct (crunk (for_all (filter is_create_msg ms) (lambda_one stdin lines)) W0 None) as [[W1 k1] []] eqn:Hloop;
    cbn [fst] in Hfin1, Hfin2; rewrite send_exact; cbn [fst snd wls set_out].
  - exact Hfin1.
  - exists ms. split; [reflexivity|]. intros p Hp. split.
    + unfold find_wl. cbn [wls set_out]. rewrite Hfin1.
      destruct P as [_ _ _ _ _ _ _ _ Hcr _ _]. destruct (Hcr p Hp) as [Hop _].
      destruct Hhyp as [Hfresh _]. destruct (Hfresh (wi_node (fst p)) (wi_idx (fst p))) as [Hf _].
      destruct (fst p) as [o n i]. simpl in *. subst o. exact Hf.
    + unfold find_cont. cbn [conts set_out]. apply Hfin2. simpl. apply in_map. exact Hp.
Qed.
