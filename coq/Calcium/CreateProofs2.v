(* Calcium/CreateProofs2.v — assembly: the pod-lock wrapper, the net effect of allocation and
   rollback on the plugin records, the three closures of the transaction in doCreateWorkloads, and
   [create_spec] (C12 / C10 for create): for EVERY world in which the op index is fresh, EVERY feasible
   plan (or a refusal) and EVERY position of the single injected fault. *)
From Coq Require Import List Bool Arith ZArith Lia Permutation.
From Verif Require Import Base.Effects Calcium.World Calcium.Ops Calcium.Run Calcium.EffectsProofs Calcium.OpsProofs Calcium.OpsProofs2 Calcium.InvProofs Calcium.DeployProofs Calcium.DeployProofs2 Calcium.CreateProofs.
Import ListNotations.
Local Open Scope Z_scope.

(* the pod-lock wrapper of the condition step *)
Lemma with_pod_locked_spec : forall pod A (on_err : err -> A) (body : list node -> cprog A) w k,
  exists w1 k1 a, crunk (with_nodes_pod_locked (FPod pod false) on_err body) w k = (w1, k1, a) /\
    ((exists e, a = on_err e /\ w1 = w /\ k1 = None) \/
     (exists ns kb k2, crunk (body ns) w kb = (w1, k2, a) /\ (k2 = None -> k1 = None))).
Proof.
  intros pod A on_err body w k. unfold with_nodes_pod_locked, filter_nodes, call1, crunk. cbn [bind].
  assert (Hmain : forall kk, let ns := filter (fun x => Nat.eqb (n_pod x) pod && (false || negb (node_down x))) (nodes w) in
     exists w1 k1 a,
      crunk (a1 <- acquire (dedupe_keys (map (fun x => LPod (n_pod x)) ns) []) [] ;;
             match fst a1 with
             | Some e => release (snd a1) ;;; Ret (on_err e)
             | None => x <- body ns ;; release (snd a1) ;;; Ret x
             end) w kk = (w1, k1, a) /\
      ((exists e, a = on_err e /\ w1 = w /\ k1 = None) \/
       (exists ns kb k2, crunk (body ns) w kb = (w1, k2, a) /\ (k2 = None -> k1 = None)))).
  { intros kk ns. rewrite crunk_bind.
    destruct (acquire_neutral (dedupe_keys (map (fun x => LPod (n_pod x)) ns) []) [] w kk) as [k1 [a [H1 Hk1]]].
    rewrite H1. destruct (fst a) as [e|] eqn:Ea.
    + rewrite crunk_bind. destruct (release_neutral (snd a) w k1) as [k2 H2]. rewrite H2.
      unfold crunk. cbn [runk]. do 3 eexists. split; [reflexivity|]. left. exists e. split; auto. split; auto.
      rewrite (Hk1 ltac:(discriminate)) in H2. apply crunk_none_k in H2. exact H2.
    + rewrite crunk_bind. destruct (crunk (body ns) w k1) as [[w2 k2] x] eqn:Hb.
      rewrite crunk_bind. destruct (release_neutral (snd a) w2 k2) as [k3 H3]. rewrite H3.
      unfold crunk. cbn [runk]. do 3 eexists. split; [reflexivity|]. right. exists ns, k1, k2. split; [exact Hb|].
      intros ->. apply crunk_none_k in H3. exact H3. }
  destruct k as [[|k]|]; cbn [runk fail_reply bind].
  - do 3 eexists. split; [reflexivity|]. left. eexists. auto.
  - cbn [exec bind]. apply (Hmain (Some k)).
  - cbn [exec bind]. apply (Hmain None).
Qed.

(* ---- the net effect of allocation and rollback on the plugin records ---- *)
Fixpoint atotal (done : list (name * nat)) (n : name) : nat :=
  match done with [] => 0%nat | g :: t => ((if Nat.eqb (fst g) n then snd g else 0) + atotal t n)%nat end.

Lemma scale_add : forall a b r, scale (a + b) r = radd (scale a r) (scale b r).
Proof.
  induction a as [|a IH]; intros b r; simpl.
  - destruct (scale b r) as [x y]. unfold radd, rzero; simpl. f_equal; lia.
  - rewrite IH. destruct r as [r1 r2], (scale a (r1, r2)) as [x y], (scale b (r1, r2)) as [u v]. unfold radd; simpl. f_equal; lia.
Qed.
Lemma add_use_0 : forall x, add_use rzero x = x.
Proof. intros [n c [u v]]. unfold add_use, radd, rzero; simpl. f_equal. f_equal; lia. Qed.
Lemma add_use_add : forall a b x, add_use b (add_use a x) = add_use (radd a b) x.
Proof. intros [a1 a2] [b1 b2] [n c [u v]]. unfold add_use, radd; simpl. f_equal. f_equal; lia. Qed.

Lemma alloc_eff_map : forall r done P,
  alloc_eff r done P = map (fun x => add_use (scale (atotal done (p_node x)) r) x) P.
Proof.
  intros r done. induction done as [|g t IH]; intros P.
  - unfold alloc_eff. simpl. rewrite <- (map_id P) at 1. apply map_ext. intros x. symmetry. apply add_use_0.
  - unfold alloc_eff in *. cbn [fold_left]. rewrite IH. unfold upd_plug. rewrite map_map. apply map_ext. intros x.
    cbn [atotal]. destruct (Nat.eqb (p_node x) (fst g)) eqn:E.
    + assert (E2 : Nat.eqb (fst g) (p_node x) = true) by (rewrite Nat.eqb_sym; exact E).
      replace (p_node (add_use (scale (snd g) r) x)) with (p_node x) by reflexivity.
      rewrite E2. rewrite add_use_add, <- scale_add. reflexivity.
    + assert (E2 : Nat.eqb (fst g) (p_node x) = false) by (rewrite Nat.eqb_sym; exact E).
      rewrite E2. reflexivity.
Qed.

Lemma sub_use_0 : forall x, sub_use rzero x = x.
Proof. intros [n c [u v]]. unfold sub_use, rsub, rzero; simpl. f_equal. f_equal; lia. Qed.
Lemma sub_use_sub : forall a b x, sub_use b (sub_use a x) = sub_use (radd a b) x.
Proof. intros [a1 a2] [b1 b2] [n c [u v]]. unfold sub_use, rsub, radd; simpl. f_equal. f_equal; lia. Qed.

Lemma rollback_eff_map : forall r rb P,
  rollback_eff r rb P = map (fun x => sub_use (scale (rb_len rb (p_node x)) r) x) P.
Proof.
  intros r rb. induction rb as [|g t IH]; intros P.
  - unfold rollback_eff. simpl. rewrite <- (map_id P) at 1. apply map_ext. intros x. symmetry. apply sub_use_0.
  - unfold rollback_eff in *. cbn [fold_left]. rewrite IH. unfold upd_plug. rewrite map_map. apply map_ext. intros x.
    cbn [rb_len]. destruct (Nat.eqb (p_node x) (fst g)) eqn:E.
    + assert (E2 : Nat.eqb (fst g) (p_node x) = true) by (rewrite Nat.eqb_sym; exact E).
      replace (p_node (sub_use (scale (length (snd g)) r) x)) with (p_node x) by reflexivity.
      rewrite E2. rewrite sub_use_sub, <- scale_add. reflexivity.
    + assert (E2 : Nat.eqb (fst g) (p_node x) = false) by (rewrite Nat.eqb_sym; exact E).
      rewrite E2. reflexivity.
Qed.

Lemma sub_add_net : forall b c r x, sub_use (scale b r) (add_use (scale (b + c) r) x) = add_use (scale c r) x.
Proof.
  intros b c r x. rewrite scale_add. destruct x as [n cp [u v]], (scale b r) as [b1 b2], (scale c r) as [c1 c2].
  unfold sub_use, add_use, rsub, radd; simpl. f_equal. f_equal; lia.
Qed.

Lemma rb_len_of_alloc : forall done n, rb_len (map (fun a => (fst a, seq_nat 0 (snd a))) done) n = atotal done n.
Proof.
  induction done as [|g t IH]; intros n; simpl; [reflexivity|]. rewrite seq_nat_length, IH. reflexivity.
Qed.

Lemma atotal_notin : forall done n, ~ In n (map fst done) -> atotal done n = 0%nat.
Proof.
  induction done as [|g t IH]; intros n H; simpl; [reflexivity|].
  assert (Nat.eqb (fst g) n = false) as -> by (apply Nat.eqb_neq; intro; apply H; left; auto).
  apply IH. intro; apply H; right; auto.
Qed.
Lemma atotal_in : forall done n cnt, NoDup (map fst done) -> In (n, cnt) done -> atotal done n = cnt.
Proof.
  induction done as [|g t IH]; intros n cnt Hnd Hin; [destruct Hin|].
  simpl in Hnd. inversion Hnd as [|? ? Hni Hnd']; subst. simpl. destruct Hin as [->|Hin].
  - simpl. rewrite Nat.eqb_refl. rewrite (atotal_notin t n Hni). lia.
  - assert (Nat.eqb (fst g) n = false) as ->.
    { apply Nat.eqb_neq. intro; subst. apply Hni. apply in_map_iff. exists (fst g, cnt). auto. }
    simpl. apply IH; auto.
Qed.

(* ---- the three closures of the transaction in doCreateWorkloads and its deferred clean-up ---- *)
Definition cst := (cstate_create * list (name * list nat) * list msg)%type.
Definition st0 : cst := (mkCS None [] [] [], @nil (name * list nat), @nil msg).

Definition cond_fn (opi : nat) (pod : name) (r : res) (plan : option (list (name * nat))) (st : cst) : cprog (cst * oerr) :=
  x <- with_nodes_pod_locked (FPod pod false) (fun e => (fst (fst st), Some e)) (cond_body opi r plan (fst (fst st))) ;;
  match snd x with
  | Some e => send MCreateErr ;;; Ret ((fst x, snd (fst st), [MCreateErr]), Some e)
  | None => Ret ((fst x, snd (fst st), snd st), None)
  end.
Definition then_fn (opi : nat) (pod : name) (r : res) (st : cst) : cprog (cst * oerr) :=
  d <- deploy_all opi pod r (cs_plan (fst (fst st))) ;;
  Ret ((fst (fst st), fst d, snd st ++ snd d), match fst d with [] => None | _ => Some ENatural end).
Definition rb_fn (r : res) (st : cst) (by_cond : bool) : cprog oerr :=
  let rb := if by_cond then map (fun a => (fst a, seq_nat 0 (snd a))) (cs_alloc (fst (fst st))) else snd (fst st) in
  rollback_prog r rb ;;; rok.
Definition defers (opi : nat) (s : cstate_create) (ms : list msg) : cprog (list msg) :=
  for_all (cs_plan s) (fun g => ign (doc (SDeleteProcessing (fst g) opi))) ;;;
  commit_processing opi (cs_ptokens s) ;;;
  (match cs_rtoken s with Some t => ign (doc (WCommit t (EvAlloc []))) | None => skip end) ;;;
  send MClose ;;;
  Ret ms.

Lemma create_unfold : forall opi pod r plan,
  create opi pod r plan =
  (res <- txn_s st0 (cond_fn opi pod r plan) (Some (then_fn opi pod r)) (Some (rb_fn r)) ;;
   defers opi (fst (fst (fst res))) (snd (fst res))).
Proof. reflexivity. Qed.

Lemma defers_neutral : forall opi s ms, core_neutral (defers opi s ms).
Proof.
  intros opi s ms. unfold defers.
  apply core_neutral_bind; [apply core_neutral_for_all; intros; apply core_neutral_call, core_call_delproc|intros _].
  apply core_neutral_bind; [apply commit_processing_neutral|intros _].
  apply core_neutral_bind; [destruct (cs_rtoken s); [apply core_neutral_call, core_call_commit|apply core_neutral_ret]|intros _].
  apply core_neutral_bind; [unfold send; apply core_neutral_call, core_call_send|intros _].
  apply core_neutral_ret.
Qed.

Lemma crunk_ret : forall A (a : A) w k, crunk (Ret a) w k = (w, k, a).
Proof. reflexivity. Qed.

(* programs that change neither the core nor the output channel *)
Definition quiet {A} (p : cprog A) : Prop :=
  forall w k, exists w' k' a, crunk p w k = (w', k', a) /\ core3 w' w (wls w) (conts w) /\ out w' = out w.
Lemma quiet_ret : forall A (a : A), quiet (Ret a).
Proof. intros A a w k. unfold crunk. simpl. do 3 eexists. split; [reflexivity|]. split; [apply core3_refl|reflexivity]. Qed.
Lemma quiet_bind : forall A B (p : cprog A) (f : A -> cprog B), quiet p -> (forall a, quiet (f a)) -> quiet (bind p f).
Proof.
  intros A B p f Hp Hf w k. rewrite crunk_bind. destruct (Hp w k) as [w1 [k1 [a [H1 [Hc1 Ho1]]]]]. rewrite H1.
  destruct (Hf a w1 k1) as [w2 [k2 [b [H2 [Hc2 Ho2]]]]]. do 3 eexists. split; [exact H2|].
  split; [eapply core3_trans; eauto|congruence].
Qed.
Lemma quiet_for_all : forall X (l : list X) (body : X -> cprog unit), (forall x, quiet (body x)) -> quiet (for_all l body).
Proof.
  induction l as [|x t IH]; intros body Hb; cbn [for_all]; [apply quiet_ret|apply quiet_bind; auto].
Qed.
Definition quiet_call (c : call) : Prop := forall w, core3 (fst (exec w c)) w (wls w) (conts w) /\ out (fst (exec w c)) = out w.
Lemma quiet_doc : forall c, quiet_call c -> quiet (ign (doc c)).
Proof.
  intros c Hc w k. unfold ign, doc, call1, crunk. cbn [bind runk]. destruct (Hc w) as [H Ho].
  destruct (is_faultable c).
  - destruct k as [[|k]|]; cbn [bind runk].
    + do 3 eexists. split; [reflexivity|]. split; [apply core3_refl|reflexivity].
    + destruct (exec w c) as [w' r]. do 3 eexists. split; [reflexivity|]. split; [exact H|exact Ho].
    + destruct (exec w c) as [w' r]. do 3 eexists. split; [reflexivity|]. split; [exact H|exact Ho].
  - destruct (exec w c) as [w' r]. do 3 eexists. split; [reflexivity|]. split; [exact H|exact Ho].
Qed.
Lemma quiet_delproc : forall n i, quiet_call (SDeleteProcessing n i).
Proof. intros n i w. cbn [exec fst]. split; [repeat split|reflexivity]. Qed.
Lemma quiet_commit : forall t e, quiet_call (WCommit t e).
Proof. intros t e w. cbn [exec fst]. split; [repeat split|reflexivity]. Qed.
Lemma quiet_commit_processing : forall opi l, quiet (commit_processing opi l).
Proof.
  induction l as [|[n [t|]] rest IH]; cbn [commit_processing].
  - apply quiet_ret.
  - apply quiet_bind; [apply quiet_doc, quiet_commit|intros; exact IH].
  - apply quiet_ret.
Qed.

(* the deferred clean-up: nothing but markers and WAL entries change, then the channel is closed *)
Lemma defers_spec : forall opi s ms w k,
  exists w' k', crunk (defers opi s ms) w k = (w', k', ms) /\ core3 w' w (wls w) (conts w) /\ out w' = MClose :: out w.
Proof.
  intros opi s ms w k. unfold defers.
  rewrite crunk_bind.
  destruct (quiet_for_all _ (cs_plan s) (fun g => ign (doc (SDeleteProcessing (fst g) opi))) (fun g => quiet_doc _ (quiet_delproc _ _)) w k)
    as [w1 [k1 [[] [H1 [Hc1 Ho1]]]]]. rewrite H1.
  rewrite crunk_bind. destruct (quiet_commit_processing opi (cs_ptokens s) w1 k1) as [w2 [k2 [[] [H2 [Hc2 Ho2]]]]]. rewrite H2.
  rewrite crunk_bind.
  assert (Htail : forall w3 k3, core3 w3 w (wls w) (conts w) -> out w3 = out w ->
     exists w' k', crunk (send MClose ;;; Ret ms) w3 k3 = (w', k', ms) /\ core3 w' w (wls w) (conts w) /\ out w' = MClose :: out w).
  { intros w3 k3 Hc3 Ho3. rewrite crunk_bind. destruct (send_core MClose w3 k3) as [w4 [H4 [Hc4 Ho4]]]. rewrite H4.
    rewrite crunk_ret. exists w4, k3. split; [reflexivity|]. split; [eapply core3_trans; eauto|congruence]. }
  assert (Hc12 : core3 w2 w (wls w) (conts w)) by (eapply core3_trans; eauto).
  destruct (cs_rtoken s) as [t|].
  - destruct (quiet_doc _ (quiet_commit t (EvAlloc [])) w2 k2) as [w3 [k3 [[] [H3 [Hc3 Ho3]]]]]. rewrite H3.
    apply Htail; [eapply core3_trans; eauto|congruence].
  - unfold skip. rewrite crunk_ret. apply Htail; [exact Hc12|congruence].
Qed.

Definition create_hyp (w : world) (opi : nat) (r : res) (plan : option (list (name * nat))) : Prop :=
  (forall n i, fresh w opi n i) /\
  match plan with
  | Some dm => NoDup (map fst dm) /\ feasible w r dm /\ (forall n, In n (map fst dm) -> find_node w n <> None)
  | None => True
  end.

(* what create guarantees, stated on the messages it returns *)
Record create_post (opi : nat) (pod : name) (r : res) (plan : option (list (name * nat))) (w w' : world) (ms : list msg) : Prop := {
  cr_pods : pods w' = pods w; cr_nodes : nodes w' = nodes w;
  cr_strict : strict_remove w' = strict_remove w; cr_script : script w' = script w;
  cr_wls : wls w' = wls w ++ map (wl_of pod) (created_of ms);
  cr_conts : conts w' = conts w ++ map cont_of (created_of ms);
  cr_plugs : plugs w' = map (fun x => add_use (scale (created_on ms (p_node x)) r) x) (plugs w);
  cr_msgs : ms = [MCreateErr] \/ exists dm, plan = Some dm /\ length ms = plan_total dm;
  cr_created : forall p, In p (created_of ms) -> wi_op (fst p) = opi /\ snd p = r;
  (* never more instances on a node than planned for it *)
  (* every message was sent, in order, and then the channel was closed *)
  cr_out : out w' = MClose :: rev ms ++ out w;
  cr_bound : forall n, (created_on ms n <= match plan with Some dm => atotal dm n | None => 0 end)%nat;
}.

Lemma find_plug_map : forall (G : plug -> plug) P n, (forall x, p_node (G x) = p_node x) ->
  find (fun x => Nat.eqb (p_node x) n) (map G P) = option_map G (find (fun x => Nat.eqb (p_node x) n) P).
Proof.
  intros G P n HG. induction P as [|x t IH]; simpl; [reflexivity|]. rewrite HG.
  destruct (Nat.eqb (p_node x) n); [reflexivity|exact IH].
Qed.

Lemma created_on_nil : forall n, created_on [MCreateErr] n = 0%nat.
Proof. reflexivity. Qed.

Lemma plugs_id_map : forall r (P : list plug), P = map (fun x => add_use (scale 0 r) x) P.
Proof. intros. rewrite <- (map_id P) at 1. apply map_ext. intros x. symmetry. apply add_use_0. Qed.

Record cond_fn_post (r : res) (plan : option (list (name * nat))) (w w1 : world) (k1 : option nat) (st1 : cst) (e : oerr) : Prop := {
  cf_pods : pods w1 = pods w; cf_nodes : nodes w1 = nodes w; cf_wls : wls w1 = wls w; cf_conts : conts w1 = conts w;
  cf_strict : strict_remove w1 = strict_remove w; cf_script : script w1 = script w;
  cf_plugs : plugs w1 = alloc_eff r (cs_alloc (fst (fst st1))) (plugs w);
  cf_rb : snd (fst st1) = [];
  cf_out : out w1 = (match e with Some _ => [MCreateErr] | None => [] end) ++ out w;
  cf_prefix : match plan with Some dm => exists rest, dm = cs_alloc (fst (fst st1)) ++ rest | None => cs_alloc (fst (fst st1)) = [] end;
  cf_ok : e = None -> snd st1 = [] /\ exists dm, plan = Some dm /\ cs_alloc (fst (fst st1)) = dm /\ cs_plan (fst (fst st1)) = dm;
  cf_fail : e <> None -> snd st1 = [MCreateErr] /\ (cs_alloc (fst (fst st1)) = [] \/ k1 = None);
}.

Lemma cond_fn_spec : forall opi pod r plan w k, create_hyp w opi r plan ->
  exists w1 k1 st1 e, crunk (cond_fn opi pod r plan st0) w k = (w1, k1, (st1, e)) /\ cond_fn_post r plan w w1 k1 st1 e.
Proof.
  intros opi pod r plan w k [Hfresh Hplan]. unfold cond_fn, st0. cbn [fst snd]. rewrite crunk_bind.
  destruct (with_pod_locked_spec pod _ (fun e => (mkCS None [] [] [], Some e)) (cond_body opi r plan (mkCS None [] [] [])) w k)
    as [w1 [k1 [a [H1 [[e [-> [-> ->]]]|[ns [kb [k2 [Hb Hk]]]]]]]]]; rewrite H1.
  - (* the lock could not be taken *)
    cbn [snd fst]. rewrite crunk_bind. destruct (send_core MCreateErr w None) as [w2 [H2 [Hc2 Ho2]]]. rewrite H2.
    unfold crunk. cbn [runk]. do 4 eexists. split; [reflexivity|].
    destruct Hc2 as [? [? [? [? [? [? ?]]]]]].
    constructor; cbn [fst snd st0 cs_alloc app]; auto; try discriminate.
    destruct plan; [eexists; reflexivity|reflexivity].
  - destruct (cond_body_spec opi r plan ns w kb) as [w1' [k1' [s1 [e [Hb' Hp]]]]].
    { destruct plan as [dm|]; [|exact I]. destruct Hplan as [? [? ?]]. auto. }
    assert (E : (w1, k2, a) = (w1', k1', (s1, e))) by (etransitivity; [symmetry; exact Hb|exact Hb']).
    inversion E; subst w1' k1' a. clear E Hb.
    destruct Hp as [cpp cpn cpw cpc cps cpsc cppl cpout cppre cp_ok0 cp_fail0]. cbn [snd fst].
    destruct e as [err|].
    + rewrite crunk_bind. destruct (send_core MCreateErr w1 k1) as [w2 [H2 [Hc2 Ho2]]]. rewrite H2.
      unfold crunk. cbn [runk]. do 4 eexists. split; [reflexivity|].
      destruct Hc2 as [? [? [? [? [? [? ?]]]]]].
      constructor; cbn [fst snd st0 app]; try congruence.
      split; [reflexivity|]. destruct (cp_fail0 ltac:(discriminate)) as [Ha|Hk2]; [left; exact Ha|right].
      apply Hk. exact Hk2.
    + unfold crunk. cbn [runk]. do 4 eexists. split; [reflexivity|].
      constructor; cbn [fst snd st0 app]; try congruence.
      intros _. split; [reflexivity|]. apply cp_ok0. reflexivity.
Qed.

Lemma fresh_core : forall w w1 opi, wls w1 = wls w -> conts w1 = conts w -> (forall n i, fresh w opi n i) -> forall ns, fresh_on w1 opi ns.
Proof.
  intros w w1 opi Hw Hc H ns n i _. destruct (H n i) as [H1 H2]. unfold fresh, find_wl, find_cont in *. rewrite Hw, Hc. auto.
Qed.

Lemma created_on_notin : forall ms (nodes : list name) n,
  (forall p, In p (created_of ms) -> In (wi_node (fst p)) nodes) -> ~ In n nodes -> created_on ms n = 0%nat.
Proof.
  intros ms nodes n H Hn. unfold created_on. rewrite filter_none; [reflexivity|].
  intros p Hp. apply Nat.eqb_neq. intro E. apply Hn. rewrite <- E. apply H. exact Hp.
Qed.

(* doCreateWorkloads, every world, every feasible plan (or refusal), every fault position *)
Theorem create_spec : forall opi pod r plan w k, create_hyp w opi r plan ->
  exists w' k' ms, crunk (create opi pod r plan) w k = (w', k', ms) /\ create_post opi pod r plan w w' ms.
Proof.
  intros opi pod r plan w k Hhyp. pose proof Hhyp as [Hfresh Hplan].
  rewrite create_unfold. rewrite crunk_bind. unfold txn_s. rewrite crunk_bind.
  destruct (cond_fn_spec opi pod r plan w k Hhyp) as [w1 [k1 [st1 [e [H1 P1]]]]].
  unfold cst, oerr in *. rewrite H1.
  destruct P1 as [cfp cfn cfw cfc cfs cfsc cfpl cfrb cfout cfpre cfok cffail].
  cbn [snd fst].
  destruct e as [err|].
  - (* the condition step failed: roll back whatever was allocated *)
    destruct (cffail ltac:(discriminate)) as [Hms Hor].
    rewrite crunk_bind. unfold rb_fn. rewrite crunk_bind.
    set (rb := map (fun a => (fst a, seq_nat 0 (snd a))) (cs_alloc (fst (fst st1)))).
    assert (Hrb : exists w2 k2, crunk (rollback_prog r rb) w1 k1 = (w2, k2, tt) /\
              pods w2 = pods w /\ nodes w2 = nodes w /\ wls w2 = wls w /\ conts w2 = conts w /\
              strict_remove w2 = strict_remove w /\ script w2 = script w /\ plugs w2 = plugs w /\ out w2 = out w1).
    { destruct Hor as [Ha|Hk].
      - unfold rb. rewrite Ha. cbn [map]. unfold rollback_prog. cbn [for_all]. unfold crunk. cbn [runk].
        exists w1, k1. split; [reflexivity|]. rewrite cfpl, Ha. unfold alloc_eff. cbn [fold_left]. repeat split; auto.
      - subst k1.
        destruct (rollback_spec r rb w1) as [w2 [H2 [? [? [? [? [? [? [? [? [? [Hout2 Hpl]]]]]]]]]]]].
        { intros g Hg. unfold rb in Hg. apply in_map_iff in Hg. destruct Hg as [a [<- Ha]]. cbn [fst].
          destruct plan as [dm|]; [|rewrite cfpre in Ha; destruct Ha].
          destruct cfpre as [rest Hdm]. destruct Hplan as [Hnd [Hfe Hnodes]].
          assert (Hin : In a dm) by (rewrite Hdm; apply in_or_app; left; exact Ha).
          split.
          - unfold find_node. rewrite cfn. apply Hnodes. apply in_map. exact Hin.
          - destruct a as [n cnt]. destruct (Hfe n cnt Hin) as [p [Hp _]]. unfold find_plug in *. cbn [fst].
            rewrite cfpl, alloc_eff_map, find_plug_map by reflexivity. rewrite Hp. discriminate. }
        exists w2, None. split; [exact H2|]. repeat split; try congruence.
        rewrite Hpl, cfpl, rollback_eff_map, alloc_eff_map, map_map. rewrite <- (map_id (plugs w)) at 2.
        apply map_ext. intros x. unfold rb. rewrite rb_len_of_alloc.
        replace (p_node (add_use (scale (atotal (cs_alloc (fst (fst st1))) (p_node x)) r) x)) with (p_node x) by reflexivity.
        rewrite <- (Nat.add_0_r (atotal (cs_alloc (fst (fst st1))) (p_node x))) at 2.
        rewrite sub_add_net. apply add_use_0. }
    destruct Hrb as [w2 [k2 [H2 [Hp2 [Hn2 [Hw2 [Hc2 [Hs2 [Hsc2 [Hpl2 Ho2]]]]]]]]]].
    rewrite H2. unfold rok, crunk. cbn [runk fst snd].
    destruct (defers_spec opi (fst (fst st1)) (snd st1) w2 k2) as [w3 [k3 [H3 [Hc3 Ho3]]]].
    unfold crunk in H3. rewrite H3. exists w3, k3, (snd st1). split; [reflexivity|].
    rewrite Hms in *.
    destruct Hc3 as [? [? [? [? [? [? ?]]]]]].
    constructor; cbn [created_of flat_map map app]; try rewrite app_nil_r; try congruence.
    + transitivity (plugs w); [congruence|]. rewrite <- (map_id (plugs w)) at 1. apply map_ext. intros x. symmetry. apply add_use_0.
    + left; reflexivity.
    + intros p [].
    + rewrite Ho3, Ho2, cfout. reflexivity.
    + intros n. cbn. lia.
  - (* the condition step succeeded: deploy *)
    destruct (cfok eq_refl) as [Hms0 [dm [Hplan_eq [Halloc Hcsplan]]]]. subst plan.
    destruct Hplan as [Hnd [Hfe Hnodes]].
    rewrite crunk_bind. unfold then_fn. rewrite crunk_bind. rewrite Hcsplan.
    destruct (deploy_all_ms opi pod r dm w1 k1 Hnd (fresh_core w w1 opi cfw cfc Hfresh (map fst dm)))
      as [w2 [k2 [rb [ms [H2 [Hlen [Hkn [Hcreated [Hcnt [Hrb0 [Hrbin [Hout2 Hcore2]]]]]]]]]]]].
    { intros n Hn. unfold find_node. rewrite cfn. apply Hnodes. exact Hn. }
    rewrite H2. rewrite Hms0. cbn [app fst snd].
    destruct Hcore2 as [Hp2 [Hn2 [Hpl2 [Hs2 [Hsc2 [Hw2 Hc2]]]]]].
    assert (Hnet : forall n, atotal dm n = (rb_len rb n + created_on ms n)%nat).
    { intros n. destruct (in_dec Nat.eq_dec n (map fst dm)) as [Hin|Hnin].
      - apply in_map_iff in Hin. destruct Hin as [[n' cnt] [Hn' Hin]]. cbn [fst] in Hn'. subst n'.
        rewrite (atotal_in dm n cnt Hnd Hin). symmetry. apply Hcnt. exact Hin.
      - rewrite (atotal_notin dm n Hnin), (Hrb0 n Hnin).
        rewrite (created_on_notin ms (map fst dm) n); auto. intros p Hp. destruct (Hcreated p Hp) as [_ [H _]]. exact H. }
    assert (Hcr : forall p, In p (created_of ms) -> wi_op (fst p) = opi /\ snd p = r).
    { intros p Hp. destruct (Hcreated p Hp) as [? [_ ?]]. auto. }
    destruct rb as [|g rbt].
    + (* every instance was deployed *)
      unfold crunk. cbn [runk fst snd].
      destruct (defers_spec opi (fst (fst st1)) ms w2 k2) as [w3 [k3 [H3 [Hc3 Ho3]]]].
      unfold crunk in H3. rewrite H3. exists w3, k3, ms. split; [reflexivity|].
      destruct Hc3 as [Hp3 [Hn3 [Hpl3 [Hs3 [Hsc3 [Hw3 Hcc3]]]]]].
      constructor; [congruence|congruence|congruence|congruence
                   |rewrite Hw3, Hw2, cfw; reflexivity|rewrite Hcc3, Hc2, cfc; reflexivity| |right; exists dm; auto|exact Hcr
                   |rewrite Ho3, Hout2, cfout; reflexivity
                   |intros n; rewrite Hnet; lia].
      rewrite Hpl3, Hpl2, cfpl, Halloc, alloc_eff_map. apply map_ext. intros x. rewrite Hnet. reflexivity.
    + (* some instance failed: the single fault has fired, the rollback runs undisturbed *)
      pose proof (Hkn ltac:(discriminate)) as Hk2. subst k2.
      rewrite crunk_ret. cbn [snd fst]. rewrite crunk_bind. unfold rb_fn. cbn [snd fst]. rewrite crunk_bind.
      destruct (rollback_spec r (g :: rbt) w2) as [w3 [H3 [? [? [? [? [? [? [? [? [? [Hout3 Hpl3]]]]]]]]]]]].
      { intros g' Hg'. pose proof (Hrbin g' Hg') as Hin. split.
        - unfold find_node. rewrite Hn2, cfn. apply Hnodes. exact Hin.
        - apply in_map_iff in Hin. destruct Hin as [[n cnt] [Hn' Hin]]. cbn [fst] in Hn'.
          destruct (Hfe n cnt Hin) as [p [Hp _]]. unfold find_plug in *. rewrite <- Hn'.
          rewrite Hpl2, cfpl, alloc_eff_map, find_plug_map by reflexivity. rewrite Hp. discriminate. }
      rewrite H3. unfold rok, crunk. cbn [runk fst snd].
      destruct (defers_spec opi (fst (fst st1)) ms w3 None) as [w4 [k4 [HD [Hc4 Ho4]]]].
      unfold crunk in HD. rewrite HD. exists w4, k4, ms. split; [reflexivity|].
      destruct Hc4 as [Hp4 [Hn4 [Hpl4 [Hs4 [Hsc4 [Hw4 Hcc4]]]]]].
      constructor; [congruence|congruence|congruence|congruence
                   |rewrite Hw4; congruence|rewrite Hcc4; congruence| |right; exists dm; auto|exact Hcr
                   |rewrite Ho4, Hout3, Hout2, cfout; reflexivity
                   |intros n; rewrite Hnet; lia].
      rewrite Hpl4, Hpl3, Hpl2, cfpl, Halloc, rollback_eff_map, alloc_eff_map, map_map. apply map_ext. intros x.
      replace (p_node (add_use (scale (atotal dm (p_node x)) r) x)) with (p_node x) by reflexivity.
      rewrite Hnet. apply sub_add_net.
Qed.

(* ---- C10 for create: the usage invariant survives, whatever the fault position ---- *)
Lemma rsum_app : forall a b, rsum (a ++ b) = radd (rsum a) (rsum b).
Proof.
  induction a as [|x t IH]; intros b; simpl.
  - destruct (rsum b) as [u v]. unfold radd, rzero; simpl. f_equal; lia.
  - rewrite IH. destruct x as [x1 x2], (rsum t) as [t1 t2], (rsum b) as [b1 b2]. unfold radd; simpl. f_equal; lia.
Qed.

Lemma sum_on_app : forall a b n, sum_on (a ++ b) n = radd (sum_on a n) (sum_on b n).
Proof. intros. unfold sum_on. rewrite filter_app, map_app. apply rsum_app. Qed.

Lemma sum_on_created : forall pod r cr n, (forall p, In p cr -> snd p = r) ->
  sum_on (map (wl_of pod) cr) n = scale (length (filter (fun p => Nat.eqb (wi_node (fst p)) n) cr)) r.
Proof.
  intros pod r cr n H. unfold sum_on. induction cr as [|p t IH]; simpl; [reflexivity|].
  destruct (Nat.eqb (wi_node (fst p)) n); simpl.
  - rewrite (H p (or_introl eq_refl)). f_equal. apply IH. intros q Hq. apply H. right; auto.
  - apply IH. intros q Hq. apply H. right; auto.
Qed.

Theorem create_keeps_usage : forall opi pod r plan w k, create_hyp w opi r plan -> use_ok w ->
  use_ok (fst (fst (crunk (create opi pod r plan) w k))).
Proof.
  intros opi pod r plan w k Hhyp Hok.
  destruct (create_spec opi pod r plan w k Hhyp) as [w' [k' [ms [H P]]]]. rewrite H. cbn [fst].
  destruct P as [_ _ _ _ Hw _ Hpl _ Hcr _ _].
  intros p' Hp'. rewrite Hpl in Hp'. apply in_map_iff in Hp'. destruct Hp' as [x [<- Hx]].
  cbn [add_use p_use p_node]. rewrite Hw, sum_on_app. rewrite (Hok x Hx).
  rewrite (sum_on_created pod r); [reflexivity|]. intros p Hp. apply (Hcr p Hp).
Qed.

