(* Calcium/InvProofs.v — C10: the plugin usage of every node equals the sum over the workloads
   recorded on it; the invariant survives the operations whose atomicity is proved in
   OpsProofs2.v, whatever the position of the injected fault. *)
From Coq Require Import List Bool Arith ZArith Lia Permutation.
From Verif Require Import Base.Effects Calcium.World Calcium.Ops Calcium.EffectsProofs Calcium.OpsProofs Calcium.OpsProofs2.
Import ListNotations.
Local Open Scope Z_scope.

(* usage recorded by the plugin = sum over the workloads recorded on the node *)
Definition sum_on (l : list wl) (m : name) : res := rsum (map w_res (filter (fun x => Nat.eqb (w_node x) m) l)).
Definition use_ok (w : world) : Prop := forall p, In p (plugs w) -> p_use p = sum_on (wls w) (p_node p).

Lemma radd_swap : forall a b c, radd a (radd b c) = radd b (radd a c).
Proof. intros [a1 a2] [b1 b2] [c1 c2]. unfold radd; simpl. f_equal; lia. Qed.

Lemma sum_on_perm : forall l l' m, Permutation l l' -> sum_on l m = sum_on l' m.
Proof.
  intros l l' m H. unfold sum_on. induction H; simpl.
  - reflexivity.
  - destruct (Nat.eqb (w_node x) m); simpl; rewrite IHPermutation; reflexivity.
  - destruct (Nat.eqb (w_node x) m), (Nat.eqb (w_node y) m); simpl; auto using radd_swap.
  - congruence.
Qed.

Lemma del_wl_notin : forall t id, ~ In id (ids t) -> del_wl id t = t.
Proof.
  intros t id H. unfold del_wl. apply filter_true. intros z Hz.
  destruct (wid_eqb (w_id z) id) eqn:E; auto. apply wid_eqb_eq in E. exfalso. apply H. rewrite <- E. apply in_map; auto.
Qed.
Lemma upd_wl_notin : forall t x', ~ In (w_id x') (ids t) -> upd_wl x' t = t.
Proof.
  intros t x' H. unfold upd_wl. rewrite <- (map_id t) at 2. apply map_ext_in. intros z Hz.
  destruct (wid_eqb (w_id z) (w_id x')) eqn:E; auto. apply wid_eqb_eq in E. exfalso. apply H. rewrite <- E. apply in_map; auto.
Qed.

Lemma res_arith1 : forall a b, rsub (radd a b) a = b.
Proof. intros [a1 a2] [b1 b2]. unfold radd, rsub; simpl. f_equal; lia. Qed.
Lemma res_arith2 : forall a b c, radd a (rsub b c) = rsub (radd a b) c.
Proof. intros [a1 a2] [b1 b2] [c1 c2]. unfold radd, rsub; simpl. f_equal; lia. Qed.
Lemma rsub_0 : forall a, rsub a rzero = a.
Proof. intros [a1 a2]. unfold rsub, rzero; simpl. f_equal; lia. Qed.

Lemma sum_on_del : forall l x m, NoDup (ids l) -> find (fun y => wid_eqb (w_id y) (w_id x)) l = Some x ->
  sum_on (del_wl (w_id x) l) m = rsub (sum_on l m) (if Nat.eqb (w_node x) m then w_res x else rzero).
Proof.
  induction l as [|y t IH]; intros x m Hnd Hf; simpl in *; [discriminate|].
  inversion Hnd as [|? ? Hn Hnd']; subst.
  destruct (wid_eqb (w_id y) (w_id x)) eqn:E; simpl.
  - inversion Hf; subst y. rewrite del_wl_notin by exact Hn.
    unfold sum_on. simpl. destruct (Nat.eqb (w_node x) m); simpl.
    + rewrite res_arith1. reflexivity.
    + rewrite rsub_0. reflexivity.
  - unfold sum_on in *. simpl. destruct (Nat.eqb (w_node y) m); simpl.
    + rewrite (IH x m Hnd' Hf). rewrite res_arith2. reflexivity.
    + apply IH; auto.
Qed.

Lemma res_arith3 : forall a b c, radd a c = radd (radd b c) (rsub a b).
Proof. intros [a1 a2] [b1 b2] [c1 c2]. unfold radd, rsub; simpl. f_equal; lia. Qed.
Lemma radd_0 : forall a, radd a rzero = a.
Proof. intros [a1 a2]. unfold radd, rzero; simpl. f_equal; lia. Qed.
Lemma res_arith4 : forall a b c, radd a (radd b c) = radd (radd a b) c.
Proof. intros [a1 a2] [b1 b2] [c1 c2]. unfold radd; simpl. f_equal; lia. Qed.

Lemma sum_on_upd : forall l x x' m, NoDup (ids l) -> find (fun y => wid_eqb (w_id y) (w_id x')) l = Some x ->
  w_node x' = w_node x ->
  sum_on (upd_wl x' l) m = radd (sum_on l m) (if Nat.eqb (w_node x) m then rsub (w_res x') (w_res x) else rzero).
Proof.
  induction l as [|y t IH]; intros x x' m Hnd Hf Hnode; simpl in *; [discriminate|].
  inversion Hnd as [|? ? Hn Hnd']; subst.
  destruct (wid_eqb (w_id y) (w_id x')) eqn:E; simpl.
  - inversion Hf; subst y. apply wid_eqb_eq in E. rewrite E in Hn. rewrite upd_wl_notin by exact Hn.
    unfold sum_on. simpl. rewrite Hnode. destruct (Nat.eqb (w_node x) m); simpl.
    + apply res_arith3.
    + rewrite radd_0. reflexivity.
  - unfold sum_on in *. simpl. destruct (Nat.eqb (w_node y) m); simpl.
    + rewrite (IH x x' m Hnd' Hf Hnode). apply res_arith4.
    + apply IH; auto.
Qed.

Lemma in_upd_plug : forall n f l q, In q (upd_plug n f l) ->
  exists p, In p l /\ q = if Nat.eqb (p_node p) n then f p else p.
Proof. intros n f l q H. unfold upd_plug in H. apply in_map_iff in H. destruct H as [p [H1 H2]]. exists p. auto. Qed.

(* ---- C10 for the blocks: the invariant survives success and failure ---- *)
Lemma use_ok_perm : forall w l, use_ok w -> Permutation l (wls w) -> use_ok (oth w l (plugs w) (conts w)).
Proof.
  intros w l H Hp q Hq. simpl in *. rewrite (sum_on_perm _ _ _ Hp). apply H; auto.
Qed.

Lemma use_ok_remove : forall w x n c, use_ok w -> NoDup (ids (wls w)) -> find_wl w (w_id x) = Some x -> w_node x = n ->
  use_ok (oth w (del_wl (w_id x) (wls w)) (upd_plug n (sub_use (w_res x)) (plugs w)) c).
Proof.
  intros w x n c H Hnd Hx Hn q Hq. simpl in *.
  apply in_upd_plug in Hq. destruct Hq as [p [Hp Hq]].
  rewrite (sum_on_del _ x _ Hnd Hx). rewrite Hn.
  destruct (Nat.eqb (p_node p) n) eqn:E; subst q.
  - apply Nat.eqb_eq in E. simpl. rewrite E, Nat.eqb_refl. rewrite (H p Hp), E. reflexivity.
  - rewrite Nat.eqb_sym, E. rewrite rsub_0. apply H; auto.
Qed.

Lemma use_ok_realloc : forall w x req c, use_ok w -> NoDup (ids (wls w)) -> find_wl w (w_id x) = Some x ->
  use_ok (oth w (upd_wl (mkWl (w_id x) (w_node x) (w_pod x) (radd (w_res x) req)) (wls w))
                (upd_plug (w_node x) (add_use req) (plugs w)) c).
Proof.
  intros w x req c H Hnd Hx q Hq. simpl in *.
  apply in_upd_plug in Hq. destruct Hq as [p [Hp Hq]].
  rewrite (sum_on_upd _ x _ _ Hnd); [|exact Hx|reflexivity]. simpl.
  rewrite res_arith1.
  destruct (Nat.eqb (p_node p) (w_node x)) eqn:E; subst q.
  - apply Nat.eqb_eq in E. simpl. rewrite E, Nat.eqb_refl. rewrite (H p Hp), E. reflexivity.
  - rewrite Nat.eqb_sym, E. rewrite radd_0. apply H; auto.
Qed.

(* ---- the operations ---- *)
Theorem realloc_keeps_usage : forall id req w k, wf w -> use_ok w ->
  use_ok (fst (fst (crunk (realloc id req) w k))).
Proof.
  intros id req w k Hwf Hok.
  destruct (realloc_atomic id req w k Hwf) as [w' [k' [r [H [Hfail Hsucc]]]]]. rewrite H. simpl.
  destruct r as [e|].
  - rewrite Hfail by discriminate. exact Hok.
  - destruct (Hsucc eq_refl) as [x [Hx ->]].
    destruct (find_wl_id _ _ _ Hx) as [Hid _].
    apply use_ok_realloc; auto. apply (wf_ids w Hwf). rewrite Hid. exact Hx.
Qed.

Theorem remove_keeps_usage : forall n id force w k, wf w -> use_ok w ->
  (force = true \/ strict_remove w = false) ->
  (forall x, find_wl w id = Some x -> w_node x = n) ->
  use_ok (fst (fst (crunk (with_workload_locked id (fun x => remove_txn n x force)) w k))).
Proof.
  intros n id force w k Hwf Hok Hforce Hnode.
  destruct (remove_locked_atomic n id force w k Hwf Hforce Hnode) as [w' [k' [r [H [Hfail Hsucc]]]]]. rewrite H. simpl.
  destruct r as [e|].
  - destruct Hfail as [l [-> Hp]]; [discriminate|]. apply use_ok_perm; auto.
  - destruct (Hsucc eq_refl) as [x [Hx ->]].
    destruct (find_wl_id _ _ _ Hx) as [Hid _]. rewrite <- Hid.
    apply use_ok_remove; auto. apply (wf_ids w Hwf). rewrite Hid. exact Hx.
Qed.

Theorem dissociate_keeps_usage : forall n id w k, wf w -> use_ok w ->
  (forall x, find_wl w id = Some x -> w_node x = n) ->
  use_ok (fst (fst (crunk (with_workload_locked id (fun x => dissociate_txn n x)) w k))).
Proof.
  intros n id w k Hwf Hok Hnode.
  destruct (dissociate_locked_atomic n id w k Hwf Hnode) as [w' [k' [r [H [Hfail Hsucc]]]]]. rewrite H. simpl.
  destruct r as [e|].
  - rewrite Hfail by discriminate. exact Hok.
  - destruct (Hsucc eq_refl) as [x [Hx ->]].
    destruct (find_wl_id _ _ _ Hx) as [Hid _]. rewrite <- Hid.
    apply use_ok_remove; auto. apply (wf_ids w Hwf). rewrite Hid. exact Hx.
Qed.

Theorem add_node_keeps_usage : forall n p cap w k,
  existsb (Nat.eqb p) (pods w) = true -> find_node w n = None ->
  (forall x, In x (wls w) -> w_node x <> n) ->          (* no record refers to the new name *)
  use_ok w -> use_ok (fst (fst (crunk (add_node n p cap) w k))).
Proof.
  intros n p cap w k Hpod Hn Hfresh Hok.
  destruct (add_node_atomic n p cap w k Hpod Hn) as [w' [k' [r [H [Hfail Hsucc]]]]]. rewrite H. simpl.
  destruct r as [e|].
  - rewrite Hfail by discriminate. exact Hok.
  - rewrite (Hsucc eq_refl). intros q Hq. simpl in *. apply in_app_or in Hq. destruct Hq as [Hq|[<-|[]]].
    + apply Hok; auto.
    + simpl. unfold sum_on.
      assert (E : filter (fun x => Nat.eqb (w_node x) n) (wls w) = []).
      { clear - Hfresh. induction (wls w) as [|y t IH]; simpl; [reflexivity|].
        destruct (Nat.eqb (w_node y) n) eqn:E.
        - apply Nat.eqb_eq in E. exfalso. apply (Hfresh y); [left; reflexivity|exact E].
        - apply IH. intros x Hx. apply Hfresh. right; auto. }
      rewrite E. reflexivity.
Qed.
