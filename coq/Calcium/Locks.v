(* C20 — lock scripts of the cluster operations (cluster/calcium/lock.go and
   every caller).  Executable model, no proofs.

   A lock key is the Go key string itself ("plock_<pod>", "clock_<id>",
   "cnode_op_<pod>_<node>"); its class is decided by the prefix.  The global
   order is (class, string): pod keys < workload keys < node-operation keys,
   bytewise lexicographic inside a class (= Go's sort.Strings order).

   Each operation is a set of threads (goroutines); a thread is the sequence of
   Acq / AcqFail / Rel events it performs, a pure function of the arguments,
   the store contents and oracles for what the model does not compute
   (outcome of strategy / engine steps, the order in which the store returned
   workloads, which lock attempts fail).

   The model follows lock.go AFTER the two repairs of this property:
     withNodesLocked      locks sort+unique of the keys of the filtered nodes
     withWorkloadsLocked  locks in the order of the sorted unique ids
   and node.go:filterNodes after builder D1's repair (sorted unique by name). *)
From Coq Require Import List Bool String Ascii Arith.
From Verif Require Import Base.LockOrder.
From Verif Require Select.Model.   (* read-only: labels_filter of builder D1's node-selection model *)
Import ListNotations.
Local Open Scope string_scope.

(* ---------- keys ---------- *)
Definition key := string.
Definition pod_key (pod : string) : key := "plock_" ++ pod.
Definition wl_key (id : string) : key := "clock_" ++ id.
Definition nodeop_key (pod node : string) : key := "cnode_op_" ++ pod ++ "_" ++ node.

Definition class (k : key) : nat :=
  if prefix "plock_" k then 0
  else if prefix "clock_" k then 1
  else if prefix "cnode_op_" k then 2
  else 3.

Definition key_eqb (a b : key) : bool := String.eqb a b.
Definition key_ltb (a b : key) : bool :=
  Nat.ltb (class a) (class b) || (Nat.eqb (class a) (class b) && String.ltb a b).

Notation lev := (ev key).
Definition k_ordered : list lev -> bool := ordered key_eqb key_ltb.
Definition k_nested : list lev -> bool := well_nested key_eqb.

(* node-operation keys are attempted only with nothing held, and nothing is
   attempted while one is held *)
Fixpoint nodeop_run (h : list key) (evs : list lev) : bool :=
  match evs with
  | [] => true
  | Acq k :: r =>
      (if Nat.eqb (class k) 2 || existsb (fun x => Nat.eqb (class x) 2) h
       then match h with [] => true | _ => false end else true)
      && nodeop_run (k :: h) r
  | AcqFail k :: r =>
      (if Nat.eqb (class k) 2 || existsb (fun x => Nat.eqb (class x) 2) h
       then match h with [] => true | _ => false end else true)
      && nodeop_run h r
  | Rel k :: r => nodeop_run (removeb key_eqb k h) r
  end.
Definition nodeop_alone (evs : list lev) : bool := nodeop_run [] evs.

Definition known_class (evs : list lev) : bool :=
  forallb (fun e => match e with Acq k | AcqFail k | Rel k => Nat.ltb (class k) 3 end) evs.

(* the property of one thread *)
Definition thread_ok (evs : list lev) : bool :=
  k_ordered evs && k_nested evs && nodeop_alone evs && known_class evs.

(* ---------- sort.Strings + utils.Unique ---------- *)
Fixpoint insert_uniq (x : string) (l : list string) : list string :=
  match l with
  | [] => [x]
  | y :: t => if String.eqb x y then l
              else if String.ltb x y then x :: l
              else y :: insert_uniq x t
  end.
Definition sort_uniq (l : list string) : list string := fold_right insert_uniq [] l.

(* ---------- store contents relevant to locking ---------- *)
Record node := mkNode { n_name : string; n_pod : string; n_avail : bool; n_labels : list (string * string) }.
Record wl := mkWl { w_id : string; w_node : string }.
Record lstore := mkStore { st_nodes : list node; st_wls : list wl }.
Record nfilter := mkFilter {
  f_pod : string; f_includes : list string; f_excludes : list string; f_all : bool;
  f_labels : list (string * string) }.

Definition get_node (s : lstore) (name : string) : option node :=
  find (fun n => String.eqb (n_name n) name) (st_nodes s).
Definition get_wl (s : lstore) (id : string) : option wl :=
  find (fun w => String.eqb (w_id w) id) (st_wls s).

Fixpoint get_all {A} (get : string -> option A) (names : list string) : option (list A) :=
  match names with
  | [] => Some []
  | x :: t => match get x, get_all get t with
              | Some a, Some r => Some (a :: r)
              | _, _ => None
              end
  end.

Definition mem_str (x : string) (l : list string) : bool := existsb (String.eqb x) l.

(* store.GetNodesByPod: nodes of the pod (every pod when the name is empty),
   nodes lacking one of the filter's labels skipped (utils.LabelsFilter), down nodes skipped unless All *)
Definition nodes_by_pod (s : lstore) (f : nfilter) : list node :=
  filter (fun n => (String.eqb (f_pod f) "" || String.eqb (n_pod n) (f_pod f))
                   && Verif.Select.Model.labels_filter (n_labels n) (f_labels f)
                   && (f_all f || n_avail n)) (st_nodes s).

(* node.go:filterNodes (after the C21 repair): None = error *)
Definition filter_nodes (s : lstore) (f : nfilter) : option (list node) :=
  let sel :=
    match f_includes f with
    | _ :: _ => get_all (get_node s) (f_includes f)
    | [] =>
        let listed := nodes_by_pod s f in
        match f_excludes f with
        | [] => Some listed
        | _ => Some (filter (fun n => negb (mem_str (n_name n) (f_excludes f))) listed)
        end
    end in
  match sel with
  | None => None
  | Some ns =>
      let names := sort_uniq (map n_name ns) in
      Some (flat_map (fun nm => match find (fun n => String.eqb (n_name n) nm) ns with
                                | Some n => [n] | None => [] end) names)
  end.

(* ---------- scripts with failing lock attempts ----------
   [fl k i] = "the attempt on key k that is the i-th attempt of this thread
   fails".  A computation takes the attempt counter and returns its events, the
   new counter, whether it returned an error, and the nodes for which it
   started a RemapResourceAndLog goroutine. *)
Record res := mkRes { r_evs : list lev; r_n : nat; r_err : bool; r_spawn : list string }.
Definition M := (key -> nat -> bool) -> nat -> res.

Definition ret (err : bool) : M := fun _ n => mkRes [] n err [].
Definition spawn_remap (name : string) : M := fun _ n => mkRes [] n false [name].
(* run a, ignore its error, run b *)
Definition bind_ign (a b : M) : M := fun fl n =>
  let ra := a fl n in
  let rb := b fl (r_n ra) in
  mkRes (r_evs ra ++ r_evs rb) (r_n rb) (r_err rb) (r_spawn ra ++ r_spawn rb).
(* run a; when it failed return its error, else run b *)
Definition bind_err (a b : M) : M := fun fl n =>
  let ra := a fl n in
  if r_err ra then ra else
  let rb := b fl (r_n ra) in
  mkRes (r_evs ra ++ r_evs rb) (r_n rb) (r_err rb) (r_spawn ra ++ r_spawn rb).

(* lock [keys] in the given order (lock.go: the loop around doLock), run the
   body, unlock in reverse order (deferred doUnlockAll).  [acq] = acquired so
   far, most recent first. *)
Fixpoint with_keys_from (keys acq : list key) (body : M) : M := fun fl n =>
  match keys with
  | [] => let r := body fl n in mkRes (r_evs r ++ map Rel acq) (r_n r) (r_err r) (r_spawn r)
  | k :: ks =>
      if fl k n then mkRes (AcqFail k :: map Rel acq) (S n) true []
      else let r := with_keys_from ks (k :: acq) body fl (S n) in
           mkRes (Acq k :: r_evs r) (r_n r) (r_err r) (r_spawn r)
  end.
Definition with_keys (keys : list key) (body : M) : M := with_keys_from keys [] body.

(* lock.go:withNodesLocked *)
Definition with_nodes_locked (s : lstore) (f : nfilter) (gen : node -> key) (body : list node -> M) : M :=
  match filter_nodes s f with
  | None => ret true
  | Some ns => with_keys (sort_uniq (map gen ns)) (body ns)
  end.
Definition gen_pod (n : node) : key := pod_key (n_pod n).
Definition gen_nodeop (n : node) : key := nodeop_key (n_pod n) (n_name n).
Definition with_nodes_pod_locked s f body := with_nodes_locked s f gen_pod body.
Definition with_nodes_op_locked s f body := with_nodes_locked s f gen_nodeop body.

Definition one_node_filter (name : string) : nfilter := mkFilter "" [name] [] true [].
Definition has_node (name : string) (ns : list node) : bool :=
  existsb (fun n => String.eqb (n_name n) name) ns.
(* lock.go:withNodePodLocked / withNodeOperationLocked *)
Definition with_node_pod_locked (s : lstore) (name : string) (body : M) : M :=
  with_nodes_pod_locked s (one_node_filter name) (fun ns => if has_node name ns then body else ret true).
Definition with_node_op_locked (s : lstore) (name : string) (body : M) : M :=
  with_nodes_op_locked s (one_node_filter name) (fun ns => if has_node name ns then body else ret true).

(* lock.go:withWorkloadsLocked; [gone] = ids removed earlier in this thread.
   Operations pass exactly one id, so nothing is held when the attempt fails; the
   multi-id case (export hook only) is with_workloads_helper below. *)
Definition with_workloads_locked (s : lstore) (gone : list string) (ignore_lock : bool)
    (ids : list string) (body : M) : M :=
  let ids' := sort_uniq ids in
  if existsb (fun i => mem_str i gone) ids' then ret true else
  match get_all (get_wl s) ids' with
  | None => ret true
  | Some _ => if ignore_lock then body else with_keys (map wl_key ids') body
  end.
Definition with_workload_locked s gone ignore_lock id body :=
  with_workloads_locked s gone ignore_lock [id] body.

(* withWorkloadsLocked called with SEVERAL ids (only through the export hook): when an
   attempt fails, doUnlockAll finds len(order) <> len(locks) and releases the locks taken
   so far in Go map order: [orc] is that order (an oracle; LIFO when it is not a
   permutation of the keys held) *)
Fixpoint is_perm (a b : list key) : bool :=
  match a with
  | [] => match b with [] => true | _ => false end
  | k :: t => memb key_eqb k b && is_perm t (removeb key_eqb k b)
  end.
Definition release_order (orc acq : list key) : list key := if is_perm orc acq then orc else acq.
Fixpoint with_keys_from_o (orc : list key) (keys acq : list key) (err : bool) : M := fun fl n =>
  match keys with
  | [] => mkRes (map Rel acq) n err []
  | k :: ks =>
      if fl k n then mkRes (AcqFail k :: map Rel (release_order (filter (fun x => memb key_eqb x acq) orc) acq)) (S n) true []
      else let r := with_keys_from_o orc ks (k :: acq) err fl (S n) in
           mkRes (Acq k :: r_evs r) (r_n r) (r_err r) (r_spawn r)
  end.
Definition with_workloads_helper (s : lstore) (ignore_lock : bool) (ids rel : list string) : M :=
  let ids' := sort_uniq ids in
  match get_all (get_wl s) ids' with
  | None => ret true
  | Some _ => if ignore_lock then ret false else with_keys_from_o (map wl_key rel) (map wl_key ids') [] false
  end.

(* RemapResourceAndLog: its own goroutine *)
Definition remap_thread (s : lstore) (name : string) : M :=
  with_node_op_locked s name (ret false).

(* for each id: lock the workload and act on it; a workload whose lock was
   obtained is removed (remove / dissociate with a succeeding transaction),
   so a later occurrence of the same id is not found any more *)
Fixpoint each_workload (s : lstore) (gone : list string) (ids : list string) : M := fun fl n =>
  match ids with
  | [] => mkRes [] n false []
  | i :: t =>
      let r1 := with_workload_locked s gone false i (ret false) fl n in
      let gone' := if r_err r1 then gone else i :: gone in
      let r2 := each_workload s gone' t fl (r_n r1) in
      mkRes (r_evs r1 ++ r_evs r2) (r_n r2) false (r_spawn r1 ++ r_spawn r2)
  end.

Fixpoint seq_all (ms : list M) : M :=
  match ms with
  | [] => ret false
  | m :: t => bind_ign m (seq_all t)
  end.

(* ---------- operations ---------- *)
Inductive op :=
(* create: filter; cond_ok (strategy/alloc/markers succeeded); nodes whose
   deployment was prepared (each starts a remap goroutine); nodes with failed
   instances (rollback under the pod lock, one after the other) *)
| OCreate (f : nfilter) (cond_ok : bool) (prepared rollback : list string)
| OCapacity (f : nfilter)
| ORemovePod (pod : string)
(* remove / dissociate: ids in the order the store returned them *)
| ORemove (order : list string)
| ODissociate (order : list string)
| ORealloc (id : string) (succeeded : bool)
| OReplace (ids : list string) (succeeded : list bool)
| OControl (ids : list string)
| OSend (ids : list string)
| ORawEngine (id : string) (ignore_lock : bool)
| OSetNode (name : string) (updated : bool)
| ORemoveNode (name : string)
| ONodeResource (name : string)
| OPodResource (pod : string)
| ORemap (name : string)
(* the two helpers called directly (export hook), with arbitrary arguments *)
| OHelperNodes (f : nfilter) (node_op : bool)
| OHelperWorkloads (ids : list string) (ignore_lock : bool) (rel : list string).   (* rel: release order on a failing attempt *)

(* group ids by node, groups in first-occurrence order *)
Fixpoint group_add (nd id : string) (g : list (string * list string)) : list (string * list string) :=
  match g with
  | [] => [(nd, [id])]
  | (nd', ids) :: t => if String.eqb nd nd' then (nd', (ids ++ [id])%list) :: t else (nd', ids) :: group_add nd id t
  end.
Definition group_by_node (s : lstore) (order : list string) : option (list (string * list string)) :=
  match get_all (get_wl s) order with
  | None => None
  | Some ws => Some (fold_left (fun g w => group_add (w_node w) (w_id w) g) ws [])
  end.

(* the per-node part of RemoveWorkload / DissociateWorkload *)
Definition remove_on_node (s : lstore) (nd : string) (ids : list string) : M :=
  with_node_pod_locked s nd (bind_ign (each_workload s [] ids) (spawn_remap nd)).

Definition with_wl_then_remap (s : lstore) (id : string) (succeeded : bool) : M :=
  with_workload_locked s [] false id
    (if succeeded then match get_wl s id with Some w => spawn_remap (w_node w) | None => ret false end
     else ret true).

Fixpoint replace_threads (s : lstore) (ids : list string) (succ : list bool) : list M :=
  match ids with
  | [] => []
  | i :: t => with_wl_then_remap s i (match succ with b :: _ => b | [] => false end)
              :: replace_threads s t (tl succ)
  end.

(* first occurrences, in order (send.go: a target listed twice is served once) *)
Fixpoint dedup_first (seen : list string) (l : list string) : list string :=
  match l with
  | [] => []
  | x :: t => if mem_str x seen then dedup_first seen t else x :: dedup_first (x :: seen) t
  end.

(* goroutines the operation starts directly *)
Definition op_main (s : lstore) (o : op) : list M :=
  match o with
  | OCreate f cond_ok prepared rollback =>
      [bind_err
         (with_nodes_pod_locked s f
            (fun ns => ret (negb cond_ok || match ns with [] => true | _ => false end)))
         (bind_ign (seq_all (map spawn_remap prepared))
                   (seq_all (map (fun nd => with_node_pod_locked s nd (ret false)) rollback)))]
  | OCapacity f => [with_nodes_pod_locked s f (fun _ => ret false)]
  | ORemovePod pod => [with_nodes_pod_locked s (mkFilter pod [] [] true []) (fun _ => ret false)]
  | ORemove order =>
      match group_by_node s order with
      | None => []
      | Some groups => map (fun g => remove_on_node s (fst g) (snd g)) groups
      end
  | ODissociate order =>
      match group_by_node s order with
      | None => []
      | Some groups => [seq_all (map (fun g => remove_on_node s (fst g) (snd g)) groups)]
      end
  | ORealloc id succeeded =>
      match get_wl s id with
      | None => []
      | Some w =>
          [with_node_pod_locked s (w_node w)
             (with_workload_locked s [] false id
                (if succeeded then spawn_remap (w_node w) else ret true))]
      end
  | OReplace ids succeeded => replace_threads s ids succeeded
  | OControl ids => map (fun id => with_workload_locked s [] false id (ret false)) ids
  | OSend ids => map (fun id => with_workload_locked s [] false id (ret false)) (dedup_first [] ids)
  | ORawEngine id ign => [with_workload_locked s [] ign id (ret false)]
  | OSetNode name updated =>
      [with_node_pod_locked s name (if updated then spawn_remap name else ret true)]
  | ORemoveNode name | ONodeResource name => [with_node_pod_locked s name (ret false)]
  | OPodResource pod =>
      map (fun n => with_node_pod_locked s (n_name n) (ret false))
          (nodes_by_pod s (mkFilter pod [] [] false []))
  | ORemap name => [remap_thread s name]
  | OHelperNodes f node_op =>
      [if node_op then with_nodes_op_locked s f (fun _ => ret false)
       else with_nodes_pod_locked s f (fun _ => ret false)]
  | OHelperWorkloads ids ign rel => [with_workloads_helper s ign ids rel]
  end.

Fixpoint run_indexed (i : nat) (ms : list M) (fls : nat -> key -> nat -> bool) : list res :=
  match ms with
  | [] => []
  | m :: t => m (fls i) 0 :: run_indexed (S i) t fls
  end.

(* all threads of an operation: the main goroutines (oracle [fls i] for the
   i-th) and the remap goroutines they started (oracle [flr j] for the j-th) *)
Definition op_threads (s : lstore) (o : op) (fls flr : nat -> key -> nat -> bool) : list (list lev) :=
  let mains := run_indexed 0 (op_main s o) fls in
  let remaps := flat_map r_spawn mains in
  map r_evs mains ++ map r_evs (run_indexed 0 (map (remap_thread s) remaps) flr).

(* ---------- episodes: maximal segments from empty to empty held set ---------- *)
Fixpoint episodes_from (depth : nat) (cur : list lev) (evs : list lev) : list (list lev) :=
  match evs with
  | [] => match cur with [] => [] | _ => [rev cur] end
  | Acq k :: r => episodes_from (S depth) (Acq k :: cur) r
  | AcqFail k :: r =>
      match depth with
      | O => rev (AcqFail k :: cur) :: episodes_from O [] r
      | _ => episodes_from depth (AcqFail k :: cur) r
      end
  | Rel k :: r =>
      match depth with
      | S O => rev (Rel k :: cur) :: episodes_from O [] r
      | _ => episodes_from (pred depth) (Rel k :: cur) r
      end
  end.
Definition episodes (evs : list lev) : list (list lev) := episodes_from 0 [] evs.

Definition ev_eqb (a b : lev) : bool :=
  match a, b with
  | Acq x, Acq y | AcqFail x, AcqFail y | Rel x, Rel y => String.eqb x y
  | _, _ => false
  end.
Fixpoint evs_eqb (a b : list lev) : bool :=
  match a, b with
  | [], [] => true
  | x :: s, y :: t => ev_eqb x y && evs_eqb s t
  | _, _ => false
  end.
Fixpoint remove_first (x : list lev) (l : list (list lev)) : option (list (list lev)) :=
  match l with
  | [] => None
  | y :: t => if evs_eqb x y then Some t
              else match remove_first x t with Some t' => Some (y :: t') | None => None end
  end.
Fixpoint multiset_eqb (a b : list (list lev)) : bool :=
  match a with
  | [] => match b with [] => true | _ => false end
  | x :: t => match remove_first x b with Some b' => multiset_eqb t b' | None => false end
  end.

(* ---------- cases of the correspondence check ---------- *)
Record case := mkCase {
  c_store : lstore;
  c_op : op;
  c_ids : list string;             (* remove / dissociate: the ids requested *)
  c_failkey : option key;          (* every attempt on this key fails *)
  c_obs : list (list lev)          (* observed events, one list per goroutine *)
}.

Definition fail_oracle (fk : option key) : nat -> key -> nat -> bool :=
  fun _ k _ => match fk with Some k' => String.eqb k k' | None => false end.

Definition model_episodes (c : case) : list (list lev) :=
  flat_map episodes (op_threads (c_store c) (c_op c) (fail_oracle (c_failkey c)) (fail_oracle (c_failkey c))).

Fixpoint strs_eqb (a b : list string) : bool :=
  match a, b with
  | [], [] => true
  | x :: s, y :: t => String.eqb x y && strs_eqb s t
  | _, _ => false
  end.

(* the store-order oracle of remove / dissociate must be an ordering of
   exactly the requested ids (nothing when one of them does not exist) *)
Definition order_consistent (c : case) : bool :=
  match c_op c with
  | ORemove order | ODissociate order =>
      match get_all (get_wl (c_store c)) (c_ids c) with
      | None => match order with [] => true | _ => false end
      | Some _ => strs_eqb (sort_uniq order) (sort_uniq (c_ids c))
      end
  | _ => true
  end.

Definition agree (c : case) : bool :=
  order_consistent c && multiset_eqb (model_episodes c) (flat_map episodes (c_obs c)).

(* the multi-node node-operation helper is never called by an operation with
   more than one node; called directly it is only checked for order and nesting *)
Definition thread_ok_weak (evs : list lev) : bool :=
  k_ordered evs && k_nested evs && known_class evs.
Definition ok (c : case) : bool :=
  match c_op c with
  | OHelperNodes _ true => forallb thread_ok_weak (c_obs c)
  | OHelperWorkloads _ _ _ =>      (* release order after a failing attempt is Go map order: not LIFO *)
      forallb (fun evs => k_ordered evs && nodeop_alone evs && known_class evs) (c_obs c)
  | _ => forallb thread_ok (c_obs c)
  end.
