(* Calcium/InterleaveMsg.v — the commuting family extended with dissociate: realloc, set-node and dissociate on
   disjoint footprints.  dissociate updates in place (usage, record removal) and sends messages; in the model all
   operations share ONE channel [out] (in the code each has its own), so the statement is up to that channel:
   xops_interleave: EVERY interleaving at call granularity, any two fault positions, gives the results and the world of
   the sequential history, equal in everything but [out]. *)
From Coq Require Import List Bool Arith ZArith Lia.
From Verif Require Import Base.Effects Calcium.World Calcium.Ops Calcium.OpsProofs Calcium.OpsProofs2 Calcium.CreateProofs Calcium.NodeProofs Calcium.HistoryProofs Calcium.Interleave Calcium.InterleaveOps Calcium.InterleaveGen.
Import ListNotations.
Local Open Scope Z_scope.

(* the in-place class extended with the calls of dissociate: usage updates, record removal, messages *)
Definition in_fpx (F : fp) (c : call) : Prop :=
  match c with
  | PSetUsage n _ _ => f_nodes F n
  | SRemoveWorkload x => f_ids F (w_id x)
  | Send _ => True
  | _ => in_fp F c
  end.

Lemma find_wl_del_other : forall l i j, i <> j ->
  find (fun y => wid_eqb (w_id y) j) (del_wl i l) = find (fun y => wid_eqb (w_id y) j) l.
Proof.
  intros l i j H. induction l as [|y t IH]; simpl; [reflexivity|].
  destruct (wid_eqb (w_id y) i) eqn:E; simpl.
  - apply wid_eqb_eq in E. rewrite E. rewrite (wid_eqb_false i j H). exact IH.
  - destruct (wid_eqb (w_id y) j); [reflexivity|exact IH].
Qed.

Lemma del_wl_comm : forall a b l, del_wl a (del_wl b l) = del_wl b (del_wl a l).
Proof.
  intros a b l. unfold del_wl. induction l as [|y t IH]; simpl; [reflexivity|].
  destruct (wid_eqb (w_id y) b) eqn:E2, (wid_eqb (w_id y) a) eqn:E1; simpl; rewrite ?E1, ?E2; simpl; congruence.
Qed.

Lemma del_upd_wl_comm : forall a x l, del_wl a (upd_wl x l) = upd_wl x (del_wl a l).
Proof.
  intros a x l. unfold del_wl, upd_wl. induction l as [|y t IH]; simpl; [reflexivity|].
  assert (Hid : w_id (if wid_eqb (w_id y) (w_id x) then x else y) = w_id y).
  { destruct (wid_eqb (w_id y) (w_id x)) eqn:E; [apply wid_eqb_eq in E; auto|reflexivity]. }
  rewrite Hid. destruct (wid_eqb (w_id y) a); simpl; [exact IH|]. f_equal. exact IH.
Qed.

Lemma getwls_del_other : forall a L l, (forall i, In i l -> a <> i) ->
  forallb (fun id => match find (fun y => wid_eqb (w_id y) id) (del_wl a L) with Some _ => true | None => false end) l =
  forallb (fun id => match find (fun y => wid_eqb (w_id y) id) L with Some _ => true | None => false end) l /\
  flat_map (fun id => match find (fun y => wid_eqb (w_id y) id) (del_wl a L) with Some x => [x] | None => [] end) l =
  flat_map (fun id => match find (fun y => wid_eqb (w_id y) id) L with Some x => [x] | None => [] end) l.
Proof.
  intros a L l H. induction l as [|i t IH]; simpl; [auto|].
  rewrite find_wl_del_other by (apply H; left; reflexivity).
  destruct IH as [IH1 IH2]; [intros j Hj; apply H; right; exact Hj|]. rewrite IH1, IH2. auto.
Qed.

Ltac crunchx :=
  repeat (unfold hide, set_pods, set_nodes, set_wls, set_markers, set_plugs, set_conts, set_wal, set_out in *;
          cbn [exec fst snd pods nodes wls markers plugs conts walq wal_seq out strict_remove script
               p_node p_cap p_use add_use sub_use] in *;
          unfold find_wl, find_plug, find_node, find_cont in *;
          cbn [fst snd pods nodes wls markers plugs conts walq wal_seq out strict_remove script] in *;
          rewrite ?find_plug_upd_other, ?find_wl_upd_other, ?find_node_upd_other, ?find_wl_del_other
            by (solve [intros; reflexivity | congruence | auto | (intros; repeat match goal with |- context [if ?b then _ else _] => destruct b end; reflexivity)]);
          use_eqs);
  try match goal with
      | |- context [find ?f (?p ?w0)] => is_var w0; let E := fresh "E" in destruct (find f (p w0)) eqn:E; crunchx
      | |- context [match ?o with Some _ => _ | None => _ end] => is_var o; destruct o; crunchx
      | |- context [if ?b then _ else _] =>
        lazymatch type of b with bool => idtac end;
        let E := fresh "E" in destruct b eqn:E; crunchx
      end.

Ltac finishx :=
  repeat split; try reflexivity; try congruence;
  try (f_equal; first [ apply upd_plug_comm; auto; intros; reflexivity
                      | apply upd_wl_comm; auto; congruence
                      | apply upd_node_comm; auto; congruence
                      | apply del_wl_comm
                      | apply del_upd_wl_comm
                      | symmetry; apply del_upd_wl_comm ]).

Theorem fpx_calls_commute : forall F1 F2 c1 c2 w, disjoint F1 F2 -> in_fpx F1 c1 -> in_fpx F2 c2 ->
  hide (fst (exec (fst (exec w c1)) c2)) = hide (fst (exec (fst (exec w c2)) c1)) /\
  snd (exec (fst (exec w c1)) c2) = snd (exec w c2) /\
  snd (exec (fst (exec w c2)) c1) = snd (exec w c1).
Proof.
  intros F1 F2 c1 c2 w D H1 H2.
  destruct c1; simpl in H1; try contradiction; destruct c2; simpl in H2; try contradiction.
  (* both calls in the in-place class: InterleaveOps.fp_calls_commute *)
  all: try (match goal with |- hide (fst (exec (fst (exec ?w0 ?a)) ?b)) = _ /\ _ =>
              solve [ let P := fresh in pose proof (fp_calls_commute F1 F2 a b w0 D H1 H2) as P;
                      destruct P as [A [B C]]; split; [rewrite A; reflexivity|split; assumption] ] end).
  all: try (destruct H1 as [H1 H1n]); try (destruct H2 as [H2 H2n]).
  all: names_differ D.
  all: try match goal with
       | Hl : (forall i, In i ?l -> f_ids ?Fa i), Hx : f_ids ?Fb (w_id ?x) |- _ =>
         let Hd := fresh "Hd" in
         assert (Hd : forall i, In i l -> w_id x <> i)
           by (let i := fresh in let Hi := fresh in let Heq := fresh in
               intros i Hi Heq; first [apply (Dids i); [apply Hl; exact Hi|rewrite <- Heq; exact Hx] | apply (Dids i); [rewrite <- Heq; exact Hx|apply Hl; exact Hi]]);
         let G1 := fresh "G" in let G2 := fresh "G" in let G3 := fresh "G" in let G4 := fresh "G" in
         destruct (getwls_upd_other x (wls w) l Hd) as [G1 G2];
         destruct (getwls_del_other (w_id x) (wls w) l Hd) as [G3 G4]
       end.
  all: try (unfold find_wl, find_plug, find_node, find_cont; crunchx; finishx).
Qed.

Ltac sq_ret ::= unfold rok, skip; first [exact (InterleaveOps.sq_ret _ _ (fun _ => True) _ Logic.I) | constructor; exact Logic.I].

Lemma group_node : forall l n idl, In (n, idl) (group_by_node l) -> exists x, In x l /\ w_node x = n.
Proof.
  induction l as [|x t IH]; intros n idl Hg; simpl in Hg; [destruct Hg|].
  destruct (existsb (fun p => Nat.eqb (fst p) (w_node x)) (group_by_node t)).
  - apply in_map_iff in Hg. destruct Hg as [p [Hp Hin]].
    destruct (Nat.eqb (fst p) (w_node x)) eqn:E.
    + inversion Hp; subst. apply Nat.eqb_eq in E. exists x. split; [left; reflexivity|auto].
    + subst p. destruct (IH n idl Hin) as [y [Hy H2]]. exists y. split; [right; exact Hy|auto].
  - destruct Hg as [Hg|Hg].
    + inversion Hg; subst. exists x. split; [left; reflexivity|auto].
    + destruct (IH n idl Hg) as [y [Hy H2]]. exists y. split; [right; exact Hy|auto].
Qed.

Lemma safeq_for_all : forall (P : call -> Prop) (I : world -> Prop) X (xs : list X) (body : X -> cprog unit),
  (forall x, In x xs -> safeq P I (fun _ => True) (body x)) -> safeq P I (fun _ => True) (for_all xs body).
Proof.
  intros P I X xs body H. induction xs as [|x t IH]; cbn [for_all]; [sq_ret|].
  eapply safeq_bind; [apply H; left; reflexivity|]. intros _ _. apply IH. intros y Hy. apply H. right; exact Hy.
Qed.

Section SafeX.
  Variable F : fp.
  Variable I : world -> Prop.
  Hypothesis I_fp : forall w, I w -> fp_inv F w.
  Let P := in_fpx F.

  Lemma safex_acquire : forall ks held, safeq P I (fun _ => True) (acquire ks held).
  Proof.
    induction ks as [|k rest IH]; intros held; cbn [acquire]; [sq_ret|].
    eapply safeq_bind; [apply safeq_doc; exact Logic.I|]. intros [e|] _; [sq_ret|].
    eapply safeq_bind; [apply safeq_doc; exact Logic.I|]. intros [e|] _.
    - eapply safeq_bind; [apply safeq_ign, safeq_doc; exact Logic.I|]. intros; sq_ret.
    - apply IH.
  Qed.

  Lemma safex_release : forall held, safeq P I (fun _ => True) (release held).
  Proof.
    induction held as [|k rest IH]; unfold release in *; cbn [for_all]; [sq_ret|].
    eapply safeq_bind; [apply safeq_ign, safeq_doc; exact Logic.I|]. intros _ _. exact IH.
  Qed.

  Lemma safex_with_node : forall n (body : node -> cprog oerr), f_nodes F n ->
    (forall x, n_name x = n -> safeq P I (fun _ => True) (body x)) ->
    safeq P I (fun _ => True) (with_node_pod_locked n body).
  Proof.
    intros n body Hn Hb. unfold with_node_pod_locked, with_nodes_pod_locked. cbn [filter_nodes get_nodes].
    eapply safeq_bind.
    - eapply safeq_bind; [apply safeq_call1_any; exact Hn|]. intros r _.
      instantiate (1 := fun _ => True). destruct r; sq_ret.
    - intros [e|ns] _; [sq_ret|].
      eapply safeq_bind; [apply safex_acquire|]. intros a _.
      destruct (fst a).
      + eapply safeq_bind; [apply safex_release|]. intros; sq_ret.
      + eapply safeq_bind.
        * instantiate (1 := fun _ => True).
          destruct (find (fun x => Nat.eqb (n_name x) n) ns) as [x|] eqn:E; [|sq_ret].
          apply Hb. apply find_some in E. destruct E as [_ E]. apply Nat.eqb_eq in E. exact E.
        * intros x _. eapply safeq_bind; [apply safex_release|]. intros; sq_ret.
  Qed.

  Lemma safex_with_workload : forall id (body : wl -> cprog oerr), f_ids F id ->
    (forall x, w_id x = id -> f_nodes F (w_node x) -> safeq P I (fun _ => True) (body x)) ->
    safeq P I (fun _ => True) (with_workload_locked id body).
  Proof.
    intros id body Hid Hb. unfold with_workload_locked.
    eapply safeq_bind.
    - apply (safeq_call1 P I (fun r => match r with RWls (x :: _) => w_id x = id /\ f_nodes F (w_node x) | _ => True end)).
      + simpl. intros i [<-|[]]. exact Hid.
      + intros w HI. cbn [exec forallb flat_map]. destruct (find_wl w id) as [x|] eqn:E; cbn; [|exact Logic.I].
        destruct (find_wl_id _ _ _ E) as [Hx Hin]. split; [exact Hx|]. apply (I_fp w HI x Hin). rewrite Hx. exact Hid.
      + intros _. exact Logic.I.
    - intros r Hr. destruct r; try sq_ret. destruct l as [|x t]; [sq_ret|]. destruct Hr as [Hx Hn].
      eapply safeq_bind; [apply safex_acquire|]. intros a _. destruct (fst a).
      + eapply safeq_bind; [apply safex_release|]. intros; sq_ret.
      + eapply safeq_bind; [apply Hb; assumption|]. intros e _.
        eapply safeq_bind; [apply safex_release|]. intros; sq_ret.
  Qed.


  Lemma safex_send : forall m, safeq P I (fun _ => True) (send m).
  Proof. intros m. unfold send. apply safeq_ign, safeq_doc. exact Logic.I. Qed.

  Lemma safex_dissociate_txn : forall n x, f_nodes F n -> f_ids F (w_id x) -> safeq P I (fun _ => True) (dissociate_txn n x).
  Proof.
    intros n x Hn Hx. unfold dissociate_txn, txn.
    eapply safeq_bind; [apply safeq_doc; exact Hn|]. intros [e|] _.
    - eapply safeq_bind; [sq_ret|]. intros; sq_ret.
    - eapply safeq_bind; [apply safeq_doc; exact Hx|]. intros [e|] _; [|sq_ret].
      eapply safeq_bind; [apply safeq_doc; exact Hn|]. intros; sq_ret.
  Qed.

  Theorem safex_dissociate : forall idl, (forall i, In i idl -> f_ids F i) -> safe P I (dissociate idl).
  Proof.
    intros idl Hids. apply (safeq_safe _ P I (fun _ => True)). unfold dissociate.
    eapply safeq_bind.
    - apply (safeq_call1 P I (fun r => match r with RWls l => forall x, In x l -> f_ids F (w_id x) /\ f_nodes F (w_node x) | _ => True end)).
      + exact Hids.
      + intros w HI. cbn [exec]. destruct (forallb _ idl); cbn; [|exact Logic.I].
        intros x Hx. apply in_flat_map in Hx. destruct Hx as [i [Hi Hx]].
        destruct (find_wl w i) as [y|] eqn:E; [|destruct Hx]. destruct Hx as [<-|[]].
        destruct (find_wl_id _ _ _ E) as [Hy Hin].
        assert (Hyid : f_ids F (w_id y)) by (rewrite Hy; apply Hids; exact Hi).
        split; [exact Hyid|]. apply (I_fp w HI y Hin Hyid).
      + intros _. exact Logic.I.
    - intros r Hr. destruct r; try sq_ret.
      eapply safeq_bind.
      + apply safeq_for_all. intros g Hg. apply safeq_ign.
        destruct g as [n il]. cbn [fst snd].
        destruct (group_node _ _ _ Hg) as [y [Hy Hyn]]. destruct (Hr y Hy) as [_ Hn]. rewrite Hyn in Hn.
        apply safex_with_node; [exact Hn|]. intros _ _.
        eapply safeq_bind; [|intros; sq_ret]. instantiate (1 := fun _ => True).
        apply safeq_for_all. intros id Hid.
        destruct (group_in _ _ _ _ Hg Hid) as [z [Hz [Hzid _]]]. destruct (Hr z Hz) as [Hzf _]. rewrite Hzid in Hzf.
        eapply safeq_bind.
        * apply safex_with_workload; [exact Hzf|]. intros x0 Hx0 _. apply safex_dissociate_txn; [exact Hn|rewrite Hx0; exact Hzf].
        * intros e _. apply safex_send.
      + intros _ _. eapply safeq_bind; [apply safex_send|]. intros; sq_ret.
  Qed.
End SafeX.

Lemma in_fp_fpx : forall F c, in_fp F c -> in_fpx F c.
Proof. intros F c H. destruct c; simpl in *; auto; contradiction. Qed.

Lemma safe_mono : forall A (P P' : call -> Prop) (I : world -> Prop) (p : cprog A),
  (forall c, P c -> P' c) -> safe P I p -> safe P' I p.
Proof. intros A P P' I p HP H. induction H; constructor; auto. Qed.

Lemma exec_h_eq : forall w c, exec_h w c = (hide (fst (exec w c)), snd (exec w c)).
Proof. intros. unfold exec_h. destruct (exec w c); reflexivity. Qed.

Lemma safe_safex : forall A (P : call -> Prop) (I : world -> Prop) (p : cprog A), safe P I p -> safex exec_h P I p.
Proof.
  intros A P I p H. induction H as [a|c q Hc Hq IHq Hf IHf]; constructor; auto.
  intros w HI. rewrite exec_h_eq. cbn [snd]. apply IHq. exact HI.
Qed.

Lemma fp_inv_hide : forall F w, fp_inv F (hide w) <-> fp_inv F w.
Proof. intros. unfold fp_inv, hide. simpl. tauto. Qed.

Lemma fpx_call_wls : forall F c w, in_fpx F c ->
  wls (fst (exec w c)) = wls w \/ (exists x, c = SUpdateWorkload x /\ wls (fst (exec w c)) = upd_wl x (wls w)) \/
  (exists x, wls (fst (exec w c)) = del_wl (w_id x) (wls w)).
Proof.
  intros F c w H. destruct c; simpl in H; try contradiction; simpl;
    repeat match goal with
           | |- context [match ?x with _ => _ end] => destruct x eqn:?; simpl
           end; auto.
  - right. left. eexists. split; reflexivity.
  - right. right. eexists. reflexivity.
Qed.

Lemma fpx_inv_stable : forall F1 F2 c w, disjoint F1 F2 -> in_fpx F1 c ->
  fp_inv F1 w /\ fp_inv F2 w -> fp_inv F1 (fst (exec w c)) /\ fp_inv F2 (fst (exec w c)).
Proof.
  intros F1 F2 c w [Dids Dnodes] Hc [H1 H2].
  destruct (fpx_call_wls F1 c w Hc) as [E|[[x [-> E]]|[x E]]].
  - split; eapply fp_inv_wls; eauto.
  - simpl in Hc. destruct Hc as [Hid Hn]. split; intros y Hy Hyid; rewrite E in Hy; apply in_upd_wl' in Hy; destruct Hy as [Hy| ->].
    + apply H1; assumption.
    + exact Hn.
    + apply H2; assumption.
    + exfalso. eapply Dids; eauto.
  - split; intros y Hy Hyid; rewrite E in Hy; apply in_del_wl in Hy; destruct Hy as [Hy _]; [apply H1|apply H2]; assumption.
Qed.

(* ---- the family: realloc, set-node, dissociate ---- *)
Inductive xop :=
| XRealloc (id : wid) (req : res)
| XSetNode (n : name) (bypass : option bool) (mem : option (Z * bool)) (label : option nat)
| XDissociate (ids : list wid).

Definition x_script (o : xop) : cprog oerr :=
  match o with XRealloc id req => realloc id req | XSetNode n b m l => set_node n b m l | XDissociate ids => dissociate ids end.
Definition x_in (F : fp) (o : xop) : Prop :=
  match o with XRealloc id _ => f_ids F id | XSetNode n _ _ _ => f_nodes F n | XDissociate ids => forall i, In i ids -> f_ids F i end.

Lemma x_safe : forall F (I : world -> Prop) o, (forall w, I w -> fp_inv F w) -> x_in F o -> safe (in_fpx F) I (x_script o).
Proof.
  intros F I o HI Ho. destruct o.
  - eapply safe_mono; [apply in_fp_fpx|apply safe_realloc; assumption].
  - eapply safe_mono; [apply in_fp_fpx|apply safe_set_node; assumption].
  - apply safex_dissociate; assumption.
Qed.

(* two operations of the family on disjoint footprints: EVERY interleaving at call granularity, any two fault
   positions, gives the results and the world of the sequential history, up to the shared message channel *)
Theorem xops_interleave : forall F1 F2 o1 o2 w, disjoint F1 F2 -> x_in F1 o1 -> x_in F2 o2 ->
  fp_inv F1 w -> fp_inv F2 w ->
  forall sched k1 k2,
    let '(w1, a, b) := run2 sched (x_script o1) k1 (x_script o2) k2 w in
    let '(w2, a', b') := run2 [] (x_script o1) k1 (x_script o2) k2 w in
    hide w1 = hide w2 /\ a = a' /\ b = b'.
Proof.
  intros F1 F2 o1 o2 w D H1 H2 HI1 HI2 sched k1 k2.
  set (I := fun w => fp_inv F1 w /\ fp_inv F2 w).
  assert (St1 : forall c w, in_fpx F1 c -> I w -> I (fst (exec_h w c))).
  { intros c w0 Hc HI. rewrite exec_h_eq. cbn [fst]. destruct (fpx_inv_stable F1 F2 c w0 D Hc HI) as [A B].
    split; apply fp_inv_hide; assumption. }
  assert (St2 : forall c w, in_fpx F2 c -> I w -> I (fst (exec_h w c))).
  { intros c w0 Hc [A B]. rewrite exec_h_eq. cbn [fst].
    destruct (fpx_inv_stable F2 F1 c w0 (disjoint_sym _ _ D) Hc (conj B A)) as [A' B']. split; apply fp_inv_hide; assumption. }
  assert (Ind : forall c1 c2 w, in_fpx F1 c1 -> in_fpx F2 c2 -> I w ->
    fst (exec_h (fst (exec_h w c1)) c2) = fst (exec_h (fst (exec_h w c2)) c1) /\
    snd (exec_h (fst (exec_h w c1)) c2) = snd (exec_h w c2) /\
    snd (exec_h (fst (exec_h w c2)) c1) = snd (exec_h w c1)).
  { intros c1 c2 w0 Hc1 Hc2 _. rewrite !exec_h_eq. cbn [fst snd]. rewrite ?exec_h_eq. cbn [fst snd].
    destruct (exec_hide (fst (exec w0 c1)) c2) as [E1 E2]. destruct (exec_hide (fst (exec w0 c2)) c1) as [E3 E4].
    rewrite E1, E2, E3, E4. apply (fpx_calls_commute F1 F2); assumption. }
  assert (S1 : safex exec_h (in_fpx F1) I (x_script o1)) by (apply safe_safex, x_safe; [intros w0 [A _]; exact A|exact H1]).
  assert (S2 : safex exec_h (in_fpx F2) I (x_script o2)) by (apply safe_safex, x_safe; [intros w0 [_ B]; exact B|exact H2]).
  assert (HIh : I (hide w)) by (split; apply fp_inv_hide; assumption).
  pose proof (interleave_is_sequentialx exec_h (in_fpx F1) (in_fpx F2) I St1 St2 Ind _ _ sched (x_script o1) (x_script o2) k1 k2 (hide w) HIh S1 S2) as E.
  rewrite !run2_hide in E.
  destruct (run2 sched (x_script o1) k1 (x_script o2) k2 w) as [[w1 a] b].
  destruct (run2 [] (x_script o1) k1 (x_script o2) k2 w) as [[w2 a'] b'].
  assert (Ew : hide w1 = hide w2) by congruence. assert (Ea : a = a') by congruence. assert (Eb : b = b') by congruence. auto.
Qed.
