(* The retry loop is linearizable as one atomic "record + decrement" per caller:
   in every reachable state marker + (number of completed callers) = initial
   value; when all callers are done the marker dropped by exactly their number;
   and every run is finite: a step count bounded by n*(n+2) for n callers, under
   any schedule (a failed compare means somebody else succeeded). *)
From Coq Require Import List Bool ZArith Arith Lia.
From Verif Require Import Calcium.DecrLoop.
Import ListNotations.
Local Open Scope Z_scope.

Definition cnt (f : tstate -> bool) (l : list tstate) : nat := List.length (filter f l).
Definition not_done (t : tstate) : bool := negb (is_done t).
Definition reading (t : tstate) : bool := match t with TRead => true | _ => false end.
Definition stale (m : Z) (t : tstate) : bool := match t with TTry v => negb (Z.eqb v m) | _ => false end.

Lemma cnt_set_nth : forall f l i x y, nth_error l i = Some y ->
  (cnt f (set_nth i x l) + (if f y then 1 else 0) = cnt f l + (if f x then 1 else 0))%nat.
Proof.
  intros f l. induction l as [|z t IH]; intros i x y H; [destruct i; discriminate|].
  destruct i as [|j]; cbn in H.
  - inversion H; subst. unfold cnt. cbn. destruct (f x), (f y); cbn; lia.
  - specialize (IH j x y H). unfold cnt in *. cbn. destruct (f z); cbn; lia.
Qed.

Lemma length_set_nth : forall l i x, List.length (set_nth i x l) = List.length l.
Proof. induction l as [|z t IH]; intros [|j] x; cbn; auto. Qed.

(* ---- safety: no lost and no duplicated decrement ---- *)
Definition Inv (k : Z) (s : dsys) : Prop :=
  marker s = k - Z.of_nat (cnt is_done (threads s)) /\ added s = Z.of_nat (cnt is_done (threads s)).

Lemma inv_step : forall k s i s', Inv k s -> dstep s i = Some s' -> Inv k s'.
Proof.
  intros k s i s' [I1 I2] H. unfold dstep in H. destruct (nth_error (threads s) i) as [[|v|]|] eqn:E; try discriminate.
  - inversion H; subst s'. unfold Inv. cbn [marker added threads].
    pose proof (cnt_set_nth is_done _ _ (TTry (marker s)) _ E) as C. cbn in C.
    replace (cnt is_done (set_nth i (TTry (marker s)) (threads s))) with (cnt is_done (threads s)) by lia.
    split; assumption.
  - destruct (Z.eqb (marker s) v) eqn:Ev.
    + inversion H; subst s'. apply Z.eqb_eq in Ev. unfold Inv. cbn [marker added threads].
      pose proof (cnt_set_nth is_done _ _ TDone _ E) as C. cbn in C. split; lia.
    + inversion H; subst s'. unfold Inv. cbn [marker added threads].
      pose proof (cnt_set_nth is_done _ _ (TTry (marker s)) _ E) as C. cbn in C.
      replace (cnt is_done (set_nth i (TTry (marker s)) (threads s))) with (cnt is_done (threads s)) by lia.
      split; assumption.
Qed.

Lemma cnt_repeat_read : forall f n, f TRead = false -> cnt f (repeat TRead n) = 0%nat.
Proof. intros f n H. induction n; [reflexivity|]. unfold cnt in *. cbn. rewrite H. exact IHn. Qed.

Lemma inv_start : forall k n, Inv k (dstart k n).
Proof. intros. unfold Inv, dstart. cbn [marker added threads]. rewrite cnt_repeat_read by reflexivity. cbn. split; lia. Qed.

Theorem inv_run : forall k sched s, Inv k s -> Inv k (drun s sched).
Proof.
  intros k sched. induction sched as [|i rest IH]; intros s I; cbn; [exact I|].
  destruct (dstep s i) as [s'|] eqn:E; [apply IH; eapply inv_step; eauto | apply IH; exact I].
Qed.

Lemma dstep_length : forall s i s', dstep s i = Some s' -> List.length (threads s') = List.length (threads s).
Proof.
  intros s i s' E. unfold dstep in E. destruct (nth_error (threads s) i) as [[|v|]|]; try discriminate.
  - inversion E; subst. cbn. apply length_set_nth.
  - destruct (Z.eqb (marker s) v); inversion E; subst; cbn; apply length_set_nth.
Qed.

Lemma drun_length : forall sched s, List.length (threads (drun s sched)) = List.length (threads s).
Proof.
  induction sched as [|i rest IH]; intros s; cbn; [reflexivity|].
  destruct (dstep s i) as [s'|] eqn:E; [|apply IH]. rewrite IH. eapply dstep_length. exact E.
Qed.

Lemma cnt_all_done : forall l, forallb is_done l = true -> cnt is_done l = List.length l.
Proof.
  induction l as [|t l IH]; intros F; [reflexivity|]. cbn in F. apply andb_true_iff in F. destruct F as [F1 F2].
  unfold cnt in *. cbn. rewrite F1. cbn. rewrite IH by exact F2. reflexivity.
Qed.

Theorem decr_exact : forall k n sched,
  let s := drun (dstart k n) sched in
  forallb is_done (threads s) = true ->
  marker s = k - Z.of_nat n /\ added s = Z.of_nat n.
Proof.
  intros k n sched s F. destruct (inv_run k sched _ (inv_start k n)) as [I1 I2]. fold s in I1, I2.
  assert (L : List.length (threads s) = n).
  { unfold s. rewrite drun_length. unfold dstart. cbn. apply repeat_length. }
  rewrite (cnt_all_done _ F), L in I1, I2. split; assumption.
Qed.

(* ---- every run is finite ---- *)
Definition measure (s : dsys) : nat :=
  (cnt not_done (threads s) * (S (List.length (threads s))) + cnt reading (threads s) + cnt (stale (marker s)) (threads s))%nat.

Lemma cnt_le_length : forall f l, (cnt f l <= List.length l)%nat.
Proof. intros f l. unfold cnt. induction l as [|t l IH]; cbn; [lia|]. destruct (f t); cbn; lia. Qed.

Lemma stale_same : forall m l, cnt (stale m) l = cnt (stale m) l.
Proof. reflexivity. Qed.

Theorem step_decreases : forall s i s', dstep s i = Some s' -> (measure s' < measure s)%nat.
Proof.
  intros s i s' H. unfold dstep in H. destruct (nth_error (threads s) i) as [[|v|]|] eqn:E; try discriminate.
  - (* read: one reader fewer, the new attempt is fresh *)
    inversion H; subst s'. unfold measure. cbn [threads marker]. rewrite length_set_nth.
    pose proof (cnt_set_nth not_done _ _ (TTry (marker s)) _ E) as C1.
    pose proof (cnt_set_nth reading _ _ (TTry (marker s)) _ E) as C2.
    pose proof (cnt_set_nth (stale (marker s)) _ _ (TTry (marker s)) _ E) as C3.
    cbn in C1, C2, C3. rewrite Z.eqb_refl in C3. cbn in C3. nia.
  - destruct (Z.eqb (marker s) v) eqn:Ev.
    + (* success: one unfinished caller fewer; everybody else may have become stale *)
      inversion H; subst s'. unfold measure. cbn [threads marker]. rewrite length_set_nth.
      pose proof (cnt_set_nth not_done _ _ TDone _ E) as C1.
      pose proof (cnt_set_nth reading _ _ TDone _ E) as C2.
      cbn in C1, C2.
      pose proof (cnt_le_length (stale (v - 1)) (set_nth i TDone (threads s))) as L1.
      rewrite length_set_nth in L1.
      pose proof (cnt_le_length reading (threads s)) as L2.
      assert (L3 : (cnt (stale (v - 1)) (set_nth i TDone (threads s)) + cnt reading (set_nth i TDone (threads s)) <= List.length (threads s))%nat).
      { clear. generalize (set_nth i TDone (threads s)) (length_set_nth (threads s) i TDone). intros l Hl. rewrite <- Hl. clear.
        induction l as [|t l IH]; [cbn; lia|]. unfold cnt in *. cbn. destruct t; cbn; try lia.
        destruct (negb (v0 =? v - 1)); cbn; lia. }
      nia.
    + (* failed compare: the caller re-read, it is fresh now *)
      inversion H; subst s'. unfold measure. cbn [threads marker]. rewrite length_set_nth.
      pose proof (cnt_set_nth not_done _ _ (TTry (marker s)) _ E) as C1.
      pose proof (cnt_set_nth reading _ _ (TTry (marker s)) _ E) as C2.
      pose proof (cnt_set_nth (stale (marker s)) _ _ (TTry (marker s)) _ E) as C3.
      cbn in C1, C2, C3. rewrite Z.eqb_refl in C3. rewrite Z.eqb_sym, Ev in C3. cbn in C3. nia.
Qed.

(* number of executed requests in a schedule *)
Fixpoint executed (s : dsys) (sched : list nat) : nat :=
  match sched with
  | [] => 0
  | i :: rest => match dstep s i with Some s' => S (executed s' rest) | None => executed s rest end
  end.

Theorem run_bounded : forall sched s, (executed s sched + measure (drun s sched) <= measure s)%nat.
Proof.
  induction sched as [|i rest IH]; intros s; cbn; [lia|].
  destruct (dstep s i) as [s'|] eqn:E; [|apply IH].
  pose proof (step_decreases _ _ _ E). specialize (IH s'). lia.
Qed.

Theorem requests_bounded : forall k n sched, (executed (dstart k n) sched <= n * (n + 2))%nat.
Proof.
  intros k n sched. pose proof (run_bounded sched (dstart k n)) as B.
  assert (M : (measure (dstart k n) <= n * (n + 2))%nat).
  { unfold measure, dstart. cbn [threads marker]. rewrite repeat_length.
    rewrite (cnt_repeat_read (stale k)) by reflexivity.
    pose proof (cnt_le_length not_done (repeat TRead n)) as L1. pose proof (cnt_le_length reading (repeat TRead n)) as L2.
    rewrite repeat_length in L1, L2. nia. }
  lia.
Qed.

(* whoever is not done can always issue a request: the loop never blocks *)
Theorem never_stuck : forall s i t, nth_error (threads s) i = Some t -> is_done t = false -> exists s', dstep s i = Some s'.
Proof.
  intros s i t E D. unfold dstep. rewrite E. destruct t; [eexists; reflexivity | | discriminate].
  destruct (Z.eqb (marker s) v); eexists; reflexivity.
Qed.
