(* Calcium/Sweeps.v — fault sweeps over fixed scenarios.

   For a FIXED world and operation the set of single-fault placements is finite: a
   fault at call index k behaves like the fault-free run up to call k, so k ranges over
   the calls of the fault-free run and every larger k is the fault-free run itself
   ([runk_beyond]).  [all_k] turns a computed check of those finitely many runs into a
   statement for EVERY k.  It is used (a) to refute the full statements of C10/C11 for
   replace and remove-node by concrete witnesses and (b) to establish C12 / C30 / C10 for
   every fault position on a family of explicit scenarios for the operations whose
   unbounded proofs (over all worlds) are not done: create, run-and-wait, replace, set-node,
   remove-node.  The executable definitions come first; the proofs are at the end. *)
From Coq Require Import List Bool Arith ZArith Lia.
From Verif Require Import Base.Effects Calcium.World Calcium.Ops Calcium.Run Calcium.EffectsProofs.
Import ListNotations.
Local Open Scope Z_scope.

(* the fault positions (faultable calls) a [crunk] run passes *)
Fixpoint calls_of {A} (p : cprog A) (w : world) (k : option nat) : list call :=
  match p with
  | Ret _ => []
  | Do c q =>
    if is_faultable c then
      c :: match k with
           | Some O => calls_of (q (fail_reply c)) w None
           | Some (S j) => let (w', r) := exec w c in calls_of (q r) w' (Some j)
           | None => let (w', r) := exec w c in calls_of (q r) w' None
           end
    else let (w', r) := exec w c in calls_of (q r) w' k
  end.

Definition ncalls {A} (p : cprog A) (w : world) : nat := length (calls_of p w None).

(* the address (key, ordinal) of the k-th call of the fault-free run *)
Definition count_key (key : World.key) (l : list call) : nat := length (filter (fun c => key_eqb (key_of c) key) l).
Definition addr_of {A} (p : cprog A) (w : world) (k : nat) : option cfault :=
  let cs := calls_of p w None in
  match nth_error cs k with
  | Some c => Some (mkFault (key_of c) (count_key (key_of c) (firstn k cs)) FailBefore)
  | None => None
  end.
Definition is_send_at {A} (p : cprog A) (w : world) (k : nat) : bool :=
  match nth_error (calls_of p w None) k with Some (Send _) => true | _ => false end.

(* ---- boolean invariants ---- *)
Definition sum_onb (l : list wl) (m : name) : res := rsum (map w_res (filter (fun x => Nat.eqb (w_node x) m) l)).
Definition use_okb (w : world) : bool :=
  forallb (fun p => res_eqb (p_use p) (sum_onb (wls w) (p_node p)) && (snd (p_use p) <=? snd (p_cap p))) (plugs w).

(* the C11 projection of a world *)
Definition proj_w (w : world) : list (list Z) := proj_c11 (snap_of w).
Definition same_proj (a b : world) : bool := same_multiset (proj_w a) (proj_w b).

(* ---- checks ---- *)
Definition final {A} (p : cprog A) (w : world) (k : option nat) : world * A :=
  let '(w', _, a) := crunk p w k in (w', a).

(* C12 on the model's own output for one create: [w] before, [w'] after, messages in [out w'] *)
Definition c12_check (w : world) (o : op) (w' : world) : bool :=
  let st := mkStep o None 0 (rev (out w')) (snap_of w') [] [] in
  c12_step_ok (snap_of w) st && use_okb w'.

Definition c30_check (w : world) (o : op) (waited : list wid) (w' : world) : bool :=
  let st := mkStep o None 0 (visible_msgs o (rev (out w'))) (snap_of w') [] waited in
  c30_step_ok (snap_of w) st && use_okb w'.

(* which workloads' wait call executed successfully in a run *)
Fixpoint waited_of {A} (p : cprog A) (w : world) (k : option nat) : list wid :=
  match p with
  | Ret _ => []
  | Do c q =>
    if is_faultable c then
      match k with
      | Some O => waited_of (q (fail_reply c)) w None
      | Some (S j) =>
        let (w', r) := exec w c in
        (match c, r with EWait id, RCode _ => [id] | _, _ => [] end) ++ waited_of (q r) w' (Some j)
      | None =>
        let (w', r) := exec w c in
        (match c, r with EWait id, RCode _ => [id] | _, _ => [] end) ++ waited_of (q r) w' None
      end
    else let (w', r) := exec w c in waited_of (q r) w' k
  end.

(* ---- scenarios ---- *)
Definition run_hist (l : list op) (w : world) : world :=
  fold_left (fun w o => r_world (run_op w o None)) l w.

Definition base3 : world :=
  run_hist [OAddPod 0%nat; OAddPod 1%nat;
            OAddNode 0%nat 0%nat (400, 1000); OAddNode 1%nat 0%nat (400, 1000); OAddNode 2%nat 0%nat (400, 1000);
            OAddNode 3%nat 1%nat (400, 1000)] (empty_world true).
(* with two workloads already running on node 0 and one on node 1 *)
Definition busy3 : world :=
  run_hist [OCreate 7 0%nat 2 (50, 100) (Some [(0%nat, 2%nat)]); OCreate 8 0%nat 1 (100, 300) (Some [(1%nat, 1%nat)])] base3.

Definition create_ops : list op :=
  [ OCreate 9 0%nat 1 (50, 100) (Some [(0%nat, 1%nat)]);
    OCreate 9 0%nat 2 (50, 100) (Some [(0%nat, 2%nat)]);
    OCreate 9 0%nat 3 (50, 100) (Some [(0%nat, 2%nat); (1%nat, 1%nat)]);
    OCreate 9 0%nat 3 (50, 100) (Some [(2%nat, 1%nat); (1%nat, 1%nat); (0%nat, 1%nat)]);
    OCreate 9 0%nat 4 (100, 300) (Some [(1%nat, 2%nat); (2%nat, 2%nat)]);
    OCreate 9 0%nat 2 (50, 5000) None;
    OCreate 9 1%nat 2 (50, 100) (Some [(3%nat, 2%nat)]) ].

Definition prep (w : world) (o : op) : world := prepare_world w o.

Definition create_sweep_one (w : world) (o : op) : bool :=
  let p := script_of o in
  let w0 := prep w o in
  forallb (fun k => is_send_at p w0 k || c12_check w0 o (fst (final p w0 (Some k)))) (seq 0 (ncalls p w0))
  && c12_check w0 o (fst (final p w0 None)).

Definition lambda_ops : list op :=
  let sc (a b c : bool) (code : Z) := mkLs a b c code 2 in
  [ OLambda 9 0%nat 1 (50, 100) (Some [(0%nat, 1%nat)]) false (sc false false false 7);
    OLambda 9 0%nat 2 (50, 100) (Some [(0%nat, 1%nat); (1%nat, 1%nat)]) false (sc false false false 0);
    OLambda 9 0%nat 2 (50, 100) (Some [(2%nat, 2%nat)]) false (sc true false false 7);
    OLambda 9 0%nat 1 (50, 100) (Some [(1%nat, 1%nat)]) false (sc false false true 7);
    OLambda 9 0%nat 1 (50, 100) (Some [(1%nat, 1%nat)]) true (sc false false false 7);
    OLambda 9 0%nat 1 (50, 100) (Some [(1%nat, 1%nat)]) true (sc false true false 7);
    OLambda 9 0%nat 3 (50, 100) (Some [(0%nat, 1%nat); (1%nat, 2%nat)]) false (sc false false false 7) ].

Definition lambda_sweep_one (w : world) (o : op) : bool :=
  let p := script_of o in
  let w0 := prep w o in
  forallb (fun k =>
             is_send_at p w0 k
             || match addr_of p w0 k with Some f => in_cleanup f | None => false end
             || c30_check w0 o (waited_of p w0 (Some k)) (fst (final p w0 (Some k))))
          (seq 0 (ncalls p w0))
  && c30_check w0 o (waited_of p w0 None) (fst (final p w0 None)).

(* set-node (after the repair): failure => projection unchanged; usage invariant *)
Definition setnode_ops : list op :=
  [ OSetNode 0%nat (Some true) (Some (500, true)) None;
    OSetNode 1%nat None (Some (2000, false)) None;
    OSetNode 2%nat (Some false) None (Some 3%nat) ].
Definition atomic_sweep_one (w : world) (o : op) : bool :=
  let p := script_of o in
  let w0 := prep w o in
  forallb (fun k => let '(w', r) := final p w0 (Some k) in
                    use_okb w' && (is_ok r || same_proj w' w0)) (seq 0 (ncalls p w0)).

(* ---- witnesses of the two known findings ---- *)
(* replace: the removal of the old workload fails after the new one was deployed *)
Definition replace_op : op := OReplace 9 [mkWid 7%nat 0%nat 0%nat].
Definition replace_fault : cfault := mk_fault MRemoveWorkload (TWid (mkWid 7%nat 0%nat 0%nat)) 0.
Definition replace_bad : opres := run_op busy3 replace_op (Some replace_fault).

(* remove-node: the plugin's RemoveNode fails after the store record is gone *)
Definition rmnode_op : op := ORemoveNode 2%nat.
Definition rmnode_fault : cfault := mk_fault MPRemoveNode (TName 2%nat) 0.
Definition rmnode_bad : opres := run_op busy3 rmnode_op (Some rmnode_fault).

(* ================================ proofs ================================ *)

Lemma runk_beyond : forall A (p : cprog A) w k,
  (ncalls p w <= k)%nat ->
  fst (fst (crunk p w (Some k))) = fst (fst (crunk p w None)) /\
  snd (crunk p w (Some k)) = snd (crunk p w None).
Proof.
  unfold ncalls, crunk. induction p as [a|c q IH]; intros w k Hk; simpl in *.
  - auto.
  - destruct (is_faultable c).
    + destruct k as [|j]; [simpl in Hk; lia|].
      destruct (exec w c) as [w' r]. apply IH. simpl in Hk. lia.
    + destruct (exec w c) as [w' r]. apply IH. exact Hk.
Qed.

Lemma forallb_seq : forall (f : nat -> bool) n, forallb f (seq 0 n) = true -> forall k, (k < n)%nat -> f k = true.
Proof.
  intros f n H k Hk. rewrite forallb_forall in H. apply H. apply in_seq. lia.
Qed.

(* a check that only looks at the final world and answer holds for every k once it holds for
   the fault-free run and for every call index of the fault-free run *)
Lemma all_k : forall A (p : cprog A) w (chk : world -> A -> bool),
  forallb (fun k => let '(w', a) := final p w (Some k) in chk w' a) (seq 0 (ncalls p w)) = true ->
  (let '(w', a) := final p w None in chk w' a) = true ->
  forall k, (let '(w', a) := final p w k in chk w' a) = true.
Proof.
  intros A p w chk Hall Hnone [k|]; [|exact Hnone].
  destruct (le_lt_dec (ncalls p w) k) as [Hge|Hlt].
  - destruct (runk_beyond A p w k Hge) as [H1 H2].
    unfold final in *. destruct (crunk p w (Some k)) as [[w1 k1] a1]. destruct (crunk p w None) as [[w2 k2] a2].
    simpl in *. subst. exact Hnone.
  - apply (forallb_seq _ _ Hall k Hlt).
Qed.

(* ---- the known findings are real in the model ---- *)
Lemma replace_breaks_usage :
  r_err replace_bad = 0 /\
  In (MReplace (mkWid 7%nat 0%nat 0%nat) (Some (mkWid 9%nat 0%nat 0%nat)) false (Some EInjected)) (r_msgs replace_bad) /\
  use_okb busy3 = true /\ use_okb (r_world replace_bad) = false /\
  same_proj (r_world replace_bad) busy3 = false.
Proof. vm_compute. repeat split; auto. Qed.

Lemma remove_node_not_atomic :
  r_err rmnode_bad = 1 /\ same_proj (r_world rmnode_bad) busy3 = false /\
  find_node (r_world rmnode_bad) 2%nat = None /\ find_plug (r_world rmnode_bad) 2%nat <> None.
Proof. vm_compute. repeat split; auto; discriminate. Qed.

(* ---- sweeps ---- *)
Lemma create_sweeps : forallb (create_sweep_one busy3) create_ops = true /\ forallb (create_sweep_one base3) create_ops = true.
Proof. vm_compute. split; reflexivity. Qed.

Lemma lambda_sweeps : forallb (lambda_sweep_one busy3) lambda_ops = true.
Proof. vm_compute. reflexivity. Qed.

Lemma setnode_sweeps : forallb (atomic_sweep_one busy3) setnode_ops = true.
Proof. vm_compute. reflexivity. Qed.

(* ---- from the computed sweeps to statements for EVERY fault position ---- *)
Lemma sweep_all_k : forall n (skip : nat -> bool) (chk : option nat -> bool),
  (forall k, (n <= k)%nat -> chk (Some k) = chk None) ->
  forallb (fun k => skip k || chk (Some k)) (seq 0 n) = true -> chk None = true ->
  forall k, skip k = false -> chk (Some k) = true.
Proof.
  intros n skip chk Hb Hall Hnone k Hs.
  destruct (le_lt_dec n k) as [Hge|Hlt].
  - rewrite Hb by exact Hge. exact Hnone.
  - pose proof (forallb_seq _ _ Hall k Hlt) as H. simpl in H. rewrite Hs in H. exact H.
Qed.

Lemma final_beyond : forall A (p : cprog A) w k, (ncalls p w <= k)%nat ->
  fst (final p w (Some k)) = fst (final p w None).
Proof.
  intros A p w k H. destruct (runk_beyond A p w k H) as [H1 _]. unfold final.
  destruct (crunk p w (Some k)) as [[w1 k1] a1]. destruct (crunk p w None) as [[w2 k2] a2]. exact H1.
Qed.

Lemma waited_beyond : forall A (p : cprog A) w k, (ncalls p w <= k)%nat ->
  waited_of p w (Some k) = waited_of p w None.
Proof.
  unfold ncalls. induction p as [a|c q IH]; intros w k Hk; simpl in *; [reflexivity|].
  destruct (is_faultable c).
  - destruct k as [|j]; [simpl in Hk; lia|]. destruct (exec w c) as [w' r]. f_equal. apply IH. simpl in Hk. lia.
  - destruct (exec w c) as [w' r]. apply IH. exact Hk.
Qed.

(* C12 (and the usage invariant) for every fault position of every create scenario *)
Theorem create_scenarios_all_k : forall w o, (w = busy3 \/ w = base3) -> In o create_ops ->
  forall k, is_send_at (script_of o) (prep w o) k = false ->
  c12_check (prep w o) o (fst (final (script_of o) (prep w o) (Some k))) = true.
Proof.
  intros w o Hw Ho k Hk.
  assert (Hs : create_sweep_one w o = true).
  { destruct create_sweeps as [H1 H2]. destruct Hw as [-> | ->]; [rewrite forallb_forall in H1; apply H1|rewrite forallb_forall in H2; apply H2]; exact Ho. }
  unfold create_sweep_one in Hs. apply andb_true_iff in Hs. destruct Hs as [Hall Hnone].
  apply (sweep_all_k (ncalls (script_of o) (prep w o)) (is_send_at (script_of o) (prep w o))
           (fun kk => c12_check (prep w o) o (fst (final (script_of o) (prep w o) kk)))); auto.
  intros j Hj. rewrite final_beyond by exact Hj. reflexivity.
Qed.

(* C30 (and the usage invariant) for every fault position outside the clean-up itself, every lambda scenario *)
Theorem lambda_scenarios_all_k : forall o, In o lambda_ops ->
  forall k, is_send_at (script_of o) (prep busy3 o) k = false ->
  match addr_of (script_of o) (prep busy3 o) k with Some f => in_cleanup f | None => false end = false ->
  c30_check (prep busy3 o) o (waited_of (script_of o) (prep busy3 o) (Some k))
            (fst (final (script_of o) (prep busy3 o) (Some k))) = true.
Proof.
  intros o Ho k Hk Hc.
  assert (Hs : lambda_sweep_one busy3 o = true).
  { pose proof lambda_sweeps as H. rewrite forallb_forall in H. apply H. exact Ho. }
  unfold lambda_sweep_one in Hs. apply andb_true_iff in Hs. destruct Hs as [Hall Hnone].
  apply (sweep_all_k (ncalls (script_of o) (prep busy3 o))
           (fun kk => is_send_at (script_of o) (prep busy3 o) kk
                      || match addr_of (script_of o) (prep busy3 o) kk with Some f => in_cleanup f | None => false end)
           (fun kk => c30_check (prep busy3 o) o (waited_of (script_of o) (prep busy3 o) kk)
                                (fst (final (script_of o) (prep busy3 o) kk)))); auto.
  - intros j Hj. rewrite final_beyond by exact Hj. rewrite waited_beyond by exact Hj. reflexivity.
  - rewrite Hk, Hc. reflexivity.
Qed.

(* SetNode after the repair: every fault position leaves the projection unchanged on failure *)
Theorem setnode_scenarios_all_k : forall o, In o setnode_ops -> forall k,
  let '(w', r) := final (script_of o) (prep busy3 o) (Some k) in
  use_okb w' = true /\ (r <> None -> same_proj w' (prep busy3 o) = true).
Proof.
  intros o Ho k.
  assert (Hs : atomic_sweep_one busy3 o = true).
  { pose proof setnode_sweeps as H. rewrite forallb_forall in H. apply H. exact Ho. }
  unfold atomic_sweep_one in Hs.
  destruct (le_lt_dec (ncalls (script_of o) (prep busy3 o)) k) as [Hge|Hlt].
  - (* beyond the last call: the fault-free run, which succeeds or fails without effect *)
    destruct (runk_beyond _ (script_of o) (prep busy3 o) k Hge) as [H1 H2].
    unfold final. destruct (crunk (script_of o) (prep busy3 o) (Some k)) as [[w1 k1] a1] eqn:E1.
    simpl in H1, H2.
    clear Hs. revert w1 a1 E1 H1 H2.
    destruct Ho as [<-|[<-|[<-|[]]]]; intros w1 a1 E1 H1 H2; subst; vm_compute; split; auto; congruence.
  - pose proof (forallb_seq _ _ Hs k Hlt) as H. simpl in H.
    destruct (final (script_of o) (prep busy3 o) (Some k)) as [w' r].
    apply andb_true_iff in H. destruct H as [H1 H2]. split; [exact H1|].
    intros Hr. destruct r; [exact H2|congruence].
Qed.

(* ---- a channel send is never a fault position ---- *)
Lemma calls_faultable : forall A (p : cprog A) w k c, In c (calls_of p w k) -> is_faultable c = true.
Proof.
  intros A p. induction p as [a|c0 q IH]; intros w k c Hin; cbn [calls_of] in Hin; [destruct Hin|].
  destruct (is_faultable c0) eqn:E.
  - destruct Hin as [<-|Hin]; [exact E|].
    destruct k as [[|j]|]; [eapply IH; eauto| |]; destruct (exec w c0) as [w' r]; eapply IH; eauto.
  - destruct (exec w c0) as [w' r]; eapply IH; eauto.
Qed.

Lemma is_send_at_false : forall A (p : cprog A) w k, is_send_at p w k = false.
Proof.
  intros A p w k. unfold is_send_at. destruct (nth_error (calls_of p w None) k) as [c|] eqn:E; [|reflexivity].
  apply nth_error_In in E. apply calls_faultable in E. destruct c; try reflexivity. discriminate.
Qed.

(* C12 (and the usage invariant, usage <= capacity) for EVERY fault position of every create scenario *)
Theorem create_scenarios_every_k : forall w o, (w = busy3 \/ w = base3) -> In o create_ops ->
  forall k, c12_check (prep w o) o (fst (final (script_of o) (prep w o) k)) = true.
Proof.
  intros w o Hw Ho [k|].
  - apply create_scenarios_all_k; auto. apply is_send_at_false.
  - assert (Hs : create_sweep_one w o = true).
    { destruct create_sweeps as [H1 H2]. destruct Hw as [-> | ->]; [rewrite forallb_forall in H1; apply H1|rewrite forallb_forall in H2; apply H2]; exact Ho. }
    unfold create_sweep_one in Hs. apply andb_true_iff in Hs. tauto.
Qed.

(* C30 for EVERY fault position outside the clean-up itself, every run-and-wait scenario *)
Theorem lambda_scenarios_every_k : forall o, In o lambda_ops ->
  forall k, match addr_of (script_of o) (prep busy3 o) k with Some f => in_cleanup f | None => false end = false ->
  c30_check (prep busy3 o) o (waited_of (script_of o) (prep busy3 o) (Some k))
            (fst (final (script_of o) (prep busy3 o) (Some k))) = true.
Proof. intros o Ho k Hc. apply lambda_scenarios_all_k; auto. apply is_send_at_false. Qed.
