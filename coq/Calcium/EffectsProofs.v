(* Proofs about the effect machinery of Base/Effects.v:
   - [runk_bind]: the index-addressed interpreter is compositional;
   - [run_is_runk]: every run with a single fail-before fault addressed as
     (method, target, ordinal) is a run of [runk] for some call index k, so a
     theorem proved "for every k" holds for every fault address the harness can inject;
   - [txn_matches_C17]: the [txn] combinator has exactly the semantics of the model of
     utils.Txn validated by C17 (Utils/Txn.v): same steps, same order, same rollback flag,
     same result, for every outcome vector. *)
From Coq Require Import List Bool Arith Lia.
From Verif Require Import Base.Effects Utils.Txn Calcium.World.
Import ListNotations.

Section Generic.
  Variable call reply world key : Type.
  Variable key_eqb : key -> key -> bool.
  Variable key_of : call -> key.
  Variable exec : world -> call -> world * reply.
  Variable fail_reply : call -> reply.
  Variable faultable : call -> bool.
  (* a call that cannot be hit by a fault has a key no fault address matches *)
  Hypothesis unfaultable_key : forall c k, faultable c = false -> key_eqb (key_of c) k = false.

  Notation prog := (prog call reply).
  Notation runk := (runk call reply world exec fail_reply faultable).
  Notation run := (run call reply world key key_eqb key_of exec fail_reply).

  Lemma runk_bind : forall A B (p : prog A) (f : A -> prog B) w k,
    runk (bind p f) w k =
    let '(w', k', a) := runk p w k in runk (f a) w' k'.
  Proof.
    induction p as [a|c q IH]; intros f w k; simpl.
    - reflexivity.
    - destruct (faultable c).
      + destruct k as [[|j]|].
        * apply IH.
        * destruct (exec w c) as [w' r]. apply IH.
        * destruct (exec w c) as [w' r]. apply IH.
      + destruct (exec w c) as [w' r]. apply IH.
  Qed.

  Lemma decide_cases : forall (s : ist call world key) c d seen hit,
    decide call world key key_eqb key_of s c = (d, seen, hit) ->
    (d = Proceed /\ (i_hit s = true -> hit = true)) \/
    (exists f, i_fault s = Some f /\ d = f_what f /\ i_hit s = false /\ hit = true).
  Proof.
    intros s c d seen hit. unfold decide.
    destruct (i_fault s) as [f|].
    - destruct (key_eqb (key_of c) (f_key f)).
      + destruct (i_hit s) eqn:Hh.
        * intros E; inversion E; subst. left; auto.
        * destruct (Nat.eqb (i_seen s) (f_ord f)).
          -- intros E; inversion E; subst. right. exists f. auto.
          -- intros E; inversion E; subst. left. split; auto; try discriminate.
      + intros E; inversion E; subst. left; auto.
    - intros E; inversion E; subst. left; auto.
  Qed.

  (* every run with a fail-before fault is a run of [runk] *)
  Lemma run_is_runk : forall A (p : prog A) (s : ist call world key),
    (forall f, i_fault s = Some f -> f_what f = FailBefore) ->
    exists k,
      (i_hit s = true -> k = None) /\
      exists s' a k', run p s = (s', Some a) /\ runk p (i_world s) k = (i_world s', k', a).
  Proof.
    induction p as [a|c q IH]; intros s Hf.
    - exists None. split; [reflexivity|]. exists s, a, None. simpl. auto.
    - cbn [Effects.run].
      destruct (decide call world key key_eqb key_of s c) as [[d seen] hit] eqn:Hd.
      destruct (faultable c) eqn:Hfc.
      + destruct (decide_cases _ _ _ _ _ Hd) as [[Hp Hh]|[f [Hfs [Hw [Hh Hh']]]]].
        * subst d. destruct (exec (i_world s) c) as [w' r] eqn:He.
          destruct (IH r (mkIst w' (i_fault s) seen hit ((c, false) :: i_trace s))) as [k1 [Hk1 [s' [a [k' [Hr Hk]]]]]].
          { exact Hf. }
          cbn [i_world i_hit] in Hk1, Hk.
          exists (match k1 with None => None | Some j => Some (S j) end). split.
          -- intros Ht. rewrite (Hk1 (Hh Ht)). reflexivity.
          -- exists s', a, k'. split; [exact Hr|].
             destruct k1 as [j|]; cbn [Effects.runk]; rewrite Hfc, He; exact Hk.
        * rewrite (Hf f Hfs) in Hw. subst d.
          destruct (IH (fail_reply c) (mkIst (i_world s) (i_fault s) seen hit ((c, true) :: i_trace s))) as [k1 [Hk1 [s' [a [k' [Hr Hk]]]]]].
          { exact Hf. }
          cbn [i_world i_hit] in Hk1, Hk. rewrite (Hk1 Hh') in Hk.
          exists (Some 0). split.
          -- rewrite Hh. discriminate.
          -- exists s', a, k'. split; [exact Hr|]. cbn [Effects.runk]. rewrite Hfc. exact Hk.
      + (* not a fault position: no address matches it, the index is not consumed *)
        assert (Hdd : d = Proceed /\ seen = i_seen s /\ hit = i_hit s).
        { unfold decide in Hd. destruct (i_fault s) as [f|].
          - rewrite (unfaultable_key c (f_key f) Hfc) in Hd. inversion Hd; auto.
          - inversion Hd; auto. }
        destruct Hdd as [-> [-> ->]].
        destruct (exec (i_world s) c) as [w' r] eqn:He.
        destruct (IH r (mkIst w' (i_fault s) (i_seen s) (i_hit s) ((c, false) :: i_trace s))) as [k1 [Hk1 [s' [a [k' [Hr Hk]]]]]].
        { exact Hf. }
        cbn [i_world i_hit] in Hk1, Hk.
        exists k1. split; [exact Hk1|]. exists s', a, k'. split; [exact Hr|].
        cbn [Effects.runk]. rewrite Hfc, He. exact Hk.
  Qed.
End Generic.

(* in the calcium instance the only unfaultable call is the channel send, whose key no address matches *)
Lemma unfaultable_has_no_key : forall (c : World.call) (k : World.key), World.is_faultable c = false -> World.key_eqb (World.key_of c) k = false.
Proof. intros c k H. destruct c; try discriminate. reflexivity. Qed.

(* ---- the link to C17 ----
   Steps are abstracted to their scripted outcome exactly as in Utils/Txn.v: a step is a
   single call that records (who, rollback flag) and returns the scripted outcome. *)
Section TxnLink.
  Definition tcall := (step * bool)%type.
  Definition tworld := list tcall.                       (* steps executed, oldest first *)
  Definition texec (w : tworld) (c : tcall) : tworld * unit := (w ++ [c], tt).
  Definition tstep (who : step) (flag : bool) (o : outcome) : prog tcall unit (option unit) :=
    Do (who, flag) (fun _ => Ret (if failed o then Some tt else None)).

  Definition txn_of (cnd thn rb : outcome) : prog tcall unit (option unit) :=
    Effects.txn (tstep SCond false cnd)
        (match thn with Absent => None | _ => Some (tstep SThen false thn) end)
        (match rb with Absent => None | _ => Some (fun by_cond => tstep SRollback by_cond rb) end).

  Definition tresult (r : option unit) (cnd : outcome) : result :=
    match r with None => RNil | Some _ => if failed cnd then RCondErr else RThenErr end.

  (* same steps in the same order with the same rollback flag, same result *)
  Theorem txn_matches_C17 : forall cnd thn rb cp ca,
    cnd <> Absent ->
    let '(w, _, r) := runk tcall unit tworld texec (fun _ => tt) (fun _ => true) (txn_of cnd thn rb) [] None in
    w = map (fun e => (who e, flag e)) (fst (Txn.txn cnd thn rb cp ca)) /\
    tresult r cnd = snd (Txn.txn cnd thn rb cp ca).
  Proof.
    intros cnd thn rb cp ca Hc.
    destruct cnd; [congruence| |]; destruct thn, rb, cp, ca; cbv; split; reflexivity.
  Qed.

  (* the prepare/commit/rollback form *)
  Definition pcr_of (prep com rb : outcome) : prog tcall unit (option unit) :=
    Effects.pcr (tstep SCond false prep) (tstep SThen false com) (tstep SRollback false rb).

  Theorem pcr_matches_C17 : forall prep com rb cp ca,
    prep <> Absent -> com <> Absent -> rb <> Absent ->
    let '(w, _, r) := runk tcall unit tworld texec (fun _ => tt) (fun _ => true) (pcr_of prep com rb) [] None in
    w = map (fun e => (who e, flag e)) (fst (Txn.pcr prep com rb cp ca)) /\
    tresult r prep = snd (Txn.pcr prep com rb cp ca).
  Proof.
    intros prep com rb cp ca H1 H2 H3.
    destruct prep; [congruence| |]; (destruct com; [congruence| |]); (destruct rb; [congruence| |]);
      destruct cp, ca; cbv; split; reflexivity.
  Qed.
End TxnLink.
