(* C13 (supplement) — the compare-value retry loop of
   store/etcdv3/meta/etcd.go:BatchCreateAndDecr at the granularity of single
   etcd requests, for any number of concurrent callers on one marker.
   Executable model, no proofs.

     resp := Get(decrKey)                         -- TRead  -> TTry v
     for { txn: If value(decrKey) = v Then puts; Put(decrKey, v-1)   -- success: TDone
                Else Get(decrKey)                                    -- v := current, retry
     }
   (When the Else branch finds the key gone the call returns ErrKeyNotExists; markers are
   deleted only after every instance goroutine finished, so this is outside the model.)
   Each caller performs this loop; requests of different callers interleave
   arbitrarily.  (DeployStatus.v treats the whole loop as one atomic step; the
   theorems of DecrLoopProofs.v justify that.) *)
From Coq Require Import List Bool ZArith Arith.
Import ListNotations.
Local Open Scope Z_scope.

Inductive tstate := TRead | TTry (v : Z) | TDone.
Record dsys := mkDs { marker : Z; added : Z; threads : list tstate }.

Fixpoint set_nth (i : nat) (x : tstate) (l : list tstate) : list tstate :=
  match l, i with
  | [], _ => []
  | _ :: t, O => x :: t
  | y :: t, S j => y :: set_nth j x t
  end.

(* one etcd request of caller i; None = caller i has nothing to do *)
Definition dstep (s : dsys) (i : nat) : option dsys :=
  match nth_error (threads s) i with
  | Some TRead => Some (mkDs (marker s) (added s) (set_nth i (TTry (marker s)) (threads s)))
  | Some (TTry v) =>
      if Z.eqb (marker s) v
      then Some (mkDs (v - 1) (added s + 1) (set_nth i TDone (threads s)))     (* Then branch: puts + decrement *)
      else Some (mkDs (marker s) (added s) (set_nth i (TTry (marker s)) (threads s)))   (* Else branch: re-read *)
  | _ => None
  end.

Fixpoint drun (s : dsys) (sched : list nat) : dsys :=
  match sched with
  | [] => s
  | i :: rest => match dstep s i with Some s' => drun s' rest | None => drun s rest end
  end.

Definition is_done (t : tstate) : bool := match t with TDone => true | _ => false end.
Definition dstart (k : Z) (n : nat) : dsys := mkDs k 0 (repeat TRead n).

(* correspondence case: n callers raced on a marker holding k on the real store *)
Record case := mkCase { c_k : Z; c_n : nat; c_marker_after : Z; c_recorded_after : Z }.
Definition agree (c : case) : bool :=
  Z.eqb (c_marker_after c) (c_k c - Z.of_nat (c_n c)) && Z.eqb (c_recorded_after c) (Z.of_nat (c_n c)).
Definition ok (c : case) : bool :=
  Z.eqb (c_marker_after c + c_recorded_after c) (c_k c).
