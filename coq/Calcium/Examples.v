(* Non-vacuity: the hypotheses of the C10/C11 theorems hold of a concrete world
   (3 nodes in pod 0, 1 node in pod 1, three running workloads). *)
From Coq Require Import List Bool Arith ZArith Lia.
From Verif Require Import Base.Effects Calcium.World Calcium.Ops Calcium.Run Calcium.OpsProofs Calcium.OpsProofs2 Calcium.InvProofs Calcium.Sweeps.
Import ListNotations.

Definition busy3v : world := Eval vm_compute in busy3.

Example busy3_wf : wf busy3v.
Proof.
  constructor.
  - unfold busy3v, ids; simpl. repeat constructor; simpl; intuition discriminate.
  - intros x Hx. unfold busy3v in *; simpl in Hx.
    destruct Hx as [<-|[<-|[<-|[]]]]; eexists; reflexivity.
  - intros x Hx. unfold busy3v in *; simpl in Hx.
    destruct Hx as [<-|[<-|[<-|[]]]]; eexists; reflexivity.
Qed.

Example busy3_use_ok : use_ok busy3v.
Proof.
  intros p Hp. unfold busy3v in *; simpl in Hp.
  destruct Hp as [<-|[<-|[<-|[<-|[]]]]]; reflexivity.
Qed.

(* a realloc that succeeds and one that is hit by a fault, on that world *)
Example realloc_example :
  snd (crunk (realloc (mkWid 7 0 0) (50, 100)%Z) busy3v None) = None /\
  snd (crunk (realloc (mkWid 7 0 0) (50, 100)%Z) busy3v (Some 8)) = Some EInjected /\
  fst (fst (crunk (realloc (mkWid 7 0 0) (50, 100)%Z) busy3v (Some 8))) = busy3v.
Proof. vm_compute. repeat split; reflexivity. Qed.

(* the hypotheses of the create theorem hold of a concrete request *)
From Verif Require Import Calcium.DeployProofs Calcium.DeployProofs2 Calcium.CreateProofs Calcium.CreateProofs2.
Definition base3v : world := Eval vm_compute in base3.
Example create_hyp_example : create_hyp base3v 9 (50, 100)%Z (Some [(0%nat, 2%nat); (1%nat, 1%nat)]).
Proof.
  split.
  - intros n i. split; reflexivity.
  - split; [repeat constructor; simpl; intuition discriminate|]. split.
    + intros n cnt [E|[E|[]]]; inversion E; subst; eexists; split; reflexivity.
    + intros n [<-|[<-|[]]]; discriminate.
Qed.

(* the invariant of the history theorem holds of a concrete world, and a concrete history with faults is valid *)
From Verif Require Import Calcium.CapProofs Calcium.NodeProofs Calcium.HistoryProofs.
Example busy3_Inv : Inv busy3v.
Proof.
  constructor; [exact busy3_wf|exact busy3_use_ok| |].
  - unfold busy3v, pnames; simpl. repeat constructor; simpl; intuition discriminate.
  - intros y Hy. unfold busy3v in Hy; simpl in Hy. destruct Hy as [<-|[<-|[<-|[<-|[]]]]]; reflexivity.
Qed.


Definition history_example : list hstep :=
  [ (OCreate 9 0 3 (50, 100)%Z (Some [(0%nat, 2%nat); (1%nat, 1%nat)]), Some 20%nat);
    (ORealloc (mkWid 7 0 0) (50, 100)%Z, Some 8%nat);
    (ORemove [mkWid 7 0 0; mkWid 9 1 0] true, Some 11%nat);
    (OSetNode 1 None (Some (4096%Z, true)) None, Some 4%nat);
    (ODissociate [mkWid 9 0 0], Some 6%nat);
    (OAddNode 7 0 (400, 8192)%Z, Some 2%nat) ].

Example history_example_valid : valid_hist busy3v history_example.
Proof.
  unfold history_example. cbn [valid_hist valid_step fst snd].
  split.
  - intros _. split.
    + intros n i. (split; reflexivity).
    + (split; [repeat constructor; simpl; intuition discriminate|]). split.
      * (intros n cnt [E|[E|[]]]; inversion E; subst; eexists; split; reflexivity).
      * (intros n [<-|[<-|[]]]; discriminate).
  - (repeat split; try exact I). left; reflexivity.
Qed.

Example history_example_Inv : Inv (run_hist busy3v history_example).
Proof. apply history_keeps_Inv; [exact busy3_Inv|exact history_example_valid]. Qed.

(* a replace hit by a fault while the new workload is being deployed: a valid step, the invariant is kept *)
Definition history_example2 : list hstep :=
  [ (OReplace 11 [mkWid 7 0 0], Some 9%nat); (ORealloc (mkWid 7 0 0) (50, 100)%Z, None) ].

Example history_example2_valid : valid_hist busy3v history_example2.
Proof.
  unfold history_example2. cbn [valid_hist]. split; [|split; exact I].
  unfold valid_step. cbn [fst]. split.
  - intros n i _. split; reflexivity.
  - intros m Hm. vm_compute in Hm. repeat (destruct Hm as [<-|Hm]; [exact (fun x => x)|]). destruct Hm.
Qed.

Example history_example2_reports_failure :
  out (step_world busy3v (OReplace 11 [mkWid 7 0 0], Some 9%nat)) =
  [MClose; MReplace (mkWid 7 0 0) None false (Some EInjected)].
Proof. vm_compute. reflexivity. Qed.

(* two reallocs on different nodes, interleaved call by call, one of them hit by a fault: the hypotheses of the
   commutation theorem hold of the concrete world, and (computed) the alternating schedule gives the sequential result *)
From Verif Require Import Calcium.Interleave Calcium.InterleaveOps.
Example realloc_pair_example : forall sched k1 k2,
  run2 sched (realloc (mkWid 7 0 0) (50, 100)%Z) k1 (realloc (mkWid 8 1 0) (100, 200)%Z) k2 busy3v =
  run2 [] (realloc (mkWid 7 0 0) (50, 100)%Z) k1 (realloc (mkWid 8 1 0) (100, 200)%Z) k2 busy3v.
Proof.
  apply (realloc_pair_interleave (mkWid 7 0 0) (mkWid 8 1 0) 0%nat 1%nat).
  - discriminate.
  - discriminate.
  - intros x Hx Hid. unfold busy3v in Hx; simpl in Hx. destruct Hx as [<-|[<-|[<-|[]]]]; try reflexivity; discriminate.
  - intros x Hx Hid. unfold busy3v in Hx; simpl in Hx. destruct Hx as [<-|[<-|[<-|[]]]]; try reflexivity; discriminate.
Qed.

Example realloc_pair_computed :
  let alternating := [true; false; true; false; true; false; true; false; true; false; true; false; true; false; true; false] in
  run2 alternating (realloc (mkWid 7 0 0) (50, 100)%Z) (Some 8%nat) (realloc (mkWid 8 1 0) (100, 200)%Z) None busy3v =
  run2 [] (realloc (mkWid 7 0 0) (50, 100)%Z) (Some 8%nat) (realloc (mkWid 8 1 0) (100, 200)%Z) None busy3v /\
  snd (fst (run2 [] (realloc (mkWid 7 0 0) (50, 100)%Z) (Some 8%nat) (realloc (mkWid 8 1 0) (100, 200)%Z) None busy3v)) = Some EInjected /\
  snd (run2 [] (realloc (mkWid 7 0 0) (50, 100)%Z) (Some 8%nat) (realloc (mkWid 8 1 0) (100, 200)%Z) None busy3v) = None.
Proof. vm_compute. repeat split; reflexivity. Qed.
