(* Calcium/DeployPathCaps.v — the capacity the cpumem plugin computes for a node is a
   Go int (<= MaxInt), from builder B's definitions and lemmas (read-only):
   discharges the hypothesis [caps_int64] of Calcium/DeployPathProofs.v.

   memory-only requests: capacity is 0, MaxInt or availableMemory / request;
   bound requests: capacity is the number of CPU plans; every plan uses at least one
   piece of some core with free pieces (get_cpu_plans_content), all plans together
   never use more than the free pieces of a core, hence #plans <= total free pieces. *)
From Coq Require Import String Ascii.
From Coq Require Import List Bool ZArith Arith Lia Permutation.
From Verif Require Import Base.GoInt Base.GoFloat Cpumem.Types Cpumem.Schedule Cpumem.Calc
  Cpumem.SchedProofs Cpumem.SchedProofsMem Cpumem.SchedProofsFit Cpumem.SchedProofsFit2 Cpumem.SchedProofsTop Cpumem.SchedProofsCommit.
Import ListNotations.
Local Open Scope Z_scope.

(* sum of a function over a key list *)
Definition ksum (f : string -> Z) (ks : list string) : Z := fold_right (fun k s => f k + s) 0 ks.

Lemma ksum_ge_member f ks k : (forall id, 0 <= f id) -> In k ks -> f k <= ksum f ks.
Proof.
  intros Hnn. induction ks as [|h t IH]; simpl; [tauto|].
  assert (0 <= ksum f t) by (clear -Hnn; induction t; simpl; [lia|specialize (Hnn a); lia]).
  intros [->|Hin]; [lia|]. specialize (IH Hin). specialize (Hnn h). lia.
Qed.

Lemma ksum_add f g ks : ksum (fun id => f id + g id) ks = ksum f ks + ksum g ks.
Proof. induction ks; simpl; lia. Qed.

Lemma ksum_le f g ks : (forall id, In id ks -> f id <= g id) -> ksum f ks <= ksum g ks.
Proof.
  induction ks as [|h t IH]; simpl; intro H; [lia|].
  pose proof (H h (or_introl eq_refl)). pose proof (IH (fun id Hid => H id (or_intror Hid))). lia.
Qed.

(* every plan has one core of K with >= 1 piece, lookups are >= 0: #plans <= sum over K of used *)
Lemma count_le_used (K : list string) : forall ps : list plan,
  (forall p, In p ps -> (forall id, 0 <= lookup 0 p id) /\ exists k, In k K /\ 1 <= lookup 0 p k) ->
  Z.of_nat (length ps) <= ksum (used ps) K.
Proof.
  induction ps as [|p t IH]; intro H; [simpl; clear; induction K; simpl; lia|].
  destruct (H p (or_introl eq_refl)) as (Hnn & k & Hk & H1).
  specialize (IH (fun q Hq => H q (or_intror Hq))).
  change (used (p :: t)) with (fun id => lookup 0 p id + used t id).
  rewrite ksum_add. pose proof (ksum_ge_member (lookup 0 p) K k Hnn Hk).
  cbn [length]. lia.
Qed.

Lemma mweight_ksum_aux (m : smap Z) : forall l : smap Z,
  (forall kv, In kv l -> lookup 0 m (fst kv) = snd kv) ->
  fold_right (fun kv s => Z.max 0 (snd kv) + s) 0 l = ksum (fun id => Z.max 0 (lookup 0 m id)) (keys l).
Proof.
  induction l as [|[k v] t IH]; intro Hl; [reflexivity|].
  cbn [fold_right keys map ksum fst snd]. pose proof (Hl (k, v) (or_introl eq_refl)) as E. cbn [fst snd] in E.
  rewrite E. f_equal.
  apply IH. intros kv Hin. apply Hl. right; exact Hin.
Qed.

Lemma mweight_ksum (m : smap Z) : NoDup (keys m) ->
  mweight m = ksum (fun id => Z.max 0 (lookup 0 m id)) (keys m).
Proof.
  intro Hnd. unfold mweight. apply mweight_ksum_aux.
  intros [k v] Hin. simpl. apply lookup_opt_lookup. apply lookup_opt_some; auto.
Qed.

Section Caps.
Variable sortf : list keyed -> outcome (list keyed).
Hypothesis sortf_perm : forall l, exists l', sortf l = Ok l' /\ Permutation l' l.

(* the node record holds Go ints *)
Definition node_int64 (info : node_info) : Prop :=
  nr_mem (get_available_nofloat info) <= max_int /\
  mweight (nr_cpumap (get_available_nofloat info)) <= max_int.

Lemma plan_has_piece base cpu p : 0 < base -> any_shape base cpu p ->
  (forall id, 0 <= lookup 0 p id) /\ exists k, In k (keys p) /\ 1 <= lookup 0 p k.
Proof.
  intros Hb (IDS & Hpr & p0 & fr & E & Hnd & Hlen & Hall & Hfr & _).
  set (pr := pieces_request base cpu) in *.
  assert (Hpos : forall kv, In kv p -> 1 <= snd kv).
  { intros kv Hin. rewrite E in Hin. apply in_app_or in Hin. destruct Hin as [Hin|Hin].
    - rewrite Forall_forall in Hall. rewrite (Hall kv Hin). lia.
    - destruct Hfr as [[_ ->]|[Hf (k & ->)]]; [destruct Hin|]. destruct Hin as [<-|[]]. simpl. lia. }
  split.
  - intro id. unfold lookup. destruct (lookup_opt p id) as [v|] eqn:El; [|lia].
    assert (In (id, v) p).
    { clear -El. induction p as [|[k' v'] t IH]; simpl in *; [discriminate|].
      destruct (String.eqb id k') eqn:E; [injection El as <-; apply String.eqb_eq in E; subst; auto|right; auto]. }
    specialize (Hpos _ H). simpl in Hpos. lia.
  - (* the plan is not empty: full * base + fragment = pr > 0 *)
    destruct p as [|[k v] t].
    + exfalso. symmetry in E. apply app_eq_nil in E. destruct E as [-> ->]. simpl in Hlen.
      destruct Hfr as [[Hf _]|[Hf (k & Hk)]]; [|discriminate].
      pose proof (Z.quot_rem' pr base). lia.
    + exists k. split; [left; reflexivity|].
      rewrite (lookup_opt_lookup ((k, v) :: t) k v).
      * apply (Hpos (k, v)). left; reflexivity.
      * simpl. rewrite String.eqb_refl. reflexivity.
Qed.

Theorem node_capacity_int64 info base maxshare req order fuel c :
  node_capacity_g sortf info base maxshare req order fuel = Ok c ->
  node_int64 info -> wf_maps info -> NoDup order -> 0 < base -> 0 <= rq_mem_req req ->
  cap_capacity c <= max_int.
Proof.
  intros H [Hmem Hcpu] Wf Nd Hb Hm. unfold node_capacity_g in H.
  destruct (negb (rq_bind req)).
  - destruct (fgt _ _); [injection H as <-; cbn [cap_capacity]; unfold max_int; lia|].
    destruct (Z.eqb_spec (rq_mem_req req) 0); injection H as <-; cbn [cap_capacity]; [lia|].
    set (a := nr_mem (get_available_nofloat info)) in *.
    destruct (Z_lt_ge_dec a 0).
    + assert (Z.quot a (rq_mem_req req) <= 0).
      { replace a with (- (- a)) by lia. rewrite Z.quot_opp_l by lia.
        pose proof (Z.quot_pos (- a) (rq_mem_req req) ltac:(lia) ltac:(lia)). lia. }
      change (Z.quot a (rq_mem_req req) <= max_int). unfold max_int. lia.
    + assert (Z.quot a (rq_mem_req req) <= a) by (apply Z.quot_le_upper_bound; nia).
      change (Z.quot a (rq_mem_req req) <= max_int). lia.
  - apply bind_ok in H. destruct H as (plans & Ep & H). injection H as <-. cbn [cap_capacity].
    destruct (get_cpu_plans_content sortf sortf_perm _ _ _ _ _ _ _ _ Ep Hb (proj2 Wf) Nd (avail_nodup info Wf))
      as (A & _ & Sh).
    set (avail := nr_cpumap (get_available_nofloat info)) in *.
    assert (Hnd : NoDup (keys avail)) by (apply avail_nodup; exact Wf).
    assert (Hcount : Z.of_nat (length (map snd plans)) <= ksum (used (map snd plans)) (keys avail)).
    { apply count_le_used. intros p Hp. apply in_map_iff in Hp. destruct Hp as (tp & <- & Htp).
      destruct (plan_has_piece base (rq_cpu_req req) (snd tp) Hb (Sh tp Htp)) as (Hnn & k & Hk & H1).
      split; [exact Hnn|]. exists k. split; [|exact H1].
      (* k has free pieces, so it is a core of the node *)
      destruct (in_dec string_dec k (keys avail)) as [Hin|Hnin]; [exact Hin|exfalso].
      pose proof (A k) as Ak. rewrite (lookup_notin avail k Hnin) in Ak.
      assert (Hu : lookup 0 (snd tp) k <= used (map snd plans) k).
      { clear -Htp Sh Hb. induction plans as [|q t IH]; [destruct Htp|]. simpl.
        assert (Hq : forall id, 0 <= lookup 0 (snd q) id).
        { apply (proj1 (plan_has_piece base (rq_cpu_req req) (snd q) Hb (Sh q (or_introl eq_refl)))). }
        assert (Ht : 0 <= used (map snd t) k).
        { clear -Sh Hb. induction t as [|r t' IH']; simpl; [lia|].
          pose proof (proj1 (plan_has_piece base (rq_cpu_req req) (snd r) Hb (Sh r (or_intror (or_introl eq_refl)))) k).
          assert (0 <= used (map snd t') k).
          { apply IH'. intros tp Hin. apply Sh. destruct Hin as [->|Hin]; [left; reflexivity|right; right; exact Hin]. }
          lia. }
        destruct Htp as [->|Htp]; [lia|].
        specialize (IH (fun tp Hin => Sh tp (or_intror Hin)) Htp). specialize (Hq k). lia. }
      lia. }
    rewrite map_length in Hcount.
    assert (Hsum : ksum (used (map snd plans)) (keys avail) <= mweight avail).
    { rewrite (mweight_ksum avail Hnd). apply ksum_le. intros id _. apply A. }
    lia.
Qed.
End Caps.

(* ---- discharge [caps_int64] of the composed path ---- *)
From Verif Require Import Cobalt.Merge Cobalt.Capacity Cobalt.CapacityProofs Strategy.Model Strategy.Glue
  Calcium.DeployPath Calcium.DeployPathProofs.

Section Discharge.
Variable sortf : list keyed -> outcome (list keyed).
Hypothesis sortf_perm : forall l, exists l', sortf l = Types.Ok l' /\ Permutation l' l.
Variables (base maxshare : Z) (raw req : wreq) (orders : string -> list string).

(* what is assumed of the node records: Go ints, well-formed Go maps, a duplicate-free NUMA order *)
Definition nodes_ok (nodes : list pnode) : Prop :=
  forall n, In n nodes -> node_int64 (snd n) /\ wf_maps (snd n) /\ NoDup (orders (fst n)).

Lemma plugin_caps_int64 : forall nodes caps,
  wreq_validate raw = inr req -> 0 < base -> nodes_ok nodes ->
  plugin_caps sortf base maxshare req orders nodes = Types.Ok caps ->
  Forall (fun nc => cap_capacity (snd nc) <= max_int) caps.
Proof.
  intros nodes caps Hv Hb. pose proof (validate_mem_nonneg raw req Hv) as Hm.
  revert caps. induction nodes as [|n t IH]; intros caps Hok H; simpl in H.
  - injection H as <-. constructor.
  - destruct (node_capacity_g sortf (snd n) base maxshare req (orders (fst n)) (default_fuel (snd n))) as [c| | |] eqn:Ec;
      simpl in H; try discriminate.
    destruct (plugin_caps sortf base maxshare req orders t) as [r| | |] eqn:Er; simpl in H; try discriminate.
    injection H as <-. constructor.
    + simpl. destruct (Hok n (or_introl eq_refl)) as (H1 & H2 & H3).
      eapply node_capacity_int64; eauto.
    + apply IH; auto. intros m Hm'. apply Hok. right; exact Hm'.
Qed.

Theorem path_hyps_of_nodes nodes caps morder status need limit :
  wreq_validate raw = inr req -> NoDup (map fst nodes) -> 0 < base -> nodes_ok nodes ->
  plugin_caps sortf base maxshare req orders nodes = Types.Ok caps ->
  (forall k, 0 <= mget status k) ->
  Permutation (entries_of (fst (manager_capacity caps))) morder ->
  0 < need -> 0 <= limit ->
  path_hyps sortf base maxshare raw req orders nodes caps morder status need limit.
Proof.
  intros Hv Hnd Hb Hok Hc Hs Hp Hn Hl. unfold path_hyps. repeat split; auto.
  eapply plugin_caps_int64; eauto.
Qed.
End Discharge.
