(* Calcium/Ops.v — the orchestration scripts of cluster/calcium, written in the
   effect monad against the abstract world, mirroring the Go functions statement
   by statement (create.go, remove.go, dissociate.go, realloc.go, replace.go,
   node.go, lambda.go, lock.go).  Go map iteration order and the strategy's plan
   are inputs (oracle arguments); per-node / per-instance goroutines are run one
   after the other (they touch disjoint entities; faults are addressed by
   (method, target, ordinal), so the sequentialisation does not change which step
   a fault denotes).  No proofs here. *)
From Coq Require Import List Bool Arith ZArith.
From Verif Require Import Base.Effects Calcium.World.
Import ListNotations.
Local Open Scope Z_scope.

Definition oerr := option err.
Definition err_of (r : reply) : oerr := match r with RErr e => Some e | _ => None end.
Definition is_ok (e : oerr) : bool := match e with None => true | Some _ => false end.
Definition doc (c : call) : cprog oerr := r <- call1 c ;; Ret (err_of r).
Definition skip : cprog unit := Ret tt.
Definition rok : cprog oerr := Ret None.
Definition ign (p : cprog oerr) : cprog unit := p ;;; Ret tt.
Definition send (m : msg) : cprog unit := ign (doc (Send m)).

(* ---------------------------------------------------------------- lock.go *)

Inductive nfilter := FInclude (ns : list name) | FPod (p : name) (all : bool).

(* filterNodes: Includes -> GetNode each (first error aborts); else GetNodesByPod *)
Fixpoint get_nodes (ns : list name) : cprog (err + list node) :=
  match ns with
  | [] => Ret (inr [])
  | n :: rest =>
    r <- call1 (SGetNode n) ;;
    match r with
    | RNode x => r2 <- get_nodes rest ;; match r2 with inl e => Ret (inl e) | inr l => Ret (inr (x :: l)) end
    | RErr e => Ret (inl e)
    | _ => Ret (inl ENatural)
    end
  end.

Definition filter_nodes (f : nfilter) : cprog (err + list node) :=
  match f with
  | FInclude ns => get_nodes ns
  | FPod p all =>
    r <- call1 (SGetNodesByPod p all) ;;
    match r with RNodes l => Ret (inr l) | RErr e => Ret (inl e) | _ => Ret (inl ENatural) end
  end.

Fixpoint dedupe_keys (ks : list lockkey) (seen : list lockkey) : list lockkey :=
  match ks with
  | [] => []
  | k :: rest => if existsb (lockkey_eqb k) seen then dedupe_keys rest seen else k :: dedupe_keys rest (k :: seen)
  end.

(* doLock for each key; returns the keys held, most recent first *)
Fixpoint acquire (ks : list lockkey) (held : list lockkey) : cprog (oerr * list lockkey) :=
  match ks with
  | [] => Ret (None, held)
  | k :: rest =>
    r <- doc (SCreateLock k) ;;
    match r with
    | Some e => Ret (Some e, held)
    | None =>
      r2 <- doc (LLock k) ;;
      match r2 with
      | Some e => ign (doc (LUnlock k)) ;;; Ret (Some e, held)      (* doLock's deferred unlock *)
      | None => acquire rest (k :: held)
      end
    end
  end.

Definition release (held : list lockkey) : cprog unit := for_all held (fun k => ign (doc (LUnlock k))).

(* withNodesLocked with the pod lock as key *)
Definition with_nodes_pod_locked {A} (f : nfilter) (on_err : err -> A) (body : list node -> cprog A) : cprog A :=
  r <- filter_nodes f ;;
  match r with
  | inl e => Ret (on_err e)
  | inr ns =>
    a <- acquire (dedupe_keys (map (fun x => LPod (n_pod x)) ns) []) [] ;;
    match fst a with
    | Some e => release (snd a) ;;; Ret (on_err e)
    | None => x <- body ns ;; release (snd a) ;;; Ret x
    end
  end.

Definition with_node_pod_locked (n : name) (body : node -> cprog oerr) : cprog oerr :=
  with_nodes_pod_locked (FInclude [n]) (fun e => Some e)
    (fun ns => match find (fun x => Nat.eqb (n_name x) n) ns with
               | Some x => body x
               | None => Ret (Some ENatural)
               end).

(* withWorkloadLocked (single id) *)
Definition with_workload_locked (id : wid) (body : wl -> cprog oerr) : cprog oerr :=
  r <- call1 (SGetWorkloads [id]) ;;
  match r with
  | RWls (x :: _) =>
    a <- acquire [LWl (w_id x)] [] ;;
    match fst a with
    | Some e => release (snd a) ;;; Ret (Some e)
    | None => e <- body x ;; release (snd a) ;;; Ret e
    end
  | RWls [] => Ret (Some ENatural)
  | RErr e => Ret (Some e)
  | _ => Ret (Some ENatural)
  end.

(* ---------------------------------------------------------------- remove.go *)

(* doRemoveWorkload *)
Definition do_remove_workload (x : wl) (force : bool) : cprog oerr :=
  txn (doc (SRemoveWorkload x))
      (Some (doc (ERemove (w_id x) force)))
      (Some (fun by_cond : bool => if by_cond then rok else doc (SAddWorkload x None))).

(* the body run under the workload lock in RemoveWorkload *)
Definition remove_txn (n : name) (x : wl) (force : bool) : cprog oerr :=
  txn (doc (PSetUsage n [w_res x] false))
      (Some (do_remove_workload x force))
      (Some (fun by_cond : bool => if by_cond then rok else doc (PSetUsage n [w_res x] true))).

Definition maybe_send (emit : bool) (m : msg) : cprog unit := if emit then send m else skip.

Definition remove_one (emit : bool) (n : name) (force : bool) (id : wid) : cprog unit :=
  r <- with_workload_locked id (fun x => remove_txn n x force) ;;
  maybe_send emit (MRemove id (is_ok r)).

(* nodes in order of first appearance, with their ids *)
Fixpoint group_by_node (l : list wl) : list (name * list wid) :=
  match l with
  | [] => []
  | x :: rest =>
    let g := group_by_node rest in
    if existsb (fun p => Nat.eqb (fst p) (w_node x)) g
    then map (fun p => if Nat.eqb (fst p) (w_node x) then (fst p, w_id x :: snd p) else p) g
    else (w_node x, [w_id x]) :: g
  end.

(* RemoveWorkload; [emit]=false is doRemoveWorkloadSync (messages are drained, not forwarded) *)
Definition remove (emit : bool) (ids : list wid) (force : bool) : cprog oerr :=
  r <- call1 (SGetWorkloads ids) ;;
  match r with
  | RWls l =>
    for_all (group_by_node l) (fun g =>
      e <- with_node_pod_locked (fst g) (fun _ => for_all (snd g) (remove_one emit (fst g) force) ;;; rok) ;;
      match e with Some _ => maybe_send emit MRemoveNodeFail | None => skip end) ;;;
    maybe_send emit MClose ;;; rok
  | RErr e => Ret (Some e)
  | _ => Ret (Some ENatural)
  end.

(* ---------------------------------------------------------------- dissociate.go *)

Definition dissociate_txn (n : name) (x : wl) : cprog oerr :=
  txn (doc (PSetUsage n [w_res x] false))
      (Some (doc (SRemoveWorkload x)))
      (Some (fun by_cond : bool => if by_cond then rok else doc (PSetUsage n [w_res x] true))).

Definition dissociate (ids : list wid) : cprog oerr :=
  r <- call1 (SGetWorkloads ids) ;;
  match r with
  | RWls l =>
    for_all (group_by_node l) (fun g =>
      ign (with_node_pod_locked (fst g) (fun _ =>
        for_all (snd g) (fun id =>
          e <- with_workload_locked id (fun x => dissociate_txn (fst g) x) ;;
          send (MDissociate id e)) ;;; rok))) ;;;
    send MClose ;;; rok
  | RErr e => Ret (Some e)
  | _ => Ret (Some ENatural)
  end.

(* ---------------------------------------------------------------- realloc.go *)

(* doReallocOnNode; local state = (delta, new record) set by the condition step *)
Definition do_realloc (x origin : wl) (req : res) : cprog oerr :=
  r <- txn_s (rzero, x)
    (fun s =>
       r <- call1 (PRealloc (w_node x) (w_res x) req) ;;
       match r with
       | RRealloc delta newr =>
         let x' := mkWl (w_id x) (w_node x) (w_pod x) newr in
         e <- doc (SUpdateWorkload x') ;;
         match e with
         | Some _ =>
           (* the node resource has been changed already: give the delta back *)
           ign (doc (PRollbackRealloc (w_node x) delta)) ;;; Ret ((delta, x'), e)
         | None => Ret ((delta, x'), e)
         end
       | RErr e => Ret (s, Some e)
       | _ => Ret (s, Some ENatural)
       end)
    (Some (fun s => e <- doc (EUpdateResource (w_id x)) ;; Ret (s, e)))
    (Some (fun (s : res * wl) (by_cond : bool) =>
       if by_cond then rok
       else ign (doc (PRollbackRealloc (w_node x) (fst s))) ;;; doc (SUpdateWorkload origin))) ;;
  Ret (snd r).

Definition realloc (id : wid) (req : res) : cprog oerr :=
  r <- call1 (SGetWorkload id) ;;
  match r with
  | RWl origin =>
    with_node_pod_locked (w_node origin) (fun _ =>
      with_workload_locked id (fun x => do_realloc x origin req))
  | RErr e => Ret (Some e)
  | _ => Ret (Some ENatural)
  end.

(* ---------------------------------------------------------------- create.go *)

(* pullImage with a cached image: local digests, remote digest; a failure of either falls back to a pull *)
Definition prepare_image (n : name) : cprog oerr :=
  r <- doc (EImageLocal n) ;;
  match r with
  | Some _ => doc (EImagePull n)
  | None => r2 <- doc (EImageRemote n) ;; match r2 with Some _ => doc (EImagePull n) | None => rok end
  end.

(* doGetAndPrepareNode *)
Definition get_and_prepare_node (n : name) : cprog oerr :=
  r <- doc (SGetNode n) ;;
  match r with Some e => Ret (Some e) | None => prepare_image n end.

(* doDeployOneWorkload; local state = (workload.ID set?, WAL commit handle) *)
Definition deploy_one (x : wl) (decr : option nat) : cprog oerr :=
  r <- txn_s (false, @None nat)
    (fun s =>
       e <- doc (ECreate (w_id x)) ;;
       match e with
       | Some e => Ret (s, Some e)
       | None =>
         r <- call1 (WLog (EvCreate (w_id x))) ;;
         match r with
         | RToken t => Ret ((true, Some t), None)
         | RErr e => Ret ((true, None), Some e)
         | _ => Ret ((true, None), Some ENatural)
         end
       end)
    (Some (fun s =>
       e <- doc (SAddWorkload x decr) ;;
       match e with
       | Some e => Ret (s, Some e)
       | None =>
         e2 <- doc (EStart (w_id x)) ;;
         match e2 with
         | Some e => Ret (s, Some e)
         | None => e3 <- doc (EInspect (w_id x)) ;; Ret (s, e3)
         end
       end))
    (Some (fun (s : bool * option nat) (_ : bool) =>
       if fst s then ign (doc (SRemoveWorkload x)) ;;; doc (ERemove (w_id x) true) else rok)) ;;
  (match snd (fst r) with Some t => ign (doc (WCommit t (EvCreate (w_id x)))) | None => skip end) ;;;
  Ret (snd r).

Fixpoint seq_nat (start len : nat) : list nat :=
  match len with O => [] | S l => start :: seq_nat (S start) l end.

(* the per-instance loop of doDeployWorkloadsOnNode (the instance goroutines, one after the other) *)
Fixpoint deploy_loop (opi : nat) (pod n : name) (r : res) (idxs : list nat) : cprog (list nat * list msg) :=
  match idxs with
  | [] => Ret (@nil nat, @nil msg)
  | i :: rest =>
    let id := mkWid opi n i in
    e <- deploy_one (mkWl id n pod r) (Some opi) ;;
    let m := if is_ok e then MCreateOk id r else MCreateFail n in
    send m ;;;
    t <- deploy_loop opi pod n r rest ;;
    Ret ((if is_ok e then fst t else i :: fst t), m :: snd t)
  end.

(* doDeployWorkloadsOnNode: returns the indices to roll back and the messages produced *)
Definition deploy_on_node (opi : nat) (pod n : name) (k : nat) (r : res) : cprog (list nat * list msg) :=
  e <- get_and_prepare_node n ;;
  match e with
  | Some _ =>
    (* these messages carry the error only, no node name *)
    for_all (seq_nat 0 k) (fun _ => send MCreateErr) ;;;
    Ret (seq_nat 0 k, repeat MCreateErr k)
  | None => deploy_loop opi pod n r (seq_nat 0 k)
  end.

Record cstate_create := mkCS {
  cs_rtoken : option nat;                       (* resourceCommit *)
  cs_plan : list (name * nat);                  (* deployMap *)
  cs_ptokens : list (name * option nat);        (* processingCommits (nil when wal.Log failed) *)
  cs_alloc : list (name * nat);                 (* allocatedNodes, with the number of instances allocated *)
}.

(* the loop of the condition step over the plan *)
Fixpoint alloc_loop (opi : nat) (r : res) (plan : list (name * nat)) (s : cstate_create) : cprog (cstate_create * oerr) :=
  match plan with
  | [] => Ret (s, None)
  | (n, k) :: rest =>
    e <- doc (PAlloc n k r) ;;
    match e with
    | Some e => Ret (s, Some e)
    | None =>
      t <- call1 (WLog (EvProc n opi)) ;;
      let tok := match t with RToken t => Some t | _ => None end in
      let s' := mkCS (cs_rtoken s) (cs_plan s) (cs_ptokens s ++ [(n, tok)]) (cs_alloc s ++ [(n, k)]) in
      match err_of t with
      | Some e => Ret (s', Some e)
      | None =>
        e2 <- doc (SCreateProcessing n opi (Z.of_nat k)) ;;
        match e2 with
        | Some e => Ret (s', Some e)
        | None => alloc_loop opi r rest s'
        end
      end
    end
  end.

(* the deferred loop over processingCommits: calling a nil commit panics; the panic
   aborts this deferred function only (the remaining defers still run, the worker pool
   swallows the panic) *)
Fixpoint commit_processing (opi : nat) (l : list (name * option nat)) : cprog unit :=
  match l with
  | [] => skip
  | (n, Some t) :: rest => ign (doc (WCommit t (EvProc n opi))) ;;; commit_processing opi rest
  | (_, None) :: _ => skip
  end.

(* doDeployWorkloads: per node; returns rollbackMap and all messages *)
Fixpoint deploy_all (opi : nat) (pod : name) (r : res) (plan : list (name * nat)) : cprog (list (name * list nat) * list msg) :=
  match plan with
  | [] => Ret (@nil (name * list nat), @nil msg)
  | (n, k) :: rest =>
    a <- deploy_on_node opi pod n k r ;;
    b <- deploy_all opi pod r rest ;;
    Ret ((match fst a with [] => fst b | _ => (n, fst a) :: fst b end), snd a ++ snd b)
  end.

(* the body of the condition step, run under the pod lock *)
Definition cond_body (opi : nat) (r : res) (plan : option (list (name * nat))) (s : cstate_create) (ns : list node) : cprog (cstate_create * oerr) :=
  match ns with
  | [] => Ret (s, Some ENatural)
  | _ =>
    t <- call1 (WLog (EvAlloc (map n_name ns))) ;;
    match t with
    | RToken tok =>
      let s1 := mkCS (Some tok) [] [] [] in
      e <- doc (PGetCapacity (map n_name ns)) ;;
      match e with
      | Some e => Ret (s1, Some e)
      | None =>
        e2 <- doc SGetDeployStatus ;;
        match e2 with
        | Some e => Ret (s1, Some e)
        | None =>
          match plan with
          | None => Ret (s1, Some ENatural)
          | Some dm => alloc_loop opi r dm (mkCS (Some tok) dm [] [])
          end
        end
      end
    | RErr e => Ret (s, Some e)
    | _ => Ret (s, Some ENatural)
    end
  end.

(* give back the resources of the listed instances, node by node, each under the pod lock *)
Definition rollback_prog (r : res) (rb : list (name * list nat)) : cprog unit :=
  for_all rb (fun g => ign (with_node_pod_locked (fst g) (fun _ => doc (PRollbackAlloc (fst g) (repeat r (length (snd g))))))).

(* doCreateWorkloads.  [plan]: what the strategy returned (None = refused), nodes in
   the order the condition step visited them. Returns the messages it sent. *)
Definition create (opi : nat) (pod : name) (r : res) (plan : option (list (name * nat))) : cprog (list msg) :=
  res <- txn_s (mkCS None [] [] [], @nil (name * list nat), @nil msg)
    (* if: alloc resources *)
    (fun st =>
      x <- with_nodes_pod_locked (FPod pod false) (fun e => (fst (fst st), Some e)) (cond_body opi r plan (fst (fst st))) ;;
      match snd x with
      | Some e => send MCreateErr ;;; Ret ((fst x, snd (fst st), [MCreateErr]), Some e)
      | None => Ret ((fst x, snd (fst st), snd st), None)
      end)
    (* then: deploy workloads *)
    (Some (fun st =>
      d <- deploy_all opi pod r (cs_plan (fst (fst st))) ;;
      Ret ((fst (fst st), fst d, snd st ++ snd d), match fst d with [] => None | _ => Some ENatural end)))
    (* rollback: give back resources *)
    (Some (fun st (by_cond : bool) =>
      (* a late failure of the condition step: give back everything allocated so far *)
      let rb := if by_cond then map (fun a => (fst a, seq_nat 0 (snd a))) (cs_alloc (fst (fst st))) else snd (fst st) in
      rollback_prog r rb ;;; rok)) ;;
  let s := fst (fst (fst res)) in
  (* deferred, LIFO: delete the processing markers, commit their WAL entries, commit the
     allocation entry, close the channel *)
  for_all (cs_plan s) (fun g => ign (doc (SDeleteProcessing (fst g) opi))) ;;;
  commit_processing opi (cs_ptokens s) ;;;
  (match cs_rtoken s with Some t => ign (doc (WCommit t (EvAlloc []))) | None => skip end) ;;;
  send MClose ;;;
  Ret (snd (fst res)).

(* ---------------------------------------------------------------- lambda.go *)

Fixpoint send_lines (id : wid) (k : nat) : cprog unit :=
  match k with O => skip | S k' => send (MLambdaOut id) ;;; send_lines id k' end.

(* the part of the lambda closure between the WAL entry and the deferred actions: returns the last message *)
Definition lambda_body (stdin : bool) (lines : nat) (id : wid) : cprog msg :=
  r <- call1 (SGetWorkload id) ;;
  match r with
  | RWl _ =>
    e <- doc (ELogs id) ;;
    match e with
    | Some _ => Ret (MLambdaErr (Some id))
    | None =>
      e2 <- (if stdin then doc (EAttach id) else rok) ;;
      match e2 with
      | Some _ => Ret (MLambdaErr (Some id))
      | None =>
        (* with stdin the stream is forwarded byte by byte; a scripted line is two bytes *)
        send_lines id (if stdin then (lines + lines)%nat else lines) ;;;
        c <- call1 (EWait id) ;;
        match c with
        | RCode code => Ret (MLambdaExit id code)
        | _ => Ret (MLambdaErr (Some id))
        end
      end
    end
  | _ => Ret (MLambdaErr (Some id))
  end.

(* the deferred actions, LIFO: remove the workload, commit the WAL entry, send the last message *)
Definition lambda_cleanup (id : wid) (tok : nat) (final : msg) : cprog unit :=
  ign (remove false [id] true) ;;;
  ign (doc (WCommit tok (EvLambda id))) ;;;
  send final.

(* the lambda closure for one create message *)
Definition lambda_one (stdin : bool) (lines : nat) (m : msg) : cprog unit :=
  match m with
  | MCreateOk id _ =>
    t <- call1 (WLog (EvLambda id)) ;;
    match t with
    | RToken tok =>
      final <- lambda_body stdin lines id ;;
      lambda_cleanup id tok final
    | _ =>
      (* the WAL entry could not be written: remove the workload, then report *)
      ign (remove false [id] true) ;;; send (MLambdaErr (Some id))
    end
  | _ => send (MLambdaErr None)
  end.

Definition is_create_msg (m : msg) : bool :=
  match m with MCreateErr | MCreateFail _ | MCreateOk _ _ => true | _ => false end.

Definition lambda (opi : nat) (pod : name) (r : res) (plan : option (list (name * nat))) (stdin : bool) (lines : nat) : cprog unit :=
  ms <- create opi pod r plan ;;
  for_all (filter is_create_msg ms) (lambda_one stdin lines) ;;;
  send MClose.

(* rpc/rpc.go RunAndWait, synchronous mode: the handler drains the message channel to its end and
   tries to send every message on the gRPC stream; a failed Send is logged and the loop goes on (a loop
   that stopped at the first failed Send would leave the lambda closures blocked on the channel: no removal,
   no WAL commit, no close).  [attempted] is what the handler passes to Send, [delivered] what reaches a
   client whose stream breaks at message [fail_from] (1-based; 0 = never). *)
Fixpoint rpc_forward (ms : list msg) (n fail_from : nat) : list msg * list msg :=
  match ms with
  | [] => ([], [])
  | m :: rest =>
    let r := rpc_forward rest (S n) fail_from in
    let broken := negb (Nat.eqb fail_from 0) && Nat.leb fail_from (S n) in
    (m :: fst r, if broken then snd r else m :: snd r)
  end.

(* ---------------------------------------------------------------- replace.go *)

Definition do_replace (opi index : nat) (old : wl) : cprog (option wid * bool * oerr) :=
  e <- get_and_prepare_node (w_node old) ;;
  match e with
  | Some e => Ret (None, false, Some e)
  | None =>
    let newid := mkWid opi (w_node old) index in
    let new := mkWl newid (w_node old) (w_pod old) (w_res old) in
    r <- txn_s (false, false)            (* (new workload deployed, old removed) *)
      (fun s => e <- doc (EStop (w_id old)) ;; Ret (s, e))
      (Some (fun s =>
         txn_s s
           (fun s => e <- deploy_one new None ;; Ret ((is_ok e, snd s), e))
           (Some (fun s => e <- do_remove_workload old true ;; Ret ((fst s, is_ok e), e)))
           None))
      (Some (fun _ (_ : bool) => doc (EStart (w_id old)))) ;;
    Ret ((if fst (fst r) then Some newid else None), snd (fst r), snd r)
  end.

Fixpoint replace_loop (opi index : nat) (ids : list wid) : cprog unit :=
  match ids with
  | [] => skip
  | id :: rest =>
    (* the result triple is carried out of the lock scope through a message *)
    r <- (x <- call1 (SGetWorkloads [id]) ;;
          match x with
          | RWls (old :: _) =>
            a <- acquire [LWl (w_id old)] [] ;;
            match fst a with
            | Some e => release (snd a) ;;; Ret (None, false, Some e)
            | None => t <- do_replace opi index old ;; release (snd a) ;;; Ret t
            end
          | RWls [] => Ret (None, false, Some ENatural)
          | RErr e => Ret (None, false, Some e)
          | _ => Ret (None, false, Some ENatural)
          end) ;;
    send (MReplace id (fst (fst r)) (snd (fst r)) (snd r)) ;;;
    replace_loop opi (S index) rest
  end.

Definition replace (opi : nat) (ids : list wid) : cprog unit :=
  replace_loop opi 0 ids ;;; send MClose.

(* ---------------------------------------------------------------- node.go *)

Definition add_pod (p : name) : cprog oerr := doc (SAddPod p).

Definition add_node (n p : name) (cap : res) : cprog oerr :=
  e <- doc (EInfo n) ;;
  match e with
  | Some e => Ret (Some e)
  | None =>
    txn (doc (PAddNode n cap))
        (Some (doc (SAddNode n p)))
        (Some (fun by_cond : bool => if by_cond then rok else doc (PRemoveNode n)))
  end.

(* the part of RemoveNode after the node has been fetched again under the pod lock *)
Definition remove_node_inner (n : name) : cprog oerr :=
  r <- call1 (SListNodeWorkloads n) ;;
  match r with
  | RWls [] =>
    txn (ign (doc (SSetNodeStatus n 90)) ;;;
         e <- doc (SRemoveNode n) ;;
         match e with
         | Some e => Ret (Some e)
         | None => ign (doc (SSetNodeStatus n (-1))) ;;; rok
         end)
        (Some (doc (PRemoveNode n)))
        (Some (fun _ : bool => rok))
  | RWls _ => Ret (Some ENatural)
  | RErr e => Ret (Some e)
  | _ => Ret (Some ENatural)
  end.

Definition remove_node (n : name) : cprog oerr :=
  with_node_pod_locked n (fun x =>
    (* the node was fetched before the pod lock was taken: fetch it again, it must still be in the same pod *)
    r0 <- call1 (SGetNode n) ;;
    match r0 with
    | RNode y => if Nat.eqb (n_pod y) (n_pod x) then remove_node_inner n else Ret (Some ENatural)
    | RErr e => Ret (Some e)
    | _ => Ret (Some ENatural)
    end).

(* SetNode: bypass (None = keep), memory capacity request (amount, delta?), label.
   Local state of the transaction: origin = the capacity before the change. *)
Definition set_node (n : name) (bypass : option bool) (mem : option (Z * bool)) (label : option nat) : cprog oerr :=
  with_node_pod_locked n (fun x =>
    e <- doc (PGetInfo n) ;;
    match e with
    | Some e => Ret (Some e)
    | None =>
      let x' := mkNode (n_name x) (n_pod x) (match bypass with Some b => b | None => n_bypass x end) (n_avail x)
                       (match label with Some l => l | None => n_label x end) in
      r <- txn_s (@None res)
          (fun s =>
             match mem with
             | None => Ret (s, None)
             | Some (m, delta) =>
               r <- call1 (PSetCapacity n (Some m) delta) ;;
               match r with
               | RInfo cap _ => Ret (Some cap, None)
               | RErr e => Ret (s, Some e)
               | _ => Ret (s, Some ENatural)
               end
             end)
          (Some (fun s =>
                 e <- doc (SUpdateNode x') ;;
                 match e with
                 | Some e => Ret (s, Some e)
                 | None => ign (doc (PGetInfo n)) ;;; Ret (s, None)
                 end))
          (Some (fun (s : option res) (by_cond : bool) =>
             if by_cond then rok
             else match mem, s with
                  | Some _, Some cap => doc (PRestoreCapacity n cap)
                  | _, _ => rok
                  end)) ;;
      Ret (snd r)
    end).
