(* Calcium/OpsProofs.v — specifications of the transaction blocks of the orchestration
   scripts, for EVERY world and EVERY position k of the single injected fault
   (crunk p w (Some k): the k-th call from here fails before executing; None: no fault).
   Each spec says: the block reports success and the world changed by exactly the
   intended effect, or it reports failure and the world is what it was. *)
From Coq Require Import List Bool Arith ZArith Lia Permutation.
From Verif Require Import Base.Effects Calcium.World Calcium.Ops Calcium.EffectsProofs.
Import ListNotations.
Local Open Scope Z_scope.

Lemma radd_rsub : forall u r, radd (rsub u r) r = u.
Proof. intros [a b] [c d]. unfold radd, rsub; simpl. f_equal; lia. Qed.
Lemma rsub_radd : forall u r, rsub (radd u r) r = u.
Proof. intros [a b] [c d]. unfold radd, rsub; simpl. f_equal; lia. Qed.

Lemma upd_plug_add_sub : forall n r l, upd_plug n (add_use r) (upd_plug n (sub_use r) l) = l.
Proof.
  intros n r l. unfold upd_plug. rewrite map_map. rewrite <- (map_id l) at 2.
  apply map_ext. intros [m c u]. simpl. destruct (Nat.eqb m n) eqn:E; simpl.
  - rewrite E. unfold add_use, sub_use; simpl. rewrite radd_rsub. reflexivity.
  - rewrite E. reflexivity.
Qed.

Lemma find_plug_upd : forall n f l m,
  (forall x, p_node (f x) = p_node x) ->
  find (fun x => Nat.eqb (p_node x) m) (upd_plug n f l) =
  option_map (fun x => if Nat.eqb (p_node x) n then f x else x) (find (fun x => Nat.eqb (p_node x) m) l).
Proof.
  intros n f l m Hf. induction l as [|x t IH]; simpl; [reflexivity|].
  destruct (Nat.eqb (p_node x) n) eqn:E.
  - rewrite Hf. destruct (Nat.eqb (p_node x) m); simpl; [rewrite E; reflexivity|apply IH].
  - destruct (Nat.eqb (p_node x) m); simpl; [rewrite E; reflexivity|apply IH].
Qed.

Lemma filter_true : forall A (f : A -> bool) l, (forall x, In x l -> f x = true) -> filter f l = l.
Proof.
  induction l as [|x t IH]; intros H; simpl; [reflexivity|].
  rewrite (H x (or_introl eq_refl)). f_equal. apply IH. intros; apply H; right; auto.
Qed.

Definition ids (l : list wl) := map w_id l.

Lemma wid_eqb_eq : forall a b, wid_eqb a b = true <-> a = b.
Proof.
  intros [a1 a2 a3] [b1 b2 b3]. unfold wid_eqb; simpl.
  rewrite !andb_true_iff, !Nat.eqb_eq. split; [intros [[? ?] ?]; subst; reflexivity| intros E; inversion E; auto].
Qed.
Lemma wid_eqb_refl : forall a, wid_eqb a a = true.
Proof. intros; apply wid_eqb_eq; reflexivity. Qed.

Lemma find_wl_in : forall l id x, find (fun y => wid_eqb (w_id y) id) l = Some x -> In x l /\ w_id x = id.
Proof.
  intros l id x H. apply find_some in H. destruct H as [H1 H2]. split; auto. apply wid_eqb_eq; auto.
Qed.

Lemma del_add_perm : forall l x, NoDup (ids l) -> find (fun y => wid_eqb (w_id y) (w_id x)) l = Some x ->
  Permutation (del_wl (w_id x) l ++ [x]) l.
Proof.
  induction l as [|y t IH]; intros x Hnd Hf; simpl in *; [discriminate|].
  inversion Hnd as [|? ? Hn Hnd']; subst.
  destruct (wid_eqb (w_id y) (w_id x)) eqn:E; simpl.
  - inversion Hf; subst y. 
    assert (del_wl (w_id x) t = t) as ->.
    { unfold del_wl. apply filter_true. intros z Hz.
      destruct (wid_eqb (w_id z) (w_id x)) eqn:E2; auto. apply wid_eqb_eq in E2.
      exfalso. apply Hn. unfold ids. rewrite <- E2. apply in_map; auto. }
    rewrite Permutation_app_comm. simpl. reflexivity.
  - apply perm_skip. apply IH; auto.
Qed.


Lemma radd_0_r : forall r, radd r rzero = r.
Proof. intros [a b]. unfold radd, rzero; simpl. f_equal; lia. Qed.

Lemma find_del_none : forall l id, find (fun y => wid_eqb (w_id y) id) (del_wl id l) = None.
Proof.
  induction l as [|y t IH]; intros id; simpl; [reflexivity|].
  destruct (wid_eqb (w_id y) id) eqn:E; simpl; [apply IH|rewrite E; apply IH].
Qed.

Ltac norm := repeat (progress cbn [bind err_of fst snd rsum is_ok rok fail_reply runk is_faultable]).
Ltac kcase k := destruct k as [[|k]|]; norm.
Ltac ncase k := destruct k as [|k]; norm.
Ltac look := unfold find_wl, find_plug, find_cont, find_node; cbn [w_id w_node w_pod w_res wls plugs conts nodes pods markers walq wal_seq out strict_remove script
                  set_plugs set_wls set_conts set_nodes set_markers set_wal set_out set_pods].

Definition oth (w : world) (l : list wl) (p : list plug) (c : list cont) : world :=
  mkWorld (pods w) (nodes w) l (markers w) p c (walq w) (wal_seq w) (out w) (strict_remove w) (script w).

Lemma oth_same : forall w, w = oth w (wls w) (plugs w) (conts w).
Proof. destruct w; reflexivity. Qed.


Lemma del_cont_none : forall l id, find (fun y => wid_eqb (c_id y) id) l = None -> del_cont id l = l.
Proof.
  intros l id H. unfold del_cont. apply filter_true. intros z Hz.
  destruct (wid_eqb (c_id z) id) eqn:E; auto.
  exfalso. eapply find_none in H; eauto. simpl in H. congruence.
Qed.

Lemma eremove_ok : forall w id force, (force = true \/ strict_remove w = false) ->
  exec w (ERemove id force) = (set_conts w (del_cont id (conts w)), ROk).
Proof.
  intros w id force H. cbn [exec]. unfold find_cont.
  destruct (find (fun x => wid_eqb (c_id x) id) (conts w)) eqn:E.
  - destruct H as [->| ->]; [rewrite andb_false_r|]; reflexivity.
  - rewrite del_cont_none by exact E. destruct w; reflexivity.
Qed.
Lemma remove_txn_spec : forall n x force w k p,
  NoDup (ids (wls w)) ->
  find_wl w (w_id x) = Some x -> find_plug w n = Some p -> (force = true \/ strict_remove w = false) ->
  exists w' k' r, crunk (remove_txn n x force) w k = (w', k', r) /\
  (r = None -> w' = oth w (del_wl (w_id x) (wls w)) (upd_plug n (sub_use (w_res x)) (plugs w)) (del_cont (w_id x) (conts w))) /\
  (r <> None -> exists l, w' = oth w l (plugs w) (conts w) /\ Permutation l (wls w)).
Proof.
  intros n x force w k p Hnd Hx Hp Hforce.
  unfold find_wl in Hx. unfold find_plug in Hp.
  unfold remove_txn, do_remove_workload, txn, doc, call1, crunk. norm.
  kcase k.
  - (* PSetUsage fails *)
    do 3 eexists. split; [reflexivity|]. split; [discriminate|]. intros _. exists (wls w). split; [apply oth_same|reflexivity].
  - cbn [exec]. look. rewrite Hp. norm. rewrite radd_0_r.
    ncase k.
    + (* SRemoveWorkload fails: usage is given back *)
      cbn [exec]. look. rewrite find_plug_upd by reflexivity. rewrite Hp. cbn [option_map]. norm. rewrite radd_0_r.
      do 3 eexists. split; [reflexivity|]. split; [discriminate|]. intros _. exists (wls w). split; [|reflexivity].
      look. rewrite upd_plug_add_sub. destruct w; reflexivity.
    + cbn [exec]. look. norm.
      ncase k.
      * (* ERemove fails: record re-added, usage given back *)
        cbn [exec]. look. rewrite find_del_none. norm. cbn [exec]. look.
        rewrite find_plug_upd by reflexivity. rewrite Hp. cbn [option_map]. norm. rewrite radd_0_r.
        do 3 eexists. split; [reflexivity|]. split; [discriminate|]. intros _. eexists. split.
        -- look. rewrite upd_plug_add_sub. destruct w; reflexivity.
        -- apply del_add_perm; auto.
      * rewrite eremove_ok by (look; exact Hforce). norm.
        do 3 eexists. split; [reflexivity|]. split; [|congruence]. intros _. look. reflexivity.
  - cbn [exec]. look. rewrite Hp. norm. rewrite radd_0_r. cbn [exec]. look. norm.
    rewrite eremove_ok by (look; exact Hforce). norm.
    do 3 eexists. split; [reflexivity|]. split; [|congruence]. intros _. look. reflexivity.
Qed.


Lemma dissociate_txn_spec : forall n x w k p,
  find_wl w (w_id x) = Some x -> find_plug w n = Some p ->
  exists w' k' r, crunk (dissociate_txn n x) w k = (w', k', r) /\
  (r = None -> w' = oth w (del_wl (w_id x) (wls w)) (upd_plug n (sub_use (w_res x)) (plugs w)) (conts w)) /\
  (r <> None -> w' = w).
Proof.
  intros n x w k p Hx Hp.
  unfold find_wl in Hx. unfold find_plug in Hp.
  unfold dissociate_txn, txn, doc, call1, crunk. norm.
  kcase k.
  - do 3 eexists. split; [reflexivity|]. split; [discriminate|]. reflexivity.
  - cbn [exec]. look. rewrite Hp. norm. rewrite radd_0_r.
    ncase k.
    + cbn [exec]. look. rewrite find_plug_upd by reflexivity. rewrite Hp. cbn [option_map]. norm. rewrite radd_0_r.
      do 3 eexists. split; [reflexivity|]. split; [discriminate|]. intros _.
      look. rewrite upd_plug_add_sub. destruct w; reflexivity.
    + cbn [exec]. look. norm.
      do 3 eexists. split; [reflexivity|]. split; [|congruence]. intros _. look. reflexivity.
  - cbn [exec]. look. rewrite Hp. norm. rewrite radd_0_r. cbn [exec]. look. norm.
    do 3 eexists. split; [reflexivity|]. split; [|congruence]. intros _. look. reflexivity.
Qed.

Lemma upd_plug_sub_add : forall n r l, upd_plug n (sub_use r) (upd_plug n (add_use r) l) = l.
Proof.
  intros n r l. unfold upd_plug. rewrite map_map. rewrite <- (map_id l) at 2.
  apply map_ext. intros [m c u]. simpl. destruct (Nat.eqb m n) eqn:E; simpl.
  - rewrite E. unfold add_use, sub_use; simpl. rewrite rsub_radd. reflexivity.
  - rewrite E. reflexivity.
Qed.

Lemma find_wl_upd : forall x' l id,
  find (fun y => wid_eqb (w_id y) id) (upd_wl x' l) =
  option_map (fun y => if wid_eqb (w_id y) (w_id x') then x' else y) (find (fun y => wid_eqb (w_id y) id) l).
Proof.
  intros x' l id. induction l as [|y t IH]; simpl; [reflexivity|].
  destruct (wid_eqb (w_id y) (w_id x')) eqn:E.
  - pose proof E as E'. apply wid_eqb_eq in E'.
    replace (wid_eqb (w_id x') id) with (wid_eqb (w_id y) id) by (rewrite E'; reflexivity).
    destruct (wid_eqb (w_id y) id); simpl; [rewrite E; reflexivity|apply IH].
  - destruct (wid_eqb (w_id y) id); simpl; [rewrite E; reflexivity|apply IH].
Qed.

Lemma upd_wl_back : forall l x x', NoDup (ids l) -> find (fun y => wid_eqb (w_id y) (w_id x)) l = Some x -> w_id x' = w_id x ->
  upd_wl x (upd_wl x' l) = l.
Proof.
  intros l x x' Hnd Hf Hid. unfold upd_wl. rewrite map_map. rewrite <- (map_id l) at 2.
  apply map_ext_in. intros y Hy. rewrite Hid.
  destruct (wid_eqb (w_id y) (w_id x)) eqn:E.
  - rewrite Hid, wid_eqb_refl. apply wid_eqb_eq in E.
    apply find_wl_in in Hf. destruct Hf as [Hin _].
    (* two records with the same id in a NoDup list are equal *)
    clear - Hnd Hy Hin E. induction l as [|z t IH]; [destruct Hy|].
    inversion Hnd as [|? ? Hn Hnd']; subst. simpl in *.
    destruct Hy as [->|Hy]; destruct Hin as [->|Hin]; auto.
    + exfalso. apply Hn. unfold ids. rewrite E. apply in_map; auto.
    + exfalso. apply Hn. unfold ids. rewrite <- E. apply in_map; auto.
  - rewrite E. reflexivity.
Qed.

Lemma do_realloc_spec : forall x req w k p c,
  NoDup (ids (wls w)) ->
  find_wl w (w_id x) = Some x -> find_plug w (w_node x) = Some p -> find_cont w (w_id x) = Some c ->
  exists w' k' r, crunk (do_realloc x x req) w k = (w', k', r) /\
  (r = None -> w' = oth w (upd_wl (mkWl (w_id x) (w_node x) (w_pod x) (radd (w_res x) req)) (wls w))
                          (upd_plug (w_node x) (add_use req) (plugs w)) (conts w)) /\
  (r <> None -> w' = w).
Proof.
  intros x req w k p c Hnd Hx Hp Hc.
  unfold find_wl in Hx. unfold find_plug in Hp. unfold find_cont in Hc.
  unfold do_realloc, txn_s, ign, doc, call1, crunk. norm.
  kcase k.
  - do 3 eexists. split; [reflexivity|]. split; [discriminate|]. reflexivity.
  - cbn [exec]. look. rewrite Hp.
    destruct ((fst (radd (w_res x) req) <? 0) || (snd (radd (w_res x) req) <? 0)) eqn:Eneg; norm.
    { do 3 eexists. split; [reflexivity|]. split; [discriminate|]. reflexivity. }
    destruct (fits (sub_use (w_res x) p) 1 (radd (w_res x) req)) eqn:Efit; norm.
    2:{ do 3 eexists. split; [reflexivity|]. split; [discriminate|]. reflexivity. }
    ncase k.
    + (* UpdateWorkload fails: the delta is given back *)
      cbn [exec]. look. rewrite find_plug_upd by reflexivity. rewrite Hp. cbn [option_map]. norm.
      do 3 eexists. split; [reflexivity|]. split; [discriminate|]. intros _.
      look. rewrite upd_plug_sub_add. destruct w; reflexivity.
    + cbn [exec]. look. rewrite Hx. norm.
      ncase k.
      * (* engine update fails: delta back, record restored *)
        cbn [exec]. look. rewrite find_plug_upd by reflexivity. rewrite Hp. cbn [option_map]. norm.
        cbn [exec]. look. rewrite find_wl_upd. rewrite Hx. cbn [option_map]. norm.
        do 3 eexists. split; [reflexivity|]. split; [discriminate|]. intros _.
        look. rewrite upd_plug_sub_add. rewrite upd_wl_back by (auto). destruct w; reflexivity.
      * cbn [exec]. look. rewrite Hc. norm.
        do 3 eexists. split; [reflexivity|]. split; [|congruence]. intros _. look. reflexivity.
  - cbn [exec]. look. rewrite Hp.
    destruct ((fst (radd (w_res x) req) <? 0) || (snd (radd (w_res x) req) <? 0)) eqn:Eneg; norm.
    { do 3 eexists. split; [reflexivity|]. split; [discriminate|]. reflexivity. }
    destruct (fits (sub_use (w_res x) p) 1 (radd (w_res x) req)) eqn:Efit; norm.
    2:{ do 3 eexists. split; [reflexivity|]. split; [discriminate|]. reflexivity. }
    cbn [exec]. look. rewrite Hx. norm. cbn [exec]. look. rewrite Hc. norm.
    do 3 eexists. split; [reflexivity|]. split; [|congruence]. intros _. look. reflexivity.
Qed.
