(* C22: all interleavings of all TRIPLES of operations over a stated universe
   (about a minute of vm_compute; larger universes - 6 operation instances on W2 and W3, 5 on W1 and W2 - were explored outside the build with the same result): every bad quiescent end contains one of three
   named windows - the two pair windows and the stale-RemoveNode window that
   only three operations can open. *)
From Coq Require Import List Bool String Arith.
From Verif Require Import Calcium.Refs Calcium.RefsProofs.
Import ListNotations.
Local Open Scope string_scope.

Definition t_ops : list rop :=
  [ORemovePod "p"; OAddNode "n" "p"; ORemoveNode "n"; OCreate "n" "x"].
Definition t_worlds : list rw := [W2].

Definition verdict3 (w : rw) (tr : list ev) : bool :=
  ref_ok w || window_addnode_removepod tr || window_create_removenode tr || window_stale_removenode tr.

Definition check_triples : bool :=
  forallb (fun w => forallb (fun a => forallb (fun b => forallb (fun c =>
     explore 64 verdict3 w (mk_threads [(a, None); (b, None); (c, None)]) []) t_ops) t_ops) t_ops) t_worlds.
Lemma check_triples_ok : check_triples = true.
Proof. vm_compute. reflexivity. Qed.

Theorem triples_partial : forall w a b c sched w' ts' tr',
  In w t_worlds -> In a t_ops -> In b t_ops -> In c t_ops ->
  run_sched w (mk_threads [(a, None); (b, None); (c, None)]) sched [] = (w', ts', tr') ->
  (forallb finished ts' = true \/ enabled_steps w' ts' <> []) /\
  (forallb finished ts' = true ->
   ref_ok w' = true \/ window_addnode_removepod tr' = true \/ window_create_removenode tr' = true
   \/ window_stale_removenode tr' = true).
Proof.
  intros w a b c sched w' ts' tr' Hw Ha Hb Hc R.
  assert (E : explore 64 verdict3 w (mk_threads [(a, None); (b, None); (c, None)]) [] = true).
  { pose proof check_triples_ok as C. unfold check_triples in C.
    pose proof (forallb_In _ _ _ C Hw) as C1. cbv beta in C1.
    pose proof (forallb_In _ _ _ C1 Ha) as C2. cbv beta in C2.
    pose proof (forallb_In _ _ _ C2 Hb) as C3. cbv beta in C3.
    exact (forallb_In _ _ _ C3 Hc). }
  split; [exact (explore_no_deadlock _ _ _ _ _ E _ _ _ _ R)|].
  intros F. pose proof (explore_sound _ _ _ _ _ E _ _ _ _ R F) as V. unfold verdict3 in V.
  apply orb_true_iff in V. destruct V as [V|V]; [|right; right; right; exact V].
  apply orb_true_iff in V. destruct V as [V|V]; [|right; right; left; exact V].
  apply orb_true_iff in V. destruct V as [V|V]; [left; exact V | right; left; exact V].
Qed.
