(* Calcium/DeployProofs.v — the per-instance transaction of a deployment (doDeployOneWorkload)
   for a fresh id, EVERY world and EVERY fault position: success = the workload is recorded and
   its container running; failure = no record and no container are left (markers and WAL aside);
   and the per-node instance loop by induction over the instances. *)
From Coq Require Import List Bool Arith ZArith Lia Permutation.
From Verif Require Import Base.Effects Calcium.World Calcium.Ops Calcium.EffectsProofs Calcium.OpsProofs Calcium.OpsProofs2 Calcium.InvProofs.
Import ListNotations.
Local Open Scope Z_scope.

Lemma find_wl_none_notin : forall l id, find (fun y => wid_eqb (w_id y) id) l = None -> ~ In id (ids l).
Proof.
  intros l id H Hin. unfold ids in Hin. apply in_map_iff in Hin. destruct Hin as [y [Hy Hin]].
  eapply find_none in H; eauto. simpl in H. rewrite Hy, wid_eqb_refl in H. discriminate.
Qed.
Lemma del_wl_app_new : forall l x, find (fun y => wid_eqb (w_id y) (w_id x)) l = None -> del_wl (w_id x) (l ++ [x]) = l.
Proof.
  intros l x H. unfold del_wl. rewrite filter_app. simpl. rewrite wid_eqb_refl. simpl. rewrite app_nil_r.
  apply (del_wl_notin l (w_id x)). apply find_wl_none_notin; auto.
Qed.
Lemma find_cont_app_new : forall l id st, find (fun y => wid_eqb (c_id y) id) l = None ->
  find (fun y => wid_eqb (c_id y) id) (l ++ [mkCont id st]) = Some (mkCont id st).
Proof.
  induction l as [|y t IH]; intros id st H; simpl in *.
  - rewrite wid_eqb_refl. reflexivity.
  - destruct (wid_eqb (c_id y) id); [discriminate|]. apply IH; auto.
Qed.
Lemma cont_notin : forall l id, find (fun y => wid_eqb (c_id y) id) l = None -> forall z, In z l -> wid_eqb (c_id z) id = false.
Proof.
  intros l id H z Hz. eapply find_none in H; eauto.
Qed.
Lemma del_cont_app_new : forall l id st, find (fun y => wid_eqb (c_id y) id) l = None -> del_cont id (l ++ [mkCont id st]) = l.
Proof.
  intros l id st H. unfold del_cont. rewrite filter_app. simpl. rewrite wid_eqb_refl. simpl. rewrite app_nil_r.
  apply filter_true. intros z Hz. rewrite (cont_notin l id H z Hz). reflexivity.
Qed.
Lemma upd_cont_app_new : forall l id st st', find (fun y => wid_eqb (c_id y) id) l = None ->
  upd_cont id st' (l ++ [mkCont id st]) = l ++ [mkCont id st'].
Proof.
  intros l id st st' H. unfold upd_cont. rewrite map_app. simpl. rewrite wid_eqb_refl. f_equal.
  rewrite <- (map_id l) at 2. apply map_ext_in. intros z Hz. rewrite (cont_notin l id H z Hz). reflexivity.
Qed.

(* everything but markers and the WAL *)
Definition core_eq (w' w : world) (l : list wl) (c : list cont) : Prop :=
  pods w' = pods w /\ nodes w' = nodes w /\ plugs w' = plugs w /\ out w' = out w /\
  strict_remove w' = strict_remove w /\ script w' = script w /\ wls w' = l /\ conts w' = c.

(* doDeployOneWorkload for a fresh id: success = recorded and running; failure = no record, no container *)
Lemma deploy_one_spec : forall x decr w k,
  find_wl w (w_id x) = None -> find_cont w (w_id x) = None ->
  exists w' k' r, crunk (deploy_one x decr) w k = (w', k', r) /\
  (r = None -> core_eq w' w (wls w ++ [x]) (conts w ++ [mkCont (w_id x) CRunning])) /\
  (r <> None -> core_eq w' w (wls w) (conts w) /\ k' = None).
Proof.
  intros x decr w k Hx Hc. unfold find_wl in Hx. unfold find_cont in Hc.
  unfold deploy_one, txn_s, ign, skip, doc, call1, crunk. norm.
  assert (Hsame : core_eq w w (wls w) (conts w)) by (repeat split).
  pose proof (find_wl_none_notin _ _ Hx) as Hnotin.
  Ltac fin_fail Hx Hc Hnotin :=
    do 3 eexists; split; [reflexivity|]; split; [discriminate|]; intros _; split; [|reflexivity]; look;
    rewrite ?del_cont_app_new by exact Hc; rewrite ?del_wl_app_new by exact Hx;
    rewrite ?(del_wl_notin _ _ Hnotin); repeat split.
  Ltac fin_ok := do 3 eexists; split; [reflexivity|]; split; [|congruence]; intros _; look; repeat split.
  (* the rollback: remove the record and the container *)
  Ltac rb Hc := cbn [exec]; look; norm; cbn [exec]; look; rewrite ?find_cont_app_new by exact Hc; rewrite ?andb_false_r; norm.
  kcase k.
  - do 3 eexists. split; [reflexivity|]. split; [discriminate|]. intros _. split; [exact Hsame|reflexivity].
  - cbn [exec]. look. norm.
    ncase k.
    + (* WAL log fails: the created container is removed *)
      rb Hc. fin_fail Hx Hc Hnotin.
    + cbn [exec]. look. norm.
      ncase k.
      * (* AddWorkload fails *)
        rb Hc. cbn [exec]. look. norm. fin_fail Hx Hc Hnotin.
      * cbn [exec]. look. rewrite Hx.
        destruct decr as [ident|]; norm.
        -- ncase k.
           ++ rb Hc. cbn [exec]. look. norm. fin_fail Hx Hc Hnotin.
           ++ cbn [exec]. look. rewrite find_cont_app_new by exact Hc. norm. rewrite upd_cont_app_new by exact Hc.
              ncase k.
              ** rb Hc. cbn [exec]. look. norm. fin_fail Hx Hc Hnotin.
              ** cbn [exec]. look. rewrite find_cont_app_new by exact Hc. norm.
                 ncase k; cbn [exec]; look; norm; fin_ok.
        -- ncase k.
           ++ rb Hc. cbn [exec]. look. norm. fin_fail Hx Hc Hnotin.
           ++ cbn [exec]. look. rewrite find_cont_app_new by exact Hc. norm. rewrite upd_cont_app_new by exact Hc.
              ncase k.
              ** rb Hc. cbn [exec]. look. norm. fin_fail Hx Hc Hnotin.
              ** cbn [exec]. look. rewrite find_cont_app_new by exact Hc. norm.
                 ncase k; cbn [exec]; look; norm; fin_ok.
  - cbn [exec]. look. norm. cbn [exec]. look. norm. cbn [exec]. look. rewrite Hx.
    destruct decr as [ident|]; norm;
      cbn [exec]; look; rewrite find_cont_app_new by exact Hc; norm; rewrite upd_cont_app_new by exact Hc;
      cbn [exec]; look; rewrite find_cont_app_new by exact Hc; norm; cbn [exec]; look; norm; fin_ok.
Qed.

(* everything but markers, the WAL and the output channel *)
Definition core3 (w' w : world) (l : list wl) (c : list cont) : Prop :=
  pods w' = pods w /\ nodes w' = nodes w /\ plugs w' = plugs w /\
  strict_remove w' = strict_remove w /\ script w' = script w /\ wls w' = l /\ conts w' = c.

Lemma core_eq_core3 : forall w' w l c, core_eq w' w l c -> core3 w' w l c.
Proof. unfold core_eq, core3. tauto. Qed.

Lemma send_core : forall m w k, exists w', crunk (send m) w k = (w', k, tt) /\ core3 w' w (wls w) (conts w) /\ out w' = m :: out w.
Proof.
  intros m w k. unfold send, ign, doc, call1, crunk. norm. cbn [exec].
  eexists. split; [reflexivity|]. split; [repeat split|reflexivity].
Qed.

Definition inst (opi : nat) (pod n : name) (r : res) (i : nat) : wl := mkWl (mkWid opi n i) n pod r.
Definition instc (opi : nat) (n : name) (i : nat) : cont := mkCont (mkWid opi n i) CRunning.
Definition fresh (w : world) (opi : nat) (n : name) (i : nat) : Prop :=
  find_wl w (mkWid opi n i) = None /\ find_cont w (mkWid opi n i) = None.

Lemma wid_neq : forall opi n i j, i <> j -> wid_eqb (mkWid opi n j) (mkWid opi n i) = false.
Proof.
  intros. unfold wid_eqb; simpl. rewrite !Nat.eqb_refl. simpl. apply Nat.eqb_neq. auto.
Qed.

Lemma find_wl_app_other : forall l x id, wid_eqb (w_id x) id = false ->
  find (fun y => wid_eqb (w_id y) id) (l ++ [x]) = find (fun y => wid_eqb (w_id y) id) l.
Proof.
  induction l as [|y t IH]; intros x id H; simpl.
  - rewrite H. reflexivity.
  - destruct (wid_eqb (w_id y) id); auto.
Qed.
Lemma find_cont_app_other : forall l c id, wid_eqb (c_id c) id = false ->
  find (fun y => wid_eqb (c_id y) id) (l ++ [c]) = find (fun y => wid_eqb (c_id y) id) l.
Proof.
  induction l as [|y t IH]; intros c id H; simpl.
  - rewrite H. reflexivity.
  - destruct (wid_eqb (c_id y) id); auto.
Qed.

(* once the fault has fired (or there is none) the budget stays empty *)
Lemma crunk_none_stays : forall A (p : cprog A) w, snd (fst (crunk p w None)) = None.
Proof.
  unfold crunk. induction p as [a|c q IH]; intros w; simpl; [reflexivity|].
  destruct (exec w c) as [w' r]. destruct (is_faultable c); apply IH.
Qed.
Lemma crunk_none_k : forall A (p : cprog A) w w' k' a, crunk p w None = (w', k', a) -> k' = None.
Proof. intros A p w w' k' a H. pose proof (crunk_none_stays A p w) as E. rewrite H in E. exact E. Qed.

(* the successful instances, in order: those indices of idxs that are not in the failed list *)
Definition succ_of (idxs failed : list nat) : list nat := filter (fun i => negb (existsb (Nat.eqb i) failed)) idxs.

Lemma succ_of_failed_head : forall i rest failed, ~ In i rest -> succ_of (i :: rest) (i :: failed) = succ_of rest failed.
Proof.
  intros i rest failed Hni. unfold succ_of. simpl. rewrite Nat.eqb_refl. simpl.
  apply filter_ext_in. intros j Hj.
  assert (Nat.eqb j i = false) as -> by (apply Nat.eqb_neq; intro; subst; auto). reflexivity.
Qed.
Lemma succ_of_ok_head : forall i rest failed, existsb (Nat.eqb i) failed = false -> succ_of (i :: rest) failed = i :: succ_of rest failed.
Proof. intros i rest failed H. unfold succ_of. simpl. rewrite H. reflexivity. Qed.

(* C12 for the instance loop of one node, every world, every fault position:
   one message per instance, in order; exactly the successful instances are recorded and running;
   the failed ones leave neither record nor container; the returned indices are the failed ones *)
Lemma deploy_loop_spec : forall opi pod n r idxs w k,
  NoDup idxs -> (forall i, In i idxs -> fresh w opi n i) ->
  exists w' k' failed ms, crunk (deploy_loop opi pod n r idxs) w k = (w', k', (failed, ms)) /\
    incl failed idxs /\ failed = filter (fun i => existsb (Nat.eqb i) failed) idxs /\
    (failed <> [] -> k' = None) /\
    ms = map (fun i => if existsb (Nat.eqb i) failed then MCreateFail n else MCreateOk (mkWid opi n i) r) idxs /\
    out w' = rev ms ++ out w /\
    core3 w' w (wls w ++ map (inst opi pod n r) (succ_of idxs failed))
               (conts w ++ map (instc opi n) (succ_of idxs failed)).
Proof.
  intros opi pod n r idxs. induction idxs as [|i rest IH]; intros w k Hnd Hfresh.
  - unfold crunk. simpl. do 4 eexists. split; [reflexivity|]. split; [intros ? []|]. split; [reflexivity|]. split; [congruence|]. split; [reflexivity|]. split; [reflexivity|].
    simpl. rewrite !app_nil_r. repeat split.
  - inversion Hnd as [|? ? Hni Hnd']; subst.
    cbn [deploy_loop]. rewrite crunk_bind.
    destruct (Hfresh i (or_introl eq_refl)) as [Hx Hc].
    destruct (deploy_one_spec (inst opi pod n r i) (Some opi) w k Hx Hc) as [w1 [k1 [e [H1 [Hok Hfail]]]]].
    unfold inst in H1. rewrite H1. rewrite crunk_bind.
    destruct (send_core (if is_ok e then MCreateOk (mkWid opi n i) r else MCreateFail n) w1 k1) as [w2 [H2 [Hs Hout2]]].
    rewrite H2. rewrite crunk_bind.
    (* the rest of the instances are still fresh *)
    assert (Hfresh2 : forall j, In j rest -> fresh w2 opi n j).
    { intros j Hj. assert (Hij : i <> j) by (intro; subst; auto).
      destruct (Hfresh j (or_intror Hj)) as [Hxj Hcj]. unfold fresh, find_wl, find_cont in *.
      destruct Hs as [_ [_ [_ [_ [_ [Hw2 Hc2]]]]]]. rewrite Hw2, Hc2.
      destruct e as [err|].
      - destruct (Hfail ltac:(discriminate)) as [[_ [_ [_ [_ [_ [_ [Hw1 Hc1]]]]]]] _]. rewrite Hw1, Hc1. auto.
      - destruct (Hok eq_refl) as [_ [_ [_ [_ [_ [_ [Hw1 Hc1]]]]]]]. rewrite Hw1, Hc1.
        rewrite find_wl_app_other by (apply wid_neq; auto).
        rewrite find_cont_app_other by (apply wid_neq; auto). auto. }
    destruct (IH w2 k1 Hnd' Hfresh2) as [w3 [k3 [failed [ms [H3 [Hincl [Hsub [Hkn [Hms [Hout3 Hcore]]]]]]]]]].
    rewrite H3. unfold crunk. cbn [runk].
    assert (Hnotin : existsb (Nat.eqb i) failed = false).
    { destruct (existsb (Nat.eqb i) failed) eqn:E; auto. apply existsb_exists in E. destruct E as [j [Hj E]].
      apply Nat.eqb_eq in E. subst j. exfalso. apply Hni. apply Hincl. exact Hj. }
    assert (Hmap : forall f g : nat -> msg, (forall j, In j rest -> f j = g j) -> map f rest = map g rest).
    { intros. apply map_ext_in. auto. }
    destruct Hs as [Hp2 [Hn2 [Hpl2 [Hst2 [Hsc2 [Hw2 Hc2]]]]]].
    destruct Hcore as [Hp3 [Hn3 [Hpl3 [Hst3 [Hsc3 [Hw3 Hc3]]]]]].
    destruct e as [err|]; cbn [is_ok fst snd].
    + (* this instance failed *)
      destruct (Hfail ltac:(discriminate)) as [[Hp1 [Hn1 [Hpl1 [Ho1 [Hst1 [Hsc1 [Hw1 Hc1]]]]]]] Hk1].
      exists w3, k3, (i :: failed), (MCreateFail n :: ms). split; [reflexivity|].
      split; [intros j [<-|Hj]; [left; reflexivity|right; apply Hincl; exact Hj]|].
      split.
      { cbn [filter existsb]. rewrite Nat.eqb_refl. cbn [orb]. f_equal. rewrite Hsub at 1. apply filter_ext_in. intros j Hj.
        assert (Nat.eqb j i = false) as -> by (apply Nat.eqb_neq; intro; subst; auto). reflexivity. }
      split.
      { intros _. subst k1. apply crunk_none_k in H3. exact H3. }
      split; [|split].
      * cbn [map existsb]. rewrite Nat.eqb_refl. cbn [orb]. f_equal. rewrite Hms. apply map_ext_in. intros j Hj.
        assert (Nat.eqb j i = false) as -> by (apply Nat.eqb_neq; intro; subst; auto). reflexivity.
      * cbn [rev]. rewrite Hout3, Hout2, Ho1, <- app_assoc. reflexivity.
      * rewrite succ_of_failed_head by exact Hni.
        unfold core3. rewrite Hp3, Hn3, Hpl3, Hst3, Hsc3, Hw3, Hc3, Hp2, Hn2, Hpl2, Hst2, Hsc2, Hw2, Hc2, Hp1, Hn1, Hpl1, Hst1, Hsc1, Hw1, Hc1.
        repeat split.
    + (* this instance succeeded *)
      destruct (Hok eq_refl) as [Hp1 [Hn1 [Hpl1 [Ho1 [Hst1 [Hsc1 [Hw1 Hc1]]]]]]].
      exists w3, k3, failed, (MCreateOk (mkWid opi n i) r :: ms). split; [reflexivity|].
      split; [intros j Hj; right; apply Hincl; exact Hj|].
      split.
      { cbn [filter]. rewrite Hnotin. exact Hsub. }
      split; [exact Hkn|].
      split; [|split].
      * cbn [map]. rewrite Hnotin. f_equal. exact Hms.
      * cbn [rev]. rewrite Hout3, Hout2, Ho1, <- app_assoc. reflexivity.
      * rewrite succ_of_ok_head by exact Hnotin. cbn [map].
        unfold core3. rewrite Hp3, Hn3, Hpl3, Hst3, Hsc3, Hw3, Hc3, Hp2, Hn2, Hpl2, Hst2, Hsc2, Hw2, Hc2, Hp1, Hn1, Hpl1, Hst1, Hsc1, Hw1, Hc1.
        cbn [inst instc w_id]. rewrite <- !app_assoc. repeat split.
Qed.
