(* Calcium/Interleave.v — two operations interleaved at call granularity.

   [run2 sched p1 k1 p2 k2 w]: the schedule (a list of booleans) says which of the two operations performs its next
   call; each operation has its own fault position ([k1], [k2]: at most one fault per operation); when the schedule
   is used up, p1 runs to its end and then p2.  [run2 [] ...] is the sequential history "p1, then p2".

   interleave_is_sequential: if the calls of p1 lie in a class P1 and those of p2 in a class P2 (as long as the world
   satisfies an invariant I that all these calls maintain), and every P1 call commutes with every P2 call (same
   world, same replies, whichever goes first), then EVERY interleaving gives exactly the result of the sequential
   history, and the two sequential orders agree (sequential_orders_agree). *)
From Coq Require Import List Bool Arith ZArith Lia.
From Verif Require Import Base.Effects Calcium.World Calcium.Ops.
Import ListNotations.

Definition step1 (c : call) (w : world) (k : option nat) : world * reply * option nat :=
  if is_faultable c then
    match k with
    | Some O => (w, fail_reply c, None)
    | Some (S j) => let (w', r) := exec w c in (w', r, Some j)
    | None => let (w', r) := exec w c in (w', r, None)
    end
  else let (w', r) := exec w c in (w', r, k).

Lemma crunk_step : forall A c (q : reply -> cprog A) w k,
  crunk (Do c q) w k = let '(w', r, k') := step1 c w k in crunk (q r) w' k'.
Proof.
  intros. unfold crunk, step1. cbn [runk]. destruct (is_faultable c).
  - destruct k as [[|j]|]; [reflexivity| |]; destruct (exec w c); reflexivity.
  - destruct (exec w c); reflexivity.
Qed.

Fixpoint run2 {A B} (sched : list bool) (p1 : cprog A) (k1 : option nat) (p2 : cprog B) (k2 : option nat) (w : world)
  : world * A * B :=
  match sched with
  | [] => let '(w1, _, a) := crunk p1 w k1 in let '(w2, _, b) := crunk p2 w1 k2 in (w2, a, b)
  | true :: s =>
    match p1 with
    | Ret _ => run2 s p1 k1 p2 k2 w
    | Do c q => let '(w', r, k1') := step1 c w k1 in run2 s (q r) k1' p2 k2 w'
    end
  | false :: s =>
    match p2 with
    | Ret _ => run2 s p1 k1 p2 k2 w
    | Do c q => let '(w', r, k2') := step1 c w k2 in run2 s p1 k1 (q r) k2' w'
    end
  end.

(* every call the program makes is in P, for every reply a world satisfying I can give (and the injected failure) *)
Inductive safe {A} (P : call -> Prop) (I : world -> Prop) : cprog A -> Prop :=
| safe_ret : forall a, safe P I (Ret a)
| safe_do : forall c q, P c ->
    (forall w, I w -> safe P I (q (snd (exec w c)))) ->
    (is_faultable c = true -> safe P I (q (fail_reply c))) ->
    safe P I (Do c q).

Section Commute.
  Variables (P1 P2 : call -> Prop) (I : world -> Prop).
  Hypothesis stable1 : forall c w, P1 c -> I w -> I (fst (exec w c)).
  Hypothesis stable2 : forall c w, P2 c -> I w -> I (fst (exec w c)).
  (* whichever goes first: the same world and the same replies *)
  Hypothesis indep : forall c1 c2 w, P1 c1 -> P2 c2 -> I w ->
    fst (exec (fst (exec w c1)) c2) = fst (exec (fst (exec w c2)) c1) /\
    snd (exec (fst (exec w c1)) c2) = snd (exec w c2) /\
    snd (exec (fst (exec w c2)) c1) = snd (exec w c1).

  Lemma step1_I1 : forall c w k, P1 c -> I w -> I (fst (fst (step1 c w k))).
  Proof.
    intros c w k Hc HI. unfold step1. pose proof (stable1 c w Hc HI) as H.
    destruct (is_faultable c); [destruct k as [[|j]|]|]; try exact HI; destruct (exec w c); exact H.
  Qed.
  Lemma step1_I2 : forall c w k, P2 c -> I w -> I (fst (fst (step1 c w k))).
  Proof.
    intros c w k Hc HI. unfold step1. pose proof (stable2 c w Hc HI) as H.
    destruct (is_faultable c); [destruct k as [[|j]|]|]; try exact HI; destruct (exec w c); exact H.
  Qed.

  (* two single steps commute *)
  Lemma step_comm : forall c1 c2 w k1 k2, P1 c1 -> P2 c2 -> I w ->
    let '(wa, r2, k2') := step1 c2 w k2 in
    let '(wab, r1, k1') := step1 c1 wa k1 in
    exists wb, step1 c1 w k1 = (wb, r1, k1') /\ step1 c2 wb k2 = (wab, r2, k2').
  Proof.
    intros c1 c2 w k1 k2 H1 H2 HI. destruct (indep c1 c2 w H1 H2 HI) as [Hw [Hr2 Hr1]].
    unfold step1.
    destruct (exec w c1) as [w1 r1] eqn:E1. destruct (exec w c2) as [w2 r2] eqn:E2. simpl in *.
    destruct (exec w1 c2) as [w12 r2'] eqn:E12. destruct (exec w2 c1) as [w21 r1'] eqn:E21. simpl in *. subst.
    destruct (is_faultable c2), (is_faultable c1);
      repeat match goal with
             | k : option nat |- _ => destruct k as [[|?]|]
             end;
      repeat (rewrite ?E1, ?E2, ?E12, ?E21; simpl); eexists; split; try reflexivity;
      repeat (rewrite ?E1, ?E2, ?E12, ?E21; simpl); reflexivity.
  Qed.

  (* a step of the second operation can be moved behind a whole run of the first *)
  Lemma hoist : forall A (p1 : cprog A), safe P1 I p1 -> forall c2 w k1 k2, P2 c2 -> I w ->
    let '(wa, r2, k2') := step1 c2 w k2 in
    let '(wab, k1', a) := crunk p1 wa k1 in
    exists wb, crunk p1 w k1 = (wb, k1', a) /\ step1 c2 wb k2 = (wab, r2, k2') /\ I wb.
  Proof.
    intros A p1 Hs. induction Hs as [a|c1 q Hc1 Hq IHq Hf IHf]; intros c2 w k1 k2 Hc2 HI.
    - destruct (step1 c2 w k2) as [[wa r2] k2'] eqn:E. unfold crunk. cbn [runk]. exists w. auto.
    - pose proof (step_comm c1 c2 w k1 k2 Hc1 Hc2 HI) as Hsc.
      destruct (step1 c2 w k2) as [[wa r2] k2'] eqn:E2.
      rewrite crunk_step.
      destruct (step1 c1 wa k1) as [[wab r1] k1'] eqn:E1.
      destruct Hsc as [wb [Hb1 Hb2]].
      assert (HIb : I wb). { pose proof (step1_I1 c1 w k1 Hc1 HI) as H. rewrite Hb1 in H. exact H. }
      (* the continuation of p1 after its first call *)
      assert (Hcont : forall c2' w' k1'' k2'', P2 c2' -> I w' ->
                let '(wa0, r20, k20) := step1 c2' w' k2'' in
                let '(wab0, k10, a0) := crunk (q r1) wa0 k1'' in
                exists wb0, crunk (q r1) w' k1'' = (wb0, k10, a0) /\ step1 c2' wb0 k2'' = (wab0, r20, k20) /\ I wb0).
      { (* r1 is either the reply of c1 in world w or the injected failure *)
        unfold step1 in Hb1. destruct (is_faultable c1) eqn:Ef.
        - destruct k1 as [[|j]|].
          + inversion Hb1; subst. apply IHf. reflexivity.
          + destruct (exec w c1) as [w1 r] eqn:E. inversion Hb1; subst.
            replace r1 with (snd (exec w c1)) by (rewrite E; reflexivity). apply IHq. exact HI.
          + destruct (exec w c1) as [w1 r] eqn:E. inversion Hb1; subst.
            replace r1 with (snd (exec w c1)) by (rewrite E; reflexivity). apply IHq. exact HI.
        - destruct (exec w c1) as [w1 r] eqn:E. inversion Hb1; subst.
          replace r1 with (snd (exec w c1)) by (rewrite E; reflexivity). apply IHq. exact HI. }
      specialize (Hcont c2 wb k1' k2 Hc2 HIb). rewrite Hb2 in Hcont.
      destruct (crunk (q r1) wab k1') as [[wfin kfin] a] eqn:Ec.
      destruct Hcont as [wb0 [H1 [H2 H3]]].
      exists wb0. split; [|split; assumption].
      rewrite crunk_step. rewrite Hb1. exact H1.
  Qed.

  Lemma safe_after_step : forall A c (q : reply -> cprog A) (P : call -> Prop) w k,
    safe P I (Do c q) -> I w -> safe P I (q (snd (fst (step1 c w k)))).
  Proof.
    intros A c q P w k Hs HI. remember (Do c q) as p eqn:Ep. destruct Hs as [a|c' q' Hc Hq Hf]; [discriminate|].
    inversion Ep; subst c' q'. clear Ep.
    unfold step1. destruct (is_faultable c) eqn:Ef.
    - destruct k as [[|j]|].
      + apply Hf. reflexivity.
      + specialize (Hq w HI). destruct (exec w c); exact Hq.
      + specialize (Hq w HI). destruct (exec w c); exact Hq.
    - specialize (Hq w HI). destruct (exec w c); exact Hq.
  Qed.

  Theorem interleave_is_sequential : forall A B sched (p1 : cprog A) (p2 : cprog B) k1 k2 w,
    I w -> safe P1 I p1 -> safe P2 I p2 ->
    run2 sched p1 k1 p2 k2 w = run2 [] p1 k1 p2 k2 w.
  Proof.
    intros A B sched. induction sched as [|b s IH]; intros p1 p2 k1 k2 w HI H1 H2; [reflexivity|].
    destruct b; cbn [run2].
    - destruct p1 as [a|c q]; [apply IH; assumption|].
      pose proof (safe_after_step A c q P1 w k1 H1 HI) as Hs.
      assert (Hc : P1 c). { remember (Do c q) as p eqn:Ep. destruct H1; [discriminate|]. inversion Ep; subst; assumption. }
      pose proof (step1_I1 c w k1 Hc HI) as HI'.
      rewrite crunk_step. destruct (step1 c w k1) as [[w' r] k1']. cbn [fst snd] in *.
      rewrite IH by assumption. reflexivity.
    - destruct p2 as [b|c q]; [apply IH; assumption|].
      pose proof (safe_after_step B c q P2 w k2 H2 HI) as Hs.
      assert (Hc : P2 c). { remember (Do c q) as p eqn:Ep. destruct H2; [discriminate|]. inversion Ep; subst; assumption. }
      pose proof (step1_I2 c w k2 Hc HI) as HI'.
      pose proof (hoist A p1 H1 c w k1 k2 Hc HI) as Hh.
      destruct (step1 c w k2) as [[w' r] k2'] eqn:E2. cbn [fst snd] in *.
      rewrite IH by assumption. cbn [run2].
      destruct (crunk p1 w' k1) as [[wab k1'] a] eqn:E1.
      destruct Hh as [wb [Hb1 [Hb2 _]]]. rewrite Hb1. cbn beta iota. rewrite crunk_step. rewrite Hb2. reflexivity.
  Qed.
End Commute.

(* the two sequential orders agree: the operations commute *)
Theorem sequential_orders_agree : forall (P1 P2 : call -> Prop) (I : world -> Prop),
  (forall c w, P1 c -> I w -> I (fst (exec w c))) ->
  (forall c w, P2 c -> I w -> I (fst (exec w c))) ->
  (forall c1 c2 w, P1 c1 -> P2 c2 -> I w ->
    fst (exec (fst (exec w c1)) c2) = fst (exec (fst (exec w c2)) c1) /\
    snd (exec (fst (exec w c1)) c2) = snd (exec w c2) /\
    snd (exec (fst (exec w c2)) c1) = snd (exec w c1)) ->
  forall A B (p2 : cprog B), safe P2 I p2 -> forall (p1 : cprog A) k1 k2 w, I w -> safe P1 I p1 ->
  run2 [] p1 k1 p2 k2 w = (let '(w', b, a) := run2 [] p2 k2 p1 k1 w in (w', a, b)).
Proof.
  intros P1 P2 I St1 St2 Ind A B p2 H2. induction H2 as [b|c q Hc Hq IHq Hf IHf]; intros p1 k1 k2 w HI H1.
  - cbn [run2]. unfold crunk at 2 3. cbn [runk]. destruct (crunk p1 w k1) as [[w1 k1'] a]. reflexivity.
  - cbn [run2].
    pose proof (hoist P1 P2 I St1 Ind A p1 H1 c w k1 k2 Hc HI) as Hh.
    rewrite (crunk_step B c q w k2).
    destruct (step1 c w k2) as [[w' r] k2'] eqn:E2.
    assert (HI' : I w'). { pose proof (step1_I2 P2 I St2 c w k2 Hc HI) as H. rewrite E2 in H. exact H. }
    assert (Hs : safe P2 I (q r) /\ (forall p1' k1' k2'' w'', I w'' -> safe P1 I p1' ->
               run2 [] p1' k1' (q r) k2'' w'' = (let '(w0, b, a) := run2 [] (q r) k2'' p1' k1' w'' in ((w0, a, b) : world * A * B)))).
    { unfold step1 in E2. destruct (is_faultable c) eqn:Ef.
      - destruct k2 as [[|j]|].
        + inversion E2; subst. split; [apply Hf; reflexivity|apply IHf; reflexivity].
        + destruct (exec w c) as [w1 r0] eqn:E. inversion E2; subst.
          replace r with (snd (exec w c)) by (rewrite E; reflexivity). split; [apply Hq; exact HI|apply IHq; exact HI].
        + destruct (exec w c) as [w1 r0] eqn:E. inversion E2; subst.
          replace r with (snd (exec w c)) by (rewrite E; reflexivity). split; [apply Hq; exact HI|apply IHq; exact HI].
      - destruct (exec w c) as [w1 r0] eqn:E. inversion E2; subst.
        replace r with (snd (exec w c)) by (rewrite E; reflexivity). split; [apply Hq; exact HI|apply IHq; exact HI]. }
    destruct Hs as [Hsafe Hrec].
    specialize (Hrec p1 k1 k2' w' HI' H1). cbn [run2] in Hrec.
    destruct (crunk p1 w' k1) as [[wab k1'] a] eqn:E1.
    destruct Hh as [wb [Hb1 [Hb2 _]]]. rewrite Hb1. cbn beta iota. rewrite crunk_step. rewrite Hb2.
    exact Hrec.
Qed.
