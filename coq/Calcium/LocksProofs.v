(* Proofs for C20: every thread of every operation follows the global lock
   order, is well nested, touches node-operation keys only alone; hence no set
   of concurrently running operations can deadlock on locks (Base/LockOrder). *)
From Coq Require Import List Bool String Ascii Arith Lia NArith.
From Verif Require Import Base.LockOrder Base.LockOrderProofs Calcium.Locks.
Import ListNotations.
Local Open Scope string_scope.
Local Open Scope list_scope.

(* ---------- the order on strings (Go's bytewise comparison) ---------- *)
Lemma ascii_compare_refl : forall a, Ascii.compare a a = Eq.
Proof. intros. unfold Ascii.compare. apply N.compare_refl. Qed.

Lemma ascii_compare_lt_trans : forall a b c,
  Ascii.compare a b = Lt -> Ascii.compare b c = Lt -> Ascii.compare a c = Lt.
Proof.
  unfold Ascii.compare. intros a b c H1 H2. rewrite N.compare_lt_iff in *. eapply N.lt_trans; eauto.
Qed.

Lemma str_compare_refl : forall s, String.compare s s = Eq.
Proof. induction s; simpl; [reflexivity | rewrite ascii_compare_refl; exact IHs]. Qed.

Lemma str_compare_lt_trans : forall s1 s2 s3,
  String.compare s1 s2 = Lt -> String.compare s2 s3 = Lt -> String.compare s1 s3 = Lt.
Proof.
  induction s1 as [|a s1 IH]; intros [|b s2] [|c s3]; simpl; try congruence.
  destruct (Ascii.compare a b) eqn:E1; try discriminate;
  destruct (Ascii.compare b c) eqn:E2; try discriminate; intros H1 H2.
  - apply Ascii.compare_eq_iff in E1. apply Ascii.compare_eq_iff in E2. subst.
    rewrite ascii_compare_refl. eapply IH; eauto.
  - apply Ascii.compare_eq_iff in E1. subst. rewrite E2. reflexivity.
  - apply Ascii.compare_eq_iff in E2. subst. rewrite E1. reflexivity.
  - rewrite (ascii_compare_lt_trans _ _ _ E1 E2). reflexivity.
Qed.

Lemma str_ltb_irrefl : forall s, String.ltb s s = false.
Proof. intros. unfold String.ltb. rewrite str_compare_refl. reflexivity. Qed.

Lemma str_ltb_trans : forall a b c, String.ltb a b = true -> String.ltb b c = true -> String.ltb a c = true.
Proof.
  unfold String.ltb. intros a b c H1 H2.
  destruct (String.compare a b) eqn:E1; try discriminate.
  destruct (String.compare b c) eqn:E2; try discriminate.
  rewrite (str_compare_lt_trans _ _ _ E1 E2). reflexivity.
Qed.

Lemma str_trichotomy : forall a b, String.eqb a b = false -> String.ltb a b = false -> String.ltb b a = true.
Proof.
  intros a b He Hl. unfold String.ltb in *. rewrite String.compare_antisym.
  destruct (String.compare a b) eqn:E; simpl; try reflexivity; try discriminate.
  apply String.compare_eq_iff in E. subst. rewrite String.eqb_refl in He. discriminate.
Qed.

(* ---------- the key order ---------- *)
Lemma key_eqb_spec : forall a b, key_eqb a b = true <-> a = b.
Proof. intros. unfold key_eqb. apply String.eqb_eq. Qed.

Lemma key_ltb_irrefl : forall a, key_ltb a a = false.
Proof.
  intros. unfold key_ltb. rewrite Nat.ltb_irrefl, Nat.eqb_refl, str_ltb_irrefl. reflexivity.
Qed.

Lemma key_ltb_trans : forall a b c, key_ltb a b = true -> key_ltb b c = true -> key_ltb a c = true.
Proof.
  unfold key_ltb. intros a b c H1 H2.
  apply orb_true_iff in H1. apply orb_true_iff in H2. apply orb_true_iff.
  destruct H1 as [H1|H1], H2 as [H2|H2].
  - left. apply Nat.ltb_lt in H1, H2. apply Nat.ltb_lt. lia.
  - apply andb_true_iff in H2. destruct H2 as [H2 _]. apply Nat.eqb_eq in H2.
    left. rewrite <- H2. exact H1.
  - apply andb_true_iff in H1. destruct H1 as [H1 _]. apply Nat.eqb_eq in H1.
    left. rewrite H1. exact H2.
  - apply andb_true_iff in H1. apply andb_true_iff in H2. destruct H1 as [H1 L1], H2 as [H2 L2].
    right. apply Nat.eqb_eq in H1, H2. apply andb_true_iff. split.
    + apply Nat.eqb_eq. congruence.
    + eapply str_ltb_trans; eauto.
Qed.

Lemma prefix_nil : forall s, prefix "" s = true.
Proof. destruct s; reflexivity. Qed.
Lemma prefix_app : forall s t, prefix s (s ++ t)%string = true.
Proof.
  induction s as [|a s IH]; intros t; simpl; [apply prefix_nil|].
  destruct (ascii_dec a a); [apply IH | congruence].
Qed.

Lemma class_pod : forall p, class (pod_key p) = 0.
Proof. intros. unfold class, pod_key. rewrite prefix_app. reflexivity. Qed.
Lemma class_wl : forall i, class (wl_key i) = 1.
Proof.
  intros. unfold class, wl_key.
  replace (prefix "plock_" ("clock_" ++ i)%string) with false by reflexivity.
  rewrite prefix_app. reflexivity.
Qed.
Lemma class_nodeop : forall p n, class (nodeop_key p n) = 2.
Proof.
  intros. unfold class, nodeop_key.
  replace (prefix "plock_" ("cnode_op_" ++ p ++ "_" ++ n)%string) with false by reflexivity.
  replace (prefix "clock_" ("cnode_op_" ++ p ++ "_" ++ n)%string) with false by reflexivity.
  rewrite prefix_app. reflexivity.
Qed.

Definition lowP (k : key) : bool := Nat.ltb (class k) 2.
Definition knownP (k : key) : bool := Nat.ltb (class k) 3.
Ltac kp := intros; unfold knownP, lowP;
  rewrite ?class_pod, ?class_wl, ?class_nodeop; reflexivity.
Ltac cls := intros; unfold gen_pod, gen_nodeop;
  rewrite ?class_pod, ?class_wl, ?class_nodeop; reflexivity.

(* ---------- sort_uniq yields a strictly increasing list ---------- *)
Inductive incr : list string -> Prop :=
| incr_nil : incr []
| incr_cons x l : (forall y, In y l -> String.ltb x y = true) -> incr l -> incr (x :: l).

Lemma insert_uniq_in : forall x l y, In y (insert_uniq x l) -> y = x \/ In y l.
Proof.
  intros x l. induction l as [|z t IH]; simpl; intros y Hy.
  - destruct Hy as [Hy|[]]. left. auto.
  - destruct (String.eqb x z) eqn:E; [right; exact Hy|].
    destruct (String.ltb x z) eqn:L.
    + destruct Hy as [Hy|Hy]; [left; auto | right; exact Hy].
    + destruct Hy as [Hy|Hy]; [right; left; exact Hy|].
      destruct (IH _ Hy) as [H|H]; [left; exact H | right; right; exact H].
Qed.

Lemma in_insert_uniq : forall x l y, (y = x \/ In y l) -> In y (insert_uniq x l).
Proof.
  intros x l. induction l as [|z t IH]; simpl; intros y Hy.
  - destruct Hy as [Hy|[]]. left. auto.
  - destruct (String.eqb x z) eqn:E.
    + apply String.eqb_eq in E. subst. destruct Hy as [Hy|Hy]; [left; auto | exact Hy].
    + destruct (String.ltb x z) eqn:L.
      * destruct Hy as [Hy|Hy]; [left; auto | right; exact Hy].
      * destruct Hy as [Hy|[Hy|Hy]].
        -- right. apply IH. left. exact Hy.
        -- left. exact Hy.
        -- right. apply IH. right. exact Hy.
Qed.

Lemma insert_uniq_incr : forall x l, incr l -> incr (insert_uniq x l).
Proof.
  intros x l H. induction H as [|z t Hz Ht IH]; simpl.
  - constructor; [intros y []|constructor].
  - destruct (String.eqb x z) eqn:E; [constructor; assumption|].
    destruct (String.ltb x z) eqn:L.
    + constructor; [|constructor; assumption].
      intros y [Hy|Hy]; [subst; exact L | eapply str_ltb_trans; [exact L | apply Hz; exact Hy]].
    + constructor; [|exact IH].
      intros y Hy. apply insert_uniq_in in Hy. destruct Hy as [Hy|Hy].
      * subst. apply str_trichotomy; assumption.
      * apply Hz. exact Hy.
Qed.

Lemma sort_uniq_incr : forall l, incr (sort_uniq l).
Proof. induction l; simpl; [constructor | apply insert_uniq_incr; exact IHl]. Qed.

Lemma sort_uniq_in : forall l y, In y (sort_uniq l) <-> In y l.
Proof.
  induction l as [|x t IH]; simpl; intros y; [tauto|]. split.
  - intros H. apply insert_uniq_in in H. destruct H as [H|H]; [left; auto | right; apply IH; exact H].
  - intros H. apply in_insert_uniq. destruct H as [H|H]; [left; auto | right; apply IH; exact H].
Qed.

(* ---------- predicates on computations ---------- *)
Notation srun := (strict_run key_eqb key_ltb).

Definition key_of (e : lev) : key := match e with Acq k | AcqFail k | Rel k => k end.
Definition all_class_lt (c : nat) (h : list key) : Prop := forall x, In x h -> class x < c.

(* [m] can run whenever every held key has class < c; it ends with the same held set *)
Definition good_under (c : nat) (m : M) : Prop :=
  forall fl n h, all_class_lt c h -> srun h (r_evs (m fl n)) = Some h.
(* every key touched satisfies P *)
Definition keys_sat (P : key -> bool) (m : M) : Prop :=
  forall fl n, forallb (fun e => P (key_of e)) (r_evs (m fl n)) = true.

Lemma srun_app : forall e1 e2 h,
  srun h (e1 ++ e2) = match srun h e1 with Some h1 => srun h1 e2 | None => None end.
Proof.
  induction e1 as [|e t IH]; intros e2 h; simpl; [reflexivity|].
  destruct e; simpl.
  - destruct (above key_ltb h k); [apply IH | reflexivity].
  - destruct (above key_ltb h k); [apply IH | reflexivity].
  - destruct h as [|x h']; [reflexivity|]. destruct (key_eqb k x); [apply IH | reflexivity].
Qed.

Lemma good_mono : forall c c' m, c' <= c -> good_under c m -> good_under c' m.
Proof. intros c c' m Hle H fl n h Hh. apply H. intros x Hx. specialize (Hh x Hx). lia. Qed.

Lemma good_ret : forall c b, good_under c (ret b).
Proof. intros c b fl n h _. reflexivity. Qed.
Lemma good_spawn : forall c nd, good_under c (spawn_remap nd).
Proof. intros c nd fl n h _. reflexivity. Qed.

Lemma good_bind_ign : forall c a b, good_under c a -> good_under c b -> good_under c (bind_ign a b).
Proof.
  intros c a b Ha Hb fl n h Hh. unfold bind_ign. simpl. rewrite srun_app, (Ha fl n h Hh). apply Hb. exact Hh.
Qed.

Lemma good_bind_err : forall c a b, good_under c a -> good_under c b -> good_under c (bind_err a b).
Proof.
  intros c a b Ha Hb fl n h Hh. unfold bind_err.
  destruct (r_err (a fl n)); [apply Ha; exact Hh|].
  simpl. rewrite srun_app, (Ha fl n h Hh). apply Hb. exact Hh.
Qed.

Lemma good_seq_all : forall c ms, (forall m, In m ms -> good_under c m) -> good_under c (seq_all ms).
Proof.
  induction ms as [|m t IH]; intros H; simpl; [apply good_ret|].
  apply good_bind_ign; [apply H; left; reflexivity | apply IH; intros; apply H; right; assumption].
Qed.

Lemma srun_release : forall acq h0, srun (acq ++ h0) (map Rel acq) = Some h0.
Proof.
  induction acq as [|k t IH]; intros h0; simpl; [reflexivity|].
  unfold key_eqb. rewrite String.eqb_refl. apply IH.
Qed.

(* keys of one class, strictly increasing, locked on top of lower-class keys *)
Lemma good_with_keys_from : forall c keys acq body,
  incr keys -> (forall k, In k keys -> class k = c) ->
  good_under (S c) body ->
  forall fl n h0,
    all_class_lt c h0 ->
    (forall a, In a acq -> class a = c /\ forall k, In k keys -> String.ltb a k = true) ->
    srun (acq ++ h0) (r_evs (with_keys_from keys acq body fl n)) = Some h0.
Proof.
  intros c keys. induction keys as [|k ks IH]; intros acq body Hincr Hcls Hbody fl n h0 Hh0 Hacq; simpl.
  - rewrite srun_app. rewrite Hbody.
    + apply srun_release.
    + intros x Hx. apply in_app_or in Hx. destruct Hx as [Hx|Hx].
      * destruct (Hacq x Hx) as [E _]. lia.
      * specialize (Hh0 x Hx). lia.
  - assert (Hab : above key_ltb (acq ++ h0) k = true).
    { unfold above. apply forallb_forall. intros x Hx. unfold key_ltb.
      apply in_app_or in Hx. destruct Hx as [Hx|Hx].
      - destruct (Hacq x Hx) as [E L]. rewrite E, (Hcls k (or_introl eq_refl)), Nat.eqb_refl.
        rewrite (L k (or_introl eq_refl)). apply orb_true_r.
      - specialize (Hh0 x Hx). rewrite (Hcls k (or_introl eq_refl)).
        apply orb_true_iff. left. apply Nat.ltb_lt. exact Hh0. }
    inversion Hincr as [|? ? Hk Hks]; subst.
    destruct (fl k n); simpl; rewrite Hab.
    + apply srun_release.
    + change (k :: acq ++ h0) with ((k :: acq) ++ h0). apply IH; auto.
      * intros k' Hk'. apply Hcls. right. exact Hk'.
      * intros a [Ha|Ha].
        -- subst a. split; [apply Hcls; left; reflexivity | exact Hk].
        -- destruct (Hacq a Ha) as [E L]. split; [exact E | intros k' Hk'; apply L; right; exact Hk'].
Qed.

Lemma good_with_keys : forall c keys body,
  incr keys -> (forall k, In k keys -> class k = c) ->
  good_under (S c) body -> good_under c (with_keys keys body).
Proof.
  intros c keys body Hi Hc Hb fl n h Hh. unfold with_keys.
  change h with ([] ++ h) at 1. eapply good_with_keys_from; eauto. intros a [].
Qed.

Lemma sort_uniq_map_class : forall {A} (gen : A -> key) c (l : list A),
  (forall a, class (gen a) = c) -> forall k, In k (sort_uniq (map gen l)) -> class k = c.
Proof.
  intros A gen c l H k Hk. apply (proj1 (sort_uniq_in _ _)) in Hk. apply in_map_iff in Hk.
  destruct Hk as [a [E _]]. subst. apply H.
Qed.

Lemma good_with_nodes_locked : forall s f gen c body,
  (forall n, class (gen n) = c) -> (forall ns, good_under (S c) (body ns)) ->
  good_under c (with_nodes_locked s f gen body).
Proof.
  intros s f gen c body Hg Hb. unfold with_nodes_locked.
  destruct (filter_nodes s f) as [ns|]; [|apply good_ret].
  apply good_with_keys; [apply sort_uniq_incr | apply sort_uniq_map_class; exact Hg | apply Hb].
Qed.

Lemma good_with_node_pod_locked : forall s name body,
  good_under 1 body -> good_under 0 (with_node_pod_locked s name body).
Proof.
  intros. unfold with_node_pod_locked, with_nodes_pod_locked.
  apply good_with_nodes_locked with (c := 0); [cls|].
  intros ns. destruct (has_node name ns); [assumption | apply good_ret].
Qed.

Lemma good_with_workloads_locked : forall s gone ign ids body,
  good_under 2 body -> good_under 1 (with_workloads_locked s gone ign ids body).
Proof.
  intros s gone ign ids body Hb. unfold with_workloads_locked.
  destruct (existsb _ _); [apply good_ret|].
  destruct (get_all _ _); [|apply good_ret].
  destruct ign; [eapply good_mono; [|exact Hb]; lia|].
  apply good_with_keys with (c := 1); [| |exact Hb].
  - (* map wl_key preserves strict increase *)
    generalize (sort_uniq_incr ids). generalize (sort_uniq ids). intros l0 Hl.
    induction Hl as [|x t Hx Ht IH]; simpl; constructor; [|exact IH].
    intros y Hy. apply in_map_iff in Hy. destruct Hy as [z [E Hz]]. subst y.
    specialize (Hx z Hz). unfold wl_key. unfold String.ltb in *. simpl. exact Hx.
  - intros k Hk. apply in_map_iff in Hk. destruct Hk as [z [E _]]. subst. apply class_wl.
Qed.

Lemma good_each_workload : forall s ids gone, good_under 1 (each_workload s gone ids).
Proof.
  intros s ids. induction ids as [|i t IH]; intros gone fl n h Hh; simpl; [reflexivity|].
  rewrite srun_app.
  assert (G : good_under 1 (with_workload_locked s gone false i (ret false))).
  { apply good_with_workloads_locked. apply good_ret. }
  rewrite (G fl n h Hh). apply IH. exact Hh.
Qed.

Lemma good_remap_thread : forall s name, good_under 0 (remap_thread s name).
Proof.
  intros. unfold remap_thread, with_node_op_locked, with_nodes_op_locked.
  eapply good_mono with (c := 2); [lia|].
  apply good_with_nodes_locked with (c := 2); [cls|].
  intros ns. destruct (has_node name ns); apply good_ret.
Qed.

Lemma good_remove_on_node : forall s nd ids, good_under 0 (remove_on_node s nd ids).
Proof.
  intros. unfold remove_on_node. apply good_with_node_pod_locked.
  apply good_bind_ign; [apply good_each_workload | apply good_spawn].
Qed.

Lemma good_with_wl_then_remap : forall s i b, good_under 0 (with_wl_then_remap s i b).
Proof.
  intros. unfold with_wl_then_remap, with_workload_locked. eapply good_mono with (c := 1); [lia|].
  apply good_with_workloads_locked. destruct b; [|apply good_ret].
  destruct (get_wl s i); [apply good_spawn | apply good_ret].
Qed.

Lemma good_replace_threads : forall s ids succ m, In m (replace_threads s ids succ) -> good_under 0 m.
Proof.
  intros s ids. induction ids as [|i t IH]; intros succ m Hm; simpl in Hm; [destruct Hm|].
  destruct Hm as [Hm|Hm]; [subst; apply good_with_wl_then_remap | eapply IH; exact Hm].
Qed.

Lemma good_wl_single : forall s ign id, good_under 0 (with_workload_locked s [] ign id (ret false)).
Proof.
  intros. unfold with_workload_locked. eapply good_mono with (c := 1); [lia|].
  apply good_with_workloads_locked. apply good_ret.
Qed.

Definition is_wl_helper (o : op) : bool := match o with OHelperWorkloads _ _ _ => true | _ => false end.

Theorem op_main_good : forall s o m, is_wl_helper o = false -> In m (op_main s o) -> good_under 0 m.
Proof.
  intros s o m Hh Hm. destruct o; simpl in Hm; try discriminate Hh.
  - (* create *)
    destruct Hm as [Hm|[]]. subst m. apply good_bind_err.
    + apply good_with_nodes_locked with (c := 0); [cls | intros; apply good_ret].
    + apply good_bind_ign; apply good_seq_all; intros m Hm; apply in_map_iff in Hm;
        destruct Hm as [x [E _]]; subst m; [apply good_spawn|].
      apply good_with_node_pod_locked. apply good_ret.
  - destruct Hm as [Hm|[]]. subst m.
    apply good_with_nodes_locked with (c := 0); [cls | intros; apply good_ret].
  - destruct Hm as [Hm|[]]. subst m.
    apply good_with_nodes_locked with (c := 0); [cls | intros; apply good_ret].
  - destruct (group_by_node s order); [|destruct Hm].
    apply in_map_iff in Hm. destruct Hm as [g [E _]]. subst m. apply good_remove_on_node.
  - destruct (group_by_node s order); [|destruct Hm].
    destruct Hm as [Hm|[]]. subst m. apply good_seq_all. intros m Hm.
    apply in_map_iff in Hm. destruct Hm as [g [E _]]. subst m. apply good_remove_on_node.
  - destruct (get_wl s id); [|destruct Hm]. destruct Hm as [Hm|[]]. subst m.
    apply good_with_node_pod_locked. apply good_with_workloads_locked.
    destruct succeeded; [apply good_spawn | apply good_ret].
  - eapply good_replace_threads. exact Hm.
  - apply in_map_iff in Hm. destruct Hm as [i [E _]]. subst m. apply good_wl_single.
  - apply in_map_iff in Hm. destruct Hm as [i [E _]]. subst m. apply good_wl_single.
  - destruct Hm as [Hm|[]]. subst m. apply good_wl_single.
  - destruct Hm as [Hm|[]]. subst m. apply good_with_node_pod_locked.
    destruct updated; [apply good_spawn | apply good_ret].
  - destruct Hm as [Hm|[]]. subst m. apply good_with_node_pod_locked. apply good_ret.
  - destruct Hm as [Hm|[]]. subst m. apply good_with_node_pod_locked. apply good_ret.
  - apply in_map_iff in Hm. destruct Hm as [nd [E _]]. subst m.
    apply good_with_node_pod_locked. apply good_ret.
  - destruct Hm as [Hm|[]]. subst m. apply good_remap_thread.
  - destruct Hm as [Hm|[]]. subst m. destruct node_op.
    + eapply good_mono with (c := 2); [lia|].
      apply good_with_nodes_locked with (c := 2); [cls | intros; apply good_ret].
    + apply good_with_nodes_locked with (c := 0); [cls | intros; apply good_ret].
Qed.

(* ---------- the multi-id workload helper with its release-order oracle ---------- *)
Notation orun := (ord_run key_eqb key_ltb).

Lemma key_eqb_refl : forall k, key_eqb k k = true.
Proof. intros. unfold key_eqb. apply String.eqb_refl. Qed.

Lemma memb_app_l : forall k a b, memb key_eqb k a = true -> memb key_eqb k (a ++ b) = true.
Proof. intros k a b H. unfold memb in *. rewrite existsb_app, H. reflexivity. Qed.

Lemma removeb_app_in : forall k a b, memb key_eqb k a = true ->
  removeb key_eqb k (a ++ b) = removeb key_eqb k a ++ b.
Proof.
  intros k a b. induction a as [|x t IH]; intros H; [discriminate|]. cbn in *.
  destruct (key_eqb k x); [reflexivity|]. cbn in H. cbn. f_equal. apply IH. exact H.
Qed.

Lemma ord_release : forall orc acq h0, is_perm orc acq = true -> orun (acq ++ h0) (map Rel orc) = Some h0.
Proof.
  induction orc as [|k t IH]; intros acq h0 H; cbn in *.
  - destruct acq; [reflexivity | discriminate].
  - apply andb_true_iff in H. destruct H as [Hm Hp].
    rewrite (memb_app_l _ _ _ Hm), (removeb_app_in _ _ _ Hm). apply IH. exact Hp.
Qed.

Lemma is_perm_refl : forall l, is_perm l l = true.
Proof. induction l as [|k t IH]; [reflexivity|]. cbn. rewrite key_eqb_refl. cbn. exact IH. Qed.

Lemma release_order_perm : forall orc acq, is_perm (release_order orc acq) acq = true.
Proof. intros. unfold release_order. destruct (is_perm orc acq) eqn:E; [exact E | apply is_perm_refl]. Qed.

Lemma ord_with_keys_o : forall c keys orc acq err fl n h0,
  incr keys -> (forall k, In k keys -> class k = c) -> all_class_lt c h0 ->
  (forall a, In a acq -> class a = c /\ forall k, In k keys -> String.ltb a k = true) ->
  orun (acq ++ h0) (r_evs (with_keys_from_o orc keys acq err fl n)) = Some h0.
Proof.
  intros c keys. induction keys as [|k ks IH]; intros orc acq err fl n h0 Hincr Hcls Hh0 Hacq; cbn.
  - apply ord_release. apply is_perm_refl.
  - assert (Hab : above key_ltb (acq ++ h0) k = true).
    { unfold above. apply forallb_forall. intros x Hx. unfold key_ltb.
      apply in_app_or in Hx. destruct Hx as [Hx|Hx].
      - destruct (Hacq x Hx) as [E L]. rewrite E, (Hcls k (or_introl eq_refl)), Nat.eqb_refl.
        rewrite (L k (or_introl eq_refl)). apply orb_true_r.
      - specialize (Hh0 x Hx). rewrite (Hcls k (or_introl eq_refl)).
        apply orb_true_iff. left. apply Nat.ltb_lt. exact Hh0. }
    inversion Hincr as [|? ? Hk Hks]; subst.
    destruct (fl k n); cbn; rewrite Hab.
    + apply ord_release. apply release_order_perm.
    + change (k :: acq ++ h0) with ((k :: acq) ++ h0). apply IH; auto.
      * intros k' Hk'. apply Hcls. right. exact Hk'.
      * intros a [Ha|Ha].
        -- subst a. split; [apply Hcls; left; reflexivity | exact Hk].
        -- destruct (Hacq a Ha) as [E L]. split; [exact E | intros k' Hk'; apply L; right; exact Hk'].
Qed.

Lemma incr_map_wl_key : forall l, incr l -> incr (map wl_key l).
Proof.
  intros l Hl. induction Hl as [|x t Hx Ht IH]; simpl; constructor; [|exact IH].
  intros y Hy. apply in_map_iff in Hy. destruct Hy as [z [E Hz]]. subst y.
  specialize (Hx z Hz). unfold wl_key. unfold String.ltb in *. simpl. exact Hx.
Qed.

Theorem helper_wl_ordered : forall s ign ids rel fl n,
  orun [] (r_evs (with_workloads_helper s ign ids rel fl n)) = Some [].
Proof.
  intros. unfold with_workloads_helper. destruct (get_all _ _); [|reflexivity].
  destruct ign; [reflexivity|].
  change (@nil key) with (@nil key ++ @nil key) at 1.
  apply ord_with_keys_o with (c := 1).
  - apply incr_map_wl_key. apply sort_uniq_incr.
  - intros k Hk. apply in_map_iff in Hk. destruct Hk as [z [E _]]. subst. apply class_wl.
  - intros x [].
  - intros a [].
Qed.

Lemma sat_with_keys_from_o : forall P orc keys acq err,
  (forall k, In k keys -> P k = true) -> (forall k, In k acq -> P k = true) ->
  keys_sat P (with_keys_from_o orc keys acq err).
Proof.
  intros P orc keys. induction keys as [|k ks IH]; intros acq err Hk Ha fl n; cbn.
  - apply forallb_forall. intros e He. apply in_map_iff in He. destruct He as [x [E Hx]]. subst e. apply Ha. exact Hx.
  - destruct (fl k n); cbn; rewrite (Hk k (or_introl eq_refl)); cbn.
    + apply forallb_forall. intros e He. apply in_map_iff in He. destruct He as [x [E Hx]]. subst e. cbn.
      unfold release_order in Hx. destruct (is_perm _ acq); [|apply Ha; exact Hx].
      apply filter_In in Hx. destruct Hx as [_ Hx]. apply Ha. unfold memb in Hx. apply existsb_exists in Hx.
      destruct Hx as [y [Hy E]]. apply key_eqb_spec in E. subst. exact Hy.
    + apply IH.
      * intros k' Hk'. apply Hk. right. exact Hk'.
      * intros k' [Hk'|Hk']; [subst; apply Hk; left; reflexivity | apply Ha; exact Hk'].
Qed.

(* ---------- from strict_run to the three thread properties ---------- *)
Lemma srun_ord : forall evs h h', srun h evs = Some h' -> ord_run key_eqb key_ltb h evs = Some h'.
Proof.
  induction evs as [|e t IH]; intros h h' H; simpl in *; [exact H|]. destruct e.
  - destruct (above key_ltb h k); [apply IH; exact H | discriminate].
  - destruct (above key_ltb h k); [apply IH; exact H | discriminate].
  - destruct h as [|x h0]; [discriminate|]. simpl.
    destruct (key_eqb k x) eqn:E; [|discriminate]. simpl. apply IH. exact H.
Qed.

Lemma srun_lifo : forall evs h h', srun h evs = Some h' -> lifo_run key_eqb h evs = Some h'.
Proof.
  induction evs as [|e t IH]; intros h h' H; simpl in *; [exact H|]. destruct e.
  - destruct (above key_ltb h k); [apply IH; exact H | discriminate].
  - destruct (above key_ltb h k); [apply IH; exact H | discriminate].
  - destruct h as [|x h0]; [discriminate|].
    destruct (key_eqb k x); [apply IH; exact H | discriminate].
Qed.

Lemma good_thread : forall m fl, good_under 0 m ->
  k_ordered (r_evs (m fl 0)) = true /\ k_nested (r_evs (m fl 0)) = true.
Proof.
  intros m fl G. assert (H : srun [] (r_evs (m fl 0)) = Some []) by (apply G; intros x []).
  unfold k_ordered, ordered, k_nested, well_nested.
  rewrite (srun_ord _ _ _ H), (srun_lifo _ _ _ H). split; reflexivity.
Qed.

(* ---------- which keys a computation touches ---------- *)
Lemma sat_ret : forall P b, keys_sat P (ret b).
Proof. intros P b fl n. reflexivity. Qed.
Lemma sat_spawn : forall P nd, keys_sat P (spawn_remap nd).
Proof. intros P nd fl n. reflexivity. Qed.
Lemma sat_bind_ign : forall P a b, keys_sat P a -> keys_sat P b -> keys_sat P (bind_ign a b).
Proof. intros P a b Ha Hb fl n. unfold bind_ign. simpl. rewrite forallb_app, Ha, Hb. reflexivity. Qed.
Lemma sat_bind_err : forall P a b, keys_sat P a -> keys_sat P b -> keys_sat P (bind_err a b).
Proof.
  intros P a b Ha Hb fl n. unfold bind_err. destruct (r_err (a fl n)); [apply Ha|].
  simpl. rewrite forallb_app, Ha, Hb. reflexivity.
Qed.
Lemma sat_seq_all : forall P ms, (forall m, In m ms -> keys_sat P m) -> keys_sat P (seq_all ms).
Proof.
  induction ms as [|m t IH]; intros H; simpl; [apply sat_ret|].
  apply sat_bind_ign; [apply H; left; reflexivity | apply IH; intros; apply H; right; assumption].
Qed.

Lemma sat_with_keys_from : forall P keys acq body,
  (forall k, In k keys -> P k = true) -> (forall k, In k acq -> P k = true) ->
  keys_sat P body -> keys_sat P (with_keys_from keys acq body).
Proof.
  intros P keys. induction keys as [|k ks IH]; intros acq body Hk Ha Hb fl n; simpl.
  - rewrite forallb_app, Hb. simpl. apply forallb_forall. intros e He.
    apply in_map_iff in He. destruct He as [x [E Hx]]. subst e. apply Ha. exact Hx.
  - destruct (fl k n); simpl; rewrite (Hk k (or_introl eq_refl)); simpl.
    + apply forallb_forall. intros e He.
      apply in_map_iff in He. destruct He as [x [E Hx]]. subst e. apply Ha. exact Hx.
    + apply IH; auto.
      * intros k' Hk'. apply Hk. right. exact Hk'.
      * intros k' [Hk'|Hk']; [subst; apply Hk; left; reflexivity | apply Ha; exact Hk'].
Qed.

Lemma sat_with_nodes_locked : forall P s f gen body,
  (forall n, P (gen n) = true) -> (forall ns, keys_sat P (body ns)) ->
  keys_sat P (with_nodes_locked s f gen body).
Proof.
  intros P s f gen body Hg Hb. unfold with_nodes_locked.
  destruct (filter_nodes s f) as [ns|]; [|apply sat_ret].
  unfold with_keys. apply sat_with_keys_from; [|intros k []|apply Hb].
  intros k Hk. apply (proj1 (sort_uniq_in _ _)) in Hk. apply in_map_iff in Hk. destruct Hk as [a [E _]]. subst. apply Hg.
Qed.

Lemma sat_with_node_pod_locked : forall P s name body,
  (forall p, P (pod_key p) = true) -> keys_sat P body -> keys_sat P (with_node_pod_locked s name body).
Proof.
  intros. unfold with_node_pod_locked, with_nodes_pod_locked. apply sat_with_nodes_locked.
  - intros n. apply H.
  - intros ns. destruct (has_node name ns); [assumption | apply sat_ret].
Qed.

Lemma sat_with_workloads_locked : forall P s gone ign ids body,
  (forall i, P (wl_key i) = true) -> keys_sat P body -> keys_sat P (with_workloads_locked s gone ign ids body).
Proof.
  intros P s gone ign ids body HP Hb. unfold with_workloads_locked.
  destruct (existsb _ _); [apply sat_ret|].
  destruct (get_all _ _); [|apply sat_ret].
  destruct ign; [exact Hb|]. unfold with_keys. apply sat_with_keys_from; [|intros k []|exact Hb].
  intros k Hk. apply in_map_iff in Hk. destruct Hk as [i [E _]]. subst. apply HP.
Qed.

Lemma sat_each_workload : forall P s ids gone,
  (forall i, P (wl_key i) = true) -> keys_sat P (each_workload s gone ids).
Proof.
  intros P s ids. induction ids as [|i t IH]; intros gone HP fl n; simpl; [reflexivity|].
  rewrite forallb_app. rewrite IH; [|exact HP].
  assert (G : keys_sat P (with_workload_locked s gone false i (ret false))).
  { apply sat_with_workloads_locked; [exact HP | apply sat_ret]. }
  rewrite (G fl n). reflexivity.
Qed.


Definition is_nodeop_thread (o : op) : bool :=
  match o with ORemap _ | OHelperNodes _ true => true | _ => false end.

(* main goroutines of everything but remap touch only pod and workload keys *)
Theorem op_main_sat : forall P s o m,
  (forall p, P (pod_key p) = true) -> (forall i, P (wl_key i) = true) ->
  (is_nodeop_thread o = false \/ forall p n, P (nodeop_key p n) = true) ->
  In m (op_main s o) -> keys_sat P m.
Proof.
  intros P s o m Hp Hw Hn Hm. destruct o; simpl in Hm.
  - destruct Hm as [Hm|[]]. subst m. apply sat_bind_err.
    + apply sat_with_nodes_locked; [intros; apply Hp | intros; apply sat_ret].
    + apply sat_bind_ign; apply sat_seq_all; intros m Hm; apply in_map_iff in Hm;
        destruct Hm as [x [E _]]; subst m; [apply sat_spawn|].
      apply sat_with_node_pod_locked; [exact Hp | apply sat_ret].
  - destruct Hm as [Hm|[]]. subst m.
    apply sat_with_nodes_locked; [intros; apply Hp | intros; apply sat_ret].
  - destruct Hm as [Hm|[]]. subst m.
    apply sat_with_nodes_locked; [intros; apply Hp | intros; apply sat_ret].
  - destruct (group_by_node s order); [|destruct Hm].
    apply in_map_iff in Hm. destruct Hm as [g [E _]]. subst m.
    apply sat_with_node_pod_locked; [exact Hp|].
    apply sat_bind_ign; [apply sat_each_workload; exact Hw | apply sat_spawn].
  - destruct (group_by_node s order); [|destruct Hm].
    destruct Hm as [Hm|[]]. subst m. apply sat_seq_all. intros m Hm.
    apply in_map_iff in Hm. destruct Hm as [g [E _]]. subst m.
    apply sat_with_node_pod_locked; [exact Hp|].
    apply sat_bind_ign; [apply sat_each_workload; exact Hw | apply sat_spawn].
  - destruct (get_wl s id); [|destruct Hm]. destruct Hm as [Hm|[]]. subst m.
    apply sat_with_node_pod_locked; [exact Hp|]. apply sat_with_workloads_locked; [exact Hw|].
    destruct succeeded; [apply sat_spawn | apply sat_ret].
  - clear Hn. revert succeeded Hm. induction ids as [|i t IH]; intros succ Hm; simpl in Hm; [destruct Hm|].
    destruct Hm as [Hm|Hm]; [|eapply IH; exact Hm]. subst m.
    apply sat_with_workloads_locked; [exact Hw|].
    destruct (match succ with b :: _ => b | [] => false end); [|apply sat_ret].
    destruct (get_wl s i); [apply sat_spawn | apply sat_ret].
  - apply in_map_iff in Hm. destruct Hm as [i [E _]]. subst m.
    apply sat_with_workloads_locked; [exact Hw | apply sat_ret].
  - apply in_map_iff in Hm. destruct Hm as [i [E _]]. subst m.
    apply sat_with_workloads_locked; [exact Hw | apply sat_ret].
  - destruct Hm as [Hm|[]]. subst m. apply sat_with_workloads_locked; [exact Hw | apply sat_ret].
  - destruct Hm as [Hm|[]]. subst m. apply sat_with_node_pod_locked; [exact Hp|].
    destruct updated; [apply sat_spawn | apply sat_ret].
  - destruct Hm as [Hm|[]]. subst m. apply sat_with_node_pod_locked; [exact Hp | apply sat_ret].
  - destruct Hm as [Hm|[]]. subst m. apply sat_with_node_pod_locked; [exact Hp | apply sat_ret].
  - apply in_map_iff in Hm. destruct Hm as [nd [E _]]. subst m.
    apply sat_with_node_pod_locked; [exact Hp | apply sat_ret].
  - destruct Hn as [Hn|Hn]; [discriminate|].
    destruct Hm as [Hm|[]]. subst m. unfold remap_thread, with_node_op_locked, with_nodes_op_locked.
    apply sat_with_nodes_locked; [intros; apply Hn|].
    intros ns. destruct (has_node name ns); apply sat_ret.
  - destruct Hm as [Hm|[]]. subst m. destruct node_op.
    + destruct Hn as [Hn|Hn]; [discriminate|].
      apply sat_with_nodes_locked; [intros; apply Hn | intros; apply sat_ret].
    + apply sat_with_nodes_locked; [intros; apply Hp | intros; apply sat_ret].
  - destruct Hm as [Hm|[]]. subst m. unfold with_workloads_helper.
    destruct (get_all _ _); [|apply sat_ret]. destruct ignore_lock; [apply sat_ret|].
    apply sat_with_keys_from_o; [|intros k []].
    intros k Hk. apply in_map_iff in Hk. destruct Hk as [i [E _]]. subst. apply Hw.
Qed.

Lemma sat_remap_thread : forall P s name,
  (forall p n, P (nodeop_key p n) = true) -> keys_sat P (remap_thread s name).
Proof.
  intros. unfold remap_thread, with_node_op_locked, with_nodes_op_locked.
  apply sat_with_nodes_locked; [intros; apply H|].
  intros ns. destruct (has_node name ns); apply sat_ret.
Qed.

(* low keys never trigger the node-operation rule *)
Lemma low_nodeop_run : forall evs h,
  forallb (fun e => lowP (key_of e)) evs = true -> forallb lowP h = true -> nodeop_run h evs = true.
Proof.
  induction evs as [|e t IH]; intros h He Hh; simpl in *; [reflexivity|].
  apply andb_true_iff in He. destruct He as [He Ht].
  assert (Hex : existsb (fun x => Nat.eqb (class x) 2) h = false).
  { destruct (existsb _ h) eqn:E; [|reflexivity]. apply existsb_exists in E.
    destruct E as [x [Hx E]]. rewrite forallb_forall in Hh. specialize (Hh x Hx).
    unfold lowP in Hh. apply Nat.eqb_eq in E. rewrite E in Hh. discriminate. }
  destruct e as [k|k|k]; simpl in He.
  - assert (Hk : Nat.eqb (class k) 2 = false).
    { unfold lowP in He. apply Nat.ltb_lt in He. apply Nat.eqb_neq. lia. }
    rewrite Hk, Hex. simpl. apply IH; [exact Ht | simpl; rewrite He, Hh; reflexivity].
  - assert (Hk : Nat.eqb (class k) 2 = false).
    { unfold lowP in He. apply Nat.ltb_lt in He. apply Nat.eqb_neq. lia. }
    rewrite Hk, Hex. simpl. apply IH; assumption.
  - apply IH; [exact Ht|]. apply forallb_forall. intros x Hx.
    rewrite forallb_forall in Hh. apply Hh.
    eapply (removeb_incl key_eqb); exact Hx.
Qed.

(* the remap goroutine: nothing, one failed attempt, or lock + unlock of one key *)
Lemma one_node_filter_nodes : forall s name,
  filter_nodes s (one_node_filter name) = None \/
  exists n, filter_nodes s (one_node_filter name) = Some [n].
Proof.
  intros. unfold filter_nodes, one_node_filter. simpl.
  destruct (get_node s name) as [n|] eqn:E; [right|left; reflexivity].
  exists n. simpl. unfold get_node in E. apply find_some in E. destruct E as [_ E]. rewrite String.eqb_refl. reflexivity.
Qed.

Lemma remap_thread_alone : forall s name fl n, nodeop_alone (r_evs (remap_thread s name fl n)) = true.
Proof.
  intros. unfold remap_thread, with_node_op_locked, with_nodes_op_locked, with_nodes_locked.
  destruct (one_node_filter_nodes s name) as [E|[nd E]]; rewrite E; [reflexivity|].
  assert (C : class (gen_nodeop nd) = 2) by (apply class_nodeop).
  unfold map at 1. unfold sort_uniq, fold_right, insert_uniq, with_keys, with_keys_from.
  set (k := gen_nodeop nd) in *. clearbody k.
  destruct (fl k n); unfold nodeop_alone.
  - simpl. rewrite C. reflexivity.
  - destruct (has_node name [nd]); simpl; rewrite C; simpl;
      unfold key_eqb; rewrite ?String.eqb_refl; reflexivity.
Qed.

Lemma forallb_ext' : forall {A} (f g : A -> bool) l, (forall x, f x = g x) -> forallb f l = forallb g l.
Proof. intros A f g l H. induction l; simpl; [reflexivity | rewrite H, IHl; reflexivity]. Qed.

(* ---------- all threads of an operation ---------- *)
Lemma in_run_indexed : forall ms i fls r, In r (run_indexed i ms fls) -> exists m fl, In m ms /\ r = m fl 0.
Proof.
  induction ms as [|m t IH]; intros i fls r H; simpl in H; [destruct H|].
  destruct H as [H|H].
  - exists m, (fls i). split; [left; reflexivity | symmetry; exact H].
  - destruct (IH _ _ _ H) as [m' [fl [Hm E]]]. exists m', fl. split; [right; exact Hm | exact E].
Qed.

Lemma thread_cases : forall s o fls flr t, In t (op_threads s o fls flr) ->
  (exists m fl, In m (op_main s o) /\ t = r_evs (m fl 0)) \/
  (exists nd fl, t = r_evs (remap_thread s nd fl 0)).
Proof.
  intros s o fls flr t H. unfold op_threads in H. apply in_app_or in H. destruct H as [H|H].
  - left. apply in_map_iff in H. destruct H as [r [E Hr]]. subst t.
    apply in_run_indexed in Hr. destruct Hr as [m [fl [Hm E]]]. subst r. exists m, fl. auto.
  - right. apply in_map_iff in H. destruct H as [r [E Hr]]. subst t.
    apply in_run_indexed in Hr. destruct Hr as [m [fl [Hm E]]]. subst r.
    apply in_map_iff in Hm. destruct Hm as [nd [E _]]. subst m. exists nd, fl. reflexivity.
Qed.

Theorem op_threads_ok : forall s o fls flr t, In t (op_threads s o fls flr) ->
  k_ordered t = true /\
  (match o with OHelperWorkloads _ _ _ => True | _ => k_nested t = true end) /\
  known_class t = true /\
  (match o with OHelperNodes _ true => True | _ => nodeop_alone t = true end).
Proof.
  intros s o fls flr t H. destruct (thread_cases _ _ _ _ _ H) as [[m [fl [Hm E]]]|[nd [fl E]]]; subst t.
  - assert (Hkn : known_class (r_evs (m fl 0)) = true).
    { unfold known_class. assert (S : keys_sat knownP m).
      { apply (op_main_sat knownP s o m); [kp | kp | right; kp | exact Hm]. }
      specialize (S fl 0). erewrite forallb_ext'; [exact S|]. intros [k|k|k]; reflexivity. }
    assert (Halone : match o with OHelperNodes _ true => True | _ => nodeop_alone (r_evs (m fl 0)) = true end).
    { destruct (is_nodeop_thread o) eqn:En.
      * destruct o; try discriminate.
        -- simpl in Hm. destruct Hm as [Hm|[]]. subst m. apply remap_thread_alone.
        -- destruct node_op; [exact I | discriminate].
      * assert (S : keys_sat lowP m).
        { apply (op_main_sat lowP s o m); [kp | kp | left; exact En | exact Hm]. }
        assert (R : nodeop_alone (r_evs (m fl 0)) = true).
        { unfold nodeop_alone. apply low_nodeop_run; [apply S | reflexivity]. }
        destruct o; try exact R. match goal with |- match ?b with true => _ | false => _ end => destruct b end; [discriminate | exact R]. }
    destruct (is_wl_helper o) eqn:Eh.
    + destruct o; try discriminate. simpl in Hm. destruct Hm as [Hm|[]]. subst m.
      split; [|split; [exact I | split; [exact Hkn | exact Halone]]].
      unfold k_ordered, ordered. rewrite helper_wl_ordered. reflexivity.
    + destruct (good_thread m fl (op_main_good s o m Eh Hm)) as [H1 H2].
      split; [exact H1|]. split; [destruct o; try exact H2; exact I|]. split; [exact Hkn | exact Halone].
  - destruct (good_thread (remap_thread s nd) fl (good_remap_thread s nd)) as [H1 H2].
    split; [exact H1|]. split; [destruct o; try exact H2; exact I|]. split.
    + unfold known_class. assert (S : keys_sat knownP (remap_thread s nd)).
      { apply sat_remap_thread. kp. }
      specialize (S fl 0). erewrite forallb_ext'; [exact S|]. intros [k|k|k]; reflexivity.
    + assert (R := remap_thread_alone s nd fl 0). destruct o; try exact R. match goal with |- match ?b with true => _ | false => _ end => destruct b end; [exact I | exact R].
Qed.

Theorem op_thread_ok_bool : forall s o fls flr t,
  match o with OHelperNodes _ true => False | OHelperWorkloads _ _ _ => False | _ => True end ->
  In t (op_threads s o fls flr) -> thread_ok t = true.
Proof.
  intros s o fls flr t Ho H. destruct (op_threads_ok _ _ _ _ _ H) as [H1 [H2 [H3 H4]]].
  unfold thread_ok. rewrite H1, H3.
  assert (N : k_nested t = true) by (destruct o; try exact H2; destruct Ho).
  rewrite N. simpl. rewrite andb_true_r. destruct o; try exact H4. match type of H4 with match ?b with true => _ | false => _ end => destruct b end; [destruct Ho | exact H4].
Qed.

(* ---------- no deadlock, for any set of operations under any schedule ---------- *)
Record run_op := mkRun {
  ro_store : lstore; ro_op : op;
  ro_fls : nat -> key -> nat -> bool; ro_flr : nat -> key -> nat -> bool }.
Definition threads_of (ops : list run_op) : list (list lev) :=
  flat_map (fun r => op_threads (ro_store r) (ro_op r) (ro_fls r) (ro_flr r)) ops.

Theorem no_deadlock_ops : forall ops st,
  steps key_eqb (start (threads_of ops)) st -> ~ deadlocked key_eqb st.
Proof.
  intros ops st Hst.
  eapply (no_deadlock key_eqb key_ltb key_eqb_spec key_ltb_irrefl key_ltb_trans); [|exact Hst].
  intros sc Hsc. unfold threads_of in Hsc. apply in_flat_map in Hsc. destruct Hsc as [r [_ Hin]].
  destruct (op_threads_ok _ _ _ _ _ Hin) as [H _]. exact H.
Qed.

Theorem mutex_ops : forall ops st,
  steps key_eqb (start (threads_of ops)) st -> mutex st.
Proof. intros ops st Hst. eapply (mutex_reachable key_eqb key_eqb_spec); exact Hst. Qed.

Theorem runs_end_unlocked : forall ops st,
  steps key_eqb (start (threads_of ops)) st -> (forall st', ~ step key_eqb st st') ->
  all_finished st /\ all_held st = [].
Proof.
  intros ops st Hst Hno.
  eapply (stuck_is_done key_eqb key_ltb key_eqb_spec key_ltb_irrefl key_ltb_trans); [|exact Hst|exact Hno].
  intros sc Hsc. unfold threads_of in Hsc. apply in_flat_map in Hsc. destruct Hsc as [r [_ Hin]].
  destruct (op_threads_ok _ _ _ _ _ Hin) as [H _]. exact H.
Qed.

(* non-vacuity: the witness of the (repaired) cross-pod defect: two creates with
   include lists [a1(X), b1(Y)] and [a2(Y), b2(X)] lock plock_X then plock_Y both *)
Definition ex_store : lstore :=
  mkStore [mkNode "a1" "X" true []; mkNode "b1" "Y" true []; mkNode "a2" "Y" true []; mkNode "b2" "X" true []] [].
Definition no_fail : nat -> key -> nat -> bool := fun _ _ _ => false.
Example cross_pod_creates :
  op_threads ex_store (OCreate (mkFilter "X" ["a1"; "b1"] [] false []) true [] []) no_fail no_fail
  = [[Acq "plock_X"; Acq "plock_Y"; Rel "plock_Y"; Rel "plock_X"]] /\
  op_threads ex_store (OCreate (mkFilter "Y" ["a2"; "b2"] [] false []) true [] []) no_fail no_fail
  = [[Acq "plock_X"; Acq "plock_Y"; Rel "plock_Y"; Rel "plock_X"]].
Proof. split; reflexivity. Qed.

(* what the unrepaired code did (keys in node-name order): the two scripts below
   are each accepted by nobody's order and together reach a deadlock *)
Example unrepaired_order_violates :
  k_ordered [Acq "plock_Y"; Acq "plock_X"; Rel "plock_X"; Rel "plock_Y"] = false.
Proof. reflexivity. Qed.
