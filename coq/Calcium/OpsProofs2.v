From Coq Require Import List Bool Arith ZArith Lia Permutation.
(* Calcium/OpsProofs2.v — lock wrappers are world-neutral; whole-operation atomicity theorems
   (realloc, add-node, the locked transactions of remove and dissociate) for every world and
   every fault position. *)
From Verif Require Import Base.Effects Calcium.World Calcium.Ops Calcium.EffectsProofs Calcium.OpsProofs.
Import ListNotations.
Local Open Scope Z_scope.

Lemma crunk_bind : forall A B (p : cprog A) (f : A -> cprog B) w k,
  crunk (bind p f) w k = let '(w', k', a) := crunk p w k in crunk (f a) w' k'.
Proof. intros. unfold crunk. apply runk_bind. Qed.

Ltac lnorm := repeat (progress (cbn [bind err_of fst snd rsum is_ok rok fail_reply runk is_faultable for_all get_nodes filter_nodes acquire release
                                    dedupe_keys existsb map lockkey_eqb orb]; try unfold call1; try unfold doc; try unfold ign)).

(* a lock release never changes the world *)
Lemma unlock_neutral : forall key w k, exists k', crunk (ign (doc (LUnlock key))) w k = (w, k', tt).
Proof.
  intros key w k. unfold ign, doc, call1, crunk. lnorm.
  destruct k as [[|k]|]; lnorm; cbn [exec]; eexists; reflexivity.
Qed.

Lemma locked_body_spec : forall (body : cprog oerr) key w kk,
  exists w' k' k2 r, crunk (a <- body ;; release [key] ;;; Ret a) w kk = (w', k', r) /\ crunk body w kk = (w', k2, r).
Proof.
  intros body key w kk. rewrite crunk_bind. destruct (crunk body w kk) as [[w1 k2] r1] eqn:Hb.
  unfold release. cbn [for_all]. rewrite crunk_bind.
  rewrite crunk_bind. destruct (unlock_neutral key w1 k2) as [k3 Hu]. rewrite Hu.
  unfold crunk. cbn [runk bind]. do 4 eexists. split; reflexivity.
Qed.

Lemma with_node_pod_locked_spec : forall n body w k,
  exists w' k' r, crunk (with_node_pod_locked n body) w k = (w', k', r) /\
   ((r <> None /\ w' = w) \/
    (exists x k1 k2, find_node w n = Some x /\ n_name x = n /\ crunk (body x) w k1 = (w', k2, r))).
Proof.
  intros n body w k.
  unfold with_node_pod_locked, with_nodes_pod_locked.
  unfold crunk. lnorm.
  destruct k as [[|k]|]; lnorm.
  - do 3 eexists. split; [reflexivity|]. left. split; [discriminate|reflexivity].
  - cbn [exec]. destruct (find_node w n) as [x|] eqn:Hx; lnorm.
    2:{ do 3 eexists. split; [reflexivity|]. left. split; [discriminate|reflexivity]. }
    assert (Hn : n_name x = n). { unfold find_node in Hx. apply find_some in Hx. destruct Hx as [_ Hx]. apply Nat.eqb_eq in Hx. exact Hx. }
    destruct k as [|k]; lnorm.
    + do 3 eexists. split; [reflexivity|]. left. split; [discriminate|reflexivity].
    + cbn [exec]. lnorm. destruct k as [|k]; lnorm.
      * cbn [exec]. lnorm.
        do 3 eexists. split; [reflexivity|]. left. split; [discriminate|reflexivity].
      * cbn [exec]. lnorm. cbn [find]. rewrite Hn, Nat.eqb_refl.
        destruct (locked_body_spec (body x) (LPod (n_pod x)) w (Some k)) as [w' [k' [k2 [r [H1 H2]]]]].
        unfold crunk in H1. do 3 eexists. split; [exact H1|]. right. exists x, (Some k), k2. auto.
  - cbn [exec]. destruct (find_node w n) as [x|] eqn:Hx; lnorm.
    2:{ do 3 eexists. split; [reflexivity|]. left. split; [discriminate|reflexivity]. }
    assert (Hn : n_name x = n). { unfold find_node in Hx. apply find_some in Hx. destruct Hx as [_ Hx]. apply Nat.eqb_eq in Hx. exact Hx. }
    cbn [exec]. lnorm. cbn [exec]. lnorm. cbn [find]. rewrite Hn, Nat.eqb_refl.
    destruct (locked_body_spec (body x) (LPod (n_pod x)) w None) as [w' [k' [k2 [r [H1 H2]]]]].
    unfold crunk in H1. do 3 eexists. split; [exact H1|]. right. exists x, None, k2. auto.
Qed.
Lemma with_workload_locked_spec : forall id body w k,
  exists w' k' r, crunk (with_workload_locked id body) w k = (w', k', r) /\
   ((r <> None /\ w' = w) \/
    (exists x k1 k2, find_wl w id = Some x /\ crunk (body x) w k1 = (w', k2, r))).
Proof.
  intros id body w k.
  unfold with_workload_locked. unfold crunk. lnorm.
  assert (Hex : exec w (SGetWorkloads [id]) =
                match find_wl w id with Some x => (w, RWls [x]) | None => (w, RErr ENatural) end).
  { cbn [exec forallb flat_map]. destruct (find_wl w id); reflexivity. }
  destruct k as [[|k]|]; lnorm.
  - do 3 eexists. split; [reflexivity|]. left. split; [discriminate|reflexivity].
  - rewrite Hex. destruct (find_wl w id) as [x|] eqn:Hx; lnorm.
    2:{ do 3 eexists. split; [reflexivity|]. left. split; [discriminate|reflexivity]. }
    destruct k as [|k]; lnorm.
    + do 3 eexists. split; [reflexivity|]. left. split; [discriminate|reflexivity].
    + cbn [exec]. lnorm. destruct k as [|k]; lnorm.
      * cbn [exec]. lnorm.
        do 3 eexists. split; [reflexivity|]. left. split; [discriminate|reflexivity].
      * cbn [exec]. lnorm.
        destruct (locked_body_spec (body x) (LWl (w_id x)) w (Some k)) as [w' [k' [k2 [r [H1 H2]]]]].
        unfold crunk in H1. do 3 eexists. split; [exact H1|]. right. exists x, (Some k), k2. auto.
  - rewrite Hex. destruct (find_wl w id) as [x|] eqn:Hx; lnorm.
    2:{ do 3 eexists. split; [reflexivity|]. left. split; [discriminate|reflexivity]. }
    cbn [exec]. lnorm. cbn [exec]. lnorm.
    destruct (locked_body_spec (body x) (LWl (w_id x)) w None) as [w' [k' [k2 [r [H1 H2]]]]].
    unfold crunk in H1. do 3 eexists. split; [exact H1|]. right. exists x, None, k2. auto.
Qed.

(* ------------------------------------------------------------------ well-formed worlds *)
Record wf (w : world) : Prop := {
  wf_ids : NoDup (ids (wls w));
  wf_plug : forall x, In x (wls w) -> exists p, find_plug w (w_node x) = Some p;   (* the node of a recorded workload has a plugin record *)
  wf_cont : forall x, In x (wls w) -> exists c, find_cont w (w_id x) = Some c;     (* a recorded workload has a container *)
}.

Lemma find_wl_id : forall w id x, find_wl w id = Some x -> w_id x = id /\ In x (wls w).
Proof. intros w id x H. apply find_wl_in in H. tauto. Qed.

(* ------------------------------------------------------------------ whole operations *)

(* ReallocResource: reported failure => the world is exactly what it was;
   success => usage grew by the request and the record carries the new resources *)
Theorem realloc_atomic : forall id req w k, wf w ->
  exists w' k' r, crunk (realloc id req) w k = (w', k', r) /\
  (r <> None -> w' = w) /\
  (r = None -> exists x, find_wl w id = Some x /\
     w' = oth w (upd_wl (mkWl (w_id x) (w_node x) (w_pod x) (radd (w_res x) req)) (wls w))
                (upd_plug (w_node x) (add_use req) (plugs w)) (conts w)).
Proof.
  intros id req w k Hwf. unfold realloc. rewrite crunk_bind.
  unfold call1 at 1. unfold crunk at 1.
  destruct k as [[|k]|]; cbn [runk].
  - unfold crunk. cbn [runk]. do 3 eexists. split; [reflexivity|]. split; [reflexivity|discriminate].
  - cbn [exec]. destruct (find_wl w id) as [x0|] eqn:Hx0.
    2:{ unfold crunk. cbn [runk]. do 3 eexists. split; [reflexivity|]. split; [reflexivity|discriminate]. }
    destruct (with_node_pod_locked_spec (w_node x0) (fun _ => with_workload_locked id (fun x => do_realloc x x0 req)) w (Some k))
      as [w' [k' [r [H1 [[Hr Hw]|[nd [k1 [k2 [Hnd [Hn H2]]]]]]]]]].
    + do 3 eexists. split; [exact H1|]. split; [auto|congruence].
    + destruct (with_workload_locked_spec id (fun x => do_realloc x x0 req) w k1) as [w2 [k3 [r2 [H3 [[Hr Hw]|[x [k4 [k5 [Hx H4]]]]]]]]].
      * rewrite H3 in H2. inversion H2; subst. do 3 eexists. split; [exact H1|]. split; [auto|congruence].
      * rewrite H3 in H2. inversion H2; subst.
        assert (x = x0) by congruence. subst x0.
        destruct (find_wl_id _ _ _ Hx) as [Hid Hin].
        destruct (wf_plug w Hwf x Hin) as [p Hp]. destruct (wf_cont w Hwf x Hin) as [c Hc].
        destruct (do_realloc_spec x req w k4 p c (wf_ids w Hwf)) as [w5 [k6 [r5 [H5 [Hok Hfail]]]]]; auto.
        { rewrite Hid; exact Hx. }
        rewrite H5 in H4. inversion H4; subst.
        do 3 eexists. split; [exact H1|]. split; [exact Hfail|]. intros E. exists x. split; [auto|apply Hok; exact E].
  - cbn [exec]. destruct (find_wl w id) as [x0|] eqn:Hx0.
    2:{ unfold crunk. cbn [runk]. do 3 eexists. split; [reflexivity|]. split; [reflexivity|discriminate]. }
    destruct (with_node_pod_locked_spec (w_node x0) (fun _ => with_workload_locked id (fun x => do_realloc x x0 req)) w None)
      as [w' [k' [r [H1 [[Hr Hw]|[nd [k1 [k2 [Hnd [Hn H2]]]]]]]]]].
    + do 3 eexists. split; [exact H1|]. split; [auto|congruence].
    + destruct (with_workload_locked_spec id (fun x => do_realloc x x0 req) w k1) as [w2 [k3 [r2 [H3 [[Hr Hw]|[x [k4 [k5 [Hx H4]]]]]]]]].
      * rewrite H3 in H2. inversion H2; subst. do 3 eexists. split; [exact H1|]. split; [auto|congruence].
      * rewrite H3 in H2. inversion H2; subst.
        assert (x = x0) by congruence. subst x0.
        destruct (find_wl_id _ _ _ Hx) as [Hid Hin].
        destruct (wf_plug w Hwf x Hin) as [p Hp]. destruct (wf_cont w Hwf x Hin) as [c Hc].
        destruct (do_realloc_spec x req w k4 p c (wf_ids w Hwf)) as [w5 [k6 [r5 [H5 [Hok Hfail]]]]]; auto.
        { rewrite Hid; exact Hx. }
        rewrite H5 in H4. inversion H4; subst.
        do 3 eexists. split; [exact H1|]. split; [exact Hfail|]. intros E. exists x. split; [auto|apply Hok; exact E].
Qed.

(* the locked transaction of one workload inside RemoveWorkload *)
Theorem remove_locked_atomic : forall n id force w k, wf w ->
  (force = true \/ strict_remove w = false) ->
  (forall x, find_wl w id = Some x -> w_node x = n) ->
  exists w' k' r, crunk (with_workload_locked id (fun x => remove_txn n x force)) w k = (w', k', r) /\
  (r <> None -> exists l, w' = oth w l (plugs w) (conts w) /\ Permutation l (wls w)) /\
  (r = None -> exists x, find_wl w id = Some x /\
     w' = oth w (del_wl id (wls w)) (upd_plug n (sub_use (w_res x)) (plugs w)) (del_cont id (conts w))).
Proof.
  intros n id force w k Hwf Hforce Hnode.
  destruct (with_workload_locked_spec id (fun x => remove_txn n x force) w k) as [w2 [k3 [r2 [H3 [[Hr Hw]|[x [k4 [k5 [Hx H4]]]]]]]]].
  - do 3 eexists. split; [exact H3|]. split; [|congruence]. intros _. exists (wls w). subst. split; [apply oth_same|reflexivity].
  - destruct (find_wl_id _ _ _ Hx) as [Hid Hin].
    destruct (wf_plug w Hwf x Hin) as [p Hp]. rewrite (Hnode x Hx) in Hp.
    destruct (remove_txn_spec n x force w k4 p (wf_ids w Hwf)) as [w5 [k6 [r5 [H5 [Hok Hfail]]]]]; auto.
    { rewrite Hid; exact Hx. }
    rewrite H5 in H4. inversion H4; subst.
    do 3 eexists. split; [exact H3|]. split; [exact Hfail|]. intros E. exists x. split; [auto|]. apply Hok; exact E.
Qed.

(* the locked transaction of one workload inside DissociateWorkload *)
Theorem dissociate_locked_atomic : forall n id w k, wf w ->
  (forall x, find_wl w id = Some x -> w_node x = n) ->
  exists w' k' r, crunk (with_workload_locked id (fun x => dissociate_txn n x)) w k = (w', k', r) /\
  (r <> None -> w' = w) /\
  (r = None -> exists x, find_wl w id = Some x /\
     w' = oth w (del_wl id (wls w)) (upd_plug n (sub_use (w_res x)) (plugs w)) (conts w)).
Proof.
  intros n id w k Hwf Hnode.
  destruct (with_workload_locked_spec id (fun x => dissociate_txn n x) w k) as [w2 [k3 [r2 [H3 [[Hr Hw]|[x [k4 [k5 [Hx H4]]]]]]]]].
  - do 3 eexists. split; [exact H3|]. split; [auto|congruence].
  - destruct (find_wl_id _ _ _ Hx) as [Hid Hin].
    destruct (wf_plug w Hwf x Hin) as [p Hp]. rewrite (Hnode x Hx) in Hp.
    destruct (dissociate_txn_spec n x w k4 p) as [w5 [k6 [r5 [H5 [Hok Hfail]]]]]; auto.
    { rewrite Hid; exact Hx. }
    rewrite H5 in H4. inversion H4; subst.
    do 3 eexists. split; [exact H3|]. split; [exact Hfail|]. intros E. exists x. split; [auto|]. apply Hok; exact E.
Qed.

(* ------------------------------------------------------------------ AddNode *)
Lemma find_plug_app_new : forall l n cap,
  find (fun x => Nat.eqb (p_node x) n) l = None ->
  find (fun x => Nat.eqb (p_node x) n) (l ++ [mkPlug n cap rzero]) = Some (mkPlug n cap rzero).
Proof.
  induction l as [|y t IH]; intros n cap H; simpl in *.
  - rewrite Nat.eqb_refl. reflexivity.
  - destruct (Nat.eqb (p_node y) n); [discriminate|]. apply IH; auto.
Qed.
Lemma del_plug_app_new : forall l n cap,
  find (fun x => Nat.eqb (p_node x) n) l = None -> del_plug n (l ++ [mkPlug n cap rzero]) = l.
Proof.
  intros l n cap H. unfold del_plug. rewrite filter_app. simpl. rewrite Nat.eqb_refl. simpl. rewrite app_nil_r.
  apply filter_true. intros z Hz. destruct (Nat.eqb (p_node z) n) eqn:E; auto.
  exfalso. eapply find_none in H; eauto. simpl in H. congruence.
Qed.

Definition othn (w : world) (ns : list node) (p : list plug) : world :=
  mkWorld (pods w) ns (wls w) (markers w) p (conts w) (walq w) (wal_seq w) (out w) (strict_remove w) (script w).

(* AddNode of a fresh node name into an existing pod (so the store's own AddNode can only
   fail by the injected fault; a second, natural failure next to the injected one is outside
   the single-fault quantifier) *)
Theorem add_node_atomic : forall n p cap w k,
  existsb (Nat.eqb p) (pods w) = true -> find_node w n = None ->
  exists w' k' r, crunk (add_node n p cap) w k = (w', k', r) /\
  (r <> None -> w' = w) /\
  (r = None -> w' = othn w (nodes w ++ [mkNode n p false true 0]) (plugs w ++ [mkPlug n cap rzero])).
Proof.
  intros n p cap w k Hpod Hn. unfold find_node in Hn. unfold add_node, txn, doc, call1, crunk. norm.
  kcase k.
  - do 3 eexists. split; [reflexivity|]. split; [reflexivity|discriminate].
  - cbn [exec]. norm. ncase k.
    + do 3 eexists. split; [reflexivity|]. split; [reflexivity|discriminate].
    + cbn [exec]. look. destruct (find (fun x => Nat.eqb (p_node x) n) (plugs w)) eqn:Hp; norm.
      { do 3 eexists. split; [reflexivity|]. split; [reflexivity|discriminate]. }
      ncase k.
      * (* store AddNode fails: the plugin record is removed again *)
        cbn [exec]. look. rewrite find_plug_app_new by exact Hp. norm.
        do 3 eexists. split; [reflexivity|]. split; [|discriminate]. intros _. look.
        rewrite del_plug_app_new by exact Hp. destruct w; reflexivity.
      * cbn [exec]. look. rewrite Hpod. cbn [negb]. rewrite Hn. norm.
        do 3 eexists. split; [reflexivity|]. split; [congruence|]. intros _. look. reflexivity.
  - cbn [exec]. norm. cbn [exec]. look. destruct (find (fun x => Nat.eqb (p_node x) n) (plugs w)) eqn:Hp; norm.
    { do 3 eexists. split; [reflexivity|]. split; [reflexivity|discriminate]. }
    cbn [exec]. look. rewrite Hpod. cbn [negb]. rewrite Hn. norm.
    do 3 eexists. split; [reflexivity|]. split; [congruence|]. intros _. look. reflexivity.
Qed.
