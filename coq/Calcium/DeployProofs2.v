(* Calcium/DeployProofs2.v — the deployment step of create (doDeployWorkloads) for EVERY world, plan
   and fault position: one message per planned instance; exactly the instances reported as created are
   recorded and running, nothing else changes; per node, instances to roll back + instances created =
   instances planned. *)
From Coq Require Import List Bool Arith ZArith Lia Permutation.
From Verif Require Import Base.Effects Calcium.World Calcium.Ops Calcium.Run Calcium.EffectsProofs Calcium.OpsProofs Calcium.OpsProofs2 Calcium.InvProofs Calcium.DeployProofs.
Import ListNotations.
Local Open Scope Z_scope.

Definition wl_of (pod : name) (p : wid * res) : wl := mkWl (fst p) (wi_node (fst p)) pod (snd p).
Definition cont_of (p : wid * res) : cont := mkCont (fst p) CRunning.

Lemma created_of_loop : forall opi n r failed idxs,
  created_of (map (fun i => if existsb (Nat.eqb i) failed then MCreateFail n else MCreateOk (mkWid opi n i) r) idxs)
  = map (fun i => (mkWid opi n i, r)) (succ_of idxs failed).
Proof.
  intros opi n r failed idxs. unfold created_of, succ_of. induction idxs as [|i t IH]; simpl; [reflexivity|].
  destruct (existsb (Nat.eqb i) failed); simpl; [exact IH|f_equal; exact IH].
Qed.

Lemma created_of_app : forall a b, created_of (a ++ b) = created_of a ++ created_of b.
Proof. intros. unfold created_of. apply flat_map_app. Qed.

Lemma filter_len_split : forall (f : nat -> bool) l, (length (filter f l) + length (filter (fun i => negb (f i)) l) = length l)%nat.
Proof. induction l as [|x t IH]; simpl; [reflexivity|]. destruct (f x); simpl; lia. Qed.

(* the instance loop, stated on the messages alone *)
Lemma deploy_loop_ms : forall opi pod n r idxs w k,
  NoDup idxs -> (forall i, In i idxs -> fresh w opi n i) ->
  exists w' k' failed ms, crunk (deploy_loop opi pod n r idxs) w k = (w', k', (failed, ms)) /\
    length ms = length idxs /\
    (length failed + length (created_of ms) = length idxs)%nat /\
    (forall p, In p (created_of ms) -> wi_op (fst p) = opi /\ wi_node (fst p) = n /\ snd p = r) /\
    (failed <> [] -> k' = None) /\
    out w' = rev ms ++ out w /\
    core3 w' w (wls w ++ map (wl_of pod) (created_of ms)) (conts w ++ map cont_of (created_of ms)).
Proof.
  intros opi pod n r idxs w k Hnd Hf.
  destruct (deploy_loop_spec opi pod n r idxs w k Hnd Hf) as [w' [k' [failed [ms [H [Hincl [Hsub [Hkn [Hms [Hout Hcore]]]]]]]]]].
  exists w', k', failed, ms. split; [exact H|].
  assert (Hc : created_of ms = map (fun i => (mkWid opi n i, r)) (succ_of idxs failed)).
  { rewrite Hms. apply created_of_loop. }
  split; [rewrite Hms; apply map_length|].
  split.
  { rewrite Hc, map_length. rewrite Hsub at 1. unfold succ_of. apply filter_len_split. }
  split.
  { intros p Hp. rewrite Hc in Hp. apply in_map_iff in Hp. destruct Hp as [i [<- _]]. simpl. auto. }
  split; [exact Hkn|].
  split; [exact Hout|].
  rewrite Hc. rewrite !map_map. unfold wl_of, cont_of. cbn [fst snd wi_node]. exact Hcore.
Qed.

Lemma core3_trans : forall w2 w1 w l c, core3 w2 w1 (wls w1) (conts w1) -> core3 w1 w l c -> core3 w2 w l c.
Proof. unfold core3. intros. intuition congruence. Qed.
Lemma core3_refl : forall w, core3 w w (wls w) (conts w).
Proof. unfold core3. intuition. Qed.

Lemma repeat_cons_app : forall A (m : A) n (l : list A), repeat m n ++ m :: l = m :: repeat m n ++ l.
Proof. induction n as [|n IH]; intros l; simpl; [reflexivity|]. rewrite IH. reflexivity. Qed.

Lemma sends_core : forall (l : list nat) m w k,
  exists w', crunk (for_all l (fun _ => send m)) w k = (w', k, tt) /\ core3 w' w (wls w) (conts w) /\
             out w' = repeat m (length l) ++ out w.
Proof.
  induction l as [|x t IH]; intros m w k.
  - unfold crunk. simpl. eexists. split; [reflexivity|]. split; [apply core3_refl|reflexivity].
  - cbn [for_all]. rewrite crunk_bind. destruct (send_core m w k) as [w1 [H1 [Hc1 Ho1]]]. rewrite H1.
    destruct (IH m w1 k) as [w2 [H2 [Hc2 Ho2]]]. rewrite H2. eexists. split; [reflexivity|].
    split; [eapply core3_trans; eauto|].
    rewrite Ho2, Ho1. cbn [length repeat app]. rewrite repeat_cons_app. reflexivity.
Qed.

Lemma rev_repeat : forall A (m : A) n, rev (repeat m n) = repeat m n.
Proof.
  induction n as [|n IH]; simpl; [reflexivity|]. rewrite IH. clear IH.
  induction n as [|n IH]; simpl; [reflexivity|]. rewrite IH. reflexivity.
Qed.

(* doGetAndPrepareNode only reads; on an existing node it can only fail by the injected fault *)
Lemma prep_node_neutral : forall n w k, find_node w n <> None ->
  exists k' e, crunk (get_and_prepare_node n) w k = (w, k', e) /\ (e <> None -> k' = None).
Proof.
  intros n w k Hn. unfold get_and_prepare_node, prepare_image, doc, call1, crunk. norm.
  destruct k as [[|k]|]; norm.
  - do 2 eexists; split; [reflexivity|reflexivity].
  - cbn [exec]. destruct (find_node w n); [|congruence]. norm.
    destruct k as [|k]; norm.
    + cbn [exec]. norm. do 2 eexists; split; [reflexivity|congruence].
    + cbn [exec]. norm. destruct k as [|k]; norm.
      * cbn [exec]. norm. do 2 eexists; split; [reflexivity|congruence].
      * cbn [exec]. norm. do 2 eexists; split; [reflexivity|congruence].
  - cbn [exec]. destruct (find_node w n); [|congruence]. norm.
    cbn [exec]. norm. cbn [exec]. norm. do 2 eexists; split; [reflexivity|congruence].
Qed.

Lemma seq_nat_nodup : forall len start, NoDup (seq_nat start len).
Proof.
  assert (H : forall len start i, In i (seq_nat start len) -> (start <= i)%nat).
  { induction len as [|l IH]; intros start i Hi; simpl in Hi; [destruct Hi|]. destruct Hi as [<-|Hi]; [lia|]. apply IH in Hi. lia. }
  induction len as [|l IH]; intros start; simpl; constructor; auto.
  intro Hin. apply H in Hin. lia.
Qed.
Lemma seq_nat_length : forall len start, length (seq_nat start len) = len.
Proof. induction len as [|l IH]; intros; simpl; auto. Qed.
Lemma created_of_errs : forall k, created_of (repeat MCreateErr k) = [].
Proof. induction k; simpl; auto. Qed.

(* no record or container of this deployment on the given nodes yet *)
Definition fresh_on (w : world) (opi : nat) (ns : list name) : Prop := forall n i, In n ns -> fresh w opi n i.

Definition node_msgs_ok (opi : nat) (n : name) (r : res) (ms : list msg) : Prop :=
  forall p, In p (created_of ms) -> wi_op (fst p) = opi /\ wi_node (fst p) = n /\ snd p = r.

Lemma deploy_on_node_ms : forall opi pod n cnt r w k,
  fresh_on w opi [n] -> find_node w n <> None ->
  exists w' k' failed ms, crunk (deploy_on_node opi pod n cnt r) w k = (w', k', (failed, ms)) /\
    length ms = cnt /\
    (length failed + length (created_of ms) = cnt)%nat /\
    node_msgs_ok opi n r ms /\
    (failed <> [] -> k' = None) /\
    out w' = rev ms ++ out w /\
    core3 w' w (wls w ++ map (wl_of pod) (created_of ms)) (conts w ++ map cont_of (created_of ms)).
Proof.
  intros opi pod n cnt r w k Hf Hnode. unfold deploy_on_node. rewrite crunk_bind.
  destruct (prep_node_neutral n w k Hnode) as [k1 [e [H1 He]]]. rewrite H1.
  destruct e as [err|].
  - rewrite crunk_bind. destruct (sends_core (seq_nat 0 cnt) MCreateErr w k1) as [w2 [H2 [Hc2 Ho2]]]. rewrite H2.
    unfold crunk. cbn [runk]. do 4 eexists. split; [reflexivity|].
    split; [apply repeat_length|]. split; [rewrite created_of_errs, seq_nat_length; simpl; lia|].
    split; [intros p Hp; rewrite created_of_errs in Hp; destruct Hp|].
    split; [intros _; apply He; discriminate|].
    split; [rewrite Ho2, seq_nat_length, rev_repeat; reflexivity|].
    rewrite created_of_errs. simpl. rewrite !app_nil_r. exact Hc2.
  - destruct (deploy_loop_ms opi pod n r (seq_nat 0 cnt) w k1 (seq_nat_nodup cnt 0)) as [w' [k' [failed [ms [H [Hl [Hcount [Hprops [Hkn [Hout Hcore]]]]]]]]]].
    { intros i _. apply Hf. left; reflexivity. }
    rewrite seq_nat_length in *. do 4 eexists. split; [exact H|]. repeat (split; [assumption|]). assumption.
Qed.

Lemma find_wl_app_none : forall l l2 id, find (fun y => wid_eqb (w_id y) id) l = None ->
  (forall y, In y l2 -> wid_eqb (w_id y) id = false) ->
  find (fun y => wid_eqb (w_id y) id) (l ++ l2) = None.
Proof.
  intros l l2 id H1 H2. destruct (find (fun y => wid_eqb (w_id y) id) (l ++ l2)) eqn:E; auto.
  apply find_some in E. destruct E as [Hin He]. apply in_app_or in Hin. destruct Hin as [Hin|Hin].
  - eapply find_none in H1; eauto. simpl in H1. congruence.
  - rewrite (H2 _ Hin) in He. discriminate.
Qed.
Lemma find_cont_app_none : forall l l2 id, find (fun y => wid_eqb (c_id y) id) l = None ->
  (forall y, In y l2 -> wid_eqb (c_id y) id = false) ->
  find (fun y => wid_eqb (c_id y) id) (l ++ l2) = None.
Proof.
  intros l l2 id H1 H2. destruct (find (fun y => wid_eqb (c_id y) id) (l ++ l2)) eqn:E; auto.
  apply find_some in E. destruct E as [Hin He]. apply in_app_or in Hin. destruct Hin as [Hin|Hin].
  - eapply find_none in H1; eauto. simpl in H1. congruence.
  - rewrite (H2 _ Hin) in He. discriminate.
Qed.

Lemma filter_none : forall A (f : A -> bool) l, (forall x, In x l -> f x = false) -> filter f l = [].
Proof.
  induction l as [|x t IH]; intros H; simpl; auto.
  rewrite (H x (or_introl eq_refl)). apply IH. intros; apply H; right; auto.
Qed.

Fixpoint plan_total (plan : list (name * nat)) : nat := match plan with [] => 0 | (_, k) :: t => k + plan_total t end.
Fixpoint rb_len (rb : list (name * list nat)) (n : name) : nat :=
  match rb with
  | [] => 0%nat
  | g :: t => ((if Nat.eqb (fst g) n then length (snd g) else 0) + rb_len t n)%nat
  end.
Definition created_on (ms : list msg) (n : name) : nat := length (filter (fun p => Nat.eqb (wi_node (fst p)) n) (created_of ms)).

(* doDeployWorkloads over the whole plan: one message per planned instance; exactly the instances
   reported as created are recorded and running; per node, rolled-back + created = planned *)
Lemma deploy_all_ms : forall opi pod r plan w k,
  NoDup (map fst plan) -> fresh_on w opi (map fst plan) -> (forall n, In n (map fst plan) -> find_node w n <> None) ->
  exists w' k' rb ms, crunk (deploy_all opi pod r plan) w k = (w', k', (rb, ms)) /\
    length ms = plan_total plan /\
    (rb <> [] -> k' = None) /\
    (forall p, In p (created_of ms) -> wi_op (fst p) = opi /\ In (wi_node (fst p)) (map fst plan) /\ snd p = r) /\
    (forall n cnt, In (n, cnt) plan -> (rb_len rb n + created_on ms n = cnt)%nat) /\
    (forall n, ~ In n (map fst plan) -> rb_len rb n = 0%nat) /\
    (forall g, In g rb -> In (fst g) (map fst plan)) /\
    out w' = rev ms ++ out w /\
    core3 w' w (wls w ++ map (wl_of pod) (created_of ms)) (conts w ++ map cont_of (created_of ms)).
Proof.
  intros opi pod r plan. induction plan as [|[n cnt] rest IH]; intros w k Hnd Hf Hnodes.
  - unfold crunk. simpl. do 4 eexists. split; [reflexivity|]. split; [reflexivity|]. split; [congruence|].
    split; [intros p []|]. split; [intros ? ? []|]. split; [reflexivity|]. split; [intros g []|]. split; [reflexivity|]. simpl. rewrite !app_nil_r. apply core3_refl.
  - cbn [map fst] in *. inversion Hnd as [|? ? Hni Hnd']; subst.
    cbn [deploy_all]. rewrite crunk_bind.
    destruct (deploy_on_node_ms opi pod n cnt r w k) as [w1 [k1 [failed [ms1 [H1 [Hl1 [Hcnt1 [Hok1 [Hk1 [Hout1 Hc1]]]]]]]]]].
    { intros n0 i [<-|[]]. apply Hf. left; reflexivity. }
    { apply Hnodes. left; reflexivity. }
    rewrite H1. rewrite crunk_bind.
    assert (Hf1 : fresh_on w1 opi (map fst rest)).
    { intros n' i Hn'. assert (Hne : n' <> n) by (intro; subst; auto).
      destruct (Hf n' i (or_intror Hn')) as [Hx Hc]. unfold fresh, find_wl, find_cont in *.
      destruct Hc1 as [_ [_ [_ [_ [_ [Hw1 Hcc1]]]]]]. rewrite Hw1, Hcc1. split.
      - apply find_wl_app_none; auto. intros y Hy. apply in_map_iff in Hy. destruct Hy as [p [<- Hp]].
        destruct (Hok1 p Hp) as [_ [Hn _]]. unfold wl_of; simpl. unfold wid_eqb; simpl.
        destruct (fst p) as [o nn ii]; simpl in *. subst nn.
        assert (Nat.eqb n n' = false) as -> by (apply Nat.eqb_neq; auto). rewrite andb_false_r. reflexivity.
      - apply find_cont_app_none; auto. intros y Hy. apply in_map_iff in Hy. destruct Hy as [p [<- Hp]].
        destruct (Hok1 p Hp) as [_ [Hn _]]. unfold cont_of; simpl. unfold wid_eqb; simpl.
        destruct (fst p) as [o nn ii]; simpl in *. subst nn.
        assert (Nat.eqb n n' = false) as -> by (apply Nat.eqb_neq; auto). rewrite andb_false_r. reflexivity. }
    assert (Hnodes1 : forall n', In n' (map fst rest) -> find_node w1 n' <> None).
    { intros n' Hn'. unfold find_node. destruct Hc1 as [_ [Hnn _]]. rewrite Hnn. apply Hnodes. right; exact Hn'. }
    destruct (IH w1 k1 Hnd' Hf1 Hnodes1) as [w2 [k2 [rb [ms2 [H2 [Hl2 [Hk2 [Hok2 [Hcnt2 [Hrb0 [Hrbin [Hout2 Hc2]]]]]]]]]]]].
    rewrite H2. unfold crunk. cbn [runk fst snd].
    (* no created instance of the rest is on n, none of ms1 is on a later node *)
    assert (Hon1 : forall n', n' <> n -> created_on ms1 n' = 0%nat).
    { intros n' Hne. unfold created_on. rewrite filter_none; [reflexivity|].
      intros p Hp. destruct (Hok1 p Hp) as [_ [Hn _]]. rewrite Hn. apply Nat.eqb_neq; auto. }
    assert (Hon2 : created_on ms2 n = 0%nat).
    { unfold created_on. rewrite filter_none; [reflexivity|].
      intros p Hp. destruct (Hok2 p Hp) as [_ [Hn _]]. apply Nat.eqb_neq. intro E. rewrite E in Hn. auto. }
    assert (Happ : forall m, created_on (ms1 ++ ms2) m = (created_on ms1 m + created_on ms2 m)%nat).
    { intros m. unfold created_on. rewrite created_of_app, filter_app, app_length. reflexivity. }
    exists w2, k2, (match failed with [] => rb | _ => (n, failed) :: rb end), (ms1 ++ ms2).
    split; [reflexivity|].
    split; [rewrite app_length, Hl1, Hl2; reflexivity|].
    split.
    { destruct failed as [|f0 ft]; [exact Hk2|]. intros _.
      rewrite (Hk1 ltac:(discriminate)) in H2. apply crunk_none_k in H2. exact H2. }
    split.
    { intros p Hp. rewrite created_of_app in Hp. apply in_app_or in Hp. destruct Hp as [Hp|Hp].
      - destruct (Hok1 p Hp) as [? [? ?]]. split; auto. split; auto. left; auto.
      - destruct (Hok2 p Hp) as [? [? ?]]. split; auto. split; auto. right; auto. }
    assert (Hrbn : rb_len (match failed with [] => rb | _ => (n, failed) :: rb end) n = length failed).
    { destruct failed as [|f0 ft]; [simpl; apply Hrb0; exact Hni|]. cbn [rb_len fst snd]. rewrite Nat.eqb_refl. rewrite (Hrb0 n Hni). lia. }
    assert (Hrbo : forall n', n' <> n -> rb_len (match failed with [] => rb | _ => (n, failed) :: rb end) n' = rb_len rb n').
    { intros n' Hne. destruct failed as [|f0 ft]; [reflexivity|]. cbn [rb_len fst snd].
      assert (Nat.eqb n n' = false) as -> by (apply Nat.eqb_neq; auto). reflexivity. }
    split.
    { intros n' cnt' [Heq|Hin].
      - inversion Heq; subst. rewrite Hrbn, Happ, Hon2.
        assert (created_on ms1 n' = length (created_of ms1)).
        { unfold created_on. f_equal. apply filter_true. intros p Hp. destruct (Hok1 p Hp) as [_ [-> _]]. apply Nat.eqb_refl. }
        lia.
      - assert (Hne : n' <> n) by (intro; subst; apply Hni; apply in_map_iff; exists (n, cnt'); auto).
        rewrite Hrbo by exact Hne. rewrite Happ, (Hon1 n' Hne). simpl. apply Hcnt2; auto. }
    split.
    { intros n' Hn'. assert (Hne : n' <> n) by (intro; subst; apply Hn'; left; reflexivity).
      rewrite Hrbo by exact Hne. apply Hrb0. intro. apply Hn'. right; auto. }
    split.
    { intros g Hg. destruct failed as [|f0 ft]; [right; apply Hrbin; exact Hg|].
      destruct Hg as [<-|Hg]; [left; reflexivity|right; apply Hrbin; exact Hg]. }
    split.
    { rewrite Hout2, Hout1, rev_app_distr, app_assoc. reflexivity. }
    rewrite created_of_app, !map_app, !app_assoc.
    destruct Hc1 as [Hp1 [Hn1 [Hpl1 [Hst1 [Hsc1 [Hw1 Hcc1]]]]]].
    destruct Hc2 as [Hp2 [Hn2 [Hpl2 [Hst2 [Hsc2 [Hw2 Hcc2]]]]]].
    unfold core3. rewrite Hp2, Hn2, Hpl2, Hst2, Hsc2, Hw2, Hcc2, Hp1, Hn1, Hpl1, Hst1, Hsc1, Hw1, Hcc1. repeat split.
Qed.
