(* Calcium/CreateProofs.v — doCreateWorkloads for EVERY world, feasible plan and fault position:
   the allocation loop, the rollback loop, the lock wrappers, and the assembled theorem
   [create_spec]: the records and containers added are exactly those of the success messages, the
   usage of every node grows by exactly the resources of the instances created on it, one failure
   message with nothing created or one message per planned instance. *)
From Coq Require Import List Bool Arith ZArith Lia Permutation.
From Verif Require Import Base.Effects Calcium.World Calcium.Ops Calcium.Run Calcium.EffectsProofs Calcium.OpsProofs Calcium.OpsProofs2 Calcium.InvProofs Calcium.DeployProofs Calcium.DeployProofs2.
Import ListNotations.
Local Open Scope Z_scope.

(* ---- programs that leave pods, nodes, plugs, records and containers alone ---- *)
Definition core_neutral {A} (p : cprog A) : Prop :=
  forall w k, exists w' k' a, crunk p w k = (w', k', a) /\ core3 w' w (wls w) (conts w).

Lemma core_neutral_ret : forall A (a : A), core_neutral (Ret a).
Proof. intros A a w k. unfold crunk. simpl. do 3 eexists. split; [reflexivity|apply core3_refl]. Qed.

Lemma core_neutral_bind : forall A B (p : cprog A) (f : A -> cprog B),
  core_neutral p -> (forall a, core_neutral (f a)) -> core_neutral (bind p f).
Proof.
  intros A B p f Hp Hf w k. rewrite crunk_bind. destruct (Hp w k) as [w1 [k1 [a [H1 Hc1]]]]. rewrite H1.
  destruct (Hf a w1 k1) as [w2 [k2 [b [H2 Hc2]]]]. do 3 eexists. split; [exact H2|]. eapply core3_trans; eauto.
Qed.

Lemma core_neutral_for_all : forall X (l : list X) (body : X -> cprog unit),
  (forall x, core_neutral (body x)) -> core_neutral (for_all l body).
Proof.
  induction l as [|x t IH]; intros body Hb; cbn [for_all].
  - apply core_neutral_ret.
  - apply core_neutral_bind; auto.
Qed.

Definition core_call (c : call) : Prop := forall w, core3 (fst (exec w c)) w (wls w) (conts w).

Lemma core_neutral_call : forall c, core_call c -> core_neutral (ign (doc c)).
Proof.
  intros c Hc w k. unfold ign, doc, call1, crunk. cbn [bind runk]. pose proof (Hc w) as H.
  destruct (is_faultable c).
  - destruct k as [[|k]|]; cbn [bind runk].
    + do 3 eexists. split; [reflexivity|apply core3_refl].
    + destruct (exec w c) as [w' r]. do 3 eexists. split; [reflexivity|exact H].
    + destruct (exec w c) as [w' r]. do 3 eexists. split; [reflexivity|exact H].
  - destruct (exec w c) as [w' r]. do 3 eexists. split; [reflexivity|exact H].
Qed.

Lemma core_call_delproc : forall n i, core_call (SDeleteProcessing n i).
Proof. intros n i w. cbn [exec fst]. repeat split. Qed.
Lemma core_call_commit : forall t e, core_call (WCommit t e).
Proof. intros t e w. cbn [exec fst]. repeat split. Qed.
Lemma core_call_send : forall m, core_call (Send m).
Proof. intros m w. cbn [exec fst]. repeat split. Qed.

Lemma commit_processing_neutral : forall opi l, core_neutral (commit_processing opi l).
Proof.
  induction l as [|[n [t|]] rest IH]; cbn [commit_processing].
  - apply core_neutral_ret.
  - apply core_neutral_bind; [apply core_neutral_call, core_call_commit|intros; exact IH].
  - apply core_neutral_ret.
Qed.

(* ---- the allocation loop of the condition step ---- *)
Fixpoint scale (k : nat) (r : res) : res := match k with O => rzero | S j => radd r (scale j r) end.
Lemma rsum_repeat : forall r k, rsum (repeat r k) = scale k r.
Proof. induction k; simpl; congruence. Qed.

Definition alloc_eff (r : res) (done : list (name * nat)) (P : list plug) : list plug :=
  fold_left (fun P g => upd_plug (fst g) (add_use (scale (snd g) r)) P) done P.

Definition feasible (w : world) (r : res) (plan : list (name * nat)) : Prop :=
  forall n cnt, In (n, cnt) plan -> exists p, find_plug w n = Some p /\ fits p (Z.of_nat cnt) r = true.

Lemma find_plug_upd_other : forall n f l m, (forall x, p_node (f x) = p_node x) -> n <> m ->
  find (fun x => Nat.eqb (p_node x) m) (upd_plug n f l) = find (fun x => Nat.eqb (p_node x) m) l.
Proof.
  intros n f l m Hf Hne. rewrite find_plug_upd by exact Hf.
  destruct (find (fun x => Nat.eqb (p_node x) m) l) as [x|] eqn:E; [|reflexivity]. simpl.
  apply find_some in E. destruct E as [_ E]. apply Nat.eqb_eq in E.
  assert (Nat.eqb (p_node x) n = false) as -> by (apply Nat.eqb_neq; congruence). reflexivity.
Qed.

Record alloc_post (r : res) (plan : list (name * nat)) (s s' : cstate_create) (w w' : world) (k' : option nat) (e : oerr) (done : list (name * nat)) : Prop := {
  ap_alloc : cs_alloc s' = cs_alloc s ++ done;
  ap_prefix : exists rest, plan = done ++ rest;
  ap_ok : e = None -> done = plan;
  ap_k : e <> None -> k' = None;
  ap_plan : cs_plan s' = cs_plan s;
  ap_tok : cs_rtoken s' = cs_rtoken s;
  ap_pods : pods w' = pods w; ap_nodes : nodes w' = nodes w; ap_wls : wls w' = wls w; ap_conts : conts w' = conts w;
  ap_strict : strict_remove w' = strict_remove w; ap_script : script w' = script w;
  ap_plugs : plugs w' = alloc_eff r done (plugs w);
  ap_out : out w' = out w;
}.

Lemma alloc_loop_spec : forall opi r plan s w k,
  NoDup (map fst plan) -> feasible w r plan ->
  exists w' k' s' e done, crunk (alloc_loop opi r plan s) w k = (w', k', (s', e)) /\ alloc_post r plan s s' w w' k' e done.
Proof.
  intros opi r plan. induction plan as [|[n cnt] rest IH]; intros s w k Hnd Hfe.
  - unfold crunk. simpl. exists w, k, s, None, []. split; [reflexivity|].
    constructor; auto; try (rewrite app_nil_r; reflexivity); try congruence. exists []. reflexivity.
  - cbn [map fst] in Hnd. inversion Hnd as [|? ? Hni Hnd']; subst.
    destruct (Hfe n cnt (or_introl eq_refl)) as [p [Hp Hfit]]. unfold find_plug in Hp.
    (* what the world looks like once this node is allocated, logged and marked *)
    assert (Hfail0 : forall (kk : option nat), alloc_post r ((n, cnt) :: rest) s s w w kk (Some EInjected) [] -> True) by auto.
    cbn [alloc_loop]. unfold doc, call1, crunk. norm.
    assert (Hrest : forall w3, plugs w3 = upd_plug n (add_use (scale cnt r)) (plugs w) -> feasible w3 r rest).
    { intros w3 Hpl n' cnt' Hin. assert (Hne : n <> n').
      { intro; subst. apply Hni. apply in_map_iff. exists (n', cnt'). auto. }
      destruct (Hfe n' cnt' (or_intror Hin)) as [p' [Hp' Hfit']]. exists p'. split; [|exact Hfit'].
      unfold find_plug in *. rewrite Hpl. rewrite find_plug_upd_other; auto. }
    destruct k as [[|k]|]; norm.
    + (* Alloc fails *)
      exists w, None, s, (Some EInjected), []. split; [reflexivity|].
      constructor; auto; try (rewrite app_nil_r; reflexivity); try congruence. exists ((n, cnt) :: rest). reflexivity.
    + cbn [exec]. unfold find_plug. rewrite Hp, Hfit. norm. rewrite rsum_repeat.
      destruct k as [|k]; norm.
      * (* the processing WAL entry cannot be written *)
        do 4 eexists. exists [(n, cnt)]. split; [reflexivity|].
        constructor; cbn [cs_alloc cs_plan cs_rtoken cs_ptokens]; try reflexivity; try congruence.
        exists rest. reflexivity.
      * cbn [exec]. norm.
        destruct k as [|k]; norm.
        -- (* CreateProcessing fails *)
           do 4 eexists. exists [(n, cnt)]. split; [reflexivity|].
           constructor; cbn [cs_alloc cs_plan cs_rtoken cs_ptokens]; try reflexivity; try congruence.
           exists rest. reflexivity.
        -- cbn [exec]. norm.
           match goal with |- context [runk _ _ _ _ _ _ (alloc_loop opi r rest ?s1) ?w3 (Some k)] =>
             destruct (IH s1 w3 (Some k) Hnd' (Hrest w3 eq_refl)) as [w' [k' [s' [e [done [H Hpost]]]]]] end.
           unfold crunk in H. rewrite H. exists w', k', s', e, ((n, cnt) :: done). split; [reflexivity|].
           destruct Hpost. constructor; auto.
           ++ rewrite ap_alloc0. cbn [cs_alloc]. rewrite <- app_assoc. reflexivity.
           ++ destruct ap_prefix0 as [rr ->]. exists rr. reflexivity.
           ++ intros E. rewrite (ap_ok0 E). reflexivity.
    + cbn [exec]. unfold find_plug. rewrite Hp, Hfit. norm. rewrite rsum_repeat.
      cbn [exec]. norm. cbn [exec]. norm.
      match goal with |- context [runk _ _ _ _ _ _ (alloc_loop opi r rest ?s1) ?w3 None] =>
        destruct (IH s1 w3 None Hnd' (Hrest w3 eq_refl)) as [w' [k' [s' [e [done [H Hpost]]]]]] end.
      unfold crunk in H. rewrite H. exists w', k', s', e, ((n, cnt) :: done). split; [reflexivity|].
      destruct Hpost. constructor; auto.
      * rewrite ap_alloc0. cbn [cs_alloc]. rewrite <- app_assoc. reflexivity.
      * destruct ap_prefix0 as [rr ->]. exists rr. reflexivity.
      * intros E. rewrite (ap_ok0 E). reflexivity.
Qed.

(* ---- the rollback loop, run without a fault ---- *)
Lemma with_node_pod_locked_none : forall n (body : node -> cprog oerr) w x,
  find_node w n = Some x ->
  exists w1 r, crunk (with_node_pod_locked n body) w None = (w1, None, r) /\ crunk (body x) w None = (w1, None, r).
Proof.
  intros n body w x Hx.
  assert (Hn : n_name x = n). { unfold find_node in Hx. apply find_some in Hx. destruct Hx as [_ Hx]. apply Nat.eqb_eq in Hx. exact Hx. }
  unfold with_node_pod_locked, with_nodes_pod_locked. unfold crunk. lnorm.
  cbn [exec]. rewrite Hx. lnorm. cbn [exec]. lnorm. cbn [exec]. lnorm. cbn [find]. rewrite Hn, Nat.eqb_refl.
  destruct (locked_body_spec (body x) (LPod (n_pod x)) w None) as [w' [k' [k2 [r [H1 H2]]]]].
  pose proof (crunk_none_k _ _ _ _ _ _ H1). pose proof (crunk_none_k _ _ _ _ _ _ H2). subst.
  unfold crunk in H1. exists w', r. split; [exact H1|exact H2].
Qed.

Definition rollback_eff (r : res) (rb : list (name * list nat)) (P : list plug) : list plug :=
  fold_left (fun P g => upd_plug (fst g) (sub_use (scale (length (snd g)) r)) P) rb P.

Lemma rollback_spec : forall r rb w,
  (forall g, In g rb -> find_node w (fst g) <> None /\ find_plug w (fst g) <> None) ->
  exists w', crunk (rollback_prog r rb) w None = (w', None, tt) /\
    pods w' = pods w /\ nodes w' = nodes w /\ wls w' = wls w /\ conts w' = conts w /\
    strict_remove w' = strict_remove w /\ script w' = script w /\ markers w' = markers w /\ walq w' = walq w /\ wal_seq w' = wal_seq w /\ out w' = out w /\
    plugs w' = rollback_eff r rb (plugs w).
Proof.
  intros r rb. induction rb as [|g rest IH]; intros w H.
  - unfold crunk. simpl. exists w. repeat split.
  - unfold rollback_prog. cbn [for_all]. rewrite crunk_bind. unfold ign at 1. rewrite crunk_bind.
    destruct (H g (or_introl eq_refl)) as [Hnode Hplug].
    destruct (find_node w (fst g)) as [x|] eqn:Hx; [|congruence].
    destruct (with_node_pod_locked_none (fst g) (fun _ => doc (PRollbackAlloc (fst g) (repeat r (length (snd g))))) w x Hx) as [w1 [e [H1 H2]]].
    rewrite H1.
    (* the body: the plugin gives the resources back *)
    unfold doc, call1, crunk in H2. cbn [bind runk exec] in H2.
    destruct (find_plug w (fst g)) as [p|] eqn:Hp; [|congruence].
    cbn [err_of] in H2. inversion H2; subst w1 e. clear H2.
    unfold crunk at 1. cbn [runk].
    destruct (IH (set_plugs w (upd_plug (fst g) (sub_use (rsum (repeat r (length (snd g))))) (plugs w)))) as [w' [H3 Hrest]].
    { intros g' Hg'. destruct (H g' (or_intror Hg')) as [Hn' Hp']. split.
      - exact Hn'.
      - unfold find_plug in *. cbn [plugs set_plugs]. rewrite find_plug_upd by reflexivity.
        destruct (find (fun x0 => Nat.eqb (p_node x0) (fst g')) (plugs w)); [discriminate|congruence]. }
    unfold rollback_prog in H3. rewrite H3. exists w'. split; [reflexivity|].
    destruct Hrest as [? [? [? [? [? [? [? [? [? [? Hpl]]]]]]]]]].
    cbn [pods nodes wls conts strict_remove script markers walq wal_seq out plugs set_plugs] in *.
    repeat split; auto. rewrite Hpl. unfold rollback_eff. cbn [fold_left]. rewrite rsum_repeat. reflexivity.
Qed.

(* ---- lock acquisition and release never change the world; they fail only by the injected fault ---- *)
Lemma release_neutral : forall held w k, exists k', crunk (release held) w k = (w, k', tt).
Proof.
  induction held as [|key rest IH]; intros w k; unfold release in *; cbn [for_all].
  - unfold crunk. simpl. eexists; reflexivity.
  - rewrite crunk_bind. destruct (unlock_neutral key w k) as [k1 H1]. rewrite H1. apply IH.
Qed.

Lemma acquire_neutral : forall ks held w k,
  exists k' a, crunk (acquire ks held) w k = (w, k', a) /\ (fst a <> None -> k' = None).
Proof.
  induction ks as [|key rest IH]; intros held w k; cbn [acquire].
  - unfold crunk. simpl. do 2 eexists. split; [reflexivity|]. simpl. congruence.
  - unfold doc, call1, ign, crunk. norm.
    destruct k as [[|k]|]; norm.
    + do 2 eexists. split; [reflexivity|]. reflexivity.
    + cbn [exec]. norm. destruct k as [|k]; norm.
      * cbn [exec]. norm. do 2 eexists. split; [reflexivity|]. reflexivity.
      * cbn [exec]. norm. apply (IH (key :: held) w (Some k)).
    + cbn [exec]. norm. cbn [exec]. norm. apply (IH (key :: held) w None).
Qed.

Lemma feasible_plugs : forall w w' r plan, plugs w' = plugs w -> feasible w r plan -> feasible w' r plan.
Proof. intros w w' r plan H Hf n cnt Hin. destruct (Hf n cnt Hin) as [p [Hp Hfit]]. exists p. unfold find_plug in *. rewrite H. auto. Qed.

Record cond_post (r : res) (plan : option (list (name * nat))) (s1 : cstate_create) (w w1 : world) (k1 : option nat) (e : oerr) : Prop := {
  cp_pods : pods w1 = pods w; cp_nodes : nodes w1 = nodes w; cp_wls : wls w1 = wls w; cp_conts : conts w1 = conts w;
  cp_strict : strict_remove w1 = strict_remove w; cp_script : script w1 = script w;
  cp_plugs : plugs w1 = alloc_eff r (cs_alloc s1) (plugs w);
  cp_out : out w1 = out w;
  cp_prefix : match plan with Some dm => exists rest, dm = cs_alloc s1 ++ rest | None => cs_alloc s1 = [] end;
  cp_ok : e = None -> exists dm, plan = Some dm /\ cs_alloc s1 = dm /\ cs_plan s1 = dm;
  cp_fail : e <> None -> cs_alloc s1 = [] \/ k1 = None;
}.

Lemma cond_body_spec : forall opi r plan ns w k,
  match plan with Some dm => NoDup (map fst dm) /\ feasible w r dm | None => True end ->
  exists w1 k1 s1 e, crunk (cond_body opi r plan (mkCS None [] [] []) ns) w k = (w1, k1, (s1, e)) /\ cond_post r plan s1 w w1 k1 e.
Proof.
  intros opi r plan ns w k Hplan.
  assert (Hpre0 : match plan with Some dm => exists rest, dm = [] ++ rest | None => @nil (name * nat) = [] end).
  { destruct plan as [dm|]; [exists dm; reflexivity|reflexivity]. }
  destruct ns as [|n0 nrest].
  - unfold crunk. simpl. do 4 eexists. split; [reflexivity|]. constructor; auto; try discriminate.
  - unfold cond_body. set (names := map n_name (n0 :: nrest)). unfold doc, call1, crunk. norm.
    destruct k as [[|k]|]; norm.
    + do 4 eexists. split; [reflexivity|]. constructor; auto; try discriminate.
    + cbn [exec]. norm. destruct k as [|k]; norm.
      * do 4 eexists. split; [reflexivity|]. constructor; auto; try discriminate.
      * cbn [exec]. norm. destruct k as [|k]; norm.
        -- do 4 eexists. split; [reflexivity|]. constructor; auto; try discriminate.
        -- cbn [exec]. norm. destruct plan as [dm|].
           ++ destruct Hplan as [Hnd Hfe].
              match goal with |- context [runk _ _ _ _ _ _ (alloc_loop opi r dm ?s0) ?w0 (Some k)] =>
                destruct (alloc_loop_spec opi r dm s0 w0 (Some k) Hnd (feasible_plugs w w0 r dm eq_refl Hfe)) as [w1 [k1 [s1 [e [done [H Hp]]]]]] end.
              unfold crunk in H. rewrite H. do 4 eexists. split; [reflexivity|]. destruct Hp.
              cbn [cs_alloc cs_plan cs_rtoken app pods nodes wls conts strict_remove script plugs set_wal] in *.
              constructor; auto.
              ** rewrite ap_alloc0. exact ap_plugs0.
              ** rewrite ap_alloc0. exact ap_prefix0.
              ** intros E. exists dm. rewrite ap_alloc0, (ap_ok0 E). auto.
           ++ do 4 eexists. split; [reflexivity|]. constructor; auto; try discriminate.
    + cbn [exec]. norm. cbn [exec]. norm. cbn [exec]. norm. destruct plan as [dm|].
      * destruct Hplan as [Hnd Hfe].
        match goal with |- context [runk _ _ _ _ _ _ (alloc_loop opi r dm ?s0) ?w0 None] =>
          destruct (alloc_loop_spec opi r dm s0 w0 None Hnd (feasible_plugs w w0 r dm eq_refl Hfe)) as [w1 [k1 [s1 [e [done [H Hp]]]]]] end.
        unfold crunk in H. rewrite H. do 4 eexists. split; [reflexivity|]. destruct Hp.
        cbn [cs_alloc cs_plan cs_rtoken app pods nodes wls conts strict_remove script plugs set_wal] in *.
        constructor; auto.
        -- rewrite ap_alloc0. exact ap_plugs0.
        -- rewrite ap_alloc0. exact ap_prefix0.
        -- intros E. exists dm. rewrite ap_alloc0, (ap_ok0 E). auto.
      * do 4 eexists. split; [reflexivity|]. constructor; auto; try discriminate.
Qed.
