(* Model of service discovery (C27).

   Part 1  store/etcdv3/service.go : ServiceStatusStream
             watchChan := Watch(prefix)         -- returns once the watch is established
             resp := Get(prefix)                -- at a revision >= the watch start
             eps := {keys of resp}; ch <- eps
             for resp := range watchChan { apply events; if changed { ch <- eps } }
   Part 2  discovery/helium/helium.go : start (the select loop), dispatch,
           Subscribe, Unsubscribe, and the glue of
           cluster/calcium/service.go : WatchServiceStatus
             (Subscribe; on ctx.Done: Unsubscribe).

   Part 2 is a transition system whose events are the atomic actions of the
   goroutines involved; a list of events is a schedule.  Events that are not
   enabled in a state leave it unchanged, so every list of events is a run and
   "for all event scripts" is "for all interleavings".

   No proofs in this file (Discovery/HeliumProofs.v). *)
From Coq Require Import List Bool Arith PeanoNat.
Import ListNotations.

Definition addr := nat.              (* service addresses, renamed to ordinals by the harness *)
Definition aset := list addr.        (* an address list as sent over a channel *)

Fixpoint aset_eqb (a b : aset) : bool :=
  match a, b with
  | [], [] => true
  | x :: a', y :: b' => Nat.eqb x y && aset_eqb a' b'
  | _, _ => false
  end.

(* ------------------------------------------------------------------ *)
(* Part 1: ServiceStatusStream                                         *)
(* ------------------------------------------------------------------ *)

Inductive kvev := Put (a : addr) | Del (a : addr).
Inductive wresp := WEvents (evs : list kvev) | WErr.    (* WErr: resp.Err() != nil, or watchChan closed *)
Inductive srcitem := Item (a : aset) | Close.           (* what the stream channel carries; Close = close(ch) *)

Fixpoint mem (a : addr) (s : aset) : bool :=
  match s with [] => false | x :: t => Nat.eqb a x || mem a t end.
(* the endpoint map is kept as a sorted list (ToSlice order is unspecified; the
   harness sorts what it receives) *)
Fixpoint ins (a : addr) (s : aset) : aset :=
  match s with
  | [] => [a]
  | x :: t => if a <? x then a :: s else if a =? x then s else x :: ins a t
  end.
Definition del (a : addr) (s : aset) : aset := filter (fun x => negb (x =? a)) s.

(* endpoints.Add / endpoints.Remove *)
Definition eps_add (a : addr) (e : aset) : aset * bool :=
  if mem a e then (e, false) else (ins a e, true).
Definition eps_remove (a : addr) (e : aset) : aset * bool :=
  if mem a e then (del a e, true) else (e, false).

(* the body of "for _, ev := range resp.Events" *)
Fixpoint apply_events (evs : list kvev) (eps : aset) (changed : bool) : aset * bool :=
  match evs with
  | [] => (eps, changed)
  | ev :: t =>
      let '(eps', c) := match ev with Put a => eps_add a eps | Del a => eps_remove a eps end in
      apply_events t eps' (if c then true else changed)
  end.

(* "for resp := range watchChan": the items sent on ch *)
Fixpoint stream_loop (resps : list wresp) (eps : aset) : list srcitem :=
  match resps with
  | [] => []
  | WErr :: _ => [Close]
  | WEvents evs :: rest =>
      let '(eps', changed) := apply_events evs eps false in
      if changed then Item eps' :: stream_loop rest eps' else stream_loop rest eps'
  end.

(* the registered keys in the store *)
Definition kv_step (keys : aset) (e : kvev) : aset :=
  match e with
  | Put a => if mem a keys then keys else ins a keys
  | Del a => del a keys
  end.
Definition kv_apply (keys : aset) (evs : list kvev) : aset := fold_left kv_step evs keys.
Definition events_of (resps : list wresp) : list kvev :=
  flat_map (fun r => match r with WEvents e => e | WErr => [] end) resps.

(* keys0: registered keys when the watch is established; between: watch
   responses for changes committed before the Get is served; after: later
   responses.  The Get sees keys0 + between, and the watch replays between. *)
Definition service_status_stream (get_ok : bool) (keys0 : aset) (between after : list wresp)
  : list srcitem :=
  if get_ok then
    let kvs := kv_apply keys0 (events_of between) in
    let eps := fold_left (fun e k => fst (eps_add k e)) kvs [] in
    Item eps :: stream_loop (between ++ after) eps
  else [Close].

Fixpoint last_item (l : list srcitem) (d : aset) : aset :=
  match l with
  | [] => d
  | Item a :: t => last_item t a
  | Close :: t => last_item t d
  end.

(* ------------------------------------------------------------------ *)
(* Part 2: helium                                                      *)
(* ------------------------------------------------------------------ *)

(* a subscriber: the entry stored in h.subs plus the state of its user *)
Record client := mkClient {
  ckey : nat;            (* position of the entry's key hash in the haxmap list order *)
  creading : bool;       (* a goroutine is receiving from the channel *)
  ccancel : bool;        (* entry.ctx is done *)
  cclosed : bool;        (* entry.ch is closed *)
  crecv : list aset      (* messages received, newest first *)
}.

Inductive lstate :=
| LSelect                              (* the loop goroutine is at its select *)
| LDispatch (cur : nat) (msg : aset)   (* inside dispatch(status), about to serve subscriber cur *)
| LExit.                               (* "watch channel closed": the goroutine returned *)

Inductive branch := BSrc | BUnsub | BTick.

Inductive tev :=
| TConsume (a : aset)            (* loop received a from the stream channel *)
| TDeliver (i : nat) (a : aset)  (* subscriber i received a *)
| TUnsubRet (i : nat)            (* a call Unsubscribe(i) returned *)
| TClosed (i : nat)              (* subscriber i's channel was closed *)
| TExit.

Record st := mkSt {
  clients : list client;   (* index = subscriber number, in order of Subscribe *)
  subs : list nat;         (* h.subs: subscriber numbers in haxmap iteration order *)
  src : list srcitem;      (* stream channel: head is the value the stream goroutine is blocked sending *)
  unsubq : list nat;       (* goroutines blocked in "h.unsubChan <- id" (FIFO) *)
  tickp : bool;            (* ticker.C holds a tick (capacity 1) *)
  latest : aset;           (* latestStatus.Addresses *)
  loop : lstate;
  trace : list tev         (* newest first; ghost *)
}.

Inductive event :=
| ESrc (it : srcitem)                   (* the stream has its next item to send *)
| ETick                                 (* the ticker fires *)
| ESubscribe (key : nat) (reading : bool)
| ESetReading (i : nat) (b : bool)      (* subscriber i's reader starts / stops receiving *)
| ECancel (i : nat)                     (* the context given to Subscribe is cancelled *)
| EUnsubscribe (i : nat)                (* some goroutine calls Unsubscribe(id of i) *)
| ELoop (b : branch)                    (* the loop's select takes branch b *)
| EDispatch (choice : bool).            (* dispatch's select for the current subscriber proceeds;
                                           choice: send (true) or ctx.Done (false) when both are ready *)

Definition set_clients s v := mkSt v (subs s) (src s) (unsubq s) (tickp s) (latest s) (loop s) (trace s).
Definition set_subs s v := mkSt (clients s) v (src s) (unsubq s) (tickp s) (latest s) (loop s) (trace s).
Definition set_src s v := mkSt (clients s) (subs s) v (unsubq s) (tickp s) (latest s) (loop s) (trace s).
Definition set_unsubq s v := mkSt (clients s) (subs s) (src s) v (tickp s) (latest s) (loop s) (trace s).
Definition set_tickp s v := mkSt (clients s) (subs s) (src s) (unsubq s) v (latest s) (loop s) (trace s).
Definition set_latest s v := mkSt (clients s) (subs s) (src s) (unsubq s) (tickp s) v (loop s) (trace s).
Definition set_loop s v := mkSt (clients s) (subs s) (src s) (unsubq s) (tickp s) (latest s) v (trace s).
Definition add_trace (t : tev) s := mkSt (clients s) (subs s) (src s) (unsubq s) (tickp s) (latest s) (loop s) (t :: trace s).

Definition c_set_reading (b : bool) (c : client) := mkClient (ckey c) b (ccancel c) (cclosed c) (crecv c).
Definition c_cancel (c : client) := mkClient (ckey c) (creading c) true (cclosed c) (crecv c).
Definition c_close (c : client) := mkClient (ckey c) (creading c) true true (crecv c).   (* entry.cancel(); close(entry.ch) *)
Definition c_recv (m : aset) (c : client) := mkClient (ckey c) (creading c) (ccancel c) (cclosed c) (m :: crecv c).

Fixpoint upd {A} (i : nat) (f : A -> A) (l : list A) : list A :=
  match l, i with
  | [], _ => []
  | x :: t, 0 => f x :: t
  | x :: t, S j => x :: upd j f t
  end.

Definition key_of (cl : list client) (i : nat) : nat :=
  match nth_error cl i with Some c => ckey c | None => 0 end.

Fixpoint memn (i : nat) (l : list nat) : bool :=
  match l with [] => false | x :: t => Nat.eqb x i || memn i t end.
Definition remn (i : nat) (l : list nat) : list nat := filter (fun x => negb (x =? i)) l.

(* haxmap keeps its elements in a list sorted by key hash *)
Fixpoint insert_sub (cl : list client) (k n : nat) (l : list nat) : list nat :=
  match l with
  | [] => [n]
  | x :: t => if k <? key_of cl x then n :: l else x :: insert_sub cl k n t
  end.
Definition key_used (cl : list client) (k : nat) (l : list nat) : bool :=
  existsb (fun x => key_of cl x =? k) l.

(* ForEach: item = head.next(); ...; item = item.next() evaluated on the live list *)
Fixpoint after (cur : nat) (l : list nat) : list nat :=
  match l with [] => [] | x :: t => if x =? cur then t else after cur t end.
Definition enter (l : list nat) (msg : aset) : lstate :=
  match l with [] => LSelect | c :: _ => LDispatch c msg end.

(* h.dispatch(ctx, latestStatus) at the end of a loop iteration *)
Definition begin_dispatch (s : st) : st := set_loop s (enter (subs s) (latest s)).
Definition advance (s : st) (cur : nat) (msg : aset) : st := set_loop s (enter (after cur (subs s)) msg).

Definition loop_select (s : st) (b : branch) : st :=
  match b with
  | BSrc =>
      match src s with
      | [] => s
      | Item a :: r => begin_dispatch (add_trace (TConsume a) (set_latest (set_src s r) a))
      | Close :: r => add_trace TExit (set_loop (set_src s r) LExit)
      end
  | BUnsub =>
      match unsubq s with
      | [] => s
      | i :: r =>
          let s1 := add_trace (TUnsubRet i) (set_unsubq s r) in
          let s2 := if memn i (subs s1)
                    then add_trace (TClosed i)
                           (set_subs (set_clients s1 (upd i c_close (clients s1))) (remn i (subs s1)))
                    else s1 in
          begin_dispatch s2
      end
  | BTick => if tickp s then begin_dispatch (set_tickp s false) else s
  end.

Definition dispatch_one (s : st) (cur : nat) (msg : aset) (choice : bool) : st :=
  match nth_error (clients s) cur with
  | None => advance s cur msg
  | Some c =>
      if creading c && (negb (ccancel c) || choice)
      then advance (add_trace (TDeliver cur msg) (set_clients s (upd cur (c_recv msg) (clients s)))) cur msg
      else if ccancel c then advance s cur msg
      else s                                           (* blocked: nobody receives, context live *)
  end.

Definition step (s : st) (e : event) : st :=
  match e with
  | ESrc it => set_src s (src s ++ [it])
  | ETick => set_tickp s true
  | ESubscribe k r =>
      (* uuid-derived 32-bit ids are assumed distinct: a colliding Subscribe is not modelled *)
      if key_used (clients s) k (subs s) then s
      else let n := length (clients s) in
           set_subs (set_clients s (clients s ++ [mkClient k r false false []]))
                    (insert_sub (clients s) k n (subs s))
  | ESetReading i b => set_clients s (upd i (c_set_reading b) (clients s))
  | ECancel i => set_clients s (upd i c_cancel (clients s))
  | EUnsubscribe i => if i <? length (clients s) then set_unsubq s (unsubq s ++ [i]) else s
  | ELoop b => match loop s with LSelect => loop_select s b | _ => s end
  | EDispatch ch => match loop s with LDispatch cur msg => dispatch_one s cur msg ch | _ => s end
  end.

Definition run (s : st) (evs : list event) : st := fold_left step evs s.

Definition init : st := mkSt [] [] [] [] false [] LSelect [].
(* h.store.ServiceStatusStream returned an error: start() returns, no loop goroutine *)
Definition init_failed : st := mkSt [] [] [] [] false [] LExit [].

(* ---- canonical schedules ---- *)

Definition is_nil {A} (l : list A) : bool := match l with [] => true | _ => false end.

(* the loop goroutine can do nothing more without outside help *)
Definition quiescentb (s : st) : bool :=
  match loop s with
  | LSelect => is_nil (src s) && is_nil (unsubq s) && negb (tickp s)
  | _ => false
  end.

(* deterministic fair continuation of the system goroutines alone *)
Definition drain_event (s : st) : option event :=
  match loop s with
  | LDispatch _ _ => Some (EDispatch true)
  | LSelect =>
      if negb (is_nil (src s)) then Some (ELoop BSrc)
      else if negb (is_nil (unsubq s)) then Some (ELoop BUnsub)
      else if tickp s then Some (ELoop BTick) else None
  | LExit => None
  end.
Fixpoint drain (fuel : nat) (s : st) : st :=
  match fuel with
  | 0 => s
  | S f => match drain_event s with Some e => drain f (step s e) | None => s end
  end.
Definition drain_bound (s : st) : nat :=
  (length (src s) + length (unsubq s) + 2) * (length (subs s) + 1).

(* a subscriber in the map that neither receives nor is cancelled *)
Definition stalledb (cl : list client) (i : nat) : bool :=
  match nth_error cl i with Some c => negb (creading c) && negb (ccancel c) | None => false end.
Definition no_stallb (s : st) : bool := forallb (fun i => negb (stalledb (clients s) i)) (subs s).
Definition liveb (s : st) (i : nat) : bool :=
  memn i (subs s) &&
  match nth_error (clients s) i with Some c => creading c && negb (ccancel c) | None => false end.
Definition has_close (l : list srcitem) : bool :=
  existsb (fun x => match x with Close => true | _ => false end) l.
Definition aliveb (s : st) : bool :=
  negb (has_close (src s)) && match loop s with LExit => false | _ => true end.
(* the address list the stream has most recently produced *)
Definition registered (s : st) : aset := last_item (src s) (latest s).
Definition last_recv (s : st) (i : nat) : option aset :=
  match nth_error (clients s) i with Some c => hd_error (crecv c) | None => None end.

(* ------------------------------------------------------------------ *)
(* Correspondence cases                                                *)
(* ------------------------------------------------------------------ *)

(* One harness action per time slot; slots never contain a tick except AWait,
   which spans exactly one tick. *)
Inductive action :=
| ASet (a : aset)             (* stub store: the stream sends a *)
| AClose                      (* stub store: the stream channel is closed *)
| APut (a : addr)             (* etcd: RegisterService(a) *)
| ADel (a : addr)             (* etcd: unregister a *)
| ABatch (evs : list kvev)    (* etcd: several changes in one transaction = one watch response *)
| ASub (key : nat) (reading : bool)
| ARead (i : nat)
| AStall (i : nat)
| ACancel (i : nat)
| AUnsub (i : nat)
| ACancelUnsub (i : nat)      (* calcium.WatchServiceStatus: <-ctx.Done(); Unsubscribe(id) *)
| AWait.

Record slot := mkSlot { act : action; got : list (list aset) }.
   (* got: for every subscriber created so far, the messages it received in this slot, oldest first *)
Record case := mkCase {
  start_err : bool;           (* ServiceStatusStream returned an error *)
  etcd : bool;                (* real etcd store (the model of Part 1 produces the stream items) *)
  keys0 : aset;               (* etcd: addresses registered before helium.New *)
  prewatch : list kvev;       (* etcd: changes committed after helium.New was called, before the stream's Watch *)
  between : list kvev;        (* etcd: changes committed after the stream's Watch and before its Get *)
  slots : list slot;
  fin_closed : list bool;     (* per subscriber: channel observed closed at the end *)
  fin_unsub : list bool       (* per Unsubscribe call, in call order: returned by the end *)
}.

Definition act_events (eps : aset) (a : action) : list event * aset :=
  match a with
  | ASet x => ([ESrc (Item x)], eps)
  | AClose => ([ESrc Close], eps)
  | APut x => let '(eps', ch) := apply_events [Put x] eps false in
              (if ch then [ESrc (Item eps')] else [], eps')
  | ADel x => let '(eps', ch) := apply_events [Del x] eps false in
              (if ch then [ESrc (Item eps')] else [], eps')
  | ABatch evs => let '(eps', ch) := apply_events evs eps false in
              (if ch then [ESrc (Item eps')] else [], eps')
  | ASub k r => ([ESubscribe k r], eps)
  | ARead i => ([ESetReading i true], eps)
  | AStall i => ([ESetReading i false], eps)
  | ACancel i => ([ECancel i], eps)
  | AUnsub i => ([EUnsubscribe i], eps)
  | ACancelUnsub i => ([ECancel i; EUnsubscribe i], eps)
  | AWait => ([ETick], eps)
  end.

(* every way the system goroutines can run to a standstill *)
Definition choices (s : st) : list event :=
  match loop s with
  | LExit => []
  | LSelect =>
      (if is_nil (src s) then [] else [ELoop BSrc]) ++
      (if is_nil (unsubq s) then [] else [ELoop BUnsub]) ++
      (if tickp s then [ELoop BTick] else [])
  | LDispatch cur _ =>
      match nth_error (clients s) cur with
      | None => [EDispatch true]
      | Some c =>
          if creading c && ccancel c then [EDispatch true; EDispatch false]
          else if creading c || ccancel c then [EDispatch true] else []
      end
  end.
Fixpoint settle_all (fuel : nat) (s : st) : list st :=
  match fuel with
  | 0 => [s]
  | S f => match choices s with
           | [] => [s]
           | cs => flat_map (fun e => settle_all f (step s e)) cs
           end
  end.

Definition delta (before after : list client) (i : nat) : list aset :=
  match nth_error after i with
  | None => []
  | Some c2 =>
      let n1 := match nth_error before i with Some c1 => length (crecv c1) | None => 0 end in
      rev (firstn (length (crecv c2) - n1) (crecv c2))
  end.
Fixpoint alist_eqb (a b : list aset) : bool :=
  match a, b with
  | [], [] => true
  | x :: a', y :: b' => aset_eqb x y && alist_eqb a' b'
  | _, _ => false
  end.
Fixpoint obs_match_from (before after : list client) (i : nat) (g : list (list aset)) : bool :=
  match g with
  | [] => Nat.eqb i (length after)
  | x :: t => alist_eqb (delta before after i) x && obs_match_from before after (S i) t
  end.

Definition fuel_of (s : st) : nat := 40 + 4 * (length (src s) + length (unsubq s) + 2) * (length (subs s) + 1).

Definition slot_step (c : st * aset) (sl : slot) : list (st * aset) :=
  let '(s, eps) := c in
  let '(evs, eps') := act_events eps (act sl) in
  let s1 := run s evs in
  map (fun s2 => (s2, eps'))
      (filter (fun s2 => obs_match_from (clients s) (clients s2) 0 (got sl)) (settle_all (fuel_of s1) s1)).

Fixpoint run_slots (cs : list (st * aset)) (sls : list slot) : list (st * aset) :=
  match sls with
  | [] => cs
  | sl :: t => run_slots (flat_map (fun c => slot_step c sl) cs) t
  end.

Fixpoint bools_eqb (a b : list bool) : bool :=
  match a, b with
  | [], [] => true
  | x :: a', y :: b' => Bool.eqb x y && bools_eqb a' b'
  | _, _ => false
  end.
Definition count_unsub_calls (sls : list slot) : nat :=
  length (filter (fun sl => match act sl with AUnsub _ | ACancelUnsub _ => true | _ => false end) sls).
(* Unsubscribe calls return in FIFO order: the first (calls - |unsubq|) have returned *)
Definition unsub_flags (calls : nat) (s : st) : list bool :=
  let done := calls - length (unsubq s) in
  repeat true done ++ repeat false (calls - done).

Definition stream_start (c : case) : list srcitem :=
  service_status_stream true (kv_apply (keys0 c) (prewatch c)) (map (fun e => WEvents [e]) (between c)) [].
Definition init_of (c : case) : st * aset :=
  if start_err c then (init_failed, [])
  else if etcd c then
    let items := stream_start c in
    (drain (8 + 4 * length items) (run init (map ESrc items)), last_item items [])
  else (init, []).

Definition agree (c : case) : bool :=
  let finals := run_slots [init_of c] (slots c) in
  existsb (fun p => bools_eqb (map cclosed (clients (fst p))) (fin_closed c)
                    && bools_eqb (unsub_flags (count_unsub_calls (slots c)) (fst p)) (fin_unsub c))
          finals.

(* ---- boolean reflection of the property on the observed run ---- *)

(* what the script says about each subscriber, independent of the outcome *)
Record cflags := mkFlags { f_reading : bool; f_cancel : bool; f_unsub : bool; f_ptr : nat }.
Record okst := mkOk {
  o_flags : list cflags;
  o_hist : list aset;       (* address lists the stream has produced so far, oldest first; starts with [] *)
  o_eps : aset;             (* etcd mode: endpoint set *)
  o_dead : bool;            (* stream closed / never started: outside the property *)
  o_calls : list nat;       (* subscribers whose Unsubscribe was called, in call order *)
  o_good : bool
}.

(* smallest j >= p with nth j hist = m *)
Fixpoint find_from (hist : list aset) (j p : nat) (m : aset) : option nat :=
  match hist with
  | [] => None
  | x :: t => if (p <=? j) && aset_eqb x m then Some j else find_from t (S j) p m
  end.
Fixpoint check_msgs (hist : list aset) (p : nat) (ms : list aset) : option nat :=
  match ms with
  | [] => Some p
  | m :: t => match find_from hist 0 p m with Some j => check_msgs hist j t | None => None end
  end.
Definition last_of (l : list aset) : option aset := hd_error (rev l).
Definition opt_aset_eqb (a : option aset) (b : aset) : bool :=
  match a with Some x => aset_eqb x b | None => false end.

Definition ok_flags_step (a : action) (fl : list cflags) : list cflags :=
  match a with
  | ASub _ r => fl ++ [mkFlags r false false 0]
  | ARead i => upd i (fun f => mkFlags true (f_cancel f) (f_unsub f) (f_ptr f)) fl
  | AStall i => upd i (fun f => mkFlags false (f_cancel f) (f_unsub f) (f_ptr f)) fl
  | ACancel i => upd i (fun f => mkFlags (f_reading f) true (f_unsub f) (f_ptr f)) fl
  | AUnsub i => upd i (fun f => mkFlags (f_reading f) (f_cancel f) true (f_ptr f)) fl
  | ACancelUnsub i => upd i (fun f => mkFlags (f_reading f) true true (f_ptr f)) fl
  | _ => fl
  end.

(* clause "latest": every message is one of the lists produced so far and a
   subscriber never goes back to an older list; returns updated pointers *)
Fixpoint ok_latest (hist : list aset) (fl : list cflags) (g : list (list aset)) : list cflags * bool :=
  match fl, g with
  | [], [] => ([], true)
  | f :: fl', ms :: g' =>
      let '(r, b) := ok_latest hist fl' g' in
      match check_msgs hist (f_ptr f) ms with
      | Some p => (mkFlags (f_reading f) (f_cancel f) (f_unsub f) p :: r, b)
      | None => (f :: r, false)
      end
  | _, _ => (fl, false)
  end.
(* clause "converge": over a push interval without other actions every live
   subscriber received something and the last message is the current list *)
Fixpoint ok_converge (cur : aset) (fl : list cflags) (g : list (list aset)) : bool :=
  match fl, g with
  | f :: fl', ms :: g' =>
      (if f_reading f && negb (f_cancel f) && negb (f_unsub f)
       then opt_aset_eqb (last_of ms) cur else true) && ok_converge cur fl' g'
  | _, _ => true
  end.

(* the stream side of the script: lists produced so far, endpoint set, stream dead *)
Definition ok_env (o : okst) (a : action) : list aset * aset * bool :=
  match a with
  | ASet x => (o_hist o ++ [x], o_eps o, o_dead o)
  | AClose => (o_hist o, o_eps o, true)
  | APut x => let '(e, ch) := apply_events [Put x] (o_eps o) false in
              (if ch then o_hist o ++ [e] else o_hist o, e, o_dead o)
  | ADel x => let '(e, ch) := apply_events [Del x] (o_eps o) false in
              (if ch then o_hist o ++ [e] else o_hist o, e, o_dead o)
  | ABatch evs => let '(e, ch) := apply_events evs (o_eps o) false in
              (if ch then o_hist o ++ [e] else o_hist o, e, o_dead o)
  | _ => (o_hist o, o_eps o, o_dead o)
  end.
Definition ok_hist (o : okst) (a : action) : list aset := fst (fst (ok_env o a)).
Definition ok_dead (o : okst) (a : action) : bool := snd (ok_env o a).
Definition ok_cur (hist : list aset) : aset := match last_of hist with Some x => x | None => [] end.
(* clause "latest" of a slot: updated subscriber flags and verdict *)
Definition ok_lat (o : okst) (sl : slot) : list cflags * bool :=
  ok_latest (ok_hist o (act sl)) (ok_flags_step (act sl) (o_flags o)) (got sl).
(* clause "converge" of a slot *)
Definition ok_conv (o : okst) (sl : slot) : bool :=
  match act sl with
  | AWait => ok_dead o (act sl) || ok_converge (ok_cur (ok_hist o (act sl))) (fst (ok_lat o sl)) (got sl)
  | _ => true
  end.
Definition ok_step (o : okst) (sl : slot) : okst :=
  let a := act sl in
  let calls := match a with AUnsub i | ACancelUnsub i => o_calls o ++ [i] | _ => o_calls o end in
  mkOk (fst (ok_lat o sl)) (ok_hist o a) (snd (fst (ok_env o a))) (ok_dead o a) calls
       (o_good o && snd (ok_lat o sl) && ok_conv o sl).

Definition ok (c : case) : bool :=
  let e0 := if etcd c then last_item (stream_start c) [] else [] in
  let o0 := mkOk [] (if etcd c then [[]; e0] else [[]]) e0 (start_err c) [] true in
  let o := fold_left ok_step (slots c) o0 in
  o_good o &&
  (o_dead o ||
   (* Unsubscribe always completes and closes the subscriber's channel *)
   (forallb (fun b => b) (fin_unsub c)
    && Nat.eqb (length (fin_unsub c)) (length (o_calls o))
    && forallb (fun i => nth i (fin_closed c) false) (o_calls o))).
