(* Proofs about Part 1 of Discovery/Helium.v: ServiceStatusStream (watch before
   get, event application).  Sets are compared by membership ([meq]): the Go
   code keeps a map and ToSlice has no defined order. *)
From Coq Require Import List Bool Arith PeanoNat Lia.
From Verif Require Import Discovery.Helium.
Import ListNotations.

Definition meq (s t : aset) : Prop := forall b, mem b s = mem b t.

Lemma mem_ins : forall b a s, mem b (ins a s) = (b =? a) || mem b s.
Proof.
  intros b a s. induction s as [|x t IH]; simpl.
  - rewrite orb_false_r. reflexivity.
  - destruct (a <? x) eqn:E1; simpl; [reflexivity|].
    destruct (a =? x) eqn:E2; simpl.
    + apply Nat.eqb_eq in E2. subst. destruct (b =? x); reflexivity.
    + rewrite IH. destruct (b =? x), (b =? a); reflexivity.
Qed.

Lemma mem_del : forall b a s, mem b (del a s) = mem b s && negb (b =? a).
Proof.
  intros b a s. unfold del. induction s as [|x t IH]; simpl; [reflexivity|].
  destruct (x =? a) eqn:E; simpl.
  - rewrite IH. apply Nat.eqb_eq in E. subst.
    destruct (b =? a) eqn:E2; simpl; [rewrite andb_false_r; reflexivity|reflexivity].
  - rewrite IH. destruct (b =? x) eqn:E2; simpl; [|reflexivity].
    apply Nat.eqb_eq in E2. subst. rewrite E. reflexivity.
Qed.

(* one event on the endpoint map / on the store keys, seen through membership of b *)
Definition ev_step (eps : aset) (e : kvev) : aset :=
  fst (match e with Put a => eps_add a eps | Del a => eps_remove a eps end).
Definition mstep (b : addr) (m : bool) (e : kvev) : bool :=
  match e with Put a => (b =? a) || m | Del a => m && negb (b =? a) end.
Definition final_mem (b : addr) (evs : list kvev) (m : bool) : bool := fold_left (mstep b) evs m.

Lemma ev_step_mem : forall b eps e, mem b (ev_step eps e) = mstep b (mem b eps) e.
Proof.
  intros b eps [a|a]; unfold ev_step, eps_add, eps_remove; simpl.
  - destruct (mem a eps) eqn:E; simpl.
    + destruct (b =? a) eqn:E2; simpl; [|reflexivity]. apply Nat.eqb_eq in E2. subst. exact E.
    + apply mem_ins.
  - destruct (mem a eps) eqn:E; simpl.
    + apply mem_del.
    + destruct (b =? a) eqn:E2; simpl; [|rewrite andb_true_r; reflexivity].
      apply Nat.eqb_eq in E2. subst. rewrite E. reflexivity.
Qed.

Lemma kv_step_mem : forall b keys e, mem b (kv_step keys e) = mstep b (mem b keys) e.
Proof.
  intros b keys [a|a]; simpl.
  - destruct (mem a keys) eqn:E.
    + destruct (b =? a) eqn:E2; simpl; [|reflexivity]. apply Nat.eqb_eq in E2. subst. exact E.
    + apply mem_ins.
  - apply mem_del.
Qed.

Lemma fold_ev_step_mem : forall b evs eps,
  mem b (fold_left ev_step evs eps) = final_mem b evs (mem b eps).
Proof.
  intros b evs. induction evs as [|e t IH]; intro eps; simpl; [reflexivity|].
  rewrite IH, ev_step_mem. reflexivity.
Qed.

Lemma kv_apply_mem : forall b evs keys,
  mem b (kv_apply keys evs) = final_mem b evs (mem b keys).
Proof.
  intros b evs. unfold kv_apply. induction evs as [|e t IH]; intro keys; simpl; [reflexivity|].
  rewrite IH, kv_step_mem. reflexivity.
Qed.

(* the effect of an event list on the membership of b is the identity or a constant *)
Lemma final_mem_cases : forall b evs,
  (forall m, final_mem b evs m = m) \/ (exists c, forall m, final_mem b evs m = c).
Proof.
  intros b evs. induction evs as [|e t IH]; [left; reflexivity|].
  unfold final_mem in *. simpl.
  destruct e as [a|a]; simpl; destruct (b =? a) eqn:E; simpl.
  - right. exists (fold_left (mstep b) t true). reflexivity.
  - exact IH.
  - right. exists (fold_left (mstep b) t false). intro m. rewrite andb_false_r. reflexivity.
  - destruct IH as [IH|[c IH]]; [left|right; exists c]; intro m; rewrite andb_true_r; apply IH.
Qed.

(* replaying events that are already reflected changes nothing: this is why
   "watch before get" is safe *)
Lemma final_mem_idem : forall b evs m, final_mem b evs (final_mem b evs m) = final_mem b evs m.
Proof.
  intros b evs m. destruct (final_mem_cases b evs) as [H|[c H]].
  - rewrite !H. reflexivity.
  - rewrite !H. reflexivity.
Qed.

Lemma final_mem_app : forall b e1 e2 m, final_mem b (e1 ++ e2) m = final_mem b e2 (final_mem b e1 m).
Proof. intros. unfold final_mem. apply fold_left_app. Qed.

Lemma apply_events_fst : forall evs eps c, fst (apply_events evs eps c) = fold_left ev_step evs eps.
Proof.
  induction evs as [|e t IH]; intros eps c; simpl; [reflexivity|].
  unfold ev_step at 2.
  destruct (match e with Put a => eps_add a eps | Del a => eps_remove a eps end) as [eps' c'] eqn:E.
  simpl. apply IH.
Qed.

Lemma eps_step_unchanged : forall e eps,
  snd (match e with Put a => eps_add a eps | Del a => eps_remove a eps end) = false ->
  ev_step eps e = eps.
Proof.
  intros [a|a] eps; unfold ev_step, eps_add, eps_remove; destruct (mem a eps); simpl; congruence.
Qed.

Lemma apply_events_unchanged : forall evs eps c,
  snd (apply_events evs eps c) = false -> c = false /\ fold_left ev_step evs eps = eps.
Proof.
  induction evs as [|e t IH]; intros eps c H; simpl in *; [auto|].
  pose proof (eps_step_unchanged e eps) as U. unfold ev_step in *.
  destruct (match e with Put a => eps_add a eps | Del a => eps_remove a eps end) as [eps' c'] eqn:E.
  simpl in *. apply IH in H. destruct H as [H1 H2].
  destruct c'; [discriminate|]. split; [exact H1|]. rewrite U in * by reflexivity. exact H2.
Qed.

Fixpoint no_err (resps : list wresp) : Prop :=
  match resps with [] => True | WErr :: _ => False | WEvents _ :: t => no_err t end.

(* the last list sent is the endpoint map after all responses *)
Lemma last_item_stream_loop : forall resps eps, no_err resps ->
  last_item (stream_loop resps eps) eps = fold_left ev_step (events_of resps) eps.
Proof.
  induction resps as [|r t IH]; intros eps H; simpl; [reflexivity|].
  destruct r as [evs|]; [|destruct H]. simpl in H.
  rewrite fold_left_app.
  pose proof (apply_events_fst evs eps false) as F.
  pose proof (apply_events_unchanged evs eps false) as U.
  destruct (apply_events evs eps false) as [eps' ch]. simpl in *. subst eps'.
  destruct ch; simpl.
  - apply IH. exact H.
  - destruct (U eq_refl) as [_ U2]. rewrite U2. apply IH. exact H.
Qed.

Lemma fold_add_mem : forall b kvs acc,
  mem b (fold_left (fun e k => fst (eps_add k e)) kvs acc) = mem b kvs || mem b acc.
Proof.
  intros b kvs. induction kvs as [|k t IH]; intro acc; simpl; [reflexivity|].
  rewrite IH. change (fst (eps_add k acc)) with (ev_step acc (Put k)).
  rewrite ev_step_mem. simpl. destruct (b =? k), (mem b t), (mem b acc); reflexivity.
Qed.

(* C27, stream part: whatever happened between establishing the watch and
   serving the Get, and however the later events are batched, the last address
   list sent on the stream is exactly the set of registered keys. *)
Theorem stream_converges : forall keys0 between after,
  no_err (between ++ after) ->
  meq (last_item (service_status_stream true keys0 between after) [])
      (kv_apply keys0 (events_of (between ++ after))).
Proof.
  intros keys0 between after H b. unfold service_status_stream. simpl.
  rewrite last_item_stream_loop by exact H.
  rewrite fold_ev_step_mem, fold_add_mem. simpl. rewrite orb_false_r.
  rewrite kv_apply_mem.
  unfold events_of. rewrite flat_map_app. fold (events_of between). fold (events_of after).
  rewrite !kv_apply_mem.
  rewrite !final_mem_app. rewrite final_mem_idem. reflexivity.
Qed.

(* every list sent is the endpoint map at that point: nothing else is ever sent *)
Lemma stream_loop_items : forall resps eps a,
  In (Item a) (stream_loop resps eps) ->
  exists pre, (exists post, events_of resps = pre ++ post) /\ a = fold_left ev_step pre eps.
Proof.
  induction resps as [|r t IH]; intros eps a H; simpl in *; [destruct H|].
  destruct r as [evs|]; [|destruct H as [H|[]]; discriminate].
  pose proof (apply_events_fst evs eps false) as F.
  destruct (apply_events evs eps false) as [eps' ch]. simpl in F. subst eps'.
  assert (R : In (Item a) (stream_loop t (fold_left ev_step evs eps)) ->
              exists pre, (exists post, evs ++ events_of t = pre ++ post) /\ a = fold_left ev_step pre eps).
  { intro H'. apply IH in H'. destruct H' as [pre [[post E] A]].
    exists (evs ++ pre). split.
    - exists post. rewrite E, app_assoc. reflexivity.
    - rewrite fold_left_app. exact A. }
  destruct ch.
  - destruct H as [H|H]; [|apply R; exact H].
    inversion H; subst. exists evs. split; [exists (events_of t); reflexivity|reflexivity].
  - apply R; exact H.
Qed.
