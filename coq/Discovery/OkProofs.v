(* The boolean check [Helium.ok] that the harness evaluates on the
   implementation's observations, against Prop-level statements. *)
From Coq Require Import List Bool Arith PeanoNat Lia.
From Verif Require Import Discovery.Helium.
Import ListNotations.

Lemma aset_eqb_eq : forall a b, aset_eqb a b = true -> a = b.
Proof.
  induction a as [|x a IH]; intros [|y b] H; simpl in H; try discriminate; [reflexivity|].
  apply andb_true_iff in H. destruct H as [H1 H2]. apply Nat.eqb_eq in H1. apply IH in H2. congruence.
Qed.
Lemma aset_eqb_refl : forall a, aset_eqb a a = true.
Proof. induction a; simpl; [reflexivity|]. rewrite Nat.eqb_refl, IHa. reflexivity. Qed.

(* the messages ms occur in hist at positions p <= j1 <= j2 <= ...: each message
   is one of the lists the stream produced, and a subscriber never goes back *)
Fixpoint monotone_in (hist : list aset) (p : nat) (ms : list aset) : Prop :=
  match ms with
  | [] => True
  | m :: t => exists j, p <= j /\ nth_error hist j = Some m /\ monotone_in hist j t
  end.

Lemma find_from_sound : forall hist j0 p m j, find_from hist j0 p m = Some j ->
  p <= j /\ j0 <= j /\ nth_error hist (j - j0) = Some m.
Proof.
  induction hist as [|x t IH]; intros j0 p m j H; simpl in H; [discriminate|].
  destruct ((p <=? j0) && aset_eqb x m) eqn:C.
  - inversion H; subst. apply andb_true_iff in C. destruct C as [C1 C2].
    apply Nat.leb_le in C1. apply aset_eqb_eq in C2. subst. rewrite Nat.sub_diag. simpl. auto.
  - apply IH in H. destruct H as [A [B C']]. split; [exact A|]. split; [lia|].
    replace (j - j0) with (S (j - S j0)) by lia. simpl. exact C'.
Qed.

Lemma check_msgs_sound : forall hist ms p p', check_msgs hist p ms = Some p' -> monotone_in hist p ms.
Proof.
  intros hist ms. induction ms as [|m t IH]; intros p p' H; simpl in *; [exact I|].
  destruct (find_from hist 0 p m) as [j|] eqn:F; [|discriminate].
  apply find_from_sound in F. destruct F as [A [_ C]]. rewrite Nat.sub_0_r in C.
  exists j. split; [exact A|]. split; [exact C|]. apply (IH j p' H).
Qed.

(* clause "latest" for one slot *)
Definition latest_clause (hist : list aset) (fl : list cflags) (g : list (list aset)) : Prop :=
  length fl = length g /\
  forall i f ms, nth_error fl i = Some f -> nth_error g i = Some ms -> monotone_in hist (f_ptr f) ms.

Lemma ok_latest_sound : forall hist fl g, snd (ok_latest hist fl g) = true -> latest_clause hist fl g.
Proof.
  intros hist fl. induction fl as [|f t IH]; intros [|ms g] H; simpl in H; try discriminate.
  - split; [reflexivity|]. intros [|i] ? ? E; discriminate.
  - destruct (ok_latest hist t g) as [r b] eqn:E.
    destruct (check_msgs hist (f_ptr f) ms) as [p|] eqn:C; simpl in H; [|discriminate].
    subst b. assert (X : snd (ok_latest hist t g) = true) by (rewrite E; reflexivity).
    destruct (IH g X) as [L R]. split; [simpl; congruence|].
    intros [|i] f0 ms0 Hf Hm; simpl in *.
    + inversion Hf; inversion Hm; subst. eapply check_msgs_sound. exact C.
    + eapply R; eauto.
Qed.

(* ok_latest only moves the pointers *)
Lemma ok_latest_flags : forall hist fl g i f, nth_error (fst (ok_latest hist fl g)) i = Some f ->
  exists f0, nth_error fl i = Some f0 /\ f_reading f = f_reading f0 /\ f_cancel f = f_cancel f0 /\ f_unsub f = f_unsub f0.
Proof.
  intros hist fl. induction fl as [|f0 t IH]; intros [|ms g] i f H; simpl in H.
  - destruct i; discriminate.
  - exists f. auto.
  - exists f. auto.
  - destruct (ok_latest hist t g) as [r b] eqn:E.
    assert (Hr : r = fst (ok_latest hist t g)) by (rewrite E; reflexivity).
    destruct (check_msgs hist (f_ptr f0) ms); simpl in H; destruct i as [|i]; simpl in *.
    + inversion H; subst. exists f0. simpl. auto.
    + rewrite Hr in H. apply IH in H. exact H.
    + inversion H; subst. exists f. auto.
    + rewrite Hr in H. apply IH in H. exact H.
Qed.

(* clause "converge" for an AWait slot: every live subscriber received
   something and its last message is the current list *)
Definition converge_clause (cur : aset) (fl : list cflags) (g : list (list aset)) : Prop :=
  forall i f ms, nth_error fl i = Some f -> nth_error g i = Some ms ->
    f_reading f = true -> f_cancel f = false -> f_unsub f = false ->
    exists pre, ms = pre ++ [cur].

Lemma last_of_spec : forall ms x, last_of ms = Some x -> exists pre, ms = pre ++ [x].
Proof.
  intros ms x H. unfold last_of in H. destruct (rev ms) as [|y r] eqn:E; simpl in H; [discriminate|].
  inversion H; subst. exists (rev r). rewrite <- (rev_involutive ms), E. reflexivity.
Qed.

Lemma ok_converge_sound : forall cur fl g, ok_converge cur fl g = true -> converge_clause cur fl g.
Proof.
  intros cur fl. induction fl as [|f t IH]; intros [|ms g] H [|i] f0 ms0 Hf Hm R C U; simpl in *; try discriminate.
  - inversion Hf; inversion Hm; subst. apply andb_true_iff in H. destruct H as [H _].
    rewrite R, C, U in H. simpl in H. unfold opt_aset_eqb in H.
    destruct (last_of ms0) as [x|] eqn:L; [|discriminate]. apply aset_eqb_eq in H. subst x.
    apply last_of_spec. exact L.
  - apply andb_true_iff in H. destruct H as [_ H]. eapply IH; eauto.
Qed.

(* what the check demands of one slot *)
Definition slot_clause (o : okst) (sl : slot) : Prop :=
  latest_clause (ok_hist o (act sl)) (ok_flags_step (act sl) (o_flags o)) (got sl) /\
  (act sl = AWait -> ok_dead o (act sl) = false ->
   converge_clause (ok_cur (ok_hist o (act sl))) (fst (ok_lat o sl)) (got sl)).

Lemma ok_step_good : forall o sl, o_good (ok_step o sl) = o_good o && snd (ok_lat o sl) && ok_conv o sl.
Proof. reflexivity. Qed.

Lemma ok_fold : forall sls o, o_good (fold_left ok_step sls o) = true ->
  o_good o = true /\
  forall pre sl post, sls = pre ++ sl :: post ->
    snd (ok_lat (fold_left ok_step pre o) sl) = true /\ ok_conv (fold_left ok_step pre o) sl = true.
Proof.
  induction sls as [|sl t IH]; intros o H; simpl in H.
  - split; [exact H|]. intros [|? ?] ? ? E; discriminate.
  - destruct (IH _ H) as [G R]. rewrite ok_step_good in G.
    apply andb_true_iff in G. destruct G as [G G3]. apply andb_true_iff in G. destruct G as [G1 G2].
    split; [exact G1|]. intros [|x pre] sl0 post E; simpl in E; inversion E; subst.
    + auto.
    + simpl. apply (R pre sl0 post). reflexivity.
Qed.

Definition ok_init (c : case) : okst :=
  let e0 := if etcd c then last_item (stream_start c) [] else [] in
  mkOk [] (if etcd c then [[]; e0] else [[]]) e0 (start_err c) [] true.
Definition ok_final (c : case) : okst := fold_left ok_step (slots c) (ok_init c).

(* "Unsubscribing always completes and closes the subscriber's channel" on the observed run *)
Definition unsub_clause (c : case) : Prop :=
  o_dead (ok_final c) = false ->
  (forall b, In b (fin_unsub c) -> b = true) /\
  length (fin_unsub c) = length (o_calls (ok_final c)) /\
  (forall i, In i (o_calls (ok_final c)) -> nth i (fin_closed c) false = true).

(* C27: [ok c = true] implies the clauses of the property, as propositions over
   what was observed: every slot satisfies "latest" and (across a tick, stream
   alive) "converge"; at the end every Unsubscribe call has returned and the
   channels of the unsubscribed are closed *)
Theorem ok_reflects : forall c, ok c = true ->
  (forall pre sl post, slots c = pre ++ sl :: post -> slot_clause (fold_left ok_step pre (ok_init c)) sl) /\
  unsub_clause c.
Proof.
  intros c H. unfold ok in H. fold (ok_init c) in H. fold (ok_final c) in H.
  apply andb_true_iff in H. destruct H as [G U].
  split.
  - intros pre sl post E. destruct (proj2 (ok_fold _ _ G) pre sl post E) as [L C].
    split.
    + apply ok_latest_sound. exact L.
    + intros A D. unfold ok_conv in C. rewrite A in C. rewrite A in D. rewrite D in C. simpl in C.
      rewrite <- A in C. apply ok_converge_sound. exact C.
  - intro D. rewrite D in U. simpl in U.
    apply andb_true_iff in U. destruct U as [U U3]. apply andb_true_iff in U. destruct U as [U1 U2].
    split; [|split].
    + intros b Hb. rewrite forallb_forall in U1. apply U1 in Hb. exact Hb.
    + apply Nat.eqb_eq. exact U2.
    + intros i Hi. rewrite forallb_forall in U3. apply U3. exact Hi.
Qed.

(* ---- the converse ---- *)

Lemma find_from_complete : forall hist j0 p m i, nth_error hist i = Some m -> p <= j0 + i ->
  exists j, find_from hist j0 p m = Some j /\ p <= j /\ j <= j0 + i.
Proof.
  induction hist as [|x t IH]; intros j0 p m i H L; [destruct i; discriminate|]. simpl.
  destruct ((p <=? j0) && aset_eqb x m) eqn:C.
  - apply andb_true_iff in C. destruct C as [C1 _]. apply Nat.leb_le in C1. exists j0. split; [reflexivity|lia].
  - destruct i as [|i]; simpl in H.
    + inversion H; subst. rewrite aset_eqb_refl, andb_true_r in C. apply Nat.leb_gt in C. lia.
    + destruct (IH (S j0) p m i H) as [j [F [A B]]]; [lia|]. exists j. split; [exact F|lia].
Qed.

Lemma monotone_weaken : forall hist ms p q, p <= q -> monotone_in hist q ms -> monotone_in hist p ms.
Proof.
  intros hist [|m t] p q L H; simpl in *; [exact I|]. destruct H as [j [A [B C]]]. exists j. split; [lia|auto].
Qed.

Lemma check_msgs_complete : forall hist ms p, monotone_in hist p ms -> exists p', check_msgs hist p ms = Some p'.
Proof.
  intros hist ms. induction ms as [|m t IH]; intros p H; simpl in *; [eauto|].
  destruct H as [j [A [B C]]].
  destruct (find_from_complete hist 0 p m j B) as [j' [F [A' B']]]; [lia|]. rewrite F.
  apply IH. apply (monotone_weaken hist t j' j); [lia|exact C].
Qed.

Lemma ok_latest_complete : forall hist fl g, latest_clause hist fl g -> snd (ok_latest hist fl g) = true.
Proof.
  intros hist fl. induction fl as [|f t IH]; intros [|ms g] [L R]; simpl in *; try discriminate; [reflexivity|].
  assert (X : snd (ok_latest hist t g) = true).
  { apply IH. split; [lia|]. intros i f0 ms0 Hf Hm. apply (R (S i) f0 ms0 Hf Hm). }
  destruct (ok_latest hist t g) as [r b]. simpl in X. subst b.
  destruct (check_msgs_complete hist ms (f_ptr f) (R 0 f ms eq_refl eq_refl)) as [p' E]. rewrite E. reflexivity.
Qed.

Lemma last_of_snoc : forall pre (x : aset), last_of (pre ++ [x]) = Some x.
Proof. intros. unfold last_of. rewrite rev_app_distr. reflexivity. Qed.

Lemma ok_converge_complete : forall cur fl g, converge_clause cur fl g -> ok_converge cur fl g = true.
Proof.
  intros cur fl. induction fl as [|f t IH]; intros [|ms g] H; simpl; try reflexivity.
  apply andb_true_iff. split.
  - destruct (f_reading f && negb (f_cancel f) && negb (f_unsub f)) eqn:C; [|reflexivity].
    apply andb_true_iff in C. destruct C as [C C3]. apply andb_true_iff in C. destruct C as [C1 C2].
    apply negb_true_iff in C2. apply negb_true_iff in C3.
    destruct (H 0 f ms eq_refl eq_refl C1 C2 C3) as [pre E]. subst ms. rewrite last_of_snoc. simpl. apply aset_eqb_refl.
  - apply IH. intros i f0 ms0 Hf Hm. apply (H (S i) f0 ms0 Hf Hm).
Qed.

(* the converse: the check accepts every run whose slots satisfy the clauses and
   whose Unsubscribe calls completed *)
Theorem ok_complete : forall c,
  (forall pre sl post, slots c = pre ++ sl :: post -> slot_clause (fold_left ok_step pre (ok_init c)) sl) ->
  (o_dead (ok_final c) = true \/
   ((forall b, In b (fin_unsub c) -> b = true) /\
    length (fin_unsub c) = length (o_calls (ok_final c)) /\
    (forall i, In i (o_calls (ok_final c)) -> nth i (fin_closed c) false = true))) ->
  ok c = true.
Proof.
  intros c H U. unfold ok. fold (ok_init c). fold (ok_final c).
  assert (G : forall sls o, o_good o = true ->
             (forall pre sl post, sls = pre ++ sl :: post -> slot_clause (fold_left ok_step pre o) sl) ->
             o_good (fold_left ok_step sls o) = true).
  { induction sls as [|sl t IH]; intros o Go R; simpl; [exact Go|].
    apply IH.
    - rewrite ok_step_good, Go. simpl. destruct (R [] sl t eq_refl) as [L C]. simpl in L, C.
      unfold ok_lat. rewrite (ok_latest_complete _ _ _ L). simpl. unfold ok_conv.
      destruct (act sl) eqn:A; try reflexivity.
      destruct (ok_dead o AWait) eqn:D; [reflexivity|]. simpl.
      apply ok_converge_complete. apply C; reflexivity.
    - intros pre sl0 post E. apply (R (sl :: pre) sl0 post). simpl. rewrite E. reflexivity. }
  apply andb_true_iff. split.
  - apply G; [reflexivity|exact H].
  - destruct U as [D|[U1 [U2 U3]]]; [rewrite D; reflexivity|].
    apply orb_true_iff. right. apply andb_true_iff. split; [apply andb_true_iff; split|].
    + apply forallb_forall. intros b Hb. apply U1 in Hb. exact Hb.
    + apply Nat.eqb_eq. exact U2.
    + apply forallb_forall. exact U3.
Qed.

(* ---- the model's own output ---- *)

(* the model's own output under its canonical schedule *)
Fixpoint gen_from (c : st * aset) (acts : list action) : list slot * st :=
  match acts with
  | [] => ([], fst c)
  | a :: t =>
      let '(s, eps) := c in
      let '(evs, eps') := act_events eps a in
      let s1 := run s evs in
      let s2 := drain (fuel_of s1) s1 in
      let g := map (delta (clients s) (clients s2)) (seq 0 (length (clients s2))) in
      let '(rest, sf) := gen_from (s2, eps') t in
      (mkSlot a g :: rest, sf)
  end.
Definition gen_case (acts : list action) : case :=
  let '(sls, sf) := gen_from (init, []) acts in
  mkCase false false [] [] [] sls (map cclosed (clients sf)) (unsub_flags (count_unsub_calls sls) sf).

(* the tag computed by the harness: a dispatch is triggered while a subscriber in
   the map neither reads nor is cancelled *)
Record xfl := mkX { x_reading : bool; x_cancel : bool; x_unsub : bool }.
Fixpoint existsb_i {A} (f : nat -> A -> bool) (l : list A) (i : nat) : bool :=
  match l with [] => false | x :: t => f i x || existsb_i f t (S i) end.
Definition blocker (skip : option nat) (fl : list xfl) : bool :=
  existsb_i (fun i x => negb (match skip with Some j => i =? j | None => false end)
                        && negb (x_reading x) && negb (x_cancel x) && negb (x_unsub x)) fl 0.
Fixpoint exposed_from (fl : list xfl) (acts : list action) : bool :=
  match acts with
  | [] => false
  | a :: t =>
      let fl1 := match a with
                 | ASub _ r => fl ++ [mkX r false false]
                 | ARead i => upd i (fun x => mkX true (x_cancel x) (x_unsub x)) fl
                 | AStall i => upd i (fun x => mkX false (x_cancel x) (x_unsub x)) fl
                 | ACancel i => upd i (fun x => mkX (x_reading x) true (x_unsub x)) fl
                 | _ => fl end in
      let hit := match a with
                 | ASet _ | APut _ | ADel _ | ABatch _ | AWait => blocker None fl1
                 | AUnsub i | ACancelUnsub i => blocker (Some i) fl1
                 | _ => false end in
      let fl2 := match a with
                 | AUnsub i => upd i (fun x => mkX (x_reading x) (x_cancel x) true) fl1
                 | ACancelUnsub i => upd i (fun x => mkX (x_reading x) true true) fl1
                 | _ => fl1 end in
      hit || exposed_from fl2 t
  end.
Definition exposed (acts : list action) : bool := exposed_from [] acts.

(* scripts the harness can produce: subscriber keys distinct, subscriber numbers in range *)
Fixpoint wf_from (keys : list nat) (acts : list action) : bool :=
  match acts with
  | [] => true
  | a :: t =>
      match a with
      | ASub k _ => negb (existsb (Nat.eqb k) keys) && wf_from (keys ++ [k]) t
      | ARead i | AStall i | ACancel i | AUnsub i | ACancelUnsub i => (i <? length keys) && wf_from keys t
      | _ => wf_from keys t
      end
  end.

Definition alphabet : list action :=
  [ASet [1]; ASet [1;2]; ASub 5 true; ASub 3 true; ASub 4 false; ARead 1; AStall 0; ACancel 0;
   AUnsub 0; ACancelUnsub 0; ACancelUnsub 1; AWait].
Fixpoint words (n : nat) : list (list action) :=
  match n with 0 => [[]] | S m => [] :: flat_map (fun w => map (fun a => a :: w) alphabet) (words m) end.
Definition good_word (pre w : list action) : bool :=
  let acts := pre ++ w ++ [AWait] in
  negb (wf_from [] acts) || exposed acts || ok (gen_case acts).
Definition bad (pre : list action) (n : nat) := filter (fun w => negb (good_word pre w)) (words n).

(* a small exhaustive sweep kept as a sanity example: ok accepts the model's own
   output on every well-formed script without an exposed stall among
   [ASet [7]] ++ w ++ [AWait], |w| <= 3 (1885 words) *)
Example ok_gen_sweep : bad [ASet [7]] 3 = [].
Proof. vm_compute. reflexivity. Qed.
