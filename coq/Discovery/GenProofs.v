(* C27: the harness check ok accepts the model's own observations (canonical schedule) for every
   well-formed script that never exposes a stalled subscriber to a dispatch. *)
From Coq Require Import List Bool Arith PeanoNat Lia.
From Verif Require Import Discovery.Helium Discovery.HeliumProofs Discovery.OkProofs.
Import ListNotations.

(* ---- "delivered since": a delivery of the current list to i among the trace
   entries added after the trace had length base ---- *)
Definition newd (base : nat) (s : st) (i : nat) : Prop :=
  In (TDeliver i (latest s)) (firstn (length (trace s) - base) (trace s)).
Definition J' (base : nat) (s : st) : Prop :=
  base <= length (trace s) /\
  (loop s = LExit \/ forall i, liveb s i = true -> newd base s i \/ todo s i \/ pending s).

Lemma firstn_cons_more : forall (x : tev) t base, base <= length t ->
  firstn (length (x :: t) - base) (x :: t) = x :: firstn (length t - base) t.
Proof. intros x t base H. simpl length. replace (S (length t) - base) with (S (length t - base)) by lia. reflexivity. Qed.

Lemma J'_step : forall base s e, wf s -> sys_event e -> J' base s -> J' base (step s e).
Proof.
  intros base s e W Se K.
  break_step s e; try (destruct Se; fail); destruct K as [B Js]; (split; [simpl; lia|]); auto;
    try (right; intros j Hl; right; left; apply liveb_In in Hl; simpl in Hl;
         unfold todo; simpl; apply enter_todo; exact Hl).
  - (* deliver to cur *)
    destruct (wf_disp s W _ _ Lp) as [Hc Hm]. pose proof (wf_nodup s W) as N.
    destruct Js as [Jx|Js]; [congruence|].
    right. intros j Hl. unfold liveb in Hl. simpl in Hl.
    rewrite (liveb_recv s cur msg j _ eq_refl) in Hl.
    unfold newd. cbn [trace latest]. rewrite firstn_cons_more by exact B.
    destruct (Nat.eq_dec j cur) as [E|E]; [subst; left; left; congruence|].
    destruct (Js j Hl) as [S|[T|P]].
    + left. right. exact S.
    + destruct T as [cur0 [msg0 [L0 T]]]. rewrite Lp in L0. inversion L0. subst cur0 msg0.
      destruct (todo_advance _ _ _ msg N Hc T) as [X|[c' [X1 X2]]]; [congruence|].
      right. left. exists c', msg. simpl. split; assumption.
    + right. right. exact P.
  - (* cur is cancelled: skipped *)
    destruct (wf_disp s W _ _ Lp) as [Hc Hm]. pose proof (wf_nodup s W) as N.
    destruct Js as [Jx|Js]; [congruence|].
    right. intros j Hl. change (liveb s j = true) in Hl.
    destruct (Nat.eq_dec j cur) as [E|E].
    { subst. unfold liveb in Hl. rewrite Nc, Cc in Hl. simpl in Hl. rewrite !andb_false_r in Hl. discriminate. }
    destruct (Js j Hl) as [S|[T|P]].
    + left. exact S.
    + destruct T as [cur0 [msg0 [L0 T]]]. rewrite Lp in L0. inversion L0. subst cur0 msg0.
      destruct (todo_advance _ _ _ msg N Hc T) as [X|[c' [X1 X2]]]; [congruence|].
      right. left. exists c', msg. simpl. split; assumption.
    + right. right. exact P.
  - destruct (wf_disp s W _ _ Lp) as [Hc Hm]. pose proof (wf_nodup s W) as N.
    destruct Js as [Jx|Js]; [congruence|].
    right. intros j Hl. change (liveb s j = true) in Hl.
    destruct (Nat.eq_dec j cur) as [E|E].
    { subst. unfold liveb in Hl. rewrite Nc in Hl. rewrite andb_false_r in Hl. discriminate. }
    destruct (Js j Hl) as [S|[T|P]].
    + left. exact S.
    + destruct T as [cur0 [msg0 [L0 T]]]. rewrite Lp in L0. inversion L0. subst cur0 msg0.
      destruct (todo_advance _ _ _ msg N Hc T) as [X|[c' [X1 X2]]]; [congruence|].
      right. left. exists c', msg. simpl. split; assumption.
    + right. right. exact P.
Qed.

Lemma J'_run : forall ks base s, Forall sys_event ks -> wf s -> J' base s -> J' base (run s ks).
Proof.
  induction ks as [|e t IH]; intros base s F W K; simpl; [exact K|]. inversion F; subst.
  apply IH; [assumption|apply wf_step; exact W|apply J'_step; assumption].
Qed.

Lemma J'_start : forall s, pending s -> J' (length (trace s)) s.
Proof. intros s P. split; [lia|]. right. intros i _. right. right. exact P. Qed.

(* after any trigger (pending work), once the loop is at rest every live
   subscriber has received the current list since *)
Lemma rest_delivered : forall s1 ks, wf s1 -> pending s1 -> Forall sys_event ks ->
  quiescentb (run s1 ks) = true ->
  forall i, liveb (run s1 ks) i = true -> newd (length (trace s1)) (run s1 ks) i.
Proof.
  intros s1 ks W P F Q i L.
  destruct (J'_run ks _ s1 F W (J'_start s1 P)) as [_ [X|K]].
  - exfalso. unfold quiescentb in Q. rewrite X in Q. discriminate.
  - apply quiescentb_spec in Q. destruct Q as [Q1 [Q2 [Q3 Q4]]].
    destruct (K i L) as [N|[[c [m [T _]]]|[T|[T|T]]]]; try congruence; try exact N.
Qed.

(* ---- the trace of a slot ---- *)
Lemma last_consumed_app : forall a b,
  last_consumed (a ++ b) = last_consumed b \/ exists y, In (TConsume y) a /\ last_consumed (a ++ b) = y.
Proof.
  induction a as [|e t IH]; intro b; simpl; [left; reflexivity|].
  destruct e; try (destruct (IH b) as [H|[y [H1 H2]]]; [left; exact H|right; exists y; split; [right; exact H1|exact H2]]).
  right. exists a. split; [left; reflexivity|reflexivity].
Qed.

Lemma deliveries_of_app : forall i a b, deliveries_of i (a ++ b) = deliveries_of i a ++ deliveries_of i b.
Proof.
  intros i a b. induction a as [|e t IH]; simpl; [reflexivity|].
  destruct e; try exact IH. destruct (i0 =? i); simpl; rewrite IH; reflexivity.
Qed.

(* all deliveries of a slot carry the old list c or the newly consumed x, in that order *)
Lemma slot_shape : forall (c x : aset) i new told,
  (forall y, In (TConsume y) new -> y = x) ->
  deliveries_ok (new ++ told) -> last_consumed told = c ->
  exists a b, deliveries_of i new = repeat x a ++ repeat c b /\
              (c <> x -> last_consumed (new ++ told) = c -> a = 0).
Proof.
  intros c x i new told. induction new as [|e r IH]; intros Hc D Lc.
  - exists 0, 0. split; [reflexivity|auto].
  - assert (Hr : forall y, In (TConsume y) r -> y = x) by (intros y Hy; apply Hc; right; exact Hy).
    simpl in D.
    assert (Dr : deliveries_ok (r ++ told)) by (destruct e; try exact D; destruct D; assumption).
    destruct (IH Hr Dr Lc) as [a [b [E Z]]].
    destruct e; simpl; try (exists a, b; split; [exact E|exact Z]).
    + (* TConsume *) exists a, b. split; [exact E|]. intros Ne L. simpl in L.
      assert (a0 = x) by (apply Hc; left; reflexivity). congruence.
    + (* TDeliver *) destruct D as [Dm _]. destruct (i0 =? i) eqn:Ei; [|exists a, b; split; [exact E|exact Z]].
      destruct (list_eq_dec Nat.eq_dec c x) as [Ecx|Ncx].
      * subst x. exists (S a), b. split; [|intros N; congruence].
        rewrite E. simpl. f_equal.
        destruct (last_consumed_app r told) as [H|[y [H1 H2]]]; [congruence|]. rewrite Dm, H2. apply Hr. exact H1.
      * destruct (last_consumed_app r told) as [H|[y [H1 H2]]].
        -- assert (a = 0) by (apply Z; [exact Ncx|congruence]). subst a.
           exists 0, (S b). split; [simpl in *; rewrite E; f_equal; congruence|auto].
        -- assert (y = x) by (apply Hr; exact H1). subst y.
           exists (S a), b. split; [simpl; rewrite E; f_equal; congruence|].
           intros _ L. simpl in L. congruence.
Qed.

Lemma sys_trace_step : forall s e, sys_event e ->
  exists new, trace (step s e) = new ++ trace s /\
    (forall y, In (TConsume y) new -> In (Item y) (src s)) /\
    (forall it, In it (src (step s e)) -> In it (src s)).
Proof.
  intros s e Se. break_step s e; try (destruct Se; fail);
    try (exists []; split; [reflexivity|split; [intros y []|intros it H; first [exact H|rewrite Sr in H; exact H]]]; fail).
  - match goal with |- context [TConsume ?x :: _] => exists [TConsume x] end. split; [reflexivity|]. split.
    + intros y [E|[]]. inversion E; subst. left. reflexivity.
    + intros it H. right. exact H.
  - exists [TExit]. split; [reflexivity|]. split; [intros y [E|[]]; discriminate|].
    intros it H. right. exact H.
  - exists [TClosed i; TUnsubRet i]. split; [reflexivity|]. split; [intros y [E|[E|[]]]; discriminate|auto].
  - exists [TUnsubRet i]. split; [reflexivity|]. split; [intros y [E|[]]; discriminate|auto].
  - exists [TDeliver cur msg]. split; [reflexivity|]. split; [intros y [E|[]]; discriminate|auto].
Qed.

Lemma sys_trace_run : forall ks s, Forall sys_event ks ->
  exists new, trace (run s ks) = new ++ trace s /\ (forall y, In (TConsume y) new -> In (Item y) (src s)).
Proof.
  induction ks as [|e t IH]; intros s F; simpl.
  - exists []. split; [reflexivity|intros y []].
  - inversion F; subst. destruct (sys_trace_step s e H1) as [n1 [T1 [C1 S1]]].
    destruct (IH (step s e) H2) as [n2 [T2 C2]].
    exists (n2 ++ n1). split; [rewrite T2, T1, app_assoc; reflexivity|].
    intros y Hy. apply in_app_or in Hy. destruct Hy as [Hy|Hy]; [apply S1; apply C2; exact Hy|apply C1; exact Hy].
Qed.

(* what a subscriber received during a slot is what the new part of the trace delivered to it *)
Lemma delta_trace : forall s s2 new i, wf s -> wf s2 -> trace s2 = new ++ trace s ->
  delta (clients s) (clients s2) i = rev (deliveries_of i new).
Proof.
  intros s s2 new i W W2 T.
  pose proof (wf_recv s W i) as R1. pose proof (wf_recv s2 W2 i) as R2.
  rewrite T, deliveries_of_app in R2. unfold recv_of in *. unfold delta.
  destruct (nth_error (clients s2) i) as [c2|].
  - rewrite R2. f_equal.
    replace (match nth_error (clients s) i with Some c1 => length (crecv c1) | None => 0 end)
      with (length (deliveries_of i (trace s))).
    + rewrite app_length, Nat.add_sub. rewrite firstn_app, Nat.sub_diag, firstn_all. simpl. apply app_nil_r.
    + destruct (nth_error (clients s) i); rewrite <- R1; reflexivity.
  - symmetry in R2. apply app_eq_nil in R2. destruct R2 as [R2 _]. rewrite R2. reflexivity.
Qed.

(* lists of the shape c* x* are monotone in a history holding c before x *)
Lemma monotone_repeat : forall H p (c x : aset) b a jc jx,
  p <= jc -> jc <= jx -> nth_error H jc = Some c -> nth_error H jx = Some x ->
  monotone_in H p (repeat c b ++ repeat x a).
Proof.
  intros H p c x b. revert p. induction b as [|b IH]; intros p a jc jx L1 L2 Hc Hx; simpl.
  - assert (X : forall a p, p <= jx -> monotone_in H p (repeat x a)).
    { induction a0 as [|a0 IHa]; intros q Lq; simpl; [exact I|].
      exists jx. split; [exact Lq|]. split; [exact Hx|]. apply IHa. lia. }
    apply X. lia.
  - exists jc. split; [exact L1|]. split; [exact Hc|]. apply (IH jc a jc jx); auto.
Qed.

(* ---- what the system goroutines leave alone ---- *)
Record cframe (s s' : st) : Prop := mkCframe {
  cf_len : length (clients s') = length (clients s);
  cf_subs : forall i, In i (subs s') -> In i (subs s);
  cf_keep : forall i, In i (subs s) -> ~ In i (unsubq s) -> In i (subs s');
  cf_uq : forall i, In i (unsubq s') -> In i (unsubq s);
  cf_cl : forall i c, nth_error (clients s) i = Some c ->
      exists c', nth_error (clients s') i = Some c' /\ ckey c' = ckey c /\ creading c' = creading c /\
                 (ccancel c = true -> ccancel c' = true) /\
                 (~ In i (unsubq s) -> ccancel c' = ccancel c)
}.

Lemma cframe_refl : forall s, cframe s s.
Proof. intro s. constructor; auto. intros i c H. exists c. auto. Qed.

Lemma cframe_trans : forall a b c, cframe a b -> cframe b c -> cframe a c.
Proof.
  intros a b c [A1 A2 A3 A4 A5] [B1 B2 B3 B4 B5]. constructor.
  - congruence.
  - auto.
  - intros i Hi Hn. apply B3; [apply A3; assumption|]. intro X. apply Hn. apply A4. exact X.
  - auto.
  - intros i c0 H. destruct (A5 i c0 H) as [c1 [H1 [K1 [R1 [C1 D1]]]]].
    destruct (B5 i c1 H1) as [c2 [H2 [K2 [R2 [C2 D2]]]]]. exists c2.
    split; [exact H2|]. split; [congruence|]. split; [congruence|]. split; [auto|].
    intro Hn. rewrite D2, D1; auto.
Qed.

Lemma cframe_same : forall s s', clients s' = clients s -> subs s' = subs s ->
  (forall i, In i (unsubq s') -> In i (unsubq s)) -> cframe s s'.
Proof.
  intros s s' A B C. constructor; try rewrite A; try rewrite B; auto.
  intros i c H. exists c. repeat split; auto.
Qed.

Lemma sys_cframe : forall s e, sys_event e -> cframe s (step s e).
Proof.
  intros s e Se. break_step s e; try (destruct Se; fail); try apply cframe_refl;
    try (apply cframe_same; simpl; auto; fail).
  - (* Unsubscribe(i) processed, i in the map *)
    constructor; cbn [clients subs unsubq].
    + apply upd_length.
    + intros j Hj. apply remn_In in Hj. tauto.
    + intros j Hj Hn. assert (X : In j (subs s) /\ j <> i).
      { split; [exact Hj|]. intro E. subst. apply Hn. rewrite Uq. left. reflexivity. }
      apply remn_In. exact X.
    + intros j Hj. rewrite Uq. right. exact Hj.
    + intros j c H. destruct (Nat.eq_dec i j) as [E|E].
      * subst. exists (c_close c). rewrite nth_error_upd_same, H. simpl.
        split; [reflexivity|]. split; [reflexivity|]. split; [reflexivity|]. split; [auto|].
        intro Hn. exfalso. apply Hn. rewrite Uq. left. reflexivity.
      * exists c. rewrite nth_error_upd_other by exact E. auto.
  - (* ... not in the map *)
    constructor; cbn [clients subs unsubq]; auto.
    + intros j Hj. rewrite Uq. right. exact Hj.
    + intros j c H. exists c. auto.
  - (* deliver *)
    constructor; simpl; auto.
    + apply upd_length.
    + intros j c0 H. destruct (Nat.eq_dec cur j) as [E|E].
      * subst. exists (c_recv msg c0). rewrite nth_error_upd_same, H. simpl. auto.
      * exists c0. rewrite nth_error_upd_other by exact E. auto.
Qed.

Lemma sys_run_cframe : forall ks s, Forall sys_event ks -> cframe s (run s ks).
Proof.
  induction ks as [|e t IH]; intros s F; [apply cframe_refl|].
  change (run s (e :: t)) with (run (step s e) t). inversion F as [|? ? He Ht]; subst.
  eapply cframe_trans; [apply sys_cframe; exact He|apply IH; exact Ht].
Qed.

Lemma registered_run : forall ks s, Forall sys_event ks -> registered (run s ks) = registered s.
Proof.
  induction ks as [|e t IH]; intros s F; [reflexivity|].
  change (run s (e :: t)) with (run (step s e) t). inversion F as [|? ? He Ht]; subst.
  rewrite (IH _ Ht). apply registered_step. exact He.
Qed.

Lemma fuel_of_ge : forall s, wf s -> mu s <= fuel_of s.
Proof.
  intros s W. pose proof (mu_bound s W). unfold drain_bound, fuel_of in *. nia.
Qed.

(* a triggered loop comes to rest *)
Lemma trigger_rest : forall s1, wf s1 -> aliveb s1 = true -> no_stallb s1 = true ->
  let s2 := drain (fuel_of s1) s1 in
  quiescentb s2 = true /\ exists ks, Forall sys_event ks /\ s2 = run s1 ks.
Proof.
  intros s1 W A N s2. split.
  - apply drain_quiescent; [split; [exact W|split; assumption]|apply fuel_of_ge; exact W].
  - apply drain_is_sys_run.
Qed.

(* ---- ok's and the tag's per-subscriber flags against the model's clients ---- *)
Definition crel1 (dead : bool) (s : st) (i : nat) (c : client) (f : cflags) (x : xfl) : Prop :=
  creading c = f_reading f /\ x_reading x = f_reading f /\ x_cancel x = f_cancel f /\ x_unsub x = f_unsub f /\
  (f_cancel f = true -> ccancel c = true) /\
  (f_cancel f = false -> f_unsub f = false -> ccancel c = false /\ In i (subs s)) /\
  (In i (unsubq s) -> f_unsub f = true) /\
  (dead = false -> f_unsub f = true -> In i (unsubq s) \/ ~ In i (subs s)).

Record crel (dead : bool) (s : st) (fl : list cflags) (xs : list xfl) (keys : list nat) : Prop := mkCrel {
  cr_len : length fl = length (clients s);
  cr_xlen : length xs = length (clients s);
  cr_keys : keys = map ckey (clients s);
  cr_all : forall i c f x, nth_error (clients s) i = Some c -> nth_error fl i = Some f -> nth_error xs i = Some x ->
           crel1 dead s i c f x
}.

Lemma nth_error_app_last : forall A (l : list A) x, nth_error (l ++ [x]) (length l) = Some x.
Proof. intros. rewrite nth_error_app2 by lia. rewrite Nat.sub_diag. reflexivity. Qed.

Lemma nth_error_lt : forall A (l : list A) i x, nth_error l i = Some x -> i < length l.
Proof. intros A l i x H. apply nth_error_Some. congruence. Qed.

(* the system goroutines do not disturb the relation, at rest *)
Lemma crel_sys : forall dead s1 s2 fl xs keys,
  wf s2 -> cframe s1 s2 -> unsubq s2 = [] ->
  (forall i, In i (unsubq s1) -> ~ In i (subs s2)) ->
  crel dead s1 fl xs keys -> crel dead s2 fl xs keys.
Proof.
  intros dead s1 s2 fl xs keys W2 F U Done [L X K A].
  assert (Kc : map ckey (clients s2) = map ckey (clients s1)).
  { apply nth_ext with (d := 0) (d' := 0); [rewrite !map_length; apply (cf_len _ _ F)|].
    intros n Hn. rewrite map_length in Hn.
    destruct (nth_error (clients s1) n) as [c|] eqn:E.
    - destruct (cf_cl _ _ F n c E) as [c' [E' [K' _]]].
      rewrite (nth_error_nth _ _ 0 (map_nth_error ckey _ _ E')).
      rewrite (nth_error_nth _ _ 0 (map_nth_error ckey _ _ E)). exact K'.
    - apply nth_error_None in E. rewrite (cf_len _ _ F) in Hn. lia. }
  constructor.
  - rewrite (cf_len _ _ F). exact L.
  - rewrite (cf_len _ _ F). exact X.
  - rewrite Kc. exact K.
  - intros i c2 f x H2 Hf Hx.
    destruct (nth_error (clients s1) i) as [c|] eqn:H1.
    2:{ apply nth_error_None in H1. apply nth_error_lt in H2. rewrite (cf_len _ _ F) in H2. lia. }
    destruct (cf_cl _ _ F i c H1) as [c' [E' [_ [R' [C1 C2]]]]]. rewrite H2 in E'. inversion E'; subst c'.
    destruct (A i c f x H1 Hf Hx) as [B1 [B2 [B3 [B4 [B5 [B6 [B7 B8]]]]]]].
    unfold crel1. repeat split; try congruence.
    + intro Hc. apply C1. apply B5. exact Hc.
    + destruct (B6 H H0) as [Z1 Z2]. rewrite C2; [exact Z1|]. intro Q. apply B7 in Q. congruence.
    + destruct (B6 H H0) as [Z1 Z2]. apply (cf_keep _ _ F); [exact Z2|]. intro Q. apply B7 in Q. congruence.
    + rewrite U. intros [].
    + intros Hd Hu. right. destruct (B8 Hd Hu) as [Q|Q]; [apply Done; exact Q|].
      intro Z. apply Q. apply (cf_subs _ _ F). exact Z.
Qed.

Lemma key_unused : forall s keys k, wf s -> keys = map ckey (clients s) -> ~ In k keys ->
  key_used (clients s) k (subs s) = false.
Proof.
  intros s keys k W K N. unfold key_used. destruct (existsb _ (subs s)) eqn:E; [|reflexivity].
  apply existsb_exists in E. destruct E as [x [Hx Ex]]. apply Nat.eqb_eq in Ex.
  pose proof (wf_lt s W x Hx) as L. unfold key_of in Ex.
  destruct (nth_error (clients s) x) as [c|] eqn:Nc; [|apply nth_error_None in Nc; lia].
  exfalso. apply N. rewrite K. rewrite <- Ex. apply in_map. eapply nth_error_In. exact Nc.
Qed.

Lemma crel_same : forall dead s s' fl xs keys,
  clients s' = clients s -> subs s' = subs s -> unsubq s' = unsubq s ->
  crel dead s fl xs keys -> crel dead s' fl xs keys.
Proof.
  intros dead s s' fl xs keys A B C [L X K R]. constructor; try rewrite A; auto.
  intros i c f x H Hf Hx. unfold crel1. rewrite B, C. apply (R i c f x H Hf Hx).
Qed.

Lemma crel_subscribe : forall dead s fl xs keys k r, wf s -> ~ In k keys ->
  crel dead s fl xs keys ->
  crel dead (step s (ESubscribe k r)) (fl ++ [mkFlags r false false 0]) (xs ++ [mkX r false false]) (keys ++ [k]).
Proof.
  intros dead s fl xs keys k r W N [L X K R]. simpl. rewrite (key_unused s keys k W K N). unf.
  constructor; simpl.
  - rewrite !app_length, L. reflexivity.
  - rewrite !app_length, X. reflexivity.
  - rewrite map_app, K. reflexivity.
  - intros i c f x H Hf Hx. apply nth_error_snoc in H. destruct H as [[Li H]|[Ei Ec]].
    + rewrite nth_error_app1 in Hf by lia. rewrite nth_error_app1 in Hx by lia.
      destruct (R i c f x H Hf Hx) as [B1 [B2 [B3 [B4 [B5 [B6 [B7 B8]]]]]]].
      unfold crel1. cbn [subs unsubq]. repeat split; auto.
      * apply (B6 H0 H1).
      * rewrite insert_sub_In. right. apply (B6 H0 H1).
      * intros Hd Hu. destruct (B8 Hd Hu) as [Q|Q]; [left; exact Q|right].
        rewrite insert_sub_In. intros [E|E]; [lia|contradiction].
    + subst i c. rewrite <- L in Hf. rewrite nth_error_app_last in Hf. inversion Hf; subst f.
      rewrite <- X in Hx. rewrite nth_error_app_last in Hx. inversion Hx; subst x.
      unfold crel1. cbn. repeat split; auto; try discriminate.
      * rewrite insert_sub_In. left. reflexivity.
      * intro Q. apply (wf_uq s W) in Q. lia.
Qed.

Definition fl_set (i : nat) (g : cflags -> cflags) (fl : list cflags) := upd i g fl.

Lemma crel_upd : forall dead s fl xs keys i (gc : client -> client) (gf : cflags -> cflags) (gx : xfl -> xfl) s',
  clients s' = upd i gc (clients s) -> subs s' = subs s ->
  (forall j, In j (unsubq s) -> In j (unsubq s')) ->
  (forall c, ckey (gc c) = ckey c) ->
  (forall c f x, crel1 dead s i c f x -> crel1 dead s' i (gc c) (gf f) (gx x)) ->
  (forall j c f x, j <> i -> crel1 dead s j c f x -> crel1 dead s' j c f x) ->
  crel dead s fl xs keys -> crel dead s' (upd i gf fl) (upd i gx xs) keys.
Proof.
  intros dead s fl xs keys i gc gf gx s' A B C Kc G1 G2 [L X K R]. constructor.
  - rewrite A, !upd_length. exact L.
  - rewrite A, !upd_length. exact X.
  - rewrite A, K. clear - Kc. generalize (clients s). intro l. revert i. induction l as [|c t IH]; intros [|i]; simpl; auto.
    + rewrite Kc. reflexivity.
    + rewrite <- IH. reflexivity.
  - intros j c f x H Hf Hx. rewrite A in H. destruct (Nat.eq_dec i j) as [E|E].
    + subst j. rewrite nth_error_upd_same in H, Hf, Hx.
      destruct (nth_error (clients s) i) as [c0|] eqn:H0; [|discriminate].
      destruct (nth_error fl i) as [f0|] eqn:F0; [|discriminate].
      destruct (nth_error xs i) as [x0|] eqn:X0; [|discriminate].
      simpl in *. inversion H; inversion Hf; inversion Hx; subst. apply G1. apply (R i c0 f0 x0 H0 F0 X0).
    + rewrite nth_error_upd_other in H, Hf, Hx by exact E. apply G2; [congruence|]. apply (R j c f x H Hf Hx).
Qed.

(* ---- ok_latest: lengths, flags, pointers ---- *)
Lemma ok_latest_length : forall H fl g, length (fst (ok_latest H fl g)) = length fl.
Proof.
  intros H fl. induction fl as [|f t IH]; intros [|ms g]; simpl; auto.
  specialize (IH g). destruct (ok_latest H t g) as [r b]. simpl in IH.
  destruct (check_msgs H (f_ptr f) ms); simpl; rewrite IH; reflexivity.
Qed.

Lemma find_from_lt : forall hist j0 p m j, find_from hist j0 p m = Some j -> j < j0 + length hist.
Proof.
  induction hist as [|x t IH]; intros j0 p m j H; simpl in H; [discriminate|].
  destruct ((p <=? j0) && aset_eqb x m); [inversion H; subst; simpl; lia|].
  apply IH in H. simpl. lia.
Qed.
Lemma check_msgs_lt : forall H ms p p', check_msgs H p ms = Some p' -> p < length H -> p' < length H.
Proof.
  intros H ms. induction ms as [|m t IH]; intros p p' E L; simpl in E; [inversion E; subst; exact L|].
  destruct (find_from H 0 p m) as [j|] eqn:F; [|discriminate].
  apply (IH j p' E). apply find_from_lt in F. exact F.
Qed.
Lemma ok_latest_ptr : forall H fl g, (forall f, In f fl -> f_ptr f < length H) ->
  forall f, In f (fst (ok_latest H fl g)) -> f_ptr f < length H.
Proof.
  intros H fl. induction fl as [|f0 t IH]; intros [|ms g] P f Hf; simpl in Hf; auto; try (destruct Hf; fail).
  destruct (ok_latest H t g) as [r b] eqn:E.
  assert (IH' : forall f, In f r -> f_ptr f < length H).
  { intros f1 H1. apply (IH g); [intros f2 H2; apply P; right; exact H2|]. rewrite E. exact H1. }
  destruct (check_msgs H (f_ptr f0) ms) as [p|] eqn:C; simpl in Hf; destruct Hf as [Hf|Hf]; try (apply IH'; exact Hf).
  - subst f. simpl. eapply check_msgs_lt; [exact C|]. apply P. left. reflexivity.
  - subst f. apply P. left. reflexivity.
Qed.

(* a list of flags that differs from fl only in the pointers keeps the relation *)
Lemma crel_flags : forall dead s fl fl' xs keys,
  length fl' = length fl ->
  (forall i f', nth_error fl' i = Some f' -> exists f, nth_error fl i = Some f /\
      f_reading f' = f_reading f /\ f_cancel f' = f_cancel f /\ f_unsub f' = f_unsub f) ->
  crel dead s fl xs keys -> crel dead s fl' xs keys.
Proof.
  intros dead s fl fl' xs keys Hl Hf [L X K R]. constructor; try congruence.
  intros i c f' x H Hf' Hx. destruct (Hf i f' Hf') as [f [E [A [B C]]]].
  pose proof (R i c f x H E Hx) as Q. unfold crel1 in *. rewrite A, B, C. exact Q.
Qed.

Definition is_envev (e : event) : Prop :=
  match e with ELoop _ | EDispatch _ => False | _ => True end.
Lemma env_trace_step : forall s e, is_envev e -> trace (step s e) = trace s.
Proof.
  intros s e H. destruct e; try destruct H; simpl; try reflexivity.
  - destruct (key_used _ _ _); reflexivity.
  - destruct (_ <? _); reflexivity.
Qed.
Lemma env_trace_run : forall evs s, Forall is_envev evs -> trace (run s evs) = trace s.
Proof.
  induction evs as [|e t IH]; intros s F; [reflexivity|].
  change (run s (e :: t)) with (run (step s e) t). inversion F as [|? ? He Ht]; subst.
  rewrite (IH _ Ht). apply env_trace_step. exact He.
Qed.

Lemma nth_error_map_seq : forall A (f : nat -> A) n i, i < n -> nth_error (map f (seq 0 n)) i = Some (f i).
Proof.
  intros A f n i H. rewrite nth_error_map. rewrite nth_error_nth' with (d := 0) by (rewrite seq_length; exact H).
  rewrite seq_nth by exact H. reflexivity.
Qed.

Lemma rev_repeat' : forall A (x : A) n, rev (repeat x n) = repeat x n.
Proof.
  intros A x n. induction n as [|n IH]; simpl; [reflexivity|]. rewrite IH.
  clear IH. induction n as [|n IH]; simpl; [reflexivity|]. rewrite IH. reflexivity.
Qed.

(* clause "latest" for the model's own slot *)
Lemma latest_ok_slot : forall H' fl s s2 new (c x : aset) jc jx,
  wf s -> wf s2 -> trace s2 = new ++ trace s ->
  (forall y, In (TConsume y) new -> y = x) ->
  latest s = c -> nth_error H' jc = Some c -> nth_error H' jx = Some x -> jc <= jx ->
  (forall f, In f fl -> f_ptr f <= jc) -> length fl = length (clients s2) ->
  latest_clause H' fl (map (delta (clients s) (clients s2)) (seq 0 (length (clients s2)))).
Proof.
  intros H' fl s s2 new c x jc jx W W2 T Cx Lc Hc Hx Lj P Ll. split.
  - rewrite map_length, seq_length. exact Ll.
  - intros i f ms Hf Hm.
    assert (Li : i < length (clients s2)) by (rewrite <- Ll; eapply nth_error_lt; exact Hf).
    rewrite nth_error_map_seq in Hm by exact Li. inversion Hm; subst ms.
    rewrite (delta_trace s s2 new i W W2 T).
    assert (D : deliveries_ok (new ++ trace s)) by (rewrite <- T; apply (wf_deliv s2 W2)).
    assert (Lt : last_consumed (trace s) = c) by (rewrite <- (wf_latest s W); exact Lc).
    destruct (slot_shape c x i new (trace s) Cx D Lt) as [a [b [E _]]].
    rewrite E, rev_app_distr, !rev_repeat'.
    apply (monotone_repeat H' (f_ptr f) c x b a jc jx); auto.
    apply P. eapply nth_error_In. exact Hf.
Qed.

Lemma deliveries_of_In : forall i m new, In (TDeliver i m) new -> deliveries_of i new <> [].
Proof.
  intros i m new. induction new as [|e r IH]; intro H; [destruct H|].
  destruct H as [H|H].
  - subst e. simpl. rewrite Nat.eqb_refl. discriminate.
  - simpl. destruct e; try (apply IH; exact H). destruct (i0 =? i); [discriminate|apply IH; exact H].
Qed.

Lemma repeat_snoc : forall A (x : A) n, repeat x (S n) = repeat x n ++ [x].
Proof. intros A x n. induction n as [|n IH]; simpl; [reflexivity|]. f_equal. exact IH. Qed.

(* clause "converge" for the model's own AWait slot *)
Lemma conv_ok_slot : forall s s2 ks fl2 xs keys,
  wf s -> src s = [] -> Forall sys_event ks -> s2 = run (step s ETick) ks -> quiescentb s2 = true ->
  crel false s2 fl2 xs keys ->
  converge_clause (latest s) fl2 (map (delta (clients s) (clients s2)) (seq 0 (length (clients s2)))).
Proof.
  intros s s2 ks fl2 xs keys W Sr F E Q C i f ms Hf Hm R Cn U.
  set (s1 := step s ETick) in *.
  assert (W1 : wf s1) by (apply wf_step; exact W).
  assert (W2 : wf s2) by (rewrite E; apply wf_run; exact W1).
  assert (Li : i < length (clients s2)) by (rewrite <- (cr_len _ _ _ _ _ C); eapply nth_error_lt; exact Hf).
  rewrite nth_error_map_seq in Hm by exact Li. inversion Hm; subst ms. clear Hm.
  destruct (sys_trace_run ks s1 F) as [new [T Cs]]. rewrite <- E in T.
  assert (T' : trace s2 = new ++ trace s) by exact T.
  rewrite (delta_trace s s2 new i W W2 T').
  (* i is live in s2 *)
  destruct (nth_error (clients s2) i) as [c|] eqn:Nc; [|apply nth_error_None in Nc; lia].
  destruct (nth_error xs i) as [x|] eqn:Nx.
  2:{ apply nth_error_None in Nx. rewrite (cr_xlen _ _ _ _ _ C) in Nx. lia. }
  destruct (cr_all _ _ _ _ _ C i c f x Nc Hf Nx) as [B1 [_ [_ [_ [_ [B6 _]]]]]].
  destruct (B6 Cn U) as [Z1 Z2].
  assert (Lv : liveb s2 i = true).
  { unfold liveb. rewrite Nc, B1, R, Z1. simpl. rewrite andb_true_r. apply memn_In. exact Z2. }
  assert (P1 : pending s1) by (left; reflexivity).
  pose proof (rest_delivered s1 ks W1 P1 F) as RD. rewrite <- E in RD. specialize (RD Q i Lv).
  unfold newd in RD. rewrite T in RD. rewrite app_length, Nat.add_sub, firstn_app, Nat.sub_diag, firstn_all in RD.
  simpl in RD. rewrite app_nil_r in RD.
  (* nothing was consumed in this slot: every delivery carries latest s *)
  assert (NoC : forall y, In (TConsume y) new -> y = latest s).
  { intros y Hy. apply Cs in Hy. simpl in Hy. rewrite Sr in Hy. destruct Hy. }
  assert (D : deliveries_ok (new ++ trace s)) by (rewrite <- T'; apply (wf_deliv s2 W2)).
  destruct (slot_shape (latest s) (latest s) i new (trace s) NoC D (eq_sym (wf_latest s W))) as [a [b [Es _]]].
  pose proof (deliveries_of_In i _ new RD) as Ne.
  rewrite Es, <- repeat_app in *. rewrite rev_repeat'.
  destruct (a + b) as [|n]; [exfalso; apply Ne; reflexivity|].
  exists (repeat (latest s) n). apply repeat_snoc.
Qed.

(* ---- the boundary invariant ---- *)
Record brel (o : okst) (xs : list xfl) (keys : list nat) (s : st) (eps : aset) : Prop := mkBrel {
  b_wf : wf s;
  b_cr : crel (o_dead o) s (o_flags o) xs keys;
  b_nodup : NoDup keys;
  b_ptr : forall f, In f (o_flags o) -> f_ptr f < length (o_hist o);
  b_hist : o_hist o <> [];
  b_eps : o_eps o = eps;
  b_rest : if o_dead o then loop s = LExit else (quiescentb s = true /\ latest s = ok_cur (o_hist o));
  b_calls : forall i, In i (o_calls o) -> i < length (clients s) /\ ret_or_queued s i
}.

Lemma ok_cur_nth : forall H, H <> [] -> nth_error H (length H - 1) = Some (ok_cur H).
Proof.
  intros H Hn. unfold ok_cur, last_of. destruct (rev H) as [|y r] eqn:E.
  - exfalso. apply Hn. rewrite <- (rev_involutive H), E. reflexivity.
  - simpl. assert (H = rev r ++ [y]) by (rewrite <- (rev_involutive H), E; reflexivity). subst H.
    rewrite app_length, rev_length. simpl. rewrite Nat.add_sub. rewrite nth_error_app2 by (rewrite rev_length; lia).
    rewrite rev_length, Nat.sub_diag. reflexivity.
Qed.
Lemma ok_cur_snoc : forall H x, ok_cur (H ++ [x]) = x.
Proof. intros. unfold ok_cur, last_of. rewrite rev_app_distr. reflexivity. Qed.

(* the verdicts and the new flags of a slot of the model, from its trace *)
Lemma core_latest : forall dead H' fl1 xs keys s s2 new (c x : aset) jc jx,
  wf s -> wf s2 -> trace s2 = new ++ trace s ->
  (new = [] \/ ((forall y, In (TConsume y) new -> y = x) /\ latest s = c /\
                nth_error H' jc = Some c /\ nth_error H' jx = Some x /\ jc <= jx /\
                (forall f, In f fl1 -> f_ptr f <= jc))) ->
  (forall f, In f fl1 -> f_ptr f < length H') ->
  crel dead s2 fl1 xs keys ->
  let g := map (delta (clients s) (clients s2)) (seq 0 (length (clients s2))) in
  snd (ok_latest H' fl1 g) = true /\
  (forall f, In f (fst (ok_latest H' fl1 g)) -> f_ptr f < length H') /\
  crel dead s2 (fst (ok_latest H' fl1 g)) xs keys.
Proof.
  intros dead H' fl1 xs keys s s2 new c x jc jx W W2 T Cases P C g.
  assert (LC : latest_clause H' fl1 g).
  { destruct Cases as [E|[Cx [Lc [Hc [Hx [Lj Pj]]]]]].
    - subst new. split; [unfold g; rewrite map_length, seq_length; apply (cr_len _ _ _ _ _ C)|].
      intros i f ms Hf Hm.
      assert (Li : i < length (clients s2)) by (rewrite <- (cr_len _ _ _ _ _ C); eapply nth_error_lt; exact Hf).
      unfold g in Hm. rewrite nth_error_map_seq in Hm by exact Li. inversion Hm.
      rewrite (delta_trace s s2 [] i W W2 T). simpl. exact I.
    - apply (latest_ok_slot H' fl1 s s2 new c x jc jx); auto. apply (cr_len _ _ _ _ _ C). }
  split; [apply ok_latest_complete; exact LC|]. split.
  - apply ok_latest_ptr. exact P.
  - apply (crel_flags dead s2 fl1); [apply ok_latest_length| |exact C].
    intros i f' Hf'. destruct (ok_latest_flags H' fl1 g i f' Hf') as [f0 [A [B [D E]]]]. exists f0. auto.
Qed.

(* the tag's flags, as exposed_from updates them *)
Definition x1 (a : action) (fl : list xfl) : list xfl :=
  match a with
  | ASub _ r => fl ++ [mkX r false false]
  | ARead i => upd i (fun x => mkX true (x_cancel x) (x_unsub x)) fl
  | AStall i => upd i (fun x => mkX false (x_cancel x) (x_unsub x)) fl
  | ACancel i => upd i (fun x => mkX (x_reading x) true (x_unsub x)) fl
  | _ => fl end.
Definition xhit (a : action) (fl1 : list xfl) : bool :=
  match a with
  | ASet _ | APut _ | ADel _ | ABatch _ | AWait => blocker None fl1
  | AUnsub i | ACancelUnsub i => blocker (Some i) fl1
  | _ => false end.
Definition x2 (a : action) (fl : list xfl) : list xfl :=
  match a with
  | AUnsub i => upd i (fun x => mkX (x_reading x) (x_cancel x) true) (x1 a fl)
  | ACancelUnsub i => upd i (fun x => mkX (x_reading x) true true) (x1 a fl)
  | _ => x1 a fl end.
Lemma exposed_from_cons : forall fl a t, exposed_from fl (a :: t) = xhit a (x1 a fl) || exposed_from (x2 a fl) t.
Proof. intros fl a t. destruct a; reflexivity. Qed.

Definition keys_after (keys : list nat) (a : action) : list nat :=
  match a with ASub k _ => keys ++ [k] | _ => keys end.

Lemma upd_upd : forall A (g1 g2 : A -> A) i l, upd i g2 (upd i g1 l) = upd i (fun x => g2 (g1 x)) l.
Proof. intros A g1 g2 i l. revert i. induction l as [|x t IH]; intros [|i]; simpl; auto. rewrite IH. reflexivity. Qed.
Lemma upd_ext : forall A (g1 g2 : A -> A) i l, (forall x, g1 x = g2 x) -> upd i g1 l = upd i g2 l.
Proof. intros A g1 g2 i l H. revert i. induction l as [|x t IH]; intros [|i]; simpl; auto; [rewrite H|rewrite IH]; reflexivity. Qed.
Lemma upd_id : forall A i (l : list A), upd i (fun x => x) l = l.
Proof. intros A i l. revert i. induction l as [|x t IH]; intros [|i]; simpl; auto. rewrite IH. reflexivity. Qed.

Lemma crel_reading : forall dead s fl xs keys i b,
  crel dead s fl xs keys ->
  crel dead (step s (ESetReading i b))
       (upd i (fun f => mkFlags b (f_cancel f) (f_unsub f) (f_ptr f)) fl)
       (upd i (fun x => mkX b (x_cancel x) (x_unsub x)) xs) keys.
Proof.
  intros dead s fl xs keys i b C. simpl.
  apply (crel_upd dead s fl xs keys i (c_set_reading b)) ; auto.
  intros c f x Q. unfold crel1 in *. simpl. intuition.
Qed.

Lemma crel_cancel : forall dead s fl xs keys i,
  crel dead s fl xs keys ->
  crel dead (step s (ECancel i))
       (upd i (fun f => mkFlags (f_reading f) true (f_unsub f) (f_ptr f)) fl)
       (upd i (fun x => mkX (x_reading x) true (x_unsub x)) xs) keys.
Proof.
  intros dead s fl xs keys i C. simpl.
  apply (crel_upd dead s fl xs keys i c_cancel); auto.
  intros c f x Q. unfold crel1 in *. simpl. intuition discriminate.
Qed.

Lemma crel_unsub : forall dead s fl xs keys i, i < length (clients s) ->
  crel dead s fl xs keys ->
  crel dead (step s (EUnsubscribe i))
       (upd i (fun f => mkFlags (f_reading f) (f_cancel f) true (f_ptr f)) fl)
       (upd i (fun x => mkX (x_reading x) (x_cancel x) true) xs) keys.
Proof.
  intros dead s fl xs keys i L C. simpl. apply Nat.ltb_lt in L. rewrite L.
  apply (crel_upd dead s fl xs keys i (fun c => c)); auto.
  all: try (simpl; rewrite upd_id; reflexivity).
  all: try (simpl; intros j Hj; apply in_or_app; left; exact Hj; fail).
  - intros c f x Q. unfold crel1 in *. cbn [subs unsubq set_unsubq f_reading f_cancel f_unsub x_reading x_cancel x_unsub].
    destruct Q as [B1 [B2 [B3 [B4 [B5 [B6 [B7 B8]]]]]]].
    split; [exact B1|]. split; [exact B2|]. split; [exact B3|]. split; [reflexivity|]. split; [exact B5|].
    split; [intros _ Z; discriminate|]. split; [reflexivity|].
    intros _ _. left. apply in_or_app. right. left. reflexivity.
  - intros j c f x Ne Q. unfold crel1 in *. cbn [subs unsubq set_unsubq].
    destruct Q as [B1 [B2 [B3 [B4 [B5 [B6 [B7 B8]]]]]]].
    split; [exact B1|]. split; [exact B2|]. split; [exact B3|]. split; [exact B4|]. split; [exact B5|].
    split; [exact B6|]. split.
    + intro Z. apply in_app_or in Z. destruct Z as [Z|[Z|[]]]; [apply B7; exact Z|congruence].
    + intros Hd Hu. destruct (B8 Hd Hu) as [Z|Z]; [left; apply in_or_app; left; exact Z|right; exact Z].
Qed.

Definition wfa (keys : list nat) (a : action) : bool :=
  match a with
  | ASub k _ => negb (existsb (Nat.eqb k) keys)
  | ARead i | AStall i | ACancel i | AUnsub i | ACancelUnsub i => i <? length keys
  | _ => true
  end.
Lemma wf_from_cons : forall keys a t, wf_from keys (a :: t) = wfa keys a && wf_from (keys_after keys a) t.
Proof. intros keys a t. destruct a; reflexivity. Qed.

Lemma In_upd : forall A (g : A -> A) i l y, In y (upd i g l) -> In y l \/ exists x, In x l /\ y = g x.
Proof.
  intros A g i l. revert i. induction l as [|x t IH]; intros [|i] y H; simpl in H; auto.
  - destruct H as [H|H]; [right; exists x; split; [left; reflexivity|congruence]|left; right; exact H].
  - destruct H as [H|H]; [left; left; exact H|]. apply IH in H. destruct H as [H|[x0 [H1 H2]]]; [left; right; exact H|].
    right. exists x0. split; [right; exact H1|exact H2].
Qed.

Lemma flags_step_ptr : forall a fl n, 0 < n -> (forall f, In f fl -> f_ptr f < n) ->
  forall f, In f (ok_flags_step a fl) -> f_ptr f < n.
Proof.
  intros a fl n Hn P f H. destruct a; simpl in H; auto;
    try (apply In_upd in H; destruct H as [H|[x [H1 H2]]]; [apply P; exact H|subst f; simpl; apply P; exact H1]).
  apply in_app_or in H. destruct H as [H|[H|[]]]; [apply P; exact H|subst f; simpl; exact Hn].
Qed.

Lemma env_loop_step : forall s e, is_envev e -> loop (step s e) = loop s /\ latest (step s e) = latest s.
Proof.
  intros s e H. destruct e; try destruct H; simpl; auto.
  - destruct (key_used _ _ _); auto.
  - destruct (_ <? _); auto.
Qed.

Lemma NoDup_snoc : forall (l : list nat) k, NoDup l -> ~ In k l -> NoDup (l ++ [k]).
Proof.
  intros l k N H. induction N as [|x t Hx Ht IH]; simpl; [constructor; [intros []|constructor]|].
  constructor.
  - rewrite in_app_iff. simpl. intros [C|[C|[]]]; [contradiction|subst; apply H; left; reflexivity].
  - apply IH. intro C. apply H. right. exact C.
Qed.

Lemma existsb_eqb_In : forall k l, existsb (Nat.eqb k) l = false -> ~ In k l.
Proof.
  intros k l H C. assert (existsb (Nat.eqb k) l = true) by (apply existsb_exists; exists k; split; [exact C|apply Nat.eqb_refl]).
  congruence.
Qed.

Lemma act_envev : forall eps a, Forall is_envev (fst (act_events eps a)).
Proof.
  intros eps a. destruct a; cbn [act_events].
  all: try (cbn [fst]; repeat (constructor; try exact I); fail).
  all: match goal with |- context [apply_events ?l ?e false] => destruct (apply_events l e false) as [e1 ch] end;
       destruct ch; cbn [fst]; repeat (constructor; try exact I).
Qed.

(* the environment part of every action *)
Lemma act_crel : forall o xs keys s eps a,
  brel o xs keys s eps -> wfa keys a = true ->
  let s1 := run s (fst (act_events eps a)) in
  Forall is_envev (fst (act_events eps a)) /\ wf s1 /\
  crel (o_dead o) s1 (ok_flags_step a (o_flags o)) (x2 a xs) (keys_after keys a) /\
  NoDup (keys_after keys a) /\
  (forall f, In f (ok_flags_step a (o_flags o)) -> f_ptr f < length (o_hist o)).
Proof.
  intros o xs keys s eps a [W C N P Hh E R Cl] Wa s1.
  assert (Hl : 0 < length (o_hist o)) by (destruct (o_hist o); [congruence|simpl; lia]).
  assert (W1 : wf s1) by (apply wf_run; exact W).
  assert (Pf : forall f, In f (ok_flags_step a (o_flags o)) -> f_ptr f < length (o_hist o))
    by (apply flags_step_ptr; assumption).
  assert (Lk : length keys = length (clients s)) by (rewrite (cr_keys _ _ _ _ _ C), map_length; reflexivity).
  split; [|split; [exact W1|split; [|split; [|exact Pf]]]].
  - apply act_envev.
  - unfold s1. destruct a; cbn [act_events fst x2 x1 keys_after ok_flags_step];
      try (apply (crel_same _ s); [reflexivity|reflexivity|reflexivity|exact C]).
    + (* APut *) destruct (apply_events [Put a] eps false) as [e' ch]. destruct ch; simpl;
        [apply (crel_same _ s); [reflexivity|reflexivity|reflexivity|exact C]|exact C].
    + destruct (apply_events [Del a] eps false) as [e' ch]. destruct ch; simpl;
        [apply (crel_same _ s); [reflexivity|reflexivity|reflexivity|exact C]|exact C].
    + destruct (apply_events evs eps false) as [e' ch]. destruct ch; simpl;
        [apply (crel_same _ s); [reflexivity|reflexivity|reflexivity|exact C]|exact C].
    + (* ASub *) apply crel_subscribe; [exact W| |exact C]. apply existsb_eqb_In. simpl in Wa. apply negb_true_iff. exact Wa.
    + apply crel_reading. exact C.
    + apply crel_reading. exact C.
    + apply crel_cancel. exact C.
    + apply crel_unsub; [|exact C]. simpl in Wa. apply Nat.ltb_lt in Wa. lia.
    + (* ACancelUnsub *)
      change (run s [ECancel i; EUnsubscribe i]) with (step (step s (ECancel i)) (EUnsubscribe i)).
      pose proof (crel_cancel _ s _ _ _ i C) as C1.
      assert (L1 : i < length (clients (step s (ECancel i)))).
      { simpl. rewrite upd_length. simpl in Wa. apply Nat.ltb_lt in Wa. lia. }
      pose proof (crel_unsub _ _ _ _ _ i L1 C1) as C2.
      rewrite !upd_upd in C2.
      erewrite (upd_ext _ _ _ i (o_flags o)), (upd_ext _ _ _ i xs) in C2; [exact C2| |]; intros; reflexivity.
  - destruct a; simpl; try exact N. apply NoDup_snoc; [exact N|].
    apply existsb_eqb_In. simpl in Wa. apply negb_true_iff. exact Wa.
Qed.

Definition calls_after (o : okst) (a : action) : list nat :=
  match a with AUnsub i | ACancelUnsub i => o_calls o ++ [i] | _ => o_calls o end.

Lemma ok_env_eps : forall o eps a, o_eps o = eps -> snd (fst (ok_env o a)) = snd (act_events eps a).
Proof.
  intros o eps a E. subst eps. destruct a; cbn [ok_env act_events fst snd]; try reflexivity;
    match goal with |- context [apply_events ?l ?e false] => destruct (apply_events l e false) as [e1 ch] end;
    destruct ch; reflexivity.
Qed.

Lemma ok_hist_len : forall o a, length (o_hist o) <= length (ok_hist o a).
Proof.
  intros o a. unfold ok_hist. destruct a; cbn [ok_env fst]; try lia; try (rewrite app_length; simpl; lia);
    match goal with |- context [apply_events ?l ?e false] => destruct (apply_events l e false) as [e1 ch] end;
    destruct ch; cbn [fst]; try lia; rewrite app_length; simpl; lia.
Qed.

(* putting a slot's facts together *)
Lemma finish : forall o xs keys s eps a s2 new (c x : aset) jc jx,
  brel o xs keys s eps ->
  wf s2 -> trace s2 = new ++ trace s ->
  (new = [] \/ ((forall y, In (TConsume y) new -> y = x) /\ latest s = c /\
                nth_error (ok_hist o a) jc = Some c /\ nth_error (ok_hist o a) jx = Some x /\ jc <= jx /\
                (forall f, In f (ok_flags_step a (o_flags o)) -> f_ptr f <= jc))) ->
  crel (ok_dead o a) s2 (ok_flags_step a (o_flags o)) (x2 a xs) (keys_after keys a) ->
  NoDup (keys_after keys a) ->
  (forall f, In f (ok_flags_step a (o_flags o)) -> f_ptr f < length (o_hist o)) ->
  (if ok_dead o a then loop s2 = LExit else (quiescentb s2 = true /\ latest s2 = ok_cur (ok_hist o a))) ->
  (forall i, In i (calls_after o a) -> i < length (clients s2) /\ ret_or_queued s2 i) ->
  let sl := mkSlot a (map (delta (clients s) (clients s2)) (seq 0 (length (clients s2)))) in
  snd (ok_lat o sl) = true /\
  (forall f, In f (fst (ok_lat o sl)) -> f_ptr f < length (ok_hist o a)) /\
  crel (ok_dead o a) s2 (fst (ok_lat o sl)) (x2 a xs) (keys_after keys a) /\
  (ok_conv o sl = true -> brel (ok_step o sl) (x2 a xs) (keys_after keys a) s2 (snd (act_events eps a))).
Proof.
  intros o xs keys s eps a s2 new c x jc jx B W2 T Cases C N P R Cl sl.
  assert (P' : forall f, In f (ok_flags_step a (o_flags o)) -> f_ptr f < length (ok_hist o a)).
  { intros f Hf. pose proof (P f Hf). pose proof (ok_hist_len o a). lia. }
  destruct (core_latest (ok_dead o a) (ok_hist o a) _ _ _ s s2 new c x jc jx (b_wf _ _ _ _ _ B) W2 T Cases P' C) as [L1 [L2 L3]].
  split; [exact L1|]. split; [exact L2|]. split; [exact L3|]. intros _.
  constructor; cbn [ok_step o_flags o_hist o_eps o_dead o_calls]; auto.
  - pose proof (ok_hist_len o a) as Hl. pose proof (b_hist _ _ _ _ _ B) as Hn. intro E. change (ok_hist o a = []) in E. rewrite E in Hl.
    destruct (o_hist o); [congruence|simpl in Hl; lia].
  - apply ok_env_eps. apply (b_eps _ _ _ _ _ B).
Qed.

Lemma drain_noop : forall f s, drain_event s = None -> drain f s = s.
Proof. intros [|f] s H; simpl; [reflexivity|rewrite H; reflexivity]. Qed.

Lemma crel_weaken : forall s fl xs keys, crel false s fl xs keys -> crel true s fl xs keys.
Proof.
  intros s fl xs keys [L X K R]. constructor; auto. intros i c f x H Hf Hx.
  destruct (R i c f x H Hf Hx) as [B1 [B2 [B3 [B4 [B5 [B6 [B7 B8]]]]]]]. unfold crel1.
  split; [exact B1|]. split; [exact B2|]. split; [exact B3|]. split; [exact B4|]. split; [exact B5|].
  split; [exact B6|]. split; [exact B7|]. intro Z. discriminate Z.
Qed.

Lemma ok_dead_true : forall o a, o_dead o = true -> ok_dead o a = true.
Proof.
  intros o a H. unfold ok_dead. destruct a; cbn [ok_env snd]; auto;
    match goal with |- context [apply_events ?l ?e false] => destruct (apply_events l e false) as [e1 ch] end;
    destruct ch; exact H.
Qed.
Lemma ok_dead_false : forall o a, o_dead o = false -> a <> AClose -> ok_dead o a = false.
Proof.
  intros o a H Na. unfold ok_dead. destruct a; cbn [ok_env snd]; auto; try congruence;
    match goal with |- context [apply_events ?l ?e false] => destruct (apply_events l e false) as [e1 ch] end;
    destruct ch; exact H.
Qed.

(* a state that differs from a quiescent one only in its clients is quiescent *)
Lemma env_fields : forall s e, is_envev e ->
  loop (step s e) = loop s /\ latest (step s e) = latest s /\
  (forall it, e <> ESrc it) -> True.
Proof. auto. Qed.

(* blocker = false: every subscriber reads, is cancelled, or was unsubscribed *)
Lemma existsb_i_false : forall A (f : nat -> A -> bool) l k i x,
  existsb_i f l k = false -> nth_error l i = Some x -> f (k + i) x = false.
Proof.
  intros A f l. induction l as [|y t IH]; intros k i x H N; [destruct i; discriminate|].
  simpl in H. apply orb_false_iff in H. destruct H as [H1 H2]. destruct i as [|i]; simpl in N.
  - inversion N; subst. rewrite Nat.add_0_r. exact H1.
  - replace (k + S i) with (S k + i) by lia. apply (IH (S k) i x H2 N).
Qed.
Lemma blocker_false : forall skip fl i x, blocker skip fl = false -> nth_error fl i = Some x ->
  (match skip with Some j => i = j | None => False end) \/
  x_reading x = true \/ x_cancel x = true \/ x_unsub x = true.
Proof.
  intros skip fl i x H N. unfold blocker in H. pose proof (existsb_i_false _ _ fl 0 i x H N) as E. simpl in E.
  destruct skip as [j|].
  - destruct (i =? j) eqn:Ej; [left; apply Nat.eqb_eq; exact Ej|right]. simpl in E.
    destruct (x_reading x), (x_cancel x), (x_unsub x); simpl in E; auto; discriminate.
  - right. simpl in E. destruct (x_reading x), (x_cancel x), (x_unsub x); simpl in E; auto; discriminate.
Qed.

Lemma no_stall_from : forall s fl xs keys,
  crel false s fl xs keys -> unsubq s = [] -> blocker None xs = false -> no_stallb s = true.
Proof.
  intros s fl xs keys C U B. apply no_stall_spec. intros i Hi. unfold stalledb.
  destruct (nth_error (clients s) i) as [c|] eqn:Nc; [|reflexivity].
  assert (Li : i < length (clients s)) by (eapply nth_error_lt; exact Nc).
  destruct (nth_error fl i) as [f|] eqn:Nf; [|apply nth_error_None in Nf; rewrite (cr_len _ _ _ _ _ C) in Nf; lia].
  destruct (nth_error xs i) as [x|] eqn:Nx; [|apply nth_error_None in Nx; rewrite (cr_xlen _ _ _ _ _ C) in Nx; lia].
  destruct (cr_all _ _ _ _ _ C i c f x Nc Nf Nx) as [B1 [B2 [B3 [B4 [B5 [B6 [B7 B8]]]]]]].
  destruct (blocker_false None xs i x B Nx) as [[]|[R|[R|R]]].
  - rewrite B1, <- B2, R. reflexivity.
  - rewrite B5 by congruence. apply andb_false_r.
  - exfalso. destruct (B8 eq_refl) as [Q|Q]; [congruence|rewrite U in Q; destruct Q|contradiction].
Qed.

Lemma calls_env : forall o xs keys s eps a s2,
  brel o xs keys s eps -> wfa keys a = true ->
  (exists ks, s2 = run (run s (fst (act_events eps a))) ks) ->
  length (clients s) <= length (clients s2) ->
  forall i, In i (calls_after o a) -> i < length (clients s2) /\ ret_or_queued s2 i.
Proof.
  intros o xs keys s eps a s2 B Wa [ks E] Len i Hi.
  assert (Lk : length keys = length (clients s)) by (rewrite (cr_keys _ _ _ _ _ (b_cr _ _ _ _ _ B)), map_length; reflexivity).
  assert (Old : In i (o_calls o) -> i < length (clients s2) /\ ret_or_queued s2 i).
  { intro H. destruct (b_calls _ _ _ _ _ B i H) as [A1 A2]. split; [lia|]. rewrite E. apply roq_run. apply roq_run. exact A2. }
  destruct a; simpl in Hi; try (apply Old; exact Hi).
  - apply in_app_or in Hi. destruct Hi as [Hi|[Hi|[]]]; [apply Old; exact Hi|]. subst i0.
    simpl in Wa. apply Nat.ltb_lt in Wa. split; [lia|]. rewrite E. apply roq_run. left. simpl.
    assert (Q : (i <? length (clients s)) = true) by (apply Nat.ltb_lt; lia). rewrite Q. simpl. apply in_or_app. right. left. reflexivity.
  - apply in_app_or in Hi. destruct Hi as [Hi|[Hi|[]]]; [apply Old; exact Hi|]. subst i0.
    simpl in Wa. apply Nat.ltb_lt in Wa. split; [lia|]. rewrite E. apply roq_run. left. simpl. rewrite upd_length.
    assert (Q : (i <? length (clients s)) = true) by (apply Nat.ltb_lt; lia). rewrite Q. simpl. apply in_or_app. right. left. reflexivity.
Qed.

Lemma env_len_step : forall s e, is_envev e -> length (clients s) <= length (clients (step s e)).
Proof.
  intros s e H. destruct e; try destruct H; simpl; try lia; try (rewrite upd_length; lia).
  - destruct (key_used _ _ _); simpl; [lia|rewrite app_length; simpl; lia].
  - destruct (_ <? _); simpl; lia.
Qed.
Lemma env_len_run : forall evs s, Forall is_envev evs -> length (clients s) <= length (clients (run s evs)).
Proof.
  induction evs as [|e t IH]; intros s F; [simpl; lia|].
  change (run s (e :: t)) with (run (step s e) t). inversion F as [|? ? He Ht]; subst.
  pose proof (env_len_step s e He). pose proof (IH (step s e) Ht). lia.
Qed.
Lemma env_loop_run : forall evs s, Forall is_envev evs -> loop (run s evs) = loop s /\ latest (run s evs) = latest s.
Proof.
  induction evs as [|e t IH]; intros s F; [auto|].
  change (run s (e :: t)) with (run (step s e) t). inversion F as [|? ? He Ht]; subst.
  destruct (IH (step s e) Ht) as [A B]. destruct (env_loop_step s e He) as [A' B']. split; congruence.
Qed.

(* a slot in which the loop does nothing: it has exited, or nothing triggers it *)
Lemma step_static : forall o xs keys s eps a,
  brel o xs keys s eps -> wfa keys a = true ->
  let s1 := run s (fst (act_events eps a)) in
  drain_event s1 = None ->
  (if ok_dead o a then loop s1 = LExit else (quiescentb s1 = true /\ latest s1 = ok_cur (ok_hist o a))) ->
  ok_dead o a = o_dead o ->
  let s2 := drain (fuel_of s1) s1 in
  let sl := mkSlot a (map (delta (clients s) (clients s2)) (seq 0 (length (clients s2)))) in
  snd (ok_lat o sl) = true /\
  (ok_conv o sl = true -> brel (ok_step o sl) (x2 a xs) (keys_after keys a) s2 (snd (act_events eps a))).
Proof.
  intros o xs keys s eps a B Wa s1 De R Dd s2 sl.
  destruct (act_crel o xs keys s eps a B Wa) as [F [W1 [C1 [N1 P1]]]]. fold s1 in W1, C1.
  assert (E2 : s2 = s1) by (apply drain_noop; exact De).
  assert (T : trace s1 = [] ++ trace s) by (simpl; apply env_trace_run; exact F).
  unfold sl. rewrite E2.
  destruct (finish o xs keys s eps a s1 [] [] [] 0 0 B W1 T (or_introl eq_refl)) as [L1 [L2 [L3 L4]]]; auto.
  - rewrite Dd. exact C1.
  - apply (calls_env o xs keys s eps a s1 B Wa); [exists []; reflexivity|apply env_len_run; exact F].
Qed.

Lemma done_unsub : forall s1 s2 ks, wf s2 -> s2 = run s1 ks -> unsubq s2 = [] ->
  forall i, In i (unsubq s1) -> ~ In i (subs s2).
Proof.
  intros s1 s2 ks W2 E U i Hi.
  assert (R : ret_or_queued s2 i) by (rewrite E; apply roq_run; left; exact Hi).
  destruct R as [R|R]; [rewrite U in R; destruct R|]. apply (wf_ret s2 W2 i R).
Qed.

(* a slot in which the (live) loop is triggered and comes to rest *)
Lemma step_dynamic : forall o xs keys s eps a ks (x : aset),
  brel o xs keys s eps -> o_dead o = false -> ok_dead o a = false -> wfa keys a = true ->
  let s1 := run s (fst (act_events eps a)) in
  let s2 := run s1 ks in
  Forall sys_event ks -> quiescentb s2 = true ->
  ((src s1 = [] /\ ok_hist o a = o_hist o) \/ (src s1 = [Item x] /\ ok_hist o a = o_hist o ++ [x])) ->
  let sl := mkSlot a (map (delta (clients s) (clients s2)) (seq 0 (length (clients s2)))) in
  snd (ok_lat o sl) = true /\
  crel false s2 (fst (ok_lat o sl)) (x2 a xs) (keys_after keys a) /\
  (ok_conv o sl = true -> brel (ok_step o sl) (x2 a xs) (keys_after keys a) s2 (snd (act_events eps a))).
Proof.
  intros o xs keys s eps a ks x B D Dd Wa s1 s2 F Q Hs sl.
  destruct (act_crel o xs keys s eps a B Wa) as [Fe [W1 [C1 [N1 P1]]]]. fold s1 in W1, C1. rewrite D in C1.
  assert (W2 : wf s2) by (apply wf_run; exact W1).
  pose proof (sys_run_cframe ks s1 F) as CF. fold s2 in CF.
  pose proof (quiescentb_spec s2 Q) as [Q1 [Q2 [Q3 Q4]]].
  assert (C2 : crel false s2 (ok_flags_step a (o_flags o)) (x2 a xs) (keys_after keys a)).
  { apply (crel_sys false s1 s2); auto. apply (done_unsub s1 s2 ks W2 eq_refl Q3). }
  destruct (sys_trace_run ks s1 F) as [new [T Cs]]. fold s2 in T.
  assert (T1 : trace s1 = trace s) by (apply env_trace_run; exact Fe). rewrite T1 in T.
  pose proof (b_rest _ _ _ _ _ B) as R. rewrite D in R. destruct R as [Rq Rl].
  destruct (env_loop_run _ s Fe) as [_ Ll]. fold s1 in Ll.
  assert (Hn : o_hist o <> []) by apply (b_hist _ _ _ _ _ B).
  assert (Hl : 0 < length (o_hist o)) by (destruct (o_hist o); [congruence|simpl; lia]).
  assert (Reg : latest s2 = registered s1).
  { rewrite <- (registered_run ks s1 F). fold s2. unfold registered. rewrite Q2. reflexivity. }
  set (jc := length (o_hist o) - 1).
  assert (Pj : forall f, In f (ok_flags_step a (o_flags o)) -> f_ptr f <= jc) by (intros f Hf; pose proof (P1 f Hf); unfold jc; lia).
  assert (Cl : forall i, In i (calls_after o a) -> i < length (clients s2) /\ ret_or_queued s2 i).
  { apply (calls_env o xs keys s eps a s2 B Wa); [exists ks; reflexivity|].
    pose proof (env_len_run _ s Fe). fold s1 in H. rewrite (cf_len _ _ CF). exact H. }
  destruct Hs as [[Sr Hh]|[Sr Hh]].
  - (* nothing to consume: every delivery carries the current list *)
    assert (Cx : forall y, In (TConsume y) new -> y = latest s).
    { intros y Hy. apply Cs in Hy. rewrite Sr in Hy. destruct Hy. }
    destruct (finish o xs keys s eps a s2 new (latest s) (latest s) jc jc B W2 T) as [L1 [L2 [L3 L4]]]; auto.
    + right. rewrite Hh. repeat split; auto. 
      * rewrite Rl. apply ok_cur_nth. exact Hn.
      * rewrite Rl. apply ok_cur_nth. exact Hn.
    + rewrite Dd. exact C2.
    + rewrite Dd. split; [exact Q|]. rewrite Reg. unfold registered. rewrite Sr. simpl. rewrite Ll, Hh. exact Rl.
    + rewrite Dd in L3. auto.
  - (* the new list x is consumed *)
    assert (Cx : forall y, In (TConsume y) new -> y = x).
    { intros y Hy. apply Cs in Hy. rewrite Sr in Hy. destruct Hy as [Hy|[]]. inversion Hy. reflexivity. }
    destruct (finish o xs keys s eps a s2 new (latest s) x jc (length (o_hist o)) B W2 T) as [L1 [L2 [L3 L4]]]; auto.
    + right. rewrite Hh. repeat split; auto.
      * rewrite nth_error_app1 by (unfold jc; lia). rewrite Rl. apply ok_cur_nth. exact Hn.
      * rewrite nth_error_app2 by lia. rewrite Nat.sub_diag. reflexivity.
      * unfold jc. lia.
    + rewrite Dd. exact C2.
    + rewrite Dd. split; [exact Q|]. rewrite Reg. unfold registered. rewrite Sr. simpl. rewrite Hh, ok_cur_snoc. reflexivity.
    + rewrite Dd in L3. auto.
Qed.

Definition quiet_ev (e : event) : Prop :=
  match e with ESubscribe _ _ | ESetReading _ _ | ECancel _ => True | _ => False end.
Lemma quiet_step : forall s e, quiet_ev e ->
  src (step s e) = src s /\ unsubq (step s e) = unsubq s /\ tickp (step s e) = tickp s /\
  loop (step s e) = loop s /\ latest (step s e) = latest s /\ subs s = subs s \/ True.
Proof. auto. Qed.
Lemma quiet_q : forall s e, quiet_ev e -> quiescentb (step s e) = quiescentb s /\ latest (step s e) = latest s.
Proof.
  intros s e H. destruct e; try destruct H; simpl; auto.
  destruct (key_used _ _ _); auto.
Qed.
Lemma quiescent_drain_none : forall s, quiescentb s = true -> drain_event s = None.
Proof. exact quiescent_drain_event. Qed.

Lemma aliveb_of : forall s, loop s = LSelect -> has_close (src s) = false -> aliveb s = true.
Proof. intros s L H. unfold aliveb. rewrite L, H. reflexivity. Qed.

(* Unsubscribe(i) on a resting loop: it is processed first, then the loop rests again *)
Lemma unsub_rest : forall s1 i,
  wf s1 -> loop s1 = LSelect -> src s1 = [] -> unsubq s1 = [i] -> tickp s1 = false ->
  (forall j, j <> i -> In j (subs s1) -> stalledb (clients s1) j = false) ->
  let s2 := drain (fuel_of s1) s1 in
  quiescentb s2 = true /\ exists ks, Forall sys_event ks /\ s2 = run s1 ks.
Proof.
  intros s1 i W L Sr Uq Tk Ns s2.
  assert (De : drain_event s1 = Some (ELoop BUnsub)).
  { unfold drain_event. rewrite L, Sr, Uq. reflexivity. }
  set (s1' := step s1 (ELoop BUnsub)).
  assert (W' : wf s1') by (apply wf_step; exact W).
  assert (F1 : fuel_of s1 = S (fuel_of s1 - 1)) by (unfold fuel_of; lia).
  assert (E : s2 = drain (fuel_of s1 - 1) s1').
  { unfold s2. rewrite F1 at 1. simpl. rewrite De. reflexivity. }
  assert (G : good s1').
  { split; [exact W'|]. split.
    - apply no_stall_spec. unfold s1'. simpl. rewrite L. simpl. rewrite Uq. unf.
      destruct (memn i (subs s1)) eqn:M; unf; simpl.
      + intros j Hj. apply remn_In in Hj. destruct Hj as [Hj Ne].
        unfold stalledb. rewrite nth_error_upd_other by congruence. apply (Ns j Ne Hj).
      + intros j Hj. destruct (Nat.eq_dec j i) as [E'|E']; [subst; apply memn_false in M; contradiction|]. apply (Ns j E' Hj).
    - apply aliveb_spec. unfold s1'. simpl. rewrite L. simpl. rewrite Uq. unf.
      destruct (memn i (subs s1)); unf; simpl; rewrite Sr; (split; [reflexivity|apply enter_not_exit]). }
  assert (M : mu s1' <= fuel_of s1 - 1).
  { pose proof (fuel_of_ge s1' W'). unfold fuel_of in *.
    assert (length (src s1') = 0 /\ length (unsubq s1') = 0 /\ length (subs s1') <= length (subs s1)).
    { unfold s1'. simpl. rewrite L. simpl. rewrite Uq. unf. destruct (memn i (subs s1)); unf; simpl; rewrite Sr; simpl;
        repeat split; auto. apply remn_length. }
    destruct H0 as [A1 [A2 A3]]. rewrite A1, A2 in H. rewrite Sr, Uq. simpl length. nia. }
  split.
  - rewrite E. apply drain_quiescent; assumption.
  - destruct (drain_is_sys_run (fuel_of s1 - 1) s1') as [ks [F Ek]].
    exists (ELoop BUnsub :: ks). split; [constructor; [exact I|exact F]|]. rewrite E, Ek. reflexivity.
Qed.

Lemma stalled_from : forall s fl xs keys skip,
  crel false s fl xs keys -> blocker skip xs = false ->
  forall j, (match skip with Some i => j <> i | None => True end) ->
  (forall k, In k (unsubq s) -> match skip with Some i => k = i | None => False end) ->
  In j (subs s) -> stalledb (clients s) j = false.
Proof.
  intros s fl xs keys skip C B j Hs Hu Hj. unfold stalledb.
  destruct (nth_error (clients s) j) as [c|] eqn:Nc; [|reflexivity].
  assert (Lj : j < length (clients s)) by (eapply nth_error_lt; exact Nc).
  destruct (nth_error fl j) as [f|] eqn:Nf; [|apply nth_error_None in Nf; rewrite (cr_len _ _ _ _ _ C) in Nf; lia].
  destruct (nth_error xs j) as [x|] eqn:Nx; [|apply nth_error_None in Nx; rewrite (cr_xlen _ _ _ _ _ C) in Nx; lia].
  destruct (cr_all _ _ _ _ _ C j c f x Nc Nf Nx) as [B1 [B2 [B3 [B4 [B5 [B6 [B7 B8]]]]]]].
  destruct (blocker_false skip xs j x B Nx) as [S|[R|[R|R]]].
  - destruct skip; [contradiction|destruct S].
  - rewrite B1, <- B2, R. reflexivity.
  - rewrite B5 by congruence. apply andb_false_r.
  - exfalso. destruct (B8 eq_refl) as [Q|Q]; [congruence| |contradiction].
    apply Hu in Q. destruct skip; [contradiction|destruct Q].
Qed.

(* the blocker test on fl1 transfers to the final flags x2 for the subscribers other than i *)
Lemma blocker_x2_unsub : forall a i xs, (a = AUnsub i \/ a = ACancelUnsub i) ->
  blocker (Some i) (x1 a xs) = false -> blocker (Some i) (x2 a xs) = false.
Proof.
  intros a i xs Ha H. unfold blocker in *.
  assert (G : forall (l : list xfl) g k, existsb_i (fun j x => negb (j =? i) && negb (x_reading x) && negb (x_cancel x) && negb (x_unsub x)) l k = false ->
              existsb_i (fun j x => negb (j =? i) && negb (x_reading x) && negb (x_cancel x) && negb (x_unsub x)) (upd (i - k) g l) k = false \/ True).
  { auto. }
  clear G.
  assert (E : forall (g : xfl -> xfl) (l : list xfl) k n, k + n = i ->
     existsb_i (fun j x => negb (j =? i) && negb (x_reading x) && negb (x_cancel x) && negb (x_unsub x)) l k = false ->
     existsb_i (fun j x => negb (j =? i) && negb (x_reading x) && negb (x_cancel x) && negb (x_unsub x)) (upd n g l) k = false).
  { intros g l. induction l as [|y t IH]; intros k n Hk Hl; destruct n as [|n]; simpl in *; auto.
    - apply orb_false_iff in Hl. destruct Hl as [_ H2]. apply orb_false_iff. split; [|exact H2].
      replace k with i by lia. rewrite Nat.eqb_refl. reflexivity.
    - apply orb_false_iff in Hl. destruct Hl as [H1 H2]. apply orb_false_iff. split; [exact H1|].
      apply IH; [lia|exact H2]. }
  destruct Ha as [Ha|Ha]; subst a; cbn [x2 x1] in *; apply (E _ xs 0 i); auto.
Qed.

Lemma ok_conv_not_wait : forall o sl, act sl <> AWait -> ok_conv o sl = true.
Proof. intros o sl H. unfold ok_conv. destruct (act sl); try reflexivity. congruence. Qed.

Lemma unsub_fields : forall s i evs, (evs = [EUnsubscribe i] \/ evs = [ECancel i; EUnsubscribe i]) ->
  i < length (clients s) ->
  unsubq (run s evs) = unsubq s ++ [i] /\ src (run s evs) = src s /\ tickp (run s evs) = tickp s.
Proof.
  intros s i evs [E|E] L; subst evs.
  - change (run s [EUnsubscribe i]) with (step s (EUnsubscribe i)). cbn [step].
    assert (Z : (i <? length (clients s)) = true) by (apply Nat.ltb_lt; exact L). rewrite Z. repeat split; reflexivity.
  - change (run s [ECancel i; EUnsubscribe i]) with (step (step s (ECancel i)) (EUnsubscribe i)). cbn [step].
    assert (Z : (i <? length (clients s)) = true) by (apply Nat.ltb_lt; exact L).
    unf. rewrite upd_length, Z. repeat split; reflexivity.
Qed.

Theorem gen_step27 : forall o xs keys s eps a t,
  brel o xs keys s eps -> wf_from keys (a :: t) = true -> exposed_from xs (a :: t) = false ->
  let s1 := run s (fst (act_events eps a)) in
  let s2 := drain (fuel_of s1) s1 in
  let sl := mkSlot a (map (delta (clients s) (clients s2)) (seq 0 (length (clients s2)))) in
  snd (ok_lat o sl) = true /\ ok_conv o sl = true /\
  brel (ok_step o sl) (x2 a xs) (keys_after keys a) s2 (snd (act_events eps a)) /\
  wf_from (keys_after keys a) t = true /\ exposed_from (x2 a xs) t = false.
Proof.
  intros o xs keys s eps a t B Wf Ex s1 s2 sl.
  rewrite wf_from_cons in Wf. apply andb_true_iff in Wf. destruct Wf as [Wa Wt].
  rewrite exposed_from_cons in Ex. apply orb_false_iff in Ex. destruct Ex as [Xh Xt].
  cut (snd (ok_lat o sl) = true /\ ok_conv o sl = true /\
       brel (ok_step o sl) (x2 a xs) (keys_after keys a) s2 (snd (act_events eps a))).
  { intros [A1 [A2 A3]]. auto. }
  destruct (act_crel o xs keys s eps a B Wa) as [Fe [W1 [C1 [N1 P1]]]]. fold s1 in W1, C1.
  destruct (env_loop_run _ s Fe) as [Lp Lt]. fold s1 in Lp, Lt.
  pose proof (b_rest _ _ _ _ _ B) as R.
  destruct (o_dead o) eqn:D.
  - (* the loop has exited: nothing happens any more *)
    assert (De : drain_event s1 = None) by (unfold drain_event; rewrite Lp, R; reflexivity).
    pose proof (ok_dead_true o a D) as Dd.
    destruct (step_static o xs keys s eps a B Wa De) as [L1 L2].
    + rewrite Dd. change (loop s1 = LExit). rewrite Lp. exact R.
    + rewrite Dd, D. reflexivity.
    + assert (Cv : ok_conv o sl = true).
      { unfold ok_conv. destruct (act sl) eqn:As; try reflexivity.
        change (act sl) with a in As. subst a. rewrite Dd. reflexivity. }
      split; [exact L1|]. split; [exact Cv|]. apply L2. exact Cv.
  - destruct R as [Rq Rl]. pose proof (quiescentb_spec s Rq) as [Q1 [Q2 [Q3 Q4]]].
    pose proof (b_eps _ _ _ _ _ B) as Be.
    destruct a.
    + (* ASet *)
      (* the stream produces the list a: consumed and pushed *)
      assert (S1 : src s1 = [Item a]) by (unfold s1; cbn; rewrite Q2; reflexivity).
      assert (U1 : unsubq s1 = []) by (unfold s1; cbn; exact Q3).
      assert (A1 : aliveb s1 = true) by (apply aliveb_of; [rewrite Lp; exact Q1|rewrite S1; reflexivity]).
      assert (N1' : no_stallb s1 = true) by (apply (no_stall_from s1 _ _ _ C1 U1); exact Xh).
      destruct (trigger_rest s1 W1 A1 N1') as [Qr [ks [Fk Ek]]].
      assert (Dd : ok_dead o (ASet a) = false) by (apply ok_dead_false; [exact D|discriminate]).
      destruct (step_dynamic o xs keys s eps (ASet a) ks a B D Dd Wa Fk) as [L1 [L2 L3]].
      { change (quiescentb (run s1 ks) = true). rewrite <- Ek. exact Qr. }
      { right. split; [exact S1|reflexivity]. }
      unfold sl, s2. rewrite Ek. split; [exact L1|]. split; [apply ok_conv_not_wait; discriminate|]. apply L3. apply ok_conv_not_wait; discriminate.
    + (* AClose: the loop takes the close and exits *)
      assert (S1 : src s1 = [Close]) by (unfold s1; cbn; rewrite Q2; reflexivity).
      assert (De : drain_event s1 = Some (ELoop BSrc)).
      { unfold drain_event. rewrite Lp, Q1, S1. reflexivity. }
      set (sx := step s1 (ELoop BSrc)).
      assert (Ex : sx = add_trace TExit (set_loop (set_src s1 []) LExit)) by (unfold sx; cbn [step]; rewrite Lp, Q1; cbn [loop_select]; rewrite S1; reflexivity).
      assert (E2 : s2 = sx).
      { unfold s2. assert (F1 : fuel_of s1 = S (fuel_of s1 - 1)) by (unfold fuel_of; lia). rewrite F1. cbn [drain]. rewrite De.
        fold sx. apply drain_noop. rewrite Ex. reflexivity. }
      assert (Wx : wf sx) by (apply wf_step; exact W1).
      assert (Tx : trace sx = [TExit] ++ trace s).
      { rewrite Ex. cbn. first [reflexivity|f_equal; apply env_trace_run; exact Fe]. }
      assert (Cx : crel true sx (ok_flags_step AClose (o_flags o)) (x2 AClose xs) (keys_after keys AClose)).
      { apply crel_weaken. apply (crel_sys false s1 sx); auto.
        - apply sys_cframe. exact I.
        - rewrite Ex. cbn. unfold s1. cbn. exact Q3.
        - intros i Hi. unfold s1 in Hi. cbn in Hi. rewrite Q3 in Hi. destruct Hi. }
      unfold sl. rewrite E2.
      assert (Hn : o_hist o <> []) by apply (b_hist _ _ _ _ _ B).
      assert (Cases : [TExit] = [] \/ ((forall y, In (TConsume y) [TExit] -> y = latest s) /\ latest s = latest s /\
                nth_error (ok_hist o AClose) (length (o_hist o) - 1) = Some (latest s) /\
                nth_error (ok_hist o AClose) (length (o_hist o) - 1) = Some (latest s) /\ length (o_hist o) - 1 <= length (o_hist o) - 1 /\
                (forall f, In f (ok_flags_step AClose (o_flags o)) -> f_ptr f <= length (o_hist o) - 1))).
      { right. split; [intros y [Hy|[]]; discriminate|]. split; [reflexivity|].
        change (ok_hist o AClose) with (o_hist o). rewrite Rl.
        split; [apply ok_cur_nth; exact Hn|]. split; [apply ok_cur_nth; exact Hn|]. split; [lia|].
        intros f Hf. pose proof (P1 f Hf). lia. }
      assert (Rx : if ok_dead o AClose then loop sx = LExit else (quiescentb sx = true /\ latest sx = ok_cur (ok_hist o AClose))).
      { change (ok_dead o AClose) with true. rewrite Ex. reflexivity. }
      assert (Clx : forall i, In i (calls_after o AClose) -> i < length (clients sx) /\ ret_or_queued sx i).
      { apply (calls_env o xs keys s eps AClose sx B Wa); [exists [ELoop BSrc]; reflexivity|].
        rewrite Ex. cbn. first [lia|apply env_len_run; exact Fe]. }
      destruct (finish o xs keys s eps AClose sx [TExit] (latest s) (latest s) (length (o_hist o) - 1) (length (o_hist o) - 1) B Wx Tx Cases Cx N1 P1 Rx Clx) as [L1 [L2 [L3 L4]]].
      split; [exact L1|]. split; [reflexivity|]. apply L4. reflexivity.
    + (* APut *)
      unfold sl in *; unfold s2 in *; unfold s1 in *; clear sl s2 s1.
      assert (Eh : ok_hist o (APut a) = (let '(e, ch) := apply_events [Put a] eps false in if ch then o_hist o ++ [e] else o_hist o)).
      { unfold ok_hist. cbn [ok_env]. rewrite Be. destruct (apply_events [Put a] eps false) as [e ch]. destruct ch; reflexivity. }
      cbn [act_events] in *. destruct (apply_events [Put a] eps false) as [e ch] eqn:Ae. destruct ch; cbn [fst snd] in *.
      * set (s1 := run s [ESrc (Item e)]) in *.
        assert (S1 : src s1 = [Item e]) by (unfold s1; cbn; rewrite Q2; reflexivity).
        assert (U1 : unsubq s1 = []) by (unfold s1; cbn; exact Q3).
        assert (A1 : aliveb s1 = true) by (apply aliveb_of; [rewrite Lp; exact Q1|rewrite S1; reflexivity]).
        assert (N1' : no_stallb s1 = true) by (apply (no_stall_from s1 _ _ _ C1 U1); exact Xh).
        destruct (trigger_rest s1 W1 A1 N1') as [Qr [ks [Fk Ek]]].
        assert (Dd : ok_dead o (APut a) = false) by (apply ok_dead_false; [exact D|discriminate]).
        pose proof (step_dynamic o xs keys s eps (APut a) ks e B D Dd Wa) as SD.
        cbn [act_events] in SD. rewrite Ae in SD. cbn [fst snd] in SD. fold s1 in SD.
        destruct (SD Fk) as [L1 [L2 L3]].
        { rewrite <- Ek. exact Qr. }
        { right. split; [exact S1|exact Eh]. }
        rewrite Ek. split; [exact L1|]. split; [apply ok_conv_not_wait; discriminate|]. apply L3. apply ok_conv_not_wait; discriminate.
      * assert (Dd : ok_dead o (APut a) = false) by (apply ok_dead_false; [exact D|discriminate]).
        pose proof (step_static o xs keys s eps (APut a) B Wa) as SS.
        cbn [act_events] in SS. rewrite Ae in SS. cbn [fst snd run fold_left] in SS.
        destruct SS as [L1 L2].
        { apply quiescent_drain_event. exact Rq. }
        { rewrite Dd. split; [exact Rq|]. rewrite Eh. exact Rl. }
        { rewrite Dd, D. reflexivity. }
        cbn [run fold_left]. split; [exact L1|]. split; [apply ok_conv_not_wait; discriminate|]. apply L2. apply ok_conv_not_wait; discriminate.
    + (* ADel *)
      unfold sl in *; unfold s2 in *; unfold s1 in *; clear sl s2 s1.
      assert (Eh : ok_hist o (ADel a) = (let '(e, ch) := apply_events [Del a] eps false in if ch then o_hist o ++ [e] else o_hist o)).
      { unfold ok_hist. cbn [ok_env]. rewrite Be. destruct (apply_events [Del a] eps false) as [e ch]. destruct ch; reflexivity. }
      cbn [act_events] in *. destruct (apply_events [Del a] eps false) as [e ch] eqn:Ae. destruct ch; cbn [fst snd] in *.
      * set (s1 := run s [ESrc (Item e)]) in *.
        assert (S1 : src s1 = [Item e]) by (unfold s1; cbn; rewrite Q2; reflexivity).
        assert (U1 : unsubq s1 = []) by (unfold s1; cbn; exact Q3).
        assert (A1 : aliveb s1 = true) by (apply aliveb_of; [rewrite Lp; exact Q1|rewrite S1; reflexivity]).
        assert (N1' : no_stallb s1 = true) by (apply (no_stall_from s1 _ _ _ C1 U1); exact Xh).
        destruct (trigger_rest s1 W1 A1 N1') as [Qr [ks [Fk Ek]]].
        assert (Dd : ok_dead o (ADel a) = false) by (apply ok_dead_false; [exact D|discriminate]).
        pose proof (step_dynamic o xs keys s eps (ADel a) ks e B D Dd Wa) as SD.
        cbn [act_events] in SD. rewrite Ae in SD. cbn [fst snd] in SD. fold s1 in SD.
        destruct (SD Fk) as [L1 [L2 L3]].
        { rewrite <- Ek. exact Qr. }
        { right. split; [exact S1|exact Eh]. }
        rewrite Ek. split; [exact L1|]. split; [apply ok_conv_not_wait; discriminate|]. apply L3. apply ok_conv_not_wait; discriminate.
      * assert (Dd : ok_dead o (ADel a) = false) by (apply ok_dead_false; [exact D|discriminate]).
        pose proof (step_static o xs keys s eps (ADel a) B Wa) as SS.
        cbn [act_events] in SS. rewrite Ae in SS. cbn [fst snd run fold_left] in SS.
        destruct SS as [L1 L2].
        { apply quiescent_drain_event. exact Rq. }
        { rewrite Dd. split; [exact Rq|]. rewrite Eh. exact Rl. }
        { rewrite Dd, D. reflexivity. }
        cbn [run fold_left]. split; [exact L1|]. split; [apply ok_conv_not_wait; discriminate|]. apply L2. apply ok_conv_not_wait; discriminate.
    + (* ABatch *)
      unfold sl in *; unfold s2 in *; unfold s1 in *; clear sl s2 s1.
      assert (Eh : ok_hist o (ABatch evs) = (let '(e, ch) := apply_events evs eps false in if ch then o_hist o ++ [e] else o_hist o)).
      { unfold ok_hist. cbn [ok_env]. rewrite Be. destruct (apply_events evs eps false) as [e ch]. destruct ch; reflexivity. }
      cbn [act_events] in *. destruct (apply_events evs eps false) as [e ch] eqn:Ae. destruct ch; cbn [fst snd] in *.
      * set (s1 := run s [ESrc (Item e)]) in *.
        assert (S1 : src s1 = [Item e]) by (unfold s1; cbn; rewrite Q2; reflexivity).
        assert (U1 : unsubq s1 = []) by (unfold s1; cbn; exact Q3).
        assert (A1 : aliveb s1 = true) by (apply aliveb_of; [rewrite Lp; exact Q1|rewrite S1; reflexivity]).
        assert (N1' : no_stallb s1 = true) by (apply (no_stall_from s1 _ _ _ C1 U1); exact Xh).
        destruct (trigger_rest s1 W1 A1 N1') as [Qr [ks [Fk Ek]]].
        assert (Dd : ok_dead o (ABatch evs) = false) by (apply ok_dead_false; [exact D|discriminate]).
        pose proof (step_dynamic o xs keys s eps (ABatch evs) ks e B D Dd Wa) as SD.
        cbn [act_events] in SD. rewrite Ae in SD. cbn [fst snd] in SD. fold s1 in SD.
        destruct (SD Fk) as [L1 [L2 L3]].
        { rewrite <- Ek. exact Qr. }
        { right. split; [exact S1|exact Eh]. }
        rewrite Ek. split; [exact L1|]. split; [apply ok_conv_not_wait; discriminate|]. apply L3. apply ok_conv_not_wait; discriminate.
      * assert (Dd : ok_dead o (ABatch evs) = false) by (apply ok_dead_false; [exact D|discriminate]).
        pose proof (step_static o xs keys s eps (ABatch evs) B Wa) as SS.
        cbn [act_events] in SS. rewrite Ae in SS. cbn [fst snd run fold_left] in SS.
        destruct SS as [L1 L2].
        { apply quiescent_drain_event. exact Rq. }
        { rewrite Dd. split; [exact Rq|]. rewrite Eh. exact Rl. }
        { rewrite Dd, D. reflexivity. }
        cbn [run fold_left]. split; [exact L1|]. split; [apply ok_conv_not_wait; discriminate|]. apply L2. apply ok_conv_not_wait; discriminate.
    + (* ASub: nothing triggers the loop *)
      destruct (quiet_q s (ESubscribe key reading) I) as [Qq Ql].
      assert (Dd : ok_dead o (ASub key reading) = false) by (apply ok_dead_false; [exact D|discriminate]).
      destruct (step_static o xs keys s eps (ASub key reading) B Wa) as [L1 L2].
      * apply quiescent_drain_event. cbn [act_events fst run fold_left]. rewrite Qq. exact Rq.
      * rewrite Dd. cbn [act_events fst run fold_left]. rewrite Qq, Ql. split; [exact Rq|exact Rl].
      * rewrite Dd, D. reflexivity.
      * assert (Cv : ok_conv o sl = true) by (apply ok_conv_not_wait; discriminate).
        split; [exact L1|]. split; [exact Cv|]. apply L2. exact Cv.
    + (* ARead: nothing triggers the loop *)
      destruct (quiet_q s (ESetReading i true) I) as [Qq Ql].
      assert (Dd : ok_dead o (ARead i) = false) by (apply ok_dead_false; [exact D|discriminate]).
      destruct (step_static o xs keys s eps (ARead i) B Wa) as [L1 L2].
      * apply quiescent_drain_event. cbn [act_events fst run fold_left]. rewrite Qq. exact Rq.
      * rewrite Dd. cbn [act_events fst run fold_left]. rewrite Qq, Ql. split; [exact Rq|exact Rl].
      * rewrite Dd, D. reflexivity.
      * assert (Cv : ok_conv o sl = true) by (apply ok_conv_not_wait; discriminate).
        split; [exact L1|]. split; [exact Cv|]. apply L2. exact Cv.
    + (* AStall: nothing triggers the loop *)
      destruct (quiet_q s (ESetReading i false) I) as [Qq Ql].
      assert (Dd : ok_dead o (AStall i) = false) by (apply ok_dead_false; [exact D|discriminate]).
      destruct (step_static o xs keys s eps (AStall i) B Wa) as [L1 L2].
      * apply quiescent_drain_event. cbn [act_events fst run fold_left]. rewrite Qq. exact Rq.
      * rewrite Dd. cbn [act_events fst run fold_left]. rewrite Qq, Ql. split; [exact Rq|exact Rl].
      * rewrite Dd, D. reflexivity.
      * assert (Cv : ok_conv o sl = true) by (apply ok_conv_not_wait; discriminate).
        split; [exact L1|]. split; [exact Cv|]. apply L2. exact Cv.
    + (* ACancel: nothing triggers the loop *)
      destruct (quiet_q s (ECancel i) I) as [Qq Ql].
      assert (Dd : ok_dead o (ACancel i) = false) by (apply ok_dead_false; [exact D|discriminate]).
      destruct (step_static o xs keys s eps (ACancel i) B Wa) as [L1 L2].
      * apply quiescent_drain_event. cbn [act_events fst run fold_left]. rewrite Qq. exact Rq.
      * rewrite Dd. cbn [act_events fst run fold_left]. rewrite Qq, Ql. split; [exact Rq|exact Rl].
      * rewrite Dd, D. reflexivity.
      * assert (Cv : ok_conv o sl = true) by (apply ok_conv_not_wait; discriminate).
        split; [exact L1|]. split; [exact Cv|]. apply L2. exact Cv.
    + (* AUnsub: the call is taken by the resting loop *)
      assert (Li : i < length keys) by (cbn in Wa; apply Nat.ltb_lt; exact Wa).
      assert (Lc : length keys = length (clients s)) by (rewrite (cr_keys _ _ _ _ _ (b_cr _ _ _ _ _ B)), map_length; reflexivity).
      destruct (unsub_fields s i (fst (act_events eps (AUnsub i))) (or_introl eq_refl)) as [U1 [S1 T1]]; [lia|].
      fold s1 in U1, S1, T1. rewrite Q3 in U1. rewrite Q2 in S1. rewrite Q4 in T1. simpl in U1.
      assert (L1' : loop s1 = LSelect) by (rewrite Lp; exact Q1).
      destruct (unsub_rest s1 i W1 L1' S1 U1 T1) as [Qr [ks [Fk Ek]]].
      { intros j Ne Hj. apply (stalled_from s1 _ _ _ (Some i) C1); auto.
        - apply (blocker_x2_unsub (AUnsub i) i xs); [left; reflexivity|exact Xh].
        - intros k Hk. rewrite U1 in Hk. destruct Hk as [Hk|[]]. symmetry. exact Hk. }
      assert (Dd : ok_dead o (AUnsub i) = false) by (apply ok_dead_false; [exact D|discriminate]).
      destruct (step_dynamic o xs keys s eps (AUnsub i) ks [] B D Dd Wa Fk) as [L1 [L2 L3]].
      { change (quiescentb (run s1 ks) = true). rewrite <- Ek. exact Qr. }
      { left. split; [exact S1|reflexivity]. }
      unfold sl, s2. rewrite Ek. split; [exact L1|]. split; [apply ok_conv_not_wait; discriminate|]. apply L3. apply ok_conv_not_wait; discriminate.
    + (* ACancelUnsub: the call is taken by the resting loop *)
      assert (Li : i < length keys) by (cbn in Wa; apply Nat.ltb_lt; exact Wa).
      assert (Lc : length keys = length (clients s)) by (rewrite (cr_keys _ _ _ _ _ (b_cr _ _ _ _ _ B)), map_length; reflexivity).
      destruct (unsub_fields s i (fst (act_events eps (ACancelUnsub i))) (or_intror eq_refl)) as [U1 [S1 T1]]; [lia|].
      fold s1 in U1, S1, T1. rewrite Q3 in U1. rewrite Q2 in S1. rewrite Q4 in T1. simpl in U1.
      assert (L1' : loop s1 = LSelect) by (rewrite Lp; exact Q1).
      destruct (unsub_rest s1 i W1 L1' S1 U1 T1) as [Qr [ks [Fk Ek]]].
      { intros j Ne Hj. apply (stalled_from s1 _ _ _ (Some i) C1); auto.
        - apply (blocker_x2_unsub (ACancelUnsub i) i xs); [right; reflexivity|exact Xh].
        - intros k Hk. rewrite U1 in Hk. destruct Hk as [Hk|[]]. symmetry. exact Hk. }
      assert (Dd : ok_dead o (ACancelUnsub i) = false) by (apply ok_dead_false; [exact D|discriminate]).
      destruct (step_dynamic o xs keys s eps (ACancelUnsub i) ks [] B D Dd Wa Fk) as [L1 [L2 L3]].
      { change (quiescentb (run s1 ks) = true). rewrite <- Ek. exact Qr. }
      { left. split; [exact S1|reflexivity]. }
      unfold sl, s2. rewrite Ek. split; [exact L1|]. split; [apply ok_conv_not_wait; discriminate|]. apply L3. apply ok_conv_not_wait; discriminate.
    + (* AWait: the ticker fires *)
      assert (S1 : src s1 = []) by (unfold s1; cbn; exact Q2).
      assert (U1 : unsubq s1 = []) by (unfold s1; cbn; exact Q3).
      assert (A1 : aliveb s1 = true) by (apply aliveb_of; [rewrite Lp; exact Q1|rewrite S1; reflexivity]).
      assert (N1' : no_stallb s1 = true) by (apply (no_stall_from s1 _ _ _ C1 U1); exact Xh).
      destruct (trigger_rest s1 W1 A1 N1') as [Qr [ks [Fk Ek]]].
      assert (Dd : ok_dead o AWait = false) by (apply ok_dead_false; [exact D|discriminate]).
      destruct (step_dynamic o xs keys s eps AWait ks [] B D Dd Wa Fk) as [L1 [L2 L3]].
      { change (quiescentb (run s1 ks) = true). rewrite <- Ek. exact Qr. }
      { left. split; [exact S1|reflexivity]. }
      assert (Cv : ok_conv o (mkSlot AWait (map (delta (clients s) (clients (run s1 ks))) (seq 0 (length (clients (run s1 ks)))))) = true).
      { unfold ok_conv. cbn [act]. rewrite Dd. simpl orb.
        apply ok_converge_complete. change (ok_hist o AWait) with (o_hist o). rewrite <- Rl.
        apply (conv_ok_slot s (run s1 ks) ks _ (x2 AWait xs) (keys_after keys AWait) (b_wf _ _ _ _ _ B) Q2 Fk eq_refl).
        - rewrite <- Ek. exact Qr.
        - exact L2. }
      unfold sl, s2. rewrite Ek. split; [exact L1|]. split; [exact Cv|]. apply L3. exact Cv.
Qed.

Definition ok0 : okst := mkOk [] [[]] [] false [] true.

Lemma brel_init : brel ok0 [] [] init [].
Proof.
  constructor; simpl; auto.
  - exact wf_init.
  - constructor; simpl; auto. intros i c f x H. destruct i; discriminate.
  - constructor.
  - intros f [].
  - discriminate.
  - intros i [].
Qed.

Lemma ok_step_calls : forall o sl, o_calls (ok_step o sl) = calls_after o (act sl).
Proof. intros o sl. unfold ok_step, calls_after. cbn [o_calls]. destruct (act sl); reflexivity. Qed.

Lemma gen_from_ok : forall acts o xs keys s eps,
  brel o xs keys s eps -> wf_from keys acts = true -> exposed_from xs acts = false -> o_good o = true ->
  let o' := fold_left ok_step (fst (gen_from (s, eps) acts)) o in
  o_good o' = true /\
  (exists xs' keys' eps', brel o' xs' keys' (snd (gen_from (s, eps) acts)) eps') /\
  length (o_calls o') = length (o_calls o) + count_unsub_calls (fst (gen_from (s, eps) acts)).
Proof.
  induction acts as [|a t IH]; intros o xs keys s eps B Wf Ex G.
  - simpl. split; [exact G|]. split; [exists xs, keys, eps; exact B|unfold count_unsub_calls; simpl; lia].
  - pose proof (gen_step27 o xs keys s eps a t B Wf Ex) as H. cbv zeta in H.
    destruct H as [H1 [H2 [H3 [H4 H5]]]].
    cbn [gen_from]. destruct (act_events eps a) as [evs eps'] eqn:Ae. cbn [fst snd] in *.
    set (s1 := run s evs) in *. set (s2 := drain (fuel_of s1) s1) in *.
    set (sl := mkSlot a (map (delta (clients s) (clients s2)) (seq 0 (length (clients s2))))) in *.
    destruct (gen_from (s2, eps') t) as [rest sf] eqn:Gt. cbn [fst snd fold_left].
    assert (G' : o_good (ok_step o sl) = true) by (rewrite ok_step_good, G, H1, H2; reflexivity).
    pose proof (IH (ok_step o sl) _ _ s2 eps' H3 H4 H5 G') as K. rewrite Gt in K. cbn [fst snd] in K.
    destruct K as [K1 [K2 K3]]. split; [exact K1|]. split; [exact K2|].
    rewrite K3, ok_step_calls. change (act sl) with a. unfold count_unsub_calls. cbn [filter]. change (act sl) with a.
    unfold calls_after. destruct a; simpl; rewrite ?app_length; simpl; lia.
Qed.

(* C27: the check accepts the model's own observations (canonical schedule) for
   EVERY well-formed script that never exposes a stalled subscriber to a dispatch *)
Theorem ok_gen : forall acts, wf_from [] acts = true -> exposed acts = false -> ok (gen_case acts) = true.
Proof.
  intros acts Wf Ex. unfold gen_case.
  pose proof (gen_from_ok acts ok0 [] [] init [] brel_init Wf Ex eq_refl) as K. cbv zeta in K.
  change (@pair st aset init (@nil addr)) with (@pair st (list addr) init (@nil addr)) in K.
  remember (gen_from (init, []) acts) as g eqn:Gf in *. destruct g as [sls sf]. cbn [fst snd] in K.
  destruct K as [G [[xs' [keys' [eps' B]]] Lc]].
  set (o' := fold_left ok_step sls ok0) in *.
  change (o_good o' && (o_dead o' || (forallb (fun b => b) (unsub_flags (count_unsub_calls sls) sf)
            && Nat.eqb (length (unsub_flags (count_unsub_calls sls) sf)) (length (o_calls o'))
            && forallb (fun i => nth i (map cclosed (clients sf)) false) (o_calls o'))) = true).
  apply andb_true_iff. split; [exact G|].
  destruct (o_dead o') eqn:D; [reflexivity|]. simpl orb.
  pose proof (b_rest _ _ _ _ _ B) as R. rewrite D in R. destruct R as [Rq _].
  pose proof (quiescentb_spec sf Rq) as [_ [_ [Q3 _]]].
  pose proof (b_wf _ _ _ _ _ B) as W.
  simpl in Lc.
  assert (Fl : unsub_flags (count_unsub_calls sls) sf = repeat true (count_unsub_calls sls)).
  { unfold unsub_flags. rewrite Q3. simpl. rewrite Nat.sub_0_r, Nat.sub_diag. simpl. apply app_nil_r. }
  rewrite Fl. apply andb_true_iff. split; [apply andb_true_iff; split|].
  - apply forallb_forall. intros b Hb. apply repeat_spec in Hb. exact Hb.
  - apply Nat.eqb_eq. rewrite repeat_length. symmetry. exact Lc.
  - apply forallb_forall. intros i Hi. destruct (b_calls _ _ _ _ _ B i Hi) as [Li Rr].
    destruct Rr as [Rr|Rr]; [rewrite Q3 in Rr; destruct Rr|].
    destruct (wf_ret sf W i Rr) as [_ Ns].
    destruct (nth_error (clients sf) i) as [c|] eqn:Nc; [|apply nth_error_None in Nc; lia].
    rewrite (nth_error_nth _ _ false (map_nth_error cclosed _ _ Nc)).
    apply (wf_closed sf W i c Nc). exact Ns.
Qed.
