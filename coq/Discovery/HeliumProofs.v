(* Proofs about Part 2 of Discovery/Helium.v: the helium dispatch loop. *)
From Coq Require Import List Bool Arith PeanoNat Lia.
From Verif Require Import Discovery.Helium.
Import ListNotations.

(* ------------------------------------------------------------------ *)
(* list helpers                                                        *)
(* ------------------------------------------------------------------ *)

Lemma memn_In : forall i l, memn i l = true <-> In i l.
Proof.
  intros i l. induction l as [|x t IH]; simpl; [split; [discriminate|tauto]|].
  rewrite orb_true_iff, Nat.eqb_eq, IH. tauto.
Qed.
Lemma memn_false : forall i l, memn i l = false <-> ~ In i l.
Proof. intros. rewrite <- memn_In. destruct (memn i l); split; congruence. Qed.

Lemma remn_In : forall j i l, In j (remn i l) <-> In j l /\ j <> i.
Proof.
  intros. unfold remn. rewrite filter_In, negb_true_iff, Nat.eqb_neq. tauto.
Qed.
Lemma remn_NoDup : forall i l, NoDup l -> NoDup (remn i l).
Proof.
  intros i l H. induction H as [|x t Hx Ht IH]; simpl; [constructor|].
  destruct (negb (x =? i)); [constructor; [|exact IH]|exact IH].
  intro C. apply remn_In in C. tauto.
Qed.
Lemma remn_length : forall i l, length (remn i l) <= length l.
Proof. intros. unfold remn. induction l; simpl; [lia|]. destruct (negb _); simpl; lia. Qed.

Lemma upd_length : forall A (f : A -> A) i l, length (upd i f l) = length l.
Proof. intros A f i l. revert i. induction l; intros [|i]; simpl; auto. Qed.
Lemma nth_error_upd_same : forall A (f : A -> A) i l,
  nth_error (upd i f l) i = option_map f (nth_error l i).
Proof. intros A f i l. revert i. induction l; intros [|i]; simpl; auto. Qed.
Lemma nth_error_upd_other : forall A (f : A -> A) i j l, i <> j ->
  nth_error (upd i f l) j = nth_error l j.
Proof.
  intros A f i j l. revert i j. induction l; intros [|i] [|j] H; simpl; auto; try congruence.
Qed.
Lemma nth_error_upd : forall A (f : A -> A) i j l c,
  nth_error (upd i f l) j = Some c ->
  exists c0, nth_error l j = Some c0 /\ (c = c0 \/ (i = j /\ c = f c0)).
Proof.
  intros A f i j l c H. destruct (Nat.eq_dec i j) as [E|E].
  - subst. rewrite nth_error_upd_same in H. destruct (nth_error l j) as [c0|]; [|discriminate].
    simpl in H. inversion H. eauto.
  - rewrite nth_error_upd_other in H by exact E. eauto.
Qed.

Lemma nth_error_snoc : forall A (l : list A) x j c,
  nth_error (l ++ [x]) j = Some c ->
  (j < length l /\ nth_error l j = Some c) \/ (j = length l /\ c = x).
Proof.
  intros A l x j c H. destruct (Nat.lt_ge_cases j (length l)) as [L|L].
  - left. split; [exact L|]. rewrite nth_error_app1 in H by exact L. exact H.
  - right. rewrite nth_error_app2 in H by exact L.
    destruct (j - length l) as [|d] eqn:E; simpl in H.
    + inversion H. split; [lia|reflexivity].
    + destruct d; discriminate.
Qed.

Lemma insert_sub_In : forall cl k n l j, In j (insert_sub cl k n l) <-> j = n \/ In j l.
Proof.
  intros cl k n l j. induction l as [|x t IH]; simpl; [intuition|].
  destruct (k <? key_of cl x); simpl; [intuition|]. rewrite IH. intuition.
Qed.
Lemma insert_sub_NoDup : forall cl k n l, ~ In n l -> NoDup l -> NoDup (insert_sub cl k n l).
Proof.
  intros cl k n l Hn H. induction H as [|x t Hx Ht IH]; simpl; [constructor; [tauto|constructor]|].
  destruct (k <? key_of cl x).
  - constructor; [exact Hn|constructor; assumption].
  - constructor.
    + rewrite insert_sub_In. simpl in Hn. intuition.
    + apply IH. simpl in Hn. tauto.
Qed.
Lemma insert_sub_length : forall cl k n l, length (insert_sub cl k n l) = S (length l).
Proof. intros. induction l as [|x t IH]; simpl; [reflexivity|]. destruct (_ <? _); simpl; lia. Qed.

(* the part of the map still to be visited, starting at cur *)
Fixpoint from (cur : nat) (l : list nat) : list nat :=
  match l with [] => [] | x :: t => if x =? cur then l else from cur t end.

Lemma after_incl : forall cur l j, In j (after cur l) -> In j l.
Proof.
  intros cur l j. induction l as [|x t IH]; simpl; [tauto|].
  destruct (x =? cur); [tauto|]. intro H. right. apply IH. exact H.
Qed.
Lemma from_after : forall cur l, In cur l -> from cur l = cur :: after cur l.
Proof.
  intros cur l. induction l as [|x t IH]; simpl; [tauto|].
  destruct (x =? cur) eqn:E.
  - apply Nat.eqb_eq in E. subst. reflexivity.
  - intros [H|H]; [subst; rewrite Nat.eqb_refl in E; discriminate|]. apply IH. exact H.
Qed.
Lemma from_length : forall cur l, length (from cur l) <= length l.
Proof. intros. induction l as [|x t IH]; simpl; [lia|]. destruct (x =? cur); simpl; lia. Qed.
Lemma from_hd : forall c r, from c (c :: r) = c :: r.
Proof. intros. simpl. rewrite Nat.eqb_refl. reflexivity. Qed.
Lemma from_hd_after : forall cur l c r, NoDup l -> after cur l = c :: r -> from c l = c :: r.
Proof.
  intros cur l c r H. induction H as [|x t Hx Ht IH]; simpl; [discriminate|].
  destruct (x =? cur) eqn:E; intro A.
  - subst t. destruct (x =? c) eqn:E2.
    + apply Nat.eqb_eq in E2. subst. simpl in Hx. tauto.
    + apply from_hd.
  - destruct (x =? c) eqn:E2.
    + apply Nat.eqb_eq in E2. subst. exfalso. apply Hx. apply (after_incl cur). rewrite A. left. reflexivity.
    + apply IH. exact A.
Qed.

(* ------------------------------------------------------------------ *)
(* case analysis of one step                                           *)
(* ------------------------------------------------------------------ *)

Ltac unf := unfold begin_dispatch, advance, add_trace, set_clients, set_subs, set_src,
                   set_unsubq, set_tickp, set_latest, set_loop in *; cbn [clients subs src unsubq tickp latest loop trace] in *.

(* 24 cases, see the order of the constructors of [event] *)
Ltac break_step s e :=
  destruct e as [it| |k r|i b|i|i|b|ch]; cbn [step];
  [ | | destruct (key_used (clients s) k (subs s)) eqn:Ku
    | | | destruct (i <? length (clients s)) eqn:Lt
    | destruct (loop s) as [|cur msg|] eqn:Lp;
      [ destruct b; unfold loop_select;
        [ destruct (src s) as [|[a|] r] eqn:Sr
        | destruct (unsubq s) as [|i r] eqn:Uq;
          [ | unf; destruct (memn i (subs s)) eqn:Mi ]
        | destruct (tickp s) eqn:Tk ]
      | | ]
    | destruct (loop s) as [|cur msg|] eqn:Lp;
      [ | unfold dispatch_one; destruct (nth_error (clients s) cur) as [c|] eqn:Nc;
          [ destruct (creading c && (negb (ccancel c) || ch)) eqn:Dl;
            [ | destruct (ccancel c) eqn:Cc ]
          | ]
        | ] ]; unf.

(* ------------------------------------------------------------------ *)
(* structural invariants                                               *)
(* ------------------------------------------------------------------ *)

Fixpoint last_consumed (t : list tev) : aset :=
  match t with [] => [] | TConsume a :: _ => a | _ :: r => last_consumed r end.
(* every delivery carries the list most recently taken from the stream *)
Fixpoint deliveries_ok (t : list tev) : Prop :=
  match t with
  | [] => True
  | TDeliver _ m :: r => m = last_consumed r /\ deliveries_ok r
  | _ :: r => deliveries_ok r
  end.
Fixpoint deliveries_of (i : nat) (t : list tev) : list aset :=
  match t with
  | [] => []
  | TDeliver j m :: r => if j =? i then m :: deliveries_of i r else deliveries_of i r
  | _ :: r => deliveries_of i r
  end.
Definition recv_of (s : st) (i : nat) : list aset :=
  match nth_error (clients s) i with Some c => crecv c | None => [] end.

Record wf (s : st) : Prop := mkWf {
  wf_lt : forall i, In i (subs s) -> i < length (clients s);
  wf_nodup : NoDup (subs s);
  wf_disp : forall cur msg, loop s = LDispatch cur msg -> In cur (subs s) /\ msg = latest s;
  wf_closed : forall i c, nth_error (clients s) i = Some c -> (cclosed c = true <-> ~ In i (subs s));
  wf_uq : forall i, In i (unsubq s) -> i < length (clients s);
  wf_ret : forall i, In (TUnsubRet i) (trace s) -> i < length (clients s) /\ ~ In i (subs s);
  wf_latest : latest s = last_consumed (trace s);
  wf_deliv : deliveries_ok (trace s);
  wf_recv : forall i, recv_of s i = deliveries_of i (trace s)
}.

Lemma nth_error_nil_some : forall A i (c : A), nth_error [] i = Some c -> False.
Proof. intros A [|i] c H; discriminate. Qed.

Lemma wf_init : wf init.
Proof.
  constructor; simpl; intros; try tauto; try discriminate; try constructor;
    try (exfalso; eapply nth_error_nil_some; eassumption).
  unfold recv_of. simpl. destruct i; reflexivity.
Qed.
Lemma wf_init_failed : wf init_failed.
Proof.
  constructor; simpl; intros; try tauto; try discriminate; try constructor;
    try (exfalso; eapply nth_error_nil_some; eassumption).
  unfold recv_of. simpl. destruct i; reflexivity.
Qed.

Lemma enter_disp : forall l m cur msg, enter l m = LDispatch cur msg -> In cur l /\ msg = m.
Proof. intros [|x t] m cur msg H; simpl in H; [discriminate|]. inversion H. subst. simpl. auto. Qed.

(* ---- preservation, one lemma per field ---- *)

Lemma step_lt : forall s e, wf s -> forall i, In i (subs (step s e)) -> i < length (clients (step s e)).
Proof.
  intros s e W.
  break_step s e; pose proof (wf_lt s W) as L; intros j Hj; rewrite ?upd_length; auto.
  - rewrite app_length. simpl. apply insert_sub_In in Hj. destruct Hj as [Hj|Hj]; [lia|].
    apply L in Hj. lia.
  - apply remn_In in Hj. apply L. tauto.
Qed.

Lemma step_nodup : forall s e, wf s -> NoDup (subs (step s e)).
Proof.
  intros s e W.
  break_step s e; pose proof (wf_nodup s W) as N; pose proof (wf_lt s W) as L; auto.
  - apply insert_sub_NoDup; [|exact N]. intro C. apply L in C. lia.
  - apply remn_NoDup. exact N.
Qed.

Lemma step_uq : forall s e, wf s -> forall i, In i (unsubq (step s e)) -> i < length (clients (step s e)).
Proof.
  intros s e W.
  break_step s e; pose proof (wf_uq s W) as U; intros j Hj; rewrite ?upd_length; auto;
    try (apply U; rewrite Uq; right; exact Hj).
  - rewrite app_length. simpl. apply U in Hj. lia.
  - apply in_app_or in Hj. destruct Hj as [Hj|[Hj|[]]]; [apply U; exact Hj|].
    subst. apply Nat.ltb_lt. exact Lt.
Qed.

Lemma step_disp : forall s e, wf s -> forall cur msg, loop (step s e) = LDispatch cur msg ->
  In cur (subs (step s e)) /\ msg = latest (step s e).
Proof.
  intros s e W.
  break_step s e; pose proof (wf_disp s W) as D; intros cur' msg' H; auto; try discriminate;
    try (apply enter_disp in H; exact H).
  - apply D in H. rewrite insert_sub_In. tauto.
  - apply enter_disp in H. destruct H as [H1 H2]. apply after_incl in H1.
    destruct (D _ _ Lp) as [_ D2]. split; congruence.
  - apply enter_disp in H. destruct H as [H1 H2]. apply after_incl in H1.
    destruct (D _ _ Lp) as [_ D2]. split; congruence.
  - apply enter_disp in H. destruct H as [H1 H2]. apply after_incl in H1.
    destruct (D _ _ Lp) as [_ D2]. split; congruence.
Qed.

Lemma step_closed : forall s e, wf s -> forall i c, nth_error (clients (step s e)) i = Some c ->
  (cclosed c = true <-> ~ In i (subs (step s e))).
Proof.
  intros s e W.
  break_step s e; pose proof (wf_closed s W) as C; pose proof (wf_lt s W) as L; intros j c' H; auto.
  - apply nth_error_snoc in H. rewrite insert_sub_In. destruct H as [[H1 H2]|[H1 H2]].
    + rewrite (C _ _ H2). split; [intros A [B|B]; [lia|tauto]|tauto].
    + subst. simpl. split; [discriminate|]. intro A. exfalso. apply A. left. reflexivity.
  - apply nth_error_upd in H. destruct H as [c0 [H1 [H2|[_ H2]]]]; subst; [|simpl]; apply (C _ _ H1).
  - apply nth_error_upd in H. destruct H as [c0 [H1 [H2|[_ H2]]]]; subst; [|simpl]; apply (C _ _ H1).
  - rewrite remn_In. destruct (Nat.eq_dec i j) as [E|E].
    + subst. rewrite nth_error_upd_same in H. destruct (nth_error (clients s) j); [|discriminate].
      simpl in H. inversion H. simpl. tauto.
    + rewrite nth_error_upd_other in H by exact E. rewrite (C _ _ H). split; [tauto|].
      intros A B. apply A. split; [exact B|congruence].
  - apply nth_error_upd in H. destruct H as [c0 [H1 [H2|[_ H2]]]]; subst; [|simpl]; apply (C _ _ H1).
Qed.

Lemma step_ret : forall s e, wf s -> forall i, In (TUnsubRet i) (trace (step s e)) ->
  i < length (clients (step s e)) /\ ~ In i (subs (step s e)).
Proof.
  intros s e W.
  break_step s e; pose proof (wf_ret s W) as R; pose proof (wf_uq s W) as U; intros j H;
    rewrite ?upd_length; auto.
  - apply R in H. destruct H as [H1 H2]. rewrite app_length, insert_sub_In. simpl. split; [lia|].
    intros [A|A]; [lia|tauto].
  - destruct H as [H|H]; [discriminate|]. auto.
  - destruct H as [H|H]; [discriminate|]. auto.
  - rewrite remn_In. destruct H as [H|[H|H]]; [discriminate| |].
    + inversion H. subst. split; [apply U; rewrite Uq; left; reflexivity|tauto].
    + apply R in H. tauto.
  - destruct H as [H|H].
    + inversion H. subst. split; [apply U; rewrite Uq; left; reflexivity|]. apply memn_false. exact Mi.
    + auto.
  - destruct H as [H|H]; [discriminate|]. auto.
Qed.

Lemma step_latest : forall s e, wf s -> latest (step s e) = last_consumed (trace (step s e)).
Proof.
  intros s e W.
  break_step s e; pose proof (wf_latest s W) as R; auto.
Qed.

Lemma step_deliv : forall s e, wf s -> deliveries_ok (trace (step s e)).
Proof.
  intros s e W.
  break_step s e; pose proof (wf_deliv s W) as R; pose proof (wf_latest s W) as La;
    pose proof (wf_disp s W) as D; simpl; auto.
  split; [|exact R]. destruct (D _ _ Lp) as [_ D2]. congruence.
Qed.

Lemma recv_upd_frame : forall (f : client -> client) i j l,
  (forall c, crecv (f c) = crecv c) ->
  match nth_error (upd i f l) j with Some c => crecv c | None => [] end =
  match nth_error l j with Some c => crecv c | None => [] end.
Proof.
  intros f i j l Hf. destruct (Nat.eq_dec i j) as [E|E].
  - subst. rewrite nth_error_upd_same. destruct (nth_error l j); simpl; auto.
  - rewrite nth_error_upd_other by exact E. reflexivity.
Qed.

Lemma step_recv : forall s e, wf s -> forall i, recv_of (step s e) i = deliveries_of i (trace (step s e)).
Proof.
  intros s e W.
  break_step s e; pose proof (wf_recv s W) as R; intro j; unfold recv_of in *; simpl; auto;
    try (rewrite recv_upd_frame by reflexivity; apply R).
  - rewrite <- R. destruct (Nat.lt_ge_cases j (length (clients s))) as [L|L].
    + rewrite nth_error_app1 by exact L. reflexivity.
    + rewrite nth_error_app2 by exact L. replace (nth_error (clients s) j) with (@None client)
        by (symmetry; apply nth_error_None; exact L).
      destruct (j - length (clients s)) as [|[|d]]; reflexivity.
  - destruct (cur =? j) eqn:E.
    + apply Nat.eqb_eq in E. subst. rewrite nth_error_upd_same, Nc. simpl. rewrite <- R, Nc. reflexivity.
    + apply Nat.eqb_neq in E. rewrite nth_error_upd_other by exact E. apply R.
Qed.

Lemma wf_step : forall s e, wf s -> wf (step s e).
Proof.
  intros s e W. constructor.
  - apply step_lt; exact W.
  - apply step_nodup; exact W.
  - apply step_disp; exact W.
  - apply step_closed; exact W.
  - apply step_uq; exact W.
  - apply step_ret; exact W.
  - apply step_latest; exact W.
  - apply step_deliv; exact W.
  - apply step_recv; exact W.
Qed.

Lemma wf_run : forall evs s, wf s -> wf (run s evs).
Proof. induction evs as [|e t IH]; intros s W; simpl; [exact W|]. apply IH. apply wf_step. exact W. Qed.
