(* Proofs about Part 2 of Discovery/Helium.v: the helium dispatch loop. *)
From Coq Require Import List Bool Arith PeanoNat Lia.
From Verif Require Import Discovery.Helium.
Import ListNotations.

(* ------------------------------------------------------------------ *)
(* list helpers                                                        *)
(* ------------------------------------------------------------------ *)

Lemma memn_In : forall i l, memn i l = true <-> In i l.
Proof.
  intros i l. induction l as [|x t IH]; simpl; [split; [discriminate|tauto]|].
  rewrite orb_true_iff, Nat.eqb_eq, IH. tauto.
Qed.
Lemma memn_false : forall i l, memn i l = false <-> ~ In i l.
Proof. intros. rewrite <- memn_In. destruct (memn i l); split; congruence. Qed.

Lemma remn_In : forall j i l, In j (remn i l) <-> In j l /\ j <> i.
Proof.
  intros. unfold remn. rewrite filter_In, negb_true_iff, Nat.eqb_neq. tauto.
Qed.
Lemma remn_NoDup : forall i l, NoDup l -> NoDup (remn i l).
Proof.
  intros i l H. induction H as [|x t Hx Ht IH]; simpl; [constructor|].
  destruct (negb (x =? i)); [constructor; [|exact IH]|exact IH].
  intro C. apply remn_In in C. tauto.
Qed.
Lemma remn_length : forall i l, length (remn i l) <= length l.
Proof. intros. unfold remn. induction l; simpl; [lia|]. destruct (negb _); simpl; lia. Qed.

Lemma upd_length : forall A (f : A -> A) i l, length (upd i f l) = length l.
Proof. intros A f i l. revert i. induction l; intros [|i]; simpl; auto. Qed.
Lemma nth_error_upd_same : forall A (f : A -> A) i l,
  nth_error (upd i f l) i = option_map f (nth_error l i).
Proof. intros A f i l. revert i. induction l; intros [|i]; simpl; auto. Qed.
Lemma nth_error_upd_other : forall A (f : A -> A) i j l, i <> j ->
  nth_error (upd i f l) j = nth_error l j.
Proof.
  intros A f i j l. revert i j. induction l; intros [|i] [|j] H; simpl; auto; try congruence.
Qed.
Lemma nth_error_upd : forall A (f : A -> A) i j l c,
  nth_error (upd i f l) j = Some c ->
  exists c0, nth_error l j = Some c0 /\ (c = c0 \/ (i = j /\ c = f c0)).
Proof.
  intros A f i j l c H. destruct (Nat.eq_dec i j) as [E|E].
  - subst. rewrite nth_error_upd_same in H. destruct (nth_error l j) as [c0|]; [|discriminate].
    simpl in H. inversion H. eauto.
  - rewrite nth_error_upd_other in H by exact E. eauto.
Qed.

Lemma nth_error_snoc : forall A (l : list A) x j c,
  nth_error (l ++ [x]) j = Some c ->
  (j < length l /\ nth_error l j = Some c) \/ (j = length l /\ c = x).
Proof.
  intros A l x j c H. destruct (Nat.lt_ge_cases j (length l)) as [L|L].
  - left. split; [exact L|]. rewrite nth_error_app1 in H by exact L. exact H.
  - right. rewrite nth_error_app2 in H by exact L.
    destruct (j - length l) as [|d] eqn:E; simpl in H.
    + inversion H. split; [lia|reflexivity].
    + destruct d; discriminate.
Qed.

Lemma insert_sub_In : forall cl k n l j, In j (insert_sub cl k n l) <-> j = n \/ In j l.
Proof.
  intros cl k n l j. induction l as [|x t IH]; simpl; [intuition|].
  destruct (k <? key_of cl x); simpl; [intuition|]. rewrite IH. intuition.
Qed.
Lemma insert_sub_NoDup : forall cl k n l, ~ In n l -> NoDup l -> NoDup (insert_sub cl k n l).
Proof.
  intros cl k n l Hn H. induction H as [|x t Hx Ht IH]; simpl; [constructor; [tauto|constructor]|].
  destruct (k <? key_of cl x).
  - constructor; [exact Hn|constructor; assumption].
  - constructor.
    + rewrite insert_sub_In. simpl in Hn. intuition.
    + apply IH. simpl in Hn. tauto.
Qed.
Lemma insert_sub_length : forall cl k n l, length (insert_sub cl k n l) = S (length l).
Proof. intros. induction l as [|x t IH]; simpl; [reflexivity|]. destruct (_ <? _); simpl; lia. Qed.

(* the part of the map still to be visited, starting at cur *)
Fixpoint from (cur : nat) (l : list nat) : list nat :=
  match l with [] => [] | x :: t => if x =? cur then l else from cur t end.

Lemma after_incl : forall cur l j, In j (after cur l) -> In j l.
Proof.
  intros cur l j. induction l as [|x t IH]; simpl; [tauto|].
  destruct (x =? cur); [tauto|]. intro H. right. apply IH. exact H.
Qed.
Lemma from_after : forall cur l, In cur l -> from cur l = cur :: after cur l.
Proof.
  intros cur l. induction l as [|x t IH]; simpl; [tauto|].
  destruct (x =? cur) eqn:E.
  - apply Nat.eqb_eq in E. subst. reflexivity.
  - intros [H|H]; [subst; rewrite Nat.eqb_refl in E; discriminate|]. apply IH. exact H.
Qed.
Lemma from_length : forall cur l, length (from cur l) <= length l.
Proof. intros. induction l as [|x t IH]; simpl; [lia|]. destruct (x =? cur); simpl; lia. Qed.
Lemma from_hd : forall c r, from c (c :: r) = c :: r.
Proof. intros. simpl. rewrite Nat.eqb_refl. reflexivity. Qed.
Lemma from_hd_after : forall cur l c r, NoDup l -> after cur l = c :: r -> from c l = c :: r.
Proof.
  intros cur l c r H. induction H as [|x t Hx Ht IH]; simpl; [discriminate|].
  destruct (x =? cur) eqn:E; intro A.
  - subst t. destruct (x =? c) eqn:E2.
    + apply Nat.eqb_eq in E2. subst. simpl in Hx. tauto.
    + apply from_hd.
  - destruct (x =? c) eqn:E2.
    + apply Nat.eqb_eq in E2. subst. exfalso. apply Hx. apply (after_incl cur). rewrite A. left. reflexivity.
    + apply IH. exact A.
Qed.

(* ------------------------------------------------------------------ *)
(* case analysis of one step                                           *)
(* ------------------------------------------------------------------ *)

Ltac unf := unfold begin_dispatch, advance, add_trace, set_clients, set_subs, set_src,
                   set_unsubq, set_tickp, set_latest, set_loop in *; cbn [clients subs src unsubq tickp latest loop trace] in *.

(* 24 cases, see the order of the constructors of [event] *)
Ltac break_step s e :=
  destruct e as [it| |k r|i b|i|i|b|ch]; cbn [step];
  [ | | destruct (key_used (clients s) k (subs s)) eqn:Ku
    | | | destruct (i <? length (clients s)) eqn:Lt
    | destruct (loop s) as [|cur msg|] eqn:Lp;
      [ destruct b; unfold loop_select;
        [ destruct (src s) as [|[a|] r] eqn:Sr
        | destruct (unsubq s) as [|i r] eqn:Uq;
          [ | unf; destruct (memn i (subs s)) eqn:Mi ]
        | destruct (tickp s) eqn:Tk ]
      | | ]
    | destruct (loop s) as [|cur msg|] eqn:Lp;
      [ | unfold dispatch_one; destruct (nth_error (clients s) cur) as [c|] eqn:Nc;
          [ destruct (creading c && (negb (ccancel c) || ch)) eqn:Dl;
            [ | destruct (ccancel c) eqn:Cc ]
          | ]
        | ] ]; unf.

(* ------------------------------------------------------------------ *)
(* structural invariants                                               *)
(* ------------------------------------------------------------------ *)

Fixpoint last_consumed (t : list tev) : aset :=
  match t with [] => [] | TConsume a :: _ => a | _ :: r => last_consumed r end.
(* every delivery carries the list most recently taken from the stream *)
Fixpoint deliveries_ok (t : list tev) : Prop :=
  match t with
  | [] => True
  | TDeliver _ m :: r => m = last_consumed r /\ deliveries_ok r
  | _ :: r => deliveries_ok r
  end.
Fixpoint deliveries_of (i : nat) (t : list tev) : list aset :=
  match t with
  | [] => []
  | TDeliver j m :: r => if j =? i then m :: deliveries_of i r else deliveries_of i r
  | _ :: r => deliveries_of i r
  end.
Definition recv_of (s : st) (i : nat) : list aset :=
  match nth_error (clients s) i with Some c => crecv c | None => [] end.

Record wf (s : st) : Prop := mkWf {
  wf_lt : forall i, In i (subs s) -> i < length (clients s);
  wf_nodup : NoDup (subs s);
  wf_disp : forall cur msg, loop s = LDispatch cur msg -> In cur (subs s) /\ msg = latest s;
  wf_closed : forall i c, nth_error (clients s) i = Some c -> (cclosed c = true <-> ~ In i (subs s));
  wf_uq : forall i, In i (unsubq s) -> i < length (clients s);
  wf_ret : forall i, In (TUnsubRet i) (trace s) -> i < length (clients s) /\ ~ In i (subs s);
  wf_latest : latest s = last_consumed (trace s);
  wf_deliv : deliveries_ok (trace s);
  wf_recv : forall i, recv_of s i = deliveries_of i (trace s)
}.

Lemma nth_error_nil_some : forall A i (c : A), nth_error [] i = Some c -> False.
Proof. intros A [|i] c H; discriminate. Qed.

Lemma wf_init : wf init.
Proof.
  constructor; simpl; intros; try tauto; try discriminate; try constructor;
    try (exfalso; eapply nth_error_nil_some; eassumption).
  unfold recv_of. simpl. destruct i; reflexivity.
Qed.
Lemma wf_init_failed : wf init_failed.
Proof.
  constructor; simpl; intros; try tauto; try discriminate; try constructor;
    try (exfalso; eapply nth_error_nil_some; eassumption).
  unfold recv_of. simpl. destruct i; reflexivity.
Qed.

Lemma enter_disp : forall l m cur msg, enter l m = LDispatch cur msg -> In cur l /\ msg = m.
Proof. intros [|x t] m cur msg H; simpl in H; [discriminate|]. inversion H. subst. simpl. auto. Qed.

(* ---- preservation, one lemma per field ---- *)

Lemma step_lt : forall s e, wf s -> forall i, In i (subs (step s e)) -> i < length (clients (step s e)).
Proof.
  intros s e W.
  break_step s e; pose proof (wf_lt s W) as L; intros j Hj; rewrite ?upd_length; auto.
  - rewrite app_length. simpl. apply insert_sub_In in Hj. destruct Hj as [Hj|Hj]; [lia|].
    apply L in Hj. lia.
  - apply remn_In in Hj. apply L. tauto.
Qed.

Lemma step_nodup : forall s e, wf s -> NoDup (subs (step s e)).
Proof.
  intros s e W.
  break_step s e; pose proof (wf_nodup s W) as N; pose proof (wf_lt s W) as L; auto.
  - apply insert_sub_NoDup; [|exact N]. intro C. apply L in C. lia.
  - apply remn_NoDup. exact N.
Qed.

Lemma step_uq : forall s e, wf s -> forall i, In i (unsubq (step s e)) -> i < length (clients (step s e)).
Proof.
  intros s e W.
  break_step s e; pose proof (wf_uq s W) as U; intros j Hj; rewrite ?upd_length; auto;
    try (apply U; rewrite Uq; right; exact Hj).
  - rewrite app_length. simpl. apply U in Hj. lia.
  - apply in_app_or in Hj. destruct Hj as [Hj|[Hj|[]]]; [apply U; exact Hj|].
    subst. apply Nat.ltb_lt. exact Lt.
Qed.

Lemma step_disp : forall s e, wf s -> forall cur msg, loop (step s e) = LDispatch cur msg ->
  In cur (subs (step s e)) /\ msg = latest (step s e).
Proof.
  intros s e W.
  break_step s e; pose proof (wf_disp s W) as D; intros cur' msg' H; auto; try discriminate;
    try (apply enter_disp in H; exact H).
  - apply D in H. rewrite insert_sub_In. tauto.
  - apply enter_disp in H. destruct H as [H1 H2]. apply after_incl in H1.
    destruct (D _ _ Lp) as [_ D2]. split; congruence.
  - apply enter_disp in H. destruct H as [H1 H2]. apply after_incl in H1.
    destruct (D _ _ Lp) as [_ D2]. split; congruence.
  - apply enter_disp in H. destruct H as [H1 H2]. apply after_incl in H1.
    destruct (D _ _ Lp) as [_ D2]. split; congruence.
Qed.

Lemma step_closed : forall s e, wf s -> forall i c, nth_error (clients (step s e)) i = Some c ->
  (cclosed c = true <-> ~ In i (subs (step s e))).
Proof.
  intros s e W.
  break_step s e; pose proof (wf_closed s W) as C; pose proof (wf_lt s W) as L; intros j c' H; auto.
  - apply nth_error_snoc in H. rewrite insert_sub_In. destruct H as [[H1 H2]|[H1 H2]].
    + rewrite (C _ _ H2). split; [intros A [B|B]; [lia|tauto]|tauto].
    + subst. simpl. split; [discriminate|]. intro A. exfalso. apply A. left. reflexivity.
  - apply nth_error_upd in H. destruct H as [c0 [H1 [H2|[_ H2]]]]; subst; [|simpl]; apply (C _ _ H1).
  - apply nth_error_upd in H. destruct H as [c0 [H1 [H2|[_ H2]]]]; subst; [|simpl]; apply (C _ _ H1).
  - rewrite remn_In. destruct (Nat.eq_dec i j) as [E|E].
    + subst. rewrite nth_error_upd_same in H. destruct (nth_error (clients s) j); [|discriminate].
      simpl in H. inversion H. simpl. tauto.
    + rewrite nth_error_upd_other in H by exact E. rewrite (C _ _ H). split; [tauto|].
      intros A B. apply A. split; [exact B|congruence].
  - apply nth_error_upd in H. destruct H as [c0 [H1 [H2|[_ H2]]]]; subst; [|simpl]; apply (C _ _ H1).
Qed.

Lemma step_ret : forall s e, wf s -> forall i, In (TUnsubRet i) (trace (step s e)) ->
  i < length (clients (step s e)) /\ ~ In i (subs (step s e)).
Proof.
  intros s e W.
  break_step s e; pose proof (wf_ret s W) as R; pose proof (wf_uq s W) as U; intros j H;
    rewrite ?upd_length; auto.
  - apply R in H. destruct H as [H1 H2]. rewrite app_length, insert_sub_In. simpl. split; [lia|].
    intros [A|A]; [lia|tauto].
  - destruct H as [H|H]; [discriminate|]. auto.
  - destruct H as [H|H]; [discriminate|]. auto.
  - rewrite remn_In. destruct H as [H|[H|H]]; [discriminate| |].
    + inversion H. subst. split; [apply U; rewrite Uq; left; reflexivity|tauto].
    + apply R in H. tauto.
  - destruct H as [H|H].
    + inversion H. subst. split; [apply U; rewrite Uq; left; reflexivity|]. apply memn_false. exact Mi.
    + auto.
  - destruct H as [H|H]; [discriminate|]. auto.
Qed.

Lemma step_latest : forall s e, wf s -> latest (step s e) = last_consumed (trace (step s e)).
Proof.
  intros s e W.
  break_step s e; pose proof (wf_latest s W) as R; auto.
Qed.

Lemma step_deliv : forall s e, wf s -> deliveries_ok (trace (step s e)).
Proof.
  intros s e W.
  break_step s e; pose proof (wf_deliv s W) as R; pose proof (wf_latest s W) as La;
    pose proof (wf_disp s W) as D; simpl; auto.
  split; [|exact R]. destruct (D _ _ Lp) as [_ D2]. congruence.
Qed.

Lemma recv_upd_frame : forall (f : client -> client) i j l,
  (forall c, crecv (f c) = crecv c) ->
  match nth_error (upd i f l) j with Some c => crecv c | None => [] end =
  match nth_error l j with Some c => crecv c | None => [] end.
Proof.
  intros f i j l Hf. destruct (Nat.eq_dec i j) as [E|E].
  - subst. rewrite nth_error_upd_same. destruct (nth_error l j); simpl; auto.
  - rewrite nth_error_upd_other by exact E. reflexivity.
Qed.

Lemma step_recv : forall s e, wf s -> forall i, recv_of (step s e) i = deliveries_of i (trace (step s e)).
Proof.
  intros s e W.
  break_step s e; pose proof (wf_recv s W) as R; intro j; unfold recv_of in *; simpl; auto;
    try (rewrite recv_upd_frame by reflexivity; apply R).
  - rewrite <- R. destruct (Nat.lt_ge_cases j (length (clients s))) as [L|L].
    + rewrite nth_error_app1 by exact L. reflexivity.
    + rewrite nth_error_app2 by exact L. replace (nth_error (clients s) j) with (@None client)
        by (symmetry; apply nth_error_None; exact L).
      destruct (j - length (clients s)) as [|[|d]]; reflexivity.
  - destruct (cur =? j) eqn:E.
    + apply Nat.eqb_eq in E. subst. rewrite nth_error_upd_same, Nc. simpl. rewrite <- R, Nc. reflexivity.
    + apply Nat.eqb_neq in E. rewrite nth_error_upd_other by exact E. apply R.
Qed.

Lemma wf_step : forall s e, wf s -> wf (step s e).
Proof.
  intros s e W. constructor.
  - apply step_lt; exact W.
  - apply step_nodup; exact W.
  - apply step_disp; exact W.
  - apply step_closed; exact W.
  - apply step_uq; exact W.
  - apply step_ret; exact W.
  - apply step_latest; exact W.
  - apply step_deliv; exact W.
  - apply step_recv; exact W.
Qed.

Lemma wf_run : forall evs s, wf s -> wf (run s evs).
Proof. induction evs as [|e t IH]; intros s W; simpl; [exact W|]. apply IH. apply wf_step. exact W. Qed.

(* ------------------------------------------------------------------ *)
(* convergence: safety                                                 *)
(* ------------------------------------------------------------------ *)

Definition sys_event (e : event) : Prop := match e with ELoop _ | EDispatch _ => True | _ => False end.
Definition served (s : st) (i : nat) : Prop := last_recv s i = Some (latest s).
Definition todo (s : st) (i : nat) : Prop :=
  exists cur msg, loop s = LDispatch cur msg /\ In i (from cur (subs s)).
Definition pending (s : st) : Prop := tickp s = true \/ src s <> [] \/ unsubq s <> [].
Definition J (s : st) : Prop :=
  loop s = LExit \/ forall i, liveb s i = true -> served s i \/ todo s i \/ pending s.

Lemma enter_todo : forall l m i, In i l -> exists cur msg, enter l m = LDispatch cur msg /\ In i (from cur l).
Proof.
  intros [|x t] m i H; [destruct H|]. exists x, m. split; [reflexivity|]. rewrite from_hd. exact H.
Qed.

Lemma liveb_In : forall s i, liveb s i = true -> In i (subs s).
Proof. intros s i H. unfold liveb in H. apply andb_true_iff in H. apply memn_In. tauto. Qed.

Lemma todo_advance : forall l cur j msg, NoDup l -> In cur l -> In j (from cur l) ->
  j = cur \/ exists c', enter (after cur l) msg = LDispatch c' msg /\ In j (from c' l).
Proof.
  intros l cur j msg N Hc Hj. rewrite from_after in Hj by exact Hc.
  destruct Hj as [Hj|Hj]; [left; congruence|right].
  destruct (after cur l) as [|c' r'] eqn:A; [destruct Hj|].
  exists c'. split; [reflexivity|]. rewrite (from_hd_after cur l c' r' N A). exact Hj.
Qed.

Lemma liveb_recv : forall s cur msg j cl',
  cl' = upd cur (c_recv msg) (clients s) ->
  (memn j (subs s) && match nth_error cl' j with Some c => creading c && negb (ccancel c) | None => false end) = liveb s j.
Proof.
  intros s cur msg j cl' E. subst. unfold liveb. f_equal.
  destruct (Nat.eq_dec cur j) as [D|D].
  - subst. rewrite nth_error_upd_same. destruct (nth_error (clients s) j); reflexivity.
  - rewrite nth_error_upd_other by exact D. reflexivity.
Qed.

Lemma J_step : forall s e, wf s -> sys_event e -> J s -> J (step s e).
Proof.
  intros s e W Se Js.
  break_step s e; try (destruct Se; fail); auto;
    try (right; intros j Hl; right; left; apply liveb_In in Hl; simpl in Hl;
         unfold todo; simpl; apply enter_todo; exact Hl).
  - left. reflexivity.
  - (* deliver to cur *)
    destruct (wf_disp s W _ _ Lp) as [Hc Hm]. pose proof (wf_nodup s W) as N.
    destruct Js as [Jx|Js]; [congruence|].
    right. intros j Hl. unfold liveb in Hl. simpl in Hl.
    rewrite (liveb_recv s cur msg j _ eq_refl) in Hl.
    assert (Scur : served {| clients := upd cur (c_recv msg) (clients s); subs := subs s; src := src s;
                     unsubq := unsubq s; tickp := tickp s; latest := latest s;
                     loop := enter (after cur (subs s)) msg; trace := TDeliver cur msg :: trace s |} cur).
    { unfold served, last_recv. simpl. rewrite nth_error_upd_same, Nc. simpl. congruence. }
    destruct (Nat.eq_dec j cur) as [E|E]; [subst; left; exact Scur|].
    destruct (Js j Hl) as [S|[T|P]].
    + left. unfold served, last_recv in *. simpl. rewrite nth_error_upd_other by congruence. exact S.
    + destruct T as [cur0 [msg0 [L0 T]]]. rewrite Lp in L0. inversion L0. subst cur0 msg0.
      destruct (todo_advance _ _ _ msg N Hc T) as [X|[c' [X1 X2]]]; [congruence|].
      right. left. exists c', msg. simpl. split; assumption.
    + right. right. exact P.
  - (* cur is cancelled: skipped *)
    destruct (wf_disp s W _ _ Lp) as [Hc Hm]. pose proof (wf_nodup s W) as N.
    destruct Js as [Jx|Js]; [congruence|].
    right. intros j Hl. change (liveb s j = true) in Hl.
    destruct (Nat.eq_dec j cur) as [E|E].
    { subst. unfold liveb in Hl. rewrite Nc, Cc in Hl. simpl in Hl. rewrite !andb_false_r in Hl. discriminate. }
    destruct (Js j Hl) as [S|[T|P]].
    + left. exact S.
    + destruct T as [cur0 [msg0 [L0 T]]]. rewrite Lp in L0. inversion L0. subst cur0 msg0.
      destruct (todo_advance _ _ _ msg N Hc T) as [X|[c' [X1 X2]]]; [congruence|].
      right. left. exists c', msg. simpl. split; assumption.
    + right. right. exact P.
  - destruct (wf_disp s W _ _ Lp) as [Hc Hm]. pose proof (wf_nodup s W) as N.
    destruct Js as [Jx|Js]; [congruence|].
    right. intros j Hl. change (liveb s j = true) in Hl.
    destruct (Nat.eq_dec j cur) as [E|E].
    { subst. unfold liveb in Hl. rewrite Nc in Hl. rewrite andb_false_r in Hl. discriminate. }
    destruct (Js j Hl) as [S|[T|P]].
    + left. exact S.
    + destruct T as [cur0 [msg0 [L0 T]]]. rewrite Lp in L0. inversion L0. subst cur0 msg0.
      destruct (todo_advance _ _ _ msg N Hc T) as [X|[c' [X1 X2]]]; [congruence|].
      right. left. exists c', msg. simpl. split; assumption.
    + right. right. exact P.
Qed.

Lemma registered_step : forall s e, sys_event e -> registered (step s e) = registered s.
Proof.
  intros s e Se. unfold registered.
  break_step s e; try (destruct Se; fail); auto; rewrite Sr; reflexivity.
Qed.

Lemma run_app : forall s a b, run s (a ++ b) = run (run s a) b.
Proof. intros. unfold run. apply fold_left_app. Qed.

Lemma sys_run_inv : forall ks s, Forall sys_event ks -> wf s -> J s ->
  J (run s ks) /\ registered (run s ks) = registered s.
Proof.
  induction ks as [|e t IH]; intros s F W Js; simpl; [auto|].
  inversion F; subst.
  destruct (IH (step s e)) as [A B]; [assumption|apply wf_step; exact W|apply J_step; assumption|].
  split; [exact A|]. rewrite B. apply registered_step. assumption.
Qed.

Lemma quiescentb_spec : forall s, quiescentb s = true ->
  loop s = LSelect /\ src s = [] /\ unsubq s = [] /\ tickp s = false.
Proof.
  intros s H. unfold quiescentb in H. destruct (loop s); try discriminate.
  destruct (src s); [|discriminate]. destruct (unsubq s); [|discriminate].
  destruct (tickp s); [discriminate|]. auto.
Qed.

(* C27_converge, safety half: for every history and every way the system
   goroutines continue after the next tick, once they are at rest every live
   subscriber's last message is the list the stream last produced. *)
Theorem converge_safe : forall evs ks, Forall sys_event ks ->
  let s0 := run init evs in
  let s1 := run s0 (ETick :: ks) in
  quiescentb s1 = true ->
  forall i, liveb s1 i = true -> last_recv s1 i = Some (registered s0).
Proof.
  intros evs ks F s0 s1 Q i L.
  assert (W0 : wf s0) by (apply wf_run; exact wf_init).
  assert (Jt : J (step s0 ETick)).
  { right. intros j _. right. right. left. reflexivity. }
  destruct (sys_run_inv ks (step s0 ETick) F (wf_step _ _ W0) Jt) as [J1 R1].
  change (run (step s0 ETick) ks) with s1 in *.
  apply quiescentb_spec in Q. destruct Q as [Q1 [Q2 [Q3 Q4]]].
  destruct J1 as [X|J1]; [congruence|].
  destruct (J1 i L) as [S|[[c [m [T _]]]|[P|[P|P]]]]; try congruence.
  unfold served in S. rewrite S. f_equal.
  transitivity (registered s1); [unfold registered; rewrite Q2; reflexivity|].
  rewrite R1. reflexivity.
Qed.

(* ------------------------------------------------------------------ *)
(* convergence: the system goroutines come to rest (no stalled subscriber) *)
(* ------------------------------------------------------------------ *)

Definition pend (s : st) : nat := length (src s) + length (unsubq s) + (if tickp s then 1 else 0).
Definition rem_of (lp : lstate) (l : list nat) : nat :=
  match lp with LDispatch cur _ => length (from cur l) | _ => 0 end.
Definition mu (s : st) : nat := pend s * (length (subs s) + 1) + rem_of (loop s) (subs s).
Definition good (s : st) : Prop := wf s /\ no_stallb s = true /\ aliveb s = true.

Lemma rem_enter : forall l m, rem_of (enter l m) l = length l.
Proof. intros [|x t] m; simpl; [reflexivity|]. rewrite Nat.eqb_refl. reflexivity. Qed.

Lemma rem_advance : forall l cur m, NoDup l -> In cur l ->
  S (rem_of (enter (after cur l) m) l) = length (from cur l).
Proof.
  intros l cur m N H. rewrite (from_after _ _ H). simpl. f_equal.
  destruct (after cur l) as [|c' r'] eqn:A; simpl; [reflexivity|].
  rewrite (from_hd_after cur l c' r' N A). reflexivity.
Qed.

Lemma no_stall_spec : forall s, no_stallb s = true <-> forall i, In i (subs s) -> stalledb (clients s) i = false.
Proof.
  intro s. unfold no_stallb. rewrite forallb_forall. split; intros H i Hi; specialize (H i Hi).
  - apply negb_true_iff in H. exact H.
  - rewrite H. reflexivity.
Qed.

Lemma stalledb_upd_frame : forall (f : client -> client) i j l,
  (forall c, creading (f c) = creading c /\ ccancel (f c) = ccancel c) ->
  stalledb (upd i f l) j = stalledb l j.
Proof.
  intros f i j l Hf. unfold stalledb. destruct (Nat.eq_dec i j) as [E|E].
  - subst. rewrite nth_error_upd_same. destruct (nth_error l j) as [c|]; simpl; [|reflexivity].
    destruct (Hf c) as [A B]. rewrite A, B. reflexivity.
  - rewrite nth_error_upd_other by exact E. reflexivity.
Qed.

Lemma enter_not_exit : forall l m, enter l m <> LExit.
Proof. intros [|x t] m; simpl; discriminate. Qed.

Lemma aliveb_spec : forall s, aliveb s = true <-> has_close (src s) = false /\ loop s <> LExit.
Proof.
  intro s. unfold aliveb. rewrite andb_true_iff, negb_true_iff.
  destruct (loop s); split; intros [A B]; split; auto; try discriminate; congruence.
Qed.

Lemma step_tick_eq : forall s, loop s = LSelect -> tickp s = true ->
  step s (ELoop BTick) = begin_dispatch (set_tickp s false).
Proof. intros s L T. simpl. rewrite L. simpl. rewrite T. reflexivity. Qed.
Lemma step_src_eq : forall s a r, loop s = LSelect -> src s = Item a :: r ->
  step s (ELoop BSrc) = begin_dispatch (add_trace (TConsume a) (set_latest (set_src s r) a)).
Proof. intros s a r L T. simpl. rewrite L. simpl. rewrite T. reflexivity. Qed.
Lemma step_unsub_in : forall s i r, loop s = LSelect -> unsubq s = i :: r -> memn i (subs s) = true ->
  step s (ELoop BUnsub) =
  begin_dispatch (add_trace (TClosed i) (set_subs (set_clients (add_trace (TUnsubRet i) (set_unsubq s r))
      (upd i c_close (clients s))) (remn i (subs s)))).
Proof. intros s i r L T M. simpl. rewrite L. simpl. rewrite T. unf. rewrite M. reflexivity. Qed.
Lemma step_unsub_out : forall s i r, loop s = LSelect -> unsubq s = i :: r -> memn i (subs s) = false ->
  step s (ELoop BUnsub) = begin_dispatch (add_trace (TUnsubRet i) (set_unsubq s r)).
Proof. intros s i r L T M. simpl. rewrite L. simpl. rewrite T. unf. rewrite M. reflexivity. Qed.

Lemma drain_step_good : forall s e, good s -> drain_event s = Some e ->
  good (step s e) /\ mu (step s e) < mu s.
Proof.
  intros s e [W [Ns Al]] De.
  pose proof (wf_step s e W) as W'.
  apply aliveb_spec in Al. destruct Al as [Hc Hl].
  rewrite no_stall_spec in Ns.
  unfold drain_event in De. destruct (loop s) as [|cur msg|] eqn:Lp; [| |congruence].
  - (* at the select *)
    destruct (src s) as [|[a|] r] eqn:Sr; simpl in De; [| |simpl in Hc; discriminate].
    + destruct (unsubq s) as [|i r] eqn:Uq; simpl in De.
      * destruct (tickp s) eqn:Tk; [|discriminate]. inversion De; subst e. clear De.
        rewrite (step_tick_eq s Lp Tk) in *. unf.
        split; [split; [exact W'|split]|].
        { apply no_stall_spec. simpl. exact Ns. }
        { apply aliveb_spec. simpl. rewrite Sr. split; [reflexivity|apply enter_not_exit]. }
        unfold mu, pend. simpl. rewrite Sr, Uq, Tk, Lp, rem_enter. simpl. lia.
      * inversion De; subst e. clear De. destruct (memn i (subs s)) eqn:Mi.
        { rewrite (step_unsub_in s i r Lp Uq Mi) in *. unf.
          split; [split; [exact W'|split]|].
          { apply no_stall_spec. simpl. intros j Hj. apply remn_In in Hj. destruct Hj as [Hj Hne].
            unfold stalledb. rewrite nth_error_upd_other by congruence. apply Ns. exact Hj. }
          { apply aliveb_spec. simpl. rewrite Sr. split; [reflexivity|apply enter_not_exit]. }
          unfold mu, pend. simpl. rewrite Sr, Uq, Lp, rem_enter. simpl.
          pose proof (remn_length i (subs s)). destruct (tickp s); nia. }
        { rewrite (step_unsub_out s i r Lp Uq Mi) in *. unf.
          split; [split; [exact W'|split]|].
          { apply no_stall_spec. simpl. exact Ns. }
          { apply aliveb_spec. simpl. rewrite Sr. split; [reflexivity|apply enter_not_exit]. }
          unfold mu, pend. simpl. rewrite Sr, Uq, Lp, rem_enter. simpl. destruct (tickp s); nia. }
    + inversion De; subst e. clear De.
      rewrite (step_src_eq s a r Lp Sr) in *. unf.
      split; [split; [exact W'|split]|].
      { apply no_stall_spec. simpl. exact Ns. }
      { apply aliveb_spec. simpl. simpl in Hc. split; [exact Hc|apply enter_not_exit]. }
      unfold mu, pend. simpl. rewrite Sr, Lp, rem_enter. simpl. nia.
  - (* inside dispatch *)
    inversion De; subst e. clear De.
    destruct (wf_disp s W _ _ Lp) as [Hin Hm]. pose proof (wf_nodup s W) as N.
    pose proof (wf_lt s W _ Hin) as Lt.
    destruct (nth_error (clients s) cur) as [c|] eqn:Nc; [|apply nth_error_None in Nc; lia].
    pose proof (Ns _ Hin) as St. unfold stalledb in St. rewrite Nc in St.
    assert (E : step s (EDispatch true) = dispatch_one s cur msg true) by (simpl; rewrite Lp; reflexivity).
    rewrite E in *. clear E. unfold dispatch_one in *. rewrite Nc in *.
    pose proof (rem_advance (subs s) cur msg N Hin) as RA.
    destruct (creading c) eqn:Rd; simpl in *.
    + rewrite orb_true_r in *. unf.
      split; [split; [exact W'|split]|].
      { apply no_stall_spec. simpl. intros j Hj. rewrite stalledb_upd_frame by (intro; split; reflexivity).
        apply Ns. exact Hj. }
      { apply aliveb_spec. simpl. split; [exact Hc|apply enter_not_exit]. }
      unfold mu, pend. simpl. rewrite Lp. simpl. lia.
    + destruct (ccancel c) eqn:Cc; [|discriminate]. unf.
      split; [split; [exact W'|split]|].
      { apply no_stall_spec. simpl. exact Ns. }
      { apply aliveb_spec. simpl. split; [exact Hc|apply enter_not_exit]. }
      unfold mu, pend. simpl. rewrite Lp. simpl. lia.
Qed.

Lemma drain_none_quiescent : forall s, good s -> drain_event s = None -> quiescentb s = true.
Proof.
  intros s [W [Ns Al]] De. apply aliveb_spec in Al. destruct Al as [Hc Hl].
  unfold drain_event, quiescentb in *. destruct (loop s); [|discriminate|congruence].
  destruct (src s); simpl in *; [|discriminate].
  destruct (unsubq s); simpl in *; [|discriminate].
  destruct (tickp s); [discriminate|reflexivity].
Qed.

Lemma quiescent_drain_event : forall s, quiescentb s = true -> drain_event s = None.
Proof.
  intros s Q. unfold quiescentb, drain_event in *. destruct (loop s); try discriminate.
  destruct (src s); [|discriminate]. destruct (unsubq s); [|discriminate].
  destruct (tickp s); [discriminate|reflexivity].
Qed.

Theorem drain_quiescent : forall fuel s, good s -> mu s <= fuel -> quiescentb (drain fuel s) = true.
Proof.
  induction fuel as [|f IH]; intros s G M; simpl.
  - destruct (drain_event s) as [e|] eqn:De; [|apply drain_none_quiescent; assumption].
    destruct (drain_step_good s e G De) as [_ L]. lia.
  - destruct (drain_event s) as [e|] eqn:De; [|apply drain_none_quiescent; assumption].
    destruct (drain_step_good s e G De) as [G' L]. apply IH; [exact G'|lia].
Qed.

Lemma mu_bound : forall s, wf s -> mu s <= drain_bound s.
Proof.
  intros s W. unfold mu, drain_bound, pend.
  assert (rem_of (loop s) (subs s) <= length (subs s)).
  { unfold rem_of. destruct (loop s); try lia. apply from_length. }
  destruct (tickp s); nia.
Qed.

Lemma drain_is_sys_run : forall fuel s, exists ks, Forall sys_event ks /\ drain fuel s = run s ks.
Proof.
  induction fuel as [|f IH]; intro s; simpl; [exists []; split; [constructor|reflexivity]|].
  destruct (drain_event s) as [e|] eqn:De; [|exists []; split; [constructor|reflexivity]].
  destruct (IH (step s e)) as [ks [F E]]. exists (e :: ks). split; [|exact E].
  constructor; [|exact F]. unfold drain_event in De.
  destruct (loop s); [|inversion De; exact I|discriminate].
  destruct (negb (is_nil (src s))); [inversion De; exact I|].
  destruct (negb (is_nil (unsubq s))); [inversion De; exact I|].
  destruct (tickp s); [inversion De; exact I|discriminate].
Qed.

(* ------------------------------------------------------------------ *)
(* main theorems                                                       *)
(* ------------------------------------------------------------------ *)

Lemma good_tick : forall s, good s -> good (step s ETick).
Proof.
  intros s [W [N A]]. split; [apply wf_step; exact W|]. split.
  - exact N.
  - exact A.
Qed.
Lemma drain_bound_tick : forall s, drain_bound (step s ETick) = drain_bound s.
Proof. reflexivity. Qed.

(* a live subscriber stays live while the system goroutines run, unless an
   Unsubscribe for it is waiting *)
Definition keeps (s : st) (i : nat) : Prop := liveb s i = true /\ ~ In i (unsubq s).

Lemma keeps_step : forall s e x, wf s -> sys_event e \/ e = ETick -> keeps s x -> keeps (step s e) x.
Proof.
  intros s e x W Se K.
  break_step s e; try (destruct Se as [Se|Se]; [destruct Se|discriminate]; fail); auto;
    destruct K as [L U]; unfold keeps, liveb in *; simpl.
  - (* Unsubscribe(i) processed, i in the map *)
    assert (x <> i) by (intro; subst; apply U; rewrite Uq; left; reflexivity).
    rewrite nth_error_upd_other by congruence. split.
    + apply andb_true_iff in L. destruct L as [L1 L2]. rewrite L2, andb_true_r.
      apply memn_In. apply remn_In. split; [apply memn_In; exact L1|exact H].
    + intro C. apply U. rewrite Uq. right. exact C.
  - split; [exact L|]. intro C. apply U. rewrite Uq. right. exact C.
  - split; [|exact U]. rewrite (liveb_recv s cur msg x _ eq_refl). exact L.
Qed.

Lemma keeps_run : forall ks s x, wf s -> Forall (fun e => sys_event e \/ e = ETick) ks ->
  keeps s x -> keeps (run s ks) x.
Proof.
  induction ks as [|e t IH]; intros s x W F K; simpl; [exact K|].
  inversion F; subst. apply IH; [apply wf_step; exact W|assumption|].
  apply keeps_step; assumption.
Qed.

(* an Unsubscribe call is either still waiting or has returned *)
Definition ret_or_queued (s : st) (i : nat) : Prop := In i (unsubq s) \/ In (TUnsubRet i) (trace s).
Lemma roq_step : forall s e x, ret_or_queued s x -> ret_or_queued (step s e) x.
Proof.
  intros s e x K.
  break_step s e; auto; destruct K as [K|K]; unfold ret_or_queued; simpl; auto;
    try (left; apply in_or_app; left; exact K; fail).
  - rewrite Uq in K. destruct K as [K|K]; [subst; right; right; left; reflexivity|left; exact K].
  - rewrite Uq in K. destruct K as [K|K]; [subst; right; left; reflexivity|left; exact K].
Qed.
Lemma roq_run : forall ks s x, ret_or_queued s x -> ret_or_queued (run s ks) x.
Proof. induction ks as [|e t IH]; intros s x K; simpl; [exact K|]. apply IH. apply roq_step. exact K. Qed.

Lemma sys_weaken : forall ks, Forall sys_event ks -> Forall (fun e => sys_event e \/ e = ETick) ks.
Proof. intros ks F. eapply Forall_impl; [|exact F]. intros a H. left. exact H. Qed.

(* C27_converge with its liveness half: when no subscriber in the map is
   stalled (each one is receiving or cancelled) and the stream is alive, the
   canonical continuation after the next tick comes to rest within
   drain_bound steps, every live subscriber has then received exactly the list
   the stream last produced, subscribers that were live stay live, and no
   Unsubscribe call is left waiting. *)
Theorem converge_live : forall evs,
  let s0 := run init evs in
  aliveb s0 = true -> no_stallb s0 = true ->
  let s1 := drain (drain_bound s0) (step s0 ETick) in
  quiescentb s1 = true /\
  (forall i, liveb s1 i = true -> last_recv s1 i = Some (registered s0)) /\
  (forall i, liveb s0 i = true -> ~ In i (unsubq s0) -> liveb s1 i = true) /\
  unsubq s1 = [].
Proof.
  intros evs s0 A N s1.
  assert (W0 : wf s0) by (apply wf_run; exact wf_init).
  assert (G : good (step s0 ETick)) by (apply good_tick; split; [exact W0|split; assumption]).
  assert (Q : quiescentb s1 = true).
  { apply drain_quiescent; [exact G|]. rewrite <- (drain_bound_tick s0). apply mu_bound. apply G. }
  destruct (drain_is_sys_run (drain_bound s0) (step s0 ETick)) as [ks [F E]].
  fold s1 in E.
  split; [exact Q|]. split; [|split].
  - intros i L. rewrite E in *. exact (converge_safe evs ks F Q i L).
  - intros i L U. assert (K : keeps s1 i).
    { rewrite E. apply keeps_run; [apply wf_step; exact W0|apply sys_weaken; exact F|].
      split; [exact L|exact U]. }
    apply K.
  - apply quiescentb_spec in Q. tauto.
Qed.

(* C27_unsub: a subscriber whose context is cancelled before Unsubscribe is
   called (calcium.WatchServiceStatus) -- if no OTHER subscriber is stalled, the
   call returns, the subscriber is removed from the map and its channel is closed. *)
Theorem unsub_completes : forall evs i,
  let s0 := run init evs in
  i < length (clients s0) ->
  let s := run s0 [ECancel i; EUnsubscribe i] in
  aliveb s = true -> no_stallb s = true ->
  let s1 := drain (drain_bound s) s in
  quiescentb s1 = true /\ In (TUnsubRet i) (trace s1) /\ ~ In i (subs s1) /\
  exists c, nth_error (clients s1) i = Some c /\ cclosed c = true.
Proof.
  intros evs i s0 Li s A N s1.
  assert (W : wf s) by (apply wf_run; apply wf_run; exact wf_init).
  assert (G : good s) by (split; [exact W|split; assumption]).
  assert (Q : quiescentb s1 = true) by (apply drain_quiescent; [exact G|apply mu_bound; exact W]).
  destruct (drain_is_sys_run (drain_bound s) s) as [ks [F E]]. fold s1 in E.
  assert (W1 : wf s1) by (rewrite E; apply wf_run; exact W).
  assert (K : ret_or_queued s1 i).
  { rewrite E. apply roq_run. left. unfold s. simpl. rewrite upd_length.
    apply Nat.ltb_lt in Li. rewrite Li. simpl. apply in_or_app. right. left. reflexivity. }
  destruct K as [K|K].
  { apply quiescentb_spec in Q. destruct Q as [_ [_ [Q _]]]. rewrite Q in K. destruct K. }
  destruct (wf_ret s1 W1 i K) as [L1 L2].
  split; [exact Q|]. split; [exact K|]. split; [exact L2|].
  destruct (nth_error (clients s1) i) as [c|] eqn:Nc; [|apply nth_error_None in Nc; lia].
  exists c. split; [reflexivity|]. apply (wf_closed s1 W1 i c Nc). exact L2.
Qed.

(* C27_latest *)
Theorem latest_holds : forall evs,
  let s := run init evs in
  deliveries_ok (trace s) /\ (forall i, recv_of s i = deliveries_of i (trace s)).
Proof.
  intros evs s. assert (W : wf s) by (apply wf_run; exact wf_init).
  split; [apply (wf_deliv s W)|apply (wf_recv s W)].
Qed.

(* same field values except the pending tick *)
Definition same_but_tick (s s' : st) : Prop :=
  clients s' = clients s /\ subs s' = subs s /\ src s' = src s /\ unsubq s' = unsubq s /\
  latest s' = latest s /\ loop s' = loop s /\ trace s' = trace s.

Lemma stall_blocks_step : forall s cur msg e,
  loop s = LDispatch cur msg -> stalledb (clients s) cur = true ->
  sys_event e \/ e = ETick -> same_but_tick s (step s e).
Proof.
  intros s cur msg e Lp St Se. unfold same_but_tick.
  destruct e as [it| |k r|i b|i|i|b|ch];
    try (destruct Se as [Se|Se]; [destruct Se|discriminate]).
  - simpl. repeat split; reflexivity.
  - simpl. rewrite Lp. repeat split; auto.
  - simpl. rewrite Lp. unfold dispatch_one. unfold stalledb in St.
    destruct (nth_error (clients s) cur) as [c|]; [|discriminate].
    apply andb_true_iff in St. destruct St as [S1 S2].
    apply negb_true_iff in S1. apply negb_true_iff in S2. rewrite S1, S2. simpl. repeat split; auto.
Qed.

(* the general form of the defect: while dispatch waits on a subscriber that
   neither receives nor is cancelled, no amount of ticks or system steps
   delivers anything to anybody, consumes a stream item, or completes an
   Unsubscribe *)
Theorem stall_blocks : forall ks s cur msg,
  loop s = LDispatch cur msg -> stalledb (clients s) cur = true ->
  Forall (fun e => sys_event e \/ e = ETick) ks -> same_but_tick s (run s ks).
Proof.
  induction ks as [|e t IH]; intros s cur msg Lp St F; simpl.
  - unfold same_but_tick. repeat split; reflexivity.
  - inversion F; subst.
    destruct (stall_blocks_step s cur msg e Lp St H1) as [A [B [C [D [E0 [G T]]]]]].
    destruct (IH (step s e) cur msg) as [A' [B' [C' [D' [E' [G' T']]]]]].
    + congruence.
    + rewrite A. exact St.
    + exact H2.
    + unfold same_but_tick. repeat split; congruence.
Qed.

(* the unrestricted statement of C27 *)
Definition C27_full : Prop := forall evs,
  let s0 := run init evs in
  aliveb s0 = true ->
  let s1 := drain (drain_bound s0) (step s0 ETick) in
  (forall i, liveb s1 i = true -> last_recv s1 i = Some (registered s0)) /\ unsubq s1 = [].

(* subscriber 0 (first in map order) stalls; subscriber 1 reads; subscriber 2's
   Unsubscribe is called; the registered set changes to [1;2] *)
Definition witness : list event :=
  [ESrc (Item [1]); ESubscribe 0 false; ESubscribe 1 true; ESubscribe 2 true;
   ELoop BSrc; EUnsubscribe 2; ESrc (Item [1;2])].

Theorem full_refuted : ~ C27_full.
Proof.
  intro H. specialize (H witness). cbv zeta in H.
  assert (A : aliveb (run init witness) = true) by (vm_compute; reflexivity).
  destruct (H A) as [_ H2]. vm_compute in H2. discriminate.
Qed.

(* ... and it stays that way for ever: subscriber 1 is live, never gets [1;2],
   and the Unsubscribe of 2 never returns *)
Theorem witness_starves : forall ks, Forall (fun e => sys_event e \/ e = ETick) ks ->
  let s := run (run init witness) ks in
  liveb s 1 = true /\ last_recv s 1 = None /\ registered s = [1;2] /\ unsubq s = [2].
Proof.
  intros ks F s.
  destruct (stall_blocks ks (run init witness) 0 [1]) as [A [B [C [D [E0 [G T]]]]]];
    [vm_compute; reflexivity|vm_compute; reflexivity|exact F|].
  fold s in A, B, C, D, E0, G, T.
  unfold liveb, last_recv, registered. rewrite A, B, C, D, E0. vm_compute. auto.
Qed.

(* the hypotheses of converge_live and unsub_completes are satisfiable *)
Example converge_live_nonvacuous :
  let evs := [ESrc (Item [1]); ESubscribe 0 true; ESubscribe 1 true; ELoop BSrc;
              EDispatch true; EDispatch true; ESrc (Item [1;2])] in
  let s0 := run init evs in
  aliveb s0 = true /\ no_stallb s0 = true /\ liveb s0 0 = true /\ liveb s0 1 = true /\
  last_recv (drain (drain_bound s0) (step s0 ETick)) 1 = Some [1;2].
Proof. vm_compute. auto. Qed.

(* ---- everybody leaves ---- *)

Definition bye (i : nat) : list event := [ECancel i; EUnsubscribe i].
Definition cancel_all (n : nat) : list event := flat_map bye (seq 0 n).

Definition cancelled_at (s : st) (i : nat) : Prop :=
  exists c, nth_error (clients s) i = Some c /\ ccancel c = true.

Lemma bye_step : forall s i, i < length (clients s) ->
  let s' := run s (bye i) in
  length (clients s') = length (clients s) /\ subs s' = subs s /\ src s' = src s /\ loop s' = loop s /\
  cancelled_at s' i /\ In i (unsubq s') /\
  (forall j, cancelled_at s j -> cancelled_at s' j) /\
  (forall j, In j (unsubq s) -> In j (unsubq s')).
Proof.
  intros s i L. unfold cancelled_at, run, bye. cbn [fold_left step]. unf.
  rewrite upd_length.
  assert (Lb : (i <? length (clients s)) = true) by (apply Nat.ltb_lt; exact L). rewrite Lb.
  unf. rewrite upd_length. repeat split; auto.
  - destruct (nth_error (clients s) i) as [c|] eqn:N; [|apply nth_error_None in N; lia].
    exists (c_cancel c). split; [rewrite nth_error_upd_same, N; reflexivity|reflexivity].
  - apply in_or_app. right. left. reflexivity.
  - intros j [c [N C]]. destruct (Nat.eq_dec i j) as [E|E].
    + subst. exists (c_cancel c). split; [rewrite nth_error_upd_same, N; reflexivity|reflexivity].
    + exists c. split; [rewrite nth_error_upd_other by exact E; exact N|exact C].
  - intros j H. apply in_or_app. left. exact H.
Qed.

Lemma byes_run : forall l s, (forall i, In i l -> i < length (clients s)) ->
  let s' := run s (flat_map bye l) in
  length (clients s') = length (clients s) /\ subs s' = subs s /\ src s' = src s /\ loop s' = loop s /\
  (forall i, In i l -> cancelled_at s' i /\ In i (unsubq s')) /\
  (forall j, cancelled_at s j -> cancelled_at s' j) /\
  (forall j, In j (unsubq s) -> In j (unsubq s')).
Proof.
  induction l as [|i t IH]; intros s H.
  - simpl. repeat split; auto; try (intros ? []); try contradiction.
  - cbn [flat_map]. rewrite run_app.
    destruct (bye_step s i (H i (or_introl eq_refl))) as [A [B [C [D [E [F [G K]]]]]]].
    set (sa := run s (bye i)) in *.
    destruct (IH sa) as [A' [B' [C' [D' [E' [G' K']]]]]].
    { intros j Hj. rewrite A. apply H. right. exact Hj. }
    repeat split; try congruence.
    + destruct H0 as [H0|H0]; [subst; apply G'; exact E|apply E'; exact H0].
    + destruct H0 as [H0|H0]; [subst; apply K'; exact F|apply E'; exact H0].
    + intros j Hj. apply G'. apply G. exact Hj.
    + intros j Hj. apply K'. apply K. exact Hj.
Qed.

Lemma sys_step_clients_len : forall s e, sys_event e -> length (clients (step s e)) = length (clients s).
Proof.
  intros s e H. break_step s e; try (destruct H; fail); simpl; rewrite ?upd_length; reflexivity.
Qed.
Lemma sys_run_clients_len : forall ks s, Forall sys_event ks -> length (clients (run s ks)) = length (clients s).
Proof.
  induction ks as [|e t IH]; intros s F; simpl; [reflexivity|]. inversion F; subst.
  rewrite (IH _ H2). apply sys_step_clients_len. exact H1.
Qed.

(* C27_unsub for everybody: when every subscriber's context is cancelled and
   Unsubscribe is called for it (what calcium.WatchServiceStatus does when the
   client goes away), then -- stalled readers or not -- every call returns, the
   map is empty and every channel is closed. *)
Theorem unsub_all : forall evs,
  let s0 := run init evs in
  aliveb s0 = true ->
  let s := run s0 (cancel_all (length (clients s0))) in
  let s1 := drain (drain_bound s) s in
  quiescentb s1 = true /\ subs s1 = [] /\ unsubq s1 = [] /\
  (forall i c, nth_error (clients s1) i = Some c -> cclosed c = true).
Proof.
  intros evs s0 A s s1.
  assert (W0 : wf s0) by (apply wf_run; exact wf_init).
  destruct (byes_run (seq 0 (length (clients s0))) s0) as [L [Sb [Sr [Lp [All _]]]]].
  { intros i Hi. apply in_seq in Hi. lia. }
  fold (cancel_all (length (clients s0))) in *. fold s in L, Sb, Sr, Lp, All.
  assert (W : wf s) by (apply wf_run; exact W0).
  assert (Al : aliveb s = true) by (unfold aliveb in *; rewrite Sr, Lp; exact A).
  assert (Ns : no_stallb s = true).
  { apply no_stall_spec. intros i Hi. pose proof (wf_lt s W i Hi) as Li. rewrite L in Li.
    destruct (All i) as [[c [N C]] _]; [apply in_seq; lia|].
    unfold stalledb. rewrite N, C. simpl. apply andb_false_r. }
  assert (G : good s) by (split; [exact W|split; assumption]).
  assert (Q : quiescentb s1 = true) by (apply drain_quiescent; [exact G|apply mu_bound; exact W]).
  destruct (drain_is_sys_run (drain_bound s) s) as [ks [F E]]. fold s1 in E.
  assert (W1 : wf s1) by (rewrite E; apply wf_run; exact W).
  pose proof (quiescentb_spec s1 Q) as [_ [_ [Uq _]]].
  assert (Out : forall i, i < length (clients s) -> ~ In i (subs s1)).
  { intros i Li. assert (K : ret_or_queued s1 i).
    { rewrite E. apply roq_run. left. apply All. apply in_seq. lia. }
    destruct K as [K|K]; [rewrite Uq in K; destruct K|]. apply (wf_ret s1 W1 i K). }
  assert (Lc : length (clients s1) = length (clients s)) by (rewrite E; apply sys_run_clients_len; exact F).
  assert (Len : forall i, In i (subs s1) -> i < length (clients s)).
  { intros i Hi. rewrite <- Lc. apply (wf_lt s1 W1). exact Hi. }
  split; [exact Q|]. split; [|split; [exact Uq|]].
  - destruct (subs s1) as [|i r] eqn:Sb1; [reflexivity|]. exfalso.
    apply (Out i); [apply Len; left; reflexivity|left; reflexivity].
  - intros i c N. apply (wf_closed s1 W1 i c N). apply Out.
    rewrite <- Lc. apply nth_error_Some. congruence.
Qed.
