(* The boolean check [Selfmon.ok] that the harness evaluates on the
   implementation's observations, against Prop-level statements. *)
From Coq Require Import List Bool Arith PeanoNat Lia.
From Verif Require Import Selfmon.Selfmon Selfmon.SelfmonProofs.
Import ListNotations.

(* every observed workload that sits on n is reported running=false, healthy=false *)
Definition down_seen (wnode : list node) (seen : obs) (n : node) : Prop :=
  forall i m x, nth_error wnode i = Some m -> nth_error seen i = Some x -> m = n -> x = Some (false, false).

Lemma seen_down_spec : forall wnode seen n, seen_down wnode seen n = true <-> down_seen wnode seen n.
Proof.
  intros wnode seen n. unfold seen_down, down_seen. revert seen.
  induction wnode as [|m t IH]; intros [|x seen']; simpl.
  - split; [intros _ [|i] ? ? H; discriminate|reflexivity].
  - split; [intros _ [|i] ? ? H; discriminate|reflexivity].
  - split; [intros _ [|i] ? ? _ H; discriminate|reflexivity].
  - rewrite andb_true_iff, IH. split.
    + intros [H1 H2] [|i] m0 x0 Hm Hx Hn; simpl in *.
      * inversion Hm; inversion Hx; subst. rewrite Nat.eqb_refl in H1. simpl in H1.
        destruct x0 as [[[] []]|]; try discriminate. reflexivity.
      * eapply H2; eauto.
    + intro H. split.
      * destruct (m =? n) eqn:E; [|reflexivity]. apply Nat.eqb_eq in E. simpl.
        rewrite (H 0 m x eq_refl eq_refl E). reflexivity.
      * intros i m0 x0 Hm Hx Hn. apply (H (S i) m0 x0 Hm Hx Hn).
Qed.

(* what the check demands of one slot, as a proposition *)
Definition slot_clause (o : okst) (sl : slot) : Prop :=
  let o' := ok_upd o sl in
  (* the status of n disappears while a free-running watcher holds the lock *)
  (forall n, lapse_of (act sl) = Some n -> lock_running (o_held o') (o_active o) = true -> memn n (o_alive o) = true ->
     down_seen (o_wnode o') (seen sl) n) /\
  (* a free-running watcher takes the lock while the status of n is absent *)
  (lapse_of (act sl) = None -> ok_takes o sl = true ->
     forall n, In n (o_nodes o') -> memn n (o_alive o') = false -> down_seen (o_wnode o') (seen sl) n).

Lemma ok_check_spec : forall o sl, ok_check o sl = true <-> slot_clause o sl.
Proof.
  intros o sl. unfold ok_check, slot_clause. cbv zeta.
  destruct (lapse_of (act sl)) as [n|] eqn:A.
  - split.
    + intro H. split.
      * intros n0 E L M. inversion E; subst n0. rewrite L, M in H. simpl in H. apply seen_down_spec. exact H.
      * intros N. discriminate.
    + intros [H _]. destruct (lock_running _ _ && memn n (o_alive o)) eqn:C; [|reflexivity].
      apply andb_true_iff in C. destruct C as [L M]. apply seen_down_spec. apply H; auto.
  - split.
    + intro H. split; [intros n0 E; discriminate|].
      intros _ T n0 Hn Ha. rewrite T in H. rewrite forallb_forall in H.
      apply seen_down_spec. apply H. unfold ok_absent. apply filter_In. split; [exact Hn|rewrite Ha; reflexivity].
    + intros [_ H]. destruct (ok_takes o sl) eqn:T; [|reflexivity].
      apply forallb_forall. intros n0 Hn. apply seen_down_spec. unfold ok_absent in Hn. apply filter_In in Hn.
      destruct Hn as [Hn Ha]. apply negb_true_iff in Ha. apply H; auto.
Qed.

Lemma ok_step_good : forall o sl, o_good (ok_step o sl) = o_good o && ok_check o sl.
Proof. reflexivity. Qed.

Lemma ok_fold_false : forall sls o, o_good o = false -> o_good (fold_left ok_step sls o) = false.
Proof.
  induction sls as [|sl t IH]; intros o H; simpl; [exact H|]. apply IH. rewrite ok_step_good, H. reflexivity.
Qed.

Lemma ok_fold : forall sls o, o_good (fold_left ok_step sls o) = true ->
  o_good o = true /\
  forall pre sl post, sls = pre ++ sl :: post -> ok_check (fold_left ok_step pre o) sl = true.
Proof.
  induction sls as [|sl t IH]; intros o H; simpl in H.
  - split; [exact H|]. intros [|? ?] ? ? E; discriminate.
  - destruct (IH _ H) as [G R]. rewrite ok_step_good in G. apply andb_true_iff in G. destruct G as [G1 G2].
    split; [exact G1|]. intros [|x pre] sl0 post E; simpl in E; inversion E; subst.
    + exact G2.
    + simpl. apply (R pre sl0 post). reflexivity.
Qed.

Definition ok_init : okst := mkOk [] [] [] [] [] 0 None true.

(* C28: [ok c = true] implies, for every slot of the observed run, the two
   clauses of the property as propositions over what was observed *)
Theorem ok_reflects : forall c, ok c = true ->
  forall pre sl post, slots c = pre ++ sl :: post -> slot_clause (fold_left ok_step pre ok_init) sl.
Proof.
  intros c H pre sl post E. apply ok_check_spec. unfold ok in H.
  apply (proj2 (ok_fold _ _ H) pre sl post E).
Qed.

(* ... and conversely the check accepts exactly the runs whose slots all satisfy the clauses *)
Theorem ok_complete : forall c,
  (forall pre sl post, slots c = pre ++ sl :: post -> slot_clause (fold_left ok_step pre ok_init) sl) ->
  ok c = true.
Proof.
  intros c H. unfold ok. fold ok_init.
  assert (G : forall sls o, o_good o = true ->
             (forall pre sl post, sls = pre ++ sl :: post -> ok_check (fold_left ok_step pre o) sl = true) ->
             o_good (fold_left ok_step sls o) = true).
  { induction sls as [|sl t IH]; intros o Go R; simpl; [exact Go|].
    apply IH.
    - rewrite ok_step_good, Go. simpl. apply (R [] sl t). reflexivity.
    - intros pre sl0 post E. apply (R (sl :: pre) sl0 post). simpl. rewrite E. reflexivity. }
  apply G; [reflexivity|]. intros pre sl post E. apply ok_check_spec. apply (H pre sl post E).
Qed.

(* ---- the model's own output ---- *)
Fixpoint gen_from (s : st) (held : list nat) (acts : list action) : list slot :=
  match acts with
  | [] => []
  | a :: t =>
      let held' := held_after s held a in
      let s1 := run s (act_events s a) in
      let armed := match a with ALapseFail _ => true | _ => false end in
      let s2 := quiesce held' armed s1 in
      mkSlot a (map w_st (wls s2)) :: gen_from s2 held' t
  end.
Definition gen_case (acts : list action) : case := mkCase (gen_from init [] acts).

Lemma obs_eqb_refl : forall o, obs_eqb o o = true.
Proof.
  induction o as [|x t IH]; simpl; [reflexivity|]. rewrite IH, andb_true_r.
  destruct x as [[[] []]|]; reflexivity.
Qed.

(* the model agrees with its own observations, for every history *)
Theorem agree_gen : forall acts, agree (gen_case acts) = true.
Proof.
  intro acts. unfold agree, gen_case. simpl. generalize init, (@nil nat).
  induction acts as [|a t IH]; intros s held; simpl; [reflexivity|].
  rewrite obs_eqb_refl. simpl. apply IH.
Qed.

(* ---- ok on the model's own output: a small exhaustive sweep kept as a sanity
   example (the statement for ALL histories is GenProofs.ok_gen) ---- *)
Definition alphabet : list action :=
  [AHeartbeat 0; ALapse 0; ALapse 1; ALapseFail 0; ALapseHb 0; ACreate 0; AReport 0 true true;
   AStart; AStartHeld; ARelease 0; ARelease 1; AStop 0; AStop 1; AExpire 0].
Definition setup : list action :=
  [AAddNode 0; AAddNode 1; ACreate 0; ACreate 1; AReport 0 true true; AReport 1 true false].
Fixpoint words (n : nat) : list (list action) :=
  match n with 0 => [[]] | S m => [] :: flat_map (fun w => map (fun a => a :: w) alphabet) (words m) end.
Definition all_ok (pre : list action) (n : nat) : bool :=
  forallb (fun w => ok (gen_case (pre ++ w))) (words n).

Example ok_gen_sweep : all_ok setup 2 = true /\ all_ok (setup ++ [AStartHeld; AStart]) 2 = true.
Proof. vm_compute. auto. Qed.
