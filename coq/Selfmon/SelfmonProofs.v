(* Proofs about Selfmon/Selfmon.v (C28). *)
From Coq Require Import List Bool Arith PeanoNat Lia.
From Verif Require Import Selfmon.Selfmon.
Import ListNotations.

Lemma memn_In : forall i l, memn i l = true <-> In i l.
Proof.
  intros i l. induction l as [|x t IH]; simpl; [split; [discriminate|tauto]|].
  rewrite orb_true_iff, Nat.eqb_eq, IH. tauto.
Qed.
Lemma memn_remn_same : forall n l, memn n (remn n l) = false.
Proof.
  intros n l. destruct (memn n (remn n l)) eqn:E; [|reflexivity].
  apply memn_In in E. unfold remn in E. apply filter_In in E. destruct E as [_ E].
  rewrite Nat.eqb_refl in E. discriminate.
Qed.

Lemma nth_upd_same : forall A (f : A -> A) k l d, k < length l -> nth k (upd k f l) d = f (nth k l d).
Proof. intros A f k l d. revert k. induction l; intros [|k] H; simpl in *; try lia; auto. apply IHl. lia. Qed.
Lemma nth_upd_other : forall A (f : A -> A) k j l d, k <> j -> nth j (upd k f l) d = nth j l d.
Proof. intros A f k j l d. revert k j. induction l; intros [|k] [|j] H; simpl; auto; try congruence. Qed.
Lemma upd_length : forall A (f : A -> A) i l, length (upd i f l) = length l.
Proof. intros A f i l. revert i. induction l; intros [|i]; simpl; auto. Qed.

Lemma phase_active_lt : forall s k se, phase s k = Active se -> k < length (ws s).
Proof.
  intros s k se H. unfold phase in H. destruct (Nat.lt_ge_cases k (length (ws s))); [assumption|].
  rewrite nth_overflow in H by assumption. discriminate.
Qed.
Lemma phase_set_same : forall s k p, k < length (ws s) -> phase (set_phase s k p) k = p.
Proof. intros. unfold phase, set_phase. simpl. rewrite nth_upd_same by assumption. reflexivity. Qed.
Lemma phase_set_other : forall s k j p, k <> j -> phase (set_phase s k p) j = phase s j.
Proof. intros. unfold phase, set_phase. simpl. apply nth_upd_other. assumption. Qed.

Definition absent (s : st) (n : node) : Prop := memn n (alive s) = false.
Definition owes (s : st) (se : session) (n : node) : Prop :=
  In n (se_tasks se) \/ In (n, false) (se_queue se) \/
  (se_listed se = true /\ In n (se_init se) /\ absent s n) \/
  (se_listed se = false /\ In n (nodes s) /\ absent s n).
Definition done (s : st) (n : node) : Prop := node_down s n = true.

Definition msr (s : st) (se : session) : nat :=
  (if se_watch se then 0 else 1) + (if se_listed se then 0 else 1 + 2 * length (nodes s)) +
  2 * length (se_init se) + 2 * length (se_queue se) + length (se_tasks se).

Lemma node_down_map : forall n m l,
  forallb (fun w => negb (w_node w =? n) || is_down w) l = true ->
  forallb (fun w => negb (w_node w =? n) || is_down w) (map (down_wl m) l) = true.
Proof.
  intros n m l. induction l as [|w t IH]; simpl; [auto|].
  intro H. apply andb_true_iff in H. destruct H as [H1 H2]. rewrite (IH H2), andb_true_r.
  unfold down_wl. destruct (w_node w =? m) eqn:E; simpl; [|exact H1].
  destruct (w_node w =? n); reflexivity.
Qed.
Lemma node_down_self : forall n l,
  forallb (fun w => negb (w_node w =? n) || is_down w) (map (down_wl n) l) = true.
Proof.
  intros n l. induction l as [|w t IH]; simpl; [reflexivity|]. rewrite IH, andb_true_r.
  unfold down_wl. destruct (w_node w =? n) eqn:E; simpl; [rewrite E; reflexivity|rewrite E; reflexivity].
Qed.
Lemma map_node_down : forall m l, map w_node (map (down_wl m) l) = map w_node l.
Proof.
  intros m l. induction l as [|w t IH]; simpl; [reflexivity|]. rewrite IH. f_equal.
  unfold down_wl. destruct (w_node w =? m); reflexivity.
Qed.

(* one step of the canonical continuation *)
Lemma settle_step : forall s k se e, phase s k = Active se -> next_event s k = Some e ->
  exists se', phase (step s e) k = Active se' /\ msr (step s e) se' < msr s se /\
    nodes (step s e) = nodes s /\ alive (step s e) = alive s /\
    map w_node (wls (step s e)) = map w_node (wls s) /\
    (forall n, owes s se n \/ done s n -> owes (step s e) se' n \/ done (step s e) n).
Proof.
  intros s k se e P N. pose proof (phase_active_lt s k se P) as L.
  unfold next_event in N. rewrite P in N.
  destruct (se_watch se) eqn:Wt; simpl in N.
  2:{ inversion N; subst e. simpl. rewrite P.
      eexists. split; [apply phase_set_same; exact L|]. repeat split.
      - unfold msr. simpl. rewrite Wt. lia.
      - intros n [O|D]; [left|right; exact D].
        unfold owes, absent in *. simpl. exact O. }
  destruct (se_listed se) eqn:Ls; simpl in N.
  2:{ inversion N; subst e. simpl. rewrite P, Ls, Wt. simpl.
      eexists. split; [apply phase_set_same; exact L|]. repeat split.
      - unfold msr. simpl. rewrite Wt, Ls. lia.
      - intros n [O|D]; [left|right; exact D].
        unfold owes, absent in *. simpl. rewrite Ls in O.
        destruct O as [O|[O|[[O _]|[_ O]]]]; auto; try discriminate.
        all: try (right; right; left; tauto). }
  destruct (se_init se) as [|n0 r0] eqn:Ini.
  2:{ inversion N; subst e. simpl. rewrite P, Ini.
      eexists. split; [apply phase_set_same; exact L|]. repeat split.
      - unfold msr. simpl. rewrite Wt, Ls, Ini. destruct (memn n0 (alive s)); simpl; rewrite ?app_length; simpl; lia.
      - intros n [O|D]; [left|right; exact D].
        unfold owes, absent in *. simpl. rewrite Ls, Ini in O.
        destruct O as [O|[O|[[_ [O A]]|[O _]]]]; try discriminate.
        + left. destruct (memn n0 (alive s)); [exact O|apply in_or_app; left; exact O].
        + right. left. exact O.
        + destruct O as [O|O].
          * subst n0. left. rewrite A. apply in_or_app. right. left. reflexivity.
          * right. right. left. rewrite Ls. auto. }
  destruct (se_queue se) as [|[n0 a0] r0] eqn:Qu.
  2:{ inversion N; subst e. simpl. rewrite P, Qu.
      eexists. split; [apply phase_set_same; exact L|]. repeat split.
      - unfold msr. simpl. rewrite Wt, Ls, Ini, Qu. destruct a0; simpl; rewrite ?app_length; simpl; lia.
      - intros n [O|D]; [left|right; exact D].
        unfold owes, absent in *. simpl. rewrite Ls, Ini, Qu in O.
        destruct O as [O|[O|[[_ [O _]]|[O _]]]]; try discriminate; try (destruct O; fail).
        + left. destruct a0; [exact O|apply in_or_app; left; exact O].
        + destruct O as [O|O].
          * inversion O; subst. left. apply in_or_app. right. left. reflexivity.
          * right. left. exact O. }
  destruct (se_tasks se) as [|n0 r0] eqn:Ta; [discriminate|].
  inversion N; subst e. simpl. rewrite P, Ta. simpl.
  eexists. split; [unfold phase; simpl; rewrite nth_upd_same by exact L; reflexivity|]. repeat split.
  - unfold msr. simpl. rewrite Wt, Ls, Ini, Qu, Ta. simpl. lia.
  - simpl. apply map_node_down.
  - intros n [O|D].
    + unfold owes, absent in O. rewrite Ls, Ini, Qu, Ta in O.
      destruct O as [O|[O|[[_ [O _]]|[O _]]]]; try discriminate; try (destruct O; fail).
      destruct O as [O|O].
      * subst n0. right. unfold done, node_down. simpl. apply node_down_self.
      * left. unfold owes. simpl. left. exact O.
    + right. unfold done, node_down in *. simpl. apply node_down_map. exact D.
Qed.
Lemma settle_none : forall s k se n, phase s k = Active se -> next_event s k = None -> ~ owes s se n.
Proof.
  intros s k se n P N O. unfold next_event in N. rewrite P in N.
  destruct (se_watch se); simpl in N; [|discriminate].
  destruct (se_listed se) eqn:Ls; simpl in N; [|discriminate].
  destruct (se_init se) eqn:Ini; [|discriminate].
  destruct (se_queue se) eqn:Qu; [|discriminate].
  destruct (se_tasks se) eqn:Ta; [|discriminate].
  unfold owes in O. rewrite Ls, Ini, Qu, Ta in O.
  destruct O as [O|[O|[[_ [O _]]|[O _]]]]; try discriminate; destruct O.
Qed.

(* the canonical continuation discharges every obligation of the session *)
Lemma settle_discharges : forall fuel s k se n,
  phase s k = Active se -> msr s se <= fuel -> owes s se n \/ done s n ->
  let s' := settle fuel k s in
  done s' n /\ map w_node (wls s') = map w_node (wls s) /\ next_event s' k = None.
Proof.
  induction fuel as [|f IH]; intros s k se n P M O; simpl.
  - destruct (next_event s k) as [e|] eqn:N.
    + destruct (settle_step s k se e P N) as [se' [_ [Lt _]]]. lia.
    + split; [|split; [reflexivity|first [exact N|reflexivity]]].
      destruct O as [O|D]; [|exact D]. exfalso. exact (settle_none s k se n P N O).
  - destruct (next_event s k) as [e|] eqn:N.
    + destruct (settle_step s k se e P N) as [se' [P' [Lt [_ [_ [Wn Pres]]]]]].
      destruct (IH (step s e) k se' n P') as [A [B C]]; [lia|apply Pres; exact O|].
      split; [exact A|split; [congruence|exact C]].
    + split; [|split; [reflexivity|first [exact N|reflexivity]]].
      destruct O as [O|D]; [|exact D]. exfalso. exact (settle_none s k se n P N O).
Qed.

Lemma msr_bound : forall s k se, phase s k = Active se -> msr s se <= settle_bound s k.
Proof.
  intros s k se P. unfold settle_bound, msr. rewrite P.
  destruct (se_watch se), (se_listed se); lia.
Qed.

(* "every workload recorded on n is reported neither running nor healthy" spelled out *)
Lemma node_down_spec : forall s n, node_down s n = true <->
  forall i w, nth_error (wls s) i = Some w -> w_node w = n -> w_st w = Some (false, false).
Proof.
  intros s n. unfold node_down. rewrite forallb_forall. split.
  - intros H i w Hi Hn. apply nth_error_In in Hi. specialize (H w Hi).
    rewrite Hn, Nat.eqb_refl in H. simpl in H. unfold is_down in H.
    destruct (w_st w) as [[[] []]|]; try discriminate. reflexivity.
  - intros H w Hw. apply In_nth_error in Hw. destruct Hw as [i Hi].
    destruct (w_node w =? n) eqn:E; [|reflexivity]. apply Nat.eqb_eq in E.
    unfold is_down. rewrite (H i w Hi E). reflexivity.
Qed.

Lemma same_nodes_nth : forall (l l' : list wl) i w, map w_node l' = map w_node l ->
  nth_error l i = Some w -> exists w', nth_error l' i = Some w' /\ w_node w' = w_node w.
Proof.
  intros l l' i w E H.
  assert (nth_error (map w_node l) i = Some (w_node w)) by (rewrite nth_error_map, H; reflexivity).
  rewrite <- E, nth_error_map in H0. destruct (nth_error l' i) as [w'|]; [|discriminate].
  simpl in H0. inversion H0. eauto.
Qed.

(* ---- invariants of reachable states ---- *)
Record inv (s : st) : Prop := mkInv {
  inv_alive : forall n, memn n (alive s) = true -> memn n (nodes s) = true;
  inv_listed : forall k se, phase s k = Active se -> se_listed se = true -> se_watch se = true
}.
Lemma phase_set_cases : forall s k p j se, phase (set_phase s k p) j = Active se ->
  (j = k /\ p = Active se) \/ (j <> k /\ phase s j = Active se).
Proof.
  intros s k p j se H. destruct (Nat.eq_dec k j) as [E|E].
  - subst. destruct (Nat.lt_ge_cases j (length (ws s))) as [L|L].
    + rewrite phase_set_same in H by exact L. left. auto.
    + unfold phase, set_phase in H. simpl in H. rewrite nth_overflow in H; [discriminate|].
      rewrite upd_length. exact L.
  - rewrite phase_set_other in H by exact E. right. split; [congruence|exact H].
Qed.

Lemma phase_map_enqueue : forall s n a j se al,
  phase (set_ws (set_alive s al) (map (enqueue n a) (ws s))) j = Active se ->
  exists se0, phase s j = Active se0 /\ se_watch se = se_watch se0 /\ se_listed se = se_listed se0.
Proof.
  intros s n a j se al H. unfold phase in *. simpl in H.
  change Stopped with (enqueue n a Stopped) in H. rewrite map_nth in H.
  destruct (nth j (ws s) Stopped) as [| |se0|]; simpl in H; try discriminate.
  exists se0. split; [reflexivity|]. destruct (se_watch se0) eqn:W; inversion H; subst; simpl; auto.
Qed.

Lemma phase_snoc : forall s j se, phase (set_ws s (ws s ++ [Idle])) j = Active se -> phase s j = Active se.
Proof.
  intros s j se H. unfold phase in *. simpl in H.
  destruct (Nat.lt_ge_cases j (length (ws s))) as [L|L].
  - rewrite app_nth1 in H by exact L. exact H.
  - rewrite app_nth2 in H by exact L. destruct (j - length (ws s)) as [|[|d]]; simpl in H; discriminate.
Qed.

Ltac phase_cases H :=
  apply phase_set_cases in H; destruct H as [[? H]|[? H]]; [subst; try discriminate; try (inversion H; subst; clear H)|].
Ltac same I := constructor; [apply (inv_alive _ I)|apply (inv_listed _ I)].

(* an update of the session of watcher k that keeps "listed -> watch" *)
Lemma inv_set_active : forall s k se', inv s ->
  (se_listed se' = true -> se_watch se' = true) ->
  inv (set_phase s k (Active se')).
Proof.
  intros s k se' I Hl. constructor; simpl.
  - apply (inv_alive _ I).
  - intros j x P L. phase_cases P; [auto|]. apply (inv_listed _ I j x P L).
Qed.
(* ... or that makes it something else than Active *)
Lemma inv_set_inactive : forall s k p, inv s -> (forall se, p <> Active se) -> inv (set_phase s k p).
Proof.
  intros s k p I Hp. constructor; simpl.
  - apply (inv_alive _ I).
  - intros j x P L. apply phase_set_cases in P. destruct P as [[_ P]|[_ P]]; [exfalso; eapply Hp; exact P|].
    apply (inv_listed _ I j x P L).
Qed.
Lemma inv_holder_frame : forall s h, inv s -> inv (set_holder s h).
Proof. intros s h I. constructor; [apply (inv_alive _ I)|apply (inv_listed _ I)]. Qed.

Lemma inv_step : forall s e, inv s -> inv (step s e).
Proof.
  intros s e I.
  destruct e; simpl.
  - (* EAddNode *) destruct (memn n (nodes s)) eqn:M; [same I|]. constructor; simpl; [|apply (inv_listed _ I)].
    intros m Hm. apply (inv_alive _ I) in Hm. apply memn_In. apply in_or_app. left. apply memn_In. exact Hm.
  - (* EHeartbeat *) destruct (memn n (nodes s)) eqn:M; simpl; [|same I].
    destruct (memn n (alive s)) eqn:A; [same I|]. constructor; simpl.
    + intros m Hm. apply orb_true_iff in Hm. destruct Hm as [Hm|Hm];
        [apply Nat.eqb_eq in Hm; subst; exact M|apply (inv_alive _ I); exact Hm].
    + intros k se P L. apply phase_map_enqueue in P. destruct P as [se0 [P [W Li]]].
      rewrite W. apply (inv_listed _ I k se0 P). congruence.
  - (* ELapse *) destruct (memn n (alive s)) eqn:A; [|same I]. constructor; simpl.
    + intros m Hm. apply (inv_alive _ I). apply memn_In in Hm. unfold remn in Hm. apply filter_In in Hm.
      apply memn_In. tauto.
    + intros k se P L. apply phase_map_enqueue in P. destruct P as [se0 [P [W Li]]].
      rewrite W. apply (inv_listed _ I k se0 P). congruence.
  - (* ECreate *) destruct (memn n (nodes s)); same I.
  - (* EReport *) same I.
  - (* ESpawn *) constructor; simpl; [apply (inv_alive _ I)|].
    intros k se P. apply phase_snoc in P. apply (inv_listed _ I k se P).
  - (* EStart *) destruct (phase s k) eqn:Pk; try (same I). apply inv_set_inactive; [exact I|discriminate].
  - (* ERegister *) destruct (phase s k) eqn:Pk; try (same I).
    destruct (holder s) eqn:Ho; [same I|]. apply inv_holder_frame. apply inv_set_active; [exact I|].
    simpl. discriminate.
  - (* ELeaseLost *) destruct (holder s) as [k'|]; [|same I]. destruct (k' =? k); [|same I].
    apply inv_holder_frame. exact I.
  - (* EExpire *) destruct (phase s k) eqn:Pk; try (same I).
    apply inv_holder_frame. apply inv_set_inactive; [exact I|discriminate].
  - (* EStop *) destruct (phase s k) eqn:Pk; try (same I).
    + apply inv_set_inactive; [exact I|discriminate].
    + apply inv_set_inactive; [exact I|discriminate].
    + apply inv_holder_frame. apply inv_set_inactive; [exact I|discriminate].
  - (* EWatch *) destruct (phase s k) eqn:Pk; try (same I). apply inv_set_active; auto.
  - (* EInitList *) destruct (phase s k) eqn:Pk; try (same I).
    destruct (se_listed se || negb (se_watch se)) eqn:G; [same I|].
    apply inv_set_active; auto. simpl. intros _.
    apply orb_false_iff in G. destruct G as [_ G]. apply negb_false_iff in G. exact G.
  - (* EInitRead *) destruct (phase s k) eqn:Pk; try (same I).
    destruct (se_init se) eqn:Ini; [same I|].
    apply inv_set_active; auto. simpl. apply (inv_listed _ I k se Pk).
  - (* EDeliver *) destruct (phase s k) eqn:Pk; try (same I).
    destruct (se_queue se) as [|[n0 a0] r0] eqn:Qu; [same I|].
    apply inv_set_active; auto. simpl. apply (inv_listed _ I k se Pk).
  - (* EHandle *) destruct (phase s k) eqn:Pk; try (same I).
    destruct (nth_error (se_tasks se) j) eqn:Nt; [|same I].
    pose proof (inv_set_active s k (mkSe (se_watch se) (se_listed se) (se_init se) (se_queue se) (remove_nth j (se_tasks se))) I (inv_listed _ I k se Pk)) as X.
    destruct X as [XA XL]. constructor; simpl; auto.
  - (* EHandleFail *) destruct (phase s k) eqn:Pk; try (same I).
    destruct (nth_error (se_tasks se) j) eqn:Nt; [|same I].
    apply inv_set_active; auto. simpl. apply (inv_listed _ I k se Pk).
Qed.

Lemma inv_init : inv init.
Proof.
  constructor; simpl; intros; try discriminate; unfold phase in *; simpl in *; destruct k; discriminate.
Qed.
Lemma inv_run : forall evs s, inv s -> inv (run s evs).
Proof. induction evs as [|e t IH]; intros s I; simpl; [exact I|]. apply IH. apply inv_step. exact I. Qed.

(* ---- the lock /selfmon/active ---- *)
Definition active (s : st) (k : nat) : Prop := exists se, phase s k = Active se.
(* k's session is still running although the key is no longer bound to its lease *)
Definition stale (s : st) (k : nat) : Prop := active s k /\ holder s <> Some k.
Definition lease_loss (e : event) : Prop := exists k, e = ELeaseLost k.

Lemma active_set_other : forall s k j p, k <> j -> active s j -> active (set_phase s k p) j.
Proof. intros s k j p E [se P]. exists se. rewrite phase_set_other by exact E. exact P. Qed.
Lemma active_lt : forall s k, active s k -> k < length (ws s).
Proof. intros s k [se P]. eapply phase_active_lt. exact P. Qed.
Lemma phase_enqueue_any : forall s n a k al,
  phase (set_ws (set_alive s al) (map (enqueue n a) (ws s))) k = enqueue n a (phase s k).
Proof.
  intros. unfold phase. simpl. change Stopped with (enqueue n a Stopped) at 1. rewrite map_nth. reflexivity.
Qed.
Lemma active_enqueue : forall s n a al j, active s j ->
  active (set_ws (set_alive s al) (map (enqueue n a) (ws s))) j.
Proof.
  intros s n a al j [se P]. unfold active. rewrite phase_enqueue_any, P. simpl.
  destruct (se_watch se); eexists; reflexivity.
Qed.

(* the key, when it exists, is bound to the lease of a running session *)
Definition hvalid (s : st) : Prop := forall k, holder s = Some k -> active s k.
(* without lease losses a running session always holds the key *)
Definition hexact (s : st) : Prop := forall k, active s k -> holder s = Some k.

Lemma active_frame : forall s s' k, phase s' k = phase s k -> active s k -> active s' k.
Proof. intros s s' k E [se P]. exists se. congruence. Qed.

Lemma hvalid_step : forall s e, hvalid s -> hvalid (step s e).
Proof.
  intros s e H k.
  destruct e; simpl.
  - destruct (memn n (nodes s)); intro Hk; apply H in Hk; exact Hk.
  - destruct (negb (memn n (nodes s))); [apply H|]. destruct (memn n (alive s)); [apply H|].
    simpl. intro Hk. apply active_enqueue. apply H. exact Hk.
  - destruct (memn n (alive s)); [|apply H]. simpl. intro Hk. apply active_enqueue. apply H. exact Hk.
  - destruct (memn n (nodes s)); intro Hk; apply H in Hk; exact Hk.
  - intro Hk. apply H in Hk. exact Hk.
  - simpl. intro Hk. apply H in Hk. destruct Hk as [se P]. exists se.
    unfold phase in *. simpl. rewrite app_nth1; [exact P|]. eapply phase_active_lt. exact P.
  - destruct (phase s k0) eqn:Pk; try apply H. simpl. intro Hk. apply H in Hk.
    destruct (Nat.eq_dec k0 k); [subst; destruct Hk as [se P]; congruence|]. apply active_set_other; assumption.
  - destruct (phase s k0) eqn:Pk; try apply H. destruct (holder s) eqn:Ho; [intro Hk; apply H; congruence|].
    simpl. intro Hk. inversion Hk; subst. exists fresh. apply phase_set_same.
    unfold phase in Pk. destruct (Nat.lt_ge_cases k (length (ws s))); [assumption|].
    rewrite nth_overflow in Pk by assumption. discriminate.
  - destruct (holder s) as [k'|] eqn:Ho; [|intro Hk; apply H; congruence].
    destruct (k' =? k0); [simpl; discriminate|intro Hk; apply H; congruence].
  - destruct (phase s k0) eqn:Pk; try apply H. simpl. unfold release_by.
    destruct (holder s) as [k'|] eqn:Ho; [|discriminate].
    destruct (k' =? k0) eqn:E; [discriminate|]. intro Hk. inversion Hk; subst.
    apply active_set_other; [apply Nat.eqb_neq in E; congruence|]. apply H. exact Ho.
  - destruct (phase s k0) eqn:Pk; try apply H; simpl.
    + intro Hk. apply H in Hk. destruct (Nat.eq_dec k0 k); [subst; destruct Hk as [se P]; congruence|].
      apply active_set_other; assumption.
    + intro Hk. apply H in Hk. destruct (Nat.eq_dec k0 k); [subst; destruct Hk as [se P]; congruence|].
      apply active_set_other; assumption.
    + unfold release_by. destruct (holder s) as [k'|] eqn:Ho; [|discriminate].
      destruct (k' =? k0) eqn:E; [discriminate|]. intro Hk. inversion Hk; subst.
      apply active_set_other; [apply Nat.eqb_neq in E; congruence|]. apply H. exact Ho.
  - destruct (phase s k0) eqn:Pk; try apply H. simpl. intro Hk. apply H in Hk.
    destruct (Nat.eq_dec k0 k); [subst; eexists; apply phase_set_same; eapply phase_active_lt; exact Pk|].
    apply active_set_other; assumption.
  - destruct (phase s k0) eqn:Pk; try apply H. destruct (se_listed se || negb (se_watch se)); [apply H|].
    simpl. intro Hk. apply H in Hk.
    destruct (Nat.eq_dec k0 k); [subst; eexists; apply phase_set_same; eapply phase_active_lt; exact Pk|].
    apply active_set_other; assumption.
  - destruct (phase s k0) eqn:Pk; try apply H. destruct (se_init se); [apply H|].
    simpl. intro Hk. apply H in Hk.
    destruct (Nat.eq_dec k0 k); [subst; eexists; apply phase_set_same; eapply phase_active_lt; exact Pk|].
    apply active_set_other; assumption.
  - destruct (phase s k0) eqn:Pk; try apply H. destruct (se_queue se) as [|[? ?] ?]; [apply H|].
    simpl. intro Hk. apply H in Hk.
    destruct (Nat.eq_dec k0 k); [subst; eexists; apply phase_set_same; eapply phase_active_lt; exact Pk|].
    apply active_set_other; assumption.
  - destruct (phase s k0) eqn:Pk; try apply H. destruct (nth_error (se_tasks se) j); [|apply H].
    simpl. intro Hk. apply H in Hk.
    destruct (Nat.eq_dec k0 k).
    + subst. eexists. unfold phase. simpl. rewrite nth_upd_same by (eapply phase_active_lt; exact Pk). reflexivity.
    + destruct Hk as [se' P]. exists se'. unfold phase in *. simpl. rewrite nth_upd_other by assumption. exact P.
  - destruct (phase s k0) eqn:Pk; try apply H. destruct (nth_error (se_tasks se) j); [|apply H].
    simpl. intro Hk. apply H in Hk.
    destruct (Nat.eq_dec k0 k); [subst; eexists; apply phase_set_same; eapply phase_active_lt; exact Pk|].
    apply active_set_other; assumption.
Qed.

Lemma hvalid_run : forall evs s, hvalid s -> hvalid (run s evs).
Proof. induction evs as [|e t IH]; intros s H; simpl; [exact H|]. apply IH. apply hvalid_step. exact H. Qed.
Lemma hvalid_init : hvalid init.
Proof. intros k H. discriminate. Qed.

(* every workload recorded on n in s is, in s', still on n and reported down *)
Definition all_down (s s' : st) (n : node) : Prop :=
  forall i w, nth_error (wls s) i = Some w -> w_node w = n ->
    exists w', nth_error (wls s') i = Some w' /\ w_node w' = n /\ w_st w' = Some (false, false).

Lemma discharge_all_down : forall s k se n,
  phase s k = Active se -> owes s se n ->
  all_down s (settle (settle_bound s k) k s) n.
Proof.
  intros s k se n P O.
  destruct (settle_discharges (settle_bound s k) s k se n P (msr_bound s k se P) (or_introl O)) as [D [Wn _]].
  intros i w Hi Hn. destruct (same_nodes_nth _ _ i w Wn Hi) as [w' [Hi' Hn']].
  exists w'. split; [exact Hi'|]. split; [congruence|].
  apply (proj1 (node_down_spec _ n) D i w' Hi'). congruence.
Qed.

(* C28, obligations: whatever a session owes (a queued DELETE, a pending
   handler, a node its init pass will find without status) is discharged by
   the watcher's own steps *)
Theorem obligations_discharged : forall s k se n,
  phase s k = Active se -> owes s se n -> all_down s (settle (settle_bound s k) k s) n.
Proof. exact discharge_all_down. Qed.

Lemma phase_enqueue : forall s n a k se al,
  phase s k = Active se ->
  phase (set_ws (set_alive s al) (map (enqueue n a) (ws s))) k = enqueue n a (Active se).
Proof.
  intros s n a k se al P. unfold phase in *. simpl.
  change Stopped with (enqueue n a Stopped). rewrite map_nth, P. reflexivity.
Qed.

(* C28_down, first half: the status of n disappears while watcher k is active *)
Theorem down_on_lapse : forall evs k se n,
  let s := run init evs in
  phase s k = Active se -> memn n (alive s) = true ->
  let s1 := step s (ELapse n) in
  all_down s (settle (settle_bound s1 k) k s1) n.
Proof.
  intros evs k se n s P A s1.
  assert (I : inv s) by (apply inv_run; exact inv_init).
  assert (E : wls s1 = wls s) by (unfold s1; simpl; rewrite A; reflexivity).
  assert (P1 : phase s1 k = enqueue n false (Active se)).
  { unfold s1. simpl. rewrite A. apply phase_enqueue. exact P. }
  assert (Ab : absent s1 n).
  { unfold absent, s1. simpl. rewrite A. simpl. apply memn_remn_same. }
  assert (Nn : nodes s1 = nodes s) by (unfold s1; simpl; rewrite A; reflexivity).
  intros i w Hi Hn. rewrite <- E in Hi. revert i w Hi Hn.
  change (all_down s1 (settle (settle_bound s1 k) k s1) n).
  simpl in P1. destruct (se_watch se) eqn:W.
  - apply (discharge_all_down s1 k _ n P1). right. left. simpl. apply in_or_app. right. left. reflexivity.
  - apply (discharge_all_down s1 k _ n P1). right. right. right.
    split; [|split; [|exact Ab]].
    + destruct (se_listed se) eqn:L; [|reflexivity]. rewrite (inv_listed _ I k se P L) in W. discriminate.
    + rewrite Nn. apply memn_In. apply (inv_alive _ I). exact A.
Qed.

(* C28_down, second half: watcher k becomes active while the status of n is absent *)
Theorem down_on_activation : forall evs k n,
  let s := run init evs in
  phase s k = Waiting -> holder s = None ->
  memn n (nodes s) = true -> memn n (alive s) = false ->
  let s1 := step s (ERegister k) in
  all_down s (settle (settle_bound s1 k) k s1) n.
Proof.
  intros evs k n s P H Nn A s1.
  assert (L : k < length (ws s)).
  { unfold phase in P. destruct (Nat.lt_ge_cases k (length (ws s))); [assumption|].
    rewrite nth_overflow in P by assumption. discriminate. }
  assert (P1 : phase s1 k = Active fresh).
  { unfold s1. simpl. rewrite P, H. unfold phase. simpl. rewrite nth_upd_same by exact L. reflexivity. }
  assert (E : wls s1 = wls s) by (unfold s1; simpl; rewrite P, H; reflexivity).
  intros i w Hi Hn. rewrite <- E in Hi. revert i w Hi Hn.
  change (all_down s1 (settle (settle_bound s1 k) k s1) n).
  apply (discharge_all_down s1 k fresh n P1). right. right. right. simpl.
  split; [reflexivity|]. unfold absent, s1. simpl. rewrite P, H. simpl.
  split; [apply memn_In; exact Nn|exact A].
Qed.

(* the handler step itself: SetNode{WorkloadsDown} marks every workload recorded on n *)
Theorem handler_step : forall s k se j n,
  phase s k = Active se -> nth_error (se_tasks se) j = Some n ->
  let s' := step s (EHandle k j) in
  all_down s s' n /\ trace s' = THandled k n (on_node n (wls s)) :: trace s.
Proof.
  intros s k se j n P T s'. unfold s'. cbn [step]. rewrite P, T.
  unfold add_trace, set_wls, set_phase, set_ws. cbn [wls trace]. split; [|reflexivity].
  intros i w Hi Hn. cbn [wls nodes alive holder ws trace]. exists (down_wl n w). split; [rewrite nth_error_map, Hi; reflexivity|].
  unfold down_wl. rewrite Hn, Nat.eqb_refl. simpl. auto.
Qed.

Lemma active_set_cases : forall s k p j, active (set_phase s k p) j ->
  (j = k /\ exists se, p = Active se) \/ (j <> k /\ active s j).
Proof.
  intros s k p j [se P]. apply phase_set_cases in P. destruct P as [[E P]|[E P]]; [left|right]; split; eauto.
  exists se. exact P.
Qed.

Lemma hexact_step : forall s e, ~ lease_loss e -> hexact s -> hexact (step s e).
Proof.
  intros s e NL H j.
  destruct e; simpl.
  - destruct (memn n (nodes s)); intro A; apply H in A; exact A.
  - destruct (negb (memn n (nodes s))); [apply H|]. destruct (memn n (alive s)); [apply H|].
    simpl. intros [se P]. apply phase_map_enqueue in P. destruct P as [se0 [P _]]. apply H. exists se0. exact P.
  - destruct (memn n (alive s)); [|apply H]. simpl. intros [se P].
    apply phase_map_enqueue in P. destruct P as [se0 [P _]]. apply H. exists se0. exact P.
  - destruct (memn n (nodes s)); intro A; apply H in A; exact A.
  - intro A. apply H in A. exact A.
  - simpl. intros [se P]. apply phase_snoc in P. apply H. exists se. exact P.
  - destruct (phase s k) eqn:Pk; try apply H. simpl. intro A. apply active_set_cases in A.
    destruct A as [[_ [se A]]|[_ A]]; [discriminate|apply H; exact A].
  - destruct (phase s k) eqn:Pk; try apply H. destruct (holder s) eqn:Ho; [intro A; apply H in A; congruence|].
    simpl. intro A. apply active_set_cases in A. destruct A as [[E _]|[_ A]]; [subst; reflexivity|].
    apply H in A. congruence.
  - exfalso. apply NL. exists k. reflexivity.
  - destruct (phase s k) eqn:Pk; try apply H. simpl. intro A. apply active_set_cases in A.
    destruct A as [[_ [se0 A]]|[E A]]; [discriminate|].
    apply H in A. assert (holder s = Some k) by (apply H; exists se; exact Pk). congruence.
  - destruct (phase s k) eqn:Pk; try apply H; simpl; intro A; apply active_set_cases in A;
      destruct A as [[_ [se0 A]]|[E A]]; try discriminate; try (apply H; exact A).
    apply H in A. assert (holder s = Some k) by (apply H; exists se; exact Pk). congruence.
  - destruct (phase s k) eqn:Pk; try apply H. simpl. intro A. apply active_set_cases in A.
    destruct A as [[E _]|[_ A]]; [subst; apply H; exists se; exact Pk|apply H; exact A].
  - destruct (phase s k) eqn:Pk; try apply H. destruct (se_listed se || negb (se_watch se)); [apply H|].
    simpl. intro A. apply active_set_cases in A.
    destruct A as [[E _]|[_ A]]; [subst; apply H; exists se; exact Pk|apply H; exact A].
  - destruct (phase s k) eqn:Pk; try apply H. destruct (se_init se); [apply H|].
    simpl. intro A. apply active_set_cases in A.
    destruct A as [[E _]|[_ A]]; [subst; apply H; exists se; exact Pk|apply H; exact A].
  - destruct (phase s k) eqn:Pk; try apply H. destruct (se_queue se) as [|[? ?] ?]; [apply H|].
    simpl. intro A. apply active_set_cases in A.
    destruct A as [[E _]|[_ A]]; [subst; apply H; exists se; exact Pk|apply H; exact A].
  - destruct (phase s k) eqn:Pk; try apply H. destruct (nth_error (se_tasks se) j0); [|apply H].
    simpl. intros [se1 P].
    change (phase (set_phase s k (Active (mkSe (se_watch se) (se_listed se) (se_init se) (se_queue se) (remove_nth j0 (se_tasks se))))) j = Active se1) in P.
    assert (A : active (set_phase s k (Active (mkSe (se_watch se) (se_listed se) (se_init se) (se_queue se) (remove_nth j0 (se_tasks se))))) j) by (exists se1; exact P).
    apply active_set_cases in A.
    destruct A as [[E _]|[_ A]]; [subst; apply H; exists se; exact Pk|apply H; exact A].
  - destruct (phase s k) eqn:Pk; try apply H. destruct (nth_error (se_tasks se) j0); [|apply H].
    simpl. intro A. apply active_set_cases in A.
    destruct A as [[E _]|[_ A]]; [subst; apply H; exists se; exact Pk|apply H; exact A].
Qed.

Lemma hexact_run : forall evs s, Forall (fun e => ~ lease_loss e) evs -> hexact s -> hexact (run s evs).
Proof.
  induction evs as [|e t IH]; intros s F H; simpl; [exact H|]. inversion F; subst.
  apply IH; [assumption|]. apply hexact_step; assumption.
Qed.
Lemma hexact_init : hexact init.
Proof. intros k [se P]. unfold phase in P. simpl in P. destruct k; discriminate. Qed.

(* withActiveLock.  The key /selfmon/active is always bound to the lease of a
   running session, so at most one session holds it ... *)
Theorem one_leased : forall evs k,
  let s := run init evs in holder s = Some k -> active s k.
Proof. intros evs k s H. apply (hvalid_run evs init hvalid_init). exact H. Qed.

(* ... and two sessions can run at the same time only while one of them has
   lost its lease and not yet noticed (stale) *)
Theorem one_active : forall evs k1 k2,
  let s := run init evs in
  active s k1 -> active s k2 -> k1 <> k2 -> stale s k1 \/ stale s k2.
Proof.
  intros evs k1 k2 s A1 A2 N. unfold stale.
  destruct (holder s) as [h|] eqn:Ho.
  - destruct (Nat.eq_dec h k1); [right|left]; split; auto; congruence.
  - left. split; [exact A1|discriminate].
Qed.

(* without lease losses nobody is ever stale: a single active watcher *)
Theorem one_active_no_loss : forall evs k1 k2 se1 se2,
  Forall (fun e => ~ lease_loss e) evs ->
  let s := run init evs in
  phase s k1 = Active se1 -> phase s k2 = Active se2 -> k1 = k2.
Proof.
  intros evs k1 k2 se1 se2 F s P1 P2.
  pose proof (hexact_run evs init F hexact_init) as H.
  assert (holder s = Some k1) by (apply H; exists se1; exact P1).
  assert (holder s = Some k2) by (apply H; exists se2; exact P2). congruence.
Qed.

(* the window exists: after the lease is lost and before the old session
   notices, another watcher registers and both run *)
Example double_active_window :
  let s := run init [ESpawn; ESpawn; EStart 0; EStart 1; ERegister 0; ELeaseLost 0; ERegister 1] in
  active s 0 /\ active s 1 /\ stale s 0 /\ holder s = Some 1.
Proof.
  vm_compute. repeat split; try (eexists; reflexivity); discriminate.
Qed.

(* the hypotheses are satisfiable, and the statement is not vacuous *)
Example down_on_lapse_example :
  let evs := [EAddNode 0; EHeartbeat 0; ECreate 0; EReport 0 true true; ESpawn; EStart 0; ERegister 0; EWatch 0] in
  let s := run init evs in
  (exists se, phase s 0 = Active se) /\ memn 0 (alive s) = true /\
  map w_st (wls s) = [Some (true, true)] /\
  let s1 := step s (ELapse 0) in
  map w_st (wls (settle (settle_bound s1 0) 0 s1)) = [Some (false, false)].
Proof. vm_compute. split; [eexists; reflexivity|auto]. Qed.

(* ---- the start order before /repo commit 26913a3 ----
   monitor started initNodeStatus first and the watch was opened later by a pool
   goroutine: the init pass did not wait for the watch. *)
Definition old_step (s : st) (e : event) : st :=
  match e with
  | EInitList k =>
      match phase s k with
      | Active se => if se_listed se then s
                     else set_phase s k (Active (mkSe (se_watch se) true (nodes s) (se_queue se) (se_tasks se)))
      | _ => s
      end
  | _ => step s e
  end.
Definition old_run (s : st) (evs : list event) : st := fold_left old_step evs s.

(* lock taken, init pass over (node 0 found alive), watch not yet open; then
   the status of node 0 disappears; then the watcher does everything it can *)
Definition old_witness : list event :=
  [EAddNode 0; EHeartbeat 0; ECreate 0; EReport 0 true true; ESpawn; EStart 0; ERegister 0;
   EInitList 0; EInitRead 0;
   ELapse 0;
   EWatch 0; EInitList 0; EInitRead 0; EDeliver 0; EHandle 0 0].

Theorem old_order_missed_lapse :
  let s := old_run init old_witness in
  (exists se, phase s 0 = Active se /\ se_watch se = true /\ se_listed se = true /\
              se_init se = [] /\ se_queue se = [] /\ se_tasks se = []) /\
  memn 0 (alive s) = false /\ map w_st (wls s) = [Some (true, true)].
Proof. vm_compute. split; [eexists; repeat split|auto]. Qed.

(* the same schedule under the repaired order ends with the workload down *)
Example new_order_catches_lapse :
  let s1 := run init [EAddNode 0; EHeartbeat 0; ECreate 0; EReport 0 true true; ESpawn; EStart 0; ERegister 0;
                      EInitList 0; EInitRead 0; ELapse 0] in
  map w_st (wls (settle (settle_bound s1 0) 0 s1)) = [Some (false, false)].
Proof. vm_compute. reflexivity. Qed.

(* ------------------------------------------------------------------ *)
(* liveness under all interleavings                                    *)
(* ------------------------------------------------------------------ *)

(* events that end the session of watcher k *)
(* ... or make one of its handlers fail (SetNode error: the code does not retry) *)
Definition ends (k : nat) (e : event) : Prop := e = EStop k \/ e = EExpire k \/ exists j, e = EHandleFail k j.

(* the handler for n has run (as one of the first [length t - base] entries of the trace)
   and covered every workload in [must] *)
Definition handled_since (base : nat) (k : nat) (n : node) (must : list wid) (t : list tev) : Prop :=
  exists ws, In (THandled k n ws) (firstn (length t - base) t) /\ incl must ws.

Definition pending (s : st) (k : nat) (n : node) : Prop :=
  exists se, phase s k = Active se /\ (In (n, false) (se_queue se) \/ In n (se_tasks se)).

(* workloads are only appended and never change node *)
Definition extends (l0 l : list wl) : Prop :=
  exists more, map w_node l = map w_node l0 ++ more.

Lemma on_node_from_app : forall n l1 l2 i,
  on_node_from n (l1 ++ l2) i = on_node_from n l1 i ++ on_node_from n l2 (i + length l1).
Proof.
  intros n l1. induction l1 as [|w t IH]; intros l2 i; simpl.
  - rewrite Nat.add_0_r. reflexivity.
  - rewrite IH. replace (S i + length t) with (i + S (length t)) by lia.
    destruct (w_node w =? n); reflexivity.
Qed.
Lemma on_node_from_nodes : forall n l l' i, map w_node l = map w_node l' ->
  on_node_from n l i = on_node_from n l' i.
Proof.
  intros n l. induction l as [|w t IH]; intros [|w' t'] i E; simpl in *; try discriminate; [reflexivity|].
  inversion E. rewrite H0. rewrite (IH t' (S i) H1). reflexivity.
Qed.

Lemma extends_refl : forall l, extends l l.
Proof. intro l. exists []. rewrite app_nil_r. reflexivity. Qed.
Lemma extends_same_nodes : forall l0 l l', extends l0 l -> map w_node l' = map w_node l -> extends l0 l'.
Proof. intros l0 l l' [m E] H. exists m. congruence. Qed.
Lemma extends_snoc : forall l0 l w, extends l0 l -> extends l0 (l ++ [w]).
Proof. intros l0 l w [m E]. exists (m ++ [w_node w]). rewrite map_app, E, app_assoc. reflexivity. Qed.

Lemma on_node_extends : forall n l0 l, extends l0 l -> incl (on_node n l0) (on_node n l).
Proof.
  intros n l0 l [m E]. unfold on_node.
  rewrite (on_node_from_nodes n l (l0 ++ map (fun x => mkWl x None) m) 0).
  - rewrite on_node_from_app. intros x Hx. apply in_or_app. left. exact Hx.
  - rewrite E, map_app, map_map. simpl. rewrite map_id. reflexivity.
Qed.

Lemma map_node_upd : forall i r h l,
  map w_node (upd i (fun x => mkWl (w_node x) (Some (r, h))) l) = map w_node l.
Proof. intros i r h l. revert i. induction l as [|w t IH]; intros [|i]; simpl; auto. rewrite IH. reflexivity. Qed.

Lemma In_remove_nth : forall (n : node) j l x, nth_error l j = Some x -> x <> n -> In n l -> In n (remove_nth j l).
Proof.
  intros n j l. revert j. induction l as [|y t IH]; intros [|j] x H Hx Hin; simpl in *; try discriminate.
  - inversion H; subst. destruct Hin; [congruence|assumption].
  - destruct Hin as [Hin|Hin]; [left; exact Hin|right; eapply IH; eauto].
Qed.

(* the state of the obligation created by a DELETE event for n seen by watcher k *)
Record track (s0 s : st) (k : nat) (n : node) : Prop := mkTrack {
  tr_ext : extends (wls s0) (wls s);
  tr_obl : pending s k n \/
           exists new ws, trace s = new ++ trace s0 /\ In (THandled k n ws) new /\ incl (on_node n (wls s0)) ws;
  tr_trace : exists new, trace s = new ++ trace s0
}.

Lemma pending_other : forall s k n k' p, k' <> k -> pending s k n -> pending (set_phase s k' p) k n.
Proof.
  intros s k n k' p Hk [se [P H]]. exists se. split; [|exact H].
  rewrite phase_set_other by exact Hk. exact P.
Qed.
Lemma pending_same : forall s k n se se',
  phase s k = Active se ->
  (In (n, false) (se_queue se) -> In (n, false) (se_queue se') \/ In n (se_tasks se')) ->
  (In n (se_tasks se) -> In n (se_tasks se')) ->
  pending s k n -> pending (set_phase s k (Active se')) k n.
Proof.
  intros s k n se se' P Hq Ht [se1 [P1 H]]. rewrite P in P1. inversion P1; subst se1.
  exists se'. split; [apply phase_set_same; eapply phase_active_lt; exact P|].
  destruct H as [H|H]; [apply Hq in H; tauto|right; auto].
Qed.
Lemma pending_frame : forall s s' k n, phase s' k = phase s k -> pending s k n -> pending s' k n.
Proof. intros s s' k n E [se [P H]]. exists se. split; [congruence|exact H]. Qed.

Lemma extends_trans : forall a b c, extends a b -> extends b c -> extends a c.
Proof. intros a b c [m1 E1] [m2 E2]. exists (m1 ++ m2). rewrite E2, E1, app_assoc. reflexivity. Qed.

Lemma trace_grows : forall s e, exists pre, trace (step s e) = pre ++ trace s.
Proof.
  intros s e. destruct e; simpl;
    repeat match goal with
    | |- context [if ?b then _ else _] => destruct b
    | |- context [match phase ?s ?k with _ => _ end] => destruct (phase s k)
    | |- context [match holder ?s with _ => _ end] => destruct (holder s)
    | |- context [match se_init ?x with _ => _ end] => destruct (se_init x)
    | |- context [match se_queue ?x with _ => _ end] => destruct (se_queue x) as [|[? ?] ?]
    | |- context [match nth_error ?a ?b with _ => _ end] => destruct (nth_error a b)
    end; simpl; try (exists []; reflexivity).
  eexists [_]. reflexivity.
Qed.

Lemma wls_extends : forall s e, extends (wls s) (wls (step s e)).
Proof.
  intros s e. destruct e; simpl;
    repeat match goal with
    | |- context [if ?b then _ else _] => destruct b
    | |- context [match phase ?s ?k with _ => _ end] => destruct (phase s k)
    | |- context [match holder ?s with _ => _ end] => destruct (holder s)
    | |- context [match se_init ?x with _ => _ end] => destruct (se_init x)
    | |- context [match se_queue ?x with _ => _ end] => destruct (se_queue x) as [|[? ?] ?]
    | |- context [match nth_error ?a ?b with _ => _ end] => destruct (nth_error a b)
    end; simpl; try apply extends_refl.
  - apply extends_snoc. apply extends_refl.
  - eapply extends_same_nodes; [apply extends_refl|]. apply map_node_upd.
  - eapply extends_same_nodes; [apply extends_refl|]. apply map_node_down.
Qed.


Lemma pending_enqueue : forall s k n m a al,
  pending s k n -> pending (set_ws (set_alive s al) (map (enqueue m a) (ws s))) k n.
Proof.
  intros s k n m a al [se [P H]]. unfold pending. rewrite phase_enqueue_any, P. simpl.
  destruct (se_watch se); [|exists se; auto].
  eexists. split; [reflexivity|]. simpl. destruct H as [H|H]; [left; apply in_or_app; left; exact H|right; exact H].
Qed.

Lemma pending_step : forall s k n e, ~ ends k e -> pending s k n ->
  pending (step s e) k n \/ trace (step s e) = THandled k n (on_node n (wls s)) :: trace s.
Proof.
  intros s k n e NE Pd.
  destruct e; simpl.
  - (* EAddNode *) destruct (memn n0 (nodes s)); left; [exact Pd|eapply pending_frame; [|exact Pd]; reflexivity].
  - (* EHeartbeat *) destruct (negb (memn n0 (nodes s))); [left; exact Pd|].
    destruct (memn n0 (alive s)); [left; exact Pd|]. left. apply pending_enqueue. exact Pd.
  - (* ELapse *) destruct (memn n0 (alive s)); [|left; exact Pd]. left. apply pending_enqueue. exact Pd.
  - (* ECreate *) destruct (memn n0 (nodes s)); left; [eapply pending_frame; [|exact Pd]; reflexivity|exact Pd].
  - (* EReport *) left. eapply pending_frame; [|exact Pd]. reflexivity.
  - (* ESpawn *) left. destruct Pd as [se [P H]]. exists se. split; [|exact H].
    unfold phase in *. simpl. rewrite app_nth1; [exact P|]. eapply phase_active_lt. exact P.
  - (* EStart *) destruct (phase s k0) eqn:Pk; try (left; exact Pd).
    destruct (Nat.eq_dec k0 k) as [E|E]; [subst; destruct Pd as [se [P _]]; congruence|].
    left. apply pending_other; assumption.
  - (* ERegister *) destruct (phase s k0) eqn:Pk; try (left; exact Pd).
    destruct (holder s); [left; exact Pd|].
    destruct (Nat.eq_dec k0 k) as [E|E]; [subst; destruct Pd as [se [P _]]; congruence|].
    left. eapply pending_frame; [|apply (pending_other s k n k0 (Active fresh) E Pd)]. reflexivity.
  - (* ELeaseLost *) left. destruct (holder s) as [k'|]; [|exact Pd]. destruct (k' =? k0); [|exact Pd].
    eapply pending_frame; [|exact Pd]. reflexivity.
  - (* EExpire *) destruct (Nat.eq_dec k0 k) as [E|E]; [subst; exfalso; apply NE; right; left; reflexivity|].
    destruct (phase s k0); try (left; exact Pd).
    left. eapply pending_frame; [|apply (pending_other s k n k0 Waiting E Pd)]. reflexivity.
  - (* EStop *) destruct (Nat.eq_dec k0 k) as [E|E]; [subst; exfalso; apply NE; left; reflexivity|].
    destruct (phase s k0); try (left; exact Pd); left.
    + apply pending_other; assumption.
    + apply pending_other; assumption.
    + eapply pending_frame; [|apply (pending_other s k n k0 Stopped E Pd)]. reflexivity.
  - (* EWatch *) destruct (phase s k0) eqn:Pk; try (left; exact Pd). left.
    destruct (Nat.eq_dec k0 k) as [E|E]; [subst|apply pending_other; assumption].
    eapply pending_same; [exact Pk| | |exact Pd]; simpl; auto.
  - (* EInitList *) destruct (phase s k0) eqn:Pk; try (left; exact Pd).
    destruct (se_listed se || negb (se_watch se)); [left; exact Pd|]. left.
    destruct (Nat.eq_dec k0 k) as [E|E]; [subst|apply pending_other; assumption].
    eapply pending_same; [exact Pk| | |exact Pd]; simpl; auto.
  - (* EInitRead *) destruct (phase s k0) eqn:Pk; try (left; exact Pd).
    destruct (se_init se) eqn:Ini; [left; exact Pd|]. left.
    destruct (Nat.eq_dec k0 k) as [E|E]; [subst|apply pending_other; assumption].
    eapply pending_same; [exact Pk| | |exact Pd]; simpl; auto.
    intro H. destruct (memn n0 (alive s)); [exact H|apply in_or_app; left; exact H].
  - (* EDeliver *) destruct (phase s k0) eqn:Pk; try (left; exact Pd).
    destruct (se_queue se) as [|[m a] r] eqn:Qu; [left; exact Pd|]. left.
    destruct (Nat.eq_dec k0 k) as [E|E]; [subst|apply pending_other; assumption].
    eapply pending_same; [exact Pk| | |exact Pd]; simpl.
    + rewrite Qu. intros [H|H]; [inversion H; subst; right; apply in_or_app; right; left; reflexivity|left; exact H].
    + intro H. destruct a; [exact H|apply in_or_app; left; exact H].
  - (* EHandle *) destruct (phase s k0) eqn:Pk; try (left; exact Pd).
    destruct (nth_error (se_tasks se) j) as [m|] eqn:Nt; [|left; exact Pd].
    destruct (Nat.eq_dec k0 k) as [E|E].
    + subst. destruct (Nat.eq_dec m n) as [En|En]; [subst; right; reflexivity|]. left.
      eapply pending_frame;
        [|apply (pending_same s k n se (mkSe (se_watch se) (se_listed se) (se_init se) (se_queue se) (remove_nth j (se_tasks se))) Pk); [| |exact Pd]];
        [reflexivity|simpl; auto|simpl].
      intro H. eapply In_remove_nth; eauto.
    + left. eapply pending_frame; [|apply (pending_other s k n k0 (Active (mkSe (se_watch se) (se_listed se) (se_init se) (se_queue se) (remove_nth j (se_tasks se)))) E Pd)]. reflexivity.
  - (* EHandleFail *) destruct (Nat.eq_dec k0 k) as [E|E]; [subst; exfalso; apply NE; right; right; exists j; reflexivity|].
    destruct (phase s k0) eqn:Pk; try (left; exact Pd).
    destruct (nth_error (se_tasks se) j); [|left; exact Pd]. left. apply pending_other; assumption.
Qed.

Lemma track_step : forall s0 s k n e, track s0 s k n -> ~ ends k e -> track s0 (step s e) k n.
Proof.
  intros s0 s k n e [Ex Ob [new0 Tr]] NE.
  destruct (trace_grows s e) as [pre Tg].
  constructor.
  - eapply extends_trans; [exact Ex|apply wls_extends].
  - destruct Ob as [Pd|[new [ws [T [I C]]]]].
    + destruct (pending_step s k n e NE Pd) as [Pd'|H]; [left; exact Pd'|right].
      exists (THandled k n (on_node n (wls s)) :: new0), (on_node n (wls s)).
      split; [rewrite H, Tr; reflexivity|]. split; [left; reflexivity|].
      apply on_node_extends. exact Ex.
    + right. exists (pre ++ new), ws. split; [rewrite Tg, T, app_assoc; reflexivity|].
      split; [apply in_or_app; right; exact I|exact C].
  - exists (pre ++ new0). rewrite Tg, Tr, app_assoc. reflexivity.
Qed.

Lemma track_run : forall evs s0 s k n, track s0 s k n -> Forall (fun e => ~ ends k e) evs ->
  track s0 (run s evs) k n.
Proof.
  induction evs as [|e t IH]; intros s0 s k n T F; simpl; [exact T|].
  inversion F; subst. apply IH; [apply track_step; assumption|assumption].
Qed.

Lemma next_event_not_end : forall s k e, next_event s k = Some e -> ~ ends k e.
Proof.
  intros s k e H. unfold next_event in H. destruct (phase s k); try discriminate.
  destruct (negb (se_watch se)); [inversion H; intros [X|[X|[j0 X]]]; discriminate|].
  destruct (negb (se_listed se)); [inversion H; intros [X|[X|[j0 X]]]; discriminate|].
  destruct (se_init se); [|inversion H; intros [X|[X|[j0 X]]]; discriminate].
  destruct (se_queue se); [|inversion H; intros [X|[X|[j0 X]]]; discriminate].
  destruct (se_tasks se); [discriminate|inversion H; intros [X|[X|[j0 X]]]; discriminate].
Qed.

Lemma track_settle : forall fuel s0 s k n, track s0 s k n -> track s0 (settle fuel k s) k n.
Proof.
  induction fuel as [|f IH]; intros s0 s k n T; simpl; [exact T|].
  destruct (next_event s k) as [e|] eqn:N; [|exact T].
  apply IH. apply track_step; [exact T|]. eapply next_event_not_end. exact N.
Qed.

Lemma settle_terminates : forall fuel s k se, phase s k = Active se -> msr s se <= fuel ->
  next_event (settle fuel k s) k = None.
Proof.
  induction fuel as [|f IH]; intros s k se P M; simpl.
  - destruct (next_event s k) as [e|] eqn:N; [|first [exact N|reflexivity]].
    destruct (settle_step s k se e P N) as [se' [_ [Lt _]]]. lia.
  - destruct (next_event s k) as [e|] eqn:N; [|first [exact N|reflexivity]].
    destruct (settle_step s k se e P N) as [se' [P' [Lt _]]]. apply (IH _ _ se' P'). lia.
Qed.

Lemma none_not_pending : forall s k n, next_event s k = None -> ~ pending s k n.
Proof.
  intros s k n N [se [P H]]. unfold next_event in N. rewrite P in N.
  destruct (negb (se_watch se)); [discriminate|]. destruct (negb (se_listed se)); [discriminate|].
  destruct (se_init se); [|discriminate].
  destruct (se_queue se); [|discriminate]. destruct (se_tasks se); [|discriminate].
  destruct H as [H|H]; destruct H.
Qed.

Definition handledP (s0 s : st) (k : nat) (n : node) : Prop :=
  exists new ws, trace s = new ++ trace s0 /\ In (THandled k n ws) new /\ incl (on_node n (wls s0)) ws.

Lemma handled_settle : forall fuel s0 s k n, handledP s0 s k n -> handledP s0 (settle fuel k s) k n.
Proof.
  induction fuel as [|f IH]; intros s0 s k n H; simpl; [exact H|].
  destruct (next_event s k) as [e|]; [|exact H]. apply IH.
  destruct (trace_grows s e) as [pre Tg]. destruct H as [new [ws [T [I C]]]].
  exists (pre ++ new), ws. split; [rewrite Tg, T, app_assoc; reflexivity|].
  split; [apply in_or_app; right; exact I|exact C].
Qed.

(* C28, all interleavings: the status of n disappears while watcher k is
   active with its watch open; then ANY events follow (heartbeats, lapses,
   creations, agent reports, other watchers, steps of k in any order) as long
   as k's session is not ended; when k has finished its own steps, a handler
   for n has run after the lapse and covered every workload that was recorded
   on n at the lapse. *)
Theorem down_interleaved : forall evs1 evs2 k se n,
  let s0 := run init evs1 in
  phase s0 k = Active se -> se_watch se = true -> memn n (alive s0) = true ->
  Forall (fun e => ~ ends k e) evs2 ->
  let s2 := run (step s0 (ELapse n)) evs2 in
  let s3 := settle (settle_bound s2 k) k s2 in
  exists new ws, trace s3 = new ++ trace s0 /\ In (THandled k n ws) new /\ incl (on_node n (wls s0)) ws.
Proof.
  intros evs1 evs2 k se n s0 P W A F s2 s3.
  assert (T1 : track s0 (step s0 (ELapse n)) k n).
  { constructor.
    - apply wls_extends.
    - left. simpl. rewrite A. unfold pending. rewrite phase_enqueue_any, P. simpl. rewrite W.
      eexists. split; [reflexivity|]. left. simpl. apply in_or_app. right. left. reflexivity.
    - exists []. simpl. rewrite A. reflexivity. }
  assert (T2 : track s0 s2 k n) by (apply track_run; assumption).
  destruct T2 as [Ex2 [[se2 [P2 H2]]|Hd] Tr2].
  - assert (T3 : track s0 s3 k n).
    { apply track_settle. constructor; [exact Ex2|left; exists se2; auto|exact Tr2]. }
    destruct T3 as [_ [Pd|H] _]; [exfalso|exact H].
    eapply none_not_pending; [|exact Pd].
    apply (settle_terminates _ _ _ se2 P2). apply msr_bound. exact P2.
  - apply (handled_settle _ s0 s2 k n). exact Hd.
Qed.

(* ---- all interleavings after an activation ---- *)

(* what the session still has to look at for n, regardless of n's status *)
Definition pendingI (s : st) (k : nat) (n : node) : Prop :=
  exists se, phase s k = Active se /\
    (In (n, false) (se_queue se) \/ In n (se_tasks se) \/
     (se_listed se = true /\ In n (se_init se)) \/ (se_listed se = false /\ In n (nodes s))).

Lemma pendingI_other : forall s k n k' p, k' <> k -> pendingI s k n -> pendingI (set_phase s k' p) k n.
Proof.
  intros s k n k' p Hk [se [P H]]. exists se. split; [|exact H].
  rewrite phase_set_other by exact Hk. exact P.
Qed.
Lemma pendingI_frame : forall s s' k n, phase s' k = phase s k -> nodes s' = nodes s ->
  pendingI s k n -> pendingI s' k n.
Proof. intros s s' k n E En [se [P H]]. exists se. split; [congruence|]. rewrite En. exact H. Qed.
Lemma pendingI_same : forall s k n se se',
  phase s k = Active se ->
  (In (n, false) (se_queue se) \/ In n (se_tasks se) \/
     (se_listed se = true /\ In n (se_init se)) \/ (se_listed se = false /\ In n (nodes s)) ->
   In (n, false) (se_queue se') \/ In n (se_tasks se') \/
     (se_listed se' = true /\ In n (se_init se')) \/ (se_listed se' = false /\ In n (nodes s))) ->
  pendingI s k n -> pendingI (set_phase s k (Active se')) k n.
Proof.
  intros s k n se se' P Hq [se1 [P1 H]]. rewrite P in P1. inversion P1; subst se1.
  exists se'. split; [apply phase_set_same; eapply phase_active_lt; exact P|]. simpl. auto.
Qed.

Lemma pendingI_enqueue : forall s k n m a al,
  pendingI s k n -> pendingI (set_ws (set_alive s al) (map (enqueue m a) (ws s))) k n.
Proof.
  intros s k n m a al [se [P H]]. unfold pendingI. rewrite phase_enqueue_any, P. simpl.
  destruct (se_watch se); [|exists se; auto].
  eexists. split; [reflexivity|]. simpl.
  destruct H as [H|[H|[H|H]]]; auto. left. apply in_or_app. left. exact H.
Qed.

(* one step: the obligation stays, or the handler runs, or the init pass finds n alive *)
Lemma pendingI_step : forall s k n e, ~ ends k e -> pendingI s k n ->
  pendingI (step s e) k n \/
  trace (step s e) = THandled k n (on_node n (wls s)) :: trace s \/
  memn n (alive s) = true.
Proof.
  intros s k n e NE Pd.
  destruct e; simpl.
  - (* EAddNode *) destruct (memn n0 (nodes s)) eqn:M; left; [exact Pd|].
    destruct Pd as [se [P H]]. exists se. split; [exact P|]. simpl.
    destruct H as [H|[H|[H|[H1 H2]]]]; auto. right. right. right. split; [exact H1|apply in_or_app; left; exact H2].
  - (* EHeartbeat *) destruct (negb (memn n0 (nodes s))); [left; exact Pd|].
    destruct (memn n0 (alive s)); [left; exact Pd|]. left. apply pendingI_enqueue. exact Pd.
  - (* ELapse *) destruct (memn n0 (alive s)); [|left; exact Pd]. left. apply pendingI_enqueue. exact Pd.
  - (* ECreate *) destruct (memn n0 (nodes s)); left; [eapply pendingI_frame; [| |exact Pd]; reflexivity|exact Pd].
  - (* EReport *) left. eapply pendingI_frame; [| |exact Pd]; reflexivity.
  - (* ESpawn *) left. destruct Pd as [se [P H]]. exists se. split; [|exact H].
    unfold phase in *. simpl. rewrite app_nth1; [exact P|]. eapply phase_active_lt. exact P.
  - (* EStart *) destruct (phase s k0) eqn:Pk; try (left; exact Pd).
    destruct (Nat.eq_dec k0 k) as [E|E]; [subst; destruct Pd as [se [P _]]; congruence|].
    left. apply pendingI_other; assumption.
  - (* ERegister *) destruct (phase s k0) eqn:Pk; try (left; exact Pd).
    destruct (holder s); [left; exact Pd|].
    destruct (Nat.eq_dec k0 k) as [E|E]; [subst; destruct Pd as [se [P _]]; congruence|].
    left. eapply pendingI_frame; [| |apply (pendingI_other s k n k0 (Active fresh) E Pd)]; reflexivity.
  - (* ELeaseLost *) left. destruct (holder s) as [k'|]; [|exact Pd]. destruct (k' =? k0); [|exact Pd].
    eapply pendingI_frame; [| |exact Pd]; reflexivity.
  - (* EExpire *) destruct (Nat.eq_dec k0 k) as [E|E]; [subst; exfalso; apply NE; right; left; reflexivity|].
    destruct (phase s k0); try (left; exact Pd).
    left. eapply pendingI_frame; [| |apply (pendingI_other s k n k0 Waiting E Pd)]; reflexivity.
  - (* EStop *) destruct (Nat.eq_dec k0 k) as [E|E]; [subst; exfalso; apply NE; left; reflexivity|].
    destruct (phase s k0); try (left; exact Pd); left.
    + apply pendingI_other; assumption.
    + apply pendingI_other; assumption.
    + eapply pendingI_frame; [| |apply (pendingI_other s k n k0 Stopped E Pd)]; reflexivity.
  - (* EWatch *) destruct (phase s k0) eqn:Pk; try (left; exact Pd). left.
    destruct (Nat.eq_dec k0 k) as [E|E]; [subst|apply pendingI_other; assumption].
    eapply pendingI_same; [exact Pk| |exact Pd]; simpl; auto.
  - (* EInitList *) destruct (phase s k0) eqn:Pk; try (left; exact Pd).
    destruct (se_listed se || negb (se_watch se)) eqn:G; [left; exact Pd|]. left.
    destruct (Nat.eq_dec k0 k) as [E|E]; [subst|apply pendingI_other; assumption].
    eapply pendingI_same; [exact Pk| |exact Pd]; simpl.
    apply orb_false_iff in G. destruct G as [G _].
    intros [H|[H|[[H _]|[_ H]]]]; auto; congruence.
  - (* EInitRead *) destruct (phase s k0) eqn:Pk; try (left; exact Pd).
    destruct (se_init se) as [|m r] eqn:Ini; [left; exact Pd|].
    destruct (Nat.eq_dec k0 k) as [E|E]; [subst|left; apply pendingI_other; assumption].
    destruct Pd as [se1 [P1 H]]. rewrite Pk in P1. inversion P1; subst se1. rewrite Ini in H.
    destruct (memn m (alive s)) eqn:Al.
    + (* m is alive: if m = n the obligation legitimately disappears *)
      destruct H as [H|[H|[[H1 [H2|H2]]|H]]].
      * left. eexists. split; [apply phase_set_same; eapply phase_active_lt; exact Pk|]. simpl. auto.
      * left. eexists. split; [apply phase_set_same; eapply phase_active_lt; exact Pk|]. simpl. auto.
      * subst m. right. right. exact Al.
      * left. eexists. split; [apply phase_set_same; eapply phase_active_lt; exact Pk|]. simpl. auto.
      * left. eexists. split; [apply phase_set_same; eapply phase_active_lt; exact Pk|]. simpl. auto.
    + left. eexists. split; [apply phase_set_same; eapply phase_active_lt; exact Pk|]. simpl.
      destruct H as [H|[H|[[H1 [H2|H2]]|H]]]; auto.
      * right. left. apply in_or_app. left. exact H.
      * subst m. right. left. apply in_or_app. right. left. reflexivity.
  - (* EDeliver *) destruct (phase s k0) eqn:Pk; try (left; exact Pd).
    destruct (se_queue se) as [|[m a] r] eqn:Qu; [left; exact Pd|]. left.
    destruct (Nat.eq_dec k0 k) as [E|E]; [subst|apply pendingI_other; assumption].
    eapply pendingI_same; [exact Pk| |exact Pd]; simpl. rewrite Qu.
    intros [[H|H]|[H|[H|H]]]; auto.
    + inversion H; subst. right. left. apply in_or_app. right. left. reflexivity.
    + right. left. destruct a; [exact H|apply in_or_app; left; exact H].
  - (* EHandle *) destruct (phase s k0) eqn:Pk; try (left; exact Pd).
    destruct (nth_error (se_tasks se) j) as [m|] eqn:Nt; [|left; exact Pd].
    destruct (Nat.eq_dec k0 k) as [E|E].
    + subst. destruct (Nat.eq_dec m n) as [En|En]; [subst; right; left; reflexivity|]. left.
      eapply pendingI_frame;
        [| |apply (pendingI_same s k n se (mkSe (se_watch se) (se_listed se) (se_init se) (se_queue se) (remove_nth j (se_tasks se))) Pk); [|exact Pd]];
        [reflexivity|reflexivity|simpl].
      intros [H|[H|H]]; auto. right. left. eapply In_remove_nth; eauto.
    + left. eapply pendingI_frame; [| |apply (pendingI_other s k n k0 (Active (mkSe (se_watch se) (se_listed se) (se_init se) (se_queue se) (remove_nth j (se_tasks se)))) E Pd)]; reflexivity.
  - (* EHandleFail *) destruct (Nat.eq_dec k0 k) as [E|E]; [subst; exfalso; apply NE; right; right; exists j; reflexivity|].
    destruct (phase s k0) eqn:Pk; try (left; exact Pd).
    destruct (nth_error (se_tasks se) j); [|left; exact Pd]. left. apply pendingI_other; assumption.
Qed.

Definition revived (evs : list event) (s : st) (n : node) : Prop :=
  exists pre post, evs = pre ++ post /\ memn n (alive (run s pre)) = true.

Lemma handled_step : forall s0 s k n e, handledP s0 s k n -> handledP s0 (step s e) k n.
Proof.
  intros s0 s k n e [new [ws [T [I C]]]]. destruct (trace_grows s e) as [pre Tg].
  exists (pre ++ new), ws. split; [rewrite Tg, T, app_assoc; reflexivity|].
  split; [apply in_or_app; right; exact I|exact C].
Qed.
Lemma handled_run : forall evs s0 s k n, handledP s0 s k n -> handledP s0 (run s evs) k n.
Proof. induction evs as [|e t IH]; intros; simpl; [assumption|]. apply IH. apply handled_step. assumption. Qed.

Record trackI (s0 s : st) (k : nat) (n : node) : Prop := mkTrackI {
  ti_ext : extends (wls s0) (wls s);
  ti_pend : pendingI s k n;
  ti_trace : exists new, trace s = new ++ trace s0
}.

Lemma trackI_step : forall s0 s k n e, trackI s0 s k n -> ~ ends k e ->
  trackI s0 (step s e) k n \/ handledP s0 (step s e) k n \/ memn n (alive s) = true.
Proof.
  intros s0 s k n e [Ex Pd [new0 Tr]] NE.
  destruct (pendingI_step s k n e NE Pd) as [Pd'|[H|H]].
  - left. constructor; [eapply extends_trans; [exact Ex|apply wls_extends]|exact Pd'|].
    destruct (trace_grows s e) as [pre Tg]. exists (pre ++ new0). rewrite Tg, Tr, app_assoc. reflexivity.
  - right. left. exists (THandled k n (on_node n (wls s)) :: new0), (on_node n (wls s)).
    split; [rewrite H, Tr; reflexivity|]. split; [left; reflexivity|apply on_node_extends; exact Ex].
  - right. right. exact H.
Qed.

Lemma trackI_run : forall evs s0 s k n, trackI s0 s k n -> Forall (fun e => ~ ends k e) evs ->
  trackI s0 (run s evs) k n \/ handledP s0 (run s evs) k n \/ revived evs s n.
Proof.
  induction evs as [|e t IH]; intros s0 s k n T F; simpl; [left; exact T|].
  inversion F; subst.
  destruct (trackI_step s0 s k n e T H1) as [T'|[H|H]].
  - destruct (IH s0 (step s e) k n T' H2) as [A|[A|[pre [post [E A]]]]]; auto.
    right. right. exists (e :: pre), post. split; [rewrite E; reflexivity|exact A].
  - right. left. apply handled_run. exact H.
  - right. right. exists [], (e :: t). split; [reflexivity|exact H].
Qed.

Lemma trackI_settle : forall fuel s0 s k n, trackI s0 s k n ->
  trackI s0 (settle fuel k s) k n \/ handledP s0 (settle fuel k s) k n \/ memn n (alive s) = true.
Proof.
  induction fuel as [|f IH]; intros s0 s k n T; simpl; [left; exact T|].
  destruct (next_event s k) as [e|] eqn:N; [|left; exact T].
  destruct (trackI_step s0 s k n e T (next_event_not_end s k e N)) as [T'|[H|H]].
  - destruct (IH s0 (step s e) k n T') as [A|[A|A]]; auto.
    right. right.
    destruct T as [_ [se [P _]] _].
    destruct (settle_step s k se e P N) as [_ [_ [_ [_ [Al _]]]]]. rewrite <- Al. exact A.
  - right. left. apply handled_settle. exact H.
  - right. right. exact H.
Qed.

Lemma none_not_pendingI : forall s k n, next_event s k = None -> ~ pendingI s k n.
Proof.
  intros s k n N [se [P H]]. unfold next_event in N. rewrite P in N.
  destruct (negb (se_watch se)); [discriminate|].
  destruct (se_listed se) eqn:L; simpl in N; [|discriminate].
  destruct (se_init se); [|discriminate].
  destruct (se_queue se); [|discriminate]. destruct (se_tasks se); [|discriminate].
  destruct H as [H|[H|[[_ H]|[H _]]]]; [destruct H|destruct H|destruct H|discriminate].
Qed.

(* C28, all interleavings, second half: watcher k takes the lock while node n
   has no status; then ANY events follow as long as k's session is not ended;
   when k has finished its own steps, either a handler for n has run and
   covered every workload recorded on n when k took the lock, or n's status
   came back at some point in between (the node is alive again). *)
Theorem activation_interleaved : forall evs1 evs2 k n,
  let s0 := run init evs1 in
  phase s0 k = Waiting -> holder s0 = None -> memn n (nodes s0) = true ->
  Forall (fun e => ~ ends k e) evs2 ->
  let s1 := step s0 (ERegister k) in
  let s2 := run s1 evs2 in
  let s3 := settle (settle_bound s2 k) k s2 in
  handledP s0 s3 k n \/ revived evs2 s1 n.
Proof.
  intros evs1 evs2 k n s0 P H Nn F s1 s2 s3.
  assert (L : k < length (ws s0)).
  { unfold phase in P. destruct (Nat.lt_ge_cases k (length (ws s0))); [assumption|].
    rewrite nth_overflow in P by assumption. discriminate. }
  assert (T1 : trackI s0 s1 k n).
  { constructor.
    - apply wls_extends.
    - exists fresh. split.
      + unfold s1. simpl. rewrite P, H. unfold phase. simpl. rewrite nth_upd_same by exact L. reflexivity.
      + right. right. right. split; [reflexivity|]. unfold s1. simpl. rewrite P, H. simpl. apply memn_In. exact Nn.
    - exists []. unfold s1. simpl. rewrite P, H. reflexivity. }
  destruct (trackI_run evs2 s0 s1 k n T1 F) as [T2|[Hd|R]].
  - fold s2 in T2. destruct (trackI_settle (settle_bound s2 k) s0 s2 k n T2) as [T3|[Hd|A]].
    + exfalso. fold s3 in T3. destruct T2 as [_ [se2 [P2 _]] _].
      eapply none_not_pendingI; [|exact (ti_pend _ _ _ _ T3)].
      apply (settle_terminates _ _ _ se2 P2). apply msr_bound. exact P2.
    + left. exact Hd.
    + right. exists evs2, []. split; [rewrite app_nil_r; reflexivity|exact A].
  - left. apply handled_settle. exact Hd.
  - right. exact R.
Qed.
